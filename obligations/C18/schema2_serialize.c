/* C18 (builderO): KSI_PublicationsFile_serialize + publicationsFileTLV_getSignatureTLVLength (publicationsfile.c).
 * Orchestration contract (publicationsfile.h: "signed data length ... how many first bytes of the serialized
 * publications file are or are going to be signed"; C18: "the byte range reported as signed is exactly everything
 * before the signature record"):
 *   output = "KSIPUBLF" ++ payload of the 0x700 TLV built from the file object with the publications-file schema table;
 *   the file object keeps a second private copy as its raw bytes (old raw bytes released exactly once);
 *   signedDataLength = length - (4 + payload length of the signature record) when the last record is 0x0704, else the
 *   whole length (a file that is still to be signed).
 * Real publicationsfile.c + compatibility.c (KSI_strncpy) included unmodified; plain mode.
 * BOUND: the record area is <= BODY_MAX octets (symbolic length memcpy); everything else symbolic. */
#include "env/common.h"
#include "env/stubs_base.h"
#include "publicationsfile.h"
#include "impl/publicationsfile_impl.h"
#include "tlv.h"
#include "tlv_template.h"
#include "compatibility.c"
#ifndef BODY_MAX
#define BODY_MAX 12
#endif

/* ---- ASSUMED callees: recording stubs that may fail ---- */
static char g_ctx_obj[8], g_tlv700[8], g_last_tlv[8];
static unsigned g_new_calls, g_free700, g_cons_calls, g_getraw700, g_getrawsig;
static const KSI_TlvTemplate *g_cons_tmpl; static const void *g_cons_payload;
static size_t g_n; static _Bool g_last_is_sig; static unsigned g_other_tag;
static unsigned char g_body[BODY_MAX]; static size_t g_body_len, g_sig_len; static unsigned char g_sig_payload[1];
static _Bool g_env_failed;
static int env_fail(void) { int e = nondet_int(); __CPROVER_assume(e != KSI_OK); g_env_failed = 1; return e; }
struct KSI_TLV_list_st g_lst;

int KSI_TLV_new(KSI_CTX *ctx, unsigned tag, int isLenient, int isForward, KSI_TLV **tlv) {
	__CPROVER_assert(tag == 0x700 && !isLenient && !isForward, "container TLV 0x700");
	if (nondet_bool()) return env_fail();
	g_new_calls++; *tlv = (KSI_TLV *)g_tlv700; return KSI_OK;
}
void KSI_TLV_free(KSI_TLV *t) { if (t == (KSI_TLV *)g_tlv700) g_free700++; else __CPROVER_assert(t == NULL, "only the container TLV is released"); }
int KSI_TlvTemplate_construct(KSI_CTX *ctx, KSI_TLV *tlv, const void *payload, const KSI_TlvTemplate *tmpl) {
	__CPROVER_assert(tlv == (KSI_TLV *)g_tlv700, "records are built into the container TLV");
	g_cons_calls++; g_cons_tmpl = tmpl; g_cons_payload = payload;
	if (nondet_bool()) return env_fail();
	return KSI_OK;
}
KSI_CTX *KSI_TLV_getCtx(const KSI_TLV *tlv) { return (KSI_CTX *)g_ctx_obj; }
int KSI_TLV_getNestedList(KSI_TLV *tlv, KSI_LIST(KSI_TLV) **list) {
	__CPROVER_assert(tlv == (KSI_TLV *)g_tlv700 && g_cons_calls == 1, "records of the container TLV, after it was built");
	if (nondet_bool()) return env_fail();
	*list = &g_lst; return KSI_OK;
}
static size_t g_lst_length(KSI_LIST(KSI_TLV) *l) { return g_n; }
static int g_lst_elementAt(KSI_LIST(KSI_TLV) *l, size_t pos, KSI_TLV **o) {
	if (pos >= g_n) { g_env_failed = 1; return KSI_BUFFER_OVERFLOW; }     /* list.c: position out of range */
	__CPROVER_assert(pos == g_n - 1, "the LAST record is inspected");
	*o = (KSI_TLV *)g_last_tlv; return KSI_OK;
}
unsigned KSI_TLV_getTag(const KSI_TLV *tlv) { __CPROVER_assert(tlv == (const KSI_TLV *)g_last_tlv, "tag of the last record"); return g_last_is_sig ? 0x704 : g_other_tag; }
int KSI_TLV_getRawValue(KSI_TLV *tlv, const unsigned char **buf, size_t *len) {
	if (tlv == (KSI_TLV *)g_last_tlv) {
		__CPROVER_assert(g_last_is_sig, "payload length is taken of a signature record only");
		g_getrawsig++; if (nondet_bool()) return env_fail();
		*buf = g_sig_payload; *len = g_sig_len; return KSI_OK;
	}
	__CPROVER_assert(tlv == (KSI_TLV *)g_tlv700, "payload of the container TLV");
	g_getraw700++; if (nondet_bool()) return env_fail();
	*buf = g_body; *len = g_body_len; return KSI_OK;
}
#include "publicationsfile.c"

void harness(void) {
	KSI_PublicationsFile pf; static char sentinel; char *out = &sentinel; size_t out_len = 77, w = nondet_size(), k, old_len = nondet_size();
	unsigned char *old_raw = NULL; int res; size_t old_signed = nondet_size();
	_Bool nullCtx = nondet_bool(), nullPf = nondet_bool(), nullRaw = nondet_bool(), nullLen = nondet_bool();
	memset(&g_lst, 0, sizeof(g_lst)); g_lst.length = g_lst_length; g_lst.elementAt = g_lst_elementAt;
	g_new_calls = 0; g_free700 = 0; g_cons_calls = 0; g_getraw700 = 0; g_getrawsig = 0; g_env_failed = 0;
	g_n = nondet_size(); g_last_is_sig = nondet_bool(); g_other_tag = nondet_uint(); __CPROVER_assume(g_other_tag != 0x704);
	g_body_len = nondet_size(); __CPROVER_assume(g_body_len <= BODY_MAX);          /* the stated bound */
	g_sig_len = nondet_size(); __CPROVER_assume(g_sig_len + 4 <= g_body_len || !g_last_is_sig);   /* model consistency: the signature record lies inside the record area */
	__CPROVER_assume(g_n == 0 || g_body_len >= 2);        /* model consistency: a record has at least 2 octets (an empty container has no records: list.c refuses position -1) */
	for (k = 0; k < BODY_MAX; k++) g_body[k] = nondet_uchar();
	memset(&pf, 0, sizeof(pf)); pf.ctx = (KSI_CTX *)g_ctx_obj; pf.ref = 1;
	if (nondet_bool()) { __CPROVER_assume(old_len >= 1 && old_len <= 4); old_raw = malloc(old_len); __CPROVER_assume(old_raw != NULL); } else old_len = 0;
	pf.raw = old_raw; pf.raw_len = old_len; pf.signedDataLength = old_signed;

	res = KSI_PublicationsFile_serialize(nullCtx ? NULL : (KSI_CTX *)g_ctx_obj, nullPf ? NULL : &pf, nullRaw ? NULL : &out, nullLen ? NULL : &out_len);

	REACH("serialize returns");
	__CPROVER_assert(g_new_calls == g_free700, "serialize: the container TLV is released exactly once on every path");
	if (nullCtx || nullPf || nullRaw || nullLen) {
		__CPROVER_assert(res == KSI_INVALID_ARGUMENT && g_new_calls == 0 && pf.raw == old_raw && out == &sentinel, "serialize: NULL argument => INVALID_ARGUMENT, nothing done");
		if (old_raw != NULL) free(old_raw);
		return;
	}
	__CPROVER_assert(IMPLIES(res == KSI_OK, g_cons_calls == 1 && g_cons_payload == &pf && g_cons_tmpl == KSI_PublicationsFile_template), "serialize: records built from this file object with the publications-file schema table");
	__CPROVER_assert(IMPLIES(res == KSI_OK, g_n >= 1 && g_getraw700 == 1 && g_getrawsig == (g_last_is_sig ? 1u : 0u)), "serialize: accepted => at least one record; signature payload length taken iff the last record is the signature");
	__CPROVER_assert(IMPLIES(!g_env_failed, res == KSI_OK || res == KSI_OUT_OF_MEMORY), "serialize: no failing callee => OK (or an allocation failed)");
	__CPROVER_assert(IMPLIES(res != KSI_OK, out == &sentinel && out_len == 77), "serialize: failure => outputs untouched");
	/* the object stays consistent whatever happens: either the old raw bytes or the complete new ones */
	__CPROVER_assert((pf.raw == old_raw && pf.raw_len == old_len && pf.signedDataLength == old_signed) ||
		(pf.raw != NULL && pf.raw != old_raw && pf.raw_len == g_body_len + 8 && g_getraw700 == 1), "serialize: the file object holds its old raw bytes unchanged, or the complete new serialization");
	if (pf.raw != old_raw || res == KSI_OK) {
		size_t expect_signed = g_body_len + 8 - (g_last_is_sig ? g_sig_len + 4 : 0);
		__CPROVER_assert(pf.raw != old_raw && pf.raw_len == g_body_len + 8, "serialize: new raw bytes installed");
		__CPROVER_assert(pf.raw[0] == 'K' && pf.raw[1] == 'S' && pf.raw[2] == 'I' && pf.raw[3] == 'P' && pf.raw[4] == 'U' && pf.raw[5] == 'B' && pf.raw[6] == 'L' && pf.raw[7] == 'F', "serialize: raw bytes start with the magic");
		if (w < g_body_len) __CPROVER_assert(pf.raw[8 + w] == g_body[w], "serialize: raw bytes = magic ++ records (witness index)");
		__CPROVER_assert(pf.signedDataLength == expect_signed, "serialize: signed range = everything before the signature record (the whole file when it is still unsigned)");
		if (g_last_is_sig) REACH("signed file serialized");
		if (!g_last_is_sig && res == KSI_OK) REACH("unsigned file serialized: signed range = whole file");
	}
	if (res == KSI_OK) {
		__CPROVER_assert(out != &sentinel && out != NULL && (unsigned char *)out != pf.raw && out_len == pf.raw_len, "serialize: output is a private buffer of the same length");
		__CPROVER_assert(out[0] == 'K' && out[7] == 'F', "serialize: output starts with the magic");
		if (w < g_body_len) __CPROVER_assert((unsigned char)out[8 + w] == g_body[w], "serialize: output = magic ++ records (witness index)");
		free(out);
	}
	if (res == KSI_OUT_OF_MEMORY && pf.raw != old_raw) REACH("second copy failed: object already updated, still consistent");
	/* with --memory-leak-check: the old raw bytes were released when replaced; nothing else is left */
	if (pf.raw != NULL) free(pf.raw);
}
