/* C18 / C19 (builderO): KSI_PublicationsFile_setCertConstraints (publicationsfile.c) - the subject constraints the PKI
 * verification of the file is run with (C18: "every configured subject constraint (at least one is required) matches").
 * Deep copy; failure (allocation, missing expected value) leaves the OLD constraints installed and intact; nothing
 * leaked; old constraints released exactly once on success.
 * Real files included unmodified: base.c (KSI_strdup, freeCertConstraintsArray, funnels, error stack), compatibility.c,
 * publicationsfile.c.  Plain mode; every allocation may fail, in every combination (--malloc-may-fail
 * --malloc-fail-null).  Live-block accounting: env/c19_oom2_base.h (builderQ).
 * Bounds: <= 2 entries (+ terminator), strings <= STR_MAX characters (every content), old constraints none or 1 entry. */
#include "env/common.h"
#include "env/c19_oom2_base.h"
#include "net_http.h"
#include "net_uri.h"
#include "impl/ctx_impl.h"
#include "pkitruststore.h"
#include "policy.h"
#include "publicationsfile.h"
#include "impl/publicationsfile_impl.h"
#include "compatibility.c"
#define malloc(n) oom2_acct_malloc(n)
#define calloc(a, b) oom2_acct_calloc((a), (b))
#define free(p) oom2_acct_free(p)
#include "base.c"
#undef malloc
#undef calloc
#undef free
#include "publicationsfile.c"

#ifndef STR_MAX
#define STR_MAX 3
#endif
static KSI_ERR g_err_slot[1];
static struct KSI_CTX_st g_ctx;
static char *mk_str(size_t cap) { char *p = malloc(cap); __CPROVER_assume(p != NULL); p[cap - 1] = '\0'; g_live++; return p; }
static int str_eq(const char *a, const char *b) { size_t i; for (i = 0; i <= STR_MAX; i++) { if (a[i] != b[i]) return 0; if (a[i] == '\0') return 1; } return 1; }

static KSI_CertConstraint *g_old; static char *g_old_oid, *g_old_val; static long g_old_blocks;
#define OLD_INTACT(pf) ((pf)->certConstraints == g_old && (g_old == NULL || (g_old[0].oid == g_old_oid && g_old[0].val == g_old_val && g_old[1].oid == NULL)))

static void run(size_t n) {
	KSI_PublicationsFile pf; KSI_CertConstraint arr[3]; char oid[2][STR_MAX + 1], val[2][STR_MAX + 1];
	size_t i; int havePf = nondet_bool(), haveCtx = nondet_bool(), haveArr = nondet_bool(), res; long live0; _Bool valMissing = 0;
	memset(&g_ctx, 0, sizeof(g_ctx));
	g_ctx.errors = g_err_slot; g_ctx.errors_size = 1; g_ctx.errors_count = nondet_size();
	g_ctx.freeCertConstraintsArray = freeCertConstraintsArray;
	memset(&pf, 0, sizeof(pf)); pf.ctx = haveCtx ? &g_ctx : NULL; pf.ref = 1;
	for (i = 0; i < 2; i++) {
		oid[i][STR_MAX] = val[i][STR_MAX] = '\0';
		arr[i].oid = i < n ? oid[i] : NULL;
		arr[i].val = (i < n && nondet_bool()) ? val[i] : NULL;
		if (i < n && arr[i].val == NULL) valMissing = 1;
	}
	arr[2].oid = NULL; arr[2].val = NULL;
	g_old = NULL; g_old_oid = g_old_val = NULL; g_old_blocks = 0;
	if (nondet_bool()) {
		g_old = malloc(2 * sizeof(KSI_CertConstraint)); __CPROVER_assume(g_old != NULL); g_live++;
		g_old[0].oid = g_old_oid = mk_str(2); g_old[0].val = g_old_val = mk_str(2);
		g_old[1].oid = NULL; g_old[1].val = NULL; g_old_blocks = 3;
	}
	pf.certConstraints = g_old;
	g_alloc_failed = 0; live0 = g_live;

	res = KSI_PublicationsFile_setCertConstraints(havePf ? &pf : NULL, haveArr ? arr : NULL);

	REACH("setCertConstraints returns");
	__CPROVER_assert(res == KSI_OK || res == KSI_INVALID_ARGUMENT || (res == KSI_OUT_OF_MEMORY && g_alloc_failed > 0), "constraints: OK, invalid argument, or out-of-memory with a failed allocation");
	__CPROVER_assert(IMPLIES(res == KSI_INVALID_ARGUMENT, !havePf || !haveCtx || (haveArr && valMissing)), "constraints: INVALID_ARGUMENT only for a missing file / context / expected value");
	__CPROVER_assert(IMPLIES(havePf && haveCtx && !(haveArr && valMissing) && g_alloc_failed == 0, res == KSI_OK), "constraints: valid input and no failed allocation => installed");
	__CPROVER_assert(IMPLIES(!havePf || !haveCtx || (haveArr && valMissing), res != KSI_OK), "constraints: an array with a missing expected value is never installed");
	if (res != KSI_OK) {
		__CPROVER_assert(OLD_INTACT(&pf), "constraints failed: the file keeps its old (still allocated) constraints");
		__CPROVER_assert(g_live == live0, "constraints failed: no partial copy survives (nothing leaked, nothing released)");
		if (res == KSI_OUT_OF_MEMORY && g_alloc_failed == 1 && g_old != NULL) REACH("one allocation failed, old constraints present");
#ifdef CERT_N2
		if (res == KSI_INVALID_ARGUMENT && arr[0].val != NULL && havePf && haveCtx && haveArr) REACH("second entry lacks its value (first already copied)");
#endif
	} else if (!haveArr) {
		/* NULL array: constraints removed */
		__CPROVER_assert(pf.certConstraints == NULL && g_live == live0 - g_old_blocks, "constraints: NULL array removes the constraints, old ones released exactly once");
		if (g_old != NULL) REACH("constraints removed");
	} else {
		KSI_CertConstraint *c = pf.certConstraints;
		__CPROVER_assert(c != NULL && c != g_old && c != arr, "constraints ok: a fresh array is installed");
		for (i = 0; i < n; i++) {
			__CPROVER_assert(c[i].oid != NULL && c[i].oid != arr[i].oid && str_eq(c[i].oid, arr[i].oid), "constraints ok: every OID is a private copy with the same text");
			__CPROVER_assert(c[i].val != NULL && c[i].val != arr[i].val && str_eq(c[i].val, arr[i].val), "constraints ok: every expected value is a private copy with the same text");
		}
		__CPROVER_assert(c[n].oid == NULL && c[n].val == NULL, "constraints ok: same number of entries, terminated");
		__CPROVER_assert(g_live == live0 - g_old_blocks + 1 + 2 * (long)n, "constraints ok: old constraints released exactly once, exactly 1 + 2n new blocks");
#ifdef CERT_N2
		if (g_old != NULL) REACH("2 entries replace old constraints");
#else
		if (n == 1 && g_old != NULL) REACH("1 entry replaces old constraints");
		if (n == 0) REACH("empty array installed");
#endif
	}
	/* what KSI_PublicationsFile_free does with the field */
	freeCertConstraintsArray(pf.certConstraints);
	__CPROVER_assert(g_live == live0 - g_old_blocks, "constraints: the file can be released afterwards, every block exactly once");
}
#ifdef CERT_N2
void harness(void) { run(2); }
#else
void harness(void) { if (nondet_bool()) run(0); else run(1); }
#endif
