/* C18 publications file: generateNextTlv, KSI_PublicationsFile_parse / _verify orchestration.
 * Real publicationsfile.c included unmodified; KSI_TLV is the opaque model of env/c18_tlv.h. */
#include "env/common.h"
#include "env/stubs_base.h"
#include "env/c18_tlv.h"
#include "fast_tlv.h"
#include "contracts/fast_tlv_hdr.h"
#ifdef H_generateNextTlv
#include "publicationsfile.c"
#include "contracts/publicationsfile_gen.h"
void harness(void) {
	KSI_TLV *out;
	g18_w = nondet_size();
	g18_parse_fail = nondet_bool();
	int res = generateNextTlv(nondet_ptr(), &out);
	if (res == KSI_OK) REACH("ok");
	if (res == KSI_OK && out != NULL && out->tag == 0x0704) REACH("signature record handed out");
	if (res == KSI_OK && out == NULL) REACH("end of input");
	if (res == KSI_INVALID_FORMAT) REACH("rejected");
	if (res == KSI_OUT_OF_MEMORY) REACH("out of memory");
}
#endif
