/* C18 publications file: generateNextTlv, KSI_PublicationsFile_parse / _verify orchestration.
 * Real publicationsfile.c included unmodified; KSI_TLV is the opaque model of env/c18_tlv.h. */
#include "env/common.h"
#include "env/stubs_base.h"
#include "env/c18_tlv.h"
#include "fast_tlv.h"
#include "contracts/fast_tlv_hdr.h"
#ifdef H_generateNextTlv
#include "publicationsfile.c"
#include "contracts/publicationsfile_gen.h"
void harness(void) {
	KSI_TLV *out;
	g18_w = nondet_size();
	g18_parse_fail = nondet_bool();
	int res = generateNextTlv(nondet_ptr(), &out);
	if (res == KSI_OK) REACH("ok");
	if (res == KSI_OK && g18_parse_calls == 1 && g18_parse_len >= 4 && g18_free_calls == 1) REACH("record handed out, previous one released");
	if (res == KSI_OK && g18_parse_calls == 0) REACH("end of input");
	if (res == KSI_INVALID_FORMAT) REACH("rejected");
	if (res == KSI_OUT_OF_MEMORY) REACH("out of memory");
}
#endif

#ifdef H_parse
/* KSI_PublicationsFile_parse orchestration.  Bounded: file of at most 8 + PARSE_BODY octets (at most PARSE_BODY/2 records).
 * Real KSI_PublicationsFile_parse, generateNextTlv, KSI_FTLV_memRead (fast_tlv.c), KSI_PublicationsFile_new/_free.
 * The template engine is a harness stub that pulls the records through the REAL generator and may reject the record
 * sequence for schema reasons (the engine itself is job C10.engine, the publications-file table is C10.tables_pubfile:
 * 0x0704 mandatory - the stub therefore reports OK only if a signature record was generated). */
#include "spec/pubfile.h"
#ifndef PARSE_BODY
#define PARSE_BODY 10
#endif
#include "fast_tlv.c"
void KSI_PublicationsHeader_free(KSI_PublicationsHeader *t) { }
void KSI_CertificateRecordList_free(KSI_LIST(KSI_CertificateRecord) *l) { }
void KSI_List_free(KSI_List *l) { }
int KSI_List_new(void (*obj_free)(void *), KSI_List **list) { return KSI_OUT_OF_MEMORY; }
static unsigned g_sig_free_calls;
void KSI_PKISignature_free(KSI_PKISignature *s) { if (s != NULL) g_sig_free_calls++; }
#include "publicationsfile.c"

static unsigned g_engine_calls, g_records, g_sig_records;
static char g_sig_obj;
int KSI_TlvTemplate_extractGenerator(KSI_CTX *ctx, void *payload, void *generatorCtx, const KSI_TlvTemplate *tmpl, int (*generator)(void *, KSI_TLV **)) {
	KSI_PublicationsFile *pf = payload; KSI_TLV *tlv = NULL; int res; unsigned k;
	g_engine_calls++;
	__CPROVER_assert(tmpl == KSI_PublicationsFile_template, "parse: the publications-file template is used");
	__CPROVER_assert(generator == (int (*)(void *, KSI_TLV **))generateNextTlv, "parse: records come from generateNextTlv");
	__CPROVER_assert(pf != NULL && pf->ctx == ctx && pf->signedDataLength == SPEC_PUBFILE_MAGIC_LEN && pf->raw == NULL, "parse: fresh store object, magic already accounted for");
	for (k = 0; k <= PARSE_BODY / 2; k++) {
		res = generateNextTlv(generatorCtx, &tlv);
		if (res != KSI_OK) return res;
		if (tlv == NULL) break;
		g_records++;
		if (tlv->tag == 0x0704) { g_sig_records++; pf->signature = (KSI_PKISignature *)&g_sig_obj; }
		if (nondet_bool()) return KSI_INVALID_FORMAT;          /* any schema violation found by the engine */
	}
	__CPROVER_assert(tlv == NULL, "bound: the body holds at most PARSE_BODY/2 records");
	if (g_sig_records == 0) return KSI_INVALID_FORMAT;         /* mandatory signature record missing */
	return KSI_OK;
}

void harness(void) {
	static KSI_CTX ctx_obj;
	static KSI_PublicationsFile sentinel;
	KSI_PublicationsFile *out = &sentinel;
	size_t n = nondet_size(), w = nondet_size(), signed_len = 0;
	unsigned char *raw; int res, wf;
	__CPROVER_assume(n <= SPEC_PUBFILE_MAGIC_LEN + PARSE_BODY);          /* the stated bound */
	raw = malloc(n);
	__CPROVER_assume(raw != NULL);
	g18_w = nondet_size(); g18_parse_fail = nondet_bool();
	res = KSI_PublicationsFile_parse(&ctx_obj, raw, n, &out);
	wf = n > 0 && spec_pubfile_container(raw, n, &signed_len);
	__CPROVER_assert(IMPLIES(n == 0 || !spec_pubfile_has_magic(raw, n), res != KSI_OK && g_engine_calls == 0 && g18_parse_calls == 0), "parse: magic checked first - nothing is parsed without it");
	__CPROVER_assert(IMPLIES(n > 0 && !spec_pubfile_has_magic(raw, n), res == KSI_INVALID_FORMAT), "parse: wrong magic is INVALID_FORMAT");
	__CPROVER_assert(IMPLIES(res == KSI_OK, wf), "parse: accepted => magic, complete records, one signature record which is the last record");
	__CPROVER_assert(IMPLIES(res != KSI_OK, out == &sentinel), "parse: output untouched on failure");
	if (res == KSI_OK) {
		__CPROVER_assert(out != &sentinel && out != NULL && out->signedDataLength == signed_len, "parse: signed range == everything before the signature record (8 + its offset)");
		__CPROVER_assert(g_sig_records == 1, "parse: exactly one signature record");
		__CPROVER_assert(out->raw != NULL && out->raw != raw && out->raw_len == n, "parse: raw is a private copy of the whole input");
		if (w < n) __CPROVER_assert(out->raw[w] == raw[w], "parse: raw copy equals the input (witness index)");
		__CPROVER_assert(out->ref == 1 && out->ctx == &ctx_obj, "parse: object fields");
		REACH("accepted");
		if (g_records >= 3) REACH("accepted with three records");
	}
	if (res != KSI_OK && g_sig_records == 1) REACH("rejected after the signature record");
	if (res == KSI_INVALID_FORMAT && g_engine_calls == 0) REACH("rejected: magic");
}
#endif

#ifdef H_verify
#include "env/c18_pki.h"
#include "publicationsfile.c"
#include "contracts/publicationsfile_verify.h"
void harness(void) {
	static char ctx_mem[8];
	int res;
	g18v_get_res = nondet_int(); g18v_verify_res = nondet_int();
	res = KSI_PublicationsFile_verify(nondet_bool() ? NULL : nondet_ptr(), nondet_bool() ? NULL : (KSI_CTX *)ctx_mem);
	if (res == KSI_OK) REACH("trusted");
	if (res == KSI_PUBLICATIONS_FILE_NOT_SIGNED_WITH_PKI) REACH("no signature");
	if (res != KSI_OK && g18v_verify_calls == 1) REACH("PKI verdict propagated");
	if (res != KSI_OK && g18v_get_calls == 1 && g18v_verify_calls == 0) REACH("no trust store");
	if (res == KSI_INVALID_ARGUMENT && g18v_get_calls == 0) REACH("NULL file");
}
#endif
