/* C18 (builderV, after builderO's schema2_bypubstr.c which is left untouched):
 * KSI_PublicationsFile_getPublicationDataByPublicationString (publicationsfile.c): orchestration of
 * decode -> lookup by time -> imprint comparison.
 *   undecodable string            => that error, output untouched, no lookup;
 *   no record with the time       => OK, *pubRec = NULL;
 *   record found, same imprint    => OK, *pubRec = that record (borrowed);
 *   record found, other imprint   => KSI_INVALID_PUBLICATION, output untouched;
 *   the decoded object is released on every path (imprint: counted; object + time: --memory-leak-check, BYPUB_RELEASE).
 * KSI_PublicationData_fromBase32 is replaced by the summary contract contracts/publicationsfile_lift_frombase32.h.
 * KSI_PublicationsFile_getPublicationDataByTime is NOT replaced: its real body runs, the scan loop closed by the loop
 * contract of C18.lookup_bytime (every list length).  Reason: the record it returns is dereferenced by the caller; a
 * replaced contract can only pin the returned pointer by an assumed equality, which symex cannot dereference
 * (obligations/C18/NOTES_lift.md).  Real publicationsfile.c and types_base.c included unmodified. */
#include "env/common.h"
#include "env/stubs_base.h"
#include "env/c10_tlv_value.h"
#include "publicationsfile.h"
#include "impl/publicationsfile_impl.h"
#include "types_base.c"
#include "env/c18_publist.h"
#include "contracts/publicationsfile_lift_frombase32.h"
static char g_rec_imp[3]; static _Bool g_bp_eq; static unsigned g_eq_calls, g_hashfree_calls, g_tlvfree_nonnull;
int KSI_DataHash_equals(const KSI_DataHash *left, const KSI_DataHash *right) {
	__CPROVER_assert(left == (const KSI_DataHash *)&g_bp_imp_obj && g18l_best >= 0 && g18l_best < 3 && right == (const KSI_DataHash *)&g_rec_imp[g18l_best], "the decoded imprint is compared with the imprint of the record found");
	g_eq_calls++; return g_bp_eq;
}
void KSI_DataHash_free(KSI_DataHash *h) { if (h != NULL) { __CPROVER_assert(h == (KSI_DataHash *)&g_bp_imp_obj, "only the decoded imprint is released"); g_hashfree_calls++; } }
void KSI_TLV_free(KSI_TLV *t) { if (t != NULL) g_tlvfree_nonnull++; }
#include "publicationsfile.c"
#include "contracts/publicationsfile_lookup.h"

void harness(void) {
	KSI_PublicationsFile pf; static char ctx_obj[8], str[2]; static KSI_PublicationRecord sentinel; KSI_PublicationRecord *out = &sentinel; int res, k;
	_Bool nullPf = nondet_bool(), nullStr = nondet_bool(), nullOut = nondet_bool();
	g18l_setup(); g18l_mode = 2;
#ifdef BYPUB_UNWIND
	__CPROVER_assume(g18l_len <= BYPUB_UNWIND);      /* the stated bound of the variant that runs the real lookup */
#endif
	for (k = 0; k < 3; k++) g18l_pd[k].imprint = (KSI_DataHash *)&g_rec_imp[k];
	memset(&pf, 0, sizeof(pf)); pf.publications = &g18l_list; pf.ctx = (KSI_CTX *)ctx_obj;
#ifdef BYPUB_RELEASE
	/* integers below 256 are static pool members which KSI_Integer_free ignores; the summary contract hands out a heap
	 * integer for every value, so the release accounting (--memory-leak-check) is stated for non-pool values */
	__CPROVER_assume(g18l_t >= 256);
#endif
	g_bp_calls = 0; g_bp_eq = nondet_bool(); g_eq_calls = 0; g_hashfree_calls = 0; g_tlvfree_nonnull = 0;

	res = KSI_PublicationsFile_getPublicationDataByPublicationString(nullPf ? NULL : &pf, nullStr ? NULL : str, nullOut ? NULL : &out);

	REACH("returns");
	if (nullPf || nullStr || nullOut) {
		__CPROVER_assert(res == KSI_INVALID_ARGUMENT && g_bp_calls == 0 && out == &sentinel, "bypubstring: NULL argument => INVALID_ARGUMENT, nothing decoded");
		return;
	}
	__CPROVER_assert(g_bp_calls == 1 && g_bp_str == str && g_bp_ctx == (KSI_CTX *)ctx_obj, "bypubstring: the string is decoded once");
	__CPROVER_assert(IMPLIES(g_bp_res != KSI_OK, res == g_bp_res && out == &sentinel && g18l_calls == 0 && g_eq_calls == 0), "bypubstring: undecodable string => that error, output untouched, no lookup");
	if (g_bp_res == KSI_OK) {
		/* the decoded object and its time are heap objects of the summary contract: released = no leak (--memory-leak-check
		 * in the _release job), released at most once = no double free (always checked) */
		__CPROVER_assert(g_hashfree_calls == 1 && g_tlvfree_nonnull == 0, "bypubstring: the decoded imprint is released exactly once on every path");
		__CPROVER_assert(IMPLIES(!g18l_ref.has, res == KSI_OK && out == NULL && g_eq_calls == 0), "bypubstring: no record with the decoded time => OK, NULL");
		__CPROVER_assert(IMPLIES(g18l_ref.has && g_bp_eq, res == KSI_OK && out == &g18l_rec[g18l_best] && out->publishedData->time->value == g18l_t && g_eq_calls == 1), "bypubstring: record with the decoded time and the same imprint => that record");
		__CPROVER_assert(IMPLIES(g18l_ref.has && !g_bp_eq, res == KSI_INVALID_PUBLICATION && out == &sentinel && g_eq_calls == 1), "bypubstring: same time, other imprint => INVALID_PUBLICATION, output untouched");
		if (res == KSI_OK && out != NULL) { __CPROVER_assert(out->ref == 1, "bypubstring: borrowed pointer (no reference taken)"); REACH("found"); }
		if (res == KSI_OK && out == NULL) REACH("no such time");
		if (res == KSI_INVALID_PUBLICATION) REACH("imprint differs");
	} else REACH("undecodable");
}
