/* C18 getPKICertificateById against a reference scan (model list + ghost monitor, all list lengths). */
#include "env/common.h"
#include "env/stubs_base.h"
#include "env/c10_tlv_value.h"
#include "publicationsfile.h"
#include "impl/publicationsfile_impl.h"
#include "env/c18_certlist.h"
#include "publicationsfile.c"
#include "contracts/publicationsfile_certbyid.h"

void harness(void) {
	KSI_PublicationsFile pf; static char q; KSI_PKICertificate *out = NULL; int res;
	memset(&g18c_list, 0, sizeof(g18c_list)); g18c_list.length = g18c_length; g18c_list.elementAt = g18c_elementAt;
	memset(&pf, 0, sizeof(pf)); pf.certificates = &g18c_list;
	g18c_len = nondet_size(); g18c_calls = 0; g18c_match_calls = 0; g18c_eq_calls = 0; g18c_query = (const KSI_OctetString *)&q;
	res = KSI_PublicationsFile_getPKICertificateById(&pf, g18c_query, &out);
	if (res == KSI_OK && g18c_match_calls > 2) REACH("found after two other records");
	if (res == KSI_OK && g18c_match_calls == 0 && g18c_len > 2) REACH("not found in a non-empty list");
	if (res == KSI_OK && g18c_len == 0) REACH("empty list");
}
