/* C17: base32.c under contract.  Real file included unmodified. */
#include "env/common.h"
#include "env/stubs_base.h"
#include "env/ctype_c.h"
#include "env/ghost_base32.h"
#include "contracts/base32_codec.h"
#include "base32.c"

#ifdef H_makeMask
void harness(void) {
	int n = nondet_int();
	int r = makeMask(n);
	REACH("makeMask returns");
	if (n == 5) REACH("width 5");
}
#endif

#ifdef H_addBits
void harness(void) {
	unsigned char *buf; int *off; int bits = nondet_int();
	addBits(buf, off, bits);
	REACH("addBits returns");
	if (bits < 0) REACH("no-symbol marker"); 
	if (bits == 31) REACH("largest symbol value");
}
#endif

#ifdef H_readNextBits
void harness(void) {
	const unsigned char *d; size_t n = nondet_size(), off = nondet_size();
	int r = readNextBits(d, n, off);
	if (r == -1) REACH("end of data"); else REACH("five bits");
	if (r != -1 && off / 8 + 1 == n && off % 8 > 3) REACH("zero-filled last symbol");
}
#endif

#ifdef H_decode
void harness(void) {
	unsigned char *out = NULL; size_t out_len = 0; int res; char *s;
	g_b32_len = nondet_size();
	__CPROVER_assume(g_b32_len <= 0x7fffffff / 5 - 1);   /* contract precondition: int bit counter does not overflow */
	s = malloc(g_b32_len + 1);
	__CPROVER_assume(s != NULL);
	s[g_b32_len] = '\0';
	g_b32_str = s;
	g_b32_calls = 0;
	g_b32_wbit = nondet_size();
	__CPROVER_assume(g_b32_wbit / 8 < g_b32_len * 5 / 8 + 2);   /* witness inside the allocation, so that invariants may read it */
	spec_b32_dec_init(&g_b32);
	res = KSI_base32Decode(s, &out, &out_len);
	if (res == KSI_OK) REACH("decoded"); else REACH("refused");
	/* out / out_len are replaced by fresh objects by the contract's is_fresh: reachability is stated on the ghost state */
	if (res == KSI_OK && g_b32.bits >= 40 && g_b32_wbit == 17 && g_b32.wval == 1) REACH("decoded several bytes, witness bit set");
	if (res == KSI_OK && g_b32.may_reject) REACH("digit outside 2-7 ignored");
	if (res == KSI_OK && g_b32.ended) REACH("stopped at padding");
	if (res == KSI_INVALID_FORMAT) REACH("invalid format");
#ifdef OOM
	if (res == KSI_OUT_OF_MEMORY) REACH("allocation failed");
#endif
}
#endif

#ifdef H_encode
void harness(void) {
	const unsigned char *d; char *out = NULL; int res;
	size_t n = nondet_size(), g = nondet_size();
	g_b32e_k = nondet_size(); g_b32e_j = nondet_size(); g_b32e_exp = (char)nondet_uchar();
#ifdef N_MAX
	__CPROVER_assume(n <= N_MAX);
#endif
#ifdef G_VALUE
	__CPROVER_assume(g == G_VALUE);   /* harness domain: one concrete group length per job (symbolic g: 64-bit division by a symbolic divisor, no answer in 15 min) */
#endif
#if defined(DOM_G0)
	__CPROVER_assume(g == 0);
#elif defined(DOM_PADGROUP)
	__CPROVER_assume(g > 0 && n <= ((size_t)1 << 40) && spec_b32_nsym(n) % 8 != 0 && spec_b32_nsym(n) % g == 0);
#else
	__CPROVER_assume(g > 0 && n <= ((size_t)1 << 40) && !(spec_b32_nsym(n) % 8 != 0 && spec_b32_nsym(n) % g == 0));
#endif
	res = KSI_base32Encode(d, n, g, &out);
	if (res == KSI_OK) REACH("encoded");
#if !defined(DOM_G0) && !defined(DOM_PADGROUP)
	if (res == KSI_OK && n == 45 && g == 6) REACH("publication string shape (SHA-256)");
#endif
	if (res == KSI_OK && n % 5 != 0) REACH("with padding");
#ifdef OOM
	if (res == KSI_OUT_OF_MEMORY) REACH("allocation failed");
#endif
}
#endif

#ifdef H_roundtrip
#ifndef RT_N
#define RT_N 5
#endif
/* plain mode (unwinding): decode(encode(x, groups of six)) == x on the real functions, and the string equals the reference encoding */
void harness(void) {
	unsigned char d[RT_N]; size_t n = nondet_size(), i, len = 0; char *enc = NULL; unsigned char *dec = NULL; size_t dec_len = 0; int res; char ref[2 * RT_N + 12];
	__CPROVER_assume(n == RT_N);                 /* one concrete length per job: symbolic buffer sizes + unwinding exhausted 12 GB */
	res = KSI_base32Encode(d, n, 6, &enc);
	__CPROVER_assume(res == KSI_OK);                     /* allocation failure: C17.b32.encode_oom */
	spec_b32_encode_ref(d, n, 6, ref);
	while (enc[len] != 0) len++;
	for (i = 0; i <= len; i++) __CPROVER_assert(enc[i] == ref[i], "encoder output == reference encoding (symbols, '-' after every six, '=' padding)");
	g_b32_str = enc; g_b32_len = len; g_b32_calls = 0; g_b32_wbit = 0; spec_b32_dec_init(&g_b32);
	res = KSI_base32Decode(enc, &dec, &dec_len);
	__CPROVER_assume(res != KSI_OUT_OF_MEMORY);
	__CPROVER_assert(res == KSI_OK && dec_len == n, "decoding the encoder's output succeeds and returns the original length");
	for (i = 0; i < n; i++) __CPROVER_assert(dec[i] == d[i], "decoding the encoder's output returns the original bytes");
	REACH("round trip evaluated");
	free(enc); free(dec);
}
#endif
