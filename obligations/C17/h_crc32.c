/* C17: crc32.c.  Real file included unmodified. */
#include "env/common.h"
#include "contracts/crc32_crc.h"
#include "crc32.c"

#ifdef H_table
/* facts about the real constant table, for every index / state / byte (symbolic, no loop) */
void harness(void) {
	unsigned i = nondet_uint(), a = nondet_uint(), b = nondet_uint(); uint32_t r = nondet_uint(); unsigned char byte = nondet_uchar();
	__CPROVER_assert(sizeof(crc32_table) / sizeof(crc32_table[0]) == 256, "the table has 256 entries");
	__CPROVER_assume(i < 256 && a < 256 && b < 256);
	__CPROVER_assert(crc32_table[i] == spec_crc32_entry(i), "table entry i is the bit-at-a-time CRC-32 (poly 0xEDB88320) of byte i");
	__CPROVER_assert(crc32_table[a ^ b] == (crc32_table[a] ^ crc32_table[b]), "byte step is linear: T[a^b] == T[a]^T[b]");
	__CPROVER_assert((crc32_table[(r ^ byte) & 0xff] ^ (r >> 8)) == spec_crc32_step(r, byte), "one table step == eight bit steps, for every register value and byte");
	REACH("table facts evaluated");
	if (i == 255) REACH("last entry");
}
#endif

#ifdef H_crc32
void harness(void) {
	const void *d; size_t n = nondet_size(); unsigned long iv = nondet_ull();
	unsigned long r = KSI_crc32(d, n, iv);
	REACH("crc returns");
	if (n > 100) REACH("long buffer");
	if (n == 0) REACH("empty buffer");
}
#endif

#ifdef H_ref_bounded
#ifndef CRC_N
#define CRC_N 12
#endif
void harness(void) {
	unsigned char d[CRC_N]; size_t n = nondet_size(); unsigned long iv = nondet_uint(); unsigned long r; size_t i;
	__CPROVER_assume(n <= CRC_N);
	for (i = 0; i < CRC_N; i++) d[i] = nondet_uchar();
	r = KSI_crc32(d, n, iv);
	__CPROVER_assert(r == (unsigned long)spec_crc32_ref(d, n, (uint32_t)iv), "KSI_crc32 == bit-at-a-time reference CRC-32");
	REACH("compared");
	if (n == CRC_N) REACH("full length");
}
#endif

#ifdef H_check_value
/* constant inputs: the catalogue check value, and continuation through ival */
void harness(void) {
	static const unsigned char msg[9] = { '1','2','3','4','5','6','7','8','9' };
	unsigned long whole = KSI_crc32(msg, 9, 0), part = KSI_crc32(msg, 4, 0);
	__CPROVER_assert(whole == 0xCBF43926ul, "check value of the CRC catalogue: CRC-32(\"123456789\") == 0xCBF43926");
	__CPROVER_assert(KSI_crc32(msg + 4, 5, part) == whole, "continuation: passing the previous result as ival continues the same CRC");
	REACH("evaluated");
}
#endif
