/* C17: crc32.c.  Real file included unmodified. */
#include "env/common.h"
#include "contracts/crc32_crc.h"
#include "crc32.c"

#ifdef H_table
/* facts about the real constant table, for every index / state / byte (symbolic, no loop) */
void harness(void) {
	unsigned i = nondet_uint(), a = nondet_uint(), b = nondet_uint(); uint32_t r = nondet_uint(); unsigned char byte = nondet_uchar();
	__CPROVER_assert(sizeof(crc32_table) / sizeof(crc32_table[0]) == 256, "the table has 256 entries");
	__CPROVER_assume(i < 256 && a < 256 && b < 256);
	__CPROVER_assert(crc32_table[i] == spec_crc32_entry(i), "table entry i is the bit-at-a-time CRC-32 (poly 0xEDB88320) of byte i");
	__CPROVER_assert(crc32_table[a ^ b] == (crc32_table[a] ^ crc32_table[b]), "byte step is linear: T[a^b] == T[a]^T[b]");
	__CPROVER_assert((crc32_table[(r ^ byte) & 0xff] ^ (r >> 8)) == spec_crc32_step(r, byte), "one table step == eight bit steps, for every register value and byte");
	{ uint32_t r2 = nondet_uint(); unsigned char byte2 = nondet_uchar();
	  __CPROVER_assert((crc32_table[((r ^ r2) ^ (byte ^ byte2)) & 0xff] ^ ((r ^ r2) >> 8)) ==
		((crc32_table[(r ^ byte) & 0xff] ^ (r >> 8)) ^ (crc32_table[(r2 ^ byte2) & 0xff] ^ (r2 >> 8))),
		"one table step is linear over GF(2) in (register, byte): step(r^r', b^b') == step(r,b) ^ step(r',b')"); }
	REACH("table facts evaluated");
	if (i == 255) REACH("last entry");
}
#endif

#ifdef H_crc32
void harness(void) {
	const void *d; size_t n = nondet_size(); unsigned long iv = nondet_ull();
	unsigned long r = KSI_crc32(d, n, iv);
	REACH("crc returns");
	if (n > 100) REACH("long buffer");
	if (n == 0) REACH("empty buffer");
}
#endif

#ifdef H_ref_bounded
#ifndef CRC_N
#define CRC_N 12
#endif
void harness(void) {
	unsigned char d[CRC_N]; size_t n = nondet_size(); unsigned long iv = nondet_uint(); unsigned long r; size_t i;
	__CPROVER_assume(n <= CRC_N);
	for (i = 0; i < CRC_N; i++) d[i] = nondet_uchar();
	r = KSI_crc32(d, n, iv);
	__CPROVER_assert(r == (unsigned long)spec_crc32_ref(d, n, (uint32_t)iv), "KSI_crc32 == bit-at-a-time reference CRC-32");
	REACH("compared");
	if (n == CRC_N) REACH("full length");
}
#endif

#ifdef H_check_value
/* constant inputs: the catalogue check value, and continuation through ival */
void harness(void) {
	static const unsigned char msg[9] = { '1','2','3','4','5','6','7','8','9' };
	unsigned long whole = KSI_crc32(msg, 9, 0), part = KSI_crc32(msg, 4, 0);
	__CPROVER_assert(whole == 0xCBF43926ul, "check value of the CRC catalogue: CRC-32(\"123456789\") == 0xCBF43926");
	__CPROVER_assert(KSI_crc32(msg + 4, 5, part) == whole, "continuation: passing the previous result as ival continues the same CRC");
	REACH("evaluated");
}
#endif

#ifdef H_burst
/* Finite lemmas behind "every burst error of <= 10 bits in a publication (time | imprint | CRC) is detected", on the real
 * table and the real KSI_crc32 (composition by induction over the length: obligations/C17/NOTES.md, paper steps).
 * D(x) = KSI_crc32(x) ^ KSI_crc32(0...0) is the change of the CRC caused by the error bytes x (xor-out and initial value cancel,
 * linearity: C17.crc.table). */
void harness(void) {
	uint32_t r = nondet_uint(); unsigned p = nondet_uint(), s = nondet_uint(); unsigned long d;
	static const unsigned char zero[4] = { 0, 0, 0, 0 }; unsigned char e[4];
	/* L1: the zero difference stays zero under error-free bytes */
	__CPROVER_assert(crc32_table[0] == 0, "L1: zero register difference and zero byte difference give a zero difference");
	/* L2: a non-zero difference stays non-zero under error-free bytes (the zero-byte step is injective) */
	__CPROVER_assert(IMPLIES(r != 0, (crc32_table[r & 0xff] ^ (r >> 8)) != 0), "L2: a non-zero register difference never becomes zero while error-free bytes follow");
	/* L3: a non-zero burst of <= 10 contiguous bits, starting anywhere in a byte, leaves a non-zero difference */
	__CPROVER_assume(p >= 1 && p <= 1023 && s <= 7);
	{ unsigned long E = ((unsigned long)p << 14) >> s;      /* 24 stream bits, most significant first; the burst starts at bit s of byte 0 */
	  e[0] = (unsigned char)(E >> 16); e[1] = (unsigned char)(E >> 8); e[2] = (unsigned char)E;
	  d = KSI_crc32(e, 3, 0) ^ KSI_crc32(zero, 3, 0);
	  __CPROVER_assert(d != 0, "L3: every non-zero burst of <= 10 bits inside the checked bytes changes the CRC register"); }
	/* L4: bursts across / next to the border between the checked bytes and the stored CRC (last two checked bytes a0 a1, first
	 * two CRC bytes t0 t1): the change of the computed CRC differs from the change of the stored one */
	{ unsigned s4 = nondet_uint(); unsigned long E4, stored;
	  __CPROVER_assume(s4 <= 31);
	  E4 = (((unsigned long)p << 22) >> s4) & 0xfffffffful;    /* 32 stream bits a0 a1 t0 t1; bits shifted out at the end fall into CRC bytes 2,3 - see L5 */
	  e[0] = (unsigned char)(E4 >> 24); e[1] = (unsigned char)(E4 >> 16);
	  stored = ((E4 >> 8) & 0xff) << 24 | (E4 & 0xff) << 16;
	  d = KSI_crc32(e, 2, 0) ^ KSI_crc32(zero, 2, 0);
	  __CPROVER_assert(IMPLIES(s4 <= 22 && E4 != 0, d != stored), "L4: a burst touching the last checked bytes and/or the first CRC bytes makes computed and stored CRC differ"); }
	/* L5: a burst entirely inside the stored CRC changes the stored value and not the computed one: immediate (0 != non-zero). */
	REACH("burst lemmas evaluated");
}
#endif

#ifdef H_linear_bounded
#ifndef CRC_N
#define CRC_N 5
#endif
/* the lifting lemma used with C17.crc.burst, on the real function: an error pattern e changes the CRC of ANY message of the
 * same length by D(e) = crc(e) ^ crc(0..0), independent of the message and of the initial value */
void harness(void) {
	unsigned char m[CRC_N], e[CRC_N], me[CRC_N], z[CRC_N]; size_t n = nondet_size(), i; unsigned long iv = nondet_uint();
	__CPROVER_assume(n <= CRC_N);
	for (i = 0; i < CRC_N; i++) { me[i] = m[i] ^ e[i]; z[i] = 0; }
	__CPROVER_assert((KSI_crc32(me, n, iv) ^ KSI_crc32(m, n, iv)) == (KSI_crc32(e, n, 0) ^ KSI_crc32(z, n, 0)), "crc(m ^ e) ^ crc(m) == crc(e) ^ crc(0...0) for every message, error and initial value");
	REACH("compared"); if (n == CRC_N) REACH("full length");
}
#endif
