/* C17 lift (builderV): KSI_base32Encode == reference encoding for EVERY data length (< 2^40), one compile-time group
 * length per job (-DLIFT_G=<n>).  Real base32.c included unmodified; loops closed by contracts/base32_lift.loops.json. */
#include "env/common.h"
#include "env/stubs_base.h"
#include "env/ctype_c.h"
#include "env/ghost_base32.h"
/* reuse the contracts of makeMask / readNextBits (enforced by C17.b32.makeMask / C17.b32.readNextBits) unchanged; the
 * bounded encoder contract of that header is attached to a name nobody defines or calls */
#define KSI_base32Encode KSI_base32Encode__codec_contract_unused
#include "contracts/base32_codec.h"
#undef KSI_base32Encode
#include "contracts/base32_lift.h"
#include "base32.c"

#ifdef H_lift_encode
void harness(void) {
	const unsigned char *d; char *out = NULL; int res; size_t n;
	/* data length in carry form: n = 5c - e, c >= 1, 0 <= e <= 4  (every n in 1 .. 2^40-1 exactly once) */
	g_l_c = nondet_size(); g_l_e = nondet_size();
	__CPROVER_assume(g_l_c >= 1 && g_l_c <= LIFT_CMAX && g_l_e < 5);          /* domain: data_len < 2^40 */
	n = 5 * g_l_c - g_l_e;
	/* witness position in carry form (group number, character in group) */
	g_l_wq = nondet_size(); g_l_wr = nondet_size();
	__CPROVER_assume(g_l_wq <= ((size_t)1 << 42) && (LIFT_G > 0 ? g_l_wr <= LIFT_G : g_l_wr == 0));   /* domain of the witness: covers every output index */
	g_l_j = (LIFT_G + 1) * g_l_wq + g_l_wr;
	g_l_k = LIFT_G > 0 ? LIFT_G * g_l_wq + g_l_wr : g_l_wq;
	g_l_exp = (char)nondet_uchar();     /* pinned by the contract's precondition (definition of the ghost) */
	/* the carry form is the division form of spec/base32.h */
	__CPROVER_assert(IMPLIES(!(LIFT_G > 0 && g_l_wr == LIFT_G), spec_b32_pos(g_l_k, LIFT_G) == g_l_j), "carry form: output index of sequence position k is spec_b32_pos(k, g)");
	__CPROVER_assert(IMPLIES(LIFT_G > 0 && g_l_wr == LIFT_G, g_l_j % (LIFT_G + 1) == LIFT_G && spec_b32_pos(g_l_k, LIFT_G) == g_l_j + 1), "carry form: separator index is the one before the first character of the next group");
	__CPROVER_assert(spec_b32_padded(n) == 8 * g_l_c, "carry form: padded symbol count is 8 * ceil(n / 5)");
	__CPROVER_assert(n >= 1 && n < ((size_t)1 << 40), "constructed data length in range");
	res = KSI_base32Encode(d, n, LIFT_G, &out);
	if (res == KSI_OK) REACH("encoded");
	if (res == KSI_OK && g_l_e != 0) REACH("with padding");
	if (res == KSI_OK && g_l_e == 0 && g_l_c > 1) REACH("without padding, several blocks");
	if (res == KSI_OK && g_l_c == LIFT_CMAX) REACH("largest block count");
#if LIFT_G > 0
	if (res == KSI_OK && g_l_wr == LIFT_G && g_l_j < spec_b32_strlen(n, LIFT_G)) REACH("witness on a separator");
#endif
#if LIFT_G == 6
	if (res == KSI_OK && n == 45) REACH("publication string shape (SHA-256)");
	if (res == KSI_OK && n == 41) REACH("28-byte digest: last data group full, padding follows");
#endif
#ifdef OOM
	if (res == KSI_OUT_OF_MEMORY) REACH("allocation failed");
#endif
}
#endif
