/* C17: KSI_PublicationData_fromBase32 / _toBase32 of publicationsfile.c under contract.
 * Real file: publicationsfile.c.  Callees in other files: env/ghost_pubstr.h. */
#include "env/common.h"
#include "env/stubs_base.h"
#include "hash.h"
#include "impl/hash_impl.h"
#include "impl/publicationsfile_impl.h"
#include "impl/ctx_impl.h"
#include "env/ghost_pubstr.h"
#include "contracts/hash_alg.h"
#include "contracts/publicationsfile_pubstr.h"
#include "publicationsfile.c"

static struct KSI_CTX_st h_ctx;

#ifdef H_fromBase32
void harness(void) {
	KSI_PublicationData *out = NULL; int res; static const char str[4] = "AAA";
	g_ps_str = str; g_ps_crc = nondet_uint(); g_pe_mode = 0;
#ifdef NO_OOM
	g_ps_no_alloc_failure = 1;
#else
	g_ps_no_alloc_failure = 0;
#endif
	res = KSI_PublicationData_fromBase32(&h_ctx, str, &out);
	if (res == KSI_OK) REACH("accepted"); else REACH("refused");
	if (res == KSI_OK && g_ps_algo == 0x01 && g_ps_n == 45) REACH("accepted SHA-256 publication");
	if (res == KSI_OK && g_ps_algo == 0x0a) REACH("accepted SHA3-512 publication");
	if (res == KSI_INVALID_FORMAT && g_ps_decode_res == KSI_OK && g_ps_n >= 13 && g_ps_crc != g_ps_trailer) REACH("checksum mismatch refused");
	if (res == KSI_INVALID_FORMAT && g_ps_decode_res == KSI_OK && g_ps_n < 13) REACH("too short refused");
	if (res == KSI_UNAVAILABLE_HASH_ALGORITHM) REACH("unknown algorithm refused");
	if (res == KSI_INVALID_FORMAT && g_ps_decode_res == KSI_OK && g_ps_n >= 13 && g_ps_crc == g_ps_trailer && spec_hashalg_len(g_ps_algo) > 0) REACH("wrong total length refused");
#ifndef NO_OOM
	if (res == KSI_OUT_OF_MEMORY) REACH("allocation failure reported");
#endif
	/* the caller releases the result; with --memory-leak-check this shows that nothing else (decoded buffer, integer) is left */
	KSI_PublicationData_free(out);
	__CPROVER_assert(g_ps_hash_live == 0 && g_ps_int_live == 0, "the result owns hash and time: releasing the result releases them");
}
#endif

#ifdef H_toBase32
#ifndef IMP_MAX
#define IMP_MAX 65
#endif
void harness(void) {
	struct KSI_PublicationData_st pd; struct KSI_Integer_st tm; unsigned char imp[IMP_MAX]; char *out = NULL; int res;
	memset(&pd, 0, sizeof(pd));
	pd.ctx = &h_ctx; pd.ref = 1;
	tm.ref = 1; tm.value = nondet_ull();
	pd.time = nondet_bool() ? &tm : NULL;
	pd.imprint = nondet_bool() ? &g_ps_hash : NULL;
	g_pe_hash = pd.imprint;
	g_pe_mode = 1; g_ps_crc = nondet_uint();
	g_pe_time = pd.time ? tm.value : 0;
	/* imp[] is left uninitialised: arbitrary content */
	g_pe_imp = imp;
#ifdef IMP_LEN
	g_pe_imp_len = IMP_LEN;
#else
	g_pe_imp_len = nondet_size();
	__CPROVER_assume(g_pe_imp_len == 21 || g_pe_imp_len == 29 || g_pe_imp_len == 33 || g_pe_imp_len == 49 || g_pe_imp_len == 65);   /* 1 + digest length of every known algorithm */
#endif
	g_pe_w = nondet_size();
#ifdef NO_OOM
	g_ps_no_alloc_failure = 1;
#else
	g_ps_no_alloc_failure = 0;
#endif
	res = KSI_PublicationData_toBase32(&pd, &out);
	if (res == KSI_OK) REACH("string produced"); else REACH("failed");
	if (res == KSI_OK && g_pe_imp_len == 33 && g_pe_w == 32) REACH("SHA-256 publication, witness = last imprint byte");
	if (res == KSI_OK && pd.time == NULL) REACH("missing time encodes as 0");
	if (res != KSI_OK && pd.imprint == NULL) REACH("missing imprint refused");
	free(out);    /* the caller owns the string; with --memory-leak-check: the binary buffer was released */
}
#endif

#ifdef H_nullargs
void harness(void) {
	KSI_PublicationData *out = NULL; char *s = NULL; struct KSI_PublicationData_st pd;
	memset(&pd, 0, sizeof(pd)); pd.ctx = &h_ctx;
	__CPROVER_assert(KSI_PublicationData_fromBase32(NULL, "A", &out) == KSI_INVALID_ARGUMENT, "NULL ctx refused");
	__CPROVER_assert(KSI_PublicationData_fromBase32(&h_ctx, NULL, &out) == KSI_INVALID_ARGUMENT, "NULL string refused");
	__CPROVER_assert(KSI_PublicationData_fromBase32(&h_ctx, "A", NULL) == KSI_INVALID_ARGUMENT, "NULL output refused");
	__CPROVER_assert(KSI_PublicationData_toBase32(NULL, &s) == KSI_INVALID_ARGUMENT, "NULL publication data refused");
	__CPROVER_assert(KSI_PublicationData_toBase32(&pd, NULL) == KSI_INVALID_ARGUMENT, "NULL output refused");
	__CPROVER_assert(out == NULL && s == NULL && g_ps_decode_calls == 0 && g_pe_enc_calls == 0 && g_ps_crc_calls == 0, "nothing touched");
	REACH("argument checks evaluated");
}
#endif
