/* Hash-algorithm table look-ups of hash.c (+ KSI_isHashAlgorithmSupported of hash_openssl.c) against spec/hashalg.h.
 * Serves C17 (publication strings need the digest length of every algorithm) and C12 (name look-up reads no
 * memory outside the names arrays).  Real files included unmodified. */
#include "env/common.h"
#include "env/stubs_base.h"
#include "hash.h"
#include "contracts/hash_alg.h"
#ifdef H_supported
#include <openssl/evp.h>
/* [ASSUMED] OpenSSL returns a non-NULL method object for each of its built-in digests */
static const char env_evp_md[5];
const EVP_MD *EVP_sha1(void) { return (const EVP_MD *)&env_evp_md[0]; }
const EVP_MD *EVP_ripemd160(void) { return (const EVP_MD *)&env_evp_md[1]; }
const EVP_MD *EVP_sha256(void) { return (const EVP_MD *)&env_evp_md[2]; }
const EVP_MD *EVP_sha384(void) { return (const EVP_MD *)&env_evp_md[3]; }
const EVP_MD *EVP_sha512(void) { return (const EVP_MD *)&env_evp_md[4]; }
#include "hash_openssl.c"
void harness(void) {
	KSI_HashAlgorithm id = (KSI_HashAlgorithm)nondet_int();
	int r = KSI_isHashAlgorithmSupported(id);
	if (r) REACH("supported"); else REACH("not supported");
}
#else
#include "hash.c"

#define ALG() ((KSI_HashAlgorithm)nondet_int())
#ifdef H_getHashLength
void harness(void) { KSI_HashAlgorithm id = ALG(); unsigned r = KSI_getHashLength(id); if (r) REACH("known"); else REACH("unknown"); if (r == 64) REACH("longest digest"); }
#endif
#ifdef H_trusted
void harness(void) { KSI_HashAlgorithm id = ALG(); int r = KSI_isHashAlgorithmTrusted(id); if (r) REACH("trusted"); else REACH("not trusted"); if (!r && id == KSI_HASHALG_SHA1) REACH("SHA-1 is not trusted"); }
#endif
#ifdef H_checkAt
void harness(void) {
	KSI_HashAlgorithm id = ALG(); time_t t = (time_t)nondet_ll(); int r = KSI_checkHashAlgorithmAt(id, t);
	if (r == KSI_OK) REACH("fine"); if (r == KSI_HASH_ALGORITHM_DEPRECATED) REACH("deprecated"); if (r == KSI_UNKNOWN_HASH_ALGORITHM_ID) REACH("unknown id");
	if (r == KSI_OK && id == KSI_HASHALG_SHA1) REACH("SHA-1 before its deprecation date");
}
#endif
#ifdef H_deprecatedFrom
void harness(void) { KSI_HashAlgorithm id = ALG(); time_t a = KSI_HashAlgorithm_getDeprecatedFrom(id); if (a > 0) REACH("has a deprecation date"); if (a < 0) REACH("unknown id"); }
#endif
#ifdef H_obsoleteFrom
void harness(void) { KSI_HashAlgorithm id = ALG(); time_t a = KSI_HashAlgorithm_getObsoleteFrom(id); if (a == 0) REACH("no date"); if (a < 0) REACH("unknown id"); }
#endif

#ifdef H_name_tables
/* hash.c: "The last name has to be an empty string" - the look-up loop of KSI_getHashAlgorithmByName stops only there.
 * For every table row (symbolic index) with a names array: the array's last element is "" and the row's id, digest
 * length, and first name agree with the documented table. */
#define LAST_EMPTY(a) __CPROVER_assert((a)[sizeof(a) / sizeof((a)[0]) - 1][0] == '\0', "names array " #a " ends with the empty string (terminator of the look-up loop)")
void harness(void) {
	unsigned i = nondet_uint();
	__CPROVER_assert(sizeof(KSI_hashAlgorithmInfo) / sizeof(KSI_hashAlgorithmInfo[0]) == KSI_NUMBER_OF_KNOWN_HASHALGS, "one table row per algorithm id");
	__CPROVER_assert(KSI_NUMBER_OF_KNOWN_HASHALGS == SPEC_HASHALG_COUNT, "number of ids as documented");
	LAST_EMPTY(KSI_HASHALG_SHA1_names); LAST_EMPTY(KSI_HASHALG_SHA2_256_names); LAST_EMPTY(KSI_HASHALG_RIPEMD160_names);
	LAST_EMPTY(KSI_HASHALG_SHA2_384_names); LAST_EMPTY(KSI_HASHALG_SHA2_512_names); LAST_EMPTY(KSI_HASHALG_SHA3_224_names);
	LAST_EMPTY(KSI_HASHALG_SHA3_256_names); LAST_EMPTY(KSI_HASHALG_SHA3_384_names); LAST_EMPTY(KSI_HASHALG_SHA3_512_names);
	LAST_EMPTY(KSI_HASHALG_SM3_names);
	__CPROVER_assume(i < KSI_NUMBER_OF_KNOWN_HASHALGS);
	__CPROVER_assert(KSI_hashAlgorithmInfo[i].algo_id == (KSI_HashAlgorithm)i, "row i describes algorithm id i");
	__CPROVER_assert((KSI_hashAlgorithmInfo[i].names != NULL) == spec_hashalg_known(i), "rows with names are exactly the documented ids");
	__CPROVER_assert(IMPLIES(KSI_hashAlgorithmInfo[i].names != NULL, KSI_hashAlgorithmInfo[i].names[0][0] != '\0'), "every known algorithm has a primary name");
	REACH("table facts evaluated");
}
#endif

#ifdef H_byname
#ifndef NAME_N
#define NAME_N 12
#endif
void harness(void) {
	char name[NAME_N + 1]; size_t k; int r, ref;
	for (k = 0; k < NAME_N; k++) name[k] = (char)nondet_uchar();
	name[NAME_N] = '\0';
	r = (int)KSI_getHashAlgorithmByName(name);
	ref = spec_hashalg_by_name(name);
#ifdef OOM
	__CPROVER_assert(r == ref || r == -1, "KSI_getHashAlgorithmByName == documented name table, or -1 (invalid algorithm) when the scratch allocation fails");
	if (r == -1 && ref != -1) REACH("allocation failed");
#else
	__CPROVER_assert(r == ref, "KSI_getHashAlgorithmByName == documented name table (case-insensitive), -1 for every other string");
#endif
	if (r == KSI_HASHALG_SM3) REACH("last algorithm found by name");
	if (r == KSI_HASHALG_SHA2_256 && name[0] == 'd') REACH("default, lower case");
	if (r == -1 && name[0] == 'S') REACH("unknown name");
	if (r == KSI_HASHALG_RIPEMD160 && name[6] == '_') REACH("longest name, underscore for dash");
}
#endif
#endif
