/* builderS - C14 (and C13 transport half): the remaining functions and paths of net_tcp_async.c, plain mode, ONE call each from an
 * arbitrary state satisfying the connection invariant Inv (stated in t2_assume_inv / re-asserted by t2_check_inv):
 *   H_closeSocket H_addToSendQueue H_getResponse H_openSocket      - loop free / resolver list
 *   H_connect      dispatch() on a closed connection (openSocket inlined, then poll on the half-open socket ...)
 *   H_halfopen     dispatch() while the non-blocking connect is in progress
 *   H_send         dispatch() on an established connection, output half: throttling, send time-out, partial sends, send failure
 *   H_recv         dispatch() on an established connection with input (T2_MAX_ROUNDS receive rounds) and a half-written head request
 * Environment: env/ghost_tcp2.h. */
#include "env/common.h"
#include "env/stubs_base.h"
#include "spec/tlv.h"
#include "spec/tcp_async.h"
#include "net_async.h"
#include "impl/net_async_impl.h"
#include "env/ghost_tcp2.h"
#include "fast_tlv.c"
#include "net_tcp_async.c"

static TcpAsyncCtx tcp;
static _Bool t2_ready(void) { return tcp.socketReady; }
static int t2_sockfd(void) { return tcp.sockfd; }
static struct KSI_AsyncClient_st parent; static struct KSI_AsyncHandle_list_st rq; static struct KSI_OctetString_list_st sq;
static char t2_hostname[4];
static time_t t2_now0, t2_roundStartAt0, t2_connectedAt0; static size_t t2_roundCount0, t2_inLen0; static _Bool t2_ready0; static int t2_sockfd0;
static _Bool t2_has_listener;

#ifndef T_LIM
#define T_LIM 0x80000000LL      /* |clock values| < 2^31 */
#endif
#ifndef OPT_LIM
#define OPT_LIM 0xffffffffULL   /* time-outs, round duration, requests per round < 2^32 */
#endif
static time_t t2_nondet_time(void) { long long t = nondet_ll(); __CPROVER_assume(t > -T_LIM && t < T_LIM); return (time_t)t; }

/* connected: 0 = closed, 1 = connect in progress (half-open), 2 = established */
static void t2_setup(int connected, size_t qmax) {
	size_t i;
	rq.length = t2_req_length; rq.elementAt = t2_req_elementAt; rq.removeElement = t2_req_remove; rq.append = t2_req_append;
	sq.append = t2_resp_append; sq.length = t2_resp_length; sq.removeElement = t2_resp_remove;
	for (i = 0; i < __NOF_KSI_ASYNC_OPT; i++) { parent.options[i] = nondet_size(); __CPROVER_assume(parent.options[i] <= OPT_LIM); }
	t2_has_listener = nondet_bool(); t2_listener_res = nondet_int();
	parent.options[KSI_ASYNC_OPT_CONNECTION_STATE_CALLBACK] = t2_has_listener ? (size_t)t2_listener : 0;
	tcp.ctx = NULL; tcp.parent = &parent; tcp.reqQueue = &rq; tcp.respQueue = &sq;
	tcp.host = t2_hostname; t2_host = t2_hostname; tcp.port = nondet_uint(); tcp.ksi_user = NULL; tcp.ksi_pass = NULL;
	t2_tcp = &tcp; g_inbuf_p = tcp.inBuf; g_inlen_p = &tcp.inLen; g_inbuf_size = sizeof(tcp.inBuf);
	t2_now = t2_now0 = t2_nondet_time();
	tcp.roundStartAt = t2_roundStartAt0 = t2_nondet_time(); tcp.roundCount = t2_roundCount0 = nondet_size(); tcp.connectedAt = t2_connectedAt0 = t2_nondet_time();
	__CPROVER_assume(tcp.roundCount < 0xffffffffffffff00ULL);
	/* Inv: connection */
	if (connected == 0) { tcp.sockfd = KSI_INVALID_SOCKET; tcp.socketReady = 0; tcp.inLen = 0; }
	else {
		tcp.sockfd = T2_FD0; t2_nsock = 1; t2_fd_state[0] = T2_OPEN; t2_fd_nb[0] = 1; t2_fd_conn[0] = 1; t2_fd_proto[0] = IPPROTO_TCP;
		tcp.socketReady = (connected == 2);
		tcp.inLen = (connected == 2) ? nondet_size() : 0;             /* nothing is read before the connection is established */
	}
	t2_sockfd0 = tcp.sockfd; t2_ready0 = tcp.socketReady; t2_inLen0 = tcp.inLen;
	g_in = nondet_ull(); g_out = nondet_ull();
	__CPROVER_assume(tcp.inLen <= sizeof(tcp.inBuf) && g_in == g_out + tcp.inLen && g_in < 0x7fffffffffff0000ULL);
	t2_revents = (short)nondet_int();
	/* Inv: request queue */
	t2_first = t2_first0 = 0; t2_qlen = nondet_size(); __CPROVER_assume(t2_qlen <= qmax && qmax <= T2_QMAX); t2_qlen0 = t2_qlen;
	for (i = 0; i < T2_QMAX; i++) {
		t2_rawp[i] = malloc(T2_RAW); __CPROVER_assume(t2_rawp[i] != NULL);
		T2H(i).raw = t2_rawp[i]; T2H(i).len = t2_len0[i] = nondet_size(); T2H(i).state = t2_state0[i] = nondet_int();
		T2H(i).sentCount = t2_sent0[i] = nondet_size(); T2H(i).reqTime = t2_reqTime0[i] = t2_nondet_time(); T2H(i).sndTime = 0; T2H(i).err = 0; T2H(i).errExt = 0; T2H(i).errMsg = NULL; T2H(i).ctx = NULL;
		__CPROVER_assume(T2H(i).len >= 1 && T2H(i).len <= T2_RAW && T2H(i).sentCount < T2H(i).len);
		/* cursor invariant: only the head request of an ESTABLISHED connection, still waiting for dispatch, may be partly written */
		if (i != 0 || connected != 2 || T2H(i).state != KSI_ASYNC_STATE_WAITING_FOR_DISPATCH) __CPROVER_assume(T2H(i).sentCount == 0);
	}
	t2_wire_partial = (connected == 2 && t2_qlen > 0) ? T2H(0).sentCount : 0;
}

static size_t t2_head_cursor(void) { size_t k, r = 0; for (k = 0; k < T2_QMAX; k++) if (t2_qlen > 0 && k == t2_first) r = T2H(k).sentCount; return r; }
static _Bool t2_queued(size_t i) { return i >= t2_first && i < t2_first + t2_qlen; }

/* Inv after the call + exactly-once accounting of the queue */
static void t2_check_inv(void) {
	size_t i;
	__CPROVER_assert(tcp.inLen <= sizeof(tcp.inBuf), "Inv: buffer fill level inside the buffer");
	__CPROVER_assert(IMPLIES(tcp.sockfd != KSI_INVALID_SOCKET, g_in == g_out + tcp.inLen && !g_pending), "Inv: stream accounting, buffered = received - delivered");
	__CPROVER_assert(IMPLIES(tcp.sockfd == KSI_INVALID_SOCKET, tcp.inLen == 0 && !tcp.socketReady), "Inv: a closed connection keeps no partial input and is not ready");
	for (i = 0; i < T2_NFD; i++)
		__CPROVER_assert(IFF(t2_fd_state[i] == T2_OPEN, tcp.sockfd == T2_FD0 + (int)i), "Inv: the connection's descriptor is the only open one (no descriptor leaked, none used after close)");
	__CPROVER_assert(t2_first + t2_qlen <= T2_QMAX && t2_first >= t2_first0 && t2_first + t2_qlen <= t2_first0 + t2_qlen0, "queue: nothing was added");
	for (i = 0; i < T2_QMAX; i++) {
		if (i >= t2_first0 && i < t2_first0 + t2_qlen0) {
			__CPROVER_assert(t2_removed[i] <= 1, "queue: no request leaves the queue twice");
			__CPROVER_assert(IFF(t2_removed[i] == 0, t2_queued(i)), "queue: a request is either still queued or left exactly once");
			__CPROVER_assert(t2_released[i] == t2_removed[i], "queue: the queue's reference to a request is released exactly once, when it leaves");
			__CPROVER_assert(t2_sent0[i] + t2_written[i] <= t2_len0[i], "wire: no octet of a request is written twice");
			if (t2_removed[i]) {
				__CPROVER_assert(T2H(i).state != KSI_ASYNC_STATE_WAITING_FOR_DISPATCH, "queue: a request that left the queue is not waiting for dispatch any more (never lost)");
				__CPROVER_assert((t2_state0[i] != KSI_ASYNC_STATE_WAITING_FOR_DISPATCH && T2H(i).state == t2_state0[i] && t2_written[i] == 0)
						|| (T2H(i).state == KSI_ASYNC_STATE_WAITING_FOR_RESPONSE && t2_sent0[i] + t2_written[i] == t2_len0[i])
						|| (T2H(i).state == KSI_ASYNC_STATE_ERROR && T2H(i).err != KSI_OK),
						"queue: a request leaves only (a) written completely, now waiting for its response, (b) failed with an error code, or (c) because it was not waiting for dispatch at all");
			} else {
				__CPROVER_assert(T2H(i).state == t2_state0[i] && T2H(i).reqTime == t2_reqTime0[i] && T2H(i).raw == t2_rawp[i] && T2H(i).len == t2_len0[i], "queue: a request that stays queued is untouched (state, clock, payload)");
				__CPROVER_assert(T2H(i).sentCount == t2_sent0[i] + t2_written[i] || (T2H(i).sentCount == 0 && tcp.sockfd == KSI_INVALID_SOCKET), "queue: the send cursor of a queued request counts exactly the octets written (or is back at 0 because the connection ended)");
				/* cursor invariant */
				__CPROVER_assert(IMPLIES(i != t2_first, T2H(i).sentCount == 0), "Inv: only the head request may be partly written");
				__CPROVER_assert(IMPLIES(tcp.sockfd == KSI_INVALID_SOCKET || !tcp.socketReady, T2H(i).sentCount == 0),
						"Inv: connection ended => no queued request is left half-written (later requests travel, whole, on a fresh connection)");
			}
		} else {
			__CPROVER_assert(t2_removed[i] == 0 && t2_released[i] == 0 && t2_written[i] == 0 && T2H(i).state == t2_state0[i], "frame: handles outside the queue are untouched");
		}
	}
	__CPROVER_assert(IMPLIES(tcp.sockfd != KSI_INVALID_SOCKET, t2_wire_partial == t2_head_cursor()),
			"Inv: what was written on the open connection is WHOLE requests plus exactly the head request's send cursor (no half request abandoned on a live connection)");
}

/* every request of the entry queue ended in the error state with this code, exactly once */
static _Bool t2_all_failed_with(int err) {
	size_t i; _Bool ok = (t2_qlen == 0);
	for (i = 0; i < T2_QMAX; i++) if (i < t2_qlen0) ok = ok && t2_removed[i] == 1 && T2H(i).state == KSI_ASYNC_STATE_ERROR && T2H(i).err == err && t2_written[i] == 0;
	return ok;
}
static _Bool t2_queue_untouched(void) {
	size_t i; _Bool ok = (t2_qlen == t2_qlen0 && t2_first == t2_first0);
	for (i = 0; i < T2_QMAX; i++) ok = ok && t2_removed[i] == 0 && t2_written[i] == 0 && T2H(i).state == t2_state0[i] && T2H(i).sentCount == t2_sent0[i];
	return ok;
}
static _Bool t2_queue_untouched_but_cursor(void) {
	size_t i; _Bool ok = (t2_qlen == t2_qlen0 && t2_first == t2_first0);
	for (i = 0; i < T2_QMAX; i++) ok = ok && t2_removed[i] == 0 && t2_written[i] == 0 && T2H(i).state == t2_state0[i] && (T2H(i).sentCount == t2_sent0[i] || T2H(i).sentCount == 0) && T2H(i).raw == t2_rawp[i] && T2H(i).len == t2_len0[i];
	return ok;
}
static _Bool t2_no_descriptor_open(void) { size_t i; _Bool ok = 1; for (i = 0; i < T2_NFD; i++) ok = ok && t2_fd_state[i] != T2_OPEN; return ok; }

/* ------------------------------------------------------------------------------------------------------------------ */
#ifdef H_closeSocket
void harness(void) {
	int connected = nondet_int(); size_t q0; unsigned lineNr = nondet_uint(); _Bool null_arg = nondet_bool();
	__CPROVER_assume(connected >= 0 && connected <= 2);
	t2_setup(connected, T2_QMAX);
	/* closeSocket must also cope with states outside Inv: it is the function that re-establishes it */
	tcp.inLen = nondet_size(); if (connected == 0) tcp.socketReady = nondet_bool();
	t2_ready0 = tcp.socketReady; q0 = t2_qlen;
	closeSocket(null_arg ? NULL : &tcp, lineNr);
	REACH("closeSocket returns");
	if (null_arg) {
		__CPROVER_assert(tcp.sockfd == t2_sockfd0 && tcp.socketReady == t2_ready0 && t2_close_calls == 0 && t2_listener_calls == 0, "closeSocket(NULL): nothing happens");
	} else {
		__CPROVER_assert(tcp.sockfd == KSI_INVALID_SOCKET, "closeSocket: descriptor forgotten");
		__CPROVER_assert(tcp.socketReady == 0, "closeSocket: connection no longer ready (the next connection starts half-open)");
		__CPROVER_assert(tcp.inLen == 0, "closeSocket: partial input of the ended connection is dropped");
		__CPROVER_assert(t2_close_calls == (t2_sockfd0 != KSI_INVALID_SOCKET ? 1u : 0u) && t2_no_descriptor_open(), "closeSocket: the open descriptor is closed exactly once, a closed connection is not closed again");
		__CPROVER_assert(t2_listener_calls == ((t2_ready0 && t2_has_listener) ? 1u : 0u) && IMPLIES(t2_listener_calls, t2_listener_last == 0),
				"closeSocket: the state listener hears 'disconnected' exactly once, and only if the connection had been established");
		__CPROVER_assert(tcp.roundCount == t2_roundCount0 && tcp.roundStartAt == t2_roundStartAt0 && tcp.connectedAt == t2_connectedAt0 && tcp.reqQueue == &rq && tcp.respQueue == &sq && tcp.parent == &parent && tcp.host == t2_hostname,
				"closeSocket frame: throttling round (time based, not per connection), queues, endpoint untouched");
		__CPROVER_assert(t2_queue_untouched_but_cursor() && t2_qlen == q0 && t2_send_calls == 0 && g_recv_calls == 0, "closeSocket frame: no request leaves the queue or changes state, nothing sent or read (a send cursor may only stay or go back to 0)");
		if (t2_sockfd0 != KSI_INVALID_SOCKET && t2_ready0) REACH("closed an established connection");
	}
}
#endif

#ifdef H_addToSendQueue
void harness(void) {
	struct KSI_AsyncHandle_st rqst; int res, state0 = nondet_int(); time_t rt0 = t2_nondet_time(); unsigned char *raw0 = nondet_ptr(); size_t len0 = nondet_size(), sent0 = nondet_size();
	int which = nondet_int();
	t2_setup(nondet_bool() ? 2 : 0, T2_QMAX);
	rqst.state = state0; rqst.reqTime = rt0; rqst.raw = raw0; rqst.len = len0; rqst.sentCount = sent0; rqst.sndTime = 0; rqst.err = 0;
	t2_append_res = nondet_int();
	if (which == 1) tcp.reqQueue = NULL;
	res = addToSendQueue(which == 0 ? NULL : &tcp, which == 2 ? NULL : &rqst);
	REACH("addToSendQueue returns");
	if (which >= 0 && which <= 2) {
		__CPROVER_assert(res == KSI_INVALID_ARGUMENT && t2_append_calls == 0 && rqst.state == state0 && rqst.reqTime == rt0, "addToSendQueue: missing client / queue / request refused, nothing touched");
	} else {
		__CPROVER_assert(t2_append_calls == 1 && t2_appended == &rqst, "addToSendQueue: the request is appended at the TAIL of the send queue exactly once (submission order)");
		__CPROVER_assert(IFF(res == KSI_OK, t2_append_res == KSI_OK) && IMPLIES(res != KSI_OK, res == t2_append_res), "addToSendQueue: accepted <=> the queue took it; otherwise the queue's error");
		if (res == KSI_OK) {
			__CPROVER_assert(rqst.state == KSI_ASYNC_STATE_WAITING_FOR_DISPATCH, "addToSendQueue accepted: request is waiting for dispatch");
			__CPROVER_assert(rqst.reqTime == t2_now && t2_time_calls == 1 && t2_now >= t2_now0, "addToSendQueue accepted: the send time-out clock starts now");
			REACH("accepted");
		} else {
			__CPROVER_assert(rqst.state == state0 && rqst.reqTime == rt0, "addToSendQueue refused: the caller's handle is unchanged");
			REACH("refused");
		}
		__CPROVER_assert(rqst.raw == raw0 && rqst.len == len0 && rqst.sentCount == sent0, "addToSendQueue frame: payload and send cursor belong to the caller (KSI addRequest resets the cursor)");
	}
	__CPROVER_assert(t2_send_calls == 0 && t2_socket_calls == 0 && t2_poll_calls == 0 && t2_queue_untouched(), "addToSendQueue: no network activity, queued requests untouched");
}
#endif

#ifdef H_getResponse
void harness(void) {
	KSI_OctetString *marker = (KSI_OctetString *)&t2_resp_len, *out = marker; size_t left = 12345, len0; int res, which = nondet_int();
	static size_t some; t2_resp_head = (KSI_OctetString *)&some;
	t2_setup(nondet_bool() ? 2 : 0, T2_QMAX);
	t2_resp_len = len0 = nondet_size(); t2_resp_remove_res = nondet_int();
	if (which == 1) tcp.respQueue = NULL;
	res = getResponse(which == 0 ? NULL : &tcp, which == 2 ? NULL : &out, which == 3 ? NULL : &left);
	REACH("getResponse returns");
	if (which >= 0 && which <= 3) {
		__CPROVER_assert(res == KSI_INVALID_ARGUMENT && t2_resp_removed == 0 && out == marker && left == 12345, "getResponse: missing argument refused, nothing taken");
	} else if (len0 == 0) {
		__CPROVER_assert(res == KSI_OK && out == NULL && left == 0 && t2_resp_removed == 0, "getResponse: empty queue => OK, no response, none left");
		REACH("empty");
	} else if (t2_resp_remove_res != KSI_OK) {
		__CPROVER_assert(res == t2_resp_remove_res && out == marker && left == 12345 && t2_resp_len == len0, "getResponse: queue failure => that error, nothing handed out, queue as before");
	} else {
		__CPROVER_assert(res == KSI_OK && out == t2_resp_head, "getResponse: hands out the OLDEST queued response (arrival order)");
		__CPROVER_assert(t2_resp_removed == 1 && t2_resp_remove_pos == 0 && !t2_resp_remove_noreceiver, "getResponse: exactly one response leaves the queue, from the head, ownership passes to the caller (not released by the queue)");
		__CPROVER_assert(left == len0 - 1 && t2_resp_len == len0 - 1, "getResponse: *left = number of responses still queued");
		REACH("handed out");
	}
	__CPROVER_assert(t2_send_calls == 0 && g_recv_calls == 0 && t2_poll_calls == 0 && t2_queue_untouched(), "getResponse: no network activity, request queue untouched");
}
#endif

#ifdef H_openSocket
void harness(void) {
	int fd = 777, res, which = nondet_int(); size_t i; _Bool one_ok = 0;
	t2_setup(0, T2_QMAX);
	res = openSocket(which == 0 ? NULL : &tcp, which == 1 ? NULL : &fd);
	REACH("openSocket returns");
	if (which == 0 || which == 1) {
		__CPROVER_assert(res == KSI_INVALID_ARGUMENT && fd == 777 && t2_gai_calls == 0 && t2_socket_calls == 0, "openSocket: missing argument refused before any system call");
	} else {
		__CPROVER_assert(t2_gai_calls == 1 && t2_gai_freed == t2_gai_ok, "openSocket: one resolver query; its answer is released exactly once on every path");
		__CPROVER_assert(res == KSI_OK || res == KSI_NETWORK_ERROR || res == KSI_IO_ERROR, "openSocket: OK, network error or i/o error");
		if (res == KSI_OK) {
			__CPROVER_assert(fd >= T2_FD0 && fd < T2_FD0 + T2_NFD && t2_fd_state[fd - T2_FD0] == T2_OPEN, "openSocket ok: hands out an open descriptor");
			__CPROVER_assert(t2_fd_nb[fd - T2_FD0] && t2_fd_conn[fd - T2_FD0] && t2_fd_proto[fd - T2_FD0] == IPPROTO_TCP, "openSocket ok: a TCP socket, non-blocking, whose connect succeeded or is in progress");
			__CPROVER_assert(tcp.connectedAt == t2_now && t2_time_calls == 1, "openSocket ok: the connect time-out clock starts now");
			for (i = 0; i < T2_NFD; i++) __CPROVER_assert(IMPLIES(t2_fd_state[i] == T2_OPEN, fd == T2_FD0 + (int)i), "openSocket ok: no other descriptor left open");
			REACH("connected or in progress");
		} else {
			__CPROVER_assert(fd == 777, "openSocket failed: caller's descriptor untouched");
			__CPROVER_assert(t2_no_descriptor_open() && t2_close_calls == t2_nsock, "openSocket failed: every socket it created is closed exactly once");
			__CPROVER_assert(tcp.connectedAt == t2_connectedAt0, "openSocket failed: connect clock untouched");
			if (t2_gai_ok == 0) REACH("resolver failed");
			if (t2_connect_calls > 0) REACH("connect refused");
		}
		__CPROVER_assert(t2_nsock <= 1 && t2_connect_calls <= 1, "openSocket: at most one socket, one connect attempt");
	}
	__CPROVER_assert(tcp.sockfd == KSI_INVALID_SOCKET && !tcp.socketReady && tcp.inLen == 0 && t2_queue_untouched() && t2_send_calls == 0 && t2_poll_calls == 0, "openSocket frame: connection object (but the clock), queue untouched; nothing sent");
}
#endif

#ifdef H_connect
/* dispatch() on a CLOSED connection */
void harness(void) {
	int res; _Bool opened;
	t2_setup(0, 2);
	res = dispatch(&tcp);
	REACH("dispatch returns");
	t2_check_inv();
	opened = (t2_nsock == 1 && t2_fd_nb[0] && t2_fd_conn[0]);
	if (t2_qlen0 == 0) {
		__CPROVER_assert(res == KSI_OK && t2_gai_calls == 0 && t2_socket_calls == 0 && t2_poll_calls == 0 && tcp.sockfd == KSI_INVALID_SOCKET, "connect: nothing to send => no connection is opened, OK");
		REACH("idle");
	} else if (t2_poll_calls == 0) {
		/* openSocket failed */
		__CPROVER_assert(t2_gai_calls == 1, "connect: queued requests => one connection attempt");
		__CPROVER_assert(res == KSI_OK, "connect failed: reported through the requests, the call itself is OK");
		__CPROVER_assert(tcp.sockfd == KSI_INVALID_SOCKET && t2_no_descriptor_open(), "connect failed: connection stays closed");
		__CPROVER_assert(t2_all_failed_with(KSI_NETWORK_ERROR) || t2_all_failed_with(KSI_IO_ERROR), "connect failed: EVERY queued request ends in the error state with the network / io error, exactly once, nothing of it written");
		__CPROVER_assert(t2_send_calls == 0 && g_recv_calls == 0, "connect failed: nothing sent or read");
		REACH("connection attempt failed");
	} else {
		__CPROVER_assert(opened, "connect: poll only on a socket that was made non-blocking and connect()ed");
		__CPROVER_assert(IMPLIES(t2_send_calls > 0, t2_poll_res > 0 && !(t2_revents & POLLHUP) && (t2_revents & POLLOUT)), "connect: requests are written only after poll reported the connection established and writable");
		if (t2_poll_res == 0) {
			_Bool to = spec_async_timed_out(t2_now, tcp.connectedAt == t2_connectedAt0 ? t2_now : tcp.connectedAt, parent.options[KSI_ASYNC_OPT_CON_TIMEOUT]);
			if (parent.options[KSI_ASYNC_OPT_CON_TIMEOUT] == 0) {
				__CPROVER_assert(res == KSI_OK && tcp.sockfd == KSI_INVALID_SOCKET && t2_all_failed_with(KSI_NETWORK_CONNECTION_TIMEOUT), "connect, time-out 0: not established at once => connection closed, every queued request fails with the connection time-out exactly once");
				REACH("connect time-out 0");
			}
		}
		if (t2_poll_res > 0 && !(t2_revents & POLLHUP) && !t2_peer_failed && !(t2_has_listener && t2_listener_res != KSI_OK) && !t2_env_failed) {
			__CPROVER_assert(res == KSI_OK && tcp.socketReady && tcp.sockfd == T2_FD0, "connect established: connection ready, OK");
			REACH("established in the same call");
		}
	}
}
#endif

#ifdef H_halfopen
/* dispatch() while connect is in progress */
void harness(void) {
	int res;
	t2_setup(1, 2);
	res = dispatch(&tcp);
	REACH("dispatch returns");
	t2_check_inv();
	__CPROVER_assert(t2_gai_calls == 0 && t2_socket_calls == 0 && t2_connect_calls == 0, "half-open: no second connection attempt while one is in progress");
	__CPROVER_assert(t2_poll_calls == 1, "half-open: the socket is polled");
	if (t2_poll_res == 0) {
		_Bool to = spec_async_timed_out(t2_now, t2_connectedAt0, parent.options[KSI_ASYNC_OPT_CON_TIMEOUT]);
		__CPROVER_assert(res == KSI_OK, "half-open, not yet writable: OK");
		__CPROVER_assert(t2_send_calls == 0 && g_recv_calls == 0, "half-open: nothing is written or read before the connection is established");
		if (to) {
			__CPROVER_assert(tcp.sockfd == KSI_INVALID_SOCKET && t2_close_calls == 1, "connect time-out elapsed => socket closed");
			__CPROVER_assert(t2_all_failed_with(KSI_NETWORK_CONNECTION_TIMEOUT), "connect time-out elapsed => EVERY queued request fails with KSI_NETWORK_CONNECTION_TIMEOUT exactly once, nothing of it written");
			REACH("connect timed out");
		} else {
			__CPROVER_assert(tcp.sockfd == T2_FD0 && !tcp.socketReady && t2_close_calls == 0 && t2_queue_untouched(), "connect time-out NOT elapsed => keep waiting: nothing fails, nothing changes");
			REACH("still connecting");
		}
	} else if (t2_poll_res < 0) {
		__CPROVER_assert(res == KSI_ASYNC_CONNECTION_CLOSED && tcp.sockfd == KSI_INVALID_SOCKET && t2_close_calls == 1, "half-open, poll failed => socket closed, connection-closed reported");
		__CPROVER_assert(t2_queue_untouched() && t2_send_calls == 0, "half-open, poll failed: queued requests stay queued, unwritten, for the next connection");
		REACH("poll failed");
	} else if (t2_revents & POLLHUP) {
		__CPROVER_assert(res == KSI_ASYNC_CONNECTION_CLOSED && tcp.sockfd == KSI_INVALID_SOCKET && t2_close_calls == 1, "connection refused => socket closed, connection-closed reported");
		__CPROVER_assert(t2_all_failed_with(KSI_NETWORK_ERROR), "connection refused => EVERY queued request fails with KSI_NETWORK_ERROR exactly once, nothing of it written");
		__CPROVER_assert(t2_send_calls == 0 && g_recv_calls == 0 && t2_listener_calls == 0, "connection refused: nothing sent, the listener never heard 'connected'");
		REACH("refused");
	} else {
		__CPROVER_assert(t2_listener_calls >= (t2_has_listener ? 1u : 0u), "established: the state listener is told");
		if (t2_has_listener && t2_listener_res != KSI_OK) {
			__CPROVER_assert(res == t2_listener_res && tcp.sockfd == KSI_INVALID_SOCKET && t2_close_calls == 1 && t2_all_failed_with(t2_listener_res) && t2_send_calls == 0,
					"listener refused the connection => socket closed, every queued request fails with the listener's code exactly once, nothing written");
			__CPROVER_assert(t2_listener_calls == 2 && t2_listener_last == 0, "listener refused: it hears 'connected' then 'disconnected'");
			REACH("listener error");
		} else if (!t2_peer_failed && !t2_env_failed) {
			__CPROVER_assert(res == KSI_OK && tcp.socketReady && tcp.sockfd == T2_FD0 && t2_close_calls == 0, "established: ready, stays open, OK");
			__CPROVER_assert(t2_listener_calls == (t2_has_listener ? 1u : 0u), "established: listener hears 'connected' exactly once");
			REACH("established");
			if (t2_send_calls > 0) REACH("first request written right after the connection was established");
		}
	}
}
#endif

#if defined(H_send) || defined(H_recv)
#ifndef H_QMAX
#define H_QMAX T2_QMAX
#endif
void harness(void) {
	int res; size_t i, n_sent = 0, n_timeout = 0, n_other = 0; _Bool restarted, pt = 0;
	unsigned long long maxc, dur, sto;
	t2_setup(2, H_QMAX);
#ifdef H_send
	/* bound of this job: no input pending (the input half is explored by C14.dispatch_bounded / C14.tcp2_recv) */
	__CPROVER_assume(tcp.inLen == 0 && !(t2_revents & POLLIN));
#endif
	maxc = parent.options[KSI_ASYNC_OPT_MAX_REQUEST_COUNT]; dur = parent.options[KSI_ASYNC_PRIVOPT_ROUND_DURATION]; sto = parent.options[KSI_ASYNC_OPT_SND_TIMEOUT];
	res = dispatch(&tcp);
	REACH("dispatch returns");
	t2_check_inv();
	__CPROVER_assert(t2_gai_calls == 0 && t2_socket_calls == 0 && t2_connect_calls == 0, "established: no new connection is opened");
	/* pt: a PARTLY written request ran into its send time-out.  The code as it is goes on using the connection (defect 2, caught by the wire
	 * obligations of Inv); a repaired version may end the connection instead - the call level obligations admit both. */
	for (i = 0; i < T2_QMAX; i++) if (i < t2_qlen0 && t2_removed[i] && T2H(i).state == KSI_ASYNC_STATE_ERROR && t2_state0[i] == KSI_ASYNC_STATE_WAITING_FOR_DISPATCH && t2_rm_sent[i] > 0) pt = 1;
	__CPROVER_assert(IMPLIES(t2_peer_failed, res == KSI_ASYNC_CONNECTION_CLOSED && tcp.sockfd == KSI_INVALID_SOCKET && t2_close_calls == 1) && IMPLIES(res == KSI_ASYNC_CONNECTION_CLOSED, (t2_peer_failed || pt) && tcp.sockfd == KSI_INVALID_SOCKET),
			"peer close / reset / failed poll, recv or send => connection closed exactly once + KSI_ASYNC_CONNECTION_CLOSED; connection-closed is reported only then (or when a half-written request timed out)");
	__CPROVER_assert(IMPLIES(!t2_peer_failed && !pt, tcp.sockfd == T2_FD0 && t2_close_calls == 0 && tcp.socketReady), "no failure => the connection stays open and ready");
	__CPROVER_assert(IMPLIES(!t2_peer_failed && !t2_env_failed && !pt, res == KSI_OK), "would-block results, throttling and send time-outs fail nothing at call level");
	__CPROVER_assert(IMPLIES(t2_peer_failed, t2_listener_calls == (t2_has_listener ? 1u : 0u)) && IMPLIES(!t2_peer_failed && !pt, t2_listener_calls == 0), "listener hears 'disconnected' exactly when the connection ended");
	for (i = 0; i < T2_QMAX; i++) if (i < t2_qlen0 && t2_removed[i]) {
		if (T2H(i).state == KSI_ASYNC_STATE_WAITING_FOR_RESPONSE && t2_state0[i] == KSI_ASYNC_STATE_WAITING_FOR_DISPATCH) {
			n_sent++;
			__CPROVER_assert(!spec_async_timed_out(t2_now0, t2_reqTime0[i], sto), "sent => its send time-out had not elapsed (clock is monotone: not even at the start of the call)");
			__CPROVER_assert(T2H(i).sndTime >= t2_now0 && T2H(i).sndTime <= t2_now, "sent => the receive time-out clock starts at the time of sending");
			__CPROVER_assert(T2H(i).raw == NULL && T2H(i).len == 0 && T2H(i).sentCount == 0, "sent => serialized payload released, cursor reset");
		} else if (T2H(i).state == KSI_ASYNC_STATE_ERROR && t2_state0[i] == KSI_ASYNC_STATE_WAITING_FOR_DISPATCH) {
			n_timeout++;
			__CPROVER_assert(T2H(i).err == KSI_NETWORK_SEND_TIMEOUT, "failed in the send queue => send time-out is the cause");
			__CPROVER_assert(spec_async_timed_out(t2_now, t2_reqTime0[i], sto), "send time-out => the configured time has really elapsed (by the end of the call at the latest)");
			__CPROVER_assert(t2_written[i] == 0, "send time-out => not an octet of the request is written in this call");
		} else n_other++;
	}
	restarted = spec_async_round_over(t2_now, t2_roundStartAt0, dur);     /* the round duration has elapsed by the END of the call (monotone clock): only then may a new round have been started */
	__CPROVER_assert(IMPLIES(!restarted, tcp.roundStartAt == t2_roundStartAt0 && tcp.roundCount == t2_roundCount0 + n_sent), "throttle: no new round before the round duration has elapsed; the round counter counts exactly the requests written completely (not time-outs, not dropped ones)");
	__CPROVER_assert(IMPLIES(restarted, tcp.roundCount <= t2_roundCount0 + n_sent && (tcp.roundStartAt == t2_roundStartAt0 || (tcp.roundStartAt >= t2_now0 && tcp.roundStartAt <= t2_now))),
			"throttle: a new round starts at the current time and counts from 0");
	__CPROVER_assert(IMPLIES(n_sent > 0, tcp.roundCount <= maxc), "throttle: never more than the configured number of requests per round");
	__CPROVER_assert(IMPLIES(t2_send_calls > 0 || t2_rm_seq > 0, t2_poll_res > 0 && (t2_revents & POLLOUT)), "output only when poll reports the socket writable");
	/* progress: nothing is held back without a reason */
	if (t2_qlen > 0 && !t2_peer_failed && !t2_env_failed && !pt && t2_poll_res > 0 && (t2_revents & POLLOUT) && !t2_send_wouldblock) {
		__CPROVER_assert(!(tcp.roundCount < maxc), "progress: requests stay queued on a writable connection only because the round is full");
		REACH("held back by throttling");
	}
	if (n_sent >= 2) REACH("two requests written in one call");
	if (n_timeout >= 1 && n_sent >= 1) REACH("one request timed out, a later one was sent");
	if (n_other >= 1) REACH("a request not waiting for dispatch was dropped from the queue");
	if (t2_peer_failed) REACH("connection failed");
#ifdef H_recv
	if (g_delivered > 0) REACH("delivered a PDU");
#endif
}
#endif
