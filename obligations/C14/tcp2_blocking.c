/* builderS - C14, blocking TCP client net_tcp.c beyond readResponse (C09.blocking_*): sendRequest and prepareRequest, plain mode, loop free.
 *   H_sendRequest     the request handle is wired to readResponse and gets a private copy of the endpoint (host, port)
 *   H_prepareRequest  exactly the serialized octets of the PDU become the request of a NEW handle, handed to the client's sendRequest once */
#include "env/common.h"
#include "env/stubs_base.h"
#include "net.h"
#include "impl/net_impl.h"
#include "impl/net_tcp_impl.h"

/* ---- assumed environment ---- */
static unsigned t4_strdup_calls; static const char *t4_strdup_from; static char *t4_strdup_copy;
int KSI_strdup(const char *from, char **to) {
	char *c;
	t4_strdup_calls++; t4_strdup_from = from;
	__CPROVER_assert(from != NULL && to != NULL, "KSI_strdup: source and receiver given");
	c = malloc(4); if (c == NULL) return KSI_OUT_OF_MEMORY;
	c[0] = from[0]; c[3] = 0; t4_strdup_copy = c; *to = c; return KSI_OK;
}
size_t KSI_snprintf(char *buf, size_t n, const char *format, ...) { if (n > 0) buf[0] = 0; return 0; }
static struct KSI_NetHandle_st t4_rh; static unsigned t4_new_calls, t4_free_calls, t4_setimpl_calls; static const unsigned char *t4_new_req; static size_t t4_new_len; static int t4_new_res, t4_setimpl_res;
int KSI_RequestHandle_new(KSI_CTX *ctx, const unsigned char *request, size_t request_length, KSI_RequestHandle **handle) {
	t4_new_calls++; t4_new_req = request; t4_new_len = request_length;
	if (t4_new_res != KSI_OK) return t4_new_res;
	t4_rh.ctx = ctx; t4_rh.ref = 1; t4_rh.implCtx = NULL; t4_rh.implCtx_free = NULL; t4_rh.readResponse = NULL; t4_rh.client = NULL;
	*handle = &t4_rh; return KSI_OK;
}
void KSI_RequestHandle_free(KSI_RequestHandle *h) { if (h != NULL) { t4_free_calls++; if (h->implCtx_free != NULL) h->implCtx_free(h->implCtx); h->implCtx = NULL; h->implCtx_free = NULL; } }
int KSI_RequestHandle_setImplContext(KSI_RequestHandle *handle, void *netCtx, void (*netCtx_free)(void *)) {
	t4_setimpl_calls++;
	if (handle == NULL) return KSI_INVALID_ARGUMENT;
	if (t4_setimpl_res != KSI_OK) return t4_setimpl_res;
	handle->implCtx = netCtx; handle->implCtx_free = netCtx_free; return KSI_OK;
}
#include "net_tcp.c"

#ifdef H_sendRequest
void harness(void) {
	struct KSI_NetworkClient_st client; char host[4]; unsigned port = nondet_uint(); int res, which = nondet_int();
	KSI_RequestHandle *h = &t4_rh; static int old_ctx; void *impl0 = nondet_bool() ? (void *)&old_ctx : NULL;
	host[0] = (char)nondet_uchar(); host[3] = 0;
	t4_rh.ctx = NULL; t4_rh.implCtx = impl0; t4_rh.implCtx_free = NULL; t4_rh.readResponse = NULL; t4_rh.client = NULL;
	t4_setimpl_res = nondet_int();
	res = sendRequest(which == 1 ? NULL : &client, which == 0 ? NULL : h, which == 2 ? NULL : host, port);
	REACH("sendRequest returns");
	if (which >= 0 && which <= 2) {
		__CPROVER_assert(res == KSI_INVALID_ARGUMENT && t4_strdup_calls == 0 && t4_setimpl_calls == 0 && t4_rh.implCtx == impl0, "sendRequest: missing handle / client / host refused, nothing allocated or changed");
	} else if (res == KSI_OK) {
		TcpClientCtx *tc = (TcpClientCtx *)t4_rh.implCtx;
		__CPROVER_assert(t4_rh.readResponse == readResponse && t4_rh.client == &client, "sendRequest ok: the handle is read by the TCP reader of THIS client");
		__CPROVER_assert(tc != NULL && tc != impl0 && t4_rh.implCtx_free == (void (*)(void *))TcpClientCtx_free, "sendRequest ok: the handle owns a fresh endpoint context with its destructor");
		__CPROVER_assert(tc->host == t4_strdup_copy && t4_strdup_from == host && t4_strdup_calls == 1 && tc->host != host && tc->port == port, "sendRequest ok: the context holds a private copy of the host and the port given");
		REACH("ok");
		t4_rh.implCtx_free(t4_rh.implCtx);           /* what KSI_RequestHandle_free does: everything must be releasable exactly once */
	} else {
		__CPROVER_assert(res == KSI_OUT_OF_MEMORY || res == t4_setimpl_res, "sendRequest failed: out of memory or the handle's own error");
		__CPROVER_assert(t4_rh.implCtx == impl0, "sendRequest failed: the handle's context is as before (the half-built one is released: --memory-leak-check)");
		REACH("failed");
	}
}
#endif

#ifdef H_prepareRequest
static _Bool t4_ser_ok; static unsigned t4_ser_calls, t4_send_calls; static int t4_ser_res, t4_send_res; static unsigned char *t4_raw; static size_t t4_raw_len; static void *t4_pdu_seen;
static KSI_RequestHandle *t4_send_handle; static char *t4_send_host; static unsigned t4_send_port; static KSI_NetworkClient *t4_send_client;
static int t4_serialize(void *pdu, unsigned char **raw, size_t *len) {
	t4_ser_calls++; t4_pdu_seen = pdu;
	if (t4_ser_res != KSI_OK) return t4_ser_res;
	t4_raw = malloc(4); if (t4_raw == NULL) return KSI_OUT_OF_MEMORY;
	t4_raw_len = nondet_size(); __CPROVER_assume(t4_raw_len >= 1 && t4_raw_len <= 4);
	*raw = t4_raw; *len = t4_raw_len; t4_ser_ok = 1; return KSI_OK;
}
static int t4_sendRequest(KSI_NetworkClient *c, KSI_RequestHandle *h, char *host, unsigned port) {
	t4_send_calls++; t4_send_client = c; t4_send_handle = h; t4_send_host = host; t4_send_port = port;
	__CPROVER_assert(t4_new_calls == 1 && h == &t4_rh, "prepareRequest: the NEW handle is handed to the client's sender");
	return t4_send_res;
}
void harness(void) {
	struct KSI_NetworkClient_st client; struct KSI_TcpClient_st tcp; struct KSI_CTX_st *ctx = (struct KSI_CTX_st *)&t4_ser_calls; int pdu, res, which = nondet_int();
	KSI_RequestHandle *marker = (KSI_RequestHandle *)&t4_free_calls, *out = marker; char host[4]; unsigned port = nondet_uint();
	host[3] = 0;
	client.ctx = (which == 0) ? NULL : (KSI_CTX *)ctx; client.impl = &tcp; tcp.sendRequest = (which == 3) ? NULL : t4_sendRequest; tcp.http = NULL;
	t4_ser_res = nondet_int(); t4_new_res = nondet_int(); t4_send_res = nondet_int();
	res = prepareRequest(&client, which == 1 ? NULL : &pdu, t4_serialize, which == 2 ? NULL : &out, host, port, "d");
	REACH("prepareRequest returns");
	if (which >= 0 && which <= 2) {
		__CPROVER_assert(res == KSI_INVALID_ARGUMENT && t4_ser_calls == 0 && t4_new_calls == 0 && out == marker, "prepareRequest: missing context / PDU / receiver refused before anything is serialized");
	} else {
		__CPROVER_assert(t4_ser_calls == 1 && t4_pdu_seen == &pdu, "prepareRequest: the PDU is serialized exactly once");
		__CPROVER_assert(IFF(res == KSI_OK, t4_ser_ok && t4_new_res == KSI_OK && which != 3 && t4_send_res == KSI_OK), "prepareRequest: OK <=> serialized, handle created, client has a sender and the sender accepted the handle");
		__CPROVER_assert(IMPLIES(t4_ser_ok && t4_new_res == KSI_OK && which != 3 && t4_send_res != KSI_OK, res == t4_send_res), "prepareRequest: the sender's error is passed on");
		if (res == KSI_OK) {
			__CPROVER_assert(out == &t4_rh && t4_new_calls == 1 && t4_new_req == t4_raw && t4_new_len == t4_raw_len, "prepareRequest ok: the new handle's request is EXACTLY the serialized PDU (all its octets, nothing else)");
			__CPROVER_assert(t4_send_calls == 1 && t4_send_client == &client && t4_send_host == host && t4_send_port == port, "prepareRequest ok: handed to the sender once, with the endpoint given");
			__CPROVER_assert(t4_free_calls == 0, "prepareRequest ok: the handle handed out is alive");
			REACH("ok");
		} else {
			__CPROVER_assert(out == marker, "prepareRequest failed: nothing handed out");
			__CPROVER_assert(t4_free_calls == t4_new_calls - (t4_new_res != KSI_OK ? t4_new_calls : 0), "prepareRequest failed: a handle that was created is released exactly once");
			__CPROVER_assert(IMPLIES(t4_ser_res != KSI_OK, res == t4_ser_res && t4_new_calls == 0), "prepareRequest: serializer error passed on, no handle created");
			__CPROVER_assert(IMPLIES(which == 3 && t4_ser_res == KSI_OK && t4_raw != NULL && t4_new_res == KSI_OK, res == KSI_UNKNOWN_ERROR && t4_send_calls == 0), "prepareRequest: client without sender => error, nothing sent");
			REACH("failed");
		}
		/* the serialized buffer belongs to prepareRequest (the handle keeps its own copy): released on every path (--memory-leak-check) */
	}
}
#endif
