/* C14: net_tcp_async.c dispatch() - reassembly of the inbound byte stream and partial sends, for every chunking. */
#include "env/common.h"
#include "env/stubs_base.h"
#include "spec/tlv.h"
#include "net_async.h"
#include "impl/net_async_impl.h"
#include "env/ghost_tcp.h"
#include "fast_tlv.c"
#include "net_tcp_async.c"
TcpAsyncCtx *g_tcp_p;
#include "contracts/net_tcp_async_dispatch.h"

static TcpAsyncCtx tcp;

void harness(void) {
	struct KSI_AsyncClient_st parent; struct KSI_AsyncHandle_list_st rq; struct KSI_OctetString_list_st sq; int res, i;
	memset(&rq, 0, sizeof(rq)); memset(&sq, 0, sizeof(sq));
	rq.length = req_length; rq.elementAt = req_elementAt; rq.removeElement = req_remove;
	sq.append = resp_append;
	for (i = 0; i < __NOF_KSI_ASYNC_OPT; i++) parent.options[i] = nondet_size();
	parent.options[KSI_ASYNC_OPT_CONNECTION_STATE_CALLBACK] = 0;       /* no state listener installed */
	tcp.ctx = NULL; tcp.parent = &parent; tcp.reqQueue = &rq; tcp.respQueue = &sq;
	tcp.sockfd = nondet_int(); tcp.inLen = nondet_size(); tcp.socketReady = nondet_bool();
	tcp.roundStartAt = nondet_ll(); tcp.roundCount = nondet_size(); tcp.connectedAt = nondet_ll();
	g_tcp_p = &tcp; g_inbuf_p = tcp.inBuf; g_inlen_p = &tcp.inLen; g_inbuf_size = sizeof(tcp.inBuf);
	g_in = nondet_ull(); g_out = nondet_ull(); g_recv_calls = 0; g_pending = 0; g_peer_closed = 0; g_sock_closed = 0; g_tcp_env_failed = 0;
	g_revents = (short)nondet_int(); g_now = nondet_ll();
	g_q_len = nondet_size(); g_req_raw_p = malloc(1); __CPROVER_assume(g_req_raw_p != NULL);
	g_req.state = nondet_int(); g_req.len = nondet_size(); g_req.sentCount = nondet_size(); g_req.raw = g_req_raw_p; g_req.reqTime = nondet_ll();
	g_req_len0 = g_req.len;
	__CPROVER_assert(sizeof(tcp.inBuf) == 131078ul && KSI_ASYNC_STATE_WAITING_FOR_DISPATCH == 1, "constants used in the loop invariants");
	res = dispatch(&tcp);
	REACH("returned");
	if (res == KSI_OK && g_delivered > 0) REACH("delivered a PDU");
	if (res == KSI_ASYNC_CONNECTION_CLOSED) REACH("connection closed");
}
