/* C14 (bounded attempt, plain mode): net_tcp_async.c dispatch() with an established connection; receive rounds, buffered
 * PDUs and sends bounded by unwinding; all chunk sizes, PDU sizes, buffer contents symbolic. */
#include "env/common.h"
#include "env/stubs_base.h"
#include "spec/tlv.h"
#include "net_async.h"
#include "impl/net_async_impl.h"
#include "env/ghost_tcp.h"
int KSI_Utf8String_new(KSI_CTX *ctx, const char *str, size_t len, KSI_Utf8String **t) { return KSI_OUT_OF_MEMORY; }
void KSI_AsyncHandle_free(KSI_AsyncHandle *h) { }
#include "fast_tlv.c"
#include "net_tcp_async.c"
TcpAsyncCtx *g_tcp_p;
static TcpAsyncCtx tcp;

void harness(void) {
	struct KSI_AsyncClient_st parent; struct KSI_AsyncHandle_list_st rq; struct KSI_OctetString_list_st sq; int res, i;
	rq.length = req_length; rq.elementAt = req_elementAt; rq.removeElement = req_remove;
	sq.append = resp_append;
	for (i = 0; i < __NOF_KSI_ASYNC_OPT; i++) parent.options[i] = nondet_size();
	parent.options[KSI_ASYNC_OPT_CONNECTION_STATE_CALLBACK] = 0;
	tcp.ctx = NULL; tcp.parent = &parent; tcp.reqQueue = &rq; tcp.respQueue = &sq;
	tcp.sockfd = 5; tcp.inLen = nondet_size(); tcp.socketReady = 1;          /* established connection */
	tcp.roundStartAt = nondet_ll(); tcp.roundCount = nondet_size(); tcp.connectedAt = nondet_ll();
	g_tcp_p = &tcp; g_inbuf_p = tcp.inBuf; g_inlen_p = &tcp.inLen; g_inbuf_size = sizeof(tcp.inBuf);
	g_in = nondet_ull(); g_out = nondet_ull(); g_pending = 0; g_peer_closed = 0; g_sock_closed = 0; g_tcp_env_failed = 0; g_recv_calls = 0;
	__CPROVER_assume(tcp.inLen <= sizeof(tcp.inBuf) && g_in == g_out + tcp.inLen && g_in < 0x7fffffffffff0000ULL);
	g_revents = (short)nondet_int(); g_now = nondet_ll();
	g_q_len = nondet_size(); __CPROVER_assume(g_q_len <= 2); g_req_raw_p = malloc(GHOST_TCP_MAX_REQ); __CPROVER_assume(g_req_raw_p != NULL);
	g_req.state = nondet_int(); g_req.len = nondet_size(); g_req.sentCount = nondet_size(); g_req.raw = g_req_raw_p; g_req.reqTime = nondet_ll();
	__CPROVER_assume(g_req.sentCount <= g_req.len && g_req.len <= GHOST_TCP_MAX_REQ);
	g_req_len0 = g_req.len;
	res = dispatch(&tcp);
	__CPROVER_assert(tcp.inLen <= sizeof(tcp.inBuf), "buffer fill level inside the buffer");
	__CPROVER_assert(IMPLIES(tcp.sockfd != -1, g_in == g_out + tcp.inLen && !g_pending), "stream accounting: buffered = received - delivered");
	__CPROVER_assert(IMPLIES(tcp.sockfd == -1, tcp.inLen == 0), "after the connection ended no partial data is kept");
	__CPROVER_assert(IMPLIES(g_peer_closed, g_sock_closed && tcp.sockfd == -1 && res == KSI_ASYNC_CONNECTION_CLOSED), "peer close / reset => connection closed + network error");
	__CPROVER_assert(IMPLIES(!g_peer_closed && !g_sock_closed && !g_tcp_env_failed, res == KSI_OK), "would-block results fail nothing");
	REACH("returned"); if (g_delivered > 0) REACH("delivered a PDU");
}
