/* C03: calculateCalendarAggregationTime == reference calendar-tree walk, for every chain length,
 * every left/right pattern and every 64-bit publication time.  Real files included unmodified. */
#include "env/common.h"
#include "hashchain.h"
#include "impl/hashchain_impl.h"
#include "env/ghost_caltime.h"
struct KSI_Integer_st;
#include "types_base.c"
#include "contracts/hashchain_caltime.h"
#include "hashchain.c"

#ifdef H_highBit
void harness(void) {
	long long n = nondet_ll();
	long long r = highBit(n);
	REACH("highBit returns");
}
#endif

#ifdef H_caltime
void harness(void) {
	struct KSI_HashChainLink_list_st lst;
	struct KSI_Integer_st pub;
	time_t out;
	int res;
	memset(&lst, 0, sizeof(lst));
	lst.length = cal_stub_length;
	lst.elementAt = cal_stub_elementAt;
	pub.value = nondet_ull();
	g_cal_len = nondet_size();
	g_cal_calls = 0;
	spec_cal_init(&g_cal, (long long)pub.value);
	res = calculateCalendarAggregationTime(&lst, &pub, &out);
	if (res == KSI_OK) REACH("accepted"); else REACH("rejected");
	if (res == KSI_OK && g_cal_len > 3) REACH("accepted long chain");
}
#endif
