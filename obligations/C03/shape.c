/* C03: KSI_AggregationHashChain_calculateShape == reference bit string for every chain. */
#include "env/common.h"
#include "env/stubs_base.h"
#include "hashchain.h"
#include "impl/hashchain_impl.h"
#include "types_base.c"
#include "env/ghost_shape.h"
#include "contracts/hashchain_shape.h"
#include "hashchain.c"

void harness(void) {
	struct KSI_HashChainLink_list_st lst;
	struct KSI_AggregationHashChain_st chn;
	KSI_uint64_t shape = nondet_ull();
	int res;
	memset(&lst, 0, sizeof(lst));
	lst.length = sh_stub_length; lst.elementAt = sh_stub_elementAt;
	memset(&chn, 0, sizeof(chn));
	chn.chain = &lst;
	g_sh_len = nondet_size(); g_sh_calls = 0; g_sh_env_failed = 0;
	g_sh_ref = g_sh_len <= 63 ? (1ULL << g_sh_len) : 0;
	res = KSI_AggregationHashChain_calculateShape(&chn, &shape);
	if (res == KSI_OK) REACH("shape computed"); else REACH("refused");
	if (res == KSI_OK && g_sh_len == 63) REACH("longest representable chain");
	if (res != KSI_OK && !g_sh_env_failed) REACH("refused for length");
}
