/* C03: dataHasher_addLinkImprint feeds exactly the sibling: the imprint bytes, the legacy id octets or the
 * header-less serialization of the metadata element - exactly one of them must be present. */
#define ENV_AGGR_ADD_IS_SIBLING 1
#include "env/common.h"
#include "env/stubs_base.h"
#include "hashchain.h"
#include "impl/meta_data_element_impl.h"
#include "tlv_element.h"
#include "types_base.c"
#include "env/ghost_aggr.h"
#include "contracts/hashchain_aggr.h"

/* ASSUMED callees */
unsigned char g_imprint_bytes[4]; size_t g_imprint_len;
int KSI_DataHash_getImprint(const KSI_DataHash *hash, const unsigned char **imprint, size_t *imprint_length) {
	__CPROVER_assert(hash == (const KSI_DataHash *)g_link_imprint_obj, "getImprint of the link's imprint");
	if (nondet_bool()) { g_env_failed = 1; return KSI_INVALID_ARGUMENT; }
	*imprint = g_imprint_bytes; *imprint_length = g_imprint_len; return KSI_OK;
}
char g_tlv_impl_obj[8];
int KSI_TlvElement_serialize(const KSI_TlvElement *element, unsigned char *buf, size_t buf_size, size_t *len, int opt) {
	__CPROVER_assert(element == (const KSI_TlvElement *)g_tlv_impl_obj, "serialize the metadata element's TLV");
	__CPROVER_assert(buf != NULL && buf_size >= 0xffff, "serialization buffer can hold any TLV payload");
	if (nondet_bool()) { g_env_failed = 1; return KSI_BUFFER_OVERFLOW; }
	g_ser_buf = buf; g_ser_len = nondet_size(); g_ser_opt = opt;
	__CPROVER_assume(g_ser_len <= buf_size);
	*len = g_ser_len; return KSI_OK;
}
#include "hashchain.c"

void harness(void) {
	struct KSI_CTX_st *ctx = (struct KSI_CTX_st *)nondet_ptr();
	struct KSI_OctetString_st legacy; struct KSI_MetaDataElement_st md; unsigned char legacy_bytes[4];
	int res, n;
	__CPROVER_assume(ctx != NULL);
	g_hasher_live = 1; g_env_failed = 0; g_feed = nondet_int(); __CPROVER_assume(g_feed >= 0 && g_feed < 64);
	memset(&g_link, 0, sizeof(g_link)); memset(&md, 0, sizeof(md));
	legacy.data = legacy_bytes; legacy.data_len = nondet_size();
	md.impl = (KSI_TlvElement *)g_tlv_impl_obj;
	g_imprint_len = nondet_size();
	g_link.imprint = nondet_bool() ? (KSI_DataHash *)g_link_imprint_obj : NULL;
	g_link.legacyId = nondet_bool() ? &legacy : NULL;
	g_link.metaData = nondet_bool() ? &md : NULL;
	n = (g_link.imprint != NULL) + (g_link.legacyId != NULL) + (g_link.metaData != NULL);
	g_link_bad = (n != 1);
	g_last_add_ptr = NULL; g_last_add_len = 0;
	res = dataHasher_addLinkImprint(ctx, (KSI_DataHasher *)g_hasher_obj, &g_link);
	if (res == KSI_OK) {
		if (g_link.imprint) { __CPROVER_assert(g_last_add_ptr == g_imprint_bytes && g_last_add_len == g_imprint_len, "imprint sibling: the whole imprint is hashed"); REACH("imprint"); }
		if (g_link.legacyId) { __CPROVER_assert(g_last_add_ptr == legacy_bytes && g_last_add_len == legacy.data_len, "legacy id sibling: its octets are hashed"); REACH("legacy id"); }
		if (g_link.metaData) { __CPROVER_assert(g_last_add_ptr == g_ser_buf && g_last_add_len == g_ser_len && g_ser_opt == KSI_TLV_OPT_NO_HEADER, "metadata sibling: header-less serialization is hashed"); REACH("metadata"); }
	} else {
		REACH("error");
		if (g_link_bad && !g_env_failed) REACH("malformed link refused");
	}
}
