/* C03/C11/C19: KSI_AggregationHashChain_aggregate memo contract. */
#include "env/common.h"
#include "env/stubs_base.h"
#include "hashchain.h"
#include "impl/hashchain_impl.h"
#include "types_base.c"
#include "env/ghost_memo.h"
#include "contracts/hashchain_memo.h"
#include "hashchain.c"

void harness(void) {
	KSI_AggregationHashChain *aggr = (KSI_AggregationHashChain *)nondet_ptr();
	int startLevel = nondet_int(); int *endLevel = (int *)nondet_ptr(); KSI_DataHash **root = (KSI_DataHash **)nondet_ptr();
	int res;
	g_pA = (KSI_DataHash *)g_objA; g_pB = (KSI_DataHash *)g_objB;
	g_refA = nondet_int(); g_refB = 0; g_startA = nondet_int(); g_levelA = nondet_int(); g_aggr_calls = 0; g_memo_env_failed = 0;
	res = KSI_AggregationHashChain_aggregate(aggr, startLevel, endLevel, root);
	if (res == KSI_OK) REACH("ok"); else REACH("error");
	if (res == KSI_OK && g_aggr_calls == 0) REACH("served from cache");
	if (res == KSI_OK && g_aggr_calls == 1 && g_refA == 0 && g_startA != startLevel) REACH("recomputed for another level");
	if (res != KSI_OK && g_aggr_calls == 1) REACH("recomputation failed");
}
