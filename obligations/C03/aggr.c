/* C03: aggregateChain == KSI chain formula (level arithmetic, operand order, level byte, algorithm rule),
 * for every chain length, every link mix and every 64-bit level correction. Real hashchain.c included unmodified. */
#include "env/common.h"
#include "env/stubs_base.h"
#include "hashchain.h"
#include "types_base.c"
#include "env/ghost_aggr.h"
#include "contracts/hashchain_aggr.h"
#include "hashchain.c"

static void setup(struct KSI_HashChainLink_list_st *lst, int isCalendar, int startLevel, int algo) {
	memset(lst, 0, sizeof(*lst));
	lst->length = aggr_stub_length;
	lst->elementAt = aggr_stub_elementAt;
	g_len = nondet_size();
	g_calls = 0; g_isCalendar = isCalendar;
	g_hash_p = (KSI_DataHash *)g_hash_obj; g_hasher_p = (KSI_DataHasher *)g_hasher_obj;
	g_input_algo = nondet_int();
	g_hasher_live = 0; g_hash_live = 0; g_env_failed = 0; g_feed = 0;
	spec_chain_init(&g_ref, startLevel, isCalendar ? g_input_algo : algo);
}

#ifdef H_aggr
void harness(void) {
	struct KSI_HashChainLink_list_st lst;
	struct KSI_CTX_st *ctx = (struct KSI_CTX_st *)nondet_ptr();
	int startLevel = nondet_int(), algo = nondet_int(), endLevel = -1, res;
	KSI_DataHash *out = NULL;
	__CPROVER_assume(ctx != NULL);
	__CPROVER_assume(0 <= startLevel && startLevel <= 0xff);   /* call sites: KSI_AggregationHashChain_aggregate checks 0..0xff */
	setup(&lst, 0, startLevel, algo);
	res = aggregateChain(ctx, &lst, (const KSI_DataHash *)g_input_hash_obj, startLevel, algo, 0, &endLevel, &out);
	if (res == KSI_OK) REACH("aggregation chain accepted"); else REACH("aggregation chain rejected");
	if (res == KSI_OK && g_len > 2) REACH("accepted, longer chain");
	if (res != KSI_OK && !g_env_failed) REACH("rejected by level rule");
	/* (audit builderY, dfcc __invalid_ptr sharing: dataHasher_addLinkImprint has the pointer target g_last_add_ptr, which no clause constrains) outcomes at a LATER link */
	if (res != KSI_OK && g_link_bad && g_calls >= 2) REACH("the sibling of a later link cannot be fed (replaced dataHasher_addLinkImprint fails after it succeeded)");
	if (res != KSI_OK && g_env_failed && g_calls >= 2) REACH("environment failure at a later link");
}
#endif

#ifdef H_cal
void harness(void) {
	struct KSI_HashChainLink_list_st lst;
	struct KSI_CTX_st *ctx = (struct KSI_CTX_st *)nondet_ptr();
	int endLevel = -1, res;
	KSI_DataHash *out = NULL;
	__CPROVER_assume(ctx != NULL);
	setup(&lst, 1, 0xff, -1);
	/* call site KSI_HashChain_aggregateCalendar: startLevel 0xff, algorithm -1, isCalendar 1 */
	res = aggregateChain(ctx, &lst, (const KSI_DataHash *)g_input_hash_obj, 0xff, -1, 1, &endLevel, &out);
	if (res == KSI_OK) REACH("calendar chain accepted"); else REACH("calendar chain rejected");
	if (res == KSI_OK && g_len > 2) REACH("accepted, longer chain");
	/* (audit builderY) outcome of the replaced dataHasher_addLinkImprint at a LATER link */
	if (res != KSI_OK && g_link_bad && g_calls >= 2) REACH("the sibling of a later link cannot be fed");
}
#endif
