/* C03: KSI_AggregationHashChainList_aggregate threads the level through the chains: chain k starts at the level chain k-1
 * ended, the result is the last chain's root, intermediate roots are released. Any number of chains (loop contract). */
#include "env/common.h"
#include "env/stubs_base.h"
#include "hashchain.h"
#include "impl/hashchain_impl.h"
#include "types_base.c"

size_t g_la_len, g_la_calls;            /* chains in the list / chains aggregated so far */
int g_la_level;                         /* level the next chain has to start at (reference) */
char g_la_pool[2][8]; KSI_DataHash *g_la_p0, *g_la_p1;   /* identities of the roots: chain k produces slot k % 2 */
_Bool g_la_live0, g_la_live1; _Bool g_la_env_failed; _Bool g_la_elem_failed;   /* (the list, not the aggregation, failed) */
struct KSI_AggregationHashChain_st g_la_chain;

static size_t la_length(KSI_LIST(KSI_AggregationHashChain) *l) { return g_la_len; }
static int la_elementAt(KSI_LIST(KSI_AggregationHashChain) *l, size_t pos, KSI_AggregationHashChain **o) {
	__CPROVER_assert(pos == g_la_calls && pos < g_la_len, "protocol: chains are taken first to last, each once");
	if (nondet_bool()) { g_la_env_failed = 1; g_la_elem_failed = 1; return KSI_INVALID_STATE; }
	*o = &g_la_chain; return KSI_OK;
}
void KSI_DataHash_free(KSI_DataHash *h) {
	if (h == NULL) return;
	__CPROVER_assert(h == g_la_p0 || h == g_la_p1, "free: a root produced during this call");
	if (h == g_la_p0) { __CPROVER_assert(g_la_live0, "no double free"); g_la_live0 = 0; } else { __CPROVER_assert(g_la_live1, "no double free"); g_la_live1 = 0; }
}
KSI_DataHash *KSI_DataHash_ref(KSI_DataHash *h) { return h; }

/* contract of the callee = projection of C03.memo (value for THIS start level, fresh reference, outputs untouched on error).
 * Its precondition carries the property: the chain is started at the level the previous chain ended. */
int KSI_AggregationHashChain_aggregate(KSI_AggregationHashChain *aggr, int startLevel, int *endLevel, KSI_DataHash **root)
__CPROVER_requires(aggr == &g_la_chain && endLevel != NULL && root != NULL)
__CPROVER_requires(startLevel == g_la_level)
__CPROVER_requires((g_la_calls % 2 == 0) ? !g_la_live0 : !g_la_live1)
/* pointer output first and unconditional (dfcc havocs pointer targets of a replaced contract with ONE shared symbol, which the loop
 * havoc of the caller's pointer locals uses too: an assumed '*root == old(*root)' made a failure at a later chain infeasible) */
__CPROVER_ensures(__CPROVER_pointer_equals(*root, __CPROVER_return_value == KSI_OK ? (void *)((__CPROVER_old(g_la_calls) % 2 == 0) ? g_la_p0 : g_la_p1) : (void *)__CPROVER_old(*root)))
__CPROVER_ensures(IMPLIES(__CPROVER_return_value == KSI_OK, g_la_calls == __CPROVER_old(g_la_calls) + 1 && *endLevel == g_la_level && 0 <= g_la_level && g_la_level <= 0xff &&
		*root == ((__CPROVER_old(g_la_calls) % 2 == 0) ? g_la_p0 : g_la_p1) &&
		((__CPROVER_old(g_la_calls) % 2 == 0) ? (g_la_live0 && g_la_live1 == __CPROVER_old(g_la_live1)) : (g_la_live1 && g_la_live0 == __CPROVER_old(g_la_live0))) && !g_la_env_failed))
__CPROVER_ensures(IMPLIES(__CPROVER_return_value != KSI_OK, g_la_env_failed && g_la_calls == __CPROVER_old(g_la_calls) && *endLevel == __CPROVER_old(*endLevel) && *root == __CPROVER_old(*root) &&
		g_la_live0 == __CPROVER_old(g_la_live0) && g_la_live1 == __CPROVER_old(g_la_live1) && g_la_level == __CPROVER_old(g_la_level)))
__CPROVER_assigns(*endLevel, *root, g_la_calls, g_la_level, g_la_live0, g_la_live1, g_la_env_failed);

int KSI_AggregationHashChainList_aggregate(KSI_AggregationHashChainList *chainList, KSI_CTX *ctx, int level, KSI_DataHash **outputHash)
__CPROVER_requires(chainList != NULL && ctx != NULL && __CPROVER_is_fresh(outputHash, sizeof(*outputHash)))
__CPROVER_requires(g_la_calls == 0 && !g_la_live0 && !g_la_live1 && !g_la_env_failed && g_la_level == level && g_la_len < 0x7fffffffffffffffULL)
__CPROVER_ensures(IMPLIES(level < 0 || level > 0xff, __CPROVER_return_value == KSI_INVALID_ARGUMENT && g_la_calls == 0))
__CPROVER_ensures(IMPLIES(__CPROVER_return_value == KSI_OK, g_la_calls == g_la_len && !g_la_env_failed &&
		*outputHash == (g_la_len == 0 ? (KSI_DataHash *)0 : ((g_la_len - 1) % 2 == 0 ? g_la_p0 : g_la_p1))))
__CPROVER_ensures(IMPLIES(__CPROVER_return_value == KSI_OK && g_la_len > 0, ((g_la_len - 1) % 2 == 0) ? (g_la_live0 && !g_la_live1) : (g_la_live1 && !g_la_live0)))
__CPROVER_ensures(IMPLIES(__CPROVER_return_value != KSI_OK, !g_la_live0 && !g_la_live1 && *outputHash == __CPROVER_old(*outputHash)))
__CPROVER_assigns(*outputHash, g_la_calls, g_la_level, g_la_live0, g_la_live1, g_la_env_failed, g_la_elem_failed);

#include "hashchain.c"

void harness(void) {
	struct KSI_AggregationHashChain_list_st lst; struct KSI_CTX_st *ctx = (struct KSI_CTX_st *)nondet_ptr(); KSI_DataHash **out = (KSI_DataHash **)nondet_ptr();
	int level = nondet_int(), res;
	__CPROVER_assume(ctx != NULL);
	memset(&lst, 0, sizeof(lst)); lst.length = la_length; lst.elementAt = la_elementAt;
	g_la_p0 = (KSI_DataHash *)g_la_pool[0]; g_la_p1 = (KSI_DataHash *)g_la_pool[1];
	g_la_len = nondet_size(); g_la_calls = 0; g_la_level = level; g_la_live0 = 0; g_la_live1 = 0; g_la_env_failed = 0; g_la_elem_failed = 0;
	res = KSI_AggregationHashChainList_aggregate(&lst, ctx, level, out);
	if (res == KSI_OK) REACH("aggregated"); else REACH("error");
	if (res == KSI_OK && g_la_len > 2) REACH("several chains");
	if (res != KSI_OK && !g_la_elem_failed && g_la_calls >= 1) REACH("the aggregation of a later chain fails");
	if (res != KSI_OK && !g_la_elem_failed && g_la_calls == 0 && level >= 0 && level <= 0xff) REACH("the aggregation of the first chain fails");
}
