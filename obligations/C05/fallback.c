/* C05: fallback loop of KSI_SignatureVerifier_verify; chains of up to 8 policies. */
#include "env/common.h"
#include "env/stubs_base.h"
#include "policy.h"
#include "impl/policy_impl.h"
#include "impl/ctx_impl.h"
#include "impl/signature_impl.h"
#include "impl/verification_impl.h"
#include "env/ghost_fallback.h"
#include "contracts/policy_fallback.h"
#include "policy.c"

void harness(void) {
	KSI_VerificationContext *context = (KSI_VerificationContext *)nondet_ptr();
	KSI_PolicyVerificationResult **result = (KSI_PolicyVerificationResult **)nondet_ptr();
	int k, res;
	__CPROVER_assert(KSI_VER_RES_OK == 0 && KSI_VER_RES_NA == 1 && KSI_VER_RES_FAIL == 2 && C05_NPOL == 8, "constants used in the loop invariant");
	g_rules_dummy[0].type = KSI_RULE_TYPE_BASIC; g_rules_dummy[0].rule = (const void *)g_rules_dummy; g_rules_dummy[1].rule = NULL;
	for (k = 0; k < C05_NPOL; k++) {
		g_pols[k].rules = g_rules_dummy; g_pols[k].policyName = "p";
		g_pols[k].fallbackPolicy = (k + 1 < C05_NPOL && nondet_bool()) ? &g_pols[k + 1] : NULL;
	}
	g_pol_evals = 0; g_fb_env_failed = 0; g_tmp_frees = 0;
	g_tmp_hash_p = (KSI_DataHash *)g_tmp_hash_obj; g_tmp_cal_p = (KSI_CalendarHashChain *)g_tmp_cal_obj; g_tmp_pub_p = (KSI_PublicationsFile *)g_tmp_pub_obj;
	res = KSI_SignatureVerifier_verify(&g_pols[0], context, result);
	REACH("returned");
	if (res == KSI_OK && g_pol_evals == 1) REACH("first policy decides");
	if (res == KSI_OK && g_pol_evals == 3) REACH("two fallbacks");
	if (res != KSI_OK && g_pol_evals == 2) REACH("internal error in a fallback policy");
	/* (audit builderY) outcomes of the replaced Rule_verify at the step iteration of the fallback loop */
	if (res != KSI_OK && g_pol_evals >= 3 && !g_fb_env_failed) REACH("internal error in a later fallback policy");
	if (res == KSI_OK && g_pol_evals >= 2 && g_last_pol_code == KSI_VER_RES_OK) REACH("a fallback policy says OK after the first said FAIL/NA");
	if (res == KSI_OK && g_pol_evals >= 2 && g_rv_left_cal && !g_rv_left_hash) REACH("last policy of several left a calendar chain but no hash in tempData");
	if (res == KSI_OK && g_pol_evals >= 2 && !g_rv_left_cal && !g_rv_left_pub && !g_rv_left_hash) REACH("last policy of several left nothing in tempData");
}
