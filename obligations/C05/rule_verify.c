/* C05: Rule_verify against the documented list semantics; any list width <= 15, any nesting depth, any outcomes. */
#include "env/common.h"
#include "env/stubs_base.h"
#include "policy.h"
#include "impl/policy_impl.h"
#include "env/ghost_rules.h"
#include "contracts/policy_rules.h"
#include "policy.c"

static void wf_table(KSI_Rule *t) {
	int k;
	for (k = 0; k <= C05_W; k++) {
		t[k].type = (KSI_RuleType)nondet_int(); t[k].rule = (const void *)nondet_ptr();    /* arbitrary contents */
		__CPROVER_assume(t[k].type == KSI_RULE_TYPE_BASIC || t[k].type == KSI_RULE_TYPE_COMPOSITE_AND || t[k].type == KSI_RULE_TYPE_COMPOSITE_OR);
		__CPROVER_assume(t[k].rule == NULL || (t[k].type == KSI_RULE_TYPE_BASIC ? t[k].rule == (const void *)stub_rule : t[k].rule == (const void *)g_sub));
	}
	__CPROVER_assume(t[C05_W].rule == NULL);     /* sentinel */
	__CPROVER_assume(t[0].rule != NULL);         /* lists are non-empty (job C05.tables checks it for every predefined list) */
}

void harness(void) {
	KSI_VerificationContext ctx; KSI_PolicyVerificationResult pr; int res;
	const KSI_Rule *tab = nondet_bool() ? g_tab : g_sub;
	/* numeric constants used in contracts/policy_rules.loops.json */
	__CPROVER_assert(KSI_RULE_TYPE_COMPOSITE_OR == 2 && KSI_VER_RES_OK == 0 && KSI_VER_RES_NA == 1, "enum values used in the loop invariant");
	g_ctx_p = &ctx; g_pr_p = &pr;
	pr.finalResult.statusMessage = NULL;
	wf_table(g_tab); wf_table(g_sub);
	g_hard_stop = 0; g_evaluated = 0;
	res = Rule_verify(tab, &ctx, &pr);
	REACH("returned");
	if (res == KSI_OK && pr.resultCode == KSI_VER_RES_OK) REACH("list OK");
	if (res == KSI_OK && pr.resultCode == KSI_VER_RES_NA) REACH("list inconclusive");
	if (res == KSI_OK && pr.resultCode == KSI_VER_RES_FAIL) REACH("list FAIL");
	if (res != KSI_OK) REACH("internal error");
}
