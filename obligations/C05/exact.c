/* C05 (bounded): the real Rule_verify evaluates exactly the rules, in exactly the order, of the reference evaluator
 * written from policy.h:206-235, and reports the same result - for every tree of depth <= 3 with lists of width <= 3/2/1
 * (types of all elements symbolic, list lengths symbolic), and every assignment of (status, result code) to the 8 basic rules. */
#include "env/common.h"
#include "env/stubs_base.h"
#include "policy.h"
#include "impl/policy_impl.h"
#include "spec/ruleeval.h"
#include "policy.c"

#define NB 8
int out_res[NB], out_code[NB], out_err[NB];
int seq_impl[16], n_impl;
int seq_ref[16], n_ref;

#define DEF_STUB(id) static int b##id(KSI_VerificationContext *c, KSI_RuleVerificationResult *r) { \
	if (n_impl < 16) seq_impl[n_impl] = id; n_impl++; r->resultCode = out_code[id]; r->errorCode = out_err[id]; return out_res[id]; }
DEF_STUB(0) DEF_STUB(1) DEF_STUB(2) DEF_STUB(3) DEF_STUB(4) DEF_STUB(5) DEF_STUB(6) DEF_STUB(7)

static KSI_Rule T0[4], T1[3], T2[3], T3[2];

static int id_of(const void *p) {
	if (p == (const void *)b0) return 0; if (p == (const void *)b1) return 1; if (p == (const void *)b2) return 2;
	if (p == (const void *)b3) return 3; if (p == (const void *)b4) return 4; if (p == (const void *)b5) return 5;
	if (p == (const void *)b6) return 6; return 7;
}

/* reference evaluator: returns 1 if evaluation of the enclosing list may go on to the element after this list's parent */
static int ref_res, ref_code, ref_err;
static void ref_eval(const KSI_Rule *t) {
	int i;
	for (i = 0; t[i].rule != NULL; i++) {
		int type = t[i].type == KSI_RULE_TYPE_BASIC ? SPEC_RT_BASIC : t[i].type == KSI_RULE_TYPE_COMPOSITE_AND ? SPEC_RT_AND : SPEC_RT_OR;
		if (type == SPEC_RT_BASIC) {
			int id = id_of(t[i].rule);
			if (n_ref < 16) seq_ref[n_ref] = id; n_ref++;
			ref_res = out_res[id]; ref_code = out_code[id]; ref_err = out_err[id];
		} else {
			ref_eval((const KSI_Rule *)t[i].rule);
		}
		if (!spec_rule_continues(type, ref_res == KSI_OK, ref_code == KSI_VER_RES_OK ? SPEC_RC_OK : ref_code == KSI_VER_RES_FAIL ? SPEC_RC_FAIL : SPEC_RC_NA)) return;
	}
}

static KSI_RuleType any_type(void) { int t = nondet_int(); __CPROVER_assume(t >= 0 && t <= 2); return t == 0 ? KSI_RULE_TYPE_BASIC : t == 1 ? KSI_RULE_TYPE_COMPOSITE_AND : KSI_RULE_TYPE_COMPOSITE_OR; }

void harness(void) {
	KSI_VerificationContext ctx; KSI_PolicyVerificationResult pr; int res, i, len;
	const void *stubs0[3] = { (const void *)b0, (const void *)b1, (const void *)b2 };
	memset(&pr, 0, sizeof(pr)); memset(&ctx, 0, sizeof(ctx));
	for (i = 0; i < NB; i++) { out_res[i] = nondet_bool() ? KSI_OK : KSI_UNKNOWN_ERROR; out_code[i] = nondet_int(); out_err[i] = nondet_int();
		__CPROVER_assume(out_code[i] == KSI_VER_RES_OK || out_code[i] == KSI_VER_RES_NA || out_code[i] == KSI_VER_RES_FAIL); }
	/* leaf list T3: one basic rule */
	T3[0].type = KSI_RULE_TYPE_BASIC; T3[0].rule = (const void *)b7; T3[1].rule = NULL; T3[1].type = KSI_RULE_TYPE_BASIC;
	/* T1: b3, then b4 or composite -> T3 ; T2: b5 b6 ; lengths 1..2 */
	T1[0].type = KSI_RULE_TYPE_BASIC; T1[0].rule = (const void *)b3;
	T1[1].type = any_type(); T1[1].rule = T1[1].type == KSI_RULE_TYPE_BASIC ? (const void *)b4 : (const void *)T3; if (nondet_bool()) T1[1].rule = NULL;
	T1[2].rule = NULL; T1[2].type = KSI_RULE_TYPE_BASIC;
	T2[0].type = any_type(); T2[0].rule = T2[0].type == KSI_RULE_TYPE_BASIC ? (const void *)b5 : (const void *)T3;
	T2[1].type = KSI_RULE_TYPE_BASIC; T2[1].rule = (const void *)b6; if (nondet_bool()) T2[1].rule = NULL;
	T2[2].rule = NULL; T2[2].type = KSI_RULE_TYPE_BASIC;
	/* top list T0: 1..3 elements of any type */
	len = nondet_int(); __CPROVER_assume(len >= 1 && len <= 3);
	for (i = 0; i < 3; i++) {
		T0[i].type = any_type();
		T0[i].rule = T0[i].type == KSI_RULE_TYPE_BASIC ? stubs0[i] : (nondet_bool() ? (const void *)T1 : (const void *)T2);
		if (i >= len) T0[i].rule = NULL;
	}
	T0[3].rule = NULL; T0[3].type = KSI_RULE_TYPE_BASIC;
	n_impl = 0; n_ref = 0;
	ref_eval(T0);
	res = Rule_verify(T0, &ctx, &pr);
	__CPROVER_assert(n_impl == n_ref, "same number of rules evaluated as the reference");
	for (i = 0; i < 16; i++) if (i < n_ref) __CPROVER_assert(seq_impl[i] == seq_ref[i], "same rules in the same order as the reference");
	__CPROVER_assert(res == ref_res && pr.finalResult.resultCode == ref_code && pr.resultCode == ref_code && pr.finalResult.errorCode == ref_err, "result is that of the last rule of the reference evaluation");
	REACH("done");
	if (n_ref >= 5) REACH("five or more rules evaluated");
	if (res == KSI_OK && pr.resultCode == KSI_VER_RES_OK && n_ref == 1) REACH("OR short cut");
}
