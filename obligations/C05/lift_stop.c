/* C05 lift (builderV): Rule_verify ends a list evaluation only for a documented reason - any list width <= 15, any nesting depth,
 * any outcomes.  See contracts/policy_rules_lift.h. */
#include "env/common.h"
#include "env/stubs_base.h"
#include "policy.h"
#include "impl/policy_impl.h"
#include "env/ghost_rules_lift.h"
#include "contracts/policy_rules_lift.h"
#include "policy.c"

static void wf_tables(void) {
	int k;
	for (k = 0; k <= C05_W; k++) {
		g_tab[k].type = (KSI_RuleType)nondet_int();                                              /* arbitrary contents */
		__CPROVER_assume(g_tab[k].type == KSI_RULE_TYPE_BASIC || g_tab[k].type == KSI_RULE_TYPE_COMPOSITE_AND || g_tab[k].type == KSI_RULE_TYPE_COMPOSITE_OR);
		/* element k: absent (sentinel), the k-th basic stub, or a composite whose list is &g_sub[k].  Built by ASSIGNMENT, not by an assumed
		 * equality on a nondet pointer: CBMC dereferences through the value set, which an assumption does not extend. */
		if (k == C05_W || nondet_bool()) g_tab[k].rule = NULL;
		else if (g_tab[k].type == KSI_RULE_TYPE_BASIC) g_tab[k].rule = (const void *)C05L_STUB_AT(k);
		else g_tab[k].rule = (const void *)&g_sub[k];
		g_sub[k].type = KSI_RULE_TYPE_BASIC; g_sub[k].rule = k < C05_W ? (const void *)C05L_STUB_AT(k) : NULL;      /* sub-lists are non-empty; their contents are never read (contract) */
	}
	__CPROVER_assume(g_tab[C05_W].rule == NULL);     /* sentinel */
	__CPROVER_assume(g_tab[0].rule != NULL);         /* lists are non-empty (job C05.tables checks it for every predefined list) */
}

void harness(void) {
	KSI_VerificationContext ctx; KSI_PolicyVerificationResult pr; int res;
	/* numeric constants used in contracts/policy_rules_lift.loops.json */
	__CPROVER_assert(KSI_RULE_TYPE_COMPOSITE_OR == 2 && KSI_VER_RES_OK == 0 && KSI_VER_RES_NA == 1 && sizeof(KSI_Rule) == 16, "enum values / element size used in the loop invariant");
	g_ctx_p = &ctx; g_pr_p = &pr;
	pr.finalResult.statusMessage = NULL;
	wf_tables();
	g_hard_stop = 0; g_evaluated = 0; g_seq = 0;
	res = Rule_verify(g_tab, &ctx, &pr);
	REACH("returned");
	if (res == KSI_OK && pr.resultCode == KSI_VER_RES_OK) REACH("list OK");
	if (res == KSI_OK && pr.resultCode == KSI_VER_RES_OK && g_seq == C05_W) REACH("list OK after all 15 elements");
	if (res == KSI_OK && pr.resultCode == KSI_VER_RES_OK && g_seq == 3 && g_tab[3].rule != NULL) REACH("list OK: an OR element in the middle said OK");
	if (res == KSI_OK && pr.resultCode == KSI_VER_RES_NA) REACH("list inconclusive");
	if (res == KSI_OK && pr.resultCode == KSI_VER_RES_NA && g_seq == 5 && g_tab[5].rule != NULL && g_tab[4].type == KSI_RULE_TYPE_COMPOSITE_AND) REACH("list inconclusive: an AND element in the middle said NA");
	if (res == KSI_OK && pr.resultCode == KSI_VER_RES_NA && g_seq == 7 && g_tab[7].rule == NULL && g_tab[6].type == KSI_RULE_TYPE_COMPOSITE_OR) REACH("list inconclusive: every OR alternative said NA");
	if (res == KSI_OK && pr.resultCode == KSI_VER_RES_FAIL) REACH("list FAIL");
	if (res != KSI_OK) REACH("internal error");
}
