/* C05: the per-rule / per-policy result bookkeeping never touches the verdict: PolicyVerificationResult_addLatestRuleResult
 * and PolicyVerificationResult_addLatestPolicyResult leave finalResult and resultCode as they are (frame), append a private
 * copy, and release the copy when appending fails.  (Their contracts are what C05.rule_verify / C05.fallback assume.)
 * Plain mode; the duplicate scan over the result list is bounded to 3 stored results. */
#include "env/common.h"
#include "env/stubs_base.h"
#include "policy.h"
#include "impl/policy_impl.h"

static size_t g_rl_len; static KSI_RuleVerificationResult g_rl_el[3]; static KSI_RuleVerificationResult *g_appended; static unsigned g_appends; static _Bool g_append_fail;
static size_t rl_length(KSI_LIST(KSI_RuleVerificationResult) *l) { return g_rl_len; }
static int rl_elementAt(KSI_LIST(KSI_RuleVerificationResult) *l, size_t pos, KSI_RuleVerificationResult **o) { __CPROVER_assert(pos < g_rl_len, "scan inside the list"); *o = &g_rl_el[pos]; return KSI_OK; }
static int rl_append(KSI_LIST(KSI_RuleVerificationResult) *l, KSI_RuleVerificationResult *o) { if (g_append_fail) return KSI_OUT_OF_MEMORY; g_appended = o; g_appends++; return KSI_OK; }
int KSI_strdup(const char *from, char **to) { if (nondet_bool()) return KSI_OUT_OF_MEMORY; *to = malloc(1); return *to ? KSI_OK : KSI_OUT_OF_MEMORY; }
#include "policy.c"

void harness(void) {
	KSI_PolicyVerificationResult pr, before; struct KSI_RuleVerificationResult_list_st rules, pols; int res, i; static const char n0[] = "a", n1[] = "b";
	memset(&rules, 0, sizeof(rules)); memset(&pols, 0, sizeof(pols));
	rules.length = rl_length; rules.elementAt = rl_elementAt; rules.append = rl_append; pols.append = rl_append;
	pr.ruleResults = &rules; pr.policyResults = &pols; pr.ref = 1;
	pr.resultCode = nondet_int(); pr.finalResult.resultCode = nondet_int(); pr.finalResult.errorCode = nondet_int(); pr.finalResult.status = nondet_int();
	pr.finalResult.ruleName = nondet_bool() ? n0 : n1; pr.finalResult.policyName = n0; pr.finalResult.statusMessage = NULL; pr.finalResult.statusExt = nondet_int();
	pr.finalResult.stepsPerformed = nondet_size(); pr.finalResult.stepsSuccessful = nondet_size(); pr.finalResult.stepsFailed = nondet_size();
	g_rl_len = nondet_size(); __CPROVER_assume(g_rl_len <= 3);
	for (i = 0; i < 3; i++) g_rl_el[i].ruleName = nondet_bool() ? n0 : n1;
	g_appends = 0; g_appended = NULL; g_append_fail = nondet_bool();
	before = pr;
#ifdef H_rule
	res = PolicyVerificationResult_addLatestRuleResult(&pr);
#else
	res = PolicyVerificationResult_addLatestPolicyResult(&pr);
#endif
	__CPROVER_assert(pr.resultCode == before.resultCode && pr.finalResult.resultCode == before.finalResult.resultCode && pr.finalResult.errorCode == before.finalResult.errorCode &&
			pr.finalResult.status == before.finalResult.status && pr.finalResult.ruleName == before.finalResult.ruleName && pr.finalResult.statusMessage == before.finalResult.statusMessage,
			"bookkeeping leaves the verdict (finalResult, resultCode) untouched");
	__CPROVER_assert(g_appends <= 1 && IMPLIES(g_appends == 1, g_appended != &pr.finalResult && g_appended->resultCode == before.finalResult.resultCode && g_appended->errorCode == before.finalResult.errorCode && g_appended->ruleName == before.finalResult.ruleName),
			"what is stored is a private copy of the latest result");
	REACH("returned"); if (g_appends == 1) REACH("stored");
	if (g_appends == 1) { KSI_free(g_appended->statusMessage); KSI_free(g_appended); }     /* the list owns the stored copy; anything else still allocated is a leak */
}
