/* L2 policy-table lemmas (C01, C02, C04): the documented list semantics (spec/ruleeval.h - proved equal to the real
 * interpreter by C05.rule_verify / C05.exact) evaluated over the REAL constant rule tables of policy.c, with an
 * arbitrary but fixed outcome (status, result code, error code) for each of the basic rules.
 * Plain mode: the tables are constants of the code (width-complete); no function pointer is ever called. */
#include "env/common.h"
#include "env/stubs_base.h"
#include "policy.h"
#include "impl/policy_impl.h"
#include "spec/ruleeval.h"
#include "spec/policy_rules_list.h"
#include "policy.c"

enum {
#define X(n) R_##n,
	POLICY_BASIC_RULES(X)
#undef X
	R_COUNT
};
static int o_res[R_COUNT], o_code[R_COUNT], o_err[R_COUNT];   /* outcome of each basic rule */
static _Bool evaluated[R_COUNT];
static int last_rule;

static int id_of(const void *p) {
#define X(n) if (p == (const void *)KSI_VerificationRule_##n) return R_##n;
	POLICY_BASIC_RULES(X)
#undef X
	return -1;
}

static int f_res, f_code, f_err;     /* result of the rule evaluated last */
static void ref_eval(const KSI_Rule *t) {
	int i;
	for (i = 0; t[i].rule != NULL; i++) {
		int type = t[i].type == KSI_RULE_TYPE_BASIC ? SPEC_RT_BASIC : t[i].type == KSI_RULE_TYPE_COMPOSITE_AND ? SPEC_RT_AND : SPEC_RT_OR;
		if (type == SPEC_RT_BASIC) {
			int id = id_of(t[i].rule);
			__CPROVER_assert(id >= 0, "MACHINERY: rule table names a basic rule that spec/policy_rules_list.h does not list (run tools/gen_rule_list.py)");
			if (id < 0) return;
			evaluated[id] = 1; last_rule = id;
			f_res = o_res[id]; f_code = o_code[id]; f_err = o_err[id];
		} else {
			ref_eval((const KSI_Rule *)t[i].rule);
		}
		if (!spec_rule_continues(type, f_res == KSI_OK, f_code == KSI_VER_RES_OK ? SPEC_RC_OK : f_code == KSI_VER_RES_FAIL ? SPEC_RC_FAIL : SPEC_RC_NA)) return;
	}
}

#define OKR(n)   (evaluated[R_##n] && o_res[R_##n] == KSI_OK && o_code[R_##n] == KSI_VER_RES_OK)
#define FINAL_OK (f_res == KSI_OK && f_code == KSI_VER_RES_OK)

/* the document binding of C02 */
#define DOC_OK (OKR(DocumentHashDoesNotExist) || (OKR(DocumentHashExistence) && OKR(InputHashAlgorithmVerification) && OKR(DocumentHashVerification)))
/* the internal consistency conjunction of C01 */
#define RFC_OK (OKR(Rfc3161DoesNotExist) || (OKR(Rfc3161Existence) && OKR(Rfc3161RecordHashAlgorithmVerification) && OKR(Rfc3161RecordOutputHashAlgorithmVerification)))
#define AUTHREC_OK (OKR(CalendarAuthenticationRecordDoesNotExist) || (OKR(CalendarAuthenticationRecordExistence) && OKR(CalendarAuthenticationRecordAggregationHash) && OKR(CalendarAuthenticationRecordAggregationTime)))
#define PUBREC_OK ((OKR(SignatureDoesNotContainPublication) && AUTHREC_OK) || (OKR(SignaturePublicationRecordExistence) && OKR(SignaturePublicationRecordPublicationHash) && OKR(SignaturePublicationRecordPublicationTime)))
#define CAL_OK (OKR(CalendarHashChainDoesNotExist) || (OKR(CalendarHashChainExistence) && OKR(CalendarHashChainInputHashVerification) && OKR(CalendarHashChainAggregationTime) && \
		OKR(CalendarHashChainRegistrationTime) && OKR(CalendarChainHashAlgorithmObsoleteAtPubTime) && PUBREC_OK))
#define INTERNAL_OK (DOC_OK && OKR(AggregationChainInputLevelVerification) && OKR(AggregationChainInputHashAlgorithmVerification) && RFC_OK && \
		OKR(AggregationChainInputHashVerification) && OKR(AggregationChainMetaDataVerification) && OKR(AggregationChainHashAlgorithmVerification) && \
		OKR(AggregationHashChainIndexContinuation) && OKR(AggregationHashChainTimeConsistency) && OKR(AggregationHashChainConsistency) && \
		OKR(AggregationHashChainIndexConsistency) && CAL_OK)
/* anchor disjuncts of C04 */
#define EXT_PUBFILE_OK (OKR(PublicationsFileContainsSuitablePublication) && OKR(PublicationsFileExtendingPermittedVerification) && OKR(PublicationsFileExtendToPublication) && \
		OKR(PublicationsFileExtendedCalendarChainHashAlgorithmDeprecatedAtPubTime) && OKR(PublicationsFilePublicationHashMatchesExtenderResponse) && \
		OKR(PublicationsFilePublicationTimeMatchesExtenderResponse) && OKR(PublicationsFileExtendedSignatureInputHash))
#define ANCHOR_PUBFILE_OK ((OKR(SignaturePublicationRecordExistence) && ((OKR(PublicationsFileContainsSignaturePublication) && OKR(PublicationsFileSignaturePublicationVerification) && \
		OKR(PublicationsFileSignatureCalendarChainHashAlgorithmDeprecatedAtPubTime)) || (OKR(PublicationsFileDoesNotContainSignaturePublication) && EXT_PUBFILE_OK))) || \
		(OKR(SignaturePublicationRecordMissing) && EXT_PUBFILE_OK))
#define EXT_USER_OK (OKR(UserProvidedPublicationCreationTimeVerification) && OKR(UserProvidedPublicationExtendingPermittedVerification) && OKR(UserProvidedPublicationExtendToPublication) && \
		OKR(UserProvidedPublicationExtendedCalendarChainHashAlgorithmDeprecatedAtPubTime) && OKR(UserProvidedPublicationHashMatchesExtendedResponse) && \
		OKR(UserProvidedPublicationTimeMatchesExtendedResponse) && OKR(UserProvidedPublicationExtendedSignatureInputHash))
#define ANCHOR_USER_OK (OKR(UserProvidedPublicationExistence) && ((OKR(SignaturePublicationRecordExistence) && ((OKR(UserProvidedPublicationTimeVerification) && OKR(UserProvidedPublicationHashVerification) && \
		OKR(UserProvidedPublicationSignatureCalendarChainHashAlgorithmDeprecatedAtPubTime)) || (OKR(UserProvidedPublicationTimeDoesNotSuit) && EXT_USER_OK))) || \
		(OKR(SignaturePublicationRecordMissing) && EXT_USER_OK)))
#define ANCHOR_KEY_OK (OKR(CalendarHashChainPresenceVerification) && OKR(CalendarHashChainHashAlgorithmDeprecatedAtPubTime) && OKR(CalendarAuthenticationRecordPresenceVerification) && \
		OKR(CertificateExistence) && OKR(CertificateValidity) && OKR(CalendarAuthenticationRecordSignatureVerification))
#define ANCHOR_CAL_OK ((OKR(CalendarHashChainDoesNotExist) && OKR(ExtendSignatureCalendarChainInputHashToHead) && OKR(ExtendedSignatureCalendarChainInputHash) && OKR(ExtendedSignatureCalendarChainAggregationTime)) || \
		(OKR(CalendarHashChainExistence) && OKR(ExtendSignatureCalendarChainInputHashToSamePubTime) && \
		 ((OKR(SignatureDoesNotContainPublication) && OKR(ExtendedSignatureCalendarChainRightLinksMatch)) || (OKR(SignaturePublicationRecordExistence) && OKR(ExtendedSignatureCalendarChainRootHash))) && \
		 OKR(ExtendedSignatureCalendarChainInputHash) && OKR(ExtendedSignatureCalendarChainAggregationTime)))

static void any_outcomes(void) {
	int i;
	for (i = 0; i < R_COUNT; i++) {
		o_res[i] = nondet_bool() ? KSI_OK : KSI_UNKNOWN_ERROR; o_code[i] = nondet_int(); o_err[i] = nondet_int(); evaluated[i] = 0;
		__CPROVER_assume(o_code[i] == KSI_VER_RES_OK || o_code[i] == KSI_VER_RES_NA || o_code[i] == KSI_VER_RES_FAIL);
	}
}

#ifdef P_internal
#define TABLE internalRules
#define LEMMA INTERNAL_OK
#endif
#ifdef P_calendar
#define TABLE calendarBasedRules
#define LEMMA (INTERNAL_OK && ANCHOR_CAL_OK)
#endif
#ifdef P_key
#define TABLE keyBasedRules
#define LEMMA (INTERNAL_OK && ANCHOR_KEY_OK)
#endif
#ifdef P_pubfile
#define TABLE publicationsFileBasedRules
#define LEMMA (INTERNAL_OK && ANCHOR_PUBFILE_OK)
#endif
#ifdef P_userpub
#define TABLE userProvidedPublicationBasedRules
#define LEMMA (INTERNAL_OK && ANCHOR_USER_OK)
#endif
#ifdef P_general
#define TABLE generalRules
#define LEMMA (INTERNAL_OK && (ANCHOR_USER_OK || (OKR(RequireNoUserProvidedPublication) && (ANCHOR_PUBFILE_OK || ANCHOR_KEY_OK))))
#endif

#ifdef P_internal
/* C01 "exactly when": if every condition holds (every comparison rule says OK, and of each present/absent pair of
 * existence rules exactly one says OK and the other is inconclusive) the internal policy says OK. */
#define IS_OK(n) (o_res[R_##n] == KSI_OK && o_code[R_##n] == KSI_VER_RES_OK)
#define IS_NA(n) (o_res[R_##n] == KSI_OK && o_code[R_##n] == KSI_VER_RES_NA)
#define PAIR(a, b) ((IS_OK(a) && IS_NA(b)) || (IS_NA(a) && IS_OK(b)))
static _Bool honest_consistent(void) {
	int i; _Bool all = 1;
	for (i = 0; i < R_COUNT; i++) {
		if (i == R_DocumentHashDoesNotExist || i == R_DocumentHashExistence || i == R_Rfc3161DoesNotExist || i == R_Rfc3161Existence ||
		    i == R_CalendarHashChainDoesNotExist || i == R_CalendarHashChainExistence || i == R_SignatureDoesNotContainPublication ||
		    i == R_SignaturePublicationRecordExistence || i == R_CalendarAuthenticationRecordDoesNotExist || i == R_CalendarAuthenticationRecordExistence) continue;
		if (!(o_res[i] == KSI_OK && o_code[i] == KSI_VER_RES_OK)) all = 0;
	}
	return all && PAIR(DocumentHashDoesNotExist, DocumentHashExistence) && PAIR(Rfc3161DoesNotExist, Rfc3161Existence) &&
		PAIR(CalendarHashChainDoesNotExist, CalendarHashChainExistence) && PAIR(SignatureDoesNotContainPublication, SignaturePublicationRecordExistence) &&
		PAIR(CalendarAuthenticationRecordDoesNotExist, CalendarAuthenticationRecordExistence);
}
#endif

void harness(void) {
	any_outcomes();
	ref_eval(TABLE);
#ifdef P_internal
	__CPROVER_assert(IMPLIES(honest_consistent(), FINAL_OK), "every internal condition holds => internal policy says OK (C01: exactly when)");
	if (honest_consistent()) REACH("consistent signature");
#endif
	/* L2 lemma: the policy says OK only if every required rule was evaluated and said OK */
	__CPROVER_assert(IMPLIES(FINAL_OK, LEMMA), "policy OK => internal consistency conjunction and trust-anchor disjunct (C01/C02/C04)");
	/* C02: a wrong document (GEN-01), wrong algorithm (GEN-04) or too large level (GEN-03) is the final verdict, whatever the other rules say */
	__CPROVER_assert(IMPLIES(o_res[R_DocumentHashDoesNotExist] == KSI_OK && o_code[R_DocumentHashDoesNotExist] == KSI_VER_RES_NA &&
			OKR(DocumentHashExistence) && o_res[R_InputHashAlgorithmVerification] == KSI_OK && o_code[R_InputHashAlgorithmVerification] == KSI_VER_RES_FAIL,
			f_res == KSI_OK && f_code == KSI_VER_RES_FAIL && f_err == o_err[R_InputHashAlgorithmVerification] && last_rule == R_InputHashAlgorithmVerification), "GEN-04 FAIL is final");
	__CPROVER_assert(IMPLIES(o_res[R_DocumentHashDoesNotExist] == KSI_OK && o_code[R_DocumentHashDoesNotExist] == KSI_VER_RES_NA &&
			OKR(DocumentHashExistence) && OKR(InputHashAlgorithmVerification) && o_res[R_DocumentHashVerification] == KSI_OK && o_code[R_DocumentHashVerification] == KSI_VER_RES_FAIL,
			f_res == KSI_OK && f_code == KSI_VER_RES_FAIL && f_err == o_err[R_DocumentHashVerification] && last_rule == R_DocumentHashVerification), "GEN-01 FAIL is final");
	__CPROVER_assert(IMPLIES(DOC_OK && o_res[R_AggregationChainInputLevelVerification] == KSI_OK && o_code[R_AggregationChainInputLevelVerification] == KSI_VER_RES_FAIL,
			f_res == KSI_OK && f_code == KSI_VER_RES_FAIL && f_err == o_err[R_AggregationChainInputLevelVerification]), "GEN-03 FAIL is final");
	__CPROVER_assert(IMPLIES(DOC_OK && o_res[R_AggregationChainInputLevelVerification] != KSI_OK, f_res != KSI_OK), "invalid level input (error status) is returned, no verdict");
	/* C04: a policy with a trust anchor never says OK when the internal part does not; a FAIL/error of an evaluated rule is the final verdict */
	__CPROVER_assert(IMPLIES(FINAL_OK, evaluated[R_AggregationHashChainConsistency] && INTERNAL_OK), "OK => internal verification was performed and OK");
	__CPROVER_assert(IMPLIES(f_res == KSI_OK && f_code == KSI_VER_RES_FAIL, o_code[last_rule] == KSI_VER_RES_FAIL && f_err == o_err[last_rule]), "FAIL verdict carries the code of the failing rule");
	REACH("evaluated");
	if (FINAL_OK) REACH("policy OK");
	if (f_res == KSI_OK && f_code == KSI_VER_RES_NA) REACH("policy inconclusive");
}
