/* C19: the REAL list.c with the array view - append growth under allocation failure, new, remove, insertAt,
 * replaceAt, elementAt, free.  CBMC 6 lets every malloc/calloc fail (return NULL) nondeterministically. */
#include "env/common.h"
#include "env/list_alloc_env.h"     /* funnels: pass-through + live counter + concrete-size case split */
#include "env/list_env.h"
#include "list.h"
#include "list.c"
/* struct listImpl_st / listEl_st are private to list.c: the contracts (re-declarations) come after the file */
#include "contracts/list_array.h"

/* capacity bound of the harness (the contracts themselves allow LIST_MAX_SIZE) */
#ifndef LIST_HARNESS_MAX
#define LIST_HARNESS_MAX 2
#endif
static struct KSI_List_st g_list;
static struct listImpl_st g_impl;

/* a list in an arbitrary state; the contracts restrict it to LIST_INV.  Returns 0 if the harness itself
 * could not allocate the array. */
static int mk_list(void) {
	g_impl.arr_size = nondet_size();
	g_impl.arr_len = nondet_size();
	g_impl.arr = NULL;
	if (g_impl.arr_size != 0) {
		if (g_impl.arr_size > LIST_HARNESS_MAX) return 0;
		g_impl.arr = malloc(g_impl.arr_size * sizeof(struct listEl_st));
		if (g_impl.arr == NULL) return 0;
	}
	g_list.pImpl = &g_impl;
	g_list.obj_free = nondet_bool() ? list_stub_free : NULL;
	g_lw = nondet_size(); g_lv = nondet_size();
	g_lold_w = (g_impl.arr != NULL && g_lw < g_impl.arr_size) ? g_impl.arr[g_lw].ptr : NULL;
	g_lold_v = (g_impl.arr != NULL && g_lv < g_impl.arr_size) ? g_impl.arr[g_lv].ptr : NULL;
	g_lfree_calls = 0; g_lfree_last = NULL;
	g_live = 5;
	return 1;
}

#ifdef H_append
void harness(void) {
	void *obj = nondet_ptr();
	size_t len0;
	int res;
	if (!mk_list()) return;
	len0 = g_impl.arr_len;
	res = appendElement(&g_list, obj);
	REACH("append returns");
	if (res == KSI_OK && len0 > 0 && len0 + 10 == g_impl.arr_size) REACH("append grew a non-empty array");
	if (res == KSI_OK && len0 == 0 && g_impl.arr_size == 10) REACH("append allocated the first array");
	if (res == KSI_OK && len0 < g_impl.arr_size && g_impl.arr_size <= LIST_HARNESS_MAX) REACH("append without growth");
	if (res == KSI_OUT_OF_MEMORY) REACH("append: allocation failed");
}
#endif

/* ------------------------------------------------------------------------------------------------------------
 * Plain-mode (no dfcc) obligations with the COMPLETE array view, bounded: capacity <= LIST_HARNESS_MAX.
 * The list is a heap object in an arbitrary state satisfying LIST_INV, wired exactly as KSI_List_new wires it;
 * the public KSI_List_* wrappers are called (so the dispatch through the function-pointer members is covered).
 * Every harness ends with KSI_List_free and runs under --memory-leak-check: whatever the operation allocated
 * (and the array it replaced) must have been released exactly once. */
#define VIEW_MAX (LIST_HARNESS_MAX + 1)
static struct KSI_List_st b_lst_obj; static struct listImpl_st b_impl_obj;
static KSI_List *b_lst; static struct listImpl_st *b_impl;
static void *b_before[VIEW_MAX]; static size_t b_len, b_cap;
/* capacity and length arrive as CONSTANTS (the harness splits into one call per pair): allocation sizes and
 * loop bounds are then concrete for the symbolic execution */
static int b_build(size_t cap, size_t len) {
	size_t i;
	b_cap = cap; b_len = len;
	/* list and impl objects are statics (KSI_List_new / KSI_List_free have their own job): their fields stay
	 * concrete for the symbolic execution; the element array is a heap block of exactly `cap` slots */
	b_lst = &b_lst_obj; b_impl = &b_impl_obj;
	b_impl->arr = NULL;
	if (b_cap != 0) b_impl->arr = malloc(b_cap * sizeof(struct listEl_st));
	if (b_cap != 0 && b_impl->arr == NULL) return 0;
	b_impl->arr_size = b_cap; b_impl->arr_len = b_len;
	for (i = 0; i < b_len; i++) { b_impl->arr[i].ptr = nondet_ptr(); b_impl->arr[i].initialIdx = 0; b_impl->arr[i].cmp = NULL; b_before[i] = b_impl->arr[i].ptr; }
	b_lst->pImpl = b_impl;
	b_lst->obj_free = nondet_bool() ? list_stub_free : NULL;
	b_lst->append = appendElement; b_lst->indexOf = indexOf; b_lst->replaceAt = replaceElementAt; b_lst->insertAt = insertElementAt;
	b_lst->elementAt = elementAt; b_lst->length = length; b_lst->removeElement = removeElement; b_lst->sort = KSI_List_sort;
	b_lst->foldl = KSI_List_foldl; b_lst->find = find;
	g_lfree_calls = 0; g_lfree_last = NULL;
	return 1;
}
static int b_inv(void) { return b_lst->pImpl == b_impl && b_impl->arr_len <= b_impl->arr_size && ((b_impl->arr_size == 0) == (b_impl->arr == NULL)); }
/* the view is unchanged (same length, same elements, same array) */
static int b_same(struct listEl_st *arr0) {
	size_t i; int ok = b_inv() && b_impl->arr_len == b_len && b_impl->arr_size == b_cap && b_impl->arr == arr0;
	for (i = 0; i < b_len; i++) ok = ok && b_impl->arr[i].ptr == b_before[i];
	return ok;
}
/* release the (possibly replaced) element array: under --memory-leak-check an array that the operation replaced
 * without freeing it, or freed twice, is reported */
static void b_finish(size_t expect_len) { KSI_free(b_impl->arr); b_impl->arr = NULL; }

#ifdef H_b_append
#define B_SPLIT
static void body(size_t cap, size_t len) {
	void *obj = nondet_ptr(); struct listEl_st *arr0; size_t i; int res;
	if (!b_build(cap, len)) return;
	arr0 = b_impl->arr;
	res = KSI_List_append(b_lst, obj);
	REACH("append returns");
	__CPROVER_assert(res == KSI_OK || (res == KSI_OUT_OF_MEMORY && b_len == b_cap), "append: OK, or out of memory only when the array had to grow");
	if (res == KSI_OK) {
		__CPROVER_assert(b_inv() && b_impl->arr_len == b_len + 1, "append ok: invariant, one element more");
		__CPROVER_assert(b_impl->arr[b_len].ptr == obj, "append ok: the new element is last");
		for (i = 0; i < b_len; i++) __CPROVER_assert(b_impl->arr[i].ptr == b_before[i], "append ok: every old element keeps its place");
		__CPROVER_assert(b_len == b_cap ? (b_impl->arr_size == b_cap + 10 && b_impl->arr != arr0) : (b_impl->arr_size == b_cap && b_impl->arr == arr0), "append ok: grows by 10 slots exactly when full");
		__CPROVER_assert(g_lfree_calls == 0, "append: no element is destroyed");
		if (b_len == b_cap && b_len > 0) REACH("append grew a non-empty array");
		b_finish(b_len + 1);
	} else {
		__CPROVER_assert(b_same(arr0), "append failed: the list is exactly as before and valid");
		REACH("append: allocation failed");
		b_finish(b_len);
	}
}
#endif

#ifdef H_b_remove
#define B_SPLIT
static void body(size_t cap, size_t len) {
	size_t pos = nondet_size(), i; void *out = &g_lw, *out0 = out; int want_out = nondet_bool(); struct listEl_st *arr0; int res;
	if (!b_build(cap, len)) return;
	arr0 = b_impl->arr;
	res = KSI_List_remove(b_lst, pos, want_out ? &out : NULL);
	REACH("remove returns");
	__CPROVER_assert((res == KSI_OK) == (pos < b_len), "remove: succeeds exactly for a position inside the view");
	if (res == KSI_OK) {
		__CPROVER_assert(b_inv() && b_impl->arr_len == b_len - 1 && b_impl->arr == arr0 && b_impl->arr_size == b_cap, "remove ok: one element less, same array");
		for (i = 0; i < b_len - 1; i++) __CPROVER_assert(b_impl->arr[i].ptr == b_before[i < pos ? i : i + 1], "remove ok: elements before pos stay, the tail moves down by one");
		if (want_out) __CPROVER_assert(out == b_before[pos] && g_lfree_calls == 0, "remove ok: the element is handed to the caller, not destroyed");
		else __CPROVER_assert(b_lst->obj_free == NULL || (g_lfree_calls == 1 && g_lfree_last == b_before[pos]), "remove ok: without receiver the element is destroyed exactly once");
		if (pos + 1 < b_len) REACH("removed from the middle");
		b_finish(b_len - 1);
	} else {
		__CPROVER_assert(b_same(arr0) && out == out0 && g_lfree_calls == 0, "remove failed: nothing changed");
		b_finish(b_len);
	}
}
#endif

#ifdef H_b_insert
#define B_SPLIT
static void body(size_t cap, size_t len) {
	size_t pos = nondet_size(), i; void *obj = nondet_ptr(); struct listEl_st *arr0; int res;
	if (!b_build(cap, len)) return;
	arr0 = b_impl->arr;
	res = KSI_List_insertAt(b_lst, pos, obj);
	REACH("insertAt returns");
	__CPROVER_assert(IMPLIES(res == KSI_OK, pos < b_len), "insertAt: only positions inside the view are accepted");
	__CPROVER_assert(IMPLIES(pos < b_len, res == KSI_OK || (res == KSI_OUT_OF_MEMORY && b_len == b_cap)), "insertAt: inside the view it fails only for lack of memory when full");
	if (res == KSI_OK) {
		__CPROVER_assert(b_inv() && b_impl->arr_len == b_len + 1, "insertAt ok: one element more");
		for (i = 0; i < b_len + 1; i++) __CPROVER_assert(b_impl->arr[i].ptr == (i < pos ? b_before[i] : (i == pos ? obj : b_before[i - 1])), "insertAt ok: prefix stays, new element at pos, tail moves up by one");
		__CPROVER_assert(g_lfree_calls == 0, "insertAt: no element is destroyed");
		if (b_len == b_cap && pos + 1 < b_len) REACH("inserted into the middle of a full array");
		b_finish(b_len + 1);
	} else {
		__CPROVER_assert(b_same(arr0) && g_lfree_calls == 0, "insertAt failed: the list is exactly as before");
		b_finish(b_len);
	}
}
#endif

#ifdef H_b_replace_elementat
#define B_SPLIT
static void body(size_t cap, size_t len) {
	size_t pos = nondet_size(), i; void *obj = nondet_ptr(); void *out = &g_lw, *out0 = out; struct listEl_st *arr0; int res;
	if (!b_build(cap, len)) return;
	arr0 = b_impl->arr;
	__CPROVER_assert(KSI_List_length(b_lst) == b_len, "length: number of elements of the view");
	res = KSI_List_elementAt(b_lst, pos, &out);
	__CPROVER_assert((res == KSI_OK) == (pos < b_len), "elementAt: succeeds exactly inside the view");
	__CPROVER_assert(res == KSI_OK ? out == b_before[pos] : out == out0, "elementAt: the pos-th element, receiver untouched on failure");
	__CPROVER_assert(b_same(arr0) && g_lfree_calls == 0, "elementAt: the list is not changed");
	res = KSI_List_replaceAt(b_lst, pos, obj);
	REACH("replaceAt returns");
	__CPROVER_assert((res == KSI_OK) == (pos < b_len), "replaceAt: succeeds exactly inside the view");
	if (res == KSI_OK) {
		__CPROVER_assert(b_inv() && b_impl->arr_len == b_len && b_impl->arr == arr0, "replaceAt ok: same length, same array");
		for (i = 0; i < b_len; i++) __CPROVER_assert(b_impl->arr[i].ptr == (i == pos ? obj : b_before[i]), "replaceAt ok: only the element at pos changes");
		__CPROVER_assert(b_lst->obj_free == NULL || (g_lfree_calls == 1 && g_lfree_last == b_before[pos]), "replaceAt ok: the old element is destroyed exactly once");
		REACH("replaced");
	} else {
		__CPROVER_assert(b_same(arr0) && g_lfree_calls == 0, "replaceAt failed: nothing changed");
	}
	b_finish(b_len);
}
#endif

#ifdef B_SPLIT
#define B1(c, l) if (pick_c == c && pick_l == l) body(c, l);
void harness(void) {
	size_t pick_c = nondet_size(), pick_l = nondet_size();
#ifdef B_ONLY_C        /* a single (capacity, length) pair per job */
	body(B_ONLY_C, B_ONLY_L);
#elif defined(B_NONEMPTY)      /* operations that refuse an empty view up front (checked by C19.list_replace_elementAt) */
	B1(1, 1) B1(2, 1) B1(2, 2)
#else
	B1(0, 0)
	B1(1, 0) B1(1, 1)
	B1(2, 0) B1(2, 1) B1(2, 2)
#endif
#if LIST_HARNESS_MAX >= 4
	B1(3, 0) B1(3, 1) B1(3, 2) B1(3, 3)
	B1(4, 0) B1(4, 1) B1(4, 2) B1(4, 3) B1(4, 4)
#endif
}
#endif

#ifdef H_b_new_free
void harness(void) {
	KSI_List *l = (KSI_List *)&g_lw, *l0 = l; void *e = nondet_ptr(); int res;
	g_lfree_calls = 0;
	res = KSI_List_new(nondet_bool() ? list_stub_free : NULL, &l);
	REACH("new returns");
	__CPROVER_assert(res == KSI_OK || res == KSI_OUT_OF_MEMORY, "new: OK or out of memory");
	if (res != KSI_OK) { __CPROVER_assert(l == l0, "new failed: receiver untouched"); REACH("new: allocation failed"); return; }
	__CPROVER_assert(l != NULL && l != l0 && l->pImpl != NULL, "new ok: a list object");
	__CPROVER_assert(L_LEN(l) == 0 && L_SIZE(l) == 0 && L_ARR(l) == NULL, "new ok: empty view, invariant holds");
	__CPROVER_assert(l->append == appendElement && l->removeElement == removeElement && l->insertAt == insertElementAt && l->replaceAt == replaceElementAt &&
			l->elementAt == elementAt && l->length == length && l->indexOf == indexOf && l->find == find && l->sort == KSI_List_sort && l->foldl == KSI_List_foldl,
			"new ok: every operation is wired");
	__CPROVER_assert(KSI_List_length(l) == 0, "new ok: length 0");
	res = KSI_List_append(l, e);
	if (res == KSI_OK) { void *o = NULL; __CPROVER_assert(KSI_List_length(l) == 1 && KSI_List_elementAt(l, 0, &o) == KSI_OK && o == e, "first append: one element, it is the appended one"); REACH("first element appended"); }
	else __CPROVER_assert(res == KSI_OUT_OF_MEMORY && KSI_List_length(l) == 0, "first append failed: still empty");
	KSI_List_free(l);
}
#endif
