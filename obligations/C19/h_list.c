/* C19: the REAL list.c with the array view - append growth under allocation failure, new, remove, insertAt,
 * replaceAt, elementAt, free.  CBMC 6 lets every malloc/calloc fail (return NULL) nondeterministically. */
#include "env/common.h"
#include "env/stubs_base.h"
#include "env/list_env.h"
#include "list.h"
#include "list.c"
/* struct listImpl_st / listEl_st are private to list.c: the contracts (re-declarations) come after the file */
#include "contracts/list_array.h"

/* capacity bound of the harness (the contracts themselves allow LIST_MAX_SIZE) */
#ifndef LIST_HARNESS_MAX
#define LIST_HARNESS_MAX 4
#endif
static struct KSI_List_st g_list;
static struct listImpl_st g_impl;

/* a list in an arbitrary state; the contracts restrict it to LIST_INV.  Returns 0 if the harness itself
 * could not allocate the array. */
static int mk_list(void) {
	g_impl.arr_size = nondet_size();
	g_impl.arr_len = nondet_size();
	g_impl.arr = NULL;
	if (g_impl.arr_size != 0) {
		if (g_impl.arr_size > LIST_HARNESS_MAX) return 0;
		g_impl.arr = malloc(g_impl.arr_size * sizeof(struct listEl_st));
		if (g_impl.arr == NULL) return 0;
	}
	g_list.pImpl = &g_impl;
	g_list.obj_free = nondet_bool() ? list_stub_free : NULL;
	g_lw = nondet_size(); g_lv = nondet_size();
	g_lold_w = (g_impl.arr != NULL && g_lw < g_impl.arr_size) ? g_impl.arr[g_lw].ptr : NULL;
	g_lold_v = (g_impl.arr != NULL && g_lv < g_impl.arr_size) ? g_impl.arr[g_lv].ptr : NULL;
	g_lfree_calls = 0; g_lfree_last = NULL;
	return 1;
}

#ifdef H_append
void harness(void) {
	void *obj = nondet_ptr();
	size_t len0;
	int res;
	if (!mk_list()) return;
	len0 = g_impl.arr_len;
	res = appendElement(&g_list, obj);
	REACH("append returns");
	if (res == KSI_OK && len0 > 0 && len0 + 10 == g_impl.arr_size) REACH("append grew a non-empty array");
	if (res == KSI_OK && len0 == 0 && g_impl.arr_size == 10) REACH("append allocated the first array");
	if (res == KSI_OK && len0 < g_impl.arr_size && g_impl.arr_size <= LIST_HARNESS_MAX) REACH("append without growth");
	if (res == KSI_OUT_OF_MEMORY) REACH("append: allocation failed");
}
#endif
