/* C19 (round 3, builderW) / C10 / C12: the template engine of tlv_template.c under allocation failure.
 *   H_extract     KSI_TlvTemplate_extract -> extract -> extractGenerator -> extractObject / extractComposite (recursion
 *                 depth 2: top template -> composite entry -> leaf entries) -> storeObjectValue, TLVListIterator_next
 *   H_serialize   KSI_TlvTemplate_serializeObject -> KSI_TlvTemplate_construct -> construct (recursion depth 2)
 * Real tlv_template.c included unmodified; plain mode, --malloc-may-fail --malloc-fail-null (every funnel allocation may
 * fail, in every combination), live funnel blocks counted in g_live (env/c19_alloc_env.h).
 *
 * Small symbolic schema (like obligations/C10/engine.c, plus a composite):
 *     top:  [tag 1: single value a] [tag 2: list b] [tag 3: composite c -> sub]      sub: [tag 1: single value d] [tag 2: list e]
 * MANDATORY flags symbolic per entry.  The input is a model TLV tree: a top element with <= TOP_N children with symbolic
 * tags 1..4 and criticality; each child with tag 3 shares ONE nested list of <= SUB_N grandchildren (symbolic tags 1..3).
 * Value parsers, list call-backs, composite constructor hand out counted funnel blocks and may fail (OOM), value parsers
 * may also reject (INVALID_FORMAT); the list append may fail (growth).
 *
 * Statement (C19): a failed allocation anywhere => an error is returned; whatever the outcome, the partially filled object
 * is releasable by its destructor exactly once (CBMC's double-free / deallocated checks) and then no block is left
 * (g_live as before) - i.e. every temporary was released exactly once on every path; the input tree is untouched and none
 * of its elements is released. */
#include "env/common.h"
#include "env/c19_alloc_env.h"
#include <string.h>
#include "tlv.h"

#ifndef TOP_N
#define TOP_N 3
#endif
#ifndef SUB_N
#define SUB_N 2
#endif

/* ---- model of the opaque KSI_TLV (tlv.c is C09/C12 business) ---- */
struct KSI_TLV_st {
	KSI_CTX *ctx; unsigned tag; int isNonCritical; int isForward;
	int kind;                 /* 0 = input element, 1 = element built by the serializer (funnel block) */
	KSI_TLV *child[4]; size_t nchild;    /* serializer side: children appended so far */
};
static char ctx_mem[8];
size_t KSI_snprintf(char *buf, size_t n, const char *format, ...) { if (n > 0) buf[0] = 0; return 0; }
int KSI_LOG_logTlv(KSI_CTX *ctx, int level, const char *prefix, const KSI_TLV *tlv) { return KSI_OK; }
unsigned KSI_TLV_getTag(const KSI_TLV *tlv) { return tlv->tag; }
int KSI_TLV_isNonCritical(const KSI_TLV *tlv) { return tlv->isNonCritical; }
int KSI_TLV_isForward(const KSI_TLV *tlv) { return tlv->isForward; }
KSI_CTX *KSI_TLV_getCtx(const KSI_TLV *tlv) { return tlv != NULL ? tlv->ctx : NULL; }
int KSI_TLV_getRawValue(KSI_TLV *tlv, const unsigned char **buf, size_t *len) { __CPROVER_assert(0, "raw value not used (no WRAP parsers in the schema)"); return KSI_INVALID_ARGUMENT; }
int KSI_TLV_parseBlob2(KSI_CTX *ctx, unsigned char *data, size_t data_length, int ownMemory, KSI_TLV **tlv) { __CPROVER_assert(0, "parseBlob2 not used"); return KSI_INVALID_ARGUMENT; }
unsigned g_input_freed;
void KSI_TLV_free(KSI_TLV *tlv) {
	size_t i;
	if (tlv == NULL) return;
	if (tlv->kind == 0) { g_input_freed++; return; }          /* an input element must never be released by the engine */
	for (i = 0; i < 4; i++) if (i < tlv->nchild) KSI_TLV_free(tlv->child[i]);
	KSI_free(tlv);
}

/* input tree */
static struct KSI_TLV_st g_top, g_el[TOP_N], g_sub[SUB_N];
static size_t g_nel, g_nsub;
static KSI_LIST(KSI_TLV) g_lst_top, g_lst_sub;
static size_t st_length(KSI_LIST(KSI_TLV) *l) { return l == &g_lst_top ? g_nel : g_nsub; }
static int st_elementAt(KSI_LIST(KSI_TLV) *l, size_t pos, KSI_TLV **o) {
	if (pos >= st_length(l)) return KSI_BUFFER_OVERFLOW;
	*o = l == &g_lst_top ? &g_el[pos] : &g_sub[pos];
	return KSI_OK;
}
/* [ASSUMED] tlv.c: the nested list of an element is obtained (a raw element is parsed on demand: that allocation may
 * fail) or the element is not a nested one; the element keeps owning the list */
int KSI_TLV_getNestedList(KSI_TLV *tlv, KSI_LIST(KSI_TLV) **list) {
	__CPROVER_assert(tlv != NULL && tlv->kind == 0, "getNestedList: on an input element");
	if (nondet_bool()) { g_alloc_failed++; return KSI_OUT_OF_MEMORY; }
	*list = tlv == &g_top ? &g_lst_top : &g_lst_sub;
	return KSI_OK;
}

#include "tlv_template.c"

/* ---- payload objects and call-backs (what the generated KSI_*_new/_free/get/set/list functions do) ---- */
struct ML { void *el[4]; size_t n; };
struct Q { void *d; struct ML *e; };
struct P { void *a; struct ML *b; struct Q *c; };
static struct P g_p;
unsigned g_from_calls;
static int leaf_from(KSI_TLV *tlv, void **o) {
	void *p;
	__CPROVER_assert(tlv != NULL && tlv->kind == 0 && tlv != &g_top, "value parser gets an input element");
	g_from_calls++;
	if (nondet_bool()) return KSI_INVALID_FORMAT;
	p = KSI_malloc(4);
	if (p == NULL) return KSI_OUT_OF_MEMORY;
	*o = p;
	return KSI_OK;
}
static void leaf_free(void *o) { KSI_free(o); }
static int ml_new(void **l) { struct ML *m = KSI_malloc(sizeof(struct ML)); if (m == NULL) return KSI_OUT_OF_MEMORY; m->n = 0; *l = m; return KSI_OK; }
static int ml_append(void *l, void *v) {
	struct ML *m = l;
	if (m->n >= 4) return KSI_BUFFER_OVERFLOW;
	if (nondet_bool()) { g_alloc_failed++; return KSI_OUT_OF_MEMORY; }       /* growth of the list failed: list unchanged (C19.list_append) */
	m->el[m->n++] = v;
	return KSI_OK;
}
static void ml_free(void *l) { struct ML *m = l; size_t i; if (m == NULL) return; for (i = 0; i < 4; i++) if (i < m->n) leaf_free(m->el[i]); KSI_free(m); }
static int ml_length(const void *l) { return (int)((const struct ML *)l)->n; }
static int ml_elementAt(const void *l, int pos, void **o) { const struct ML *m = l; if (pos < 0 || (size_t)pos >= m->n) return KSI_BUFFER_OVERFLOW; *o = m->el[pos]; return KSI_OK; }
static int q_new(KSI_CTX *ctx, void **o) { struct Q *q = KSI_malloc(sizeof(struct Q)); if (q == NULL) return KSI_OUT_OF_MEMORY; q->d = NULL; q->e = NULL; *o = q; return KSI_OK; }
static void q_free(void *o) { struct Q *q = o; if (q == NULL) return; leaf_free(q->d); ml_free(q->e); KSI_free(q); }
static void p_free_members(struct P *p) { leaf_free(p->a); ml_free(p->b); q_free(p->c); p->a = NULL; p->b = NULL; p->c = NULL; }
#define ACC(T, f) \
	static int get_##f(const void *o, void **v) { *v = (void *)((const struct T *)o)->f; return KSI_OK; } \
	static int set_##f(void *o, void *v) { ((struct T *)o)->f = v; return KSI_OK; }
ACC(P, a) ACC(P, b) ACC(P, c) ACC(Q, d) ACC(Q, e)

/* serializer side: leaf -> element; model of tlv.c constructors [ASSUMED]: one funnel block per element, may fail */
static int mk_tlv(unsigned tag, int nc, int fwd, KSI_TLV **out) {
	KSI_TLV *t = KSI_malloc(sizeof(struct KSI_TLV_st));
	if (t == NULL) return KSI_OUT_OF_MEMORY;
	t->ctx = (KSI_CTX *)ctx_mem; t->tag = tag; t->isNonCritical = nc; t->isForward = fwd; t->kind = 1; t->nchild = 0;
	*out = t;
	return KSI_OK;
}
int KSI_TLV_new(KSI_CTX *ctx, unsigned tag, int isLenient, int isForward, KSI_TLV **tlv) { return mk_tlv(tag, isLenient, isForward, tlv); }
static int leaf_toTlv(KSI_CTX *ctx, void *o, unsigned tag, int nc, int fwd, KSI_TLV **tlv) { __CPROVER_assert(o != NULL, "toTlv: a value"); return mk_tlv(tag, nc, fwd, tlv); }
/* tlv.c KSI_TLV_appendNestedTlv: list creation / growth may fail (then the child stays with the caller), otherwise the target owns the child */
int KSI_TLV_appendNestedTlv(KSI_TLV *target, KSI_TLV *tlv) {
	__CPROVER_assert(target != NULL && tlv != NULL && target->kind == 1 && tlv->kind == 1, "appendNestedTlv: elements built by the serializer");
	if (target->nchild >= 4) return KSI_BUFFER_OVERFLOW;
	if (nondet_bool()) { g_alloc_failed++; return KSI_OUT_OF_MEMORY; }
	target->child[target->nchild++] = tlv;
	return KSI_OK;
}
unsigned g_ser_calls;
int KSI_TLV_serialize(const KSI_TLV *tlv, unsigned char **data, size_t *len) {
	unsigned char *b;
	__CPROVER_assert(tlv != NULL && tlv->kind == 1, "serialize: the element built from the object");
	g_ser_calls++;
	b = KSI_malloc(4);
	if (b == NULL) return KSI_OUT_OF_MEMORY;
	*data = b; *len = 4;
	return KSI_OK;
}

static KSI_TlvTemplate t_sub[3], t_top[4];
static void mk_templates(void) {
	memset(t_sub, 0, sizeof(t_sub)); memset(t_top, 0, sizeof(t_top));
	t_sub[0].type = KSI_TLV_TEMPLATE_OBJECT; t_sub[0].tag = 1; t_sub[0].flags = nondet_bool() ? KSI_TLV_TMPL_FLG_MANDATORY : 0;
	t_sub[0].getValue = get_d; t_sub[0].setValue = set_d; t_sub[0].fromTlv = leaf_from; t_sub[0].toTlv = leaf_toTlv; t_sub[0].destruct = leaf_free;
	t_sub[1].type = KSI_TLV_TEMPLATE_OBJECT; t_sub[1].tag = 2; t_sub[1].flags = nondet_bool() ? KSI_TLV_TMPL_FLG_MANDATORY : 0; t_sub[1].multiple = 1;
	t_sub[1].getValue = get_e; t_sub[1].setValue = set_e; t_sub[1].fromTlv = leaf_from; t_sub[1].toTlv = leaf_toTlv; t_sub[1].destruct = leaf_free;
	t_sub[1].listAppend = ml_append; t_sub[1].listNew = ml_new; t_sub[1].listFree = ml_free; t_sub[1].listLength = ml_length; t_sub[1].listElementAt = ml_elementAt;
	t_sub[2].type = -1;
	t_top[0] = t_sub[0]; t_top[0].getValue = get_a; t_top[0].setValue = set_a; t_top[0].flags = nondet_bool() ? KSI_TLV_TMPL_FLG_MANDATORY : 0;
	t_top[1] = t_sub[1]; t_top[1].getValue = get_b; t_top[1].setValue = set_b; t_top[1].flags = nondet_bool() ? KSI_TLV_TMPL_FLG_MANDATORY : 0;
	t_top[2].type = KSI_TLV_TEMPLATE_COMPOSITE; t_top[2].tag = 3; t_top[2].flags = nondet_bool() ? KSI_TLV_TMPL_FLG_MANDATORY : 0;
	t_top[2].getValue = get_c; t_top[2].setValue = set_c; t_top[2].construct = q_new; t_top[2].destruct = q_free; t_top[2].subTemplate = t_sub;
	t_top[3].type = -1;
}

#ifdef H_extract
void harness(void) {
	size_t k; int res; long live0; unsigned tag0[TOP_N], stag0[SUB_N]; int nc0[TOP_N];
	mk_templates();
	g_nel = nondet_size(); g_nsub = nondet_size();
	__CPROVER_assume(g_nel <= TOP_N && g_nsub <= SUB_N);                     /* the stated bound */
	g_top.ctx = (KSI_CTX *)ctx_mem; g_top.tag = 0x10; g_top.kind = 0;
	for (k = 0; k < TOP_N; k++) {
		g_el[k].ctx = (KSI_CTX *)ctx_mem; g_el[k].kind = 0; g_el[k].tag = tag0[k] = nondet_uint(); g_el[k].isNonCritical = nc0[k] = nondet_bool();
		__CPROVER_assume(1 <= tag0[k] && tag0[k] <= 4);
	}
	for (k = 0; k < SUB_N; k++) {
		g_sub[k].ctx = (KSI_CTX *)ctx_mem; g_sub[k].kind = 0; g_sub[k].tag = stag0[k] = nondet_uint(); g_sub[k].isNonCritical = 0;
		__CPROVER_assume(1 <= stag0[k] && stag0[k] <= 3);
	}
	memset(&g_lst_top, 0, sizeof(g_lst_top)); memset(&g_lst_sub, 0, sizeof(g_lst_sub));
	g_lst_top.length = st_length; g_lst_top.elementAt = st_elementAt; g_lst_sub.length = st_length; g_lst_sub.elementAt = st_elementAt;
	g_p.a = NULL; g_p.b = NULL; g_p.c = NULL;                                   /* a freshly constructed object (the _new constructors) */
	g_live = 0; g_alloc_failed = 0; g_input_freed = 0; g_from_calls = 0; live0 = g_live;

	res = KSI_TlvTemplate_extract((KSI_CTX *)ctx_mem, &g_p, &g_top, t_top);

	REACH("extract returns");
	__CPROVER_assert(IMPLIES(g_alloc_failed > 0, res != KSI_OK), "extract: a failed allocation anywhere => an error is returned");
	__CPROVER_assert(IMPLIES(res == KSI_OUT_OF_MEMORY, g_alloc_failed > 0), "extract: out-of-memory only with a failed allocation");
	__CPROVER_assert(g_input_freed == 0, "extract: no element of the input tree is released");
	for (k = 0; k < TOP_N; k++) __CPROVER_assert(g_el[k].tag == tag0[k] && g_el[k].isNonCritical == nc0[k] && g_el[k].kind == 0, "extract: the input elements are untouched");
	for (k = 0; k < SUB_N; k++) __CPROVER_assert(g_sub[k].tag == stag0[k] && g_sub[k].kind == 0, "extract: the nested input elements are untouched");
	if (res == KSI_OK) {
		long want = (g_p.a != NULL) + (g_p.b != NULL ? 1 + (long)g_p.b->n : 0) + (g_p.c != NULL ? 1 + (g_p.c->d != NULL) + (g_p.c->e != NULL ? 1 + (long)g_p.c->e->n : 0) : 0);
		__CPROVER_assert(g_live == live0 + want, "extract ok: exactly the blocks reachable from the object are live (no temporary survives)");
		__CPROVER_assert(IMPLIES(t_top[0].flags != 0, g_p.a != NULL) && IMPLIES(t_top[1].flags != 0, g_p.b != NULL) && IMPLIES(t_top[2].flags != 0, g_p.c != NULL), "extract ok: mandatory members present");
		REACH("extract ok");
#if TOP_N >= 3 && SUB_N >= 2
		if (g_p.c != NULL && g_p.c->e != NULL && g_p.c->e->n == 2 && g_p.b != NULL) REACH("extract ok: composite with a two-element list and a top-level list");
#else
		if (g_p.c != NULL && g_p.c->e != NULL && g_p.b != NULL) REACH("extract ok: composite with a list and a top-level list");
#endif
	} else {
		if (g_alloc_failed > 0) REACH("extract: an allocation failed");
#if TOP_N >= 3 && SUB_N >= 2
		if (g_alloc_failed == 1 && g_from_calls >= 3) REACH("extract: one allocation failed after three values were parsed");
#else
		if (g_alloc_failed == 1 && g_from_calls >= 2) REACH("extract: one allocation failed after two values were parsed");
#endif
		if (g_p.a != NULL || g_p.b != NULL || g_p.c != NULL) REACH("extract failed with a partially filled object");
	}
	/* the (partially filled) object is releasable by its destructor, exactly once */
	p_free_members(&g_p);
	__CPROVER_assert(g_live == live0, "extract: after the destructor of the (partially filled) object no block is left - every temporary was released exactly once");
}
#endif

#ifdef H_serialize
static void *mk_leaf(void) { void *p = malloc(4); __CPROVER_assume(p != NULL); return p; }
static struct ML *mk_ml(size_t n) { struct ML *m = malloc(sizeof(struct ML)); size_t i; __CPROVER_assume(m != NULL); m->n = n; for (i = 0; i < 4; i++) m->el[i] = i < n ? mk_leaf() : NULL; return m; }
void harness(void) {
	unsigned char *raw = NULL, *raw0; size_t raw_len = 77; int res; long live0; struct Q q; size_t nb = nondet_size(), ne = nondet_size();
	void *a0, *d0; struct ML *b0, *e0;
	mk_templates();
	__CPROVER_assume(nb <= 2 && ne <= 2);                                     /* the stated bound */
	/* the object (not funnel blocks: the serializer must neither release nor keep them) */
	g_p.a = a0 = nondet_bool() ? mk_leaf() : NULL; g_p.b = b0 = nondet_bool() ? mk_ml(nb) : NULL;
	q.d = d0 = nondet_bool() ? mk_leaf() : NULL; q.e = e0 = nondet_bool() ? mk_ml(ne) : NULL;
	g_p.c = nondet_bool() ? &q : NULL;
	raw0 = raw = nondet_bool() ? NULL : (unsigned char *)ctx_mem;
	g_live = 0; g_alloc_failed = 0; g_input_freed = 0; g_ser_calls = 0; live0 = g_live;

	res = KSI_TlvTemplate_serializeObject((KSI_CTX *)ctx_mem, &g_p, 0x10, 0, 0, t_top, &raw, &raw_len);

	REACH("serializeObject returns");
	__CPROVER_assert(IMPLIES(g_alloc_failed > 0, res != KSI_OK), "serialize: a failed allocation anywhere => an error is returned");
	__CPROVER_assert(IMPLIES(res == KSI_OUT_OF_MEMORY, g_alloc_failed > 0), "serialize: out-of-memory only with a failed allocation");
	__CPROVER_assert(g_p.a == a0 && g_p.b == b0 && (g_p.c == NULL || (q.d == d0 && q.e == e0)) && IMPLIES(b0 != NULL, b0->n == nb) && IMPLIES(e0 != NULL, e0->n == ne), "serialize: the object is untouched");
	if (res == KSI_OK) {
		__CPROVER_assert(raw != NULL && raw != raw0 && raw_len == 4 && g_ser_calls == 1 && g_live == live0 + 1, "serialize ok: the serializer's buffer is handed out and is the only surviving block (the element tree is released)");
		__CPROVER_assert(IMPLIES(t_top[0].flags != 0, a0 != NULL) && IMPLIES(t_top[2].flags != 0, g_p.c != NULL) && IMPLIES(g_p.c != NULL && t_sub[0].flags != 0, d0 != NULL), "serialize ok: mandatory members were present");
		KSI_free(raw);
		REACH("serialize ok");
		if (g_p.c != NULL && e0 != NULL && ne == 2 && b0 != NULL && nb == 2) REACH("serialize ok: composite with a two-element list and a top-level list");
	} else {
		__CPROVER_assert(raw == raw0 && raw_len == 77, "serialize failed: receivers untouched");
		if (g_alloc_failed > 0) REACH("serialize: an allocation failed");
	}
	__CPROVER_assert(g_live == live0, "serialize: no block survives - every element built on the way was released exactly once");
}
#endif
