/* C19 (round 3, builderW): hash.c / hash_openssl.c under allocation failure, with the context's recycle bin
 * (ctx->dataHashRecycle) being the REAL list.c.  Plain mode, --malloc-may-fail --malloc-fail-null: every funnel
 * allocation may fail, in every combination.  Live funnel blocks are counted in g_live (env/c19_oom2_alloc_env.h).
 *
 *   H_hash_cycle    KSI_DataHash_fromDigest / fromImprint -> clone -> free -> free (parks the object or releases it)
 *                   -> a second fromDigest (served from the bin) -> tear-down of the bin.
 *   H_hasher_cycle  KSI_DataHasher_open -> add -> close -> reset -> close(NULL receiver) -> free, with the provider of
 *                   hash_openssl.c and an OpenSSL environment whose EVP_MD_CTX_new may fail.
 *
 * The bin is a list in one of the states (capacity, parked) given per call as CONSTANTS (concrete array sizes), the
 * cache-size option is symbolic.  Statement checked (property C19): a failed allocation => error code (or a correct
 * completion where the allocation was inessential: parking a released hash object), receiver untouched, no block leaked,
 * the bin exactly as before (same array, same length, same elements - "a failed growth must not corrupt it"), and
 * afterwards everything can be released exactly once (CBMC double-free / deallocated checks, g_live balance). */
#include "env/common.h"
#include "env/c19_oom2_alloc_env.h"
#include <string.h>
#include "hash.h"
#include "impl/hash_impl.h"
#include "impl/ctx_impl.h"
#include "list.c"

#ifndef BIN_CAP
#define BIN_CAP 2
#endif

/* ---- OpenSSL environment [ASSUMED]: method objects exist for the built-in digests; a digest context is one heap
 * block (not a funnel block: counted in g_evp_live), EVP_MD_CTX_new may fail; digest length as documented. ---- */
#include <openssl/evp.h>
static const char env_evp_md[5];
const EVP_MD *EVP_sha1(void) { return (const EVP_MD *)&env_evp_md[0]; }
const EVP_MD *EVP_ripemd160(void) { return (const EVP_MD *)&env_evp_md[1]; }
const EVP_MD *EVP_sha256(void) { return (const EVP_MD *)&env_evp_md[2]; }
const EVP_MD *EVP_sha384(void) { return (const EVP_MD *)&env_evp_md[3]; }
const EVP_MD *EVP_sha512(void) { return (const EVP_MD *)&env_evp_md[4]; }
struct env_mdctx { const EVP_MD *md; int inited; };
long g_evp_live; unsigned g_evp_failed; unsigned g_evp_final;
EVP_MD_CTX *EVP_MD_CTX_new(void) { struct env_mdctx *c = malloc(sizeof(struct env_mdctx)); if (c != NULL) { c->md = NULL; c->inited = 0; g_evp_live++; } else g_evp_failed++; return (EVP_MD_CTX *)c; }
void EVP_MD_CTX_free(EVP_MD_CTX *c) { if (c != NULL) { g_evp_live--; free(c); } }
int EVP_MD_CTX_reset(EVP_MD_CTX *c) { if (c != NULL) { ((struct env_mdctx *)c)->inited = 0; } return 1; }
_Bool g_evp_init_may_fail;
int EVP_DigestInit_ex(EVP_MD_CTX *c, const EVP_MD *md, ENGINE *e) {
	__CPROVER_assert(c != NULL && md != NULL, "EVP_DigestInit_ex: live context and method");
	if (g_evp_init_may_fail && nondet_bool()) return 0;
	((struct env_mdctx *)c)->md = md; ((struct env_mdctx *)c)->inited = 1; return 1;
}
int EVP_DigestUpdate(EVP_MD_CTX *c, const void *d, size_t n) { __CPROVER_assert(c != NULL && ((struct env_mdctx *)c)->inited, "EVP_DigestUpdate: initialised context"); return 1; }
int EVP_DigestFinal_ex(EVP_MD_CTX *c, unsigned char *md, unsigned int *s) {
	const EVP_MD *m;
	__CPROVER_assert(c != NULL && ((struct env_mdctx *)c)->inited, "EVP_DigestFinal_ex: initialised context");
	m = ((struct env_mdctx *)c)->md;
	*s = m == (const EVP_MD *)&env_evp_md[0] || m == (const EVP_MD *)&env_evp_md[1] ? 20 : m == (const EVP_MD *)&env_evp_md[2] ? 32 : m == (const EVP_MD *)&env_evp_md[3] ? 48 : 64;
	md[0] = nondet_uchar(); md[*s - 1] = nondet_uchar();
	g_evp_final++;
	return 1;
}

#include "hash.c"
#ifdef H_hasher_cycle
#include "hash_openssl.c"
#endif

/* ---- the context and its recycle bin (real list.c; list + impl objects are statics so that their fields stay concrete
 * for the symbolic execution, the element array is a funnel block of exactly `cap` slots as appendElement leaves it) ---- */
static struct KSI_CTX_st g_ctx;
static KSI_LIST(KSI_DataHash) b_lst_obj; static struct listImpl_st b_impl_obj;   /* the TYPED list struct: hash.c reads its members without a cast */
static KSI_DataHash *b_parked[BIN_CAP + 1];
static int bin_build(size_t cap, size_t len) {
	size_t i;
	b_impl_obj.arr = NULL; b_impl_obj.arr_size = cap; b_impl_obj.arr_len = len;
	if (cap != 0) {    /* a funnel block of cap slots (typed allocation: cheaper for the symbolic execution than calloc's byte array) */
		b_impl_obj.arr = malloc(cap * sizeof(struct listEl_st)); if (b_impl_obj.arr == NULL) return 0;
		g_live++;
		for (i = 0; i < cap; i++) { b_impl_obj.arr[i].ptr = NULL; b_impl_obj.arr[i].initialIdx = 0; b_impl_obj.arr[i].cmp = NULL; }
	}
	for (i = 0; i < len; i++) {        /* parked objects: reference count 0, stale contents */
		KSI_DataHash *p = KSI_malloc(sizeof(KSI_DataHash));
		if (p == NULL) return 0;
		p->ref = 0; p->ctx = &g_ctx; p->imprint_length = nondet_size(); p->imprint[0] = nondet_uchar();
		b_impl_obj.arr[i].ptr = p; b_parked[i] = p;
	}
	memset(&b_lst_obj, 0, sizeof(b_lst_obj));
	b_lst_obj.pImpl = &b_impl_obj;
	b_lst_obj.obj_free = KSI_DataHash_free;
	b_lst_obj.append = (int (*)(KSI_LIST(KSI_DataHash) *, KSI_DataHash *))appendElement;
	b_lst_obj.length = (size_t (*)(KSI_LIST(KSI_DataHash) *))length;
	b_lst_obj.removeElement = (int (*)(KSI_LIST(KSI_DataHash) *, size_t, KSI_DataHash **))removeElement;
	g_ctx.dataHashRecycle = &b_lst_obj;
	g_ctx.options[KSI_OPT_DATAHASH_CACHE_SIZE] = nondet_size();
	return 1;
}
#define BIN_SAME(arr0, cap, len) (b_impl_obj.arr == (arr0) && b_impl_obj.arr_size == (cap) && b_impl_obj.arr_len == (len))
static int bin_elems_same(size_t len) { size_t i; for (i = 0; i < len; i++) if (b_impl_obj.arr[i].ptr != b_parked[i]) return 0; return 1; }
/* what KSI_List_free does with the array part (the list / impl blocks are statics here; KSI_List_free itself: C19.list_new_free) */
static void bin_teardown(void) {
	size_t i;
	for (i = 0; i < b_impl_obj.arr_len; i++) b_lst_obj.obj_free(b_impl_obj.arr[i].ptr);
	KSI_free(b_impl_obj.arr); b_impl_obj.arr = NULL; b_impl_obj.arr_len = 0; b_impl_obj.arr_size = 0;
}

/* placed AFTER the assertion that states lv == v: stop the path if the assertion has just failed, otherwise re-assign the
 * value just compared equal (a no-op that makes the field a constant for the symbolic execution again) */
#define PIN(lv, v) do { if ((lv) != (v)) return; (lv) = (v); } while (0)

/* tear-down used where the real destructor dispatch is not the subject: a parked object has reference count 0 and is
 * released by KSI_DataHash_free's first branch = KSI_free */
static int bin_teardown_direct(void) {
	size_t i; int ok = 1;
	for (i = 0; i < b_impl_obj.arr_len; i++) { KSI_DataHash *p = b_impl_obj.arr[i].ptr; if (p->ref != 0) ok = 0; KSI_free(p); }
	KSI_free(b_impl_obj.arr); b_impl_obj.arr = NULL; b_impl_obj.arr_len = 0; b_impl_obj.arr_size = 0;
	return ok;
}

#ifdef H_hash_new
/* construction: KSI_DataHash_fromDigest / fromImprint over alloc_dataHash and the real removeElement */
static void t_new(int with_ctx, size_t cap, size_t len, size_t dl) {
	unsigned char dg[65]; KSI_DataHash *h = NULL, *h0, *c = NULL; KSI_CTX *ctx; struct listEl_st *arr0; long live0; int res, alg;
	_Bool viaImprint = nondet_bool();
	if (!bin_build(cap, len)) return;
	ctx = with_ctx ? &g_ctx : NULL; arr0 = b_impl_obj.arr;
	alg = nondet_int();
	__CPROVER_assume(alg == KSI_HASHALG_SHA2_256 || alg == 3 || alg == KSI_NUMBER_OF_KNOWN_HASHALGS);   /* stated bound: one valid id, the withdrawn id, an unknown id; digest length dl: 32, 31, 0 */
	h0 = h = nondet_bool() ? NULL : (KSI_DataHash *)&dg;     /* receiver content before the call (never dereferenced) */
	dg[0] = (unsigned char)alg;
	g_alloc_failed = 0; live0 = g_live;
	if (viaImprint) res = KSI_DataHash_fromImprint(ctx, dg, dl + 1, &h);
	else res = KSI_DataHash_fromDigest(ctx, alg, dg + 1, dl, &h);
	REACH("fromDigest / fromImprint returns");
	__CPROVER_assert(IMPLIES(res == KSI_OUT_OF_MEMORY, g_alloc_failed > 0), "hash new: out-of-memory only with a failed allocation");
	__CPROVER_assert(IMPLIES(g_alloc_failed > 0, res != KSI_OK), "hash new: a failed allocation is reported");
	__CPROVER_assert(IFF(res == KSI_OK, alg == KSI_HASHALG_SHA2_256 && dl == 32 && g_alloc_failed == 0), "hash new: succeeds exactly for a known algorithm with its digest length when no allocation fails");
	if (res != KSI_OK) {
		__CPROVER_assert(h == h0 && g_live == live0, "hash new failed: receiver untouched, no block survives");
		__CPROVER_assert(BIN_SAME(arr0, cap, len) && bin_elems_same(len), "hash new failed: the recycle bin is exactly as before");
		if (res == KSI_OUT_OF_MEMORY) REACH("hash new: allocation failed");
	} else {
		__CPROVER_assert(h != NULL && h->ref == 1 && h->ctx == ctx && h->imprint_length == dl + 1 && h->imprint[0] == dg[0] && h->imprint[dl] == dg[dl],
				"hash new ok: one reference, context, imprint = algorithm octet + digest");
		if (with_ctx && len > 0) {
			__CPROVER_assert(h == b_parked[len - 1] && g_live == live0 && g_alloc_failed == 0, "hash new ok: served from the bin (last parked object), nothing allocated");
			__CPROVER_assert(BIN_SAME(arr0, cap, len - 1) && bin_elems_same(len - 1), "hash new ok: the bin lost exactly its last object");
			REACH("hash new: recycled object");
		} else {
			__CPROVER_assert(g_live == live0 + 1 && BIN_SAME(arr0, cap, len) && bin_elems_same(len), "hash new ok: one fresh block, bin untouched");
			REACH("hash new: fresh object");
		}
		/* clone = one more reference */
		res = KSI_DataHash_clone(h, &c);
		__CPROVER_assert(res == KSI_OK && c == h && h->ref == 2, "hash clone: same object, one more reference (no allocation, cannot fail)");
		KSI_free(h);
	}
	__CPROVER_assert(bin_teardown_direct(), "parked objects have reference count 0");
	__CPROVER_assert(g_live == 0, "hash new: afterwards the bin and the object are released exactly once");
}
void harness(void) {
	unsigned k = nondet_uint();
	g_live = 0;
	if (k == 0) t_new(1, 0, 0, 32);
	else if (k == 1) t_new(1, BIN_CAP, 1, 32);
	else if (k == 2) t_new(1, BIN_CAP, BIN_CAP, 32);
	else if (k == 3) t_new(1, BIN_CAP, 1, 31);
	else if (k == 4) t_new(1, BIN_CAP, 1, 0);
	else t_new(0, BIN_CAP, 1, 32);
}
#endif

#ifdef H_hash_free
/* release: KSI_DataHash_free over the real appendElement (growth of the bin may fail), then the bin is used again */
static void t_free(int with_ctx, size_t cap, size_t len, size_t ref) {
	unsigned char dg[33]; KSI_DataHash *h, *h2 = NULL; KSI_CTX *ctx; struct listEl_st *arr0; long live0; int res; size_t cap1, len1 = len; size_t cache;
	if (!bin_build(cap, len)) return;
	ctx = with_ctx ? &g_ctx : NULL; arr0 = b_impl_obj.arr; cache = (size_t)g_ctx.options[KSI_OPT_DATAHASH_CACHE_SIZE];
	h = KSI_malloc(sizeof(KSI_DataHash)); if (h == NULL) return;
	h->ref = ref; h->ctx = ctx; h->imprint_length = 33; h->imprint[0] = KSI_HASHALG_SHA2_256;
	g_alloc_failed = 0; live0 = g_live;
	KSI_DataHash_free(h);
	REACH("hash free returns");
	if (ref > 1) {
		__CPROVER_assert(h->ref == ref - 1 && g_live == live0 && BIN_SAME(arr0, cap, len) && bin_elems_same(len) && g_alloc_failed == 0, "hash free with a second reference: only the reference is dropped");
		KSI_free(h);
	} else if (ref == 1 && with_ctx && len < cache && !(len == cap && g_alloc_failed > 0)) {
		cap1 = len == cap ? cap + 10 : cap;
		__CPROVER_assert(b_impl_obj.arr_len == len + 1 && b_impl_obj.arr_size == cap1 && b_impl_obj.arr != NULL && b_impl_obj.arr[len].ptr == h && h->ref == 0,
				"hash free: room in the cache => the object is parked last in the bin with reference count 0");
		__CPROVER_assert(bin_elems_same(len), "hash free: parking keeps every parked object in place");
		__CPROVER_assert(g_live == live0 + (len == cap && cap == 0 ? 1 : 0), "hash free: parking releases nothing but a replaced array");
		__CPROVER_assert(__CPROVER_OBJECT_SIZE(b_impl_obj.arr) == cap1 * sizeof(struct listEl_st), "hash free: the array really has the capacity the list believes in");
		__CPROVER_assert(IMPLIES(len < cap, b_impl_obj.arr == arr0 && g_alloc_failed == 0), "hash free: no allocation while the array has room");
		if (b_impl_obj.arr_len != len + 1 || b_impl_obj.arr_size != cap1) return;
		b_impl_obj.arr_len = len + 1; b_impl_obj.arr_size = cap1;
		b_parked[len] = h; len1 = len + 1;
		if (cap1 != cap) REACH("hash free: the bin grew");
		REACH("hash free: parked");
	} else {
		/* ref == 0 (an object that sits in the bin: user double free - documented, not exercised), no context, cache full, or failed growth */
		__CPROVER_assert(g_live == live0 - 1, "hash free: no room / no context / failed growth => the object is released exactly once");
		__CPROVER_assert(BIN_SAME(arr0, cap, len) && bin_elems_same(len), "hash free: a failed growth leaves the bin exactly as before (not corrupted)");
		if (!BIN_SAME(arr0, cap, len)) return;
		b_impl_obj.arr = arr0; b_impl_obj.arr_size = cap; b_impl_obj.arr_len = len;
		if (g_alloc_failed > 0) REACH("hash free: growth of the bin failed");
		if (with_ctx && len >= cache) REACH("hash free: cache full");
	}
	/* the context stays usable: a construction afterwards */
	g_alloc_failed = 0; live0 = g_live; dg[0] = 1;
	res = KSI_DataHash_fromDigest(ctx, KSI_HASHALG_SHA2_256, dg + 1, 32, &h2);
	__CPROVER_assert(IFF(res == KSI_OK, g_alloc_failed == 0), "hash new afterwards: succeeds exactly when no allocation fails");
	if (res == KSI_OK) {
		__CPROVER_assert(h2 != NULL && h2->ref == 1 && h2->imprint_length == 33 && h2->imprint[0] == KSI_HASHALG_SHA2_256, "hash new afterwards: fault-free result");
		__CPROVER_assert(IFF(with_ctx && len1 > 0, g_live == live0) && IMPLIES(with_ctx && len1 > 0, h2 == b_parked[len1 > 0 ? len1 - 1 : 0]), "hash new afterwards: served from the bin exactly when it is not empty");
		KSI_free(h2);
		REACH("hash new afterwards ok");
	} else {
		__CPROVER_assert(h2 == NULL && g_live == live0, "hash new afterwards failed: nothing survives");
	}
	__CPROVER_assert(bin_teardown_direct(), "parked objects have reference count 0");
	__CPROVER_assert(g_live == 0, "afterwards the bin and every hash object are released exactly once");
}
void harness(void) {
	unsigned k = nondet_uint();
#ifdef K_ONLY
	k = K_ONLY;
#endif
	g_live = 0;
	/* (context, capacity, parked, references): empty list without array (first parking allocates it); partly filled;
	 * full (parking must grow the array); second reference; no context */
	if (k == 0) t_free(1, 0, 0, 1);
	else if (k == 1) t_free(1, BIN_CAP, 1, 1);
	else if (k == 2) t_free(1, BIN_CAP, BIN_CAP, 1);
	else if (k == 3) t_free(1, BIN_CAP, 1, 2);
	else t_free(0, BIN_CAP, 1, 1);
}
#endif

#ifdef H_hasher_cycle
static void hcycle(int with_ctx, size_t cap, size_t len) {
	KSI_DataHasher *hsr = NULL, *hsr0; KSI_DataHash *h = NULL; KSI_CTX *ctx; int alg = nondet_int(); int res; long live0; unsigned char data[4];
	size_t len1;
	g_live = 0; g_evp_live = 0; g_evp_failed = 0; g_evp_final = 0; g_evp_init_may_fail = 1;
	__CPROVER_assume(alg == KSI_HASHALG_SHA2_256 || alg == 3);      /* stated bound: one supported algorithm, one unsupported id */
	if (!bin_build(cap, len)) return;
	ctx = with_ctx ? &g_ctx : NULL;
	hsr0 = hsr = nondet_bool() ? NULL : (KSI_DataHasher *)data;
	g_alloc_failed = 0; live0 = g_live;

	res = KSI_DataHasher_open(ctx, alg, &hsr);
	REACH("hasher open returns");
	__CPROVER_assert(IMPLIES(g_alloc_failed + g_evp_failed > 0, res != KSI_OK), "hasher open: a failed allocation is reported");
	__CPROVER_assert(IMPLIES(res == KSI_OUT_OF_MEMORY, g_alloc_failed + g_evp_failed > 0), "hasher open: out-of-memory only with a failed allocation");
	__CPROVER_assert(IMPLIES(res == KSI_UNAVAILABLE_HASH_ALGORITHM, !KSI_isHashAlgorithmSupported(alg) && g_alloc_failed + g_evp_failed == 0), "hasher open: unsupported algorithm refused before anything is allocated");
	if (res != KSI_OK) {
		__CPROVER_assert(hsr == hsr0 && g_live == live0 && g_evp_live == 0, "hasher open failed: receiver untouched, neither the hasher nor its digest context survives");
		if (g_evp_failed) REACH("hasher open: digest context allocation failed");
		if (g_alloc_failed) REACH("hasher open: hasher allocation failed");
		__CPROVER_assert(bin_teardown_direct() && g_live == 0, "hasher open failed: context can be released");
		return;
	}
	__CPROVER_assert(hsr != NULL && hsr->isOpen && hsr->ctx == ctx && hsr->algorithm == alg && hsr->hashContext != NULL && g_live == live0 + 1 && g_evp_live == 1,
			"hasher open ok: one hasher block + one digest context, open");
	g_evp_init_may_fail = 0;

	res = KSI_DataHasher_add(hsr, data, nondet_size());
	__CPROVER_assert(res == KSI_OK, "hasher add: no allocation, cannot fail");

	/* close: the result object comes from the bin or from the funnel */
	g_alloc_failed = 0; live0 = g_live;
	res = KSI_DataHasher_close(hsr, &h);
	REACH("hasher close returns");
	__CPROVER_assert(IFF(res != KSI_OK, g_alloc_failed > 0) && IMPLIES(res != KSI_OK, res == KSI_OUT_OF_MEMORY), "hasher close: fails exactly when the result object cannot be allocated");
	if (res != KSI_OK) {
		__CPROVER_assert(h == NULL && g_live == live0 && hsr->isOpen && g_evp_final == 0, "hasher close failed: receiver untouched, nothing survives, hasher still open (the digest is not consumed)");
		__CPROVER_assert(b_impl_obj.arr_len == len && bin_elems_same(len), "hasher close failed: bin unchanged");
		REACH("hasher close: allocation failed");
		len1 = len;
	} else {
		__CPROVER_assert(h != NULL && h->ref == 1 && h->ctx == ctx && h->imprint_length == KSI_getHashLength(alg) + 1 && h->imprint[0] == (unsigned char)alg && !hsr->isOpen,
				"hasher close ok: one reference, imprint length of the algorithm, hasher closed");
		__CPROVER_assert(IFF(with_ctx && len > 0, g_live == live0) && IMPLIES(with_ctx && len > 0, h == b_parked[len > 0 ? len - 1 : 0]), "hasher close ok: result served from the bin exactly when it is not empty");
		len1 = (with_ctx && len > 0) ? len - 1 : len;
		__CPROVER_assert(b_impl_obj.arr_len == len1 && bin_elems_same(len1), "hasher close ok: the bin lost exactly the object handed out");
		PIN(b_impl_obj.arr_len, len1);
		res = KSI_DataHasher_close(hsr, NULL);
		__CPROVER_assert(res == KSI_INVALID_STATE, "hasher close twice: refused");
		/* reset re-opens with the SAME digest context (no allocation) */
		live0 = g_live;
		res = KSI_DataHasher_reset(hsr);
		__CPROVER_assert(res == KSI_OK && hsr->isOpen && g_live == live0 && g_evp_live == 1, "hasher reset: re-opened, digest context reused, nothing allocated");
		KSI_free(h);      /* last reference of the first result (KSI_DataHash_free: C19.oom3_hash_free) */
	}
	KSI_DataHasher_free(hsr);
	__CPROVER_assert(g_evp_live == 0, "hasher free: the digest context is released exactly once");
	__CPROVER_assert(bin_teardown_direct(), "parked objects have reference count 0");
	__CPROVER_assert(g_live == 0, "afterwards hasher, results and bin are all released exactly once");
}
void harness(void) {
	unsigned k = nondet_uint();
	if (k == 0) hcycle(1, 0, 0);
	else if (k == 1) hcycle(1, BIN_CAP, 1);
	else hcycle(0, BIN_CAP, 1);
}
#endif
