/* C19 (round 3, builderW): hash.c / hash_openssl.c under allocation failure, with the context's recycle bin
 * (ctx->dataHashRecycle) being the REAL list.c.  Plain mode, --malloc-may-fail --malloc-fail-null: every funnel
 * allocation may fail, in every combination.  Live funnel blocks are counted in g_live (env/c19_oom2_alloc_env.h).
 *
 *   H_hash_cycle    KSI_DataHash_fromDigest / fromImprint -> clone -> free -> free (parks the object or releases it)
 *                   -> a second fromDigest (served from the bin) -> tear-down of the bin.
 *   H_hasher_cycle  KSI_DataHasher_open -> add -> close -> reset -> close(NULL receiver) -> free, with the provider of
 *                   hash_openssl.c and an OpenSSL environment whose EVP_MD_CTX_new may fail.
 *
 * The bin is a list in one of the states (capacity, parked) given per call as CONSTANTS (concrete array sizes), the
 * cache-size option is symbolic.  Statement checked (property C19): a failed allocation => error code (or a correct
 * completion where the allocation was inessential: parking a released hash object), receiver untouched, no block leaked,
 * the bin exactly as before (same array, same length, same elements - "a failed growth must not corrupt it"), and
 * afterwards everything can be released exactly once (CBMC double-free / deallocated checks, g_live balance). */
#include "env/common.h"
#include "env/c19_oom2_alloc_env.h"
#include <string.h>
#include "hash.h"
#include "impl/hash_impl.h"
#include "impl/ctx_impl.h"
#include "list.c"

#ifndef BIN_CAP
#define BIN_CAP 2
#endif

/* ---- OpenSSL environment [ASSUMED]: method objects exist for the built-in digests; a digest context is one heap
 * block (not a funnel block: counted in g_evp_live), EVP_MD_CTX_new may fail; digest length as documented. ---- */
#include <openssl/evp.h>
static const char env_evp_md[5];
const EVP_MD *EVP_sha1(void) { return (const EVP_MD *)&env_evp_md[0]; }
const EVP_MD *EVP_ripemd160(void) { return (const EVP_MD *)&env_evp_md[1]; }
const EVP_MD *EVP_sha256(void) { return (const EVP_MD *)&env_evp_md[2]; }
const EVP_MD *EVP_sha384(void) { return (const EVP_MD *)&env_evp_md[3]; }
const EVP_MD *EVP_sha512(void) { return (const EVP_MD *)&env_evp_md[4]; }
struct env_mdctx { const EVP_MD *md; int inited; };
long g_evp_live; unsigned g_evp_failed; unsigned g_evp_final;
EVP_MD_CTX *EVP_MD_CTX_new(void) { struct env_mdctx *c = malloc(sizeof(struct env_mdctx)); if (c != NULL) { c->md = NULL; c->inited = 0; g_evp_live++; } else g_evp_failed++; return (EVP_MD_CTX *)c; }
void EVP_MD_CTX_free(EVP_MD_CTX *c) { if (c != NULL) { g_evp_live--; free(c); } }
int EVP_MD_CTX_reset(EVP_MD_CTX *c) { if (c != NULL) { ((struct env_mdctx *)c)->inited = 0; } return 1; }
_Bool g_evp_init_may_fail;
int EVP_DigestInit_ex(EVP_MD_CTX *c, const EVP_MD *md, ENGINE *e) {
	__CPROVER_assert(c != NULL && md != NULL, "EVP_DigestInit_ex: live context and method");
	if (g_evp_init_may_fail && nondet_bool()) return 0;
	((struct env_mdctx *)c)->md = md; ((struct env_mdctx *)c)->inited = 1; return 1;
}
int EVP_DigestUpdate(EVP_MD_CTX *c, const void *d, size_t n) { __CPROVER_assert(c != NULL && ((struct env_mdctx *)c)->inited, "EVP_DigestUpdate: initialised context"); return 1; }
int EVP_DigestFinal_ex(EVP_MD_CTX *c, unsigned char *md, unsigned int *s) {
	const EVP_MD *m;
	__CPROVER_assert(c != NULL && ((struct env_mdctx *)c)->inited, "EVP_DigestFinal_ex: initialised context");
	m = ((struct env_mdctx *)c)->md;
	*s = m == (const EVP_MD *)&env_evp_md[0] || m == (const EVP_MD *)&env_evp_md[1] ? 20 : m == (const EVP_MD *)&env_evp_md[2] ? 32 : m == (const EVP_MD *)&env_evp_md[3] ? 48 : 64;
	md[0] = nondet_uchar(); md[*s - 1] = nondet_uchar();
	g_evp_final++;
	return 1;
}

#include "hash.c"
#ifdef H_hasher_cycle
#include "hash_openssl.c"
#endif

/* ---- the context and its recycle bin (real list.c; list + impl objects are statics so that their fields stay concrete
 * for the symbolic execution, the element array is a funnel block of exactly `cap` slots as appendElement leaves it) ---- */
static struct KSI_CTX_st g_ctx;
static KSI_LIST(KSI_DataHash) b_lst_obj; static struct listImpl_st b_impl_obj;   /* the TYPED list struct: hash.c reads its members without a cast */
static KSI_DataHash *b_parked[BIN_CAP + 1];
static int bin_build(size_t cap, size_t len) {
	size_t i;
	b_impl_obj.arr = NULL; b_impl_obj.arr_size = cap; b_impl_obj.arr_len = len;
	if (cap != 0) { b_impl_obj.arr = KSI_calloc(cap, sizeof(struct listEl_st)); if (b_impl_obj.arr == NULL) return 0; }
	for (i = 0; i < len; i++) {        /* parked objects: reference count 0, stale contents */
		KSI_DataHash *p = KSI_malloc(sizeof(KSI_DataHash));
		if (p == NULL) return 0;
		p->ref = 0; p->ctx = &g_ctx; p->imprint_length = nondet_size(); p->imprint[0] = nondet_uchar();
		b_impl_obj.arr[i].ptr = p; b_parked[i] = p;
	}
	b_lst_obj.pImpl = &b_impl_obj;
	memset(&b_lst_obj, 0, sizeof(b_lst_obj));
	b_lst_obj.obj_free = KSI_DataHash_free;
	b_lst_obj.append = (int (*)(KSI_LIST(KSI_DataHash) *, KSI_DataHash *))appendElement;
	b_lst_obj.length = (size_t (*)(KSI_LIST(KSI_DataHash) *))length;
	b_lst_obj.removeElement = (int (*)(KSI_LIST(KSI_DataHash) *, size_t, KSI_DataHash **))removeElement;
	g_ctx.dataHashRecycle = &b_lst_obj;
	g_ctx.options[KSI_OPT_DATAHASH_CACHE_SIZE] = nondet_size();
	return 1;
}
#define BIN_SAME(arr0, cap, len) (b_impl_obj.arr == (arr0) && b_impl_obj.arr_size == (cap) && b_impl_obj.arr_len == (len))
static int bin_elems_same(size_t len) { size_t i; for (i = 0; i < len; i++) if (b_impl_obj.arr[i].ptr != b_parked[i]) return 0; return 1; }
/* what KSI_List_free does with the array part (the list / impl blocks are statics here; KSI_List_free itself: C19.list_new_free) */
static void bin_teardown(void) {
	size_t i;
	for (i = 0; i < b_impl_obj.arr_len; i++) b_lst_obj.obj_free(b_impl_obj.arr[i].ptr);
	KSI_free(b_impl_obj.arr); b_impl_obj.arr = NULL; b_impl_obj.arr_len = 0; b_impl_obj.arr_size = 0;
}

/* placed AFTER the assertion that states lv == v: stop the path if the assertion has just failed, otherwise re-assign the
 * value just compared equal (a no-op that makes the field a constant for the symbolic execution again) */
#define PIN(lv, v) do { if ((lv) != (v)) return; (lv) = (v); } while (0)

#ifdef H_hash_cycle
static void cycle(int with_ctx, size_t cap, size_t len) {
	unsigned char dg[65]; KSI_DataHash *h = NULL, *h0, *c = NULL, *h2 = NULL; KSI_CTX *ctx; struct listEl_st *arr0; long live0; int res, alg; size_t dl, len1, cap1;
	unsigned f0; size_t cache; _Bool viaImprint = nondet_bool();
	if (!bin_build(cap, len)) return;
	ctx = with_ctx ? &g_ctx : NULL; arr0 = b_impl_obj.arr; cache = (size_t)g_ctx.options[KSI_OPT_DATAHASH_CACHE_SIZE];
	alg = nondet_int(); dl = nondet_size();
	__CPROVER_assume(alg == KSI_HASHALG_SHA2_256 || alg == 3 || alg == KSI_NUMBER_OF_KNOWN_HASHALGS);   /* stated bound: one valid id, the withdrawn id, an unknown id */
	__CPROVER_assume(dl == 32 || dl == 31 || dl == 0);                                             /* stated bound: right length, one short, empty */
	h0 = h = nondet_bool() ? NULL : (KSI_DataHash *)&dg;     /* receiver content before the call (never dereferenced) */
	dg[0] = (unsigned char)alg;
	g_alloc_failed = 0; live0 = g_live;

	/* 1. construction */
	if (viaImprint) res = KSI_DataHash_fromImprint(ctx, dg, dl + 1, &h);
	else res = KSI_DataHash_fromDigest(ctx, alg, dg + 1, dl, &h);
	REACH("fromDigest / fromImprint returns");
	__CPROVER_assert(IMPLIES(res == KSI_OUT_OF_MEMORY, g_alloc_failed > 0), "hash new: out-of-memory only with a failed allocation");
	__CPROVER_assert(IMPLIES(g_alloc_failed > 0, res != KSI_OK), "hash new: a failed allocation is reported");
	if (res != KSI_OK) {
		__CPROVER_assert(h == h0 && g_live == live0, "hash new failed: receiver untouched, no block survives");
		__CPROVER_assert(BIN_SAME(arr0, cap, len) && bin_elems_same(len), "hash new failed: the recycle bin is exactly as before");
		if (res == KSI_OUT_OF_MEMORY) REACH("hash new: allocation failed");
		bin_teardown();
		__CPROVER_assert(g_live == 0, "hash new failed: the bin can be released afterwards, every block exactly once");
		return;
	}
	__CPROVER_assert(h != NULL && h->ref == 1 && h->ctx == ctx && h->imprint_length == dl + 1 && h->imprint[0] == dg[0] && h->imprint[dl] == dg[dl],
			"hash new ok: one reference, context, imprint = algorithm octet + digest");
	if (with_ctx && len > 0) {
		__CPROVER_assert(h == b_parked[len - 1] && g_live == live0 && g_alloc_failed == 0, "hash new ok: served from the bin (last parked object), nothing allocated");
		__CPROVER_assert(BIN_SAME(arr0, cap, len - 1) && bin_elems_same(len - 1), "hash new ok: the bin lost exactly its last object");
		REACH("hash new: recycled object");
	} else {
		__CPROVER_assert(g_live == live0 + 1 && BIN_SAME(arr0, cap, len) && bin_elems_same(len), "hash new ok: one fresh block, bin untouched");
		REACH("hash new: fresh object");
	}
	len1 = (with_ctx && len > 0) ? len - 1 : len;
	PIN(b_impl_obj.arr_len, len1);

	/* 2. clone = one more reference; the first free only drops it */
	res = KSI_DataHash_clone(h, &c);
	__CPROVER_assert(res == KSI_OK && c == h && h->ref == 2, "hash clone: same object, one more reference (no allocation, cannot fail)");
	live0 = g_live;
	KSI_DataHash_free(c);
	__CPROVER_assert(h->ref == 1 && g_live == live0 && BIN_SAME(arr0, cap, len1), "hash free with a second reference: only the reference is dropped");

	/* 3. last reference: parked in the bin, or released - a failed growth of the bin must neither corrupt it nor leak */
	f0 = g_alloc_failed;
	KSI_DataHash_free(h);
	REACH("hash free (last reference) returns");
	if (with_ctx && len1 < cache && !(len1 == cap && g_alloc_failed > f0)) {
		cap1 = len1 == cap ? cap + 10 : cap;
		__CPROVER_assert(b_impl_obj.arr_len == len1 + 1 && b_impl_obj.arr_size == cap1 && b_impl_obj.arr != NULL && b_impl_obj.arr[len1].ptr == h && h->ref == 0,
				"hash free: room in the cache => the object is parked last in the bin with reference count 0");
		__CPROVER_assert(bin_elems_same(len1), "hash free: parking keeps every parked object in place");
		__CPROVER_assert(g_live == live0 + (len1 == cap && cap == 0 ? 1 : 0), "hash free: parking releases nothing but a replaced array");
		__CPROVER_assert(__CPROVER_OBJECT_SIZE(b_impl_obj.arr) == cap1 * sizeof(struct listEl_st), "hash free: the array really has the capacity the list believes in");
		b_parked[len1] = h; len1++;
		PIN(b_impl_obj.arr_len, len1); PIN(b_impl_obj.arr_size, cap1);
		if (cap1 != cap) REACH("hash free: the bin grew");
		REACH("hash free: parked");
	} else {
		__CPROVER_assert(g_live == live0 - 1, "hash free: no room / no context / failed growth => the object is released exactly once");
		__CPROVER_assert(BIN_SAME(arr0, cap, len1) && bin_elems_same(len1), "hash free: a failed growth leaves the bin exactly as before (not corrupted)");
		cap1 = cap;
		PIN(b_impl_obj.arr_len, len1); PIN(b_impl_obj.arr_size, cap1); PIN(b_impl_obj.arr, arr0);
		if (g_alloc_failed > f0) REACH("hash free: growth of the bin failed");
		if (with_ctx && len1 >= cache) REACH("hash free: cache full");
	}

	/* 4. the context stays usable: a second construction (repeating the operation) */
	g_alloc_failed = 0; live0 = g_live;
	res = KSI_DataHash_fromDigest(ctx, alg, dg + 1, dl, &h2);
	__CPROVER_assert(IFF(res == KSI_OK, g_alloc_failed == 0), "hash new again: succeeds exactly when no allocation fails");
	if (res == KSI_OK) {
		__CPROVER_assert(h2 != NULL && h2->ref == 1 && h2->imprint_length == dl + 1 && h2->imprint[0] == dg[0], "hash new again: same result as the first time");
		__CPROVER_assert(IFF(with_ctx && len1 > 0, g_live == live0) && IFF(with_ctx && len1 > 0, h2 == b_parked[len1 > 0 ? len1 - 1 : 0]), "hash new again: served from the bin exactly when it is not empty");
		KSI_DataHash_free(h2);
		REACH("hash new again ok");
	} else {
		__CPROVER_assert(h2 == NULL && g_live == live0, "hash new again failed: nothing survives");
	}
	bin_teardown();
	__CPROVER_assert(g_live == 0, "afterwards the bin and every hash object are released exactly once");
}
void harness(void) {
	unsigned k = nondet_uint();
#ifdef K_ONLY
	k = K_ONLY;
#endif
	g_live = 0;
	/* (capacity, parked): empty list without array; partly filled; full (next parking must grow the array) */
	if (k == 0) cycle(1, 0, 0);
	else if (k == 1) cycle(1, BIN_CAP, 0);
	else if (k == 2) cycle(1, BIN_CAP, 1);
	else if (k == 3) cycle(1, BIN_CAP, BIN_CAP);
	else if (k == 4) cycle(1, 1, 1);
	else cycle(0, BIN_CAP, 1);
}
#endif

#ifdef H_hasher_cycle
static void hcycle(int with_ctx, size_t cap, size_t len) {
	KSI_DataHasher *hsr = NULL, *hsr0; KSI_DataHash *h = NULL; KSI_CTX *ctx; int alg = nondet_int(); int res; long live0; unsigned char data[4];
	size_t len1;
	g_live = 0; g_evp_live = 0; g_evp_failed = 0; g_evp_final = 0; g_evp_init_may_fail = 1;
	if (!bin_build(cap, len)) return;
	ctx = with_ctx ? &g_ctx : NULL;
	hsr0 = hsr = nondet_bool() ? NULL : (KSI_DataHasher *)data;
	g_alloc_failed = 0; live0 = g_live;

	res = KSI_DataHasher_open(ctx, alg, &hsr);
	REACH("hasher open returns");
	__CPROVER_assert(IMPLIES(g_alloc_failed + g_evp_failed > 0, res != KSI_OK), "hasher open: a failed allocation is reported");
	__CPROVER_assert(IMPLIES(res == KSI_OUT_OF_MEMORY, g_alloc_failed + g_evp_failed > 0), "hasher open: out-of-memory only with a failed allocation");
	__CPROVER_assert(IMPLIES(res == KSI_UNAVAILABLE_HASH_ALGORITHM, !KSI_isHashAlgorithmSupported(alg) && g_alloc_failed + g_evp_failed == 0), "hasher open: unsupported algorithm refused before anything is allocated");
	if (res != KSI_OK) {
		__CPROVER_assert(hsr == hsr0 && g_live == live0 && g_evp_live == 0, "hasher open failed: receiver untouched, neither the hasher nor its digest context survives");
		if (g_evp_failed) REACH("hasher open: digest context allocation failed");
		if (g_alloc_failed) REACH("hasher open: hasher allocation failed");
		bin_teardown(); __CPROVER_assert(g_live == 0, "hasher open failed: context can be released");
		return;
	}
	__CPROVER_assert(hsr != NULL && hsr->isOpen && hsr->ctx == ctx && hsr->algorithm == alg && hsr->hashContext != NULL && g_live == live0 + 1 && g_evp_live == 1,
			"hasher open ok: one hasher block + one digest context, open");
	g_evp_init_may_fail = 0;

	res = KSI_DataHasher_add(hsr, data, nondet_size());
	__CPROVER_assert(res == KSI_OK, "hasher add: no allocation, cannot fail");

	/* close: the result object comes from the bin or from the funnel */
	g_alloc_failed = 0; live0 = g_live;
	res = KSI_DataHasher_close(hsr, &h);
	REACH("hasher close returns");
	__CPROVER_assert(IFF(res != KSI_OK, g_alloc_failed > 0) && IMPLIES(res != KSI_OK, res == KSI_OUT_OF_MEMORY), "hasher close: fails exactly when the result object cannot be allocated");
	if (res != KSI_OK) {
		__CPROVER_assert(h == NULL && g_live == live0 && hsr->isOpen && g_evp_final == 0, "hasher close failed: receiver untouched, nothing survives, hasher still open (the digest is not consumed)");
		__CPROVER_assert(b_impl_obj.arr_len == len && bin_elems_same(len), "hasher close failed: bin unchanged");
		REACH("hasher close: allocation failed");
		len1 = len;
	} else {
		__CPROVER_assert(h != NULL && h->ref == 1 && h->ctx == ctx && h->imprint_length == KSI_getHashLength(alg) + 1 && h->imprint[0] == (unsigned char)alg && !hsr->isOpen,
				"hasher close ok: one reference, imprint length of the algorithm, hasher closed");
		__CPROVER_assert(IFF(with_ctx && len > 0, g_live == live0) && IMPLIES(with_ctx && len > 0, h == b_parked[len > 0 ? len - 1 : 0]), "hasher close ok: result served from the bin exactly when it is not empty");
		len1 = (with_ctx && len > 0) ? len - 1 : len;
		PIN(b_impl_obj.arr_len, len1);
		res = KSI_DataHasher_close(hsr, NULL);
		__CPROVER_assert(res == KSI_INVALID_STATE, "hasher close twice: refused");
		/* reset re-opens with the SAME digest context (no allocation) */
		live0 = g_live;
		res = KSI_DataHasher_reset(hsr);
		__CPROVER_assert(res == KSI_OK && hsr->isOpen && g_live == live0 && g_evp_live == 1, "hasher reset: re-opened, digest context reused, nothing allocated");
		/* close without receiver: the result object must not leak (it is parked or released) */
		g_alloc_failed = 0;
		res = KSI_DataHasher_close(hsr, NULL);
		__CPROVER_assert(IMPLIES(res != KSI_OK, g_alloc_failed > 0), "hasher close (no receiver): fails only with a failed allocation");
		REACH("hasher close without receiver returns");
		KSI_DataHash_free(h);
	}
	KSI_DataHasher_free(hsr);
	__CPROVER_assert(g_evp_live == 0, "hasher free: the digest context is released exactly once");
	bin_teardown();
	__CPROVER_assert(g_live == 0, "afterwards hasher, results and bin are all released exactly once");
}
void harness(void) {
	unsigned k = nondet_uint();
	if (k == 0) hcycle(1, 0, 0);
	else if (k == 1) hcycle(1, BIN_CAP, 1);
	else if (k == 2) hcycle(1, BIN_CAP, BIN_CAP);
	else hcycle(0, BIN_CAP, 1);
}
#endif
