/* C19 (builderW_sig): signature.c under ALLOCATION FAILURE - plain mode, loop-free orchestration, REAL signature.c
 * (KSI_Signature_parseWithPolicy = KSI_Signature_parse, extractSignature, KSI_Signature_clone, KSI_Signature_serialize,
 * KSI_Signature_free, KSI_CalendarAuthRec_/KSI_AggregationAuthRec_/KSI_RFC3161_ new/free/ref), REAL signature_builder.c
 * (KSI_SignatureBuilder_open, KSI_SignatureBuilder_new, KSI_Signature_new, KSI_SignatureBuilder_free; _close is a stub) and
 * REAL verification.c (KSI_VerificationResult_init/reset).  Blocks through the counting funnels of env/c19_alloc_env.h,
 * every malloc may fail in every combination; callee stubs hand out counted blocks: env/c19_oom3_sig_env.h.
 *   H_sig_parse      KSI_Signature_parseWithPolicy      H_sig_clone   KSI_Signature_clone
 *   H_sig_serialize  KSI_Signature_serialize            H_sig_free    KSI_Signature_free (+ reference counting)
 *   H_sig_records    authentication / RFC3161 record constructors + destructors */
#include "env/common.h"
#include "env/c19_alloc_env.h"
#include <string.h>
#include "signature.h"
#include "signature_builder.h"
#include "tlv.h"
#include "tlv_template.h"
#include "publicationsfile.h"
#include "impl/signature_impl.h"
#include "impl/signature_builder_impl.h"
#include "impl/ctx_impl.h"
#include "env/c19_oom3_sig_env.h"
#include "verification.c"
/* the real KSI_SignatureBuilder_close (verification, template construction: other jobs) stays in the TU under another name */
#define KSI_SignatureBuilder_close real_KSI_SignatureBuilder_close
#include "signature_builder.c"
#undef KSI_SignatureBuilder_close
#include "signature.c"

int KSI_TlvTemplate_extract(KSI_CTX *ctx, void *payload, KSI_TLV *tlv, const KSI_TlvTemplate *tmpl) {
	KSI_Signature *s = payload;
	g_extract_calls++; g_extract_payload = s;
	g_extract_args_ok = (ctx == CTX && s != NULL && tlv == g_extract_from && tmpl == KSI_TLV_TEMPLATE(KSI_Signature) && s->baseTlv == NULL && s->ref == 1 && s->ctx == CTX &&
		s->calendarChain == NULL && s->aggregationChainList == NULL && s->rfc3161 == NULL && s->calendarAuthRec == NULL && s->aggregationAuthRec == NULL && s->publication == NULL && s->policyVerificationResult == NULL);
	if (!g_extract_args_ok) return KSI_INVALID_ARGUMENT;
	return fill_members(s);
}
int KSI_SignatureBuilder_close(KSI_SignatureBuilder *builder, KSI_uint64_t rootLevel, KSI_Signature **sig) {
	void *t;
	g_close_calls++;
	g_close_args_ok = (builder != NULL && builder->sig == g_extract_payload && rootLevel == 0 && builder->noVerify == 1 && builder->sig->baseTlv == g_cloned_tlv && g_cloned_tlv != NULL && g_extract_calls == 1 && g_clone_calls == 1);
	if (!g_close_args_ok) return KSI_INVALID_ARGUMENT;
	t = leaf_new(L_TMP);                                           /* sorting / checking may need memory */
	if (t == NULL) return KSI_OUT_OF_MEMORY;
	leaf_free(L_TMP, t);
	if (nondet_bool()) { g_env_rejected = 1; return KSI_INVALID_FORMAT; }
	g_closed_sig = builder->sig;
	*sig = builder->sig; builder->sig = NULL; return KSI_OK;        /* signature_builder.c:1140 */
}
int KSI_Signature_verifyWithPolicy(KSI_Signature *sig, const KSI_DataHash *hsh, KSI_uint64_t lvl, const KSI_Policy *policy, KSI_VerificationContext *context) {
	g_verify_calls++; g_verify_args_ok = (sig != NULL && sig == g_closed_sig && g_close_calls == 1 && hsh == NULL && lvl == 0 && policy == g_policy && context == g_vctx);
	if (!g_verify_args_ok) return g_verify_res = KSI_INVALID_ARGUMENT;
	if (nondet_bool()) {
		void *r = leaf_new(L_POLRES);
		if (r == NULL) return g_verify_res = KSI_OUT_OF_MEMORY;
		KSI_PolicyVerificationResult_free(sig->policyVerificationResult); sig->policyVerificationResult = r;
	}
	if (nondet_bool()) {
		void *h = leaf_new(L_HASH);
		if (h == NULL) return g_verify_res = KSI_OUT_OF_MEMORY;
		KSI_DataHash_free(sig->verificationResult.documentHash); sig->verificationResult.documentHash = h;
	}
	return g_verify_res = (nondet_bool() ? KSI_OK : KSI_VERIFICATION_FAILURE);
}
/* serializers: a fresh funnel buffer of one octet and an arbitrary length, OUT_OF_MEMORY after a failed allocation, or another error */
static unsigned g_tser_calls, g_oser_calls; static const KSI_TLV *g_tser_tlv; static unsigned char *g_ser_buf; static size_t g_ser_len; static _Bool g_oser_args_ok; static const void *g_oser_obj;
static int ser_common(unsigned char **buf, size_t *len) {
	void *t, *b;
	t = leaf_new(L_TMP); if (t == NULL) return KSI_OUT_OF_MEMORY;         /* a temporary of the serializer */
	b = leaf_new(L_SERBUF); leaf_free(L_TMP, t);
	if (b == NULL) return KSI_OUT_OF_MEMORY;
	if (nondet_bool()) { leaf_free(L_SERBUF, b); g_env_rejected = 1; return KSI_BUFFER_OVERFLOW; }
	g_ser_buf = b; g_ser_len = nondet_size(); *buf = b; *len = g_ser_len; return KSI_OK;
}
int KSI_TLV_serialize(const KSI_TLV *tlv, unsigned char **buf, size_t *len) { g_tser_calls++; g_tser_tlv = tlv; return ser_common(buf, len); }
int KSI_TlvTemplate_serializeObject(KSI_CTX *ctx, const void *obj, unsigned tag, int isNc, int isFwd, const KSI_TlvTemplate *tmpl, unsigned char **raw, size_t *raw_len) {
	g_oser_calls++; g_oser_args_ok = (obj == g_oser_obj && ctx == CTX && tag == 0x0800 && isNc == 0 && isFwd == 0 && tmpl == KSI_TLV_TEMPLATE(KSI_Signature));
	return ser_common(raw, raw_len);
}

/* a SOURCE signature that lives outside the heap: whatever releases one of its members trips CBMC's free() checks */
static void fill_src_sig(struct KSI_Signature_st *s, _Bool withTlv) {
	memset(s, 0, sizeof(*s));
	s->ctx = CTX; s->ref = nondet_size(); s->baseTlv = withTlv ? (KSI_TLV *)g_src_tlv_obj : NULL;
	s->calendarChain = nondet_ptr(); s->aggregationChainList = nondet_ptr(); s->rfc3161 = nondet_ptr(); s->calendarAuthRec = nondet_ptr(); s->aggregationAuthRec = nondet_ptr();
	s->publication = nondet_ptr(); s->policyVerificationResult = nondet_ptr();
}
static _Bool same_sig(const struct KSI_Signature_st *a, const struct KSI_Signature_st *b) {
	return a->ctx == b->ctx && a->ref == b->ref && a->baseTlv == b->baseTlv && a->calendarChain == b->calendarChain && a->aggregationChainList == b->aggregationChainList &&
		a->rfc3161 == b->rfc3161 && a->calendarAuthRec == b->calendarAuthRec && a->aggregationAuthRec == b->aggregationAuthRec && a->publication == b->publication &&
		a->policyVerificationResult == b->policyVerificationResult && a->replaceCalendarChain == b->replaceCalendarChain && a->appendAggregationChain == b->appendAggregationChain &&
		a->removeCalAuthAndPublication == b->removeCalAuthAndPublication && a->verificationResult.documentHash == b->verificationResult.documentHash &&
		a->verificationResult.publicationsFile == b->verificationResult.publicationsFile && a->verificationResult.aggregationHash == b->verificationResult.aggregationHash;
}
static char g_sentinel;
#define SENT ((KSI_Signature *)&g_sentinel)

#ifdef H_sig_parse
void harness(void) {
	static unsigned char rawbuf[4]; unsigned char b0, b3; struct KSI_VerificationContext_st vc; _Bool cNull = nondet_bool(), rNull = nondet_bool(), sNull = nondet_bool(), bad; int res; size_t raw_len = nondet_size(); long live0;
	KSI_Signature *sig = SENT;
	g_live = 5; live0 = g_live; g_alloc_failed = 0;
	rawbuf[0] = b0 = nondet_uchar(); rawbuf[3] = b3 = nondet_uchar();
	g_tag = nondet_uint(); g_raw = rawbuf; g_raw_len = raw_len; g_policy = (const KSI_Policy *)nondet_ptr(); g_vctx = nondet_bool() ? &vc : NULL;
	bad = cNull || rNull || sNull || raw_len == 0;
	res = KSI_Signature_parseWithPolicy(cNull ? NULL : CTX, rNull ? NULL : rawbuf, raw_len, g_policy, g_vctx, sNull ? NULL : &sig);
	REACH("parseWithPolicy returns");
	__CPROVER_assert(IFF(bad, res == KSI_INVALID_ARGUMENT) && IMPLIES(bad, g_parse_calls == 0 && g_live == live0), "parse: missing argument / empty input <=> KSI_INVALID_ARGUMENT, nothing parsed or allocated");
	__CPROVER_assert(IMPLIES(res == KSI_OUT_OF_MEMORY, g_alloc_failed > 0), "parse: KSI_OUT_OF_MEMORY only with a failed allocation");
	__CPROVER_assert(IMPLIES(!bad && g_alloc_failed == 0 && !g_env_rejected && g_tag == 0x800, g_verify_calls == 1 && res == g_verify_res), "parse: without a failed allocation / rejection the verification verdict is returned");
	__CPROVER_assert(IMPLIES(g_parse_calls > 0, g_parse_calls == 1 && g_parse_args_ok) && IMPLIES(g_verify_calls > 0, g_verify_calls == 1 && g_verify_args_ok && g_close_args_ok && g_extract_args_ok), "parse: one blob (raw, raw_len); verification once, on the signature extracted from it");
	__CPROVER_assert(IFF(res == KSI_OK, g_verify_calls == 1 && g_verify_res == KSI_OK), "parse: OK <=> parsed, extracted AND verified");
	__CPROVER_assert(rawbuf[0] == b0 && rawbuf[3] == b3, "parse: the input octets are not written");
	__CPROVER_assert(g_made[L_TLV_PARSED] == g_freed[L_TLV_PARSED] && g_made[L_TLV_PARSED] <= 1 && g_made[L_TMP] == g_freed[L_TMP], "parse: the parsed tree (a temporary) is released exactly once on every path");
	__CPROVER_assert(g_src_tlv_frees == 0, "parse: no foreign tree released");
	if (res != KSI_OK) {
		__CPROVER_assert(sig == SENT, "parse failed: receiver untouched");
		__CPROVER_assert(g_live == live0, "parse failed: no funnel block survives (builder, fresh signature, every member extracted so far, both trees)");
		__CPROVER_assert(leaves_balanced(), "parse failed: every object made by a callee was released exactly once");
		if (res == KSI_OUT_OF_MEMORY && g_members_set >= 2 && g_extract_calls == 1 && g_clone_calls == 0) REACH("parse: extraction ran out of memory with members already set");
		if (res == KSI_OUT_OF_MEMORY && g_clone_calls == 1 && g_made[L_TLV_CLONED] == 0) REACH("parse: cloning the tree ran out of memory");
		if (res == KSI_OUT_OF_MEMORY && g_close_calls == 1 && g_verify_calls == 0) REACH("parse: closing the builder ran out of memory");
		if (res == KSI_OUT_OF_MEMORY && g_verify_calls == 1) REACH("parse: verification ran out of memory");
		if (res == KSI_VERIFICATION_FAILURE && g_members_set == SIG_ALL_MEMBERS) REACH("parse: complete signature fails verification");
		if (res == KSI_OUT_OF_MEMORY && g_extract_calls == 0 && g_parse_calls == 1 && g_made[L_TLV_PARSED] == 1) REACH("parse: builder allocation failed");
		return;
	}
	__CPROVER_assert(sig != SENT && sig == g_closed_sig && sig->ref == 1 && sig->ctx == CTX && sig->baseTlv == g_cloned_tlv && g_made[L_TLV_CLONED] == 1 && g_freed[L_TLV_CLONED] == 0, "parse ok: the verified signature (one reference) is handed out and owns the clone of the parsed tree");
	__CPROVER_assert(g_live >= live0 + 2 + (long)g_members_set, "parse ok: signature + retained tree + one block or more per member are live");
	if (g_members_set == SIG_ALL_MEMBERS) REACH("parse ok: every offered member");
	if (g_members_set == 0) { __CPROVER_assert(g_live == live0 + 2 + (long)(g_made[L_POLRES] - g_freed[L_POLRES]) + (long)(g_made[L_HASH] - g_freed[L_HASH]), "parse ok without members: exactly signature + tree (+ verification results) are live - the builder and the parsed tree are gone"); REACH("parse ok: no members"); }
	KSI_Signature_free(sig);
	__CPROVER_assert(g_live == live0 && leaves_balanced(), "parse ok: releasing the signature returns every block, every callee object released exactly once");
}
#endif

#ifdef H_sig_clone
void harness(void) {
	struct KSI_Signature_st src, before; _Bool withTlv = nondet_bool(), sNull = nondet_bool(), cNull = nondet_bool(); int res; long live0;
	KSI_Signature *clone = SENT;
	g_live = 5; live0 = g_live; g_alloc_failed = 0;
	fill_src_sig(&src, withTlv); before = src; g_tag = nondet_uint(); g_extract_from = (KSI_TLV *)g_src_tlv_obj;
	res = KSI_Signature_clone(sNull ? NULL : &src, cNull ? NULL : &clone);
	REACH("clone returns");
	__CPROVER_assert(IFF(sNull || cNull || !withTlv, res == KSI_INVALID_ARGUMENT) && IMPLIES(sNull || cNull || !withTlv, g_live == live0 && g_extract_calls == 0), "clone: missing argument / no retained tree <=> KSI_INVALID_ARGUMENT, nothing allocated");
	__CPROVER_assert(IMPLIES(res == KSI_OUT_OF_MEMORY, g_alloc_failed > 0), "clone: KSI_OUT_OF_MEMORY only with a failed allocation");
	__CPROVER_assert(IMPLIES(!(sNull || cNull || !withTlv) && g_alloc_failed == 0 && !g_env_rejected && g_tag == 0x800, res == KSI_OK), "clone: without a failed allocation / rejection => OK");
	__CPROVER_assert(same_sig(&src, &before) && g_src_tlv_frees == 0 && g_verify_calls == 0, "clone: the source signature is not modified, its tree not released, nothing verified");
	__CPROVER_assert(g_made[L_TMP] == g_freed[L_TMP], "clone: temporaries released");
	if (res != KSI_OK) {
		__CPROVER_assert(clone == SENT, "clone failed: receiver untouched");
		__CPROVER_assert(g_live == live0 && leaves_balanced(), "clone failed: no funnel block survives, every callee object released exactly once");
		if (res == KSI_OUT_OF_MEMORY && g_members_set >= 2 && g_clone_calls == 0) REACH("clone: extraction ran out of memory with members already set");
		if (res == KSI_OUT_OF_MEMORY && g_clone_calls == 1 && g_made[L_TLV_CLONED] == 0) REACH("clone: cloning the tree ran out of memory");
		if (res == KSI_OUT_OF_MEMORY && g_close_calls == 1) REACH("clone: closing the builder ran out of memory");
		if (res == KSI_INVALID_FORMAT && g_tag != 0x800) REACH("clone: wrong root tag");
		return;
	}
	__CPROVER_assert(clone != SENT && clone != &src && clone == g_closed_sig && g_close_args_ok && g_extract_args_ok && clone->ref == 1 && clone->ctx == CTX && clone->baseTlv == g_cloned_tlv && g_made[L_TLV_CLONED] == 1 && g_freed[L_TLV_CLONED] == 0,
		"clone ok: a distinct object with one reference, extracted from the source's tree, owning a clone of it");
	__CPROVER_assert(g_live >= live0 + 2 + (long)g_members_set, "clone ok: signature + tree + members are live");
	if (g_members_set == 0) { __CPROVER_assert(g_live == live0 + 2, "clone ok without members: exactly signature + tree are live (builder gone)"); REACH("clone ok: no members"); }
	if (g_members_set == SIG_ALL_MEMBERS) REACH("clone ok: every offered member");
	KSI_Signature_free(clone);
	__CPROVER_assert(g_live == live0 && leaves_balanced() && same_sig(&src, &before) && g_src_tlv_frees == 0, "clone ok: releasing the clone returns every block exactly once and leaves the source alone");
}
#endif

#ifdef H_sig_serialize
void harness(void) {
	struct KSI_Signature_st sig, before; _Bool withTlv = nondet_bool(), sNull = nondet_bool(), rNull = nondet_bool(), lNull = nondet_bool(), bad; int res; long live0;
	unsigned char *raw = (unsigned char *)&g_sentinel; size_t raw_len = 77;
	g_live = 5; live0 = g_live; g_alloc_failed = 0;
	fill_src_sig(&sig, withTlv); before = sig; g_oser_obj = &sig; bad = sNull || rNull || lNull;
	res = KSI_Signature_serialize(sNull ? NULL : &sig, rNull ? NULL : &raw, lNull ? NULL : &raw_len);
	REACH("serialize returns");
	__CPROVER_assert(IFF(bad, res == KSI_INVALID_ARGUMENT) && IMPLIES(bad, g_tser_calls == 0 && g_oser_calls == 0), "serialize: missing argument <=> KSI_INVALID_ARGUMENT, nothing serialized");
	__CPROVER_assert(IMPLIES(res == KSI_OUT_OF_MEMORY, g_alloc_failed > 0) && IMPLIES(!bad && g_alloc_failed == 0 && !g_env_rejected, res == KSI_OK), "serialize: KSI_OUT_OF_MEMORY only with a failed allocation; no failure => OK");
	__CPROVER_assert(IMPLIES(!bad && withTlv, g_tser_calls == 1 && g_tser_tlv == (const KSI_TLV *)g_src_tlv_obj && g_oser_calls == 0) && IMPLIES(!bad && !withTlv, g_tser_calls == 0 && g_oser_calls == 1 && g_oser_args_ok), "serialize: retained tree if present, template serialization of the object otherwise; exactly one serializer call");
	__CPROVER_assert(same_sig(&sig, &before) && g_src_tlv_frees == 0, "serialize: the signature object is not modified");
	__CPROVER_assert(g_made[L_TMP] == g_freed[L_TMP], "serialize: temporaries released");
	if (res != KSI_OK) {
		__CPROVER_assert(raw == (unsigned char *)&g_sentinel && raw_len == 77, "serialize failed: outputs untouched");
		__CPROVER_assert(g_live == live0 && leaves_balanced(), "serialize failed: no funnel block survives");
		if (res == KSI_OUT_OF_MEMORY) REACH("serialize: out of memory");
		return;
	}
	__CPROVER_assert(raw == g_ser_buf && raw_len == g_ser_len && g_live == live0 + 1 && g_made[L_SERBUF] == 1 && g_freed[L_SERBUF] == 0, "serialize ok: exactly the serializer's buffer (still allocated, the only surviving block) and length are handed out");
	KSI_free(raw);
	__CPROVER_assert(g_live == live0, "serialize ok: the caller's KSI_free returns the last block");
	if (withTlv) REACH("serialized from the retained tree"); else REACH("serialized from fields");
}
#endif

#ifdef H_sig_free
/* a heap signature with every member present or absent, 1 or 2 references */
void harness(void) {
	KSI_Signature *s; long live0, live1; size_t refs = nondet_bool() ? 1 : 2; unsigned members;
	g_live = 5; live0 = g_live; g_alloc_failed = 0;
	KSI_Signature_free(NULL);
	__CPROVER_assert(g_live == live0, "free(NULL) is a no-op");
	s = KSI_malloc(sizeof(*s));
	if (s == NULL) return;
	memset(s, 0, sizeof(*s)); s->ctx = CTX; s->ref = refs;
	g_cloned_tlv = leaf_new(L_TLV_CLONED); s->baseTlv = g_cloned_tlv;
	if (fill_members(s) != KSI_OK) { }                                  /* any subset, also a partially filled object */
	s->policyVerificationResult = leaf_new(L_POLRES);
	s->verificationResult.ctx = CTX; s->verificationResult.documentHash = leaf_new(L_HASH); s->verificationResult.aggregationHash = leaf_new(L_HASH); s->verificationResult.publicationsFile = leaf_new(L_PUBFILE);
	/* a record shared with somebody else survives with one reference less */
	_Bool shared = s->calendarAuthRec != NULL && nondet_bool(); KSI_CalendarAuthRec *car = s->calendarAuthRec; if (shared) car->ref = 2;
	live1 = g_live; members = g_members_set;
	KSI_Signature_free(s);
	REACH("free returns");
	if (refs == 2) {
		__CPROVER_assert(g_live == live1 && s->ref == 1 && s->baseTlv == g_cloned_tlv && g_freed[L_TLV_CLONED] == 0 && g_freed[L_HASH] == 0 && g_freed[L_POLRES] == 0 && g_freed[L_CAL] == 0 && g_freed[L_PKISD] == 0, "free with a second reference only drops the reference: nothing released");
		KSI_Signature_free(s);
		REACH("second free");
	}
	if (shared) {
		__CPROVER_assert(car->ref == 1 && g_live == live0 + 1 + (car->pubData != NULL) + (car->signatureData != NULL), "free: a shared authentication record survives with one reference less, everything else is released");
		KSI_CalendarAuthRec_free(car);
		REACH("shared record survives");
	}
	__CPROVER_assert(g_live == live0, "free: the signature and everything it owns is released (block balance)");
	__CPROVER_assert(leaves_balanced(), "free: each owned member is released exactly once");
	if (members == 6 && SIG_ALL_MEMBERS == 6 && g_alloc_failed == 0) { __CPROVER_assert(live1 == live0 + 1 + 1 + 2 + 10 + 3 + 5 + 1 + 1 + 3, "full signature: 27 blocks"); REACH("full signature released"); }
}
#endif

#ifdef H_sig_records
#ifndef REC_WHICH
#define REC_WHICH 0
#endif
void harness(void) {
	long live0; int res; _Bool haveOut = nondet_bool(); KSI_CTX *ctx = nondet_bool() ? CTX : NULL;
	g_live = 5; live0 = g_live; g_alloc_failed = 0;
#if REC_WHICH == 0
	{ KSI_CalendarAuthRec *r = (void *)&g_sentinel, *r2 = NULL;
	  res = KSI_CalendarAuthRec_new(ctx, haveOut ? &r : NULL);
	  REACH("CalendarAuthRec_new returns");
	  __CPROVER_assert(IFF(res == KSI_INVALID_ARGUMENT, ctx == NULL || !haveOut) && (res == KSI_OK || res == KSI_INVALID_ARGUMENT || (res == KSI_OUT_OF_MEMORY && g_alloc_failed > 0)), "calendar auth record new: bad arguments refused, OUT_OF_MEMORY only with a failed allocation");
	  if (res != KSI_OK) { __CPROVER_assert((void *)r == (void *)&g_sentinel && g_live == live0, "calendar auth record new failed: receiver untouched, nothing survives"); if (res == KSI_OUT_OF_MEMORY) REACH("calendar auth record: out of memory"); return; }
	  __CPROVER_assert(r->ctx == ctx && r->ref == 1 && r->pubData == NULL && r->signatureData == NULL && g_live == live0 + 1, "calendar auth record new ok: one block, one reference, empty");
	  __CPROVER_assert(KSI_CalendarAuthRec_setPublishedData(r, leaf_new(L_PUBDATA)) == KSI_OK && KSI_CalendarAuthRec_setSignatureData(r, leaf_new(L_PKISD)) == KSI_OK, "setters take ownership");
	  r2 = KSI_CalendarAuthRec_ref(r);
	  KSI_CalendarAuthRec_free(r);
	  __CPROVER_assert(r2 == r && r->ref == 1 && g_freed[L_PUBDATA] == 0 && g_freed[L_PKISD] == 0, "calendar auth record: free with a second reference only drops it");
	  KSI_CalendarAuthRec_free(r2);
	  __CPROVER_assert(g_live == live0 && leaves_balanced(), "calendar auth record free: the record and both members released exactly once"); }
#elif REC_WHICH == 1
	{ KSI_AggregationAuthRec *r = (void *)&g_sentinel;
	  res = KSI_AggregationAuthRec_new(ctx, haveOut ? &r : NULL);
	  REACH("AggregationAuthRec_new returns");
	  __CPROVER_assert(IFF(res == KSI_INVALID_ARGUMENT, ctx == NULL || !haveOut) && (res == KSI_OK || res == KSI_INVALID_ARGUMENT || (res == KSI_OUT_OF_MEMORY && g_alloc_failed > 0)), "aggregation auth record new: bad arguments refused, OUT_OF_MEMORY only with a failed allocation");
	  if (res != KSI_OK) { __CPROVER_assert((void *)r == (void *)&g_sentinel, "aggregation auth record new failed: receiver untouched"); __CPROVER_assert(g_live == live0 && leaves_balanced(), "aggregation auth record new failed: nothing survives, nothing foreign released"); if (res == KSI_OUT_OF_MEMORY) REACH("aggregation auth record: out of memory"); return; }
	  __CPROVER_assert(r->ctx == ctx && r->ref == 1 && r->aggregationTime == NULL && r->inputHash == NULL && r->signatureData == NULL && r->chainIndexesList != NULL && g_live == live0 + 2 && g_made[L_INTLIST] == 1, "aggregation auth record new ok: record + empty index list, one reference");
	  __CPROVER_assert(KSI_AggregationAuthRec_setAggregationTime(r, leaf_new(L_INT)) == KSI_OK && KSI_AggregationAuthRec_setInputHash(r, leaf_new(L_HASH)) == KSI_OK && KSI_AggregationAuthRec_setSigData(r, leaf_new(L_PKISD)) == KSI_OK, "setters take ownership");
	  KSI_AggregationAuthRec_free(r);
	  __CPROVER_assert(g_live == live0 && leaves_balanced(), "aggregation auth record free: the record and its four members released exactly once"); }
#else
	{ KSI_RFC3161 *r = (void *)&g_sentinel;
	  res = KSI_RFC3161_new(ctx, haveOut ? &r : NULL);
	  REACH("RFC3161_new returns");
	  __CPROVER_assert(IFF(res == KSI_INVALID_ARGUMENT, ctx == NULL || !haveOut) && (res == KSI_OK || res == KSI_INVALID_ARGUMENT || (res == KSI_OUT_OF_MEMORY && g_alloc_failed > 0)), "rfc3161 record new: bad arguments refused, OUT_OF_MEMORY only with a failed allocation");
	  if (res != KSI_OK) { __CPROVER_assert((void *)r == (void *)&g_sentinel && g_live == live0, "rfc3161 record new failed: receiver untouched, nothing survives"); if (res == KSI_OUT_OF_MEMORY) REACH("rfc3161 record: out of memory"); return; }
	  __CPROVER_assert(r->ctx == ctx && r->ref == 1 && r->aggregationTime == NULL && r->chainIndex == NULL && r->inputHash == NULL && r->tstInfoPrefix == NULL && r->tstInfoSuffix == NULL && r->tstInfoAlgo == NULL && r->sigAttrPrefix == NULL && r->sigAttrSuffix == NULL && r->sigAttrAlgo == NULL && g_live == live0 + 1, "rfc3161 record new ok: one block, empty");
	  __CPROVER_assert(KSI_RFC3161_setAggregationTime(r, leaf_new(L_INT)) == KSI_OK && KSI_RFC3161_setChainIndex(r, leaf_new(L_INTLIST)) == KSI_OK && KSI_RFC3161_setInputHash(r, leaf_new(L_HASH)) == KSI_OK &&
		KSI_RFC3161_setTstInfoPrefix(r, leaf_new(L_OCT)) == KSI_OK && KSI_RFC3161_setTstInfoSuffix(r, leaf_new(L_OCT)) == KSI_OK && KSI_RFC3161_setTstInfoAlgo(r, leaf_new(L_INT)) == KSI_OK &&
		KSI_RFC3161_setSigAttrPrefix(r, leaf_new(L_OCT)) == KSI_OK && KSI_RFC3161_setSigAttrSuffix(r, leaf_new(L_OCT)) == KSI_OK && KSI_RFC3161_setSigAttrAlgo(r, leaf_new(L_INT)) == KSI_OK, "setters take ownership");
	  KSI_RFC3161_free(r);
	  __CPROVER_assert(g_live == live0 && leaves_balanced(), "rfc3161 record free: the record and its nine members released exactly once"); }
#endif
}
#endif
