/* C19: replacing an endpoint string (host / url / login id / HMAC key) under allocation failure.
 *   H_net       net.c            setStringParam()  - every synchronous client's setter (KSI_NetworkClient::setStringParam)
 *   H_tcp_async net_tcp_async.c  setService()      - async TCP client
 *   H_http_async net_http_curl_async.c setService() - async HTTP client
 * Real files included unmodified.  Plain mode; strings of at most STR_MAX characters (strlen / copy loops are unwound),
 * every allocation may fail in every combination.  Statement checked:
 *   after the call - successful or not - every string field is either the value it had before (still allocated) or a
 *   fresh private copy of the argument; nothing is leaked, and releasing the owner afterwards frees every block exactly
 *   once (a dangling field makes the free below fail CBMC's double-free / deallocated checks and the g_live count). */
#include "env/common.h"
#include "env/c19_alloc_env.h"
#include <string.h>
#ifndef STR_MAX
#define STR_MAX 3
#endif

static char *mk_str(size_t cap) {     /* heap string of length < cap, arbitrary content; counts as a live funnel block */
	char *p = malloc(cap);
	__CPROVER_assume(p != NULL);
	p[cap - 1] = '\0';
	g_live++;
	return p;
}
static int str_eq(const char *a, const char *b) { size_t i; for (i = 0; i <= STR_MAX; i++) { if (a[i] != b[i]) return 0; if (a[i] == '\0') return 1; } return 1; }
/* field f (old value f0, argument arg): unchanged, or a fresh copy */
#define FIELD_OK(f, f0, arg) ((f) == (f0) || ((f) != NULL && (f) != (arg) && str_eq((f), (arg))))

#ifdef H_net
#include "compatibility.c"
#include "net.h"
#include "impl/net_impl.h"
#include "impl/net_uri_impl.h"
int http_parser_parse_url(const char *buf, size_t buflen, int is_connect, struct http_parser_url *u);
#include "net.c"
void harness(void) {
	char *old = nondet_bool() ? mk_str(STR_MAX + 1) : NULL, *field = old; char arg[STR_MAX + 1]; long live0; int res;
	arg[STR_MAX] = '\0';
	g_alloc_failed = 0; live0 = g_live;
	res = setStringParam(&field, arg);
	REACH("setStringParam returns");
	__CPROVER_assert(res == KSI_OK || (res == KSI_OUT_OF_MEMORY && g_alloc_failed > 0), "set string: OK, or out-of-memory with a failed allocation");
	if (res == KSI_OK) {
		__CPROVER_assert(field != NULL && field != old && field != arg && str_eq(field, arg), "set string ok: the field is a fresh private copy of the argument");
		__CPROVER_assert(g_live == live0 + (old == NULL ? 1 : 0), "set string ok: the old value was released, one new block");
	} else {
		__CPROVER_assert(field == old && g_live == live0, "set string failed: the field keeps its old (still allocated) value, nothing leaked");
		REACH("set string: allocation failed");
	}
	KSI_free(field);                      /* what the owner's destructor does */
	__CPROVER_assert(g_live == live0 - (old == NULL ? 0 : 1), "set string: the owner can be released afterwards, every block exactly once");
}
#endif

#ifdef H_tcp_async
#include "compatibility.c"
#include "net_async.h"
#include "impl/net_async_impl.h"
#include "net_tcp_async.c"
void harness(void) {
	TcpAsyncCtx *t = malloc(sizeof(TcpAsyncCtx)); char host[STR_MAX + 1], user[STR_MAX + 1], pass[STR_MAX + 1];
	char *h0, *u0, *p0; long live0; int res; unsigned port = nondet_uint(), port0 = nondet_uint();
	__CPROVER_assume(t != NULL);
	host[STR_MAX] = user[STR_MAX] = pass[STR_MAX] = '\0';
	t->ctx = NULL; t->port = port0;
	t->host = h0 = nondet_bool() ? mk_str(STR_MAX + 1) : NULL;
	t->ksi_user = u0 = nondet_bool() ? mk_str(STR_MAX + 1) : NULL;
	t->ksi_pass = p0 = nondet_bool() ? mk_str(STR_MAX + 1) : NULL;
	g_alloc_failed = 0; live0 = g_live;
	res = setService(t, host, port, user, pass);
	REACH("setService returns");
	__CPROVER_assert(res == KSI_OK || (res == KSI_OUT_OF_MEMORY && g_alloc_failed > 0), "tcp setService: OK, or out-of-memory with a failed allocation");
	__CPROVER_assert(FIELD_OK(t->host, h0, host) && FIELD_OK(t->ksi_user, u0, user) && FIELD_OK(t->ksi_pass, p0, pass),
			"tcp setService: every endpoint string is its old value or a fresh copy of the argument (never a released block)");
	if (res == KSI_OK) {
		__CPROVER_assert(t->host != h0 && t->ksi_user != u0 && t->ksi_pass != p0 && t->port == port, "tcp setService ok: all three strings and the port replaced");
		REACH("tcp setService ok");
	} else {
		REACH("tcp setService: an allocation failed");
		if (h0 != NULL && u0 != NULL && p0 != NULL && g_alloc_failed == 1) REACH("tcp setService: one allocation failed with all three fields set");
	}
	__CPROVER_assert(g_live == live0 + (t->host != NULL && t->host != h0 && h0 == NULL) + (t->ksi_user != NULL && t->ksi_user != u0 && u0 == NULL) + (t->ksi_pass != NULL && t->ksi_pass != p0 && p0 == NULL),
			"tcp setService: nothing leaked (a replaced value is released, a kept one is not)");
	/* what TcpAsyncCtx_free does with the strings */
	KSI_free(t->host); KSI_free(t->ksi_user); KSI_free(t->ksi_pass);
	__CPROVER_assert(g_live == live0 - (h0 != NULL) - (u0 != NULL) - (p0 != NULL), "tcp setService: the client can be released afterwards, every block exactly once");
}
#endif

#ifdef H_http_async
#include "compatibility.c"
#include "net_async.h"
#include "impl/net_async_impl.h"
#include "net_http_curl_async.c"
void harness(void) {
	HttpAsyncCtx *t = malloc(sizeof(HttpAsyncCtx)); char url[STR_MAX + 1], user[STR_MAX + 1], pass[STR_MAX + 1];
	char *h0, *u0, *p0; long live0; int res;
	__CPROVER_assume(t != NULL);
	url[STR_MAX] = user[STR_MAX] = pass[STR_MAX] = '\0';
	t->ctx = NULL;
	t->url = h0 = nondet_bool() ? mk_str(STR_MAX + 1) : NULL;
	t->ksi_user = u0 = nondet_bool() ? mk_str(STR_MAX + 1) : NULL;
	t->ksi_pass = p0 = nondet_bool() ? mk_str(STR_MAX + 1) : NULL;
	g_alloc_failed = 0; live0 = g_live;
	res = setService(t, url, user, pass);
	REACH("setService returns");
	__CPROVER_assert(res == KSI_OK || (res == KSI_OUT_OF_MEMORY && g_alloc_failed > 0), "http setService: OK, or out-of-memory with a failed allocation");
	__CPROVER_assert(FIELD_OK(t->url, h0, url) && FIELD_OK(t->ksi_user, u0, user) && FIELD_OK(t->ksi_pass, p0, pass),
			"http setService: every endpoint string is its old value or a fresh copy of the argument (never a released block)");
	if (res == KSI_OK) {
		__CPROVER_assert(t->url != h0 && t->ksi_user != u0 && t->ksi_pass != p0, "http setService ok: all three strings replaced");
		REACH("http setService ok");
	} else {
		REACH("http setService: an allocation failed");
		if (h0 != NULL && u0 != NULL && p0 != NULL && g_alloc_failed == 1) REACH("http setService: one allocation failed with all three fields set");
	}
	__CPROVER_assert(g_live == live0 + (t->url != NULL && t->url != h0 && h0 == NULL) + (t->ksi_user != NULL && t->ksi_user != u0 && u0 == NULL) + (t->ksi_pass != NULL && t->ksi_pass != p0 && p0 == NULL),
			"http setService: nothing leaked (a replaced value is released, a kept one is not)");
	KSI_free(t->url); KSI_free(t->ksi_user); KSI_free(t->ksi_pass);
	__CPROVER_assert(g_live == live0 - (h0 != NULL) - (u0 != NULL) - (p0 != NULL), "http setService: the client can be released afterwards, every block exactly once");
}
#endif
