/* C19 (slice oom2_pol, item 4): context-level setters / registries of the REAL base.c under allocation failure.
 *   H_certcons    KSI_CTX_setDefaultPubFileCertConstraints (+ freeCertConstraintsArray, KSI_strdup)
 *   H_certemail   KSI_CTX_setPublicationCertEmail          (+ the above)
 *   H_regglobals  KSI_CTX_registerGlobals                  (+ globalCleanup, real list.c)
 *   H_regobj      registerGlobalObject (ctx->registerGlobalObject) (+ globalCleanup, real list.c)
 * Real files included unmodified: base.c, compatibility.c, list.c.  Plain mode (no dfcc); every allocation may fail,
 * in every combination (--malloc-may-fail --malloc-fail-null).  The real funnels KSI_malloc/KSI_calloc/KSI_free run;
 * the libc calls they make are counted (env/c19_oom2_base.h).  The real KSI_ERR_push / KSI_ERR_clearErrors run on a
 * one-slot error stack.
 * Bounds: strings <= STR_MAX characters (every content), constraint arrays <= 2 entries, registries <= 1 entry. */
#include "env/common.h"
#include "env/c19_oom2_base.h"
#include "net_http.h"
#include "net_uri.h"
#include "impl/ctx_impl.h"
#include "pkitruststore.h"
#include "policy.h"
#include "compatibility.c"
#include "list.c"
/* the libc calls of the real funnels are counted; active only while base.c is read */
#define malloc(n) oom2_acct_malloc(n)
#define calloc(a, b) oom2_acct_calloc((a), (b))
#define free(p) oom2_acct_free(p)
#include "base.c"
#undef malloc
#undef calloc
#undef free

#ifndef STR_MAX
#define STR_MAX 3
#endif

static KSI_ERR g_err_slot[1];
static struct KSI_CTX_st g_ctx;

static char *mk_str(size_t cap) {     /* heap string of length < cap, arbitrary content; counts as a live funnel block */
	char *p = malloc(cap);
	__CPROVER_assume(p != NULL);
	p[cap - 1] = '\0';
	g_live++;
	return p;
}
static int str_eq(const char *a, const char *b) { size_t i; for (i = 0; i <= STR_MAX; i++) { if (a[i] != b[i]) return 0; if (a[i] == '\0') return 1; } return 1; }

static KSI_CTX *mk_ctx(void) {
	memset(&g_ctx, 0, sizeof(g_ctx));
	g_ctx.errors = g_err_slot; g_ctx.errors_size = 1; g_ctx.errors_count = nondet_size();
	g_ctx.freeCertConstraintsArray = freeCertConstraintsArray;
	g_ctx.registerGlobalObject = registerGlobalObject;
	return &g_ctx;
}

/* old constraints of the context: none, or one {oid, val} pair + terminator (3 funnel blocks) */
static KSI_CertConstraint *g_old; static char *g_old_oid, *g_old_val; static long g_old_blocks;
static void mk_old_constraints(KSI_CTX *ctx) {
	g_old = NULL; g_old_oid = g_old_val = NULL; g_old_blocks = 0;
	if (nondet_bool()) {
		g_old = malloc(2 * sizeof(KSI_CertConstraint)); __CPROVER_assume(g_old != NULL); g_live++;
		g_old[0].oid = g_old_oid = mk_str(2); g_old[0].val = g_old_val = mk_str(2);
		g_old[1].oid = NULL; g_old[1].val = NULL;
		g_old_blocks = 3;
	}
	ctx->certConstraints = g_old;
}
#define OLD_CONSTRAINTS_INTACT(ctx) ((ctx)->certConstraints == g_old && (g_old == NULL || (g_old[0].oid == g_old_oid && g_old[0].val == g_old_val && g_old[1].oid == NULL)))

#ifdef H_certcons
static void run(size_t n) {
	KSI_CTX *ctx = mk_ctx(); KSI_CertConstraint arr[3]; char oid[2][STR_MAX + 1], val[2][STR_MAX + 1];
	size_t i; int haveCtx = nondet_bool(), haveArr = nondet_bool(), res; long live0; _Bool valMissing = 0;
	for (i = 0; i < 2; i++) {
		oid[i][STR_MAX] = val[i][STR_MAX] = '\0';
		arr[i].oid = i < n ? oid[i] : NULL;
		arr[i].val = (i < n && nondet_bool()) ? val[i] : NULL;
		if (i < n && arr[i].val == NULL) valMissing = 1;
	}
	arr[2].oid = NULL; arr[2].val = NULL;
	mk_old_constraints(ctx);
	g_alloc_failed = 0; live0 = g_live;

	res = KSI_CTX_setDefaultPubFileCertConstraints(haveCtx ? ctx : NULL, haveArr ? arr : NULL);

	REACH("setDefaultPubFileCertConstraints returns");
	__CPROVER_assert(res == KSI_OK || res == KSI_INVALID_ARGUMENT || (res == KSI_OUT_OF_MEMORY && g_alloc_failed > 0), "cert constraints: OK, invalid argument, or out-of-memory with a failed allocation");
	__CPROVER_assert(IMPLIES(res == KSI_INVALID_ARGUMENT, !haveCtx || !haveArr || valMissing), "cert constraints: KSI_INVALID_ARGUMENT only for a missing context / array / expected value");
	__CPROVER_assert(IMPLIES(haveCtx && haveArr && !valMissing && g_alloc_failed == 0, res == KSI_OK), "cert constraints: valid input and no failed allocation => success");
	__CPROVER_assert(IMPLIES(!haveCtx || !haveArr || valMissing, res != KSI_OK), "cert constraints: an array with a missing value is never installed");
	if (res != KSI_OK) {
		__CPROVER_assert(OLD_CONSTRAINTS_INTACT(ctx), "cert constraints failed: the context keeps its old (still allocated) constraints");
		__CPROVER_assert(g_live == live0, "cert constraints failed: no partial copy survives (nothing leaked, nothing released)");
		if (res == KSI_OUT_OF_MEMORY && g_alloc_failed == 1 && g_old != NULL) REACH("cert constraints: one allocation failed, old constraints present");
#if CERT_N == 2
		if (res == KSI_INVALID_ARGUMENT && arr[0].val != NULL && haveCtx && haveArr) REACH("cert constraints: second entry lacks its value (first already copied)");
		if (res == KSI_OUT_OF_MEMORY && g_alloc_failed == 1 && haveCtx && haveArr && arr[0].val != NULL && arr[1].val != NULL) REACH("cert constraints: one allocation failed while copying 2 entries");
#endif
	} else {
		KSI_CertConstraint *c = ctx->certConstraints;
		__CPROVER_assert(c != NULL && c != g_old && c != arr, "cert constraints ok: a fresh array is installed");
		for (i = 0; i < n; i++) {
			__CPROVER_assert(c[i].oid != NULL && c[i].oid != arr[i].oid && str_eq(c[i].oid, arr[i].oid), "cert constraints ok: every OID is a private copy");
			__CPROVER_assert(c[i].val != NULL && c[i].val != arr[i].val && str_eq(c[i].val, arr[i].val), "cert constraints ok: every expected value is a private copy");
		}
		__CPROVER_assert(c[n].oid == NULL && c[n].val == NULL, "cert constraints ok: the installed array is terminated");
		__CPROVER_assert(g_live == live0 - g_old_blocks + 1 + 2 * (long)n, "cert constraints ok: old constraints released, exactly 1 + 2n new blocks");
		if (g_old != NULL) REACH("cert constraints ok: the new array replaces old constraints");
		if (g_old == NULL) REACH("cert constraints ok: first constraints of the context");
	}
	/* what KSI_CTX_free does with the field */
	freeCertConstraintsArray(ctx->certConstraints);
	__CPROVER_assert(g_live == live0 - g_old_blocks, "cert constraints: the context can be released afterwards, every block exactly once");
}
/* the number of entries is a constant per call: the array the function allocates has a constant size on each path
 * (an array of symbolic size costs CBMC millions of variables).  Jobs ..certcons_n0 / _n1 / _n2: CERT_N = 0, 1, 2 entries. */
#ifndef CERT_N
#define CERT_N 1
#endif
void harness(void) { run(CERT_N); }
#endif

#ifdef H_certemail
void harness(void) {
	KSI_CTX *ctx = mk_ctx(); char email[STR_MAX + 1]; char *oldMail; int haveCtx = nondet_bool(), haveMail = nondet_bool(), res; long live0, oldMailBlocks;
	static const char oidEmail[] = KSI_CERT_EMAIL; _Bool consNew;
	email[STR_MAX] = '\0';
	mk_old_constraints(ctx);
	ctx->publicationCertEmail_DEPRECATED = oldMail = nondet_bool() ? mk_str(2) : NULL; oldMailBlocks = oldMail != NULL;
	g_alloc_failed = 0; live0 = g_live;

	res = KSI_CTX_setPublicationCertEmail(haveCtx ? ctx : NULL, haveMail ? email : NULL);

	REACH("setPublicationCertEmail returns");
	__CPROVER_assert(res == KSI_OK || res == KSI_INVALID_ARGUMENT || (res == KSI_OUT_OF_MEMORY && g_alloc_failed > 0), "cert email: OK, invalid argument, or out-of-memory with a failed allocation");
	__CPROVER_assert((res == KSI_INVALID_ARGUMENT) == (!haveCtx || !haveMail), "cert email: KSI_INVALID_ARGUMENT exactly for a missing context / address");
	__CPROVER_assert(IMPLIES(haveCtx && haveMail && g_alloc_failed == 0, res == KSI_OK), "cert email: no failed allocation => success");
	/* each of the two fields is either what it was (still allocated) or the complete new value */
	consNew = !OLD_CONSTRAINTS_INTACT(ctx);
	if (consNew) {
		KSI_CertConstraint *c = ctx->certConstraints;
		__CPROVER_assert(c != NULL && c != g_old && c[0].oid != NULL && c[0].oid != oidEmail && c[0].val != NULL && c[0].val != email && c[1].oid == NULL && c[1].val == NULL,
				"cert email: replaced constraints are a fresh, terminated one-entry array of private copies");
		__CPROVER_assert(str_eq(c[0].val, email), "cert email: the expected value is the address");
		__CPROVER_assert(c[0].oid[0] == '1' && c[0].oid[1] == '.' && c[0].oid[19] == '1' && c[0].oid[20] == '\0', "cert email: the OID is KSI_CERT_EMAIL");
	}
	if (ctx->publicationCertEmail_DEPRECATED != oldMail && ctx->publicationCertEmail_DEPRECATED != NULL)
		__CPROVER_assert(ctx->publicationCertEmail_DEPRECATED != email && str_eq(ctx->publicationCertEmail_DEPRECATED, email), "cert email: the compatibility field is a private copy of the address");
	if (res == KSI_OK) {
		__CPROVER_assert(consNew, "cert email ok: the constraints are replaced");
		__CPROVER_assert((ctx->publicationCertEmail_DEPRECATED == NULL) == (email[0] == '\0') && (ctx->publicationCertEmail_DEPRECATED != oldMail || oldMail == NULL), "cert email ok: the compatibility field is replaced (NULL for an empty address)");
		__CPROVER_assert(g_live == live0 - g_old_blocks - oldMailBlocks + 3 + (email[0] != '\0'), "cert email ok: old values released, exactly 3 (+1) new blocks");
		if (g_old != NULL && oldMail != NULL && email[0] != '\0') REACH("cert email ok: everything replaced");
	} else {
		__CPROVER_assert(ctx->publicationCertEmail_DEPRECATED == oldMail, "cert email failed: the compatibility field keeps its old (still allocated) value");
		__CPROVER_assert(g_live == live0 + (consNew ? 3 - g_old_blocks : 0), "cert email failed: nothing leaked (replaced constraints released, kept ones not)");
		if (res == KSI_OUT_OF_MEMORY && !consNew) REACH("cert email: an allocation failed, context unchanged");
		/* documents the half-done update: the call fails AFTER the constraints were replaced (see NOTES_oom2_pol.md) */
		if (res == KSI_OUT_OF_MEMORY && consNew) REACH("cert email: an allocation failed after the constraints were already replaced");
	}
	/* what KSI_CTX_free does with the two fields */
	KSI_free(ctx->publicationCertEmail_DEPRECATED);
	freeCertConstraintsArray(ctx->certConstraints);
	__CPROVER_assert(g_live == live0 - g_old_blocks - oldMailBlocks, "cert email: the context can be released afterwards, every block exactly once");
}
#endif

#if defined(H_regglobals) || defined(H_regobj)
/* two global services A (possibly registered before) and B (being registered); ghost balance of init vs. cleanup */
static int g_initA, g_cleanA, g_initB, g_cleanB; static _Bool g_initB_fails;
static int initA(void) { g_initA++; return KSI_OK; }
static void cleanupA(void) { g_cleanA++; }
static int initB(void) { if (g_initB_fails) return KSI_INVALID_STATE; g_initB++; return KSI_OK; }
static void cleanupB(void) { g_cleanB++; }
/* a global object B */
static int g_objB_live, g_objB_freed_other; static char g_objB_store;
static int objB_new(KSI_CTX *c, void **o) { if (g_initB_fails) return KSI_INVALID_STATE; g_objB_live++; *o = &g_objB_store; return KSI_OK; }
static void objB_free(void *o) { if (o == (void *)&g_objB_store) g_objB_live--; else g_objB_freed_other++; }

/* the context's two registries as KSI_CTX_new makes them; optionally service A registered (fault-free prefix:
 * paths on which the set-up itself runs out of memory are not of interest and end the harness) */
static int mk_registries(KSI_CTX *ctx, int withA) {
	if (KSI_List_new(NULL, &ctx->cleanupFnList) != KSI_OK) return 0;
	if (KSI_List_new(NULL, &ctx->globalObjList) != KSI_OK) return 0;
	g_initA = g_cleanA = g_initB = g_cleanB = 0; g_objB_live = 0; g_objB_freed_other = 0;
	if (withA && KSI_CTX_registerGlobals(ctx, initA, cleanupA) != KSI_OK) return 0;
	return 1;
}
/* what KSI_CTX_free does with the registries */
static void release_registries(KSI_CTX *ctx) {
	globalCleanup(ctx);
	KSI_List_free(ctx->cleanupFnList);
	KSI_List_free(ctx->globalObjList);
}
#endif

#ifdef H_regglobals
void harness(void) {
	KSI_CTX *ctx = mk_ctx(); int withA = nondet_bool(), again = nondet_bool(), haveCtx = nondet_bool(), haveInit = nondet_bool(), haveClean = nondet_bool(), res; long live0; size_t len0;
	g_live = 0;
	if (!mk_registries(ctx, withA)) return;
	g_initB_fails = nondet_bool();
	/* "again": B is registered already (fault-free) and is registered a second time */
	if (again) { _Bool f = g_initB_fails; g_initB_fails = 0; if (KSI_CTX_registerGlobals(ctx, initB, cleanupB) != KSI_OK) return; g_initB_fails = f; }
	len0 = KSI_List_length(ctx->cleanupFnList);
	__CPROVER_assert(len0 == (size_t)(withA + again) && KSI_List_length(ctx->globalObjList) == len0, "set-up: registries in step");
	g_alloc_failed = 0; live0 = g_live;

	res = KSI_CTX_registerGlobals(haveCtx ? ctx : NULL, haveInit ? initB : NULL, haveClean ? cleanupB : NULL);

	REACH("registerGlobals returns");
	__CPROVER_assert((res == KSI_INVALID_ARGUMENT) == (!haveCtx || !haveInit || !haveClean), "register globals: KSI_INVALID_ARGUMENT exactly for a missing argument");
	__CPROVER_assert(res == KSI_OK || res == KSI_INVALID_ARGUMENT || (res == KSI_INVALID_STATE && g_initB_fails && !again) || (res == KSI_OUT_OF_MEMORY && g_alloc_failed > 0), "register globals: OK or an error code with a cause");
	__CPROVER_assert(KSI_List_length(ctx->cleanupFnList) == KSI_List_length(ctx->globalObjList), "register globals: the two registries stay in step (one object slot per cleanup function)");
	if (res == KSI_OK) {
		__CPROVER_assert(g_initB == 1, "register globals ok: the service is initialised exactly once (not again when registered already)");
		__CPROVER_assert(KSI_List_length(ctx->cleanupFnList) == len0 + (again ? 0 : 1), "register globals ok: one new entry, none when registered already");
		if (again) REACH("register globals ok: registered already"); else if (withA) REACH("register globals ok: second service appended without allocation"); else REACH("register globals ok: first service");
	} else {
		__CPROVER_assert(KSI_List_length(ctx->cleanupFnList) == len0 && KSI_List_length(ctx->globalObjList) == len0, "register globals failed: both registries as before");
		/* (a list may keep a grown array: that is capacity, not a leak - leaks are decided by the release check below) */
		if (res == KSI_OUT_OF_MEMORY) REACH("register globals: an allocation failed");
		if (res == KSI_INVALID_STATE) REACH("register globals: the init function failed");
	}
	release_registries(ctx);
	__CPROVER_assert(g_initB == g_cleanB, "register globals: after the context is released every successful init has been undone by exactly one cleanup call");
	__CPROVER_assert(g_initA == g_cleanA, "register globals: services registered earlier are cleaned up exactly once as well");
	__CPROVER_assert(g_live == 0, "register globals: the registries can be released afterwards, every block exactly once");
}
#endif

#ifdef H_regobj
void harness(void) {
	KSI_CTX *ctx = mk_ctx(); int withA = nondet_bool(), again = nondet_bool(), res; long live0; size_t len0; static char sentinel; const void *obj = &sentinel;
	g_live = 0;
	if (!mk_registries(ctx, withA)) return;
	g_initB_fails = nondet_bool();
	if (again) { _Bool f = g_initB_fails; const void *o1 = NULL; g_initB_fails = 0; if (ctx->registerGlobalObject(ctx, objB_new, objB_free, &o1) != KSI_OK) return; g_initB_fails = f; }
	len0 = KSI_List_length(ctx->cleanupFnList);
	g_alloc_failed = 0; live0 = g_live;

	res = ctx->registerGlobalObject(ctx, objB_new, objB_free, &obj);

	REACH("registerGlobalObject returns");
	__CPROVER_assert(res == KSI_OK || (res == KSI_INVALID_STATE && g_initB_fails && !again) || (res == KSI_OUT_OF_MEMORY && g_alloc_failed > 0), "register object: OK or an error code with a cause");
	__CPROVER_assert(KSI_List_length(ctx->cleanupFnList) == KSI_List_length(ctx->globalObjList), "register object: the two registries stay in step (one object slot per destructor)");
	if (res == KSI_OK) {
		__CPROVER_assert(obj == (const void *)&g_objB_store && g_objB_live == 1, "register object ok: the one instance is handed out (not built again when registered already)");
		__CPROVER_assert(KSI_List_length(ctx->cleanupFnList) == len0 + (again ? 0 : 1), "register object ok: one new entry, none when registered already");
		if (again) REACH("register object ok: registered already"); else REACH("register object ok: new instance");
	} else {
		__CPROVER_assert(obj == (const void *)&sentinel, "register object failed: receiver untouched");
		__CPROVER_assert(KSI_List_length(ctx->cleanupFnList) == len0 && KSI_List_length(ctx->globalObjList) == len0, "register object failed: both registries as before");
		if (res == KSI_OUT_OF_MEMORY) REACH("register object: an allocation failed");
	}
	release_registries(ctx);
	__CPROVER_assert(g_objB_live == 0 && g_objB_freed_other == 0, "register object: after the context is released every instance built has been destroyed exactly once, by its own destructor");
	__CPROVER_assert(g_initA == g_cleanA, "register object: services registered earlier are cleaned up exactly once");
	__CPROVER_assert(g_live == 0, "register object: the registries can be released afterwards, every block exactly once");
}
#endif
