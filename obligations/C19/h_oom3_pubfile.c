/* C19 (builderW_sig): publicationsfile.c under ALLOCATION FAILURE - plain mode, bounded (file <= 8 + PARSE_BODY octets).
 * REAL KSI_PublicationsFile_parse, generateNextTlv, KSI_PublicationsFile_new/_free/_ref, KSI_PublicationRecordList_free,
 * KSI_FTLV_memRead (fast_tlv.c); blocks through the counting funnels of env/c19_alloc_env.h, every malloc may fail in
 * every combination.  The functional side (magic, record framing, signed range) is job C18.parse; here: failed
 * allocation => error, receiver and input untouched, every temporary (record buffer, record element, raw copy, store
 * object with the members extracted so far) released exactly once, nothing leaked.
 *   H_pubfile_parse   KSI_PublicationsFile_parse      H_pubfile_free   KSI_PublicationsFile_new / _ref / _free */
#include "env/common.h"
#include "env/c19_alloc_env.h"
#include <string.h>
#include "env/c19_oom3_pubfile_env.h"
#include "fast_tlv.c"
#include "publicationsfile.c"
#ifndef PARSE_BODY
#define PARSE_BODY 6
#endif
static struct KSI_CTX_st g_ctx_obj;
#define CTX (&g_ctx_obj)

/* template engine: pulls every record through the REAL generateNextTlv (which releases the previous record); turns a record
 * into the member its tag names (a counted leaf; the first of a kind wins, as lists would collect them), may run out of memory
 * doing so (the members set so far STAY in the object, as the real engine leaves them), may reject any record for schema
 * reasons; reports OK only if the mandatory signature record was seen (engine: C10.engine, table: C10.tables_pubfile) */
static unsigned g_engine_calls, g_records, g_sig_records; static _Bool g_engine_args_ok;
int KSI_TlvTemplate_extractGenerator(KSI_CTX *ctx, void *payload, void *generatorCtx, const KSI_TlvTemplate *tmpl, int (*generator)(void *, KSI_TLV **)) {
	KSI_PublicationsFile *pf = payload; KSI_TLV *tlv = NULL; int res; unsigned k;
	g_engine_calls++;
	g_engine_args_ok = (tmpl == KSI_PublicationsFile_template && generator == (int (*)(void *, KSI_TLV **))generateNextTlv && pf != NULL && pf->ctx == ctx && pf->ref == 1 && pf->raw == NULL &&
		pf->header == NULL && pf->certificates == NULL && pf->publications == NULL && pf->signature == NULL && pf->certConstraints == NULL);
	if (!g_engine_args_ok) return KSI_INVALID_ARGUMENT;
	for (k = 0; k <= PARSE_BODY / 2; k++) {
		res = generateNextTlv(generatorCtx, &tlv);
		if (res != KSI_OK) return res;
		if (tlv == NULL) break;
		g_records++;
		if (nondet_bool()) { g_env_rejected = 1; return KSI_INVALID_FORMAT; }
		if (tlv->tag == 0x0701 && pf->header == NULL) { if ((pf->header = leaf_new(P_HDR)) == NULL) return KSI_OUT_OF_MEMORY; }
		else if (tlv->tag == 0x0702 && pf->certificates == NULL) { if ((pf->certificates = leaf_new(P_CERTS)) == NULL) return KSI_OUT_OF_MEMORY; }
		else if (tlv->tag == 0x0703 && pf->publications == NULL) { if ((pf->publications = leaf_new(P_PUBS)) == NULL) return KSI_OUT_OF_MEMORY; }
		else if (tlv->tag == 0x0704) { g_sig_records++; if (pf->signature == NULL && (pf->signature = leaf_new(P_SIG)) == NULL) return KSI_OUT_OF_MEMORY; }
	}
	__CPROVER_assert(tlv == NULL, "bound: the body holds at most PARSE_BODY/2 records");
	if (g_sig_records == 0) { g_env_rejected = 1; return KSI_INVALID_FORMAT; }
	return KSI_OK;
}

#ifdef H_pubfile_parse
void harness(void) {
	static KSI_PublicationsFile sentinel; KSI_PublicationsFile *out = &sentinel;
	size_t n = nondet_size(), w = nondet_size(); unsigned char *raw, bw = 0; int res; long live0; _Bool cNull = nondet_bool(), rNull = nondet_bool(), oNull = nondet_bool(), bad, magic;
	__CPROVER_assume(n <= 8 + PARSE_BODY);                                  /* the stated bound */
	raw = malloc(n); __CPROVER_assume(raw != NULL);                          /* the caller's input: not a funnel block */
	if (w < n) bw = raw[w];
	g_live = 5; live0 = g_live; g_alloc_failed = 0; g_ctx_obj.freeCertConstraintsArray = nondet_bool() ? stub_free_constraints : NULL;
	bad = cNull || rNull || oNull || n == 0;
	magic = n >= 8 && raw[0] == 'K' && raw[1] == 'S' && raw[2] == 'I' && raw[3] == 'P' && raw[4] == 'U' && raw[5] == 'B' && raw[6] == 'L' && raw[7] == 'F';
	res = KSI_PublicationsFile_parse(cNull ? NULL : CTX, rNull ? NULL : raw, n, oNull ? NULL : &out);
	REACH("parse returns");
	__CPROVER_assert(IFF(bad, res == KSI_INVALID_ARGUMENT) && IMPLIES(bad || !magic, g_engine_calls == 0 && g_alloc_failed == 0 && g_live == live0), "pubfile parse: missing argument / empty input <=> KSI_INVALID_ARGUMENT; nothing allocated before the magic is checked");
	__CPROVER_assert(IMPLIES(res == KSI_OUT_OF_MEMORY, g_alloc_failed > 0), "pubfile parse: KSI_OUT_OF_MEMORY only with a failed allocation");
	__CPROVER_assert(IMPLIES(g_alloc_failed > 0, res != KSI_OK), "pubfile parse: a failed allocation => error");
	__CPROVER_assert(IMPLIES(g_engine_calls > 0, g_engine_calls == 1 && g_engine_args_ok), "pubfile parse: the engine runs once on a fresh, empty store object");
	__CPROVER_assert(IMPLIES(w < n, raw[w] == bw), "pubfile parse: the input octets are not written (witness index)");
	__CPROVER_assert(g_tlv_made == g_tlv_freed, "pubfile parse: every record element (and the buffer it owns) is released exactly once - also the one the generator still holds at the end");
	if (res != KSI_OK) {
		__CPROVER_assert(out == &sentinel, "pubfile parse failed: receiver untouched");
		__CPROVER_assert(g_live == live0, "pubfile parse failed: no funnel block survives (store object, members extracted so far, record buffer / element, raw copy)");
		__CPROVER_assert(leaves_balanced(), "pubfile parse failed: every member made by the engine was released exactly once");
		if (res == KSI_OUT_OF_MEMORY && g_engine_calls == 0 && magic && !bad) REACH("pubfile parse: store object allocation failed");
		if (res == KSI_OUT_OF_MEMORY && g_records >= 1 && g_made[P_HDR] + g_made[P_CERTS] + g_made[P_PUBS] + g_made[P_SIG] >= 1) REACH("pubfile parse: out of memory with members already set");
		if (res == KSI_OUT_OF_MEMORY && g_tlv_parse_calls > g_tlv_made) REACH("pubfile parse: record element allocation failed (buffer released by the generator)");
		if (res == KSI_OUT_OF_MEMORY && g_sig_records == 1 && g_made[P_SIG] == 1 && g_tlv_made == g_records && !g_env_rejected) REACH("pubfile parse: raw copy allocation failed after a complete extraction");
		return;
	}
	__CPROVER_assert(out != &sentinel && out != NULL && out->ref == 1 && out->ctx == CTX && out->raw != NULL && out->raw != raw && out->raw_len == n && out->certConstraints == NULL, "pubfile parse ok: fresh store object, one reference, private raw copy of the whole input");
	__CPROVER_assert(IMPLIES(w < n, out->raw[w] == bw), "pubfile parse ok: raw copy equals the input (witness index)");
	__CPROVER_assert(g_live == live0 + 2 + (long)(g_made[P_HDR] + g_made[P_CERTS] + g_made[P_PUBS] + g_made[P_SIG]) && g_freed[P_HDR] + g_freed[P_CERTS] + g_freed[P_PUBS] + g_freed[P_SIG] == 0 && out->signature != NULL,
		"pubfile parse ok: exactly store object + raw copy + one block per member are live (no record buffer / element survives)");
	REACH("pubfile parse ok");
	if (g_records >= 2 && out->header != NULL) REACH("pubfile parse ok: header + signature");
	KSI_PublicationsFile_free(out);
	__CPROVER_assert(g_live == live0 && leaves_balanced(), "pubfile parse ok: releasing the store object returns every block, each member exactly once");
	free(raw);
}
#endif

#ifdef H_pubfile_free
void harness(void) {
	static KSI_PublicationsFile sentinel; KSI_PublicationsFile *pf = &sentinel, *pf2; long live0, live1; int res; _Bool hook = nondet_bool(), two = nondet_bool();
	g_live = 5; live0 = g_live; g_alloc_failed = 0; g_ctx_obj.freeCertConstraintsArray = hook ? stub_free_constraints : NULL;
	KSI_PublicationsFile_free(NULL);
	__CPROVER_assert(g_live == live0, "pubfile free(NULL) is a no-op");
	res = KSI_PublicationsFile_new(CTX, &pf);
	REACH("new returns");
	__CPROVER_assert(res == KSI_OK || (res == KSI_OUT_OF_MEMORY && g_alloc_failed > 0), "pubfile new: OK, or KSI_OUT_OF_MEMORY with a failed allocation");
	if (res != KSI_OK) { __CPROVER_assert(pf == &sentinel && g_live == live0, "pubfile new failed: receiver untouched, nothing survives"); REACH("pubfile new: out of memory"); return; }
	__CPROVER_assert(pf != &sentinel && pf->ctx == CTX && pf->ref == 1 && pf->raw == NULL && pf->raw_len == 0 && pf->header == NULL && pf->certificates == NULL && pf->publications == NULL && pf->signature == NULL && pf->certConstraints == NULL && g_live == live0 + 1,
		"pubfile new ok: one block, one reference, every member empty");
	pf->header = leaf_new(P_HDR); pf->certificates = leaf_new(P_CERTS); pf->publications = leaf_new(P_PUBS); pf->signature = leaf_new(P_SIG); pf->raw = KSI_malloc(1);
	if (hook) pf->certConstraints = leaf_new(P_CONS);
	live1 = g_live;
	if (two) { pf2 = KSI_PublicationsFile_ref(pf); KSI_PublicationsFile_free(pf);
		__CPROVER_assert(pf2 == pf && pf->ref == 1 && g_live == live1 && g_freed[P_HDR] + g_freed[P_CERTS] + g_freed[P_PUBS] + g_freed[P_SIG] + g_freed[P_CONS] == 0, "pubfile free with a second reference only drops the reference"); REACH("second reference"); }
	KSI_PublicationsFile_free(pf);
	__CPROVER_assert(g_live == live0, "pubfile free: the store object, its raw copy and every member are released (block balance)");
	__CPROVER_assert(leaves_balanced(), "pubfile free: each owned member is released exactly once");
	if (g_alloc_failed == 0 && hook) { __CPROVER_assert(live1 == live0 + 7, "full store object: 7 blocks"); REACH("full store object released"); }
}
#endif
