/* C19 (builderW_net): the request handle of the synchronous network clients under allocation failure.
 *   H_handle_new     net.c       KSI_RequestHandle_new / KSI_RequestHandle_free
 *   H_handle_life    net.c       setImplContext / setResponse / setReadResponseFn / perform / getResponse / getRequest /
 *                                ref / free on a handle made by the real constructor
 *   H_http           net_http.c  prepareRequest / prepareAggregationRequest / prepareExtendRequest /
 *                                preparePublicationsFileRequest (transport call-back = stub modelled on net_http_curl.c sendRequest)
 *   H_tcp            net_tcp.c   prepareRequest / prepareAggregationRequest / prepareExtendRequest / sendRequest / TcpClientCtx_free
 *   H_file           net_file.c  prepareRequest / prepareAggregationRequest / prepareExtendRequest / sendRequest / readResponse
 *   H_client_new     net_http.c  KSI_AbstractHttpClient_new over net.c KSI_AbstractNetworkClient_new / KSI_AbstractNetEndpoint_new / ..._free
 *                                (not registered on the unchanged tree - see NOTES_oom3_net.md, defects D6 / D3)
 *   -DOOM3_NEW_MODEL: KSI_RequestHandle_new replaced by a model with the postcondition H_handle_new checks (the *_m jobs)
 * Real files included unmodified.  Plain mode, every allocation may fail in every combination
 * (--malloc-may-fail --malloc-fail-null), live funnel blocks are counted (g_live).  Statement checked everywhere:
 *   a failed allocation => an error is returned, the receiver is untouched and nothing the call allocated survives;
 *   the handle owns each buffer at most once - releasing it afterwards frees every block exactly once (CBMC's
 *   double-free / deallocated-pointer checks + the g_live balance); success => exact block count, the request octets
 *   are a private copy. */
#include "env/common.h"
#if defined(H_http) || defined(H_tcp) || defined(H_file)
#define OOM3_PDU_MODEL 1
#endif
#include "env/c19_oom3_net_env.h"
#include <string.h>
#if defined(OOM3_PDU_MODEL)
/* the request copy's length arrives through the serialiser's out-parameter (symbolic after the path merge): CBMC's array
 * model of memcpy with a symbolic length does not terminate here - exact octet loop, checked bound of 4 octets */
#define MEMOPS_EXACT_MAX 4
#include "env/memops_exact.h"
#endif
#include "compatibility.c"
#include "net.h"
#include "impl/ctx_impl.h"
#include "impl/net_impl.h"
#include "impl/net_uri_impl.h"
int http_parser_parse_url(const char *buf, size_t buflen, int is_connect, struct http_parser_url *u);
#include "net.c"

#ifndef REQ_MAX
#define REQ_MAX 4
#endif
static struct KSI_CTX_st g_ctx;
static struct KSI_NetHandle_st g_sentinel;       /* "receiver untouched": the receiver holds this address before the call */

/* every field of a fresh handle that a later call reads is set */
#define HANDLE_EMPTY(h) ((h)->ref == 1 && (h)->implCtx == NULL && (h)->implCtx_free == NULL && (h)->response == NULL && (h)->response_length == 0 \
		&& !(h)->completed && (h)->reqCtx == NULL && (h)->reqCtx_free == NULL && (h)->client == NULL && (h)->status == NULL && (h)->err.res == KSI_UNKNOWN_ERROR && (h)->err.code == 0)

#ifdef H_handle_new
void harness(void) {
	unsigned char req[REQ_MAX], req0[REQ_MAX]; size_t len, i; unsigned k = nondet_uint();
	KSI_CTX *ctx = nondet_bool() ? &g_ctx : NULL;
	const unsigned char *reqp = nondet_bool() ? req : NULL;
	KSI_RequestHandle *h = &g_sentinel; KSI_RequestHandle **recv = nondet_bool() ? &h : NULL;
	long live0; int res; _Bool bad;
	for (i = 0; i < REQ_MAX; i++) req0[i] = req[i];
	len = k % (REQ_MAX + 1u);
	g_alloc_failed = 0; live0 = g_live;
	/* one call site per length: the copy has a CONSTANT size in each (a symbolic-size calloc / memcpy does not terminate) */
	switch (len) {
	case 0: res = KSI_RequestHandle_new(ctx, reqp, 0, recv); break;
	case 1: res = KSI_RequestHandle_new(ctx, reqp, 1, recv); break;
	case 2: res = KSI_RequestHandle_new(ctx, reqp, 2, recv); break;
	case 3: res = KSI_RequestHandle_new(ctx, reqp, 3, recv); break;
	default: res = KSI_RequestHandle_new(ctx, reqp, 4, recv); break;
	}
	REACH("KSI_RequestHandle_new returns");
	bad = ctx == NULL || recv == NULL || (reqp == NULL && len != 0) || (reqp != NULL && len == 0);
	__CPROVER_assert(IFF(res == KSI_INVALID_ARGUMENT, bad), "handle new: INVALID_ARGUMENT iff context / receiver missing or request pointer and length disagree");
	__CPROVER_assert(res == KSI_OK || res == KSI_INVALID_ARGUMENT || (res == KSI_OUT_OF_MEMORY && g_alloc_failed > 0), "handle new: OK, bad argument, or out-of-memory with a failed allocation");
	__CPROVER_assert(IMPLIES(!bad && g_alloc_failed == 0, res == KSI_OK), "handle new: succeeds when nothing fails");
	for (i = 0; i < REQ_MAX; i++) __CPROVER_assert(req[i] == req0[i], "handle new: the caller's request octets are not written");
	if (res != KSI_OK) {
		__CPROVER_assert(h == &g_sentinel, "handle new failed: receiver untouched");
		__CPROVER_assert(g_live == live0, "handle new failed: nothing the call allocated survives");
		if (res == KSI_OUT_OF_MEMORY && g_alloc_failed == 1 && g_live == live0) REACH("handle new: one allocation failed");
		return;
	}
	REACH("handle new ok");
	if (len == REQ_MAX) REACH("handle new ok: longest request");
	if (len == 0) REACH("handle new ok: no request");
	__CPROVER_assert(h != NULL && h != &g_sentinel && h->ctx == ctx, "handle new ok: a handle of this context is handed out");
	__CPROVER_assert(g_live == live0 + 1 + (len > 0 ? 1 : 0), "handle new ok: exactly the handle block and (for a non-empty request) one request block");
	__CPROVER_assert(h->request_length == len && IFF(h->request == NULL, len == 0), "handle new ok: request length recorded, no buffer for an empty request");
	if (len > 0) {
		__CPROVER_assert(h->request != req, "handle new ok: the request is a private copy, not the caller's buffer");
		for (i = 0; i < REQ_MAX; i++) if (i < len) __CPROVER_assert(h->request[i] == req[i], "handle new ok: the copy holds the caller's octets");
	}
	__CPROVER_assert(HANDLE_EMPTY(h), "handle new ok: every other field is empty (one reference, no transport / request context, no response, not completed)");
	__CPROVER_assert(h->readResponse == NULL, "handle new ok: no response reader yet (KSI_RequestHandle_perform tests this field for NULL)");
	KSI_RequestHandle_free(h);
	__CPROVER_assert(g_live == live0, "handle free: handle and request released exactly once");
}
#endif

#ifdef H_handle_life
/* response reader call-back: fails (any reason), or stores a 2-octet response through the real setter (which may run out of memory) */
static unsigned g_read_calls; static unsigned char g_read_bytes[2];
static int stub_readResponse(KSI_RequestHandle *h) {
	g_read_calls++;
	__CPROVER_assert(h != NULL && h->request != NULL, "reader call-back gets the handle with its request");
	if (nondet_bool()) return nondet_bool() ? KSI_OUT_OF_MEMORY : oom3_other_error();
	g_read_bytes[0] = nondet_uchar(); g_read_bytes[1] = nondet_uchar();
	return KSI_RequestHandle_setResponse(h, g_read_bytes, 2);
}
void harness(void) {
	unsigned char req[2], resp[3]; KSI_RequestHandle *h = NULL; long live0, live1; int res; void *cA, *cB; unsigned char *r0; size_t l0;
	const unsigned char *gr = NULL; size_t gl = 77; unsigned calls0;
	live0 = g_live;
	/* the real constructor without request (one allocation), then the request block attached the way the constructor's
	 * success path does it (decided by H_handle_new) - keeps this job independent of the constructor's failure path */
	res = KSI_RequestHandle_new(&g_ctx, NULL, 0, &h);
	if (res != KSI_OK) return;
	h->request = oom3_block(2); h->request[0] = req[0]; h->request[1] = req[1]; h->request_length = 2;
	/* --- transport context: the handle owns the context it was given last; a replaced one is released exactly once */
	cA = oom3_block(8);
	g_alloc_failed = 0; live1 = g_live;
	res = KSI_RequestHandle_setImplContext(h, cA, oom3_implctx_free);
	__CPROVER_assert(res == KSI_OK && h->implCtx == cA && h->implCtx_free == oom3_implctx_free && g_implfree_calls == 0 && g_live == live1, "setImplContext: context and destructor stored, nothing released, nothing allocated");
	if (nondet_bool()) {
		res = KSI_RequestHandle_setImplContext(h, cA, oom3_implctx_free);
		__CPROVER_assert(res == KSI_OK && h->implCtx == cA && g_implfree_calls == 0 && g_live == live1, "setImplContext with the same context: not released");
		REACH("same context set again");
	} else {
		cB = oom3_block(8);
		res = KSI_RequestHandle_setImplContext(h, cB, oom3_implctx_free);
		__CPROVER_assert(res == KSI_OK && h->implCtx == cB && g_implfree_calls == 1 && g_implfree_last == cA && g_live == live1, "setImplContext with another context: the old one released exactly once through its destructor");
		REACH("context replaced");
	}
	__CPROVER_assert(KSI_RequestHandle_setImplContext(NULL, cA, NULL) == KSI_INVALID_ARGUMENT, "setImplContext: no handle => INVALID_ARGUMENT");
	calls0 = g_implfree_calls;
	/* --- response: stored by the reader call-back of perform, or directly */
	live1 = g_live; r0 = h->response; l0 = h->response_length;
	if (nondet_bool()) {
		res = KSI_RequestHandle_setResponse(h, resp, 3);
		__CPROVER_assert(res == KSI_OK || (res == KSI_OUT_OF_MEMORY && g_alloc_failed > 0), "setResponse: OK, or out-of-memory with a failed allocation");
		if (res == KSI_OK) {
			__CPROVER_assert(h->response != NULL && h->response != resp && h->response_length == 3 && h->response[0] == resp[0] && h->response[1] == resp[1] && h->response[2] == resp[2] && g_live == live1 + 1,
					"setResponse ok: one block, a private copy of the octets");
			REACH("setResponse ok");
		} else {
			__CPROVER_assert(h->response == r0 && h->response_length == l0 && g_live == live1, "setResponse failed: response and length as before, nothing leaked");
			REACH("setResponse: allocation failed");
		}
	} else {
		res = KSI_RequestHandle_setReadResponseFn(h, NULL);
		__CPROVER_assert(res == KSI_OK && h->readResponse == NULL, "setReadResponseFn(NULL) clears the call-back");
		res = KSI_RequestHandle_perform(h);
		__CPROVER_assert(res == KSI_UNKNOWN_ERROR && !h->completed && g_read_calls == 0 && g_live == live1, "perform without a reader is refused: nothing called, nothing allocated");
		res = KSI_RequestHandle_setReadResponseFn(h, stub_readResponse);
		__CPROVER_assert(res == KSI_OK && h->readResponse == stub_readResponse, "setReadResponseFn stores the call-back");
		res = KSI_RequestHandle_perform(h);
		REACH("perform returns");
		__CPROVER_assert(g_read_calls == 1, "perform calls the reader exactly once");
		if (res == KSI_OK) {
			__CPROVER_assert(h->completed && h->response != NULL && h->response != g_read_bytes && h->response_length == 2 && h->response[0] == g_read_bytes[0] && h->response[1] == g_read_bytes[1] && g_live == live1 + 1,
					"perform ok: completed, the response is one private block");
			REACH("perform ok");
		} else {
			__CPROVER_assert(!h->completed && h->response == r0 && h->response_length == l0 && g_live == live1, "perform failed: not completed, response as before, nothing leaked");
			REACH("perform failed");
			if (res == KSI_OUT_OF_MEMORY && g_alloc_failed > 0) REACH("perform: response copy could not be allocated");
		}
	}
	/* --- getters hand out the handle's own buffers, allocate nothing */
	live1 = g_live;
	res = KSI_RequestHandle_getResponse(h, &gr, &gl);
	__CPROVER_assert(res == KSI_OK && gr == h->response && gl == h->response_length && g_live == live1, "getResponse: the handle's own buffer and length (borrowed), nothing allocated");
	__CPROVER_assert(KSI_RequestHandle_getResponse(h, NULL, &gl) == KSI_INVALID_ARGUMENT && KSI_RequestHandle_getResponse(NULL, &gr, &gl) == KSI_INVALID_ARGUMENT, "getResponse: missing handle / receiver => INVALID_ARGUMENT");
	res = KSI_RequestHandle_getRequest(h, &gr, &gl);
	__CPROVER_assert(res == KSI_OK && gr == h->request && gl == 2 && gr[0] == req[0] && gr[1] == req[1] && g_live == live1, "getRequest: the private copy made by the constructor");
	/* --- references and release */
	__CPROVER_assert(KSI_RequestHandle_ref(h) == h && h->ref == 2, "ref: one more reference");
	KSI_RequestHandle_free(h);
	__CPROVER_assert(h->ref == 1 && g_live == live1 && g_implfree_calls == calls0, "free with a second reference only drops the reference");
	cA = h->implCtx;
	KSI_RequestHandle_free(h);
	__CPROVER_assert(g_implfree_calls == calls0 + 1 && g_implfree_last == cA, "last free: the transport context goes through its destructor exactly once");
	__CPROVER_assert(g_live == live0, "last free: handle, request, response and transport context released exactly once");
	KSI_RequestHandle_free(NULL);
	REACH("life cycle done");
}
#endif

#if defined(H_http) || defined(H_tcp) || defined(H_file)
/* ---------------------------------------------------------------------------------------------------------------------
 * prepareRequest paths.  WHICH = 0 aggregation request, 1 extend request, 2 publications file request (HTTP only).
 * The request object, the endpoints and the client are concrete harness objects; the request goes through the PUBLIC
 * dispatcher KSI_NetworkClient_sendSignRequest / sendExtendRequest / sendPublicationsFileRequest (real, net.c). */
#ifndef WHICH
#define WHICH 0
#endif
#ifdef OOM3_NEW_MODEL
/* [ASSUMED in the *_m jobs] KSI_RequestHandle_new with the postcondition that job C19.oom3_net_handle_new checks on the real
 * body: out-of-memory only with a failed funnel allocation, failure => receiver untouched and nothing survives, success =>
 * one handle block (+ one private request block), every field empty. */
static int oom3_model_RequestHandle_new(KSI_CTX *ctx, const unsigned char *request, size_t request_length, KSI_RequestHandle **handle) {
	KSI_RequestHandle *t; unsigned char *r = NULL; size_t i;
	if (ctx == NULL || handle == NULL || (request == NULL && request_length != 0) || (request != NULL && request_length == 0)) return KSI_INVALID_ARGUMENT;
	t = KSI_malloc(sizeof(*t));
	if (t == NULL) return KSI_OUT_OF_MEMORY;
	if (request_length > 0) {
		r = KSI_calloc(request_length, 1);
		if (r == NULL) { KSI_free(t); return KSI_OUT_OF_MEMORY; }
		for (i = 0; i < REQ_MAX; i++) if (i < request_length) r[i] = request[i];
	}
	t->ctx = ctx; t->ref = 1; t->err.res = KSI_UNKNOWN_ERROR; t->err.code = 0; t->completed = false; t->request = r; t->request_length = request_length;
	t->response = NULL; t->response_length = 0; t->readResponse = NULL; t->client = NULL; t->reqCtx = NULL; t->reqCtx_free = NULL;
	t->implCtx = NULL; t->implCtx_free = NULL; t->status = NULL;
	*handle = t; return KSI_OK;
}
#define KSI_RequestHandle_new oom3_model_RequestHandle_new
#endif

static char g_user[2] = "u", g_pass[2] = "p";
static struct KSI_NetworkClient_st g_cl;
static struct KSI_NetEndpoint_st g_ep_aggr, g_ep_ext, g_ep_pub;
static _Bool g_had_id;               /* the request came with a request id */
static unsigned g_send_calls; static _Bool g_send_ok;

static void after_prepare_ok(KSI_RequestHandle *h);     /* transport specific continuation (file: perform) */
/* outcome of a prepare call, common to the three transports.  `extra` = blocks the transport context consists of. */
static void check_prepare(int res, KSI_RequestHandle *h, struct oom3_req *r, void *reqObj, long live0, size_t cnt0, int extra, void (*reqFree)(void *)) {
	long idnew = (!g_had_id && r->requestId != NULL) ? 1 : 0;     /* a request id created by the call stays with the request */
	REACH("prepare returns");
	__CPROVER_assert(IMPLIES(res == KSI_OUT_OF_MEMORY, g_alloc_failed > 0), "prepare: out-of-memory only with a failed allocation");
	__CPROVER_assert(IMPLIES(g_had_id, g_setid_calls == 0), "prepare: a request that has an id keeps it");
	if (res != KSI_OK) {
		__CPROVER_assert(h == &g_sentinel, "prepare failed: receiver untouched");
		__CPROVER_assert(r->ref == 1, "prepare failed: every reference to the request taken by the call was given back");
		__CPROVER_assert(g_live == live0 + idnew, "prepare failed: nothing the call allocated survives (serialised octets, handle, request copy, transport context, PDU; a freshly assigned request id belongs to the request)");
		__CPROVER_assert(g_req_released == 0, "prepare failed: the caller's request object is still there");
		if (g_alloc_failed == 1) REACH("prepare: exactly one allocation failed");
#ifdef H_http
		if (g_send_calls > 0 && !g_send_ok) REACH("prepare: transport set-up failed after the handle was made");
		if (g_ser_calls > 0 && g_send_calls == 0 && g_ser_raw != NULL) REACH("prepare: handle could not be made after serialisation");
#else
		if (g_alloc_failed == 1 && g_ser_raw != NULL) REACH("prepare: an allocation failed after the request was serialised");
#endif
		return;
	}
	REACH("prepare ok");
	if (idnew) REACH("prepare ok: request id assigned"); else REACH("prepare ok: request id kept");
	__CPROVER_assert(h != NULL && h != &g_sentinel && h->ref == 1 && h->ctx == &g_ctx, "prepare ok: a handle with one reference");
	__CPROVER_assert(g_enclose_user_ok, "prepare ok: the PDU was enclosed with the endpoint's login id and key");
	__CPROVER_assert(g_ser_calls == 1 && h->request != NULL && h->request != g_ser_raw && h->request_length == g_ser_len, "prepare ok: the request is a private copy (not the serialiser's block), length as serialised");
	{ size_t i; for (i = 0; i < 4; i++) if (i < g_ser_len) __CPROVER_assert(h->request[i] == g_ser_bytes[i], "prepare ok: the request holds the serialised octets"); }
	__CPROVER_assert(h->reqCtx == reqObj && h->reqCtx_free == reqFree && r->ref == 2, "prepare ok: the handle holds exactly one reference to the request object (the PDU's reference was given back)");
	__CPROVER_assert(h->client == &g_cl && h->readResponse != NULL && h->response == NULL && !h->completed, "prepare ok: reader and client recorded, no response yet");
	__CPROVER_assert(g_live == live0 + idnew + 2 + extra, "prepare ok: exactly handle + request copy + transport context survive (serialised octets and PDU released)");
	__CPROVER_assert(IMPLIES(idnew, r->requestId->value == cnt0 + 1), "prepare ok: a fresh request id is the next request count");
	after_prepare_ok(h);
	KSI_RequestHandle_free(h);
	__CPROVER_assert(r->ref == 1 && g_req_released == 0, "handle free: the request reference is given back, the caller's reference stays");
	__CPROVER_assert(g_live == live0 + idnew, "handle free: handle, request copy, response and transport context released exactly once");
}
static struct oom3_req *mk_req(size_t n) {
	struct oom3_req *r = oom3_block(n);
	r->ref = 1; r->requestId = NULL; g_had_id = nondet_bool();
	if (g_had_id) { KSI_Integer *id = oom3_block(sizeof(KSI_Integer)); id->ref = 1; id->value = 7; r->requestId = id; }
	return r;
}
static void mk_client(void *impl) {
	g_cl.ctx = &g_ctx; g_cl.impl = impl; g_cl.requestCount = nondet_size();
	__CPROVER_assume(g_cl.requestCount < 1000);
	g_cl.aggregator = &g_ep_aggr; g_cl.extender = &g_ep_ext; g_cl.publicationsFile = &g_ep_pub;
	g_ep_aggr.ctx = g_ep_ext.ctx = g_ep_pub.ctx = &g_ctx;
	g_ep_aggr.ksi_user = g_ep_ext.ksi_user = g_user; g_ep_aggr.ksi_pass = g_ep_ext.ksi_pass = g_pass; g_ep_pub.ksi_user = g_ep_pub.ksi_pass = NULL;
	g_exp_user = g_user; g_exp_pass = g_pass;
}
#endif

#ifdef H_http
#include "net_http.c"
static char g_url_aggr[3] = "ua", g_url_ext[3] = "ue", g_url_pub[3] = "up";
static HttpClient_Endpoint g_he_aggr, g_he_ext, g_he_pub;
static struct KSI_HttpClient_st g_http;
static int stub_http_read(KSI_RequestHandle *h) { return KSI_NETWORK_ERROR; }
static void after_prepare_ok(KSI_RequestHandle *h) { }
/* transport call-back, modelled on net_http_curl.c sendRequest: allocates its context (may fail), may fail afterwards
 * (curl_easy_init) releasing what it allocated, on success records reader + client and hands the context to the handle */
static int stub_http_send(KSI_NetworkClient *client, KSI_RequestHandle *handle, char *url) {
	void *c;
	g_send_calls++; g_send_ok = 0;
	__CPROVER_assert(client == &g_cl && handle != NULL && url == (WHICH == 0 ? g_url_aggr : WHICH == 1 ? g_url_ext : g_url_pub), "transport call-back gets the client, the new handle and the endpoint's URL");
	__CPROVER_assert(HANDLE_EMPTY(handle) && IFF(handle->request == NULL, WHICH == 2), "transport call-back gets a fresh handle holding the request");
	c = KSI_malloc(8);
	if (c == NULL) return KSI_OUT_OF_MEMORY;
	if (nondet_bool()) { KSI_free(c); return oom3_other_error(); }
	handle->readResponse = stub_http_read; handle->client = client;
	if (KSI_RequestHandle_setImplContext(handle, c, oom3_implctx_free) != KSI_OK) { KSI_free(c); return KSI_UNKNOWN_ERROR; }
	g_send_ok = 1;
	return KSI_OK;
}
void harness(void) {
	KSI_RequestHandle *h = &g_sentinel; long live0; int res; size_t cnt0;
	mk_client(&g_http);
	g_http.sendRequest = stub_http_send; g_http.agentName = NULL; g_http.mimeType = NULL; g_http.implCtx = NULL; g_http.implCtx_free = NULL;
	g_he_aggr.url = g_url_aggr; g_he_ext.url = g_url_ext; g_he_pub.url = g_url_pub;
	g_ep_aggr.implCtx = &g_he_aggr; g_ep_ext.implCtx = &g_he_ext; g_ep_pub.implCtx = &g_he_pub;
	g_cl.sendSignRequest = prepareAggregationRequest; g_cl.sendExtendRequest = prepareExtendRequest; g_cl.sendPublicationRequest = preparePublicationsFileRequest;
#if WHICH == 0
	{ KSI_AggregationReq *req = (KSI_AggregationReq *)mk_req(sizeof(KSI_AggregationReq));
	g_alloc_failed = 0; live0 = g_live; cnt0 = g_cl.requestCount;
	res = KSI_NetworkClient_sendSignRequest(&g_cl, req, &h);
	check_prepare(res, h, &req->r, req, live0, cnt0, 1, (void (*)(void *))KSI_AggregationReq_free);
	KSI_AggregationReq_free(req); }
	__CPROVER_assert(g_req_released == 1, "the caller's last reference destroys the request");
#elif WHICH == 1
	{ KSI_ExtendReq *req = (KSI_ExtendReq *)mk_req(sizeof(KSI_ExtendReq));
	g_alloc_failed = 0; live0 = g_live; cnt0 = g_cl.requestCount;
	res = KSI_NetworkClient_sendExtendRequest(&g_cl, req, &h);
	check_prepare(res, h, &req->r, req, live0, cnt0, 1, (void (*)(void *))KSI_ExtendReq_free);
	KSI_ExtendReq_free(req); }
	__CPROVER_assert(g_req_released == 1, "the caller's last reference destroys the request");
#else
	g_alloc_failed = 0; live0 = g_live;
	if (nondet_bool()) g_he_pub.url = NULL;
	res = KSI_NetworkClient_sendPublicationsFileRequest(&g_cl, &h);
	REACH("publications file request returns");
	__CPROVER_assert(IMPLIES(res == KSI_OUT_OF_MEMORY, g_alloc_failed > 0), "publications file request: out-of-memory only with a failed allocation");
	__CPROVER_assert(IMPLIES(g_he_pub.url == NULL, res == KSI_PUBLICATIONS_FILE_NOT_CONFIGURED && g_send_calls == 0), "publications file request: no URL => not configured, nothing sent");
	if (res != KSI_OK) {
		__CPROVER_assert(h == &g_sentinel, "publications file request failed: receiver untouched");
		__CPROVER_assert(g_live == live0, "publications file request failed: nothing the call allocated survives (handle, transport context)");
		if (g_send_calls > 0) REACH("publications file request: transport set-up failed after the handle was made");
	} else {
		REACH("publications file request ok");
		__CPROVER_assert(h != NULL && h != &g_sentinel && h->ref == 1 && h->request == NULL && h->request_length == 0 && h->reqCtx == NULL && h->client == &g_cl && h->readResponse != NULL, "publications file request ok: a handle without request octets");
		__CPROVER_assert(g_live == live0 + 2, "publications file request ok: exactly handle + transport context");
		KSI_RequestHandle_free(h);
		__CPROVER_assert(g_live == live0 && g_implfree_calls == 1, "handle free: handle and transport context released exactly once");
	}
#endif
	__CPROVER_assert(g_implfree_calls <= 1, "the transport context goes through its destructor at most once");
}
#endif

#ifdef H_tcp
#include "net_tcp.c"
static char g_host[3] = "h1";
static TcpClient_Endpoint g_te_aggr, g_te_ext;
static struct KSI_TcpClient_st g_tcp;
static void after_prepare_ok(KSI_RequestHandle *h) { }
void harness(void) {
	KSI_RequestHandle *h = &g_sentinel; long live0; int res; size_t cnt0; _Bool conf = nondet_bool();
	mk_client(&g_tcp);
	g_tcp.sendRequest = sendRequest; g_tcp.http = NULL; g_tcp.transferTimeoutSeconds = 10;      /* the REAL transport set-up of net_tcp.c */
	g_te_aggr.host = g_te_ext.host = conf ? g_host : NULL; g_te_aggr.port = g_te_ext.port = 3333;
	g_ep_aggr.implCtx = &g_te_aggr; g_ep_ext.implCtx = &g_te_ext;
	g_cl.sendSignRequest = prepareAggregationRequest; g_cl.sendExtendRequest = prepareExtendRequest; g_cl.sendPublicationRequest = NULL;
#if WHICH == 0
	{ KSI_AggregationReq *req = (KSI_AggregationReq *)mk_req(sizeof(KSI_AggregationReq));
	g_alloc_failed = 0; live0 = g_live; cnt0 = g_cl.requestCount;
	res = KSI_NetworkClient_sendSignRequest(&g_cl, req, &h);
	__CPROVER_assert(IMPLIES(!conf, res == KSI_AGGREGATOR_NOT_CONFIGURED && g_live == live0 && g_ser_calls == 0), "no host configured => refused before anything is made");
	g_send_ok = (res == KSI_OK);
	if (res == KSI_OK) {
		TcpClientCtx *tc = h->implCtx;
		__CPROVER_assert(tc != NULL && h->implCtx_free == (void (*)(void *))TcpClientCtx_free && tc->host != NULL && tc->host != g_host && tc->host[0] == 'h' && tc->host[1] == '1' && tc->host[2] == 0 && tc->port == 3333,
				"tcp prepare ok: the handle owns a transport context with a private copy of the host name and the port");
	}
	check_prepare(res, h, &req->r, req, live0, cnt0, 2, (void (*)(void *))KSI_AggregationReq_free);
	KSI_AggregationReq_free(req); }
#else
	{ KSI_ExtendReq *req = (KSI_ExtendReq *)mk_req(sizeof(KSI_ExtendReq));
	g_alloc_failed = 0; live0 = g_live; cnt0 = g_cl.requestCount;
	res = KSI_NetworkClient_sendExtendRequest(&g_cl, req, &h);
	__CPROVER_assert(IMPLIES(!conf, res == KSI_AGGREGATOR_NOT_CONFIGURED && g_live == live0 && g_ser_calls == 0), "no host configured => refused before anything is made");
	g_send_ok = (res == KSI_OK);
	if (res == KSI_OK) {
		TcpClientCtx *tc = h->implCtx;
		__CPROVER_assert(tc != NULL && h->implCtx_free == (void (*)(void *))TcpClientCtx_free && tc->host != NULL && tc->host != g_host && tc->host[0] == 'h' && tc->host[1] == '1' && tc->host[2] == 0 && tc->port == 3333,
				"tcp prepare ok: the handle owns a transport context with a private copy of the host name and the port");
	}
	check_prepare(res, h, &req->r, req, live0, cnt0, 2, (void (*)(void *))KSI_ExtendReq_free);
	KSI_ExtendReq_free(req); }
#endif
	__CPROVER_assert(g_req_released == 1, "the caller's last reference destroys the request");
}
#endif

#ifdef H_file
#include <stdio.h>
/* one TLV of the response file: error, end of file (OK with nothing consumed), or a 2-octet element */
static unsigned char g_file_bytes[2]; static unsigned g_fread_calls; static int g_fread_res; static size_t g_fread_count;
int KSI_FTLV_fileRead(FILE *f, unsigned char *buf, size_t len, size_t *consumed, struct fast_tlv_s *t) {
	g_fread_calls++;
	__CPROVER_assert(f != NULL && buf != NULL && len == 0x10003, "file reader gets the open file and the whole TLV buffer");
	if (nondet_bool()) { g_fread_res = oom3_other_error(); g_fread_count = 0; return g_fread_res; }
	g_fread_res = KSI_OK;
	if (nondet_bool()) { *consumed = 0; g_fread_count = 0; return KSI_OK; }
	buf[0] = g_file_bytes[0] = nondet_uchar(); buf[1] = g_file_bytes[1] = nondet_uchar();
	*consumed = 2; g_fread_count = 2; return KSI_OK;
}
#include "net_file.c"
static char g_path[3] = "pa";
static FsClient_Endpoint g_fe_aggr, g_fe_ext;
static struct KSI_FsClient_st g_fs;
static FILE g_file;
static void after_prepare_ok(KSI_RequestHandle *h) {
	long live1; int r2;
	__CPROVER_assert(h->implCtx == (WHICH == 0 ? (void *)&g_fe_aggr : (void *)&g_fe_ext) && h->implCtx_free == NULL, "file prepare ok: the handle borrows the endpoint (no destructor)");
	/* perform: the real readResponse of net_file.c (64 KiB scratch buffer + private copy of the element) */
	g_alloc_failed = 0; live1 = g_live;
	r2 = KSI_RequestHandle_perform(h);
	REACH("file perform returns");
	__CPROVER_assert(g_fread_calls <= 1, "file perform: at most one element is read");
	__CPROVER_assert(IMPLIES(r2 == KSI_OUT_OF_MEMORY, g_alloc_failed > 0), "file perform: out-of-memory only with a failed allocation");
	if (r2 == KSI_OK && g_fread_calls == 1 && g_fread_count == 2) {
		__CPROVER_assert(h->completed && h->response != NULL && h->response_length == 2 && h->response[0] == g_file_bytes[0] && h->response[1] == g_file_bytes[1] && g_live == live1 + 1,
				"file perform ok: completed, the response is one private block holding the element (scratch buffer released)");
		REACH("file perform ok");
	} else {
		__CPROVER_assert(h->response == NULL && h->response_length == 0 && g_live == live1, "file perform without element: no response, scratch buffer released, nothing leaked");
		if (r2 != KSI_OK) { __CPROVER_assert(!h->completed, "file perform failed: not completed"); REACH("file perform failed"); }
		if (r2 == KSI_OUT_OF_MEMORY && g_fread_calls == 1) REACH("file perform: response copy could not be allocated");
		if (r2 == KSI_OUT_OF_MEMORY && g_fread_calls == 0) REACH("file perform: scratch buffer could not be allocated");
	}
}
void harness(void) {
	KSI_RequestHandle *h = &g_sentinel; long live0; int res; size_t cnt0; _Bool conf = nondet_bool();
	struct KSI_NetworkClient_st prov;      /* net_file.c numbers the requests with the CONTEXT's provider count */
	mk_client(&g_fs);
	g_fs.sendRequest = sendRequest;
	g_fe_aggr.path = g_fe_ext.path = conf ? g_path : NULL; g_fe_aggr.file = g_fe_ext.file = &g_file;
	g_ep_aggr.implCtx = &g_fe_aggr; g_ep_ext.implCtx = &g_fe_ext;
	g_cl.sendSignRequest = prepareAggregationRequest; g_cl.sendExtendRequest = prepareExtendRequest; g_cl.sendPublicationRequest = NULL;
	prov.requestCount = g_cl.requestCount; g_ctx.netProvider = &prov;
#if WHICH == 0
	{ KSI_AggregationReq *req = (KSI_AggregationReq *)mk_req(sizeof(KSI_AggregationReq));
	g_alloc_failed = 0; live0 = g_live; cnt0 = prov.requestCount;
	res = KSI_NetworkClient_sendSignRequest(&g_cl, req, &h);
	__CPROVER_assert(IMPLIES(!conf, res == KSI_AGGREGATOR_NOT_CONFIGURED && g_live == live0 && g_ser_calls == 0), "no path configured => refused before anything is made");
	check_prepare(res, h, &req->r, req, live0, cnt0, 0, (void (*)(void *))KSI_AggregationReq_free);
	KSI_AggregationReq_free(req); }
#else
	{ KSI_ExtendReq *req = (KSI_ExtendReq *)mk_req(sizeof(KSI_ExtendReq));
	g_alloc_failed = 0; live0 = g_live; cnt0 = prov.requestCount;
	res = KSI_NetworkClient_sendExtendRequest(&g_cl, req, &h);
	__CPROVER_assert(IMPLIES(!conf, res == KSI_AGGREGATOR_NOT_CONFIGURED && g_live == live0 && g_ser_calls == 0), "no path configured => refused before anything is made");
	check_prepare(res, h, &req->r, req, live0, cnt0, 0, (void (*)(void *))KSI_ExtendReq_free);
	KSI_ExtendReq_free(req); }
#endif
	__CPROVER_assert(g_req_released == 1, "the caller's last reference destroys the request");
}
#endif

#ifdef H_client_new
/* KSI_AbstractHttpClient_new (net_http.c) over the real KSI_AbstractNetworkClient_new / KSI_AbstractNetEndpoint_new /
 * KSI_NetEndpoint_setImplContext / setStringParam / KSI_NetworkClient_free / KSI_NetEndpoint_free (net.c): 9 allocations. */
#include "net_http.c"
static struct KSI_NetworkClient_st g_csentinel;
void harness(void) {
	KSI_NetworkClient *c = &g_csentinel; long live0; int res;
	g_alloc_failed = 0; live0 = g_live;
	res = KSI_AbstractHttpClient_new(&g_ctx, &c);
	REACH("client new returns");
	__CPROVER_assert(res == KSI_OK || (res == KSI_OUT_OF_MEMORY && g_alloc_failed > 0), "http client new: OK, or out-of-memory with a failed allocation");
	__CPROVER_assert(IMPLIES(g_alloc_failed == 0, res == KSI_OK), "http client new: succeeds when nothing fails");
	if (res != KSI_OK) {
		__CPROVER_assert(c == &g_csentinel, "http client new failed: receiver untouched");
		__CPROVER_assert(g_live == live0, "http client new failed: nothing the call allocated survives");
		if (g_alloc_failed == 1) REACH("http client new: one allocation failed");
		return;
	}
	REACH("http client new ok");
	__CPROVER_assert(g_alloc_failed == 0, "http client new ok: no failed allocation was ignored (agent name and MIME type are part of every request)");
	{ KSI_HttpClient *h = c->impl;
	__CPROVER_assert(c != &g_csentinel && c != NULL && h != NULL && c->implFree == (void (*)(void *))httpClient_free && h->agentName != NULL && h->mimeType != NULL && h->sendRequest == NULL && h->implCtx_free == NULL,
			"http client new ok: implementation with agent name and MIME type, no transport yet");
	__CPROVER_assert(c->aggregator != NULL && c->extender != NULL && c->publicationsFile != NULL && c->aggregator->implCtx != NULL && c->extender->implCtx != NULL && c->publicationsFile->implCtx != NULL
			&& ((HttpClient_Endpoint *)c->aggregator->implCtx)->url == NULL && c->aggregator->ksi_user == NULL && c->sendSignRequest == prepareAggregationRequest && c->sendExtendRequest == prepareExtendRequest && c->sendPublicationRequest == preparePublicationsFileRequest,
			"http client new ok: three endpoints with empty HTTP endpoint contexts, the three senders installed"); }
	__CPROVER_assert(g_live == live0 + 10, "http client new ok: client, implementation, 2 strings, 3 endpoints, 3 endpoint contexts");
	KSI_NetworkClient_free(c);
	__CPROVER_assert(g_live == live0, "client free: every block released exactly once");
}
#endif
