/* C19 (slice oom2_pol, item 3): policy.c objects under allocation failure.
 *   H_policy   KSI_Policy_create, KSI_Policy_clone, KSI_Policy_setFallback, KSI_Policy_free
 *   H_polres   PolicyVerificationResult_create, KSI_PolicyVerificationResult_ref / _free, and - on the fresh result - one
 *              PolicyVerificationResult_addLatestRuleResult + one ..addLatestPolicyResult with a status message
 *              (KSI_RuleVerificationResult_dup, _free, _clean), over the REAL list.c
 *   H_vctx     KSI_VerificationContext_init, KSI_VerificationContext_clean (VerificationTempData_clear)
 * Real files included unmodified: policy.c, list.c, compatibility.c.  Plain mode; every allocation may fail, in every
 * combination (--malloc-may-fail --malloc-fail-null); live blocks counted by the funnels of env/c19_oom2_alloc.h.
 * (The struct KSI_VerificationContext has no setter functions in this version of the SDK: its fields are public and
 * are assigned by the caller; init / clean are the whole API.) */
#include "env/common.h"
#include <string.h>
#include "policy.h"
#include "impl/policy_impl.h"
/* every block size the functions under test can ask for (closed, checked case split - env/c19_oom2_alloc.h) */
#define OOM2_MALLOC_SIZES X(1) X(2) X(3) X(4) X(24) X(96) X(sizeof(struct KSI_Policy_st)) X(sizeof(KSI_RuleVerificationResult)) X(sizeof(KSI_PolicyVerificationResult))
#define OOM2_CALLOC_COUNTS X(10)
#include "env/c19_oom2_alloc.h"
#include "compatibility.c"
#include "list.c"

#ifdef H_vctx
/* destructors of the three temporaries a verification context may own: ghost record of who was released how often */
static KSI_DataHash *g_hash_obj; static KSI_CalendarHashChain *g_chain_obj; static KSI_PublicationsFile *g_pub_obj;
static int g_hash_freed, g_chain_freed, g_pub_freed, g_other_freed;
void KSI_DataHash_free(KSI_DataHash *h) { if (h == NULL) return; if (h == g_hash_obj) g_hash_freed++; else g_other_freed++; }
void KSI_CalendarHashChain_free(KSI_CalendarHashChain *c) { if (c == NULL) return; if (c == g_chain_obj) g_chain_freed++; else g_other_freed++; }
void KSI_PublicationsFile_free(KSI_PublicationsFile *p) { if (p == NULL) return; if (p == g_pub_obj) g_pub_freed++; else g_other_freed++; }
#endif

#include "policy.c"

static struct KSI_CTX_st g_ctx_obj;      /* only its address is used by the functions under test (KSI_ERR_* are stubs) */
#define CTX (&g_ctx_obj)
#ifndef STR_MAX
#define STR_MAX 3
#endif

#ifdef H_policy
static int ruleOk(KSI_VerificationContext *c, KSI_RuleVerificationResult *r) { return KSI_OK; }
void harness(void) {
	static const KSI_Rule rules[] = { { KSI_RULE_TYPE_BASIC, ruleOk }, { KSI_RULE_TYPE_BASIC, NULL } };
	static const char name[] = "p"; static struct KSI_Policy_st sentinel, fb;
	KSI_Policy *pol = &sentinel, *cl = &sentinel; int haveCtx = nondet_bool(), haveRules = nondet_bool(), haveName = nondet_bool(), haveOut = nondet_bool(), res; long live0;
	g_live = 3; g_alloc_failed = 0; live0 = g_live;

	res = KSI_Policy_create(haveCtx ? CTX : NULL, haveRules ? rules : NULL, haveName ? name : NULL, haveOut ? &pol : NULL);

	REACH("Policy_create returns");
	__CPROVER_assert((res == KSI_INVALID_ARGUMENT) == (!haveCtx || !haveRules || !haveName || !haveOut), "policy create: KSI_INVALID_ARGUMENT exactly for a missing argument");
	__CPROVER_assert(res == KSI_OK || res == KSI_INVALID_ARGUMENT || (res == KSI_OUT_OF_MEMORY && g_alloc_failed == 1), "policy create: OK or an error code with a cause");
	__CPROVER_assert(IMPLIES(haveCtx && haveRules && haveName && haveOut && g_alloc_failed == 0, res == KSI_OK), "policy create: valid arguments and no failed allocation => success");
	if (res != KSI_OK) {
		__CPROVER_assert(pol == &sentinel && g_live == live0, "policy create failed: receiver untouched, nothing allocated by the call survives");
		if (res == KSI_OUT_OF_MEMORY) REACH("policy create: the allocation failed");
		return;
	}
	__CPROVER_assert(pol != &sentinel && pol->rules == rules && pol->policyName == name && pol->fallbackPolicy == NULL && g_live == live0 + 1, "policy create ok: one block naming the rules and the name, no fallback");
	/* fallback + clone */
	{
		int haveP = nondet_bool(), haveF = nondet_bool(), r2 = KSI_Policy_setFallback(nondet_bool() ? CTX : NULL, haveP ? pol : NULL, haveF ? &fb : NULL);
		__CPROVER_assert(IMPLIES(r2 == KSI_OK, haveP && haveF && pol->fallbackPolicy == &fb) && IMPLIES(r2 != KSI_OK, r2 == KSI_INVALID_ARGUMENT && pol->fallbackPolicy == NULL), "set fallback: sets the link, or refuses with KSI_INVALID_ARGUMENT and changes nothing");
		__CPROVER_assert(g_live == live0 + 1, "set fallback: allocates nothing");
	}
	{
		struct KSI_Policy_st before = *pol; int hc = nondet_bool(), hp = nondet_bool(), ho = nondet_bool(); long live1 = g_live; unsigned f1 = g_alloc_failed;
		res = KSI_Policy_clone(hc ? CTX : NULL, hp ? pol : NULL, ho ? &cl : NULL);
		REACH("Policy_clone returns");
		__CPROVER_assert((res == KSI_INVALID_ARGUMENT) == (!hc || !hp || !ho), "policy clone: KSI_INVALID_ARGUMENT exactly for a missing argument");
		__CPROVER_assert(res == KSI_OK || res == KSI_INVALID_ARGUMENT || (res == KSI_OUT_OF_MEMORY && g_alloc_failed == f1 + 1), "policy clone: OK or an error code with a cause");
		__CPROVER_assert(IMPLIES(hc && hp && ho && g_alloc_failed == f1, res == KSI_OK), "policy clone: valid arguments and no failed allocation => success");
		__CPROVER_assert(pol->rules == before.rules && pol->policyName == before.policyName && pol->fallbackPolicy == before.fallbackPolicy, "policy clone: the original is never modified");
		if (res != KSI_OK) {
			__CPROVER_assert(cl == &sentinel && g_live == live1, "policy clone failed: receiver untouched, nothing allocated by the call survives");
			if (res == KSI_OUT_OF_MEMORY) REACH("policy clone: the allocation failed");
		} else {
			__CPROVER_assert(cl != &sentinel && cl != pol && cl->rules == before.rules && cl->policyName == before.policyName && cl->fallbackPolicy == before.fallbackPolicy && g_live == live1 + 1, "policy clone ok: one fresh block with the same rules, name and fallback link");
			if (cl->fallbackPolicy == &fb) REACH("policy clone ok: fallback link copied");
			KSI_Policy_free(cl);
		}
		KSI_Policy_free(pol);
		KSI_Policy_free(NULL);
		__CPROVER_assert(g_live == live0, "policy: free releases each policy exactly once (the shared rules / name / fallback are not owned)");
	}
}
#endif

#ifdef H_polres
static char *mk_str(size_t cap) { char *p = malloc(cap); __CPROVER_assume(p != NULL); p[cap - 1] = '\0'; g_live++; return p; }
void harness(void) {
	static struct KSI_PolicyVerificationResult_st sentinel; KSI_PolicyVerificationResult *r = &sentinel, *r2; int haveOut = nondet_bool(), res, ra, rb; long live0, liveNew; size_t nr, np; char *msg;
	g_live = 3; g_alloc_failed = 0; live0 = g_live;

	res = PolicyVerificationResult_create(haveOut ? &r : NULL);

	REACH("PolicyVerificationResult_create returns");
	__CPROVER_assert((res == KSI_INVALID_ARGUMENT) == !haveOut, "result create: KSI_INVALID_ARGUMENT exactly for a missing receiver");
	__CPROVER_assert(res == KSI_OK || res == KSI_INVALID_ARGUMENT || (res == KSI_OUT_OF_MEMORY && g_alloc_failed > 0), "result create: OK or an error code with a cause");
	__CPROVER_assert(IMPLIES(haveOut && g_alloc_failed == 0, res == KSI_OK), "result create: no failed allocation => success");
	if (res != KSI_OK) {
		__CPROVER_assert(r == &sentinel && g_live == live0, "result create failed: receiver untouched, nothing allocated by the call survives (partly built lists released)");
		if (res == KSI_OUT_OF_MEMORY && g_live == live0 && g_alloc_failed == 1) REACH("result create: one allocation failed");
		return;
	}
	__CPROVER_assert(r != &sentinel && r->ref == 1 && r->ruleResults != NULL && r->policyResults != NULL && r->ruleResults != r->policyResults, "result create ok: one reference, two distinct result lists");
	__CPROVER_assert(KSI_RuleVerificationResultList_length(r->ruleResults) == 0 && KSI_RuleVerificationResultList_length(r->policyResults) == 0, "result create ok: both lists empty");
	__CPROVER_assert(r->finalResult.resultCode == KSI_VER_RES_NA && r->finalResult.errorCode == KSI_VER_ERR_GEN_2 && r->finalResult.statusMessage == NULL && r->finalResult.ruleName == NULL && r->finalResult.policyName == NULL && r->finalResult.status == KSI_OK
			&& r->finalResult.stepsPerformed == 0 && r->finalResult.stepsSuccessful == 0 && r->finalResult.stepsFailed == 0, "result create ok: the final result is initialised (NA / GEN-2, no message, no steps)");
	__CPROVER_assert(g_live == live0 + 5, "result create ok: exactly five blocks (object + two lists of two blocks)");
	liveNew = g_live;

	/* a verdict with a status message is recorded once as rule result and once as policy result */
	r->finalResult.statusMessage = msg = nondet_bool() ? mk_str(STR_MAX + 1) : NULL; r->finalResult.resultCode = KSI_VER_RES_FAIL; r->finalResult.ruleName = "r";
	liveNew = g_live; g_alloc_failed = 0;
	ra = PolicyVerificationResult_addLatestRuleResult(r);
	nr = KSI_RuleVerificationResultList_length(r->ruleResults);
	__CPROVER_assert(ra == KSI_OK || (ra == KSI_OUT_OF_MEMORY && g_alloc_failed > 0), "add rule result: OK, or out-of-memory with a failed allocation");
	__CPROVER_assert(nr == (ra == KSI_OK ? 1 : 0) && r->finalResult.statusMessage == msg, "add rule result: stored iff OK; the verdict keeps its own message");
	__CPROVER_assert(IMPLIES(ra != KSI_OK, g_live == liveNew), "add rule result failed: the copy (and its message copy) is released, nothing survives");
	if (ra != KSI_OK && msg != NULL && g_alloc_failed == 1) REACH("add rule result: an allocation failed with a message to copy");
	if (ra == KSI_OK) {
		KSI_RuleVerificationResult *e = NULL;
		KSI_RuleVerificationResultList_elementAt(r->ruleResults, 0, &e);
		__CPROVER_assert(e != NULL && e != &r->finalResult && e->resultCode == KSI_VER_RES_FAIL && (e->statusMessage == NULL || e->statusMessage != msg), "add rule result ok: a private copy (never sharing the message buffer)");
		if (msg != NULL && e->statusMessage == NULL) REACH("add rule result ok although the message copy failed (message dropped on purpose)");
	}
	rb = PolicyVerificationResult_addLatestPolicyResult(r);
	np = KSI_RuleVerificationResultList_length(r->policyResults);
	__CPROVER_assert(np == (rb == KSI_OK ? 1 : 0) && nr == KSI_RuleVerificationResultList_length(r->ruleResults), "add policy result: stored iff OK, rule results untouched");

	/* references */
	r2 = KSI_PolicyVerificationResult_ref(r);
	__CPROVER_assert(r2 == r && r->ref == 2, "ref: second reference");
	{ long l = g_live; KSI_PolicyVerificationResult_free(r2); __CPROVER_assert(r->ref == 1 && g_live == l, "free of a shared result only drops the reference"); }
	KSI_PolicyVerificationResult_free(r);
	__CPROVER_assert(g_live == live0, "result: the last free releases the object, both lists, every stored copy and every message exactly once");
	if (ra == KSI_OK && rb == KSI_OK && msg != NULL) REACH("result with two stored copies and messages freed");
	KSI_PolicyVerificationResult_free(NULL);
}
#endif

#ifdef H_vctx
void harness(void) {
	KSI_VerificationContext vc, before; VerificationTempData td; static char hobj, cobj, pobj, sig, dh, up, upf; int haveVc = nondet_bool(), haveCtx = nondet_bool(), res;
	/* an arbitrary earlier state */
	vc.ctx = nondet_bool() ? CTX : NULL; vc.signature = nondet_bool() ? (KSI_Signature *)&sig : NULL; vc.extendingAllowed = nondet_int(); vc.docAggrLevel = nondet_ull();
	vc.documentHash = nondet_bool() ? (KSI_DataHash *)&dh : NULL; vc.userPublication = nondet_bool() ? (KSI_PublicationData *)&up : NULL; vc.userPublicationsFile = nondet_bool() ? (KSI_PublicationsFile *)&upf : NULL; vc.tempData = nondet_bool() ? &td : NULL;
	before = vc; g_live = 3;

	res = KSI_VerificationContext_init(haveVc ? &vc : NULL, haveCtx ? CTX : NULL);

	REACH("VerificationContext_init returns");
	__CPROVER_assert((res == KSI_OK) == (haveVc && haveCtx) && (res == KSI_OK || res == KSI_INVALID_ARGUMENT), "context init: OK exactly for two arguments, else KSI_INVALID_ARGUMENT");
	if (res != KSI_OK) {
		__CPROVER_assert(vc.ctx == before.ctx && vc.signature == before.signature && vc.extendingAllowed == before.extendingAllowed && vc.docAggrLevel == before.docAggrLevel && vc.documentHash == before.documentHash
				&& vc.userPublication == before.userPublication && vc.userPublicationsFile == before.userPublicationsFile && vc.tempData == before.tempData, "context init failed: the context is exactly as it was");
		REACH("context init refused");
	} else {
		__CPROVER_assert(vc.ctx == CTX && vc.signature == NULL && vc.extendingAllowed == 0 && vc.docAggrLevel == 0 && vc.documentHash == NULL && vc.userPublication == NULL && vc.userPublicationsFile == NULL && vc.tempData == NULL, "context init ok: every field empty, the KSI context recorded");
	}
	__CPROVER_assert(g_live == 3 && g_alloc_failed == 0, "context init: allocates nothing");

	/* the caller fills the public fields; a verification run leaves temporaries behind (tempData) */
	vc.signature = (KSI_Signature *)&sig; vc.documentHash = (KSI_DataHash *)&dh; vc.userPublication = (KSI_PublicationData *)&up; vc.userPublicationsFile = (KSI_PublicationsFile *)&upf;
	g_hash_obj = nondet_bool() ? (KSI_DataHash *)&hobj : NULL; g_chain_obj = nondet_bool() ? (KSI_CalendarHashChain *)&cobj : NULL; g_pub_obj = nondet_bool() ? (KSI_PublicationsFile *)&pobj : NULL;
	td.aggregationOutputHash = g_hash_obj; td.calendarChain = g_chain_obj; td.publicationsFile = g_pub_obj;
	vc.tempData = nondet_bool() ? &td : NULL;
	g_hash_freed = g_chain_freed = g_pub_freed = g_other_freed = 0;
	before = vc;

	KSI_VerificationContext_clean(&vc);

	REACH("VerificationContext_clean returns");
	__CPROVER_assert(vc.tempData == NULL, "context clean: no temporaries remain attached");
	if (before.tempData != NULL) {
		__CPROVER_assert(g_hash_freed == (g_hash_obj != NULL) && g_chain_freed == (g_chain_obj != NULL) && g_pub_freed == (g_pub_obj != NULL), "context clean: every temporary is released exactly once");
		__CPROVER_assert(td.aggregationOutputHash == NULL && td.calendarChain == NULL && td.publicationsFile == NULL, "context clean: released temporaries are forgotten (no dangling pointer)");
		if (g_hash_obj != NULL && g_chain_obj != NULL && g_pub_obj != NULL) REACH("context clean released three temporaries");
	} else __CPROVER_assert(g_hash_freed + g_chain_freed + g_pub_freed == 0, "context clean: nothing to release without temporaries");
	__CPROVER_assert(g_other_freed == 0 && vc.signature == before.signature && vc.documentHash == before.documentHash && vc.userPublication == before.userPublication && vc.userPublicationsFile == before.userPublicationsFile && vc.ctx == before.ctx,
			"context clean: what the caller supplied (signature, document hash, publication, publications file) is neither released nor changed");
	/* cleaning again (and cleaning nothing) is harmless */
	KSI_VerificationContext_clean(&vc); KSI_VerificationContext_clean(NULL);
	__CPROVER_assert(g_hash_freed <= 1 && g_chain_freed <= 1 && g_pub_freed <= 1 && g_other_freed == 0, "context clean twice: nothing is released a second time");
	__CPROVER_assert(g_live == 3, "context init / clean: no funnel block is allocated or released");
}
#endif
