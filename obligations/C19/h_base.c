/* C19: the allocation funnels of the REAL base.c are pass-throughs of malloc / calloc / free. */
#include "env/common.h"
size_t g_ba_w;   /* witness byte index for the zero-initialisation clause of KSI_calloc */
#include "contracts/c19_base_alloc.h"
#include "base.c"

#ifdef H_ba_malloc
void harness(void) { void *p = KSI_malloc(nondet_size()); REACH("KSI_malloc returns"); if (p == NULL) REACH("KSI_malloc: allocation failed"); else REACH("KSI_malloc: block"); }
#endif
#ifdef H_ba_calloc
void harness(void) { void *p; g_ba_w = nondet_size(); p = KSI_calloc(nondet_size(), nondet_size()); REACH("KSI_calloc returns"); if (p == NULL) REACH("KSI_calloc: allocation failed"); else REACH("KSI_calloc: block"); }
#endif
#ifdef H_ba_free
void harness(void) { void *p = nondet_bool() ? malloc(16) : NULL; KSI_free(p); REACH("KSI_free returns"); if (p != NULL) REACH("KSI_free released a block"); }
#endif
