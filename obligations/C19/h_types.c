/* C19: constructors of types_base.c under allocation failure (plain mode, small buffers):
 * KSI_OctetString_new, KSI_Utf8String_new, KSI_Integer_new.  Real file included unmodified; the allocation
 * funnels count live blocks (env/c19_alloc_env.h).  Every malloc may fail, in every combination. */
#include "env/common.h"
#include "env/c19_alloc_env.h"
#include "types_base.h"
#include "types_base.c"

struct KSI_CTX_st { int dummy; };
static struct KSI_CTX_st g_ctx_obj;
#define BUF_MAX 4

#ifdef H_octet
void harness(void) {
	unsigned char buf[BUF_MAX]; size_t len = nondet_size(), i; static struct KSI_OctetString_st sentinel; KSI_OctetString *out = &sentinel;
	KSI_CTX *ctx = nondet_bool() ? &g_ctx_obj : NULL; const unsigned char *data = nondet_bool() ? buf : NULL; int haveOut = nondet_bool(); int res; long live0;
	if (len > BUF_MAX) return;
	for (i = 0; i < BUF_MAX; i++) buf[i] = nondet_uchar();
	g_live = 3; g_alloc_failed = 0; live0 = g_live;
	res = KSI_OctetString_new(ctx, data, len, haveOut ? &out : NULL);
	REACH("OctetString_new returns");
	__CPROVER_assert((res == KSI_INVALID_ARGUMENT) == (ctx == NULL || (data == NULL && len != 0) || !haveOut), "octet string: bad arguments are refused, and only they, with KSI_INVALID_ARGUMENT");
	__CPROVER_assert(res == KSI_OK || res == KSI_INVALID_ARGUMENT || (res == KSI_OUT_OF_MEMORY && g_alloc_failed > 0), "octet string: OK or an error code with a cause");
	if (res != KSI_OK) {
		__CPROVER_assert(out == &sentinel && g_live == live0, "octet string failed: receiver untouched, nothing allocated by the call survives");
		if (res == KSI_OUT_OF_MEMORY && g_live == live0 && len > 0) REACH("octet string: an allocation failed");
	} else {
		__CPROVER_assert(out != &sentinel && out->ref == 1 && out->data_len == len && out->ctx == ctx && g_live == live0 + 1 + (len > 0 ? 1 : 0), "octet string ok: one object (+ one buffer)");
		for (i = 0; i < len; i++) __CPROVER_assert(out->data[i] == buf[i], "octet string ok: a private copy of the bytes");
		__CPROVER_assert(len == 0 || out->data != buf, "octet string ok: the caller's buffer is not kept");
		KSI_OctetString_free(out);
		__CPROVER_assert(g_live == live0, "octet string: free releases everything");
		if (len == BUF_MAX) REACH("octet string of 4 bytes made and freed");
	}
}
#endif

#ifdef H_utf8
void harness(void) {
	char buf[BUF_MAX]; size_t len = nondet_size(), i; static struct KSI_Utf8String_st sentinel; KSI_Utf8String *out = &sentinel;
	KSI_CTX *ctx = nondet_bool() ? &g_ctx_obj : NULL; const char *str = nondet_bool() ? buf : NULL; int haveOut = nondet_bool(); int res; long live0;
	if (len > BUF_MAX) return;
	for (i = 0; i < BUF_MAX; i++) buf[i] = (char)nondet_uchar();
	g_live = 3; g_alloc_failed = 0; live0 = g_live;
	res = KSI_Utf8String_new(ctx, str, len, haveOut ? &out : NULL);
	REACH("Utf8String_new returns");
	__CPROVER_assert((res == KSI_INVALID_ARGUMENT) == (ctx == NULL || str == NULL || !haveOut), "utf8 string: bad arguments are refused with KSI_INVALID_ARGUMENT");
	if (res != KSI_OK) {
		__CPROVER_assert(out == &sentinel && g_live == live0, "utf8 string failed: receiver untouched, nothing allocated by the call survives");
		__CPROVER_assert(res == KSI_INVALID_ARGUMENT || res == KSI_INVALID_FORMAT || res == KSI_BUFFER_OVERFLOW /* truncated multi-byte sequence */ || (res == KSI_OUT_OF_MEMORY && g_alloc_failed > 0), "utf8 string: an error code with a cause");
		if (res == KSI_OUT_OF_MEMORY && g_alloc_failed == 1) REACH("utf8 string: one allocation failed");
		if (res == KSI_INVALID_FORMAT && len > 0 && buf[len - 1] == 0) REACH("utf8 string: malformed utf-8 refused");
	} else {
		__CPROVER_assert(len > 0 && buf[len - 1] == 0, "utf8 string ok: the input was null-terminated");
		__CPROVER_assert(out != &sentinel && out->ref == 1 && out->len == len && g_live == live0 + 2, "utf8 string ok: one object + one buffer");
		for (i = 0; i < len; i++) __CPROVER_assert(out->value[i] == buf[i], "utf8 string ok: a private copy of the bytes");
		KSI_Utf8String_free(out);
		__CPROVER_assert(g_live == live0, "utf8 string: free releases everything");
		if (len == BUF_MAX && (unsigned char)buf[0] >= 0x80) REACH("multi-byte utf8 string made and freed");
	}
}
#endif

#ifdef H_integer
void harness(void) {
	static struct KSI_Integer_st sentinel; KSI_Integer *out = &sentinel; KSI_uint64_t v = nondet_ull(); int haveOut = nondet_bool(); int res; long live0;
	g_live = 3; g_alloc_failed = 0; live0 = g_live;
	res = KSI_Integer_new(nondet_bool() ? &g_ctx_obj : NULL, v, haveOut ? &out : NULL);
	REACH("Integer_new returns");
	__CPROVER_assert((res == KSI_INVALID_ARGUMENT) == !haveOut, "integer: a missing receiver is refused with KSI_INVALID_ARGUMENT");
	if (res != KSI_OK) {
		__CPROVER_assert(out == &sentinel && g_live == live0 && (res == KSI_INVALID_ARGUMENT || (res == KSI_OUT_OF_MEMORY && g_alloc_failed > 0)), "integer failed: receiver untouched, nothing survives, error with a cause");
		if (res == KSI_OUT_OF_MEMORY) REACH("integer: allocation failed");
	} else {
		__CPROVER_assert(out != &sentinel && out->value == v && (v < integerPoolSize || out->ref == 1), "integer ok: carries the value (one reference when allocated)");
		__CPROVER_assert(g_live == live0 + (v >= integerPoolSize ? 1 : 0), "integer ok: small values come from the static pool, others are one block");
		KSI_Integer_free(out);
		__CPROVER_assert(g_live == live0, "integer: free releases the block (and never a pool entry)");
		__CPROVER_assert(v >= integerPoolSize || (integerPool[v].ref == 0 && integerPool[v].value == v), "integer: pool entries are never modified");
		if (v < integerPoolSize) REACH("pooled integer"); else REACH("allocated integer");
	}
}
#endif
