/* C19 (builderQ): the REAL list.c insertElementAt in CONTRACT mode - the formulation that closes where the plain-mode
 * job C19.list_insertAt did not.  appendElement is replaced by its contract (contracts/list_array.h, enforced on the
 * real body by C19.list_append_contract), the shift loop is closed by a loop contract with the witness pair
 * (g_lw, g_lv = g_lw - 1); every allocation may fail (inside the appendElement contract: OOM whenever the array
 * has to grow).  The array capacity is symbolic up to Q_LIST_MAX. */
#include "env/common.h"
#include "env/list_alloc_env.h"
#include "env/list_env.h"
#include "list.h"
#include "list.c"
#include "contracts/list_qinsert.h"

#ifndef Q_LIST_MAX
#define Q_LIST_MAX 4
#endif
static struct KSI_List_st q_list;
static struct listImpl_st q_impl;

static int q_mk(void) {
	q_impl.arr_size = nondet_size(); q_impl.arr_len = nondet_size(); q_impl.arr = NULL;
	if (q_impl.arr_size != 0) {
		if (q_impl.arr_size > Q_LIST_MAX) return 0;
		q_impl.arr = malloc(q_impl.arr_size * sizeof(struct listEl_st));
		if (q_impl.arr == NULL) return 0;
	}
	q_list.pImpl = &q_impl; q_list.obj_free = nondet_bool() ? list_stub_free : NULL;
	g_lw = nondet_size(); g_lv = nondet_size();
	g_lold_w = (q_impl.arr != NULL && g_lw < q_impl.arr_size) ? q_impl.arr[g_lw].ptr : NULL;
	g_lold_v = (q_impl.arr != NULL && g_lv < q_impl.arr_size) ? q_impl.arr[g_lv].ptr : NULL;
	g_lfree_calls = 0; g_lfree_last = NULL; g_live = 5;
	return 1;
}

#ifdef H_q_insert
void harness(void) {
	void *obj = nondet_ptr(); size_t pos = nondet_size(); size_t len0, size0; int res;
	if (!q_mk()) return;
	g_q_len0 = len0 = q_impl.arr_len; g_q_pos = pos; size0 = q_impl.arr_size;
	res = insertElementAt(&q_list, pos, obj);
	REACH("insertAt returns");
	__CPROVER_assert(g_lfree_calls == 0, "insertAt: no element is destroyed");
	if (res == KSI_OK && len0 == size0 && pos + 1 < len0) REACH("inserted into the middle of a full array (array re-allocated)");
	if (res == KSI_OK && len0 < size0 && pos == 0 && len0 >= 3) REACH("inserted at the front without growth");
	if (res == KSI_OK && pos + 1 == len0) REACH("inserted before the last element");
	if (res == KSI_OUT_OF_MEMORY) REACH("insertAt: growth failed");
	if (res == KSI_BUFFER_OVERFLOW && pos == len0 && len0 > 0) REACH("insertAt at the end is refused");
	if (res == KSI_INVALID_STATE) REACH("insertAt into a list without array is refused");
}
#endif

#ifdef H_q_append      /* enforces the re-ordered appendElement contract of contracts/list_qinsert.h (with Q_APPEND_ENFORCED) */
void harness(void) {
	void *obj = nondet_ptr(); size_t len0, size0; int res;
	if (!q_mk()) return;
	len0 = q_impl.arr_len; size0 = q_impl.arr_size;
	res = appendElement(&q_list, obj);
	REACH("append returns");
	__CPROVER_assert(g_lfree_calls == 0, "append: no element is destroyed");
	if (res == KSI_OK && len0 > 0 && len0 == size0) REACH("append grew a non-empty array");
	if (res == KSI_OK && size0 == 0) REACH("append allocated the first array");
	if (res == KSI_OK && len0 < size0) REACH("append without growth");
	if (res == KSI_OUT_OF_MEMORY) REACH("append: allocation failed");
}
#endif
