/* C19 (builderQ): hashchain.c under allocation failure - plain mode, REAL hashchain.c + types_base.c (lists: model list of env/c19_oom2_list_model.h), real blocks
 * through the counting funnels of env/c19_alloc_env.h, every malloc/calloc may fail in every combination.
 *   H_hc_new       KSI_HashChainLink_new/free, KSI_AggregationHashChain_new/free, KSI_CalendarHashChain_new/free
 *   H_hc_identity  hashChainLink_getIdentity + KSI_AggregationHashChain_getIdentity (list building, <= HC_LINKS links)
 *   H_hc_aggr      KSI_AggregationHashChain_aggregate and KSI_CalendarHashChain_aggregate end to end over the real
 *                  aggregateChain (<= HC_LINKS links) with failing hasher / allocations: memo state after a failure,
 *                  repeat, release */
#include "env/common.h"
#include "env/c19_oom2_alloc_env.h"
#include <string.h>
#include "hashchain.h"
#include "env/c19_oom2_list_model.h"
/* the real KSI_OctetString_LegacyId_getUtf8String stays in the TU under another name; hashchain.c gets the stub below:
 * the real one sizes the new string by an octet of the id, and a symbolic allocation size exhausts CBMC's memory */
#define KSI_OctetString_LegacyId_getUtf8String real_KSI_OctetString_LegacyId_getUtf8String
#include "types_base.c"
#undef KSI_OctetString_LegacyId_getUtf8String
int KSI_OctetString_LegacyId_getUtf8String(const KSI_OctetString *id, KSI_Utf8String **str) {
	if (id == NULL || str == NULL) return KSI_INVALID_ARGUMENT;
	return KSI_Utf8String_new(id->ctx, "a", 2, str);          /* a fresh string (2 funnel blocks), or KSI_OUT_OF_MEMORY */
}
#include "env/c19_oom2_hc_env.h"
#include "hashchain.c"

static void ql_destroy(KSI_List *l, void *e) {
	if (l->obj_free == (void (*)(void *))KSI_Integer_free) KSI_Integer_free(e);
	else if (l->obj_free == (void (*)(void *))KSI_HashChainLink_free) KSI_HashChainLink_free(e);
	else if (l->obj_free == (void (*)(void *))KSI_HashChainLinkIdentity_free) KSI_HashChainLinkIdentity_free(e);
	else __CPROVER_assert(l->obj_free == NULL, "harness: only integer / link / identity lists are built");
}
#ifndef HC_LINKS
#define HC_LINKS 2
#endif
static struct KSI_CTX_st g_ctx_obj;
#define CTX (&g_ctx_obj)
/* an allocated (never pooled) integer */
static KSI_Integer *mk_int(void) { KSI_Integer *i = NULL; if (KSI_Integer_new(CTX, 0x12345, &i) != KSI_OK) return NULL; return i; }   /* constant: a symbolic value keeps the 256-entry pool alive in every later dereference */
static KSI_Utf8String *mk_str(void) { KSI_Utf8String *s = NULL; if (KSI_Utf8String_new(CTX, "a", 2, &s) != KSI_OK) return NULL; return s; }

#ifdef H_hc_new
void harness(void) {
	long live0; int res;
	g_live = 7; g_alloc_failed = 0; g_hc_hash_freed = 0; g_hc_md_freed = 0; live0 = g_live;
#if HC_WHICH == 0
	{
		static struct KSI_HashChainLink_st sentinel; KSI_HashChainLink *l = &sentinel; int haveOut = nondet_bool(); KSI_CTX *ctx = nondet_bool() ? CTX : NULL;
		res = KSI_HashChainLink_new(ctx, haveOut ? &l : NULL);
		REACH("HashChainLink_new returns");
		__CPROVER_assert((res == KSI_INVALID_ARGUMENT) == (ctx == NULL || !haveOut), "link new: bad arguments are refused, and only they, with KSI_INVALID_ARGUMENT");
		__CPROVER_assert(res == KSI_OK || res == KSI_INVALID_ARGUMENT || (res == KSI_OUT_OF_MEMORY && g_alloc_failed > 0), "link new: OK or an error code with its cause");
		if (res != KSI_OK) { __CPROVER_assert(l == &sentinel && g_live == live0, "link new failed: receiver untouched, nothing allocated survives"); if (res == KSI_OUT_OF_MEMORY) REACH("link new: allocation failed"); return; }
		__CPROVER_assert(l != &sentinel && l->ctx == ctx && l->isLeft == 0 && l->levelCorrection == NULL && l->legacyId == NULL && l->metaData == NULL && l->imprint == NULL && g_live == live0 + 1,
				"link new ok: one block, every field empty");
		/* fill it (every setter takes ownership), then release: every sub-object exactly once */
		{ KSI_Integer *lc = mk_int(); KSI_DataHash *h = hc_mk_hash(CTX); KSI_MetaDataElement *md = hc_mk_md(CTX); KSI_OctetString *id = NULL; unsigned char b[3] = {3, 0, 0}; long live1;
		  if (KSI_OctetString_new(CTX, b, 3, &id) != KSI_OK) id = NULL;
		  __CPROVER_assert(KSI_HashChainLink_setLevelCorrection(l, lc) == KSI_OK && KSI_HashChainLink_setImprint(l, h) == KSI_OK && KSI_HashChainLink_setMetaData(l, md) == KSI_OK && KSI_HashChainLink_setLegacyId(l, id) == KSI_OK && KSI_HashChainLink_setIsLeft(l, 1) == KSI_OK, "link setters succeed");
		  live1 = g_live;
		  KSI_HashChainLink_free(l);
		  __CPROVER_assert(g_live == live0 && g_hc_hash_freed == (h != NULL) && g_hc_md_freed == (md != NULL), "link free: the link and everything it owns is released exactly once");
		  if (lc != NULL && h != NULL && md != NULL && id != NULL) { __CPROVER_assert(live1 == live0 + 6, "filled link: link + integer + hash + meta-data + octet string (2 blocks)"); REACH("filled link released"); }
		}
	}
#elif HC_WHICH == 1
	{
		static struct KSI_AggregationHashChain_st sentinel; KSI_AggregationHashChain *a = &sentinel; int haveOut = nondet_bool(); KSI_CTX *ctx = nondet_bool() ? CTX : NULL;
		res = KSI_AggregationHashChain_new(ctx, haveOut ? &a : NULL);
		REACH("AggregationHashChain_new returns");
		__CPROVER_assert((res == KSI_INVALID_ARGUMENT) == (ctx == NULL || !haveOut), "aggregation chain new: bad arguments are refused, and only they");
		__CPROVER_assert(res == KSI_OK || res == KSI_INVALID_ARGUMENT || (res == KSI_OUT_OF_MEMORY && g_alloc_failed > 0), "aggregation chain new: OK or an error code with its cause");
		if (res != KSI_OK) { __CPROVER_assert(a == &sentinel && g_live == live0, "aggregation chain new failed: receiver untouched, nothing survives"); if (res == KSI_OUT_OF_MEMORY) REACH("aggregation chain new: allocation failed"); return; }
		__CPROVER_assert(a != &sentinel && a->ctx == ctx && a->ref == 1 && a->aggregationTime == NULL && a->chainIndex == NULL && a->inputData == NULL && a->inputHash == NULL && a->aggrHashId == NULL &&
				a->chain == NULL && a->outputHash == NULL && g_live == live0 + 1, "aggregation chain new ok: one block, one reference, every field empty");
		__CPROVER_assert((a->outputLevel < 0 || a->outputLevel > 0xff) && (a->inputLevel < 0 || a->inputLevel > 0xff), "aggregation chain new ok: the memo levels are out of range (nothing memoised)");
		{ KSI_Integer *id = mk_int(), *t = mk_int(), *ix = mk_int(); KSI_DataHash *in = hc_mk_hash(CTX), *out = hc_mk_hash(CTX); KSI_LIST(KSI_Integer) *idx = NULL; KSI_LIST(KSI_HashChainLink) *ch = NULL; KSI_HashChainLink *l = NULL; int all = 0;
		  if (KSI_IntegerList_new(&idx) != KSI_OK) idx = NULL;
		  if (idx != NULL && ix != NULL && KSI_List_append((KSI_List *)idx, ix) == KSI_OK) ix = NULL;
		  KSI_Integer_free(ix);
		  if (KSI_HashChainLinkList_new(&ch) != KSI_OK) ch = NULL;
		  if (ch != NULL && KSI_HashChainLink_new(CTX, &l) == KSI_OK) { if (KSI_List_append((KSI_List *)ch, l) != KSI_OK) KSI_HashChainLink_free(l); else all = 1; }
		  __CPROVER_assert(KSI_AggregationHashChain_setAggrHashId(a, id) == KSI_OK && KSI_AggregationHashChain_setAggregationTime(a, t) == KSI_OK && KSI_AggregationHashChain_setChainIndex(a, idx) == KSI_OK &&
				KSI_AggregationHashChain_setInputHash(a, in) == KSI_OK && KSI_AggregationHashChain_setChain(a, ch) == KSI_OK, "aggregation chain setters succeed");
		  a->outputHash = out;
		  __CPROVER_assert(KSI_AggregationHashChain_ref(a) == a && a->ref == 2, "ref: one more reference");
		  KSI_AggregationHashChain_free(a);
		  __CPROVER_assert(a->ref == 1 && g_hc_hash_freed == 0, "free with a second reference only drops the reference");
		  KSI_AggregationHashChain_free(a);
		  __CPROVER_assert(g_live == live0 && g_hc_hash_freed == (in != NULL) + (out != NULL), "aggregation chain free: the chain and everything it owns is released exactly once");
		  if (all && id != NULL && t != NULL && in != NULL && out != NULL && idx != NULL) REACH("filled aggregation chain released");
		}
	}
#else
	{
		static struct KSI_CalendarHashChain_st sentinel; KSI_CalendarHashChain *c = &sentinel; KSI_CTX *ctx = nondet_bool() ? CTX : NULL;
		res = KSI_CalendarHashChain_new(ctx, &c);
		REACH("CalendarHashChain_new returns");
		__CPROVER_assert(res == KSI_OK || (res == KSI_OUT_OF_MEMORY && g_alloc_failed > 0), "calendar chain new: OK or out of memory with a failed allocation");
		if (res != KSI_OK) { __CPROVER_assert(c == &sentinel && g_live == live0, "calendar chain new failed: receiver untouched, nothing survives"); REACH("calendar chain new: allocation failed"); return; }
		__CPROVER_assert(c != &sentinel && c->ctx == ctx && c->ref == 1 && c->publicationTime == NULL && c->aggregationTime == NULL && c->inputHash == NULL && c->hashChain == NULL && c->outputHash == NULL && g_live == live0 + 1,
				"calendar chain new ok: one block, one reference, every field empty");
		{ KSI_Integer *p = mk_int(), *t = mk_int(); KSI_DataHash *in = hc_mk_hash(CTX), *out = hc_mk_hash(CTX); KSI_LIST(KSI_HashChainLink) *ch = NULL;
		  if (KSI_HashChainLinkList_new(&ch) != KSI_OK) ch = NULL;
		  __CPROVER_assert(KSI_CalendarHashChain_setPublicationTime(c, p) == KSI_OK && KSI_CalendarHashChain_setAggregationTime(c, t) == KSI_OK && KSI_CalendarHashChain_setInputHash(c, in) == KSI_OK && KSI_CalendarHashChain_setHashChain(c, ch) == KSI_OK, "calendar chain setters succeed");
		  c->outputHash = out;
		  KSI_CalendarHashChain_free(c);
		  __CPROVER_assert(g_live == live0 && g_hc_hash_freed == (in != NULL) + (out != NULL), "calendar chain free: the chain and everything it owns is released exactly once");
		  if (p != NULL && t != NULL && in != NULL && out != NULL && ch != NULL) REACH("filled calendar chain released");
		}
	}
#endif
}
#endif

#ifdef H_hc_identity
/* a chain of n <= HC_LINKS links; link kinds: 0 = plain sibling hash (no identity), 1 = legacy id, 2 = meta-data */
static unsigned char legacy_raw[29] = {0x03, 0x00, 0x01, 'a', 0};      /* a well-formed legacy id with the 1-character name "a" */
static struct KSI_OctetString_st legacy_os;     /* static object (concrete content for the symbolic execution), never released: ref 1000 */
void harness(void) {
	static struct KSI_AggregationHashChain_st aggr; static struct KSI_HashChainLink_st lk[HC_LINKS]; int kind[HC_LINKS];
	static struct KSI_HashChainLinkIdentity_list_st sentinel; KSI_LIST(KSI_HashChainLinkIdentity) *out = &sentinel;
	KSI_List *chain = NULL; size_t n = nondet_size(), i, cnt = 0, legacy = 0; int haveOut = nondet_bool(), haveAggr = nondet_bool(); long live0; int res;
	size_t ref_c[HC_LINKS], ref_s[HC_LINKS];
	if (n > HC_LINKS) return;
#ifdef HC_EXACT
	if (n != HC_LINKS) return;      /* one chain length per job (shorter chains: the job with the smaller HC_LINKS) */
#endif
	g_live = 11; g_hc_hash_freed = 0; g_hc_md_freed = 0;
	legacy_os.ctx = CTX; legacy_os.ref = 1000; legacy_os.data = legacy_raw; legacy_os.data_len = sizeof(legacy_raw);
	if (KSI_List_new(NULL, &chain) != KSI_OK) return;       /* the links are statics of the harness: no destructor */
	for (i = 0; i < HC_LINKS; i++) if (i < n) {
		kind[i] = nondet_int();
		if (kind[i] < 0 || kind[i] > 2) return;
		lk[i].ctx = CTX; lk[i].isLeft = nondet_bool(); lk[i].levelCorrection = NULL; lk[i].legacyId = NULL; lk[i].metaData = NULL; lk[i].imprint = NULL;
		ref_c[i] = ref_s[i] = 0;
		if (kind[i] == 1) { lk[i].legacyId = &legacy_os; cnt++; legacy++; }
		if (kind[i] == 2) {
			KSI_MetaDataElement *m = hc_mk_md(CTX);
			if (m == NULL) return;
			m->clientId = mk_str(); if (m->clientId == NULL) return;       /* client id is mandatory in a meta-data element */
			if (nondet_bool()) { m->sequenceNr = mk_int(); if (m->sequenceNr == NULL) return; }
			lk[i].metaData = m; ref_c[i] = m->clientId->ref; ref_s[i] = m->sequenceNr != NULL ? m->sequenceNr->ref : 0; cnt++;
		}
		if (KSI_List_append(chain, &lk[i]) != KSI_OK) return;
	}
	aggr.ctx = CTX; aggr.ref = 1; aggr.chain = (KSI_LIST(KSI_HashChainLink) *)chain;
	g_alloc_failed = 0; live0 = g_live;
	res = KSI_AggregationHashChain_getIdentity(haveAggr ? &aggr : NULL, haveOut ? &out : NULL);
	REACH("getIdentity returns");
	__CPROVER_assert((res == KSI_INVALID_ARGUMENT) == (!haveAggr || !haveOut), "getIdentity: bad arguments are refused, and only they, with KSI_INVALID_ARGUMENT");
	__CPROVER_assert(res == KSI_OK || res == KSI_INVALID_ARGUMENT || (res == KSI_OUT_OF_MEMORY && g_alloc_failed > 0), "getIdentity: OK or an error code with its cause");
	if (res != KSI_OK) {
		__CPROVER_assert(out == &sentinel && g_live == live0, "getIdentity failed: receiver untouched, nothing allocated by the call survives");
		for (i = 0; i < HC_LINKS; i++) if (i < n && kind[i] == 2)
			__CPROVER_assert(lk[i].metaData->clientId->ref == ref_c[i] && (lk[i].metaData->sequenceNr == NULL || lk[i].metaData->sequenceNr->ref == ref_s[i]), "getIdentity failed: no reference to a meta-data field is kept");
		if (res == KSI_OUT_OF_MEMORY && g_alloc_failed == 1 && cnt == HC_LINKS) REACH("getIdentity: one allocation failed with every link carrying an identity");
	} else {
		struct ql_impl *im; size_t k = 0;
		__CPROVER_assert(out != &sentinel && out != NULL, "getIdentity ok: a list");
		im = ((KSI_List *)out)->pImpl;
		__CPROVER_assert(im->n == cnt, "getIdentity ok: one identity per link that carries a legacy id or meta-data");
		__CPROVER_assert(g_live == live0 + 2 + (cnt > 0 ? 1 : 0) + cnt + 2 * legacy, "getIdentity ok: list (2 blocks, + array), one block per identity, one string (2 blocks) per legacy id");
		/* order: from the LAST link of the chain (top of the tree) down to the first */
		for (i = HC_LINKS; i-- > 0;) if (i < n && kind[i] != 0) {
			KSI_HashChainLinkIdentity *id = im->arr[k++];
			__CPROVER_assert(id != NULL && id->ref == 1 && id->ctx == CTX, "getIdentity ok: identity object");
			if (kind[i] == 1) __CPROVER_assert(id->type == KSI_IDENTITY_TYPE_LEGACY_ID && id->clientId != NULL && id->clientId->len == 2 && id->clientId->value[0] == 'a' && id->clientId->value[1] == 0 &&
					id->machineId == NULL && id->sequenceNr == NULL && id->requestTime == NULL, "getIdentity ok: legacy identity = the name inside the legacy id, nothing else");
			else __CPROVER_assert(id->type == KSI_IDENTITY_TYPE_METADATA && id->clientId == lk[i].metaData->clientId && id->clientId->ref == ref_c[i] + 1 && id->machineId == NULL &&
					id->sequenceNr == lk[i].metaData->sequenceNr && (id->sequenceNr == NULL || id->sequenceNr->ref == ref_s[i] + 1) && id->requestTime == NULL,
					"getIdentity ok: meta-data identity shares the element's fields, one reference more each");
		}
#if HC_LINKS >= 2
		if (cnt == 2 && kind[0] != kind[1]) REACH("two identities of different kind, in reverse chain order");
#else
		if (cnt == 1) REACH("one identity");
#endif
		KSI_HashChainLinkIdentityList_free(out);
		__CPROVER_assert(g_live == live0, "getIdentity: releasing the result frees every block the call allocated");
		for (i = 0; i < HC_LINKS; i++) if (i < n && kind[i] == 2)
			__CPROVER_assert(lk[i].metaData->clientId->ref == ref_c[i] && (lk[i].metaData->sequenceNr == NULL || lk[i].metaData->sequenceNr->ref == ref_s[i]), "getIdentity: releasing the result gives the references back");
	}
}
#endif

#ifdef H_hc_aggr
/* End to end: KSI_AggregationHashChain_aggregate / KSI_CalendarHashChain_aggregate over the REAL aggregateChain,
 * dataHasher_addLinkImprint, dataHasher_addNvlImprint with n <= HC_LINKS sibling-hash links, hasher and hash blocks
 * from the counting funnels (each allocation and each hasher call may fail).  Statement (C19): a failed call leaves
 * the chain object consistent (no dangling memo, nothing leaked, out-parameters untouched), repeating the call can
 * succeed, a memoised result is served without any allocation, and releasing everything afterwards frees every
 * block exactly once. */
static struct KSI_HashChainLink_st lk[HC_LINKS];
static KSI_List *mk_chain(size_t n) {
	KSI_List *chain = NULL; size_t i;
	if (KSI_List_new(NULL, &chain) != KSI_OK) return NULL;
	for (i = 0; i < HC_LINKS; i++) if (i < n) {
		lk[i].ctx = CTX; lk[i].isLeft = nondet_bool(); lk[i].levelCorrection = NULL; lk[i].legacyId = NULL; lk[i].metaData = NULL;
		lk[i].imprint = hc_mk_hash(CTX);
		if (lk[i].imprint == NULL || KSI_List_append(chain, &lk[i]) != KSI_OK) return NULL;     /* harness gives up (blocks stay accounted in g_live) */
	}
	return chain;
}
void harness(void) {
	size_t n = nondet_size(); KSI_List *chain; long live0; int res, res2; KSI_DataHash *in; static struct KSI_DataHash_st sentinel; KSI_DataHash *root = &sentinel, *root2 = &sentinel;
	if (n > HC_LINKS) return;
	g_live = 13; g_hc_hash_freed = 0; g_hc_close_calls = 0;
	chain = mk_chain(n); in = hc_mk_hash(CTX);
	if (chain == NULL || in == NULL) return;
#ifdef HC_CALENDAR
	{ static struct KSI_CalendarHashChain_st c; unsigned closes1;
	  c.ctx = CTX; c.ref = 1; c.publicationTime = NULL; c.aggregationTime = NULL; c.inputHash = in; c.outputHash = NULL; c.hashChain = (KSI_LIST(KSI_HashChainLink) *)chain;
	  g_alloc_failed = 0; g_hc_env_failed = 0; live0 = g_live;
	  res = KSI_CalendarHashChain_aggregate(&c, &root);
	  REACH("calendar aggregate returns");
	  __CPROVER_assert(res == KSI_OK || g_alloc_failed > 0 || g_hc_env_failed > 0, "calendar aggregate: fails only when an allocation or the hasher failed");
	  __CPROVER_assert(IMPLIES(res == KSI_OUT_OF_MEMORY, g_alloc_failed > 0), "calendar aggregate: out-of-memory is reported only for a failed allocation");
	  if (res != KSI_OK) {
		__CPROVER_assert(root == &sentinel && c.outputHash == NULL && g_live == live0 && in->ref == 1, "calendar aggregate failed: receiver and memo untouched, nothing allocated by the call survives");
		if (g_alloc_failed == 1 && g_hc_env_failed == 0 && n == 2) REACH("calendar aggregate: one allocation failed in a 2-link chain");
	  } else {
		__CPROVER_assert(n > 0 ? (root != &sentinel && root != NULL && root == c.outputHash && root->ref == 2 && g_live == live0 + 1) : (root == NULL && c.outputHash == NULL && g_live == live0),
				"calendar aggregate ok: the root is memoised and handed out with a reference of its own (one new block); an empty chain yields no hash");
		__CPROVER_assert(g_hc_close_calls == n && g_hc_hash_freed == (n > 0 ? n - 1 : 0), "calendar aggregate ok: one hash per link, every intermediate one released");
	  }
	  /* repeat: the memo (if any) is served without allocating; after a failure the call may now succeed */
	  closes1 = g_hc_close_calls; g_alloc_failed = 0; g_hc_env_failed = 0;
	  res2 = KSI_CalendarHashChain_aggregate(&c, &root2);
	  if (res == KSI_OK && n > 0) __CPROVER_assert(res2 == KSI_OK && root2 == root && g_hc_close_calls == closes1 && root->ref == 3 && g_live == live0 + 1, "calendar aggregate: a memoised root is served again without hashing or allocating (cannot fail)");
	  if (res != KSI_OK && res2 == KSI_OK && n == 2) REACH("calendar aggregate: succeeds when repeated after a failure");
	  if (res2 != KSI_OK) __CPROVER_assert(root2 == &sentinel && (g_alloc_failed > 0 || g_hc_env_failed > 0), "calendar aggregate (repeat) failed: receiver untouched, with a cause");
	  /* release: the caller's references, then what KSI_CalendarHashChain_free releases */
	  if (res == KSI_OK) KSI_DataHash_free(root);
	  if (res2 == KSI_OK) KSI_DataHash_free(root2);
	  KSI_DataHash_free(c.outputHash); KSI_DataHash_free(c.inputHash);
	  __CPROVER_assert(g_live == live0 - 1, "calendar aggregate: afterwards everything can be released, every block exactly once");
	}
#else
	{ static struct KSI_AggregationHashChain_st a; KSI_Integer *algo = mk_int(); int start = nondet_int(), start2 = nondet_int(), end = -7, end2 = -7; int hadMemo = nondet_bool(); KSI_DataHash *memo = NULL; unsigned closes1;
	  if (algo == NULL) return;
	  if (hadMemo) { memo = hc_mk_hash(CTX); if (memo == NULL) return; }
	  a.ctx = CTX; a.ref = 1; a.aggregationTime = NULL; a.chainIndex = NULL; a.inputData = NULL; a.inputHash = in; a.aggrHashId = algo; a.chain = (KSI_LIST(KSI_HashChainLink) *)chain;
	  a.outputHash = memo; a.outputLevel = hadMemo ? nondet_int() : -1; a.inputLevel = hadMemo ? nondet_int() : 0x1ff;
	  if (hadMemo && (a.inputLevel < 0 || a.inputLevel > 0xff || a.outputLevel < a.inputLevel || a.outputLevel > 0xff)) return;
	  g_alloc_failed = 0; g_hc_env_failed = 0; live0 = g_live;
	  { int servedFromMemo = hadMemo && start == a.inputLevel, outLevel0 = a.outputLevel;
	  res = KSI_AggregationHashChain_aggregate(&a, start, &end, &root);
	  REACH("aggregate returns");
	  { int badLevel = start < 0 || start > 0xff || (!servedFromMemo && (start + (int)n > 0xff));
	  __CPROVER_assert(IMPLIES(res == KSI_INVALID_ARGUMENT, badLevel), "aggregate: KSI_INVALID_ARGUMENT only for a start level outside 0..255 or a chain leaving 0..255");
	  __CPROVER_assert(IMPLIES(badLevel, res != KSI_OK) && IMPLIES(badLevel && g_alloc_failed == 0 && g_hc_env_failed == 0, res == KSI_INVALID_ARGUMENT), "aggregate: a bad level is never accepted, and refused with KSI_INVALID_ARGUMENT unless something else failed first"); }
	  __CPROVER_assert(res == KSI_OK || res == KSI_INVALID_ARGUMENT || g_alloc_failed > 0 || g_hc_env_failed > 0, "aggregate: fails only for a bad level, a failed allocation or a failed hasher");
	  __CPROVER_assert(IMPLIES(res == KSI_OUT_OF_MEMORY, g_alloc_failed > 0), "aggregate: out-of-memory is reported only for a failed allocation");
	  if (res != KSI_OK) {
		__CPROVER_assert(root == &sentinel && end == -7 && in->ref == 1, "aggregate failed: receivers untouched, no reference kept");
		__CPROVER_assert((start < 0 || start > 0xff) ? (a.outputHash == memo && g_live == live0) : (a.outputHash == NULL && g_live == live0 - (hadMemo ? 1 : 0)),
				"aggregate failed: the memo is either untouched (bad start level) or dropped and released - never dangling; nothing else allocated survives");
		if (hadMemo && a.outputHash == NULL && g_alloc_failed == 1) REACH("aggregate: recomputation failed for lack of memory, stale memo dropped");
	  } else if (servedFromMemo) {
		__CPROVER_assert(root == memo && memo->ref == 2 && end == outLevel0 && g_hc_close_calls == 0 && g_live == live0, "aggregate ok (memo): served without hashing or allocating");
		REACH("aggregate served from the memo");
	  } else {
		__CPROVER_assert(end == start + (int)n && a.outputLevel == end && a.inputLevel == start, "aggregate ok: end level = start level + one per link (no level corrections here), memo keys updated");
		__CPROVER_assert(n > 0 ? (root != &sentinel && root != NULL && root == a.outputHash && root->ref == 2) : (root == NULL && a.outputHash == NULL), "aggregate ok: the new root is memoised and handed out with its own reference");
		__CPROVER_assert(g_live == live0 - (hadMemo ? 1 : 0) + (n > 0 ? 1 : 0), "aggregate ok: the stale memo is released, one new block for the root, every intermediate hash and the hasher released");
		if (hadMemo && n == 2) REACH("aggregate recomputed over a stale memo");
	  }
	  }
	  /* repeat with another (or the same) level, then release */
	  closes1 = g_hc_close_calls; g_alloc_failed = 0; g_hc_env_failed = 0;
	  res2 = KSI_AggregationHashChain_aggregate(&a, start2, &end2, &root2);
	  if (res == KSI_OK && start2 == start && a.outputHash != NULL) __CPROVER_assert(res2 == KSI_OK && root2 == root && end2 == end && g_hc_close_calls == closes1, "aggregate: the same level again is served from the memo (cannot fail)");
	  if (res != KSI_OK && res2 == KSI_OK && n == 2) REACH("aggregate: succeeds when repeated after a failure");
	  if (res2 != KSI_OK) __CPROVER_assert(root2 == &sentinel && end2 == -7, "aggregate (repeat) failed: receivers untouched");
	  if (res == KSI_OK) KSI_DataHash_free(root);
	  if (res2 == KSI_OK) KSI_DataHash_free(root2);
	  /* what KSI_AggregationHashChain_free releases of the objects involved */
	  KSI_DataHash_free(a.outputHash); KSI_DataHash_free(a.inputHash); KSI_Integer_free(a.aggrHashId);
	  __CPROVER_assert(g_live == live0 - 2 - (hadMemo ? 1 : 0), "aggregate: afterwards everything can be released, every block exactly once (a dangling memo would be a double free here)");
	}
#endif
}
#endif
