/* C10 legacy identifier: hashchain.c legacyId_verify and KSI_HashChainLink_LegacyId_fromTlv.  Real hashchain.c and
 * types_base.c included unmodified; the TLV is the opaque model of env/c10_tlv_value.h. */
#include "env/common.h"
#include "env/stubs_base.h"
#include "env/c10_tlv_value.h"
#include "hashchain.h"
#include "impl/hashchain_impl.h"
#include "types_base.c"
#include "contracts/hashchain_legacyid.h"
#include "hashchain.c"

#ifdef H_verify
void harness(void) {
	size_t n = nondet_size();
	int res = legacyId_verify(NULL, nondet_bool() ? NULL : nondet_ptr(), n);
	if (res == KSI_OK) REACH("accepted");
	if (res == KSI_INVALID_FORMAT && n == 29) REACH("rejected 29 octets");
	if (res == KSI_INVALID_FORMAT && n == 28) REACH("rejected 28 octets");
	if (res == KSI_INVALID_ARGUMENT) REACH("rejected NULL");
}
#endif

#ifdef H_verify_unwind
/* the same statement as the contract of contracts/hashchain_legacyid.h, checked by unwinding the padding loop to its
 * constant bound (at most 26 padding octets): width-complete.  (The contract-mode proof C10.legacyid_verify_contract
 * needs ~170 s and runs in the thorough tier.) */
void harness(void) {
	size_t n = nondet_size();
	unsigned char *p;
	int res;
	__CPROVER_assume(n <= LEGACYID_MAXBUF);
	p = malloc(n);
	__CPROVER_assume(p != NULL);
	res = legacyId_verify(NULL, p, n);
	__CPROVER_assert(IFF(res == KSI_OK, spec_legacyid_wellformed(p, n)), "legacy id: accepted <=> 29 octets, 03 00, length <= 25, zero padded");
	__CPROVER_assert(res == KSI_OK || res == KSI_INVALID_FORMAT, "legacy id: rejected with INVALID_FORMAT");
	__CPROVER_assert(legacyId_verify(NULL, NULL, n) == KSI_INVALID_ARGUMENT, "legacy id: NULL buffer is an invalid argument");
	if (res == KSI_OK) REACH("accepted");
	if (res == KSI_OK && p[2] == 25) REACH("accepted longest name");
	if (res == KSI_OK && p[2] == 0) REACH("accepted empty name");
	if (res == KSI_INVALID_FORMAT && n == 29) REACH("rejected 29 octets");
	if (res == KSI_INVALID_FORMAT && n == 28) REACH("rejected 28 octets");
}
#endif

#ifdef H_fromTlv
void harness(void) {
	static KSI_OctetString sentinel_obj;
	static char ctx_mem[8];
	struct KSI_TLV_st tlv;
	KSI_OctetString *out = &sentinel_obj;
	size_t n = nondet_size(), w = nondet_size();
	unsigned char *p;
	int res;
	__CPROVER_assume(n <= LEGACYID_MAXBUF);
	p = malloc(n);
	__CPROVER_assume(p != NULL);
	tlv.ctx = (KSI_CTX *)ctx_mem; tlv.datap = p; tlv.datap_len = n;
	tlv.raw_res = nondet_bool() ? KSI_OK : KSI_INVALID_ARGUMENT;
	res = KSI_HashChainLink_LegacyId_fromTlv(&tlv, &out);
	__CPROVER_assert(IMPLIES(res == KSI_OK, tlv.raw_res == KSI_OK && spec_legacyid_wellformed(p, n)), "legacy id TLV: accepted => well formed");
	__CPROVER_assert(IMPLIES(tlv.raw_res == KSI_OK && spec_legacyid_wellformed(p, n), res == KSI_OK || res == KSI_OUT_OF_MEMORY), "legacy id TLV: well formed => accepted (or out of memory)");
	__CPROVER_assert(IMPLIES(tlv.raw_res == KSI_OK && !spec_legacyid_wellformed(p, n), res == KSI_INVALID_FORMAT), "legacy id TLV: malformed => INVALID_FORMAT");
	__CPROVER_assert(IMPLIES(res != KSI_OK, out == &sentinel_obj), "legacy id TLV: output untouched on rejection");
	if (res == KSI_OK) {
		__CPROVER_assert(out != NULL && out != &sentinel_obj && out->ref == 1 && out->data_len == 29 && out->data != p, "legacy id TLV: object fields, private copy");
		if (w < 29) __CPROVER_assert(out->data[w] == p[w], "legacy id TLV: value equals the payload (witness index)");
		REACH("accepted");
	}
	if (res == KSI_INVALID_FORMAT && n == 29) REACH("rejected 29 octets");
}
#endif
