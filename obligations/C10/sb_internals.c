/* C10 (builderJ): the structural post-check on signatures, checkSignatureInternals (signature_builder.c:1028), as an
 * IFF against the schema predicate sb_sig_schema_ok (spec/sb_view.h), written from the property text / the KSI format:
 *   at least one aggregation hash chain;  publication record or calendar auth record only together with a calendar hash
 *   chain;  publication record and calendar auth record exclude each other.
 * (An RFC3161 record and an aggregation auth record are optional without structural side conditions at this level; their
 * consistency with the first aggregation chain is a verification rule, C01.)
 * Plain mode, loop-free, all inputs symbolic; the aggregation chain list is a model list of arbitrary length. */
#include "env/common.h"
#include "env/stubs_base.h"
#include "ksi.h"
#include "signature_builder.h"
#include "tlv.h"
#include "tlv_template.h"
#include "hashchain.h"
#include "net.h"
#include "impl/signature_impl.h"
#include "impl/signature_builder_impl.h"
#include "spec/sb_view.h"

static size_t g_len; static unsigned g_len_calls;
int g_check_code;                      /* replay hint: 1 = the job also demands the status code */
static size_t m_length(KSI_LIST(KSI_AggregationHashChain) *l) { g_len_calls++; return g_len; }
#include "signature_builder.c"

void harness(void) {
	static struct KSI_Signature_st sig; static struct KSI_AggregationHashChain_list_st lst; static char ctx_store[8];
	KSI_CTX *ctx = nondet_bool() ? (KSI_CTX *)(void *)ctx_store : NULL;
	_Bool withSig = nondet_bool(), withList = nondet_bool();
	int res, ok;
#ifdef H_code
	g_check_code = 1;
#else
	g_check_code = 0;
#endif
	lst.length = m_length; g_len = nondet_size(); g_len_calls = 0;
	sig.ctx = ctx; sig.aggregationChainList = withList ? &lst : NULL;
	sig.calendarChain = (KSI_CalendarHashChain *)nondet_ptr(); sig.calendarAuthRec = (KSI_CalendarAuthRec *)nondet_ptr();
	sig.publication = (KSI_PublicationRecord *)nondet_ptr(); sig.rfc3161 = (KSI_RFC3161 *)nondet_ptr();
	sig.aggregationAuthRec = (KSI_AggregationAuthRec *)nondet_ptr(); sig.baseTlv = (KSI_TLV *)nondet_ptr();
	{
		struct KSI_Signature_st before = sig;
		res = checkSignatureInternals(ctx, withSig ? &sig : NULL);
		__CPROVER_assert(sig.calendarChain == before.calendarChain && sig.calendarAuthRec == before.calendarAuthRec && sig.publication == before.publication &&
				sig.rfc3161 == before.rfc3161 && sig.aggregationAuthRec == before.aggregationAuthRec && sig.aggregationChainList == before.aggregationChainList &&
				sig.baseTlv == before.baseTlv, "the check does not modify the signature");
	}
	ok = sb_sig_schema_ok(withList ? g_len : 0, sig.calendarChain != NULL, sig.calendarAuthRec != NULL, sig.publication != NULL);
	__CPROVER_assert(IFF(res == KSI_OK, ctx != NULL && withSig && ok), "accepted exactly when the signature satisfies the structural schema");
	__CPROVER_assert(IMPLIES(ctx == NULL || !withSig, res == KSI_INVALID_ARGUMENT), "missing argument: KSI_INVALID_ARGUMENT");
#ifdef H_code
	__CPROVER_assert(IMPLIES(ctx != NULL && withSig && !ok, res == KSI_INVALID_FORMAT), "a schema violation is reported as KSI_INVALID_FORMAT");
#endif
	REACH("returned");
	if (res == KSI_OK) REACH("accepted");
	if (res == KSI_OK && sig.calendarChain == NULL) REACH("accepted without calendar chain");
	if (res == KSI_OK && sig.publication != NULL) REACH("accepted with publication record");
	if (res == KSI_OK && sig.calendarAuthRec != NULL) REACH("accepted with calendar auth record");
	if (res != KSI_OK && ctx != NULL && withSig && withList && g_len > 0 && sig.calendarChain == NULL) REACH("anchor without calendar chain refused");
	if (res != KSI_OK && ctx != NULL && withSig && withList && g_len > 0 && sig.calendarChain != NULL) REACH("both anchors refused");
	if (res != KSI_OK && ctx != NULL && withSig && withList && g_len == 0) REACH("no aggregation chain refused");
}
