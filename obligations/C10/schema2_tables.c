/* C10 schema tables, second part (builderO): every line of spec/ksi_schema2.h (configuration / acknowledgment payloads,
 * version-1 response payloads) asserted against the REAL constant template tables of tlv_template.c (included
 * unmodified).  Loop-free, constants only: proved.  Same comparison as obligations/C10/tables.c. */
#include "env/common.h"
#include "tlv.h"
#include "tlv_template.h"
#include "spec/ksi_schema2.h"
#include "tlv_template.c"

typedef int (*schema_fromtlv_t)(KSI_TLV *, void **);
#define VK_OBJ(fn)  (e->type == KSI_TLV_TEMPLATE_OBJECT && e->fromTlv == (schema_fromtlv_t)fn && e->parser == NULL)
#define VK_INT      (VK_OBJ(KSI_Integer_fromTlv) && e->subTemplate == NULL)
#define VK_UTF8     (VK_OBJ(KSI_Utf8String_fromTlv) && e->subTemplate == NULL)
#define VK_OCT      (VK_OBJ(KSI_OctetString_fromTlv) && e->subTemplate == NULL)
#define VK_IMP      (VK_OBJ(KSI_DataHash_fromTlv) && e->subTemplate == NULL)
#define VK_COMP(T2) (e->type == KSI_TLV_TEMPLATE_COMPOSITE && e->subTemplate == T2##_template && e->fromTlv == NULL && e->construct != NULL)

#define CHK(T, i, tag_, fl, mul, kind, mean) { \
	const KSI_TlvTemplate *e = &T##_template[i]; \
	__CPROVER_assert(e->tag == (tag_), "schema " #T "[" #i "] tag " #tag_ " (" mean ")"); \
	__CPROVER_assert((e->flags & KSI_SCHEMA_MASK) == (unsigned)(fl), "schema " #T "[" #i "] " #tag_ " flags == " #fl " (" mean ")"); \
	__CPROVER_assert(e->multiple == (mul) && ((mul) ? e->listAppend != NULL && e->listNew != NULL && e->listLength != NULL && e->listElementAt != NULL : e->listAppend == NULL), "schema " #T "[" #i "] " #tag_ " multiplicity " #mul " (" mean ")"); \
	__CPROVER_assert(VK_##kind, "schema " #T "[" #i "] " #tag_ " value kind " #kind " (" mean ")"); \
	__CPROVER_assert(e->setValue != NULL && e->getValue != NULL && e->destruct != NULL, "schema " #T "[" #i "] " #tag_ " has getter, setter, destructor (duplicate detection relies on the getter)"); }
#define CHK_END(T, n) \
	__CPROVER_assert(T##_template[n].tag == 0 && T##_template[n].type == -1 && sizeof(T##_template) / sizeof(T##_template[0]) == (n) + 1, "schema " #T ": exactly " #n " entries");

/* the payload entries of the PDU templates that refer to the tables above point at exactly these tables (the PDU
 * lines of spec/ksi_schema.h already say COMP(KSI_AggregationConf) etc.; repeated here for the v1 responses, which are
 * reached through the typed wrappers KSI_AggregationResp_fromTlv / KSI_ExtendResp_fromTlv) */
void harness(void) {
	KSI_SCHEMA_ALL_TLV_TEMPLATE_2(CHK)
	__CPROVER_assert(KSI_ExtendPdu_template[2].tag == 0x302 && KSI_ExtendPdu_template[2].subTemplate == KSI_ExtendResp_template,
		"schema KSI_ExtendPdu[2] 0x302: the version-1 extension response is parsed with the version-1 template");
	__CPROVER_assert(KSI_ExtendRespPdu_template[1].tag == 0x02 && KSI_ExtendRespPdu_template[1].subTemplate == KSI_ExtendResp_v2_template,
		"schema KSI_ExtendRespPdu[1] 0x02: the version-2 extension response is parsed with the version-2 template");
	REACH("all tables compared");
}
