/* C10 (builderO): verifyUtf8 of types_base.c for every payload length (loop contracts, witness position), and the
 * lemma that ties the per-position predicate to the whole-payload automaton of spec/utf8.h.
 * Real types_base.c included unmodified. */
#include "env/common.h"
#include "env/stubs_base.h"
#include "env/c10_tlv_value.h"
#ifdef H_utf8w
#include "contracts/types_base_utf8w.h"
#endif
#include "types_base.c"

#ifdef H_utf8w
void harness(void) {
	static char ctx_mem[8]; KSI_CTX *ctx = (KSI_CTX *)ctx_mem;   /* opaque, never dereferenced (error stubs) */
	size_t len = nondet_size();
	unsigned char *buf = malloc(len);
	int res;
	__CPROVER_assume(buf != NULL);
	g_u8w = nondet_size();
	res = verifyUtf8(ctx, buf, len);
	if (res == KSI_OK) REACH("accepted");
	if (res == KSI_OK && len > 1000 && g_u8w == 999 && buf[999] >= 0x80 && buf[999] <= 0xbf && buf[998] >= 0x80 && buf[998] <= 0xbf) REACH("accepted, long payload, witness inside a multi-octet character");
	if (res == KSI_INVALID_FORMAT) REACH("rejected: format");
	if (res == KSI_BUFFER_OVERFLOW) REACH("rejected: truncated");
}
#endif

#ifdef H_utf8w_lemma
/* lemma (about the SPEC, bounded): for every payload of <= LEMMA_N octets the whole-payload automaton accepts exactly
 * when the payload is NUL-terminated and every position satisfies the window predicate - so a contract that proves
 * the window predicate for an arbitrary witness position proves "accepted => spec_utf8_wellformed". */
#include "spec/utf8_window.h"
#ifndef LEMMA_N
#define LEMMA_N 7
#endif
void harness(void) {
	unsigned char b[LEMMA_N]; size_t len = nondet_size(), p, e; int all = 1;
	__CPROVER_assume(len <= LEMMA_N);
	for (p = 0; p < LEMMA_N; p++) b[p] = nondet_uchar();
	for (p = 0; p < LEMMA_N; p++) if (p < len && !spec_utf8_local(b, len, p)) all = 0;
	__CPROVER_assert(spec_utf8_wellformed(b, len) == (len >= 1 && b[len - 1] == 0 && all), "lemma: automaton accepts <=> NUL-terminated and every position locally well formed");
	p = nondet_size(); __CPROVER_assume(p < len);
	__CPROVER_assert(spec_utf8_upto(b, len, p, len) == spec_utf8_local(b, len, p), "lemma: upto(.., len) is the local predicate");
	e = nondet_size(); __CPROVER_assume(e <= len);
	__CPROVER_assert(IMPLIES(spec_utf8_wellformed(b, len) && (e == len || !spec_utf8_is_cont(b[e])), spec_utf8_upto(b, len, p, e)), "lemma: a well-formed payload satisfies upto at every character boundary");
	if (spec_utf8_wellformed(b, len) && len == LEMMA_N && b[0] >= 0xf0) REACH("well-formed payload at the bound");
	if (!spec_utf8_wellformed(b, len) && all && len > 1) REACH("all positions fine but no terminator");
}
#endif
