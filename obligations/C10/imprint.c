/* C10 imprint constructors of hash.c.  Real hash.c included unmodified; the TLV is the opaque model of
 * env/c10_tlv_value.h; the hash implementation behind KSI_DataHasher_* is not reached. */
#include "env/common.h"
#include "env/stubs_base.h"
#include "env/c10_tlv_value.h"
#include "hash.h"
#include "impl/hash_impl.h"
#include "impl/ctx_impl.h"
#include "contracts/hash_imprint.h"
#include "hash.c"

static KSI_DataHash sentinel_obj;

#ifdef H_fromDigest
void harness(void) {
	KSI_DataHash *out = &sentinel_obj;
	int alg = nondet_int();
	size_t n = nondet_size();
	int res;
	g_imp_w = nondet_size();
	res = KSI_DataHash_fromDigest(nondet_ptr(), alg, nondet_ptr(), n, &out);   /* pointers are shaped by the contract's requires */
	if (res == KSI_OK) REACH("accepted");
	if (res == KSI_OK && alg == KSI_HASHALG_SHA2_512) REACH("accepted 64 octet digest");
	if (res == KSI_INVALID_FORMAT) REACH("rejected: length mismatch");
	if (res == KSI_UNAVAILABLE_HASH_ALGORITHM && alg == 3) REACH("rejected: withdrawn algorithm id 3");
}
#endif

#ifdef H_fromImprint
void harness(void) {
	KSI_DataHash *out = &sentinel_obj;
	size_t n = nondet_size();
	int res;
	g_imp_w = nondet_size();
	res = KSI_DataHash_fromImprint(nondet_ptr(), nondet_ptr(), n, &out);
	if (res == KSI_OK) REACH("accepted");
	if (res != KSI_OK) REACH("rejected");
}
#endif

#ifdef H_fromImprint_empty
/* the remaining case of the KSI_DataHash_fromImprint contract: imprint_length == 0 (an empty TLV payload, e.g. the
 * octets "05 00" at the very end of a buffer).  Plain mode, the same postconditions: rejected, output untouched, and
 * - checked by the pointer checks - not a single octet of the (empty) buffer is read. */
void harness(void) {
	KSI_DataHash *out = &sentinel_obj;
	unsigned char hdr[2] = {0x05, 0x00};
	int res;
	res = KSI_DataHash_fromImprint(NULL, hdr + 2, 0, &out);
	__CPROVER_assert(res != KSI_OK, "empty imprint: rejected");
	__CPROVER_assert(out == &sentinel_obj, "empty imprint: output untouched");
	REACH("returns");
}
#endif

#ifdef H_fromTlv
/* TLV payload -> imprint; KSI_DataHash_fromImprint replaced by its contract (enforced by the two fromImprint jobs) */
void harness(void) {
	struct KSI_TLV_st tlv;
	KSI_DataHash *out = &sentinel_obj;
	size_t n = nondet_size();
	unsigned char *p;
	int res;
	g_imp_w = nondet_size();
	__CPROVER_assume(n <= IMPRINT_MAXBUF);
	p = malloc(n);
	__CPROVER_assume(p != NULL);
	tlv.ctx = NULL; tlv.datap = p; tlv.datap_len = n;
	tlv.raw_res = nondet_bool() ? KSI_OK : KSI_INVALID_ARGUMENT;
	res = KSI_DataHash_fromTlv(&tlv, &out);
	__CPROVER_assert(IMPLIES(res == KSI_OK, tlv.raw_res == KSI_OK && spec_imprint_wellformed(p, n)), "imprint TLV: accepted => known algorithm and exact length");
	__CPROVER_assert(IMPLIES(tlv.raw_res == KSI_OK && spec_imprint_wellformed(p, n), res == KSI_OK || res == KSI_OUT_OF_MEMORY), "imprint TLV: well formed => accepted (or out of memory)");
	__CPROVER_assert(IMPLIES(tlv.raw_res != KSI_OK, res == tlv.raw_res), "imprint TLV: TLV error propagated");
	__CPROVER_assert(IMPLIES(res != KSI_OK, out == &sentinel_obj), "imprint TLV: output untouched on rejection");
	if (res == KSI_OK) {
		__CPROVER_assert(out != NULL && out != &sentinel_obj && out->ref == 1 && out->imprint_length == n, "imprint TLV: object fields");
		__CPROVER_assert(out->imprint[0] == p[0], "imprint TLV: algorithm octet equals the payload");
		if (g_imp_w + 1 < n) __CPROVER_assert(out->imprint[g_imp_w + 1] == p[g_imp_w + 1], "imprint TLV: imprint equals the payload (witness index)");
		REACH("accepted");
	}
	if (res != KSI_OK && n == 0 && tlv.raw_res == KSI_OK) REACH("rejected: empty payload");
	if (res != KSI_OK && n == 33 && tlv.raw_res == KSI_OK) REACH("rejected: 33 octets");
}
#endif
