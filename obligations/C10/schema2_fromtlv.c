/* C10 (builderO): the typed _fromTlv wrappers between the template engine and the PDU / signature / publications-file
 * parsers: KSI_Header_fromTlv and KSI_PublicationData_fromTlv (the two instances of KSI_IMPLEMENT_FROMTLV),
 * the hand-written variants KSI_AggregationReq/Resp_fromTlv, KSI_ExtendReq/Resp_fromTlv (template chosen by tag:
 * version 1 / version 2 schema) and KSI_MetaDataElement_fromTlv.
 * What C10 needs from a wrapper: the element is accepted EXACTLY when its tag is the wrapper's tag and the template
 * engine accepts it under the schema table that belongs to that tag (engine: C10.engine, tables: C10.tables*);
 * nothing is handed out otherwise; nothing is leaked (C12/C19).
 * Real types.c / publicationsfile.c included unmodified; loop-free: plain mode, postconditions asserted after the call,
 * every outcome of every callee symbolic. */
#include "env/common.h"
#include "env/stubs_base.h"
#include "types.h"
#include "tlv.h"
#include "tlv_template.h"
#include "tlv_element.h"

/* ---- ASSUMED callees: recording stubs that may fail ---- */
static char g_tlv_obj[8], g_ctx_obj[8], g_clone_tok[8], g_raw_tok[8];
static unsigned g_tag; static int g_is_nc, g_is_fwd;
static unsigned g_x_calls; static const KSI_TlvTemplate *g_x_tmpl[2]; static void *g_x_payload[2]; static KSI_TLV *g_x_tlv[2]; static KSI_CTX *g_x_ctx[2]; static int g_x_res[2];
static _Bool g_env_failed; static int g_env_err;
static unsigned g_ser_calls, g_os_calls, g_clone_calls; static unsigned char *g_ser_buf; static size_t g_ser_len; static const unsigned char *g_os_data; static size_t g_os_len;
static unsigned g_tlvfree_clone, g_osfree_raw;

KSI_CTX *KSI_TLV_getCtx(const KSI_TLV *tlv) { return tlv == NULL ? NULL : (KSI_CTX *)g_ctx_obj; }
unsigned KSI_TLV_getTag(const KSI_TLV *tlv) { return g_tag; }
int KSI_TLV_isNonCritical(const KSI_TLV *tlv) { return g_is_nc; }
int KSI_TLV_isForward(const KSI_TLV *tlv) { return g_is_fwd; }
static int env_fail(void) { int e = nondet_int(); __CPROVER_assume(e != KSI_OK); g_env_failed = 1; g_env_err = e; return e; }

int KSI_TlvTemplate_extract(KSI_CTX *ctx, void *payload, KSI_TLV *tlv, const KSI_TlvTemplate *tmpl) {
	int r = KSI_OK;
	__CPROVER_assert(g_x_calls < 2, "engine called at most twice");
	if (nondet_bool()) { r = nondet_int(); __CPROVER_assume(r != KSI_OK); }
	if (g_x_calls < 2) { g_x_ctx[g_x_calls] = ctx; g_x_payload[g_x_calls] = payload; g_x_tlv[g_x_calls] = tlv; g_x_tmpl[g_x_calls] = tmpl; g_x_res[g_x_calls] = r; }
	g_x_calls++;
	return r;
}
int KSI_TLV_serialize(const KSI_TLV *tlv, unsigned char **buf, size_t *len) {
	__CPROVER_assert(tlv == (const KSI_TLV *)g_tlv_obj, "the bytes kept are those of the element being parsed");
	if (nondet_bool()) return env_fail();
	g_ser_len = nondet_size(); __CPROVER_assume(g_ser_len >= 2 && g_ser_len <= 0x10003);
	g_ser_buf = malloc(1); __CPROVER_assume(g_ser_buf != NULL);
	g_ser_calls++; *buf = g_ser_buf; *len = g_ser_len; return KSI_OK;
}
int KSI_OctetString_new(KSI_CTX *ctx, const unsigned char *data, size_t data_len, KSI_OctetString **t) {
	if (nondet_bool()) return env_fail();
	g_os_data = data; g_os_len = data_len; g_os_calls++; *t = (KSI_OctetString *)g_raw_tok; return KSI_OK;
}
void KSI_OctetString_free(KSI_OctetString *o) { if (o == (KSI_OctetString *)g_raw_tok) g_osfree_raw++; else __CPROVER_assert(o == NULL, "only the raw octet string can be released here"); }
int KSI_TLV_clone(const KSI_TLV *tlv, KSI_TLV **clone) {
	__CPROVER_assert(tlv == (const KSI_TLV *)g_tlv_obj, "the element itself is cloned");
	if (nondet_bool()) return env_fail();
	g_clone_calls++; *clone = (KSI_TLV *)g_clone_tok; return KSI_OK;
}
void KSI_TLV_free(KSI_TLV *t) { if (t == (KSI_TLV *)g_clone_tok) g_tlvfree_clone++; else __CPROVER_assert(t == NULL, "the element being parsed is not released by the wrapper"); }
void KSI_Integer_free(KSI_Integer *o) { __CPROVER_assert(o == NULL, "no field was set by the (stub) engine"); }
void KSI_Utf8String_free(KSI_Utf8String *o) { __CPROVER_assert(o == NULL, "no field was set by the (stub) engine"); }
void KSI_DataHash_free(KSI_DataHash *o) { __CPROVER_assert(o == NULL, "no field was set by the (stub) engine"); }
void KSI_CalendarHashChain_free(KSI_CalendarHashChain *o) { __CPROVER_assert(o == NULL, "no field was set"); }
void KSI_AggregationHashChainList_free(KSI_AggregationHashChainList *o) { __CPROVER_assert(o == NULL, "no field was set"); }
void KSI_CalendarAuthRec_free(KSI_CalendarAuthRec *o) { __CPROVER_assert(o == NULL, "no field was set"); }
void KSI_AggregationAuthRec_free(KSI_AggregationAuthRec *o) { __CPROVER_assert(o == NULL, "no field was set"); }

#ifdef H_metadata
/* TLV element services used by KSI_MetaDataElement_new/_fromTlv/_free (tlv_element.c: C09/C19 jobs) */
#include "impl/meta_data_element_impl.h"
static unsigned g_el_new, g_el_free, g_detach_calls; static unsigned char *g_detach_ptr; static size_t g_detach_len; static unsigned g_detach_tag; static int g_detach_nc, g_detach_fwd;
static KSI_TlvElement *g_el_last;
static unsigned char g_payload[4]; static size_t g_raw_len; static unsigned g_getraw_calls;
int KSI_TlvElement_new(KSI_TlvElement **out) {
	KSI_TlvElement *e;
	if (nondet_bool()) return env_fail();
	e = malloc(sizeof(*e)); if (e == NULL) return env_fail();
	memset(e, 0, sizeof(*e)); e->ref = 1; g_el_new++; g_el_last = e; *out = e; return KSI_OK;
}
void KSI_TlvElement_free(KSI_TlvElement *t) { if (t != NULL) { __CPROVER_assert(t->ref == 1, "element released once"); g_el_free++; free(t); } }
int KSI_TlvElement_detach(KSI_TlvElement *el) {
	__CPROVER_assert(el != NULL && el == g_el_last, "detach: the element of the object being built");
	g_detach_calls++; g_detach_ptr = el->ptr; g_detach_len = el->ftlv.dat_len; g_detach_tag = el->ftlv.tag; g_detach_nc = el->ftlv.is_nc; g_detach_fwd = el->ftlv.is_fwd;
	if (nondet_bool()) return env_fail();
	return KSI_OK;
}
int KSI_TLV_getRawValue(KSI_TLV *tlv, const unsigned char **buf, size_t *len) {
	__CPROVER_assert(tlv == (KSI_TLV *)g_tlv_obj, "payload of the element being parsed");
	g_getraw_calls++;
	if (nondet_bool()) return env_fail();
	*buf = g_payload; *len = g_raw_len; return KSI_OK;
}
#endif

#ifdef H_pubdata
#include "publicationsfile.h"
#include "publicationsfile.c"
#else
#include "types.c"
#endif

static void env_reset(void) {
	g_tag = nondet_uint(); g_is_nc = nondet_int(); g_is_fwd = nondet_int();
	g_x_calls = 0; g_env_failed = 0; g_ser_calls = 0; g_os_calls = 0; g_clone_calls = 0; g_tlvfree_clone = 0; g_osfree_raw = 0;
}

/* T: type; EXPECT_TMPL: the schema table that belongs to g_tag, NULL if the tag is not the wrapper's; HAS_RAW / HAS_BASE:
 * the object keeps the serialized octets / a clone of the element */
#define CHECK(T, EXPECT_TMPL, HAS_RAW, HAS_BASE) do { \
	static T sentinel_obj; T *sentinel = &sentinel_obj; T *obj = sentinel; int res; const KSI_TlvTemplate *want; \
	env_reset(); want = (EXPECT_TMPL); \
	res = T##_fromTlv((KSI_TLV *)g_tlv_obj, &obj); \
	__CPROVER_assert(IMPLIES(res == KSI_OK, want != NULL && g_x_calls == 1 && g_x_res[0] == KSI_OK && g_x_tmpl[0] == want), \
		#T ": accepted => the element has the wrapper's tag and the engine accepted it under the schema table of that tag"); \
	__CPROVER_assert(IMPLIES(want != NULL && !g_env_failed && g_x_calls == 1 && g_x_res[0] == KSI_OK, res == KSI_OK), \
		#T ": right tag and schema satisfied (and no allocation / copy failure) => accepted"); \
	__CPROVER_assert(IMPLIES(want == NULL, res == KSI_INVALID_FORMAT || res == KSI_OUT_OF_MEMORY), #T ": foreign tag => INVALID_FORMAT (or the object could not be allocated)"); \
	__CPROVER_assert(IMPLIES(want == NULL, g_x_calls == 0), #T ": foreign tag => the engine is not run at all"); \
	__CPROVER_assert(IMPLIES(g_x_calls == 1 && g_x_res[0] != KSI_OK, res == g_x_res[0]), #T ": the engine's verdict is returned unchanged"); \
	__CPROVER_assert(g_x_calls <= 1 && IMPLIES(g_x_calls == 1, g_x_tlv[0] == (KSI_TLV *)g_tlv_obj && g_x_ctx[0] == (KSI_CTX *)g_ctx_obj && g_x_tmpl[0] == want), \
		#T ": the engine is run once, on this element, with the table of its tag"); \
	__CPROVER_assert(IMPLIES(res != KSI_OK, obj == sentinel), #T ": rejected => output untouched"); \
	__CPROVER_assert(IMPLIES(res != KSI_OK, g_clone_calls == g_tlvfree_clone || !(HAS_BASE)), #T ": rejected => a clone made for the object was released"); \
	if (res == KSI_OK) { \
		__CPROVER_assert(obj != sentinel && obj != NULL && (void *)obj == g_x_payload[0] && obj->ctx == (KSI_CTX *)g_ctx_obj, #T ": the object handed out is the one the engine filled"); \
		CHECK_RAW_##HAS_RAW(T) CHECK_BASE_##HAS_BASE(T) \
		REACH(#T " accepted"); \
		T##_free(obj); \
	} \
	if (res == KSI_INVALID_FORMAT && want == NULL) REACH(#T " foreign tag"); \
	if (res != KSI_OK && want != NULL && g_x_calls == 1 && g_x_res[0] == KSI_OK) REACH(#T " late failure (copy / clone)"); \
	__CPROVER_assert(g_osfree_raw <= 1 && g_tlvfree_clone <= g_clone_calls, #T ": nothing released twice"); \
} while (0)
#define CHECK_RAW_1(T) __CPROVER_assert(obj->raw == (KSI_OctetString *)g_raw_tok && g_os_calls == 1 && g_ser_calls == 1 && g_os_data == g_ser_buf && g_os_len == g_ser_len, #T ": raw = the complete serialized element");
#define CHECK_RAW_0(T)
#define CHECK_BASE_1(T) __CPROVER_assert(obj->baseTlv == (KSI_TLV *)g_clone_tok && g_clone_calls == 1 && g_tlvfree_clone == 0, #T ": baseTlv = a clone of the element");
#define CHECK_BASE_0(T)

void harness(void) {
#ifdef H_header
	CHECK(KSI_Header, g_tag == 0x01 ? KSI_Header_template : NULL, 1, 0);
#endif
#ifdef H_pubdata
	CHECK(KSI_PublicationData, g_tag == 0x10 ? KSI_PublicationData_template : NULL, 0, 1);
#endif
#ifdef H_aggr_req
	CHECK(KSI_AggregationReq, g_tag == 0x201 ? KSI_AggregationReq_template : g_tag == 0x02 ? KSI_AggregationReq_v2_template : NULL, 1, 0);
#endif
#ifdef H_aggr_resp
	CHECK(KSI_AggregationResp, g_tag == 0x202 ? KSI_AggregationResp_template : g_tag == 0x02 ? KSI_AggregationResp_v2_template : NULL, 1, 1);
#endif
#ifdef H_ext_req
	CHECK(KSI_ExtendReq, (g_tag == 0x301 || g_tag == 0x02) ? KSI_ExtendReq_template : NULL, 1, 0);
#endif
#ifdef H_ext_resp
	CHECK(KSI_ExtendResp, g_tag == 0x302 ? KSI_ExtendResp_template : g_tag == 0x02 ? KSI_ExtendResp_v2_template : NULL, 1, 0);
#endif
#ifdef H_metadata
	{
		static KSI_MetaDataElement sentinel_obj; KSI_MetaDataElement *sentinel = &sentinel_obj, *obj = sentinel; int res;
		env_reset(); g_el_new = 0; g_el_free = 0; g_detach_calls = 0; g_getraw_calls = 0; g_raw_len = nondet_size();
		res = KSI_MetaDataElement_fromTlv((KSI_TLV *)g_tlv_obj, &obj);
		/* the schema of the metadata record (padding first, client id mandatory, ...) is enforced by a dry run of the
		 * engine over a scratch object; the object handed out keeps the payload octets, not the parsed fields */
		__CPROVER_assert(IMPLIES(res == KSI_OK, g_x_calls == 1 && g_x_res[0] == KSI_OK && g_x_tmpl[0] == KSI_MetaDataElement_template && g_x_tlv[0] == (KSI_TLV *)g_tlv_obj),
			"metadata: accepted => the engine accepted this element under the metadata schema table");
		__CPROVER_assert(IMPLIES(g_x_calls >= 1 && g_x_res[0] != KSI_OK, res == g_x_res[0] && g_detach_calls == 0 && g_getraw_calls == 0), "metadata: the engine's verdict is returned unchanged, nothing is copied");
		__CPROVER_assert(IMPLIES(!g_env_failed && g_x_calls == 1 && g_x_res[0] == KSI_OK, res == KSI_OK || res == KSI_OUT_OF_MEMORY), "metadata: schema satisfied (and no copy failure) => accepted (or the second object could not be allocated)");
		__CPROVER_assert(g_x_calls <= 1, "metadata: one dry run");
		__CPROVER_assert(IMPLIES(res != KSI_OK, obj == sentinel), "metadata: rejected => output untouched");
		__CPROVER_assert(IMPLIES(res != KSI_OK, g_el_new == g_el_free), "metadata: rejected => every TLV element made was released");
		if (res == KSI_OK) {
			__CPROVER_assert(obj != sentinel && obj != NULL && obj->ref == 1 && obj->ctx == (KSI_CTX *)g_ctx_obj && (void *)obj != g_x_payload[0], "metadata: fresh object (not the scratch object of the dry run), one reference");
			__CPROVER_assert(obj->impl == g_el_last && g_detach_calls == 1 && g_detach_ptr == g_payload && g_detach_len == g_raw_len, "metadata: the element is detached (private copy) from exactly the payload octets of the TLV");
			__CPROVER_assert(g_detach_tag == g_tag && IFF(g_detach_nc, g_is_nc) && IFF(g_detach_fwd, g_is_fwd), "metadata: tag and flags of the element are those of the TLV");
			__CPROVER_assert(obj->padding == NULL && obj->clientId == NULL && obj->machineId == NULL && obj->sequenceNr == NULL && obj->reqTimeInMicros == NULL, "metadata: no parsed field is kept (fields are read from the octets on demand)");
			__CPROVER_assert(g_el_new == g_el_free + 1, "metadata: the scratch object's element was released");
			REACH("metadata accepted");
			KSI_MetaDataElement_free(obj);
			__CPROVER_assert(g_el_new == g_el_free, "metadata: released with the object");
		}
		if (res != KSI_OK && g_x_calls == 1 && g_x_res[0] == KSI_OK) REACH("metadata late failure");
		if (res != KSI_OK && g_x_calls == 1 && g_x_res[0] != KSI_OK) REACH("metadata schema violation");
	}
#endif
	REACH("returned");
}
