/* C10 schema tables: every line of spec/ksi_schema.h asserted against the REAL constant template tables
 * (tlv_template.c, signature_builder.c, publicationsfile.c included unmodified).  Loop-free, constants only: proved. */
#include "env/common.h"
#include "tlv.h"
#include "tlv_template.h"
#include "spec/ksi_schema.h"

#if defined(H_tables_tlv_template)
#include "tlv_template.c"
#define SCHEMA_ALL KSI_SCHEMA_ALL_TLV_TEMPLATE
#elif defined(H_tables_signature)
#include "signature_builder.c"
#define SCHEMA_ALL KSI_SCHEMA_ALL_SIGNATURE_BUILDER
#elif defined(H_tables_pubfile)
#include "publicationsfile.c"
#define SCHEMA_ALL KSI_SCHEMA_ALL_PUBLICATIONSFILE
#endif

typedef int (*schema_fromtlv_t)(KSI_TLV *, void **);
#define VK_OBJ(fn)  (e->type == KSI_TLV_TEMPLATE_OBJECT && e->fromTlv == (schema_fromtlv_t)fn && e->parser == NULL)
#define VK_INT      (VK_OBJ(KSI_Integer_fromTlv) && e->subTemplate == NULL)
#define VK_UTF8     (VK_OBJ(KSI_Utf8String_fromTlv) && e->subTemplate == NULL)
#define VK_OCT      (VK_OBJ(KSI_OctetString_fromTlv) && e->subTemplate == NULL)
#define VK_IMP      (VK_OBJ(KSI_DataHash_fromTlv) && e->subTemplate == NULL)
#define VK_COMP(T2) (e->type == KSI_TLV_TEMPLATE_COMPOSITE && e->subTemplate == T2##_template && e->fromTlv == NULL && e->construct != NULL)

#define CHK(T, i, tag_, fl, mul, kind, mean) { \
	const KSI_TlvTemplate *e = &T##_template[i]; \
	__CPROVER_assert(e->tag == (tag_), "schema " #T "[" #i "] tag " #tag_ " (" mean ")"); \
	__CPROVER_assert((e->flags & KSI_SCHEMA_MASK) == (unsigned)(fl), "schema " #T "[" #i "] " #tag_ " flags == " #fl " (" mean ")"); \
	__CPROVER_assert(e->multiple == (mul) && ((mul) ? e->listAppend != NULL && e->listNew != NULL : e->listAppend == NULL), "schema " #T "[" #i "] " #tag_ " multiplicity " #mul " (" mean ")"); \
	__CPROVER_assert(VK_##kind, "schema " #T "[" #i "] " #tag_ " value kind " #kind " (" mean ")"); \
	__CPROVER_assert(e->setValue != NULL && e->getValue != NULL && e->destruct != NULL, "schema " #T "[" #i "] " #tag_ " has getter, setter, destructor (duplicate detection relies on the getter)"); }
#define CHK_END(T, n) \
	__CPROVER_assert(T##_template[n].tag == 0 && T##_template[n].type == -1 && sizeof(T##_template) / sizeof(T##_template[0]) == (n) + 1, "schema " #T ": exactly " #n " entries");

void harness(void) {
	SCHEMA_ALL(CHK)
	REACH("all tables compared");
}
