/* C10 value parsers of types_base.c: integer, UTF-8 string.  Real file included unmodified; KSI_TLV is the opaque
 * model of env/c10_tlv_value.h. */
#include "env/common.h"
#include "env/stubs_base.h"
#include "env/c10_tlv_value.h"
#include "types_base.c"
#include "contracts/types_base_integer.h"

#ifdef H_integer
void harness(void) {
	KSI_TLV *tlv = malloc(sizeof(*tlv));
	KSI_Integer *out = NULL, **o = malloc(sizeof(*o));
	int res;
	__CPROVER_assume(tlv != NULL && o != NULL);
	tlv->datap = malloc(16);
	__CPROVER_assume(tlv->datap != NULL);
	__CPROVER_assume(tlv->datap_len <= 16);
	res = KSI_Integer_fromTlv(tlv, o);
	if (res == KSI_OK) REACH("accepted");
	if (res == KSI_OK && tlv->datap_len == 8) REACH("accepted 8 octets");
	if (res == KSI_OK && tlv->datap_len == 0) REACH("accepted empty = 0");
	if (res == KSI_INVALID_FORMAT && tlv->datap_len == 1) REACH("rejected single zero octet");
	if (res == KSI_INVALID_FORMAT && tlv->datap_len == 9) REACH("rejected 9 octets");
}
#endif

#if defined(H_utf8) || defined(H_utf8nz)
/* bounded: payload length <= UTF8_MAXLEN octets, every octet symbolic; reference = spec/utf8.h automaton */
#include "spec/utf8.h"
#ifndef UTF8_MAXLEN
#define UTF8_MAXLEN 12
#endif
void harness(void) {
	struct KSI_TLV_st tlv;
	static char ctx_mem[8]; KSI_CTX *ctx = (KSI_CTX *)ctx_mem;   /* opaque, never dereferenced (error/log stubs) */
	unsigned char buf[UTF8_MAXLEN];
	static KSI_Utf8String sentinel_obj; KSI_Utf8String *sentinel = &sentinel_obj;
	KSI_Utf8String *out = sentinel;
	size_t len = nondet_size(), w = nondet_size(), k;
	int res, wf, empty;
	__CPROVER_assume(len <= UTF8_MAXLEN);          /* the stated bound of this job */
	for (k = 0; k < UTF8_MAXLEN; k++) buf[k] = nondet_uchar();
	tlv.ctx = ctx; tlv.datap = buf; tlv.datap_len = len;
	tlv.raw_res = nondet_bool() ? KSI_OK : KSI_INVALID_ARGUMENT;
	wf = spec_utf8_wellformed(buf, len);
	empty = (len == 1);
#ifdef H_utf8
	res = KSI_Utf8String_fromTlv(&tlv, &out);
	empty = 0;
#else
	res = KSI_Utf8StringNZ_fromTlv(&tlv, &out);
#endif
	/* accepted <=> payload obtainable and well formed (and, for the NZ type, not the empty string); allocation may fail */
	__CPROVER_assert(IMPLIES(res == KSI_OK, tlv.raw_res == KSI_OK && wf && !empty), "utf8: accepted => well-formed payload");
	__CPROVER_assert(IMPLIES(tlv.raw_res == KSI_OK && wf && !empty, res == KSI_OK || res == KSI_OUT_OF_MEMORY), "utf8: well-formed payload => accepted (or out of memory)");
	__CPROVER_assert(IMPLIES(tlv.raw_res == KSI_OK && !(wf && !empty), res == KSI_INVALID_FORMAT || res == KSI_BUFFER_OVERFLOW || res == KSI_OUT_OF_MEMORY), "utf8: malformed payload => rejected (format error; the object is allocated before the checks, so out-of-memory is possible too)");
	__CPROVER_assert(IMPLIES(tlv.raw_res != KSI_OK, res == tlv.raw_res), "utf8: TLV error propagated");
	__CPROVER_assert(IMPLIES(res != KSI_OK, out == sentinel), "utf8: output untouched on rejection");
	if (res == KSI_OK) {
		__CPROVER_assert(out != sentinel && out != NULL && out->len == len && out->ref == 1 && out->ctx == ctx, "utf8: object fields");
		__CPROVER_assert(out->value != (char *)buf, "utf8: value is a private copy");
		if (w < len) __CPROVER_assert((unsigned char)out->value[w] == buf[w], "utf8: value equals the payload (witness index)");
		REACH("accepted");
		if (len == UTF8_MAXLEN && buf[0] >= 0xf0 && buf[4] >= 0xe0 && buf[7] >= 0xc0) REACH("accepted multi-octet characters at the bound");
	}
	if (res == KSI_INVALID_FORMAT) REACH("rejected: format");
	if (res == KSI_BUFFER_OVERFLOW) REACH("rejected: truncated character");
	if (res != KSI_OK && tlv.raw_res == KSI_OK && len == 0) REACH("rejected: empty payload");
#ifdef LEAK_VARIANT
	/* with --memory-leak-check: after releasing the returned object nothing allocated by the parser is left, on every
	 * path including every allocation failure (C12 / C19) */
	if (res == KSI_OK) KSI_Utf8String_free(out);
#endif
}
#endif
