/* C10 value parsers of types_base.c: integer, UTF-8 string.  Real file included unmodified; KSI_TLV is the opaque
 * model of env/c10_tlv_value.h. */
#include "env/common.h"
#include "env/stubs_base.h"
#include "env/c10_tlv_value.h"
#include "types_base.c"
#include "contracts/types_base_integer.h"

#ifdef H_integer
void harness(void) {
	KSI_TLV *tlv = malloc(sizeof(*tlv));
	KSI_Integer *out = NULL, **o = malloc(sizeof(*o));
	int res;
	__CPROVER_assume(tlv != NULL && o != NULL);
	tlv->datap = malloc(16);
	__CPROVER_assume(tlv->datap != NULL);
	__CPROVER_assume(tlv->datap_len <= 16);
	res = KSI_Integer_fromTlv(tlv, o);
	if (res == KSI_OK) REACH("accepted");
	if (res == KSI_OK && tlv->datap_len == 8) REACH("accepted 8 octets");
	if (res == KSI_OK && tlv->datap_len == 0) REACH("accepted empty = 0");
	if (res == KSI_INVALID_FORMAT && tlv->datap_len == 1) REACH("rejected single zero octet");
	if (res == KSI_INVALID_FORMAT && tlv->datap_len == 9) REACH("rejected 9 octets");
}
#endif
