/* C10 engine: the REAL extractGenerator / extractObject / storeObjectValue of tlv_template.c against the reference
 * automaton spec/schema.h.  Bounded: schema of at most ENG_T entries with symbolic tags, flags and multiplicity; stream
 * of at most ENG_S elements with symbolic tag, criticality flag and value-parser outcome.  The generator, the value
 * parser and the payload accessors are harness call-backs (ghost monitors).  Composite entries are not exercised here
 * (entry type is OBJECT): recursion into sub-structures is the same function applied to the sub-template. */
#include "env/common.h"
#include "env/stubs_base.h"
#include "env/c10_tlv_value.h"
#include "spec/schema.h"

#ifndef ENG_T
#define ENG_T 3
#endif
#ifndef ENG_S
#define ENG_S 4
#endif

/* assumed: message formatting only */
size_t KSI_snprintf(char *buf, size_t n, const char *format, ...) { if (n > 0) buf[0] = 0; return 0; }
/* not reached with OBJECT entries and fromTlv parsers; bodies live in tlv.c */
void KSI_TLV_free(KSI_TLV *tlv) { }
int KSI_TLV_getNestedList(KSI_TLV *tlv, KSI_LIST(KSI_TLV) **list) { __CPROVER_assert(0, "engine: nested list not used"); return KSI_INVALID_ARGUMENT; }
int KSI_TLV_parseBlob2(KSI_CTX *ctx, unsigned char *data, size_t data_length, int ownMemory, KSI_TLV **tlv) { __CPROVER_assert(0, "engine: parseBlob2 not used"); return KSI_INVALID_ARGUMENT; }

#include "tlv_template.c"

/* ---- ghost model ---- */
static struct KSI_TLV_st g_stream[ENG_S];
static size_t g_stream_len, g_gen_pos;
static int g_val_res[ENG_S];                 /* outcome of the value parser for the element at that position */
static char g_obj[ENG_S];                    /* the object parsed from element k is &g_obj[k] */
static char g_list_obj;                      /* the (single, abstract) list object */
static struct { void *val[ENG_T]; } g_payload;
static unsigned g_from_calls, g_append_calls, g_destruct_calls;
static size_t g_from_pos[ENG_S];
static spec_schema_entry g_schema[ENG_T];
static spec_schema_state g_ref;

static int gen_stub(void *gctx, KSI_TLV **tlv) {
	__CPROVER_assert(gctx == (void *)&g_stream_len, "protocol: generator context passed through");
	if (g_gen_pos < g_stream_len) { *tlv = &g_stream[g_gen_pos]; g_gen_pos++; }
	else { *tlv = NULL; }
	return KSI_OK;
}
static int from_stub(KSI_TLV *tlv, void **o) {
	size_t k = (size_t)(tlv - g_stream);
	__CPROVER_assert(k < g_stream_len && k + 1 == g_gen_pos, "protocol: the value parser gets the element just generated");
	__CPROVER_assert(spec_schema_find(&g_ref, tlv->tag) >= 0, "frame: an unknown element is never handed to a value parser");
	if (g_from_calls < ENG_S) g_from_pos[g_from_calls] = k;
	g_from_calls++;
	if (g_val_res[k] != KSI_OK) return g_val_res[k];
	*o = &g_obj[k];
	return KSI_OK;
}
static void destruct_stub(void *o) { if (o != NULL) g_destruct_calls++; }
#define ACCESSORS(k) \
	static int get##k(const void *p, void **v) { __CPROVER_assert(p == &g_payload, "protocol: payload passed through"); *v = g_payload.val[k]; return KSI_OK; } \
	static int set##k(void *p, void *v) { __CPROVER_assert(p == &g_payload, "protocol: payload passed through"); g_payload.val[k] = v; return KSI_OK; }
ACCESSORS(0) ACCESSORS(1) ACCESSORS(2)
static int list_new_stub(void **l) { *l = &g_list_obj; return KSI_OK; }
static void list_free_stub(void *l) { }
static int list_append_stub(void *l, void *v) { __CPROVER_assert(l == &g_list_obj, "protocol: append to the list object"); g_append_calls++; return KSI_OK; }

void harness(void) {
	static char ctx_mem[8];
	KSI_TlvTemplate tmpl[ENG_T + 1];
	size_t n = nondet_size(), k, j;
	int res, acc, why;
	__CPROVER_assume(1 <= n && n <= ENG_T);                                   /* the stated bound */
	memset(tmpl, 0, sizeof(tmpl));
	for (k = 0; k < ENG_T; k++) {
		unsigned tag = nondet_uint(), fl = nondet_uint(); int mul = nondet_bool();
		__CPROVER_assume(1 <= tag && tag <= 4 && (fl & ~(unsigned)SPEC_SCH_ALL) == 0);
		if (k >= n) { tag = 0; fl = 0; mul = 0; }
		tmpl[k].type = k < n ? KSI_TLV_TEMPLATE_OBJECT : -1;
		tmpl[k].tag = tag; tmpl[k].flags = fl; tmpl[k].multiple = mul;
		tmpl[k].getValue = k == 0 ? get0 : k == 1 ? get1 : get2;
		tmpl[k].setValue = k == 0 ? set0 : k == 1 ? set1 : set2;
		tmpl[k].fromTlv = from_stub; tmpl[k].destruct = destruct_stub;
		if (mul) { tmpl[k].listAppend = list_append_stub; tmpl[k].listNew = list_new_stub; tmpl[k].listFree = list_free_stub; }
		g_schema[k].tag = tag; g_schema[k].flags = fl; g_schema[k].multiple = mul;
	}
	tmpl[ENG_T].type = -1;
	/* schema tags pairwise distinct (true of every real table: job C10.tables_*) */
	for (k = 0; k < ENG_T; k++) for (j = 0; j < k; j++) __CPROVER_assume(k >= n || tmpl[k].tag != tmpl[j].tag);

	g_stream_len = nondet_size();
	__CPROVER_assume(g_stream_len <= ENG_S);                                   /* the stated bound */
	spec_schema_init(&g_ref, g_schema, n);
	for (k = 0; k < ENG_S; k++) {
		g_stream[k].ctx = (KSI_CTX *)ctx_mem;
		g_stream[k].tag = nondet_uint(); g_stream[k].isNonCritical = nondet_bool();
		__CPROVER_assume(1 <= g_stream[k].tag && g_stream[k].tag <= 5);
		g_val_res[k] = nondet_bool() ? KSI_OK : KSI_INVALID_FORMAT;
	}
	/* reference run */
	{
		spec_schema_state r; unsigned total = 0;
		spec_schema_init(&r, g_schema, n);
		for (k = 0; k < ENG_S; k++) if (k < g_stream_len) spec_schema_step(&r, g_stream[k].tag, g_stream[k].isNonCritical, g_val_res[k] == KSI_OK);
		acc = spec_schema_accepts(&r);
		why = spec_schema_verdict(&r);

		res = extractGenerator((KSI_CTX *)ctx_mem, &g_payload, &g_stream_len, tmpl, gen_stub, (struct tlv_track_s[0xf]){{0}}, 0, 0xf);

		/* accepted => the structure satisfies the schema; one obligation per kind of violation (reason of the FIRST violation) */
		__CPROVER_assert(IMPLIES(res == KSI_OK, why != SPEC_SCH_REJ_UNKNOWN_CRITICAL), "engine: accepted => no unknown critical element");
		__CPROVER_assert(IMPLIES(res == KSI_OK, why != SPEC_SCH_REJ_REPEATED), "engine: accepted => no single-valued element repeated");
		__CPROVER_assert(IMPLIES(res == KSI_OK, why != SPEC_SCH_REJ_EXCLUSIVE), "engine: accepted => mutually exclusive alternatives not combined");
		__CPROVER_assert(IMPLIES(res == KSI_OK, why != SPEC_SCH_REJ_ORDER), "engine: accepted => fixed order respected");
		__CPROVER_assert(IMPLIES(res == KSI_OK, why != SPEC_SCH_REJ_FIRST), "engine: accepted => FIRST element precedes every known element");
		__CPROVER_assert(IMPLIES(res == KSI_OK, why != SPEC_SCH_REJ_LAST), "engine: accepted => no known element after the LAST element");
		__CPROVER_assert(IMPLIES(res == KSI_OK, why != SPEC_SCH_REJ_VALUE), "engine: accepted => every known element's value parsed");
		__CPROVER_assert(IMPLIES(res == KSI_OK, why != SPEC_SCH_REJ_MANDATORY), "engine: accepted => mandatory elements present");
		__CPROVER_assert(IMPLIES(res == KSI_OK, why != SPEC_SCH_REJ_GROUP), "engine: accepted => at-least-one groups non-empty");
		__CPROVER_assert(IMPLIES(acc, res == KSI_OK), "engine: the structure satisfies the schema => accepted");
		__CPROVER_assert(res == KSI_OK || res == KSI_INVALID_FORMAT, "engine: rejection is INVALID_FORMAT");
		if (res == KSI_OK && acc) {   /* field values are compared when both sides accept; a disagreement on acceptance is the obligation above */
			__CPROVER_assert(g_gen_pos == g_stream_len, "engine: the whole stream was consumed");
			for (j = 0; j < ENG_T; j++) if (j < n) {
				total += r.count[j];
				if (!g_schema[j].multiple) __CPROVER_assert(g_payload.val[j] == (r.count[j] ? (void *)&g_obj[r.last_pos[j]] : NULL), "engine: single-valued field holds exactly the value of its element (unknown elements leave it alone)");
				else __CPROVER_assert(g_payload.val[j] == (r.count[j] ? (void *)&g_list_obj : NULL), "engine: list field present iff an element occurred");
			}
			__CPROVER_assert(g_from_calls == total, "engine: exactly the known elements were parsed");
			__CPROVER_assert(g_destruct_calls == 0, "engine: no parsed value destroyed on success");
			REACH("accepted");
			if (g_stream_len == ENG_S && n == ENG_T) REACH("accepted full stream, full schema");
		}
		if (res != KSI_OK) REACH("rejected");
		if (res == KSI_OK && g_from_calls < g_stream_len) REACH("accepted with a skipped unknown non-critical element");
	}
}
