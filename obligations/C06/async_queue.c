/* C06 / C13: the asynchronous delivery path - REAL net_async.c, included unmodified:
 *   asyncClient_processAggregationResponseQueue | asyncClient_processExtenderResponseQueue
 *     -> processResponseQueue -> asyncClient_handleServerConfig
 *                             -> asyncClient_handleAggregationResp | asyncClient_handleExtendResp -> handleResponse
 *                             -> asyncClient_setResponseError
 * Plain mode (like obligations/C13/step.c): a concrete client in an ARBITRARY state satisfying Inv(c) (spec/async_inv.h) and
 * the handle invariants HInv/ConfInv below, ONE call, the postconditions as named assertions against a snapshot.
 * Bounds: the transport is asked at most AD_MAXQ = 3 times per call (unwinding assertion on the do-while loop), internal
 * cache size N = AC_N (2 or 3).  Environment: env/ghost_asyncdel.h. */
#include "env/common.h"
#include "env/stubs_base.h"
#include "net_async.h"
#include "impl/ctx_impl.h"
#include "impl/net_async_impl.h"
#include "env/ghost_asyncdel.h"
#include "env/net_async_env.h"           /* time()/difftime(): not reached here, keeps the TU closed */
#include "spec/async_inv.h"
#include "net_async.c"

#ifndef AC_N
#define AC_N 3
#endif
#ifdef AD_EXT
#define AD_RESP_FREE ((void (*)(void *))KSI_ExtendResp_free)
#define AD_REQ(h) ((const void *)(h)->extReq)
#define AD_PROCESS asyncClient_processExtenderResponseQueue
#define AD_CTX_CB KSI_OPT_EXT_CONF_RECEIVED_CALLBACK
#else
#define AD_RESP_FREE ((void (*)(void *))KSI_AggregationResp_free)
#define AD_REQ(h) ((const void *)(h)->aggrReq)
#define AD_PROCESS asyncClient_processAggregationResponseQueue
#define AD_CTX_CB KSI_OPT_AGGR_CONF_RECEIVED_CALLBACK
#endif

static KSI_CTX g_ctx;
static KSI_AsyncClient g_c;
static KSI_AsyncHandle g_h1, g_h2, g_conf;      /* separate objects (a handle array costs byte-level updates through handle pointers) */
static struct KSI_AggregationReq_st g_areq[3]; static struct KSI_ExtendReq_st g_ereq[3];
static ad_resp_t g_oldresp1, g_oldresp2;          /* the response a finished handle already holds */

static const KSI_AsyncHandle g_zero_handle;
static void mk_handle(KSI_AsyncHandle *h, int i, ad_resp_t *oldresp) {
	*h = g_zero_handle;
	h->ctx = &g_ctx; h->ref = nondet_size(); h->id = nondet_ull(); h->state = nondet_int();
	h->err = nondet_int(); h->errExt = nondet_int(); h->parentId = nondet_size();
#ifdef AD_EXT
	h->extReq = &g_ereq[i];
#else
	h->aggrReq = &g_areq[i];
#endif
	oldresp->k = -1; oldresp->refs = 1;
	if (nondet_bool()) { h->respCtx = oldresp; h->respCtx_free = AD_RESP_FREE; }
}
/* HInv: a cached request handle holds a response exactly when it is in state RESPONSE_RECEIVED (handleResponse stores it,
 * addRequest clears it: C13.add_request_*), and a handle that waits carries no error message */
static int hinv(const KSI_AsyncHandle *h) {
	return IFF(h->respCtx != NULL, h->state == KSI_ASYNC_STATE_RESPONSE_RECEIVED) && IMPLIES(h->state == KSI_ASYNC_STATE_WAITING_FOR_RESPONSE, h->errMsg == NULL);
}
/* ConfInv: the separately cached configuration handle is either the user's configuration request (then it holds a
 * configuration exactly when it is in a 'received' state) or a handle made for a pushed configuration (no request, holds one) */
static int conf_has_req(const KSI_AsyncHandle *h) { return h->aggrReq != NULL || h->extReq != NULL; }
static int confinv(const KSI_AsyncHandle *h) {
	return h == NULL || (conf_has_req(h) ? IFF(h->respCtx != NULL, ainv_state_received(h->state)) : (h->respCtx != NULL && h->state == KSI_ASYNC_STATE_PUSH_CONFIG_RECEIVED))
			&& IMPLIES(h->respCtx != NULL, h->respCtx_free == (void (*)(void *))KSI_Config_free) && IMPLIES(h->state == KSI_ASYNC_STATE_WAITING_FOR_RESPONSE, h->errMsg == NULL);
}
static int mk_client(void) {
	size_t N = AC_N;
	g_ctx.asyncHandleRecycle = NULL;
	g_c.ctx = &g_ctx;
	g_c.reqCache = malloc(N * sizeof(KSI_AsyncHandle *));
	if (g_c.reqCache == NULL) return 0;
	g_c.reqCache[0] = NULL;
	mk_handle(&g_h1, 1, &g_oldresp1); mk_handle(&g_h2, 2, &g_oldresp2);
	if (1 < N) g_c.reqCache[1] = nondet_bool() ? NULL : &g_h1;
	if (2 < N) g_c.reqCache[2] = nondet_bool() ? NULL : &g_h2;
	/* configuration handle: with or without request, with or without an earlier configuration */
	g_conf = g_zero_handle;
	g_conf.ctx = &g_ctx; g_conf.ref = nondet_size(); g_conf.id = nondet_ull(); g_conf.state = nondet_int(); g_conf.err = nondet_int(); g_conf.errExt = nondet_int();
	if (nondet_bool()) {
#ifdef AD_EXT
		g_conf.extReq = &g_ereq[0];
#else
		g_conf.aggrReq = &g_areq[0];
#endif
	}
	g_ad_oldconf.k = -1; g_ad_oldconf.refs = 1;
	if (nondet_bool()) { g_conf.respCtx = &g_ad_oldconf; g_conf.respCtx_free = (void (*)(void *))KSI_Config_free; }
	g_c.serverConf = nondet_bool() ? NULL : &g_conf;
	g_c.options[KSI_ASYNC_OPT_REQUEST_CACHE_SIZE] = N;
	g_c.options[KSI_ASYNC_OPT_PUSH_CONF_CALLBACK] = nondet_bool() ? (size_t)ad_cb_client : 0;
	g_c.options[KSI_ASYNC_PRIVOPT_INVOKE_CONF_RECEIVED_CALLBACK] = nondet_size();
	g_ctx.options[AD_CTX_CB] = nondet_bool() ? (size_t)ad_cb_ctx : 0;
	g_c.pending = nondet_size(); g_c.received = nondet_size();
	g_c.tail = nondet_size(); g_c.requestCount = nondet_size(); g_c.requestCountOffset = nondet_size();
	g_c.clientImpl = &g_ad_impl; g_c.getResponse = ad_getResponse; g_c.getCredentials = ad_getCredentials;
	return 1;
}

/* ---- snapshot and frame ---- */
static KSI_AsyncClient c0;
static KSI_AsyncHandle *cache01, *cache02;
static KSI_AsyncHandle h01, h02, conf0;
static void snapshot(void) {
	c0 = g_c;
	cache01 = 1 < AC_N ? g_c.reqCache[1] : NULL; cache02 = 2 < AC_N ? g_c.reqCache[2] : NULL;
	h01 = g_h1; h02 = g_h2; conf0 = g_conf;
}
static int same_handle(const KSI_AsyncHandle *a, const KSI_AsyncHandle *b) {
	return a->state == b->state && a->err == b->err && a->errExt == b->errExt && a->errMsg == b->errMsg && a->id == b->id &&
			a->respCtx == b->respCtx && a->respCtx_free == b->respCtx_free && a->ref == b->ref && a->raw == b->raw && a->aggrReq == b->aggrReq && a->extReq == b->extReq;
}
static int slot_same(size_t i) { return i >= AC_N || g_c.reqCache[i] == (i == 1 ? cache01 : cache02); }

/* item k is an authentic reply to the request of handle snapshot b: own full id, verified against b's request */
static int answers(int k, const KSI_AsyncHandle *b) {
	const struct ad_item *it = AD_IT(k);
	return ad_authentic(k) && it->has_resp && it->resp.handled && (it->has_rid ? it->rid.value : 0) == b->id &&
			it->resp.vwr_calls == 1 && it->resp.vwr_res == KSI_OK && it->resp.vwr_req == AD_REQ(b);
}
static int item_conv(int k) { return ad_conv(AD_IT(k)->has_status ? &AD_IT(k)->status : NULL); }
static long item_ext(int k) { return (long)(AD_IT(k)->has_status ? AD_IT(k)->status.value : 0); }
/* handle `now` (was `was`, waiting for a response) was completed by item k */
static int completed_by(const KSI_AsyncHandle *now, const KSI_AsyncHandle *was, int k) {
	return answers(k, was) && item_conv(k) == KSI_OK && now->state == KSI_ASYNC_STATE_RESPONSE_RECEIVED && now->respCtx == (void *)&AD_IT(k)->resp &&
			now->respCtx_free == AD_RESP_FREE && AD_IT(k)->resp.delivered == 1 && AD_IT(k)->resp.refs >= 1;
}
static int failed_by_status(const KSI_AsyncHandle *now, const KSI_AsyncHandle *was, int k) {
	return answers(k, was) && item_conv(k) != KSI_OK && now->state == KSI_ASYNC_STATE_ERROR && now->err == item_conv(k) && now->errExt == item_ext(k) &&
			now->respCtx == NULL && AD_IT(k)->resp.delivered == 0;
}
static int failed_by_error_pdu(const KSI_AsyncHandle *now, int res) {
	int k = g_ad.last_err;
	return res == KSI_OK && g_ad.err_seen && k >= 0 && k < AD_MAXQ && AD_IT(k)->parsed && AD_IT(k)->has_error && now->state == KSI_ASYNC_STATE_ERROR &&
			now->err == ad_conv(&AD_IT(k)->err_status) && now->errExt == (long)AD_IT(k)->err_status.value && now->errMsg == AD_IT(k)->err.errorMsg;
}
/* the transition of one cached request handle is one the property allows */
static int handle_step_ok(const KSI_AsyncHandle *now, const KSI_AsyncHandle *was, int res) {
	if (was->state != KSI_ASYNC_STATE_WAITING_FOR_RESPONSE) return same_handle(now, was);
	if (now->id != was->id || now->ref != was->ref || now->aggrReq != was->aggrReq || now->extReq != was->extReq || now->raw != was->raw) return 0;
	if (now->state == KSI_ASYNC_STATE_WAITING_FOR_RESPONSE) return same_handle(now, was) && !(res == KSI_OK && g_ad.err_seen);
	if (now->state == KSI_ASYNC_STATE_RESPONSE_RECEIVED) return completed_by(now, was, 0) || completed_by(now, was, 1) || completed_by(now, was, 2);
	if (now->state == KSI_ASYNC_STATE_ERROR) return failed_by_status(now, was, 0) || failed_by_status(now, was, 1) || failed_by_status(now, was, 2) || (now->respCtx == NULL && failed_by_error_pdu(now, res));
	return 0;
}
/* consumption / ownership of item k at exit */
static int item_released(int k) {
	const struct ad_item *it = AD_IT(k);
	if (!it->handed_out) return it->parse_calls == 0 && it->os.freed == 0;
	return it->os.freed == 1 && it->os.extract_calls == 1 && it->parse_calls <= 1 && IMPLIES(!it->parsed, it->parse_calls == 0 || it->parse_res != KSI_OK) &&
			IMPLIES(it->parsed, it->pdu.freed == 1 && it->pdu.verify_calls <= 1 && it->err.refs == 0 && it->resp.refs == (it->resp.delivered ? 1 : 0) && it->resp.delivered <= 1 && it->resp.handled <= 1 &&
				it->conf.refs == ((g_c.serverConf != NULL && g_c.serverConf->respCtx == (void *)&it->conf) ? 1 : 0) && it->conf.delivered + it->conf.cb_calls <= 1);
}
static int item_consistent(int k, int res) {
	const struct ad_item *it = AD_IT(k);
	return IMPLIES(it->handed_out && it->parse_calls == 1, it->parse_ctx == &g_ctx && it->parse_raw == &it->byte0 && it->parse_len == it->os.len) &&
			IMPLIES(it->parsed && it->pdu.verify_calls == 1, !it->has_error && it->pdu.verify_key == g_ad_key) &&
			IMPLIES(it->parsed && (it->resp.handled || it->resp.delivered || it->conf.delivered || it->conf.cb_calls), ad_authentic(k)) &&
			IMPLIES(it->handed_out && res == KSI_OK, it->parsed && (it->has_error ? (it->pdu.detach_calls == 1 && it->pdu.verify_calls == 0) : ad_authentic(k))) &&
			IMPLIES(it->parsed && it->has_error, !it->resp.handled && !it->resp.delivered && !it->conf.delivered && !it->conf.cb_calls);
}

#ifdef H_server_config
/* =================================================================================================================
 * C13.async_server_config: ONE call of asyncClient_handleServerConfig with the configuration of an AUTHENTIC pdu (what
 * processResponseQueue hands over: C06.async_queue_*), exact case analysis. */
void harness(void) {
	int res; KSI_Config *config; KSI_Config_Callback cb; KSI_AsyncClient *c; KSI_AsyncHandle *nc; size_t invoke;
	if (!mk_client()) return;
	g_ad_it0.handed_out = 1; g_ad_it0.parsed = 1; g_ad_it0.parse_calls = 1; g_ad_it0.has_header = 1; g_ad_it0.has_hmac = 1; g_ad_it0.has_conf = 1;
	g_ad_it0.pdu.k = 0; g_ad_it0.pdu.had_header = 1; g_ad_it0.pdu.had_hmac = 1; g_ad_it0.pdu.had_error = 0; g_ad_it0.pdu.verify_calls = 1; g_ad_it0.pdu.verify_res = KSI_OK;
	g_ad_it0.pdu.verified = 1; g_ad_it0.pdu.verify_key = g_ad_key; g_ad_it0.pdu.confResponse = &g_ad_it0.conf; g_ad_it0.conf.k = 0; g_ad_it0.conf.pdu = &g_ad_it0.pdu; g_ad_it0.conf.refs = 1;
	config = nondet_bool() ? &g_ad_it0.conf : NULL; c = nondet_bool() ? &g_c : NULL; cb = nondet_bool() ? ad_cb_ctx : NULL;
	__CPROVER_assume(ainv_inv(&g_c));
	__CPROVER_assume(hinv(&g_h1) && hinv(&g_h2) && confinv(g_c.serverConf));
	snapshot();
	invoke = c0.options[KSI_ASYNC_PRIVOPT_INVOKE_CONF_RECEIVED_CALLBACK];

	res = asyncClient_handleServerConfig(c, config, cb);

	nc = g_c.serverConf;
	__CPROVER_assert(ainv_inv(&g_c) && confinv(nc), "serverConfig: Inv(c) and ConfInv are preserved (every path)");
	__CPROVER_assert(slot_same(1) && slot_same(2) && same_handle(&g_h1, &h01) && same_handle(&g_h2, &h02), "serverConfig: no slot and no request handle is touched");
	__CPROVER_assert(IMPLIES(c == NULL || config == NULL, res == KSI_INVALID_ARGUMENT && nc == c0.serverConf && same_handle(&g_conf, &conf0) && g_c.pending == c0.pending && g_c.received == c0.received &&
			g_ad_it0.conf.refs == 1 && !g_ad.cb_ctx && g_ad.oldconf_free == 0), "serverConfig: NULL arguments refused, nothing changes");
	if (c != NULL && config != NULL) {
		if (c0.serverConf != NULL) {
			int first = conf_has_req(&conf0) && conf0.respCtx == NULL;
			__CPROVER_assert(res == KSI_OK && nc == &g_conf && g_conf.state == KSI_ASYNC_STATE_PUSH_CONFIG_RECEIVED && g_conf.respCtx == (void *)config &&
					g_conf.respCtx_free == (void (*)(void *))KSI_Config_free && g_ad_it0.conf.refs == 2 && g_ad_it0.conf.delivered == 1 && !g_ad.cb_ctx,
					"serverConfig: a cached configuration handle receives the configuration (one more reference), state PUSH_CONFIG_RECEIVED, no call-back");
			__CPROVER_assert(g_conf.id == conf0.id && g_conf.ref == conf0.ref && g_conf.aggrReq == conf0.aggrReq && g_conf.extReq == conf0.extReq && g_conf.err == conf0.err && g_conf.errMsg == conf0.errMsg && g_conf.raw == conf0.raw,
					"serverConfig: nothing else of the handle changes");
			__CPROVER_assert(g_ad.oldconf_free == (conf0.respCtx != NULL ? 1 : 0), "serverConfig: the configuration held before is released exactly once");
			__CPROVER_assert(first ? (g_c.pending == c0.pending - 1 && g_c.received == c0.received + 1) : (g_c.pending == c0.pending && g_c.received == c0.received),
					"serverConfig: the counters move (pending-1, received+1) exactly when the user's configuration request gets its FIRST configuration");
			if (first) REACH("requested configuration arrives");
			if (!conf_has_req(&conf0)) REACH("pushed configuration renewed");
		} else if (cb != NULL && invoke != 0) {
			__CPROVER_assert(g_ad.cb_ctx && g_ad_it0.conf.cb_calls == 1 && res == g_ad.cb_res && nc == NULL && g_c.pending == c0.pending && g_c.received == c0.received && g_ad_it0.conf.refs == 1 && g_ad_it0.conf.delivered == 0,
					"serverConfig: unrequested configuration with call-back enabled: the call-back gets it exactly once, its status is returned, no handle is made, counters unchanged");
			REACH("call-back");
		} else {
			__CPROVER_assert(res == KSI_OK || (res == KSI_OUT_OF_MEMORY && nc == NULL && g_c.pending == c0.pending && g_c.received == c0.received && g_ad_it0.conf.refs == 1), "serverConfig: allocation failure => error, nothing changes");
			__CPROVER_assert(IMPLIES(res == KSI_OK, nc != NULL && nc != &g_conf && nc->ref == 1 && nc->state == KSI_ASYNC_STATE_PUSH_CONFIG_RECEIVED && nc->respCtx == (void *)config &&
					nc->respCtx_free == (void (*)(void *))KSI_Config_free && nc->aggrReq == NULL && nc->extReq == NULL && nc->id == 0 && nc->err == KSI_OK && nc->errMsg == NULL && nc->raw == NULL && nc->ctx == &g_ctx &&
					g_c.received == c0.received + 1 && g_c.pending == c0.pending && g_ad_it0.conf.refs == 2 && !g_ad.cb_ctx),
					"serverConfig: unrequested configuration without call-back: a fresh request-less handle holds it, received+1");
			if (res == KSI_OK) REACH("handle made for a pushed configuration");
			if (res == KSI_OK && cb != NULL) REACH("call-back present but switched off");
#ifdef AD_OOM
			if (res == KSI_OUT_OF_MEMORY) REACH("allocation of the configuration handle failed");
#endif
		}
	}
	REACH("returns");
}
#else
void harness(void) {
	int res; KSI_AsyncHandle *nc;
	__CPROVER_assert(KSI_ASYNC_CACHE_START_POS == 1, "cache geometry");
	if (!mk_client()) return;
	__CPROVER_assume(ainv_inv(&g_c));                                  /* induction hypothesis (C13) */
	__CPROVER_assume(hinv(&g_h1) && hinv(&g_h2) && confinv(g_c.serverConf));
	snapshot();

	res = AD_PROCESS(&g_c);

	/* ---- C06: content only from authenticated PDUs (plus the assertions inside the delivering stubs) ---- */
	__CPROVER_assert(item_consistent(0, res) && item_consistent(1, res) && item_consistent(2, res),
			"queue: every item is parsed from the transport's bytes with the client's context, verified at most once under the client's key; content is used only if AUTHENTIC; OK return => every item was an error PDU or AUTHENTIC");
	__CPROVER_assert(IMPLIES(res != KSI_OK, res == g_ad.first_fail || (res == KSI_OUT_OF_MEMORY && g_ad.first_fail == KSI_OK)), "queue: an error return carries the status of the first failing step");
	__CPROVER_assert(IMPLIES(res == KSI_OK, g_ad.first_fail == KSI_OK), "queue: transport failure, malformed or unauthenticated input, failing call-back => error return");
	__CPROVER_assert(IMPLIES(res == KSI_OK, g_ad.get_calls >= 1 && g_ad.last_left == 0), "queue: OK return => the transport queue was drained (the last call reported nothing left)");
	__CPROVER_assert(!g_ad.used_after_fail, "queue: nothing more is taken from the transport after a failure");
	/* ---- every queued response is consumed exactly once and released ---- */
	__CPROVER_assert(item_released(0) && item_released(1) && item_released(2),
			"queue: every byte string handed out is parsed at most once and released exactly once; its PDU, error element, undelivered response and configuration are released exactly once; a delivered object stays alive");
	/* ---- C13: what happens to the cached requests ---- */
	__CPROVER_assert(ainv_inv(&g_c), "queue: Inv(c) is preserved (on every return path)");
	__CPROVER_assert(slot_same(1) && slot_same(2), "queue: no slot is emptied or filled");
	__CPROVER_assert(IMPLIES(cache01 != NULL, handle_step_ok(&g_h1, &h01, res)) && IMPLIES(cache02 != NULL, handle_step_ok(&g_h2, &h02, res)),
			"queue: a cached request changes only if it waited for a response: completed by an AUTHENTIC status-zero reply bearing its own id and verified against its request, failed by such a reply with non-zero status, or failed by an error PDU (after the whole queue was processed); otherwise untouched");
	__CPROVER_assert(IMPLIES(cache01 == NULL, same_handle(&g_h1, &h01)) && IMPLIES(cache02 == NULL, same_handle(&g_h2, &h02)),
			"queue: handles outside the cache are untouched");
	__CPROVER_assert(g_ad.oldresp_free == 0, "queue: a response already delivered is never released");
	/* ---- configuration ---- */
	nc = g_c.serverConf;
	__CPROVER_assert(confinv(nc), "queue: ConfInv is preserved");
	__CPROVER_assert(IMPLIES(c0.serverConf != NULL, nc == c0.serverConf && nc->id == conf0.id && nc->ref == conf0.ref && nc->aggrReq == conf0.aggrReq && nc->extReq == conf0.extReq),
			"queue: a cached configuration handle stays cached");
	__CPROVER_assert(IMPLIES(nc != NULL && (c0.serverConf == NULL || nc->respCtx != conf0.respCtx),
			nc->state == KSI_ASYNC_STATE_PUSH_CONFIG_RECEIVED && nc->respCtx_free == (void (*)(void *))KSI_Config_free &&
			((nc->respCtx == (void *)&g_ad_it0.conf && ad_authentic(0) && g_ad_it0.has_conf) || (nc->respCtx == (void *)&g_ad_it1.conf && ad_authentic(1) && g_ad_it1.has_conf) ||
			 (nc->respCtx == (void *)&g_ad_it2.conf && ad_authentic(2) && g_ad_it2.has_conf))),
			"queue: the configuration a handle holds after the call is the configuration element of an AUTHENTIC pdu");
	__CPROVER_assert(g_ad.oldconf_free == ((c0.serverConf != NULL && conf0.respCtx != NULL && nc->respCtx != conf0.respCtx) ? 1 : 0), "queue: a replaced configuration is released exactly once, a kept one never");
	__CPROVER_assert(IMPLIES(c0.serverConf != NULL && nc->respCtx == conf0.respCtx && nc->state != conf0.state,
			conf0.state == KSI_ASYNC_STATE_WAITING_FOR_RESPONSE && conf0.respCtx == NULL && failed_by_error_pdu(nc, res)), "queue: a configuration request without configuration changes state only by the error PDU fan-out");
	__CPROVER_assert(IMPLIES(g_ad.cb_client || g_ad.cb_ctx, c0.serverConf == NULL && c0.options[KSI_ASYNC_PRIVOPT_INVOKE_CONF_RECEIVED_CALLBACK] != 0 &&
			(g_ad.cb_client ? (!g_ad.cb_ctx && c0.options[KSI_ASYNC_OPT_PUSH_CONF_CALLBACK] != 0) : c0.options[KSI_ASYNC_OPT_PUSH_CONF_CALLBACK] == 0)),
			"queue: a call-back runs only for an unrequested configuration, when enabled; the client's own call-back takes precedence over the context's");

	REACH("returns");
#if AD_MAXQ >= 3
	if (res == KSI_OK && g_ad.n_out == 3 && g_ad_it2.resp.delivered) REACH("three byte strings, the third delivered");
	if (res == KSI_OK && g_ad.get_calls == 3 && !g_ad_it0.handed_out && g_ad_it2.resp.delivered) REACH("nothing at the first call, a reply at the third");
#endif
#if AC_N >= 3 && AD_MAXQ >= 2
	if (res == KSI_OK && g_ad_it0.resp.delivered && g_ad_it1.resp.delivered) REACH("two requests completed in one call");
#endif
#if AD_MAXQ >= 2
	if (res == KSI_OK && g_ad.err_seen && cache01 != NULL && h01.state == KSI_ASYNC_STATE_WAITING_FOR_RESPONSE && g_h1.state == KSI_ASYNC_STATE_ERROR) REACH("error PDU fails a waiting request");
	if (res == KSI_OK && g_ad.err_seen && g_ad.last_err == 0 && g_ad_it1.resp.delivered) REACH("error PDU first, a valid reply after it is still delivered");
#endif
	if (res != KSI_OK && g_ad_it0.pdu.verify_calls == 1 && g_ad_it0.pdu.verify_res != KSI_OK) REACH("MAC verification failed");
#if AD_MAXQ >= 2
	if (res != KSI_OK && g_ad_it1.parse_calls == 1 && !g_ad_it1.parsed && g_ad_it0.resp.delivered) REACH("second byte string malformed after a delivered first");
#endif
	if (res == KSI_OK && cache01 != NULL && g_h1.state == KSI_ASYNC_STATE_ERROR && h01.state == KSI_ASYNC_STATE_WAITING_FOR_RESPONSE && !g_ad.err_seen) REACH("non-zero status fails the request");
	if (res == KSI_OK && g_ad.cb_ctx) REACH("pushed configuration given to the context call-back");
	if (res == KSI_OK && g_ad.cb_client) REACH("pushed configuration given to the client call-back");
	if (res == KSI_OK && c0.serverConf == NULL && nc != NULL) REACH("handle created for a pushed configuration");
	if (res == KSI_OK && c0.serverConf != NULL && conf0.respCtx == NULL && nc->respCtx != NULL) REACH("requested configuration received");
	if (res == KSI_OK && g_ad.oldconf_free == 1) REACH("configuration renewed");
	if (res == KSI_OK && g_ad_it0.resp.handled && !g_ad_it0.resp.delivered && g_ad_it0.resp.vwr_calls == 0) REACH("reply with unknown id ignored");
#if AD_MAXQ >= 2
	if (res == KSI_OK && g_ad.get_calls == 2 && g_ad.n_out == 0) REACH("transport reports more but hands out nothing");
#endif
}
#endif
