/* C06: "the HMAC verifies ... over the received bytes": every parsed object whose bytes go into a MAC keeps the exact
 * bytes it was parsed from (header, aggregation/extension request and response).  The MAC functions (C06.*_calcHmac_*)
 * hash obj->raw when it is present and only re-serialise objects that were built locally (raw == NULL), so a parsed
 * object must never come without raw.  Macro generated, loop-free functions of types.c; plain mode, all outcomes of
 * the callees symbolic. */
#include "env/common.h"
#include "env/stubs_base.h"
#include "types.h"
#include "tlv.h"
#include "tlv_template.h"

/* ---- ASSUMED callees (recording stubs) ---- */
static char g_tlv_obj[8]; static unsigned g_tag; static char g_ctx_obj[8];
static unsigned char *g_ser_buf; static size_t g_ser_len; static _Bool g_ser_called, g_extract_called, g_rk_env_failed;
static char g_raw_token[8]; static const unsigned char *g_os_data; static size_t g_os_len; static unsigned g_os_made;
KSI_CTX *KSI_TLV_getCtx(const KSI_TLV *tlv) { return (KSI_CTX *)g_ctx_obj; }
unsigned KSI_TLV_getTag(const KSI_TLV *tlv) { return g_tag; }
int KSI_TLV_serialize(const KSI_TLV *tlv, unsigned char **buf, size_t *len) {
	__CPROVER_assert(tlv == (const KSI_TLV *)g_tlv_obj, "the bytes kept are those of the element being parsed");
	if (nondet_bool()) { g_rk_env_failed = 1; return KSI_OUT_OF_MEMORY; }
	g_ser_len = nondet_size(); __CPROVER_assume(g_ser_len >= 2 && g_ser_len <= 0x10003);
	g_ser_buf = malloc(1); __CPROVER_assume(g_ser_buf != NULL);       /* identity of the serialization buffer */
	g_ser_called = 1; *buf = g_ser_buf; *len = g_ser_len; return KSI_OK;
}
void KSI_OctetString_free(KSI_OctetString *o) { }
int KSI_OctetString_new(KSI_CTX *ctx, const unsigned char *data, size_t data_len, KSI_OctetString **t) {
	if (nondet_bool()) { g_rk_env_failed = 1; return KSI_OUT_OF_MEMORY; }
	g_os_data = data; g_os_len = data_len; g_os_made++; *t = (KSI_OctetString *)g_raw_token; return KSI_OK;
}
int KSI_TlvTemplate_extract(KSI_CTX *ctx, void *payload, KSI_TLV *tlv, const KSI_TlvTemplate *tmpl) {
	__CPROVER_assert(tlv == (KSI_TLV *)g_tlv_obj, "typed parsing of the element itself");
	g_extract_called = 1; if (nondet_bool()) { g_rk_env_failed = 1; return KSI_INVALID_FORMAT; } return KSI_OK;
}
int KSI_TLV_clone(const KSI_TLV *tlv, KSI_TLV **clone) { if (nondet_bool()) { g_rk_env_failed = 1; return KSI_OUT_OF_MEMORY; } *clone = (KSI_TLV *)g_tlv_obj; return KSI_OK; }
void KSI_TLV_free(KSI_TLV *t) { }
void KSI_Integer_free(KSI_Integer *o) { } void KSI_Utf8String_free(KSI_Utf8String *o) { } void KSI_DataHash_free(KSI_DataHash *o) { }
void KSI_CalendarHashChain_free(KSI_CalendarHashChain *o) { } void KSI_AggregationHashChainList_free(KSI_AggregationHashChainList *o) { }
void KSI_CalendarAuthRec_free(KSI_CalendarAuthRec *o) { } void KSI_AggregationAuthRec_free(KSI_AggregationAuthRec *o) { }
#include "types.c"

#define CHECK(TYPE, TAG1, TAG2) do { \
	TYPE *obj = NULL; int res; \
	g_tag = nondet_uint(); g_ser_called = 0; g_extract_called = 0; g_rk_env_failed = 0; g_os_made = 0; \
	res = TYPE##_fromTlv((KSI_TLV *)g_tlv_obj, &obj); \
	if (res == KSI_OK) { \
		__CPROVER_assert(obj != NULL && g_extract_called && (g_tag == (TAG1) || g_tag == (TAG2)), "parsed: right tag, typed parsing done"); \
		__CPROVER_assert(obj->raw == (KSI_OctetString *)g_raw_token && g_os_made == 1, "a parsed object keeps its received bytes (raw is set)"); \
		__CPROVER_assert(g_ser_called && g_os_data == g_ser_buf && g_os_len == g_ser_len, "raw = the complete bytes of the element it was parsed from"); \
		REACH(#TYPE " parsed"); \
	} else { __CPROVER_assert(obj == NULL, "failure: nothing handed out"); } \
} while (0)

void harness(void) {
#ifdef H_header
	CHECK(KSI_Header, 0x01, 0x01);
#endif
#ifdef H_aggr_resp
	CHECK(KSI_AggregationResp, 0x202, 0x02);
#endif
#ifdef H_ext_resp
	CHECK(KSI_ExtendResp, 0x302, 0x02);
#endif
#ifdef H_aggr_req
	CHECK(KSI_AggregationReq, 0x201, 0x02);
#endif
#ifdef H_ext_req
	CHECK(KSI_ExtendReq, 0x301, 0x02);
#endif
	REACH("returned");
}
