/* C06: PDU HMAC functions of types.c (real file included whole, unmodified). */
#include "env/common.h"
#include "env/stubs_base.h"
#include "types.h"
#include "env/c06_pdu.h"
#include "contracts/types_pdu_hmac.h"
#include "types.c"

#ifdef H_verifyHmac
void harness(void) {
	KSI_CTX *ctx = nondet_bool() ? (KSI_CTX *)malloc(sizeof(KSI_CTX)) : NULL;
	KSI_DataHash *hmac = nondet_ptr();
	const char *key = nondet_ptr();
	KSI_HashAlgorithm conf = (KSI_HashAlgorithm)nondet_int();
	void *pdu = nondet_ptr();
	int (*cb)(const void*, int, const char*, KSI_DataHash**) = nondet_bool() ? c06_calc : NULL;
	int res = pdu_verifyHmac(ctx, hmac, key, conf, cb, pdu);
	if (res == KSI_OK) REACH("MAC accepted");
	if (res == KSI_OK && conf != KSI_HASHALG_INVALID_VALUE) REACH("MAC accepted with pinned algorithm");
	if (res == KSI_HMAC_MISMATCH) REACH("MAC mismatch");
	if (res == KSI_HMAC_ALGORITHM_MISMATCH) REACH("algorithm mismatch");
	if (res != KSI_OK && g_vh_calc_out != NULL) REACH("error with a computed MAC to release");
}
#endif
