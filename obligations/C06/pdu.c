/* C06: PDU HMAC functions of types.c (real file included whole, unmodified). */
#include "env/common.h"
#include "env/stubs_base.h"
#include "types.h"
#include "spec/hmac.h"
#if defined(H_aggr_calc_v1) || defined(H_ext_calc_v1)
#define C06_SER_MAX 6          /* stated bound of the v1 jobs: every element (raw or serialized) is at most 6 bytes */
#endif
#if defined(H_aggr_calc_v2) || defined(H_aggr_calc_v1)
#define C06_AGGR_CALC
#define C06_CALC_STUBS
#endif
#if defined(H_ext_calc_v2) || defined(H_ext_calc_v1)
#define C06_EXT_CALC
#define C06_CALC_STUBS
#endif
#ifdef H_aggr_enclose
#define C06_AGGR_CALC
#define C06_AGGR_ENCLOSE
#define C06_ENCLOSE
#define C06_CALC_STUBS
#endif
#ifdef H_ext_enclose
#define C06_EXT_CALC
#define C06_EXT_ENCLOSE
#define C06_ENCLOSE
#define C06_CALC_STUBS
#endif
#ifdef H_aggr_verify
#define C06_AGGR_VERIFY
#define C06_VH_CB ((c06_calc_fn)KSI_AggregationPdu_calculateHmac)
#endif
#ifdef H_ext_verify
#define C06_EXT_VERIFY
#define C06_VH_CB ((c06_calc_fn)KSI_ExtendPdu_calculateHmac)
#endif
#include "env/c06_pdu.h"
#include "types_base.c"
#ifdef H_verifyHmac
#include "contracts/types_pdu_hmac.h"
#endif
#include "types.c"
#ifndef H_verifyHmac
#include "contracts/types_pdu_hmac.h"     /* these contracts mention the PDU structs that types.c defines */
#endif

#ifdef H_verifyHmac
void harness(void) {
	KSI_CTX *ctx = nondet_bool() ? (KSI_CTX *)malloc(sizeof(KSI_CTX)) : NULL;
	KSI_DataHash *hmac = nondet_ptr();
	const char *key = nondet_ptr();
	KSI_HashAlgorithm conf = (KSI_HashAlgorithm)nondet_int();
	void *pdu = nondet_ptr();
	int (*cb)(const void*, int, const char*, KSI_DataHash**) = nondet_bool() ? c06_calc : NULL;
	int res = pdu_verifyHmac(ctx, hmac, key, conf, cb, pdu);
	if (res == KSI_OK) REACH("MAC accepted");
	if (res == KSI_OK && conf != KSI_HASHALG_INVALID_VALUE) REACH("MAC accepted with pinned algorithm");
	if (res == KSI_HMAC_MISMATCH) REACH("MAC mismatch");
	if (res == KSI_HMAC_ALGORITHM_MISMATCH) REACH("algorithm mismatch");
	if (res != KSI_OK && g_vh_calc_out != NULL) REACH("error with a computed MAC to release");
}
#endif

#if defined(H_aggr_calc_v1) || defined(H_aggr_calc_v2) || defined(H_ext_calc_v1) || defined(H_ext_calc_v2)
/* The PDU is built concretely from static objects: every optional element present or absent, received raw bytes
 * present or absent.  v2 jobs: raw length arbitrary (the bytes are only handed on); v1 job: lengths <= C06_SER_MAX. */
#ifdef C06_SER_MAX
#define RAWCAP C06_SER_MAX
#else
#define RAWCAP 1
#endif
static KSI_OctetString o_pdu, o_hdr, o_req, o_resp;
static unsigned char b_pdu[RAWCAP], b_hdr[RAWCAP], b_req[RAWCAP], b_resp[RAWCAP];
static KSI_OctetString *mk_raw(KSI_OctetString *o, unsigned char *buf) {
	if (nondet_bool()) return NULL;
	o->data = buf;
	o->data_len = nondet_size();
#ifdef C06_SER_MAX
	if (o->data_len > C06_SER_MAX) o->data_len = C06_SER_MAX;
#endif
	return o;
}
#ifdef C06_AGGR_CALC
#define PDU_T KSI_AggregationPdu
#define REQ_T KSI_AggregationReq
#define RESP_T KSI_AggregationResp
#define VER_OPT KSI_OPT_AGGR_PDU_VER
#define CALC KSI_AggregationPdu_calculateHmac
#else
#define PDU_T KSI_ExtendPdu
#define REQ_T KSI_ExtendReq
#define RESP_T KSI_ExtendResp
#define VER_OPT KSI_OPT_EXT_PDU_VER
#define CALC KSI_ExtendPdu_calculateHmac
#endif
static KSI_CTX s_ctx; static PDU_T s_pdu; static KSI_Header s_hdr; static REQ_T s_req; static RESP_T s_resp;
static KSI_Config s_conf;
#ifdef C06_AGGR_CALC
static KSI_RequestAck s_ack;
#endif
void harness(void) {
#if defined(H_aggr_calc_v2) || defined(H_ext_calc_v2)
	KSI_CTX *ctx = &s_ctx;            /* (absent PDU / absent context: covered by the v1 jobs) */
	PDU_T *pdu = &s_pdu;
#else
	KSI_CTX *ctx = nondet_bool() ? &s_ctx : NULL;
	PDU_T *pdu = nondet_bool() ? &s_pdu : NULL;
#endif
	KSI_DataHash *out = nondet_ptr(), *out0 = out;
	const char *key = nondet_ptr();
	KSI_HashAlgorithm alg = (KSI_HashAlgorithm)nondet_int();
	int res;
	/* v2 jobs: version 2 exactly (keeps the memcpy-heavy v1 path out of the formula);
	 * v1 jobs: every other value of the option, i.e. version 1 and all invalid versions */
#if defined(H_aggr_calc_v2) || defined(H_ext_calc_v2)
	size_t ver = KSI_PDU_VERSION_2;
#else
	size_t ver = nondet_size();
	if (ver == KSI_PDU_VERSION_2) ver = KSI_PDU_VERSION_1;
#endif
	s_ctx.options[VER_OPT] = ver;
	if (pdu != NULL) {
		pdu->ctx = ctx;
		pdu->header = nondet_bool() ? &s_hdr : NULL;
		s_hdr.ctx = ctx; s_hdr.raw = mk_raw(&o_hdr, b_hdr);
		pdu->request = NULL; pdu->response = NULL; pdu->confRequest = NULL; pdu->confResponse = NULL;
		pdu->error = NULL; pdu->hmac = nondet_ptr();
#ifdef C06_AGGR_CALC
		pdu->ackRequest = NULL; pdu->ackResponse = NULL;
#endif
		/* well-formed direction: request-side elements or response-side elements, never both */
		if (nondet_bool()) {
			if (nondet_bool()) { pdu->request = &s_req; s_req.raw = mk_raw(&o_req, b_req); }
			if (nondet_bool()) pdu->confRequest = &s_conf;
#ifdef C06_AGGR_CALC
			if (nondet_bool()) pdu->ackRequest = &s_ack;
#endif
		} else {
			if (nondet_bool()) { pdu->response = &s_resp; s_resp.raw = mk_raw(&o_resp, b_resp); }
			if (nondet_bool()) pdu->confResponse = &s_conf;
#ifdef C06_AGGR_CALC
			if (nondet_bool()) pdu->ackResponse = &s_ack;
#endif
		}
		pdu->raw = mk_raw(&o_pdu, b_pdu);
	}
	g_hl = nondet_uint();
	g_mac_wit = nondet_size();
	g_c06.call_t = pdu; g_c06.call_alg = (int)alg; g_c06.call_key = key; g_c06.call_placeholder = pdu != NULL ? pdu->hmac : NULL;
	res = CALC(pdu, alg, key, nondet_bool() ? &out : NULL);
	if (res == KSI_OK) REACH("MAC computed");
#if defined(H_aggr_calc_v2) || defined(H_ext_calc_v2)
	if (res == KSI_OK && pdu->raw != NULL) REACH("MAC over the received bytes");
	if (res == KSI_OK && pdu->raw == NULL && pdu->response != NULL) REACH("MAC over a serialized response PDU");
	if (res == KSI_OK && pdu->raw == NULL && pdu->confRequest != NULL) REACH("MAC over a serialized configuration request PDU");
#endif
	if (res != KSI_OK && g_ser_calls > 0) REACH("error after serialization");
#if defined(H_aggr_calc_v1) || defined(H_ext_calc_v1)
	if (res == KSI_INVALID_FORMAT && ctx != NULL && pdu != NULL) REACH("invalid PDU version refused");
	if (res == KSI_OK && g_ser_calls == 2 && g_mac_wit < g_mac_len) REACH("v1 MAC over two serialized elements, witness inside");
	if (res == KSI_OK && g_ser_calls == 0 && g_mac_wit >= s_hdr.raw->data_len && g_mac_wit < g_mac_len) REACH("v1 MAC over raw elements, witness in the payload");
#endif
	if (res == KSI_OK) free(out);          /* the caller owns the result (for --memory-leak-check) */
}
#endif

#if defined(H_aggr_verify) || defined(H_ext_verify)
#ifdef H_aggr_verify
#define PDU_T KSI_AggregationPdu
#define VERIFY KSI_AggregationPdu_verify
#else
#define PDU_T KSI_ExtendPdu
#define VERIFY KSI_ExtendPdu_verify
#endif
static KSI_CTX s_ctx; static PDU_T s_pdu; static KSI_Header s_hdr; static KSI_DataHash s_mac;
void harness(void) {
	PDU_T *pdu = nondet_bool() ? &s_pdu : NULL;
	const char *pass = nondet_ptr();
	int res;
	s_ctx.options[KSI_OPT_AGGR_HMAC_ALGORITHM] = nondet_size();
	s_ctx.options[KSI_OPT_EXT_HMAC_ALGORITHM] = nondet_size();
	s_pdu.ctx = &s_ctx;                /* a PDU object always carries the context it was created with */
	s_pdu.header = nondet_bool() ? &s_hdr : NULL;
	s_pdu.hmac = nondet_bool() ? &s_mac : NULL;
	s_mac.imprint[0] = nondet_uchar();
	res = VERIFY(pdu, pass);
	if (res == KSI_OK) REACH("PDU accepted");
	if (res == KSI_OK && (KSI_HashAlgorithm)s_ctx.options[KSI_OPT_AGGR_HMAC_ALGORITHM] != KSI_HASHALG_INVALID_VALUE
			&& (KSI_HashAlgorithm)s_ctx.options[KSI_OPT_EXT_HMAC_ALGORITHM] != KSI_HASHALG_INVALID_VALUE) REACH("PDU accepted with pinned algorithm");
	if (res == KSI_INVALID_FORMAT) REACH("header or MAC missing");
	if (res == KSI_HMAC_MISMATCH) REACH("MAC mismatch");
}
#endif

#if defined(H_aggr_enclose) || defined(H_ext_enclose)
#ifdef H_aggr_enclose
#define REQ_T KSI_AggregationReq
#define PDU_T KSI_AggregationPdu
#define ENCLOSE KSI_AggregationReq_encloseWithHeader
#define ALG_OPT KSI_OPT_AGGR_HMAC_ALGORITHM
#define VER_OPT KSI_OPT_AGGR_PDU_VER
#else
#define REQ_T KSI_ExtendReq
#define PDU_T KSI_ExtendPdu
#define ENCLOSE KSI_ExtendReq_encloseWithHeader
#define ALG_OPT KSI_OPT_EXT_HMAC_ALGORITHM
#define VER_OPT KSI_OPT_EXT_PDU_VER
#endif
static KSI_CTX s_ctx; static KSI_Header s_hdr; static KSI_Config s_conf; static PDU_T s_prev;
void harness(void) {
	REQ_T *req = nondet_bool() ? malloc(sizeof(REQ_T)) : NULL;
	KSI_Header *hdr = nondet_bool() ? &s_hdr : NULL;
	const char *key = nondet_ptr();
	PDU_T *out = nondet_bool() ? &s_prev : NULL;
	int res;
	memset(&g_c06, 0, sizeof(g_c06)); memset(&g_en, 0, sizeof(g_en)); g_vh_free_calls = 0; g_vh_free_foreign = 0;
	s_ctx.options[ALG_OPT] = nondet_size(); s_ctx.options[VER_OPT] = nondet_size();
	s_hdr.ctx = &s_ctx; s_hdr.instanceId = NULL; s_hdr.messageId = NULL; s_hdr.loginId = NULL; s_hdr.raw = NULL;
	s_conf.ref = 2; s_conf.ctx = &s_ctx;
	if (req != NULL) {
		memset(req, 0, sizeof(*req));
		req->ref = 1; req->ctx = &s_ctx; req->config = nondet_bool() ? &s_conf : NULL;
#ifdef H_aggr_enclose
		req->requestHash = nondet_ptr();
#else
		req->aggregationTime = nondet_ptr(); req->publicationTime = nondet_ptr();
#endif
	}
	res = ENCLOSE(req, hdr, key, nondet_bool() ? &out : NULL);
	if (res == KSI_OK) REACH("request enclosed and MAC-ed");
	if (res == KSI_UNTRUSTED_HASH_ALGORITHM) REACH("untrusted MAC algorithm refused");
	if (res == KSI_INVALID_STATE) REACH("no MAC algorithm configured");
	if (res != KSI_OK && g_c06.call_t != NULL) REACH("MAC computation failed");
}
#endif
