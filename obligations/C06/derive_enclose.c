/* C06 (builderR, "derive"): the request enclose functions of types.c (real file included whole, unmodified).
 *   -DH_derive_aggr_pdu / -DH_derive_ext_pdu      KSI_*Req_encloseWithHeader under C06D_ENCLOSE_CONTRACT
 *                                                 (KSI_*Pdu_calculateHmac replaced by C06_V2_CONTRACT of contracts/types_pdu_hmac.h)
 *   -DH_derive_aggr_login / -DH_derive_ext_login  KSI_*Req_enclose under C06D_LOGIN_CONTRACT
 *                                                 (KSI_*Req_encloseWithHeader replaced by C06D_EWH_LEAN; this TU has no types_base.c)
 */
#include "env/common.h"

#if defined(H_derive_aggr_pdu) || defined(H_derive_ext_pdu)
/* ------------------------------------------------------------------------------------------------------------ */
#include "env/stubs_base.h"
#include "types.h"
#include "spec/hmac.h"
#ifdef H_derive_aggr_pdu
#define C06_AGGR_CALC
#define C06D_AGGR
#else
#define C06_EXT_CALC
#define C06D_EXT
#endif
#define C06_ENCLOSE               /* ghost g_en + stubs of env/c06_pdu.h; NOT C06_*_ENCLOSE: the enclose contract is ours */
#define C06_CALC_STUBS
#define C06D_PDU_JOB
#include "env/c06_pdu.h"
#include "types_base.c"
#include "types.c"
#include "contracts/types_pdu_hmac.h"
#include "env/c06_enclose_derive.h"
#include "contracts/types_enclose_derive.h"

#ifdef H_derive_aggr_pdu
#define REQ_T KSI_AggregationReq
#define PDU_T KSI_AggregationPdu
#define ENCLOSE KSI_AggregationReq_encloseWithHeader
#define ALG_OPT KSI_OPT_AGGR_HMAC_ALGORITHM
#define VER_OPT KSI_OPT_AGGR_PDU_VER
#define HAS_PAYLOAD(r) ((r)->requestHash != NULL)
#else
#define REQ_T KSI_ExtendReq
#define PDU_T KSI_ExtendPdu
#define ENCLOSE KSI_ExtendReq_encloseWithHeader
#define ALG_OPT KSI_OPT_EXT_HMAC_ALGORITHM
#define VER_OPT KSI_OPT_EXT_PDU_VER
#define HAS_PAYLOAD(r) ((r)->aggregationTime != NULL || (r)->publicationTime != NULL)
#endif
static KSI_CTX s_ctx; static KSI_Header s_hdr; static KSI_Config s_conf; static PDU_T s_prev;
static KSI_OctetString o_hdr, o_req;
void harness(void) {
	REQ_T *req = nondet_bool() ? malloc(sizeof(REQ_T)) : NULL;
	KSI_Header *hdr = nondet_bool() ? &s_hdr : NULL;
	const char *key = nondet_ptr();
	PDU_T *out = nondet_bool() ? &s_prev : NULL;
	size_t ver;
	int res;
	/* ghost pinned (dfcc leaves statics arbitrary) */
	memset(&g_c06, 0, sizeof(g_c06)); memset(&g_en, 0, sizeof(g_en)); g_vh_free_calls = 0; g_vh_free_foreign = 0;
	g_dv_pdu_free_conf = NULL; memset(&g_dv_ewh, 0, sizeof(g_dv_ewh));
	g_hl = nondet_uint();                 /* what KSI_getHashLength reports: arbitrary but fixed */
	g_mac_wit = nondet_size();
	s_ctx.options[ALG_OPT] = nondet_size(); s_ctx.options[VER_OPT] = nondet_size();
	ver = s_ctx.options[VER_OPT];
	/* the caller's header: any header object, with or without received raw bytes (v1 authenticates those as they are) */
	s_hdr.ctx = &s_ctx; s_hdr.instanceId = nondet_ptr(); s_hdr.messageId = nondet_ptr(); s_hdr.loginId = nondet_ptr();
	o_hdr.data_len = nondet_size(); o_req.data_len = nondet_size();
	s_hdr.raw = nondet_bool() ? &o_hdr : NULL;
	s_conf.ref = nondet_size(); s_conf.ctx = &s_ctx;
	if (req != NULL) {
		memset(req, 0, sizeof(*req));
		req->ref = 1; req->ctx = &s_ctx; req->config = nondet_bool() ? &s_conf : NULL;
		req->requestId = nondet_ptr();
		req->raw = nondet_bool() ? &o_req : NULL;
#ifdef H_derive_aggr_pdu
		req->requestHash = nondet_ptr(); req->requestLevel = nondet_ptr();
#else
		req->aggregationTime = nondet_ptr(); req->publicationTime = nondet_ptr();
#endif
	}
	res = ENCLOSE(req, hdr, key, nondet_bool() ? &out : NULL);
	if (res == KSI_OK && ver == KSI_PDU_VERSION_2) REACH("v2 request enclosed and MAC-ed");
	if (res == KSI_OK && ver == KSI_PDU_VERSION_1) REACH("v1 request enclosed and MAC-ed");
	if (res == KSI_OK && ver == KSI_PDU_VERSION_2 && req->config != NULL && !HAS_PAYLOAD(req)) REACH("v2 configuration request alone");
	if (res == KSI_OK && ver == KSI_PDU_VERSION_2 && req->config != NULL && HAS_PAYLOAD(req)) REACH("v2 payload and configuration request");
	if (res == KSI_OK && ver == KSI_PDU_VERSION_1 && s_hdr.raw == NULL && req->raw != NULL) REACH("v1 header serialized, request raw");
#ifdef H_derive_aggr_pdu
	if (res == KSI_OK && ver == KSI_PDU_VERSION_1 && req->config != NULL && req->requestHash == NULL) REACH("v1 configuration request travels inside the request");
#endif
	if (res == KSI_INVALID_ARGUMENT && req != NULL && hdr != NULL && key != NULL && g_c06.call_t != NULL) REACH("nothing to send refused by calculateHmac");
	if (res == KSI_INVALID_FORMAT && g_c06.call_t != NULL) REACH("not a PDU version");
	if (res != KSI_OK && g_en.pdu_free_calls == 1 && g_dv_pdu_free_conf != NULL) REACH("failure after a configuration reference was taken");
	if (res == KSI_UNTRUSTED_HASH_ALGORITHM) REACH("untrusted MAC algorithm refused");
	if (res == KSI_OUT_OF_MEMORY && req != NULL && hdr != NULL && key != NULL && g_en.trusted_calls == 0) REACH("no memory for the PDU object");
}
#endif

#if defined(H_derive_aggr_login) || defined(H_derive_ext_login)
/* ------------------------------------------------------------------------------------------------------------ */
#include "types.h"
#include "impl/ctx_impl.h"
#define C06D_LOGIN_ENV
#define C06D_LOGIN_JOB
#ifdef H_derive_aggr_login
#define C06D_AGGR
#else
#define C06D_EXT
#endif
#include "env/c06_enclose_derive.h"
#include "types.c"
#include "contracts/types_enclose_derive.h"

#ifdef H_derive_aggr_login
#define REQ_T KSI_AggregationReq
#define PDU_T KSI_AggregationPdu
#define ENCLOSE KSI_AggregationReq_enclose
#else
#define REQ_T KSI_ExtendReq
#define PDU_T KSI_ExtendPdu
#define ENCLOSE KSI_ExtendReq_enclose
#endif
static KSI_CTX s_ctx; static REQ_T s_req; static PDU_T s_prev; static char s_login[4];
void harness(void) {
	REQ_T *req = nondet_bool() ? &s_req : NULL;
	const char *login = nondet_bool() ? s_login : NULL;
	const char *key = nondet_ptr();
	PDU_T *out = nondet_bool() ? &s_prev : NULL;
	int res;
	memset(&g_dv_ewh, 0, sizeof(g_dv_ewh)); memset(&g_dl, 0, sizeof(g_dl));
	g_dl_strlen = nondet_size();          /* every length, also beyond UINT_MAX */
	s_ctx.requestHeaderCB = nondet_bool() ? c06d_header_cb : NULL;
	/* the request: arbitrary contents (the wrapper must neither read nor release them); no configuration request,
	 * so that a release of the request - which the frame forbids - stays inside the functions this TU has */
	s_req.ref = 1; s_req.ctx = &s_ctx; s_req.config = NULL;
	s_req.requestId = nondet_ptr(); s_req.raw = nondet_ptr();
#ifdef H_derive_aggr_login
	s_req.requestHash = nondet_ptr(); s_req.requestLevel = nondet_ptr();
#else
	s_req.aggregationTime = nondet_ptr(); s_req.publicationTime = nondet_ptr();
#endif
	res = ENCLOSE(req, login, key, nondet_bool() ? &out : NULL);
	if (res == KSI_OK) REACH("request enclosed");
	if (res == KSI_OK && g_dl.cb_calls == 1 && g_dl.cb_inst != NULL) REACH("request enclosed, call-back filled in the header");
	if (res == KSI_OK && g_dl.cb_calls == 0) REACH("request enclosed without call-back");
	if (res != KSI_OK && g_dl.cb_calls == 1 && g_dv_ewh.calls == 0) REACH("call-back aborts");
	if (res != KSI_OK && g_dv_ewh.calls == 1) REACH("encloseWithHeader failed, header released");
	if (res != KSI_OK && g_dl.u8_calls == 1 && g_dl.u8_res != KSI_OK) REACH("login id refused");
	if (res == KSI_INVALID_ARGUMENT && g_dl_strlen > UINT_MAX && g_dl.sl_calls == 1) REACH("login id too long");
	if (res == KSI_OUT_OF_MEMORY && g_dl.alloc_calls == 1 && g_dl.alloc_last == NULL) REACH("no memory for the header");
	if (res == KSI_OK) free(g_dl.alloc_last);      /* (the PDU owns the header; a header released by the wrapper would be a double free here) */
}
#endif
