/* C06: hmac.c against the RFC 2104 structure; the hasher is the transcript monitor of env/c06_hasher.h.
 * Plain unwinding (loops are bounded by MAX_BUF_LEN = 128, a constant of the code): width-complete. */
#include "env/common.h"
#include "env/stubs_base.h"
#include "hmac.h"
#include "env/c06_hasher.h"
#include "hmac.c"

static KSI_CTX *mk_ctx(void) { static char c; return nondet_bool() ? (KSI_CTX *)&c : NULL; }   /* never dereferenced by hmac.c */
static unsigned char keybuf[MAX_BUF_LEN];

#ifdef H_create
void harness(void) {
	KSI_CTX *ctx = mk_ctx();
	static unsigned char data[4];
	const unsigned char *msg = nondet_bool() ? data : NULL;
	size_t msg_len = nondet_size();
	KSI_DataHash *out = NULL;
	int has_out = nondet_bool(), has_key = nondet_bool();
	int res;
	/* dfcc leaves statics arbitrary: the monitor starts in its initial state */
	g_hp = HP_NONE; g_h_open_calls = 0; g_h_free_calls = 0; g_h_fail = 0; g_h_keyhash = NULL; g_h_inner = NULL; g_h_outer = NULL;
	g_h_msg = NULL; g_h_msg_len = 0; g_h_msg_adds = 0; g_h_hash_live = 0;
	g_hk = keybuf; g_hk_len = nondet_size(); g_hb = nondet_uint(); g_hd = nondet_uint(); g_halg = nondet_int(); g_hw = nondet_size();
	if (g_hd > KSI_MAX_IMPRINT_LEN - 1) g_hd = KSI_MAX_IMPRINT_LEN - 1;   /* a digest fits the imprint field (hash.c invariant) */
	res = KSI_HMAC_create(ctx, (KSI_HashAlgorithm)g_halg, has_key ? (const char *)keybuf : NULL, msg, msg_len, has_out ? &out : NULL);
	/* ---- postconditions (RFC 2104 structure) ---- */
	__CPROVER_assert(IMPLIES(res == KSI_OK, g_hp == HP_DONE && !g_h_fail), "OK => the whole RFC 2104 sequence was carried out without hasher error");
	__CPROVER_assert(IMPLIES(res == KSI_OK, out == g_h_outer && out != NULL && out->ref == 1), "OK => result is the digest of the outer pass, owned by the caller");
	__CPROVER_assert(IMPLIES(res == KSI_OK, g_h_msg_adds == 1 && g_h_msg == (const void *)msg && g_h_msg_len == msg_len), "OK => the inner pass hashed exactly the message (data, data_len) after the ipad block");
	__CPROVER_assert(IMPLIES(res == KSI_OK, g_hk_len >= 1 && g_hk_len <= 0xffff && g_hb >= 1 && g_hb <= MAX_BUF_LEN), "OK => key length 1..65535, block size 1..128");
	__CPROVER_assert(IMPLIES(res == KSI_OK, IFF(g_h_keyhash != NULL, g_hk_len > g_hb)), "OK => key hashed first iff longer than the block");
	__CPROVER_assert(IMPLIES(res != KSI_OK, out == NULL), "error => no result");
	__CPROVER_assert(IMPLIES(ctx != NULL && has_out && has_key && msg != NULL && g_hk_len >= 1 && g_hk_len <= 0xffff && g_hb >= 1 && g_hb <= MAX_BUF_LEN
			&& g_hd <= g_hb && g_hd <= MAX_BUF_LEN && !g_h_fail, res == KSI_OK || res == KSI_OUT_OF_MEMORY), "valid arguments and no hasher error => OK (or allocation failure)");
	__CPROVER_assert(g_h_hash_live == (res == KSI_OK ? 1 : 0), "every intermediate digest is released; only the result survives");
	__CPROVER_assert(g_h_free_calls == g_h_open_calls || (g_h_open_calls == 1 && g_hp == HP_NONE), "the hasher is released");
	if (res == KSI_OK) REACH("HMAC computed");
	if (res == KSI_OK && g_hk_len > g_hb) REACH("HMAC with a key longer than the block");
	if (res == KSI_OK && g_hk_len == g_hb) REACH("HMAC with a key of exactly one block");
	if (res == KSI_OK && g_hb == 128 && g_hk_len == 3) REACH("HMAC with 128-byte block and short key");
	if (res != KSI_OK && g_hp == HP_INNER_MSG) REACH("hasher error in the inner pass");
	if (res == KSI_BUFFER_OVERFLOW) REACH("block larger than the internal buffer refused");
	if (res == KSI_OK) { free(out); }
}
#endif
