/* C06: the response getters of net.c hand out content only from a PDU whose MAC was verified.
 * net.c is included whole and unmodified; the PDU ADT of types.c is the model of env/c06_net.h. */
#include "env/common.h"
#include "env/stubs_base.h"
#include "net.h"
#include "env/c06_net.h"
#ifdef H_aggr
#define C06_NET_AGGR
#else
#define C06_NET_EXT
#endif
#include "contracts/net_response.h"
#include "net.c"

static KSI_CTX s_ctx; static KSI_RequestHandle s_h; static KSI_NetworkClient s_cl; static KSI_NetEndpoint s_aggr, s_ext;
static struct KSI_AggregationReq_st s_areq; static struct KSI_ExtendReq_st s_ereq;
static unsigned char s_bytes[4]; static char s_key_a[2], s_key_e[2];
static struct KSI_Config_st s_reqconf;

void harness(void) {
	KSI_RequestHandle *h = nondet_bool() ? &s_h : NULL;
	static char respobj;
	void *out = nondet_bool() ? NULL : &respobj, *out0 = out;
	int has_out = nondet_bool();
	int res;
	s_h.ctx = &s_ctx;
	s_h.response = s_bytes; s_h.response_length = nondet_size();
	s_h.request = s_bytes; s_h.request_length = nondet_size();
	s_h.err.code = nondet_int();
	s_cl.aggregator = &s_aggr; s_cl.extender = &s_ext;
	s_aggr.ksi_pass = s_key_a; s_ext.ksi_pass = s_key_e;
#ifdef H_aggr
	s_h.client = nondet_bool() ? &s_cl : NULL;
	if (nondet_bool()) s_aggr.ksi_pass = NULL;
	s_h.reqCtx = nondet_bool() ? &s_areq : NULL;
	s_areq.requestHash = nondet_ptr(); s_areq.config = nondet_bool() ? &s_reqconf : NULL;
	s_ctx.options[KSI_OPT_AGGR_CONF_RECEIVED_CALLBACK] = nondet_bool() ? (size_t)c06_conf_cb : 0;
	res = KSI_RequestHandle_getAggregationResponse(h, has_out ? (KSI_AggregationResp **)&out : NULL);
#else
	s_h.client = &s_cl;                /* getExtendResponse has no guard for a handle without client (see NOTES) */
	s_h.reqCtx = nondet_bool() ? &s_ereq : NULL;
	s_ereq.aggregationTime = nondet_ptr(); s_ereq.config = nondet_bool() ? &s_reqconf : NULL;
	s_ctx.options[KSI_OPT_EXT_CONF_RECEIVED_CALLBACK] = nondet_bool() ? (size_t)c06_conf_cb : 0;
	res = KSI_RequestHandle_getExtendResponse(h, has_out ? (KSI_ExtendResp **)&out : NULL);
#endif
	if (res == KSI_OK) REACH("response delivered");
	if (res == KSI_OK && out != NULL && out != g_net.orig_response) REACH("configuration-only response delivered in a new object");
	if (g_net.cb_calls == 1) REACH("pushed configuration handed to the call-back");
	if (res != KSI_OK && g_net.verify_calls == 1 && g_net.verify_res != KSI_OK) REACH("MAC verification failed");
	if (res != KSI_OK && g_net.orig_has_error && g_net.parse_res == KSI_OK) REACH("error PDU");
}
