/* builderR - C11 "derived signatures": signature_builder.c (REAL, whole, unmodified) - prepending a local aggregation chain,
 * level correction in both directions, the builder functions that derive a new signature from a clone. */
#include "env/common.h"
#include "env/stubs_base.h"
#include "ksi.h"
#include "signature_builder.h"
#include "tlv.h"
#include "tlv_template.h"
#include "hashchain.h"
#include "net.h"
#if defined(H_append)
#define C11D_APPEND_CONTRACT
#include "env/c11_derive_append.h"
#endif
#if defined(H_level)
#define C11D_LEVEL_CONTRACT
#include "env/c11_derive_level.h"
#endif
#if defined(H_bappend)
#define C11D_APPEND_CONTRACT
#define C11D_LEVEL_CONTRACT
#define C11D_REPLACED_STATICS
#define C11D_BAPPEND_CONTRACT
#include "env/c11_derive_types.h"
/* ASSUMED: KSI_AggregationHashChain_aggregate (hashchain.c; real body: C03.aggr jobs): arbitrary status and level, arguments recorded */
int KSI_AggregationHashChain_aggregate(KSI_AggregationHashChain *aggr, int startLevel, int *endLevel, KSI_DataHash **root) {
	g_bd.aggregate_calls++; g_bd.aggregate_chain = aggr; g_bd.aggregate_start = startLevel; g_bd.aggregate_no_root = (root == NULL && endLevel != NULL);
	g_bd.aggregate_res = c11d_status();
	if (g_bd.aggregate_res == KSI_OK && endLevel != NULL) { g_bd.aggregate_level = nondet_int(); *endLevel = g_bd.aggregate_level; }
	return g_bd.aggregate_res;
}
#endif
#if defined(H_create)
#define C11D_APPEND_CONTRACT
#define C11D_LEVEL_CONTRACT
#define C11D_BAPPEND_CONTRACT
#define C11D_REPLACED_BAPPEND
#define C11D_CREATE_CONTRACT
#include "env/c11_derive_types.h"
/* ASSUMED: KSI_Signature_clone (signature.c; real body: C11.sig_clone): arbitrary status; on OK "the clone" is the model object g_d_sig,
 * a different object than the source; KSI_Signature_free: recording stub */
int KSI_Signature_clone(const KSI_Signature *sig, KSI_Signature **clone) {
	g_cn.clone_calls++; g_cn.clone_from = sig; g_cn.clone_res = sig == NULL || clone == NULL ? KSI_INVALID_ARGUMENT : c11d_status();
	if (g_cn.clone_res != KSI_OK) return g_cn.clone_res;
	g_d_sig.ctx = sig->ctx; g_d_sig.ref = 1; g_d_sig.baseTlv = &g_d_base; g_d_sig.aggregationChainList = &g_d_chainlist;
	g_cn.clone_live++; *clone = &g_d_sig; return KSI_OK;
}
void KSI_Signature_free(KSI_Signature *sig) {
	if (sig == NULL) return;
	g_cn.sig_free_calls++;
	if (sig == &g_d_sig) g_cn.clone_live--; else g_cn.foreign_free = 1;
}
#endif
#if defined(H_open)
#include "env/c11_derive_types.h"
/* ASSUMED: KSI_VerificationResult_init (arbitrary status, recorded); KSI_Signature_free: text of signature.c:904 for an object whose members are all absent */
static int g_vr_calls, g_vr_res; static const void *g_vr_arg, *g_vr_ctx;
int KSI_VerificationResult_init(KSI_VerificationResult *info, KSI_CTX *ctx) { g_vr_calls++; g_vr_arg = info; g_vr_ctx = ctx; g_vr_res = nondet_int(); return g_vr_res; }
void KSI_Signature_free(KSI_Signature *sig) {
	if (sig != NULL && --sig->ref == 0) {
		g_cn.sig_free_calls++;
		__CPROVER_assert(sig->baseTlv == NULL && sig->calendarChain == NULL && sig->aggregationChainList == NULL && sig->calendarAuthRec == NULL && sig->aggregationAuthRec == NULL &&
			sig->publication == NULL && sig->rfc3161 == NULL, "only an empty signature object is released here");
		KSI_free(sig);
	}
}
#endif
#include "contracts/signature_builder_derive.h"
#include "signature_builder.c"

#ifdef H_append
void harness(void) {
	int res; _Bool sNull = nondet_bool(), aNull = nondet_bool();
	c11d_init();
	g_di.links = nondet_size(); g_di.nchains = nondet_size(); g_di.cur_len = nondet_size(); g_di.had_index = nondet_bool(); g_di.own_len = nondet_size(); g_di.shape_val = nondet_ull();
	g_di.time_p = nondet_bool() ? &g_d_signtime : NULL; g_di.first_p = nondet_bool() ? &g_d_cur : NULL;
	g_d_aggr.chain = nondet_bool() ? &g_d_linklist : NULL; g_d_aggr.aggregationTime = NULL; g_d_aggr.chainIndex = g_di.had_index ? &g_d_aggr_idx : NULL;
	g_d_cur.chain = NULL; g_d_cur.aggregationTime = &g_d_signtime; g_d_cur.chainIndex = nondet_bool() ? &g_d_cur_idx : NULL;
	if (g_d_cur.chainIndex == NULL) g_di.cur_len = 0;
	g_d_sig.ctx = &g_d_ctx; g_d_sig.ref = 1; g_d_sig.baseTlv = &g_d_base; g_d_sig.aggregationChainList = nondet_bool() ? &g_d_chainlist : NULL;
	g_d_sig.appendAggregationChain = appendAggregationChain;
	res = appendAggregationChain(sNull ? NULL : &g_d_sig, aNull ? NULL : &g_d_aggr);
	REACH("returned");
	if (res == KSI_OK && g_d.tlvappend_calls == 1) REACH("chain prepended");
	if (res == KSI_OK && g_d.tlvappend_calls == 1 && !g_di.had_index) REACH("chain prepended, index created from the shape");
	if (res == KSI_OK && g_d.tlvappend_calls == 1 && g_di.cur_len > 2) REACH("chain prepended, first chain's index has 3 or more elements");
	if (res == KSI_OK && g_d.tlvappend_calls == 0 && !sNull && !aNull) REACH("empty chain accepted");
	if (res == KSI_INVALID_STATE) REACH("signature without chains refused");
	if (res != KSI_OK && g_d.tlv_new_calls == 1) REACH("failure after the element was made");
}
#endif

#ifdef H_level
void harness(void) {
	KSI_uint64_t lvl = nondet_ull(); int res; _Bool sNull = nondet_bool();
	c11lv_init();
	g_lv.is_sub = nondet_bool();
	g_lv_tl_len = nondet_size();
	g_lv.has_old = nondet_bool(); g_lv.old_value = nondet_ull(); g_lv.int_live = g_lv.has_old ? 1 : 0;
	g_lv_oldint.value = g_lv.old_value; g_lv_link.levelCorrection = g_lv.has_old ? &g_lv_oldint : NULL;
	g_d_sig.ctx = &g_d_ctx; g_d_sig.ref = 1; g_d_sig.aggregationChainList = &g_d_chainlist; g_d_sig.baseTlv = &g_d_base;
	res = updateLevelCorrection(sNull ? NULL : &g_d_sig, lvl, g_lv.is_sub ? sub : add);
	REACH("returned");
	if (res == KSI_OK && lvl > 0 && g_lv.is_sub) REACH("root level taken out");
	if (res == KSI_OK && lvl > 0 && !g_lv.is_sub) REACH("root level added");
	if (res == KSI_OK && lvl == 255 && g_lv.is_sub) REACH("level 255 taken out, correction becomes 0");
	if (res == KSI_OK && lvl > 0 && g_lv_tl_len > 2) REACH("TLV list of 3 or more");
	if (res == KSI_INVALID_FORMAT && lvl <= 0xff && lvl > 0 && g_lv.is_sub) REACH("level below zero refused");
	if (res == KSI_INVALID_FORMAT && lvl <= 0xff && lvl > 0 && !g_lv.is_sub) REACH("sum beyond 0xff refused");
}
#endif

#ifdef H_bappend
void harness(void) {
	int res; _Bool bNull = nondet_bool(), aNull = nondet_bool();
	memset(&g_d, 0, sizeof(g_d)); memset(&g_dl, 0, sizeof(g_dl)); memset(&g_lv, 0, sizeof(g_lv)); memset(&g_bd, 0, sizeof(g_bd));
	memset(&g_rc_lv, 0, sizeof(g_rc_lv)); memset(&g_rc_ap, 0, sizeof(g_rc_ap)); g_lv_chain_live = 0;
	/* the world of the two replaced statics, as their contracts want it */
	g_di.links = nondet_size(); g_di.nchains = nondet_size(); g_di.cur_len = nondet_size(); g_di.had_index = nondet_bool(); g_di.own_len = nondet_size(); g_di.shape_val = nondet_ull();
	g_di.time_p = nondet_bool() ? &g_d_signtime : NULL; g_di.first_p = nondet_bool() ? &g_d_cur : NULL;
	g_d_aggr.chain = nondet_bool() ? &g_d_linklist : NULL; g_d_aggr.aggregationTime = NULL; g_d_aggr.chainIndex = g_di.had_index ? &g_d_aggr_idx : NULL;
	g_d_cur.chainIndex = nondet_bool() ? &g_d_cur_idx : NULL; if (g_d_cur.chainIndex == NULL) g_di.cur_len = 0;
	g_lv.is_sub = 1; g_lv.has_old = nondet_bool(); g_lv.old_value = nondet_ull(); g_lv.int_live = g_lv.has_old ? 1 : 0;
	g_lv_oldint.value = g_lv.old_value; g_lv_link.levelCorrection = g_lv.has_old ? &g_lv_oldint : NULL;
	g_d_sig.ctx = &g_d_ctx; g_d_sig.ref = 1; g_d_sig.baseTlv = &g_d_base; g_d_sig.aggregationChainList = &g_d_chainlist;
	g_d_builder.ctx = &g_d_ctx; g_d_builder.noVerify = 0; g_d_builder.sig = &g_d_sig; g_d_builder.aggrStartLevel = nondet_ull();
	if (g_d_builder.aggrStartLevel > 0xff) g_d_builder.aggrStartLevel = 0xff;           /* precondition from the call sites, see the contract */
	res = KSI_SignatureBuilder_appendAggregationChain(bNull ? NULL : &g_d_builder, aNull ? NULL : &g_d_aggr);
	REACH("returned");
	if (res == KSI_OK && g_rc_lv.calls == 1) REACH("level taken out and chain prepended");
	if (res == KSI_OK && g_rc_lv.calls == 0) REACH("chain of level 0 prepended");
	if (res != KSI_OK && g_rc_lv.calls == 1 && g_rc_ap.calls == 0) REACH("level correction refused");
	if (res != KSI_OK && g_rc_ap.calls == 1) REACH("prepending failed");
}
#endif

#ifdef H_create
void harness(void) {
	static char canary; KSI_Signature *out = (KSI_Signature *)&canary; int res; _Bool bNull = nondet_bool(), aNull = nondet_bool(), oNull = nondet_bool();
	memset(&g_d, 0, sizeof(g_d)); memset(&g_dl, 0, sizeof(g_dl)); memset(&g_lv, 0, sizeof(g_lv)); memset(&g_bd, 0, sizeof(g_bd)); memset(&g_cn, 0, sizeof(g_cn)); memset(&g_cl, 0, sizeof(g_cl));
	memset(&g_rc_lv, 0, sizeof(g_rc_lv)); memset(&g_rc_ap, 0, sizeof(g_rc_ap)); memset(&g_rc_ba, 0, sizeof(g_rc_ba)); g_lv_chain_live = 0;
	g_di.links = nondet_size(); g_di.nchains = nondet_size(); g_di.cur_len = nondet_size(); g_di.had_index = nondet_bool(); g_di.own_len = nondet_size(); g_di.shape_val = nondet_ull();
	g_di.time_p = nondet_bool() ? &g_d_signtime : NULL; g_di.first_p = nondet_bool() ? &g_d_cur : NULL;
	g_d_aggr.chain = nondet_bool() ? &g_d_linklist : NULL; g_d_aggr.aggregationTime = NULL; g_d_aggr.chainIndex = g_di.had_index ? &g_d_aggr_idx : NULL;
	g_d_cur.chainIndex = nondet_bool() ? &g_d_cur_idx : NULL; if (g_d_cur.chainIndex == NULL) g_di.cur_len = 0;
	g_lv.is_sub = 1; g_lv.has_old = nondet_bool(); g_lv.old_value = nondet_ull(); g_lv.int_live = g_lv.has_old ? 1 : 0;
	g_lv_oldint.value = g_lv.old_value; g_lv_link.levelCorrection = g_lv.has_old ? &g_lv_oldint : NULL;
	/* the source: a builder opened on a signature, with a start level */
	g_src_sig.ctx = &g_d_ctx; g_src_sig.ref = nondet_size(); g_src_sig.baseTlv = nondet_ptr(); g_src_sig.aggregationChainList = nondet_ptr(); g_src_sig.calendarChain = nondet_ptr();
	g_src_builder.ctx = &g_d_ctx; g_src_builder.noVerify = nondet_int(); g_src_builder.sig = &g_src_sig; g_src_builder.aggrStartLevel = nondet_ull();
	if (g_src_builder.aggrStartLevel > 0xff) g_src_builder.aggrStartLevel = 0xff;       /* precondition from the call sites, see the contract */
	res = KSI_SignatureBuilder_createSignatureWithAggregationChain(bNull ? NULL : &g_src_builder, aNull ? NULL : &g_d_aggr, oNull ? NULL : &out);
	REACH("returned");
	if (res == KSI_OK) REACH("signature derived");
	if (res == KSI_OK && g_src_builder.aggrStartLevel > 0) REACH("signature derived with a start level");
	if (res != KSI_OK && g_cn.clone_calls == 1 && g_cn.sig_free_calls == 1) REACH("failure after the clone was made");
	if (res != KSI_OK && g_cl.close_calls == 1) REACH("close failed");
}
#endif

#ifdef H_open
void harness(void) {
	static struct KSI_SignatureBuilder_st canary; KSI_SignatureBuilder *out = &canary; int res; _Bool cNull = nondet_bool(), oNull = nondet_bool();
	res = KSI_SignatureBuilder_open(cNull ? NULL : &g_d_ctx, oNull ? NULL : &out);
	__CPROVER_assert(IMPLIES(cNull || oNull, res == KSI_INVALID_ARGUMENT && g_vr_calls == 0), "missing argument => KSI_INVALID_ARGUMENT, nothing made");
	__CPROVER_assert(IMPLIES(res == KSI_OK, out != &canary && out != NULL && out->ctx == &g_d_ctx && out->noVerify == 0 && out->aggrStartLevel == 0 && out->sig != NULL),
		"OK => a NEW builder of this context: verification on, start level 0, holding a signature object");
	__CPROVER_assert(IMPLIES(res == KSI_OK, out->sig->ctx == &g_d_ctx && out->sig->ref == 1 && out->sig->baseTlv == NULL && out->sig->calendarChain == NULL &&
			out->sig->aggregationChainList == NULL && out->sig->rfc3161 == NULL && out->sig->calendarAuthRec == NULL && out->sig->aggregationAuthRec == NULL &&
			out->sig->publication == NULL && out->sig->policyVerificationResult == NULL),
		"OK => the signature object is NEW and EMPTY (one reference, no retained tree, no chains, no records): it shares nothing with any other signature");
	__CPROVER_assert(IMPLIES(res == KSI_OK, out->sig->appendAggregationChain == appendAggregationChain && out->sig->replaceCalendarChain == replaceCalendarChain &&
			out->sig->removeCalAuthAndPublication == removeCalAuthAndPublication),
		"OK => the object's operations are the builder's own (append = appendAggregationChain, replace = replaceCalendarChain, remove = removeCalAuthAndPublication)");
	__CPROVER_assert(IMPLIES(res == KSI_OK, g_vr_calls == 1 && g_vr_res == KSI_OK && g_vr_arg == (const void *)&out->sig->verificationResult && g_vr_ctx == (const void *)&g_d_ctx),
		"OK => the verification result of the new object was initialised once");
	__CPROVER_assert(IMPLIES(res != KSI_OK, out == &canary), "failure => *builder untouched");
	__CPROVER_assert(IMPLIES(g_vr_calls == 1 && g_vr_res != KSI_OK, res == g_vr_res && g_cn.sig_free_calls == 1), "failing initialisation => that status, the half-made object released");
	__CPROVER_assert(IMPLIES(!cNull && !oNull && g_vr_calls == 1 && g_vr_res == KSI_OK, res == KSI_OK), "all steps succeed => OK");
	__CPROVER_assert(IMPLIES(!cNull && !oNull && g_vr_calls == 0, res == KSI_OUT_OF_MEMORY), "no initialisation reached => an allocation failed: KSI_OUT_OF_MEMORY");
	if (res == KSI_OK) KSI_SignatureBuilder_free(out);               /* leak check: on failure the call released everything itself */
	REACH("returned"); if (res == KSI_OK) REACH("opened"); if (res == KSI_OUT_OF_MEMORY) REACH("allocation failed");
	if (res != KSI_OK && g_vr_calls == 1) REACH("initialisation failed");
}
#endif
