/* C11/C19: KSI_DataHasher_close hands out a completely (re-)initialised hash object, new or recycled.
 * Plain mode (dfcc does not get through propositional reduction on this one): the function is loop-free, all inputs
 * symbolic; the contract is stated as assertions after the single call. */
#include "env/common.h"
#include "env/stubs_base.h"
#include "hash.h"
#include "impl/hash_impl.h"
#include "impl/ctx_impl.h"
struct KSI_CTX_st *g_ctx_p; struct KSI_DataHash_st *g_h_p; KSI_DataHasher *g_hsr_p;
_Bool g_close_cb_called; KSI_DataHash *g_close_cb_obj; size_t g_close_cb_len;
#include "env/ghost_recycle.h"
#include "hash.c"

static int stub_closeExisting(KSI_DataHasher *h, KSI_DataHash *out) {
	__CPROVER_assert(h == g_hsr_p && out != NULL, "provider call-back gets the hasher and the object to fill");
	__CPROVER_assert(out->ref == 1 && out->ctx == g_ctx_p, "object is initialised (count 1, hasher's context) before the provider fills it");
	g_close_cb_called = 1; g_close_cb_obj = out;
	if (nondet_bool()) return KSI_UNKNOWN_ERROR;
	out->imprint[0] = nondet_uchar();
	g_close_cb_len = nondet_size(); __CPROVER_assume(g_close_cb_len >= 1 && g_close_cb_len <= KSI_MAX_IMPRINT_LEN + 1);
	out->imprint_length = g_close_cb_len;
	return KSI_OK;
}

void harness(void) {
	struct KSI_CTX_st ctx; struct KSI_DataHash_list_st bin; struct KSI_DataHasher_st hsr; KSI_DataHash *outv = NULL; int res; size_t bin0; _Bool open0;
	memset(&bin, 0, sizeof(bin));
	bin.length = bin_length; bin.append = bin_append; bin.removeElement = bin_remove;
	ctx.dataHashRecycle = nondet_bool() ? &bin : NULL;
	ctx.options[KSI_OPT_DATAHASH_CACHE_SIZE] = nondet_size();
	g_ctx_p = &ctx; g_hsr_p = &hsr; g_h_p = NULL;
	hsr.ctx = &ctx; hsr.isOpen = nondet_bool(); hsr.closeExisting = nondet_bool() ? stub_closeExisting : NULL;
	g_bin_len = nondet_size(); __CPROVER_assume(g_bin_len < 1000000);
	g_bin_appends = 0; g_bin_removes = 0; g_bin_appended = NULL; g_bin_append_may_fail = 1; g_close_cb_called = 0;
	if (ctx.dataHashRecycle == NULL) g_bin_len = 0;
	g_recycled_p = malloc(sizeof(struct KSI_DataHash_st)); __CPROVER_assume(g_recycled_p != NULL);
	g_recycled_p->ref = 0; g_recycled_p->ctx = (KSI_CTX *)nondet_ptr(); g_recycled_p->imprint_length = nondet_size();   /* stale contents */
	bin0 = g_bin_len; open0 = hsr.isOpen;
	res = KSI_DataHasher_close(&hsr, &outv);
	if (res == KSI_OK) {
		__CPROVER_assert(outv != NULL && outv->ref == 1 && outv->ctx == &ctx, "handed out object: reference count 1, hasher's context");
		__CPROVER_assert(g_close_cb_called && g_close_cb_obj == outv && outv->imprint_length == g_close_cb_len, "imprint and length are those the provider wrote into this object");
		__CPROVER_assert(open0 && !hsr.isOpen, "only an open hasher can be closed; it is closed afterwards");
		__CPROVER_assert(IMPLIES(bin0 > 0, outv == g_recycled_p && g_bin_removes == 1 && g_bin_appends == 0), "non-empty bin: the recycled object is used and leaves the bin");
		__CPROVER_assert(IMPLIES(bin0 == 0, outv != g_recycled_p && g_bin_removes == 0 && g_bin_appends == 0), "empty bin: a new object");
		REACH("closed");
		if (outv == g_recycled_p) REACH("recycled object handed out");
	} else {
		__CPROVER_assert(outv == NULL, "failure: nothing handed out");
		__CPROVER_assert(g_bin_removes == 0 || (g_bin_appends == 1 && g_bin_appended == g_recycled_p) || g_bin_appends == 0, "failure: a recycled object taken out goes back to the bin once or is released");
		REACH("error");
	}
}
