/* builderM - C11: signature.c KSI_Signature_serialize / KSI_Signature_clone / KSI_Signature_parseWithPolicy (+ the real
 * static extractSignature and the real KSI_Signature_free) on the REAL file.  Plain mode: loop-free orchestration, one call,
 * every callee an ASSUMED recording stub with an arbitrary status; --memory-leak-check on.
 *   "A parsed signature ... re-serializes to exactly the bytes it was parsed from, and a clone serializes identically":
 *   serialization IS KSI_TLV_serialize(sig->baseTlv) (same buffer, same length), baseTlv of a parsed / cloned signature IS
 *   KSI_TLV_clone of the TLV it was extracted from (never re-constructed), the source signature is not written. */
#include "env/common.h"
#include "env/stubs_base.h"
#include "signature.h"
#include "signature_builder.h"
#include "tlv.h"
#include "tlv_template.h"
#include "impl/signature_impl.h"
#include "impl/signature_builder_impl.h"
#include "impl/ctx_impl.h"

/* ---- ASSUMED callees ---- */
static char g_src_tlv_obj[4], g_cloned_tlv_obj[4], g_parsed_tlv_obj[4], g_ctx_obj[8];
static KSI_TLV *g_extract_from;                /* the TLV the signature must be extracted from */
static unsigned g_tag;
static _Bool g_env_failed;
/* serializers */
static unsigned g_tser_calls, g_oser_calls; static const KSI_TLV *g_tser_tlv; static unsigned char *g_ser_buf; static size_t g_ser_len; static int g_ser_res; static _Bool g_oser_args_ok;
int KSI_TLV_serialize(const KSI_TLV *tlv, unsigned char **buf, size_t *len) {
	g_tser_calls++; g_tser_tlv = tlv; g_ser_res = nondet_int();
	if (g_ser_res != KSI_OK) return g_ser_res;
	g_ser_len = nondet_size(); g_ser_buf = malloc(1); __CPROVER_assume(g_ser_buf != NULL);      /* identity + ownership of the serialization buffer */
	*buf = g_ser_buf; *len = g_ser_len; return KSI_OK;
}
static const struct KSI_Signature_st *g_oser_obj;
int KSI_TlvTemplate_serializeObject(KSI_CTX *ctx, const void *obj, unsigned tag, int isNc, int isFwd, const KSI_TlvTemplate *tmpl, unsigned char **raw, size_t *raw_len);
/* parsing side */
static unsigned g_getTag_calls, g_open_calls, g_extract_calls, g_clone_calls, g_close_calls, g_bfree_calls, g_parse_calls, g_verify_calls;
static unsigned g_parsed_made, g_cloned_live, g_parsed_live, g_cloned_frees, g_parsed_frees, g_src_frees;
static KSI_Signature *g_new_sig; static KSI_SignatureBuilder *g_builder; static _Bool g_extract_args_ok, g_close_args_ok, g_verify_args_ok, g_parse_args_ok;
static int g_verify_res; static const unsigned char *g_raw; static size_t g_raw_len; static const KSI_Policy *g_policy; static KSI_VerificationContext *g_vctx;
unsigned KSI_TLV_getTag(const KSI_TLV *tlv) { __CPROVER_assert(tlv == g_extract_from, "tag of the element the signature is extracted from"); g_getTag_calls++; return g_tag; }
int KSI_SignatureBuilder_open(KSI_CTX *ctx, KSI_SignatureBuilder **builder) {
	KSI_SignatureBuilder *b; KSI_Signature *s;
	g_open_calls++;
	if (nondet_bool()) { g_env_failed = 1; return KSI_OUT_OF_MEMORY; }
	b = malloc(sizeof(*b)); s = malloc(sizeof(*s)); __CPROVER_assume(b != NULL && s != NULL);
	memset(s, 0, sizeof(*s)); s->ctx = ctx; s->ref = 1;
	b->ctx = ctx; b->noVerify = 0; b->sig = s; b->aggrStartLevel = 0;
	g_new_sig = s; g_builder = b; *builder = b; return KSI_OK;
}
int KSI_TlvTemplate_extract(KSI_CTX *ctx, void *payload, KSI_TLV *tlv, const KSI_TlvTemplate *tmpl);
int KSI_TLV_clone(const KSI_TLV *tlv, KSI_TLV **clone) {
	g_clone_calls++;
	__CPROVER_assert(tlv == g_extract_from, "the retained tree is a clone of exactly the element the signature was extracted from");
	if (nondet_bool()) { g_env_failed = 1; return KSI_OUT_OF_MEMORY; }
	g_cloned_live++; *clone = (KSI_TLV *)g_cloned_tlv_obj; return KSI_OK;
}
int KSI_SignatureBuilder_close(KSI_SignatureBuilder *builder, KSI_uint64_t rootLevel, KSI_Signature **sig) {
	g_close_calls++;
	g_close_args_ok = (builder == g_builder && builder->sig == g_new_sig && rootLevel == 0 && builder->noVerify == 1 && builder->sig->baseTlv == (KSI_TLV *)g_cloned_tlv_obj && g_extract_calls == 1);
	if (nondet_bool()) { g_env_failed = 1; return KSI_INVALID_FORMAT; }
	*sig = builder->sig; builder->sig = NULL; return KSI_OK;              /* ownership moves to the caller (signature_builder.c:1140) */
}
void KSI_SignatureBuilder_free(KSI_SignatureBuilder *builder) {          /* text of signature_builder.c:1158 */
	if (builder != NULL) { g_bfree_calls++; KSI_Signature_free(builder->sig); KSI_free(builder); }
}
int KSI_TLV_parseBlob(KSI_CTX *ctx, const unsigned char *data, size_t data_length, KSI_TLV **tlv) {
	g_parse_calls++; g_parse_args_ok = (ctx == (KSI_CTX *)g_ctx_obj && data == g_raw && data_length == g_raw_len);
	if (nondet_bool()) { g_env_failed = 1; return KSI_INVALID_FORMAT; }
	g_parsed_live++; g_parsed_made++; *tlv = (KSI_TLV *)g_parsed_tlv_obj; return KSI_OK;
}
void KSI_TLV_free(KSI_TLV *tlv) {
	if (tlv == NULL) return;
	if ((char *)tlv == g_cloned_tlv_obj) { __CPROVER_assert(g_cloned_live > 0, "retained tree released at most once"); g_cloned_live--; g_cloned_frees++; }
	else if ((char *)tlv == g_parsed_tlv_obj) { __CPROVER_assert(g_parsed_live > 0, "parsed tree released at most once"); g_parsed_live--; g_parsed_frees++; }
	else { g_src_frees++; }
}
int KSI_Signature_verifyWithPolicy(KSI_Signature *sig, const KSI_DataHash *hsh, KSI_uint64_t lvl, const KSI_Policy *policy, KSI_VerificationContext *context) {
	g_verify_calls++; g_verify_args_ok = (sig == g_new_sig && g_close_calls == 1 && hsh == NULL && lvl == 0 && policy == g_policy && context == g_vctx);
	g_verify_res = nondet_int(); return g_verify_res;
}
void KSI_CalendarHashChain_free(KSI_CalendarHashChain *o) { } void KSI_List_free(KSI_List *o) { __CPROVER_assert(o == NULL, "only the (empty) members of the fresh signature are destroyed"); }
void KSI_PublicationRecord_free(KSI_PublicationRecord *o) { } void KSI_PolicyVerificationResult_free(KSI_PolicyVerificationResult *o) { }
int KSI_VerificationResult_reset(KSI_VerificationResult *o) { return KSI_OK; }
#include "signature.c"
int KSI_TlvTemplate_serializeObject(KSI_CTX *ctx, const void *obj, unsigned tag, int isNc, int isFwd, const KSI_TlvTemplate *tmpl, unsigned char **raw, size_t *raw_len) {
	g_oser_calls++; g_oser_args_ok = (obj == (const void *)g_oser_obj && ctx == g_oser_obj->ctx && tag == 0x0800 && isNc == 0 && isFwd == 0 && tmpl == KSI_TLV_TEMPLATE(KSI_Signature));
	g_ser_res = nondet_int();
	if (g_ser_res != KSI_OK) return g_ser_res;
	g_ser_len = nondet_size(); g_ser_buf = malloc(1); __CPROVER_assume(g_ser_buf != NULL);
	*raw = g_ser_buf; *raw_len = g_ser_len; return KSI_OK;
}
int KSI_TlvTemplate_extract(KSI_CTX *ctx, void *payload, KSI_TLV *tlv, const KSI_TlvTemplate *tmpl) {
	g_extract_calls++; g_extract_args_ok = (payload == (void *)g_new_sig && tlv == g_extract_from && tmpl == KSI_TLV_TEMPLATE(KSI_Signature) && g_new_sig->baseTlv == NULL);
	if (nondet_bool()) { g_env_failed = 1; return KSI_INVALID_FORMAT; }
	return KSI_OK;
}

static void fill_sig(struct KSI_Signature_st *s, _Bool withTlv) {
	memset(s, 0, sizeof(*s));
	s->ctx = (KSI_CTX *)g_ctx_obj; s->ref = nondet_size(); s->baseTlv = withTlv ? (KSI_TLV *)g_src_tlv_obj : NULL;
	s->calendarChain = nondet_ptr(); s->aggregationChainList = nondet_ptr(); s->rfc3161 = nondet_ptr(); s->calendarAuthRec = nondet_ptr(); s->aggregationAuthRec = nondet_ptr();
	s->publication = nondet_ptr(); s->policyVerificationResult = nondet_ptr();
}
static _Bool same_sig(const struct KSI_Signature_st *a, const struct KSI_Signature_st *b) {
	return a->ctx == b->ctx && a->ref == b->ref && a->baseTlv == b->baseTlv && a->calendarChain == b->calendarChain && a->aggregationChainList == b->aggregationChainList &&
		a->rfc3161 == b->rfc3161 && a->calendarAuthRec == b->calendarAuthRec && a->aggregationAuthRec == b->aggregationAuthRec && a->publication == b->publication &&
		a->policyVerificationResult == b->policyVerificationResult && a->replaceCalendarChain == b->replaceCalendarChain && a->appendAggregationChain == b->appendAggregationChain &&
		a->removeCalAuthAndPublication == b->removeCalAuthAndPublication;
}

#ifdef H_serialize
void harness(void) {
	struct KSI_Signature_st sig, before; _Bool withTlv = nondet_bool(), sNull = nondet_bool(), rNull = nondet_bool(), lNull = nondet_bool(); int res;
	unsigned char *raw = (unsigned char *)g_ctx_obj; size_t raw_len = 77;
	fill_sig(&sig, withTlv); before = sig; g_oser_obj = &sig;
	res = KSI_Signature_serialize(sNull ? NULL : &sig, rNull ? NULL : &raw, lNull ? NULL : &raw_len);
	__CPROVER_assert(IMPLIES(sNull || rNull || lNull, res == KSI_INVALID_ARGUMENT && g_tser_calls == 0 && g_oser_calls == 0), "missing argument => KSI_INVALID_ARGUMENT, nothing serialized");
	__CPROVER_assert(IMPLIES(!(sNull || rNull || lNull) && withTlv, g_tser_calls == 1 && g_tser_tlv == (const KSI_TLV *)g_src_tlv_obj && g_oser_calls == 0), "retained tree present => exactly KSI_TLV_serialize(sig->baseTlv), the object is NOT re-encoded from its fields");
	__CPROVER_assert(IMPLIES(!(sNull || rNull || lNull) && !withTlv, g_tser_calls == 0 && g_oser_calls == 1 && g_oser_args_ok), "no retained tree => template serialization of this object as element 0x0800");
	__CPROVER_assert(IMPLIES(!(sNull || rNull || lNull), res == g_ser_res), "the serializer's status is returned unchanged");
	__CPROVER_assert(IMPLIES(res == KSI_OK, raw == g_ser_buf && raw_len == g_ser_len && __CPROVER_r_ok(raw, 1)), "OK => output is exactly the serializer's buffer (same pointer, alive) and length");
	__CPROVER_assert(IMPLIES(res != KSI_OK, raw == (unsigned char *)g_ctx_obj && raw_len == 77), "failure => outputs untouched");
	__CPROVER_assert(same_sig(&sig, &before) && g_src_frees == 0, "the signature object is not modified");
	if (res == KSI_OK) free(raw);
	REACH("returned"); if (res == KSI_OK && withTlv) REACH("serialized from the retained tree"); if (res == KSI_OK && !withTlv) REACH("serialized from fields");
}
#endif

#ifdef H_clone
void harness(void) {
	struct KSI_Signature_st sig, before; _Bool withTlv = nondet_bool(), sNull = nondet_bool(), cNull = nondet_bool(); int res;
	KSI_Signature *clone = (KSI_Signature *)g_ctx_obj;
	fill_sig(&sig, withTlv); before = sig; g_tag = nondet_uint(); g_extract_from = (KSI_TLV *)g_src_tlv_obj;
	res = KSI_Signature_clone(sNull ? NULL : &sig, cNull ? NULL : &clone);
	__CPROVER_assert(IMPLIES(sNull || cNull, res == KSI_INVALID_ARGUMENT && g_open_calls == 0), "missing argument => KSI_INVALID_ARGUMENT");
	__CPROVER_assert(IMPLIES(!sNull && !cNull && !withTlv, res == KSI_INVALID_ARGUMENT && g_open_calls == 0), "a signature without retained tree cannot be cloned (KSI_INVALID_ARGUMENT)");
	__CPROVER_assert(IMPLIES(!sNull && !cNull && withTlv && g_tag != 0x800, res == KSI_INVALID_FORMAT && g_open_calls == 0), "root element is not 0x800 => KSI_INVALID_FORMAT");
	__CPROVER_assert(IMPLIES(res == KSI_OK, g_open_calls == 1 && g_extract_calls == 1 && g_extract_args_ok && g_clone_calls == 1 && g_close_calls == 1 && g_close_args_ok),
		"OK => the clone was extracted from sig->baseTlv (template KSI_Signature) into a NEW object, whose retained tree is KSI_TLV_clone(sig->baseTlv); builder closed without re-verification");
	__CPROVER_assert(IMPLIES(res == KSI_OK, clone == g_new_sig && clone != &sig && clone->ref == 1 && clone->baseTlv == (KSI_TLV *)g_cloned_tlv_obj && g_cloned_live == 1 && clone->ctx == sig.ctx), "OK => a distinct object with one reference that owns the cloned tree");
	__CPROVER_assert(IMPLIES(res != KSI_OK, clone == (KSI_Signature *)g_ctx_obj && g_cloned_live == 0), "failure => *clone untouched, the cloned tree released");
	__CPROVER_assert(IMPLIES(!sNull && !cNull && withTlv && g_tag == 0x800 && !g_env_failed, res == KSI_OK), "all steps succeed => OK");
	__CPROVER_assert(g_bfree_calls == (g_builder != NULL ? 1 : 0), "the builder is released exactly once");
	__CPROVER_assert(same_sig(&sig, &before) && g_src_frees == 0 && g_verify_calls == 0, "the source signature is not modified, its tree not released");
	if (res == KSI_OK) KSI_Signature_free(clone);                        /* leak check: only the clone survives the call */
	REACH("returned"); if (res == KSI_OK) REACH("cloned"); if (res == KSI_OUT_OF_MEMORY) REACH("failed");
}
#endif

#ifdef H_parse
void harness(void) {
	static unsigned char rawbuf[4]; struct KSI_VerificationContext_st vc; _Bool cNull = nondet_bool(), rNull = nondet_bool(), sNull = nondet_bool(); int res; size_t raw_len = nondet_size();
	KSI_Signature *sig = (KSI_Signature *)g_ctx_obj;
	g_tag = nondet_uint(); g_extract_from = (KSI_TLV *)g_parsed_tlv_obj; g_raw = rawbuf; g_raw_len = raw_len; g_policy = (const KSI_Policy *)nondet_ptr(); g_vctx = nondet_bool() ? &vc : NULL;
	res = KSI_Signature_parseWithPolicy(cNull ? NULL : (KSI_CTX *)g_ctx_obj, rNull ? NULL : rawbuf, raw_len, g_policy, g_vctx, sNull ? NULL : &sig);
	__CPROVER_assert(IMPLIES(cNull || rNull || sNull || raw_len == 0, res == KSI_INVALID_ARGUMENT && g_parse_calls == 0), "missing argument / empty input => KSI_INVALID_ARGUMENT, nothing parsed");
	__CPROVER_assert(IMPLIES(g_parse_calls > 0, g_parse_calls == 1 && g_parse_args_ok), "the blob parsed is exactly (raw, raw_len)");
	__CPROVER_assert(IMPLIES(g_verify_calls > 0, g_verify_calls == 1 && g_verify_args_ok && g_close_args_ok && g_extract_args_ok), "verification runs once, on the signature extracted from THAT blob, with the caller's policy and context, no document hash");
	__CPROVER_assert(IFF(res == KSI_OK, g_verify_calls == 1 && g_verify_res == KSI_OK), "OK <=> parsed, extracted AND verified with the given policy");
	__CPROVER_assert(IMPLIES(g_verify_calls == 1, res == g_verify_res), "the verification status is returned unchanged");
	__CPROVER_assert(IMPLIES(res == KSI_OK, sig == g_new_sig && sig->ref == 1 && sig->baseTlv == (KSI_TLV *)g_cloned_tlv_obj && g_cloned_live == 1), "OK => the verified signature is handed out; it owns a clone of the parsed tree");
	__CPROVER_assert(IMPLIES(res != KSI_OK, sig == (KSI_Signature *)g_ctx_obj && g_cloned_live == 0), "failure => no signature handed out, retained tree released");
	__CPROVER_assert(g_parsed_live == 0 && g_parsed_frees == g_parsed_made && g_parsed_made <= 1 && g_bfree_calls == (g_builder != NULL ? 1 : 0), "the parsed tree and the builder are released exactly once on every path");
	__CPROVER_assert(IMPLIES(!(cNull || rNull || sNull || raw_len == 0) && g_tag == 0x800 && !g_env_failed && g_verify_res == KSI_OK, res == KSI_OK), "all steps succeed => OK");
	if (res == KSI_OK) KSI_Signature_free(sig);                          /* leak check: on failure everything was released by the call */
	REACH("returned"); if (res == KSI_OK) REACH("parsed and verified"); if (res == KSI_VERIFICATION_FAILURE) REACH("verification failed");
}
#endif
