/* C11/C19: KSI_DataHash_free and the recycle bin. */
#include "env/common.h"
#include "env/stubs_base.h"
#include "hash.h"
#include "impl/hash_impl.h"
#include "impl/ctx_impl.h"
struct KSI_CTX_st *g_ctx_p; struct KSI_DataHash_st *g_h_p;
#include "env/ghost_recycle.h"
#include "contracts/hash_recycle.h"
#include "hash.c"

void harness(void) {
	struct KSI_CTX_st ctx; struct KSI_DataHash_list_st bin;
	KSI_DataHash *h = malloc(sizeof(struct KSI_DataHash_st));
	memset(&bin, 0, sizeof(bin));
	bin.length = bin_length; bin.append = bin_append; bin.removeElement = bin_remove;
	ctx.dataHashRecycle = nondet_bool() ? &bin : NULL;
	ctx.options[KSI_OPT_DATAHASH_CACHE_SIZE] = nondet_size();
	g_ctx_p = &ctx;
	g_bin_len = nondet_size(); g_bin_appends = 0; g_bin_appended = NULL; g_bin_append_may_fail = 1;
	if (ctx.dataHashRecycle == NULL) g_bin_len = 0;
	__CPROVER_assume(h != NULL);
	h->ctx = nondet_bool() ? &ctx : NULL; g_h_p = h;
	if (nondet_bool()) h = NULL;
	KSI_DataHash_free(h);
	REACH("returned");
	if (g_bin_appends == 1) REACH("recycled");
}
