/* builderR - C11 "getters are pure": KSI_Signature_getDocumentHash / KSI_Signature_getSigningTime (signature.c, REAL,
 * unmodified) with the REAL field getters of hashchain.c / signature.c (KSI_AggregationHashChain_getInputHash,
 * _getAggregationTime, KSI_CalendarHashChain_getAggregationTime, _getPublicationTime, KSI_RFC3161_getInputHash).
 * Plain mode (loop-free code, one harness, full symbolic domain): the getter is called TWICE on the same object;
 *   - the value handed out is the one the property text names (document hash = input hash of the RFC3161 record if the
 *     signature has one, else of the first aggregation hash chain; signing time = aggregation time of the calendar chain,
 *     publication time if that is absent, first aggregation chain's aggregation time if there is no calendar chain);
 *   - both calls give the same status and the same value; a failing call leaves the output untouched;
 *   - SNAPSHOT: every byte of every object reachable from the signature in the harness (signature object incl. padding
 *     and verification result, chain list object, first chain, calendar chain, RFC3161 record) is compared before/after
 *     at an arbitrary witness offset: nothing is written.
 * Assumed: the aggregation chain list is an array-view model (elementAt: pure, position beyond the length refused,
 * an element may be NULL); KSI_ERR_* have no observable effect (env/stubs_base.h). */
#include "env/common.h"
#include "env/stubs_base.h"
#include "ksi.h"
#include "signature.h"
#include "hashchain.h"
#include "tlv.h"
#include "tlv_template.h"
#include "impl/signature_impl.h"
#include "impl/hashchain_impl.h"
#include "impl/ctx_impl.h"
#include "hashchain.c"
#include "signature.c"

static KSI_CTX s_ctx;
static struct KSI_AggregationHashChain_st s_ch0, s_ch0_0;
static struct KSI_CalendarHashChain_st s_cal, s_cal_0;
static struct KSI_RFC3161_st s_rfc, s_rfc_0;
static KSI_LIST(KSI_AggregationHashChain) s_list, s_list_0;
static struct KSI_Signature_st s_sig, s_sig_0;

/* ---- ASSUMED: array view of the chain list ---- */
static size_t g_n; static KSI_AggregationHashChain *g_el0, *g_elx; static int g_at_err; static unsigned g_at_calls;
static int dg_elementAt(KSI_LIST(KSI_AggregationHashChain) *l, size_t pos, KSI_AggregationHashChain **o) {
	g_at_calls++;
	if (l != &s_list || o == NULL) return KSI_INVALID_ARGUMENT;
	if (g_at_err != KSI_OK) return g_at_err;                 /* (an environment failure, the same for both calls) */
	if (pos >= g_n) return KSI_BUFFER_OVERFLOW;
	*o = pos == 0 ? g_el0 : g_elx;
	return KSI_OK;
}
static size_t dg_length(KSI_LIST(KSI_AggregationHashChain) *l) { return g_n; }

#define SNAP_SAME(obj, snap, msg) do { size_t k_ = nondet_size(); \
	if (k_ < sizeof(obj)) __CPROVER_assert(((const unsigned char *)&(obj))[k_] == ((const unsigned char *)&(snap))[k_], msg); } while (0)

static void dg_world(void) {
	/* every field arbitrary */
	s_ch0.ctx = &s_ctx; s_ch0.ref = nondet_size(); s_ch0.aggregationTime = nondet_ptr(); s_ch0.chainIndex = nondet_ptr(); s_ch0.inputData = nondet_ptr();
	s_ch0.inputHash = nondet_ptr(); s_ch0.aggrHashId = nondet_ptr(); s_ch0.chain = nondet_ptr(); s_ch0.outputHash = nondet_ptr(); s_ch0.outputLevel = nondet_int(); s_ch0.inputLevel = nondet_int();
	s_cal.ctx = &s_ctx; s_cal.ref = nondet_size(); s_cal.publicationTime = nondet_ptr(); s_cal.aggregationTime = nondet_ptr(); s_cal.inputHash = nondet_ptr();
	s_cal.outputHash = nondet_ptr(); s_cal.hashChain = nondet_ptr();
	s_rfc.ctx = &s_ctx; s_rfc.ref = nondet_size(); s_rfc.aggregationTime = nondet_ptr(); s_rfc.chainIndex = nondet_ptr(); s_rfc.inputHash = nondet_ptr();
	s_rfc.tstInfoPrefix = nondet_ptr(); s_rfc.tstInfoSuffix = nondet_ptr(); s_rfc.tstInfoAlgo = nondet_ptr(); s_rfc.sigAttrPrefix = nondet_ptr(); s_rfc.sigAttrSuffix = nondet_ptr(); s_rfc.sigAttrAlgo = nondet_ptr();
	memset(&s_list, 0, sizeof(s_list));
	if (nondet_bool()) s_list.elementAt = dg_elementAt;      /* (a list object without the method: KSI_INVALID_STATE) */
	s_list.length = dg_length;
	g_n = nondet_size(); g_el0 = nondet_bool() ? &s_ch0 : NULL; g_elx = nondet_ptr(); g_at_err = nondet_int(); g_at_calls = 0;
	s_sig.ctx = &s_ctx; s_sig.ref = nondet_size(); s_sig.baseTlv = nondet_ptr();
	s_sig.calendarChain = nondet_bool() ? &s_cal : NULL;
	s_sig.aggregationChainList = nondet_bool() ? &s_list : NULL;
	s_sig.rfc3161 = nondet_bool() ? &s_rfc : NULL;
	s_sig.calendarAuthRec = nondet_ptr(); s_sig.aggregationAuthRec = nondet_ptr(); s_sig.publication = nondet_ptr(); s_sig.policyVerificationResult = nondet_ptr();
	s_sig.replaceCalendarChain = NULL; s_sig.appendAggregationChain = NULL; s_sig.removeCalAuthAndPublication = NULL;
	s_ch0_0 = s_ch0; s_cal_0 = s_cal; s_rfc_0 = s_rfc; s_list_0 = s_list; s_sig_0 = s_sig;
}
static void dg_snapshot_same(void) {
	SNAP_SAME(s_sig, s_sig_0, "snapshot: the signature object is unchanged (every byte, witness offset)");
	SNAP_SAME(s_list, s_list_0, "snapshot: the aggregation chain list object is unchanged");
	SNAP_SAME(s_ch0, s_ch0_0, "snapshot: the first aggregation hash chain is unchanged (incl. its memo fields)");
	SNAP_SAME(s_cal, s_cal_0, "snapshot: the calendar hash chain is unchanged");
	SNAP_SAME(s_rfc, s_rfc_0, "snapshot: the RFC3161 record is unchanged");
}
/* the first chain is reachable: list present, has the method, no environment failure, not empty */
#define EL0_OK (s_sig.aggregationChainList != NULL && s_list.elementAt != NULL && g_at_err == KSI_OK && g_n > 0)

#ifdef H_docHash
void harness(void) {
	static char canary1, canary2;
	KSI_DataHash *h1 = (KSI_DataHash *)&canary1, *h2 = (KSI_DataHash *)&canary2; _Bool sNull = nondet_bool(), oNull = nondet_bool(); int r1, r2;
	dg_world();
	r1 = KSI_Signature_getDocumentHash(sNull ? NULL : &s_sig, oNull ? NULL : &h1);
	dg_snapshot_same();
	r2 = KSI_Signature_getDocumentHash(sNull ? NULL : &s_sig, oNull ? NULL : &h2);
	dg_snapshot_same();
	__CPROVER_assert(IMPLIES(sNull || oNull, r1 == KSI_INVALID_ARGUMENT && g_at_calls == 0), "missing argument => KSI_INVALID_ARGUMENT");
	__CPROVER_assert(IMPLIES(!sNull && !oNull && s_sig.rfc3161 != NULL, r1 == KSI_OK && h1 == s_rfc.inputHash && g_at_calls == 0),
		"legacy signature: the document hash is the input hash of the RFC3161 record");
	__CPROVER_assert(IMPLIES(!sNull && !oNull && s_sig.rfc3161 == NULL, IFF(r1 == KSI_OK, EL0_OK && g_el0 != NULL)),
		"no RFC3161 record: OK <=> the first aggregation hash chain exists");
	__CPROVER_assert(IMPLIES(!sNull && !oNull && s_sig.rfc3161 == NULL && r1 == KSI_OK, h1 == s_ch0.inputHash),
		"no RFC3161 record: the document hash is the input hash of the FIRST aggregation hash chain");
	__CPROVER_assert(IMPLIES(!sNull && !oNull && s_sig.rfc3161 == NULL && EL0_OK && g_el0 == NULL, r1 == KSI_INVALID_STATE), "a list without first chain => KSI_INVALID_STATE");
	__CPROVER_assert(IMPLIES(r1 != KSI_OK, h1 == (KSI_DataHash *)&canary1), "failure => output untouched");
	__CPROVER_assert(r1 == r2 && IMPLIES(r1 == KSI_OK, h1 == h2) && IMPLIES(r2 != KSI_OK, h2 == (KSI_DataHash *)&canary2), "repeatable: the second call gives the same status and the same hash");
	REACH("returned"); if (r1 == KSI_OK && s_sig.rfc3161 == NULL) REACH("hash of the first chain"); if (r1 == KSI_OK && s_sig.rfc3161 != NULL) REACH("hash of the RFC3161 record");
	if (r1 == KSI_INVALID_STATE) REACH("no first chain");
}
#endif

#ifdef H_signTime
void harness(void) {
	static char canary1, canary2;
	KSI_Integer *t1 = (KSI_Integer *)&canary1, *t2 = (KSI_Integer *)&canary2; _Bool sNull = nondet_bool(), oNull = nondet_bool(); int r1, r2;
	dg_world();
	r1 = KSI_Signature_getSigningTime(sNull ? NULL : &s_sig, oNull ? NULL : &t1);
	dg_snapshot_same();
	r2 = KSI_Signature_getSigningTime(sNull ? NULL : &s_sig, oNull ? NULL : &t2);
	dg_snapshot_same();
	__CPROVER_assert(IMPLIES(sNull || oNull, r1 == KSI_INVALID_ARGUMENT && g_at_calls == 0), "missing argument => KSI_INVALID_ARGUMENT");
	__CPROVER_assert(IMPLIES(!sNull && !oNull && s_sig.calendarChain != NULL, r1 == KSI_OK && g_at_calls == 0 &&
			t1 == (s_cal.aggregationTime != NULL ? s_cal.aggregationTime : s_cal.publicationTime)),
		"calendar chain present: signing time = its aggregation time, its publication time when that is absent");
	__CPROVER_assert(IMPLIES(!sNull && !oNull && s_sig.calendarChain == NULL, IFF(r1 == KSI_OK, EL0_OK && g_el0 != NULL)),
		"no calendar chain: OK <=> the first aggregation hash chain exists");
	__CPROVER_assert(IMPLIES(!sNull && !oNull && s_sig.calendarChain == NULL && r1 == KSI_OK, t1 == s_ch0.aggregationTime),
		"no calendar chain: signing time = aggregation time of the FIRST aggregation hash chain");
	__CPROVER_assert(IMPLIES(r1 != KSI_OK, t1 == (KSI_Integer *)&canary1), "failure => output untouched");
	__CPROVER_assert(r1 == r2 && IMPLIES(r1 == KSI_OK, t1 == t2) && IMPLIES(r2 != KSI_OK, t2 == (KSI_Integer *)&canary2), "repeatable: the second call gives the same status and the same time");
	REACH("returned"); if (r1 == KSI_OK && s_sig.calendarChain == NULL) REACH("time of the first chain");
	if (r1 == KSI_OK && s_sig.calendarChain != NULL && s_cal.aggregationTime == NULL) REACH("publication time as default");
	if (r1 != KSI_OK && !sNull && !oNull) REACH("no first chain");
}
#endif

#ifdef H_dispatch
/* KSI_Signature_appendAggregationChain (signature.c:53, public, deprecated): dispatch to the operation the signature object carries.
 * It works IN PLACE (no clone): it is the builder functions that give it a clone.  Every other API function answers a missing
 * argument with KSI_INVALID_ARGUMENT. */
static unsigned g_ap_calls; static const void *g_ap_sig, *g_ap_aggr; static int g_ap_res;
static int dg_append(KSI_Signature *s, KSI_AggregationHashChain *a) { g_ap_calls++; g_ap_sig = s; g_ap_aggr = a; g_ap_res = nondet_int(); return g_ap_res; }
void harness(void) {
#ifdef H_dispatch_null
	_Bool sNull = nondet_bool();      /* NOT registered: with a NULL signature the function dereferences it (signature.c:53); CBMC's "no candidate for
	                                     the function pointer" check then fails too, which the driver reports as a machinery error (exit 2).  Native: replay T4. */
#else
	_Bool sNull = 0;
#endif
	KSI_AggregationHashChain *aggr = nondet_bool() ? &s_ch0 : NULL; int res;
	dg_world(); s_sig.appendAggregationChain = dg_append; s_sig_0 = s_sig;
	res = KSI_Signature_appendAggregationChain(sNull ? NULL : &s_sig, aggr);
	__CPROVER_assert(IMPLIES(!sNull, g_ap_calls == 1 && g_ap_sig == (const void *)&s_sig && g_ap_aggr == (const void *)aggr && res == g_ap_res),
		"the signature's own operation is called once with (sig, aggr), its status is returned");
	__CPROVER_assert(IMPLIES(sNull, res == KSI_INVALID_ARGUMENT && g_ap_calls == 0), "missing signature => KSI_INVALID_ARGUMENT");
	dg_snapshot_same();
	if (!sNull) REACH("dispatched");
#ifdef H_dispatch_null
	if (sNull) REACH("missing signature");
#endif
}
#endif
