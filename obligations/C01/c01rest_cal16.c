/* C01, INT-16 in contract mode: calendar chains of any length (the bounded stand-in is C01.int16_b4).
 * Real files included unmodified: types_base.c, hashchain.c (getters), signature.c, verification_rule.c (whole). */
#include "env/common.h"
#include "env/stubs_base.h"
#include "types_base.c"
#include "env/ghost_vrule_cal16.h"
#include "hashchain.c"
#include "signature.c"
#include "contracts/verification_rule_c01_cal16.h"
#include "verification_rule.c"

#ifdef H_rule
void harness(void) {
	KSI_VerificationContext *info; KSI_RuleVerificationResult *result; int res;
	__CPROVER_assert(VR_H_LINK == 9, "slot number used in the loop contracts");
	g16_world_init();
	info = VR_OPT(&g_vr_info); result = VR_OPT(&g_vr_res);
	res = KSI_VerificationRule_CalendarChainHashAlgorithmObsoleteAtPubTime(info, result);
	REACH("returned");
	if (res == KSI_OK && result != NULL && result->resultCode == KSI_VER_RES_OK) REACH("verdict OK");
	if (res == KSI_OK && result != NULL && result->resultCode == KSI_VER_RES_OK && g16.calls > 4) REACH("verdict OK for more than four links");
	if (res == KSI_OK && result != NULL && result->resultCode == KSI_VER_RES_FAIL) REACH("FAIL INT-16");
	if (res == KSI_OK && result != NULL && result->resultCode == KSI_VER_RES_FAIL && g16.calls > 4) REACH("FAIL INT-16 at a later link");
	if (result != NULL && result->resultCode == KSI_VER_RES_NA) REACH("verdict NA / error status");
	if (result != NULL && result->resultCode == KSI_VER_RES_NA && g16.na) REACH("NA: left link without imprint");
	/* (audit builderY, dfcc __invalid_ptr sharing) outcomes of the replaced getNextLink at a LATER iteration than the first */
	if (res == KSI_OK && result != NULL && result->resultCode == KSI_VER_RES_OK && g16.lefts >= 1) REACH("verdict OK after one or more left links (list exhausted at a later iteration)");
	if (result != NULL && result->resultCode == KSI_VER_RES_NA && g16.na && g16.lefts >= 2) REACH("NA: a later left link without imprint");
	if (res == KSI_OK && result != NULL && result->resultCode == KSI_VER_RES_FAIL && g16.lefts >= 2) REACH("FAIL INT-16 at a later left link");
}
#endif
#ifdef H_getNextLink
void harness(void) {
	KSI_HashChainLinkList *list; size_t pos; KSI_HashChainLink *link = NULL; int res;
	g16_world_init();
	list = VR_OPT(&g16_list); link = VR_OPT(&g16_link);
	g16.calls = nondet_size(); pos = g16.calls;
	res = getNextLink(list, 0, &pos, &link);
	REACH("returned");
	if (res == KSI_OK && link != NULL) REACH("left link found");
	if (res == KSI_OK && link != NULL && pos > 3) REACH("left link found after skipping");
	if (res == KSI_OK && link == NULL && list != NULL) REACH("exhausted");
}
#endif
