/* C01 rule level, loop-free rules of verification_rule.c against the property text (INT-03..09, INT-13, selectors).
 * Real files included unmodified: types_base.c, hashchain.c, signature.c, publicationsfile.c (getters,
 * KSI_Signature_getDocumentHash / getSigningTime), verification_rule.c (whole). */
#include "env/common.h"
#include "env/stubs_base.h"
#include "types_base.c"
#include "env/ghost_vrule.h"
#ifndef VR_LEAN                /* the selector rules call nothing but the logger: lean TU, faster jobs */
#include "hashchain.c"
#include "signature.c"
#include "publicationsfile.c"
#endif
#include "contracts/verification_rule_c01.h"
#include "verification_rule.c"

#define VR_CALL(RULE) \
	KSI_VerificationContext *info; KSI_RuleVerificationResult *result; int res; \
	vr_world_init(); \
	g_vr_shape_known = nondet_bool(); g_vr_shape_time = nondet_ll(); g_vr_root_known = nondet_bool(); g_vr_rfcout_known = nondet_bool(); \
	g_vr_cal.outputHash = VR_OPT(&g_vr_h[VR_H_NEW1]); g_vr_h_ref[VR_H_NEW1] = g_vr_cal.outputHash != NULL ? 1 : 0; \
	VR_EXTRA_INIT \
	info = VR_OPT(&g_vr_info); result = VR_OPT(&g_vr_res); \
	res = RULE(info, result); \
	REACH("returned"); \
	if (res == KSI_OK && result != NULL && result->resultCode == KSI_VER_RES_OK) REACH("verdict OK"); \
	if (result != NULL && result->resultCode == KSI_VER_RES_NA) REACH("verdict NA / error status");
#ifdef H_int01rfc
#define VR_EXTRA_INIT g_vr_cal.outputHash = NULL; g_vr_h_ref[VR_H_NEW1] = 0;
#else
#define VR_EXTRA_INIT
#endif
/* the REACH does not look at the error code: a wrong code must show up as a failed postcondition (exit 1), not as an unreachable REACH (exit 2) */
#define VR_REACH_FAIL(code, msg) if (res == KSI_OK && result != NULL && result->resultCode == KSI_VER_RES_FAIL) REACH(msg);

#ifdef H_selector
/* -DRULE=<rule name> */
void harness(void) { VR_CALL(RULE) }
#endif
#ifdef H_int13
void harness(void) { VR_CALL(KSI_VerificationRule_AggregationChainInputHashAlgorithmVerification) VR_REACH_FAIL(KSI_VER_ERR_INT_13, "FAIL INT-13")
	if (res == KSI_OK && result->resultCode == KSI_VER_RES_OK && vr_alg(vr_signed_hash(&g_vr_sig)) == 0) REACH("SHA-1 accepted before its deprecation date"); }
#endif
#ifdef H_int11_padding
void harness(void) { KSI_TlvElement *el = (KSI_TlvElement *)nondet_ptr(); int res;
	res = metaDataPadding_verify(VR_CTX, el);
	REACH("returned"); if (res == KSI_OK) REACH("padding accepted"); else REACH("padding refused"); }
#endif
#ifdef H_int01rfc
void harness(void) { VR_CALL(KSI_VerificationRule_AggregationChainInputHashVerification) VR_REACH_FAIL(KSI_VER_ERR_INT_1, "FAIL INT-01")
	if (res == KSI_OK && result->resultCode == KSI_VER_RES_OK && g_vr_sig.rfc3161 != NULL) REACH("OK for a legacy signature"); }
#endif
#ifdef H_int17
void harness(void) { VR_CALL(KSI_VerificationRule_Rfc3161RecordOutputHashAlgorithmVerification) VR_REACH_FAIL(KSI_VER_ERR_INT_17, "FAIL INT-17") }
#endif
#ifdef H_int14
void harness(void) { VR_CALL(KSI_VerificationRule_Rfc3161RecordHashAlgorithmVerification) VR_REACH_FAIL(KSI_VER_ERR_INT_14, "FAIL INT-14")
	if (res == KSI_OK && result->resultCode == KSI_VER_RES_FAIL && spec_hashalg_status_at((long long)g_vr_int[VR_I_RFC_SIGALG].value, vr_time_ll(g_vr_int[VR_I_RFC_SIGALG].value)) == 0) REACH("FAIL INT-14 because of the TST info algorithm alone"); }
#endif
#ifdef H_int03
void harness(void) { VR_CALL(KSI_VerificationRule_CalendarHashChainInputHashVerification) VR_REACH_FAIL(KSI_VER_ERR_INT_3, "FAIL INT-03")
	if (res == KSI_OK && result->resultCode == KSI_VER_RES_OK && g_vr_temp.aggregationOutputHash == &g_vr_h[VR_H_NEW2]) REACH("OK with a root computed by this rule"); }
#endif
#ifdef H_int04
void harness(void) { VR_CALL(KSI_VerificationRule_CalendarHashChainAggregationTime) VR_REACH_FAIL(KSI_VER_ERR_INT_4, "FAIL INT-04")
	if (res == KSI_OK && result->resultCode == KSI_VER_RES_OK && g_vr_cal.aggregationTime == NULL) REACH("OK with the publication time standing in"); }
#endif
#ifdef H_int05
void harness(void) { VR_CALL(KSI_VerificationRule_CalendarHashChainRegistrationTime) VR_REACH_FAIL(KSI_VER_ERR_INT_5, "FAIL INT-05") }
#endif
#ifdef H_int08
void harness(void) { VR_CALL(KSI_VerificationRule_CalendarAuthenticationRecordAggregationHash) VR_REACH_FAIL(KSI_VER_ERR_INT_8, "FAIL INT-08") }
#endif
#ifdef H_int09
void harness(void) { VR_CALL(KSI_VerificationRule_SignaturePublicationRecordPublicationHash) VR_REACH_FAIL(KSI_VER_ERR_INT_9, "FAIL INT-09") }
#endif
#ifdef H_int06
void harness(void) { VR_CALL(KSI_VerificationRule_CalendarAuthenticationRecordAggregationTime) VR_REACH_FAIL(KSI_VER_ERR_INT_6, "FAIL INT-06") }
#endif
#ifdef H_int07
void harness(void) { VR_CALL(KSI_VerificationRule_SignaturePublicationRecordPublicationTime) VR_REACH_FAIL(KSI_VER_ERR_INT_7, "FAIL INT-07") }
#endif
