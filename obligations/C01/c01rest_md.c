/* C01 rule level, INT-11: KSI_VerificationRule_AggregationChainMetaDataVerification in contract mode with the ghost
 * monitor of env/ghost_vrule_md.h (any number of chains, any number of links per chain, arbitrary metadata records).
 * Real files included unmodified: types_base.c, hashchain.c (getters), signature.c, verification_rule.c (whole;
 * metaDataPadding_verify runs as real code). */
#include "env/common.h"
#include "env/stubs_base.h"
#include "types_base.c"
#include "env/ghost_vrule_md.h"
#include "hashchain.c"
#include "signature.c"
#include "contracts/verification_rule_c01_md.h"
#ifdef MD_PLAIN
/* plain mode (no contract instrumentation): ASSUMED body = the contract of contracts/hash_alg.h, enforced on hash.c by C17.hashalg.* */
unsigned int KSI_getHashLength(KSI_HashAlgorithm algo_id) { return spec_hashalg_len((long long)algo_id); }
#endif
#include "verification_rule.c"

void harness(void) {
	KSI_VerificationContext *info; KSI_RuleVerificationResult *result; int res;
	md_world_init();
	info = VR_OPT(&g_vr_info); result = VR_OPT(&g_vr_res);
	res = KSI_VerificationRule_AggregationChainMetaDataVerification(info, result);
#ifdef MD_PLAIN    /* no function-contract instrumentation: the harness asserts the same postcondition itself (no frame check) */
	__CPROVER_assert(result == NULL ? res == KSI_INVALID_ARGUMENT : VR_OUTCOME(md_exp_walk(info), res, result), "postcondition: outcome == verdict of the monitor (FAIL INT-11 iff a record is refused, NA iff one cannot be split)");
	__CPROVER_assert(IMPLIES(result != NULL && VR_INFO_OK(info) && res == KSI_OK && result->resultCode == KSI_VER_RES_OK,
		g_mdc.ccalls == MD_N_EFF(info->signature) && (g_mdc.ccalls == 0 || g_md.lcalls == g_mdc.nlinks) && !g_md.fail && !g_md.na), "postcondition: OK only after every link of every chain was inspected");
	__CPROVER_assert(g_md.elref == 0, "postcondition: the reference on a found padding element is released on every path");
#endif
	REACH("returned");
	if (res == KSI_OK && result != NULL && result->resultCode == KSI_VER_RES_OK) REACH("verdict OK");
	if (res == KSI_OK && result != NULL && result->resultCode == KSI_VER_RES_OK && g_mdc.ccalls > 1 && g_md.lcalls > 1) REACH("verdict OK for several chains and links");
	if (res == KSI_OK && result != NULL && result->resultCode == KSI_VER_RES_OK && g_md.records > 0 && g_md.npad == 1) REACH("verdict OK, last record with padding");
	if (res == KSI_OK && result != NULL && result->resultCode == KSI_VER_RES_OK && g_md.records > 0 && g_md.has && g_md.npad == 0) REACH("verdict OK, last record without padding");
	if (res == KSI_OK && result != NULL && result->resultCode == KSI_VER_RES_FAIL) REACH("FAIL INT-11");
	if (res == KSI_OK && result != NULL && result->resultCode == KSI_VER_RES_FAIL && g_md.npad == 0) REACH("FAIL INT-11: imprint-shaped record");
	if (res == KSI_OK && result != NULL && result->resultCode == KSI_VER_RES_FAIL && g_md.npad == 2) REACH("FAIL INT-11: several paddings");
	if (res == KSI_OK && result != NULL && result->resultCode == KSI_VER_RES_FAIL && g_md.npad == 1 && g_md_el.ftlv.dat_len % 2 == 1 && md_first_is_padding_ok()) REACH("FAIL INT-11: odd record length");
	if (result != NULL && result->resultCode == KSI_VER_RES_NA) REACH("verdict NA / error status");
	if (result != NULL && result->resultCode == KSI_VER_RES_NA && g_md.unsplit && g_md.has) REACH("NA: record not splittable");
}
