/* C01, the two remaining "assumed" layers under the rule jobs:
 *  (A) KSI_DataHash_equals (hash.c) at byte level                       H_equals, H_equals_plain, H_equals_abs
 *  (B) the memo / list wrappers KSI_CalendarHashChain_aggregate and KSI_AggregationHashChainList_aggregate (hashchain.c),
 *      ENFORCED against the very contract text the C01 rule jobs ASSUME (contracts/verification_rule_c01.h, included
 *      unchanged), in the world of env/ghost_vrule.h                     H_wrap_cal, H_wrap_list
 * Real files included unmodified: hash.c (A); types_base.c, hashchain.c (B). */
#include "env/common.h"
#include "env/stubs_base.h"

/* ================================================= (A) KSI_DataHash_equals ================================================= */
#if defined(H_equals) || defined(H_equals_plain) || defined(H_equals_abs)
#include "hash.h"
#include "impl/hash_impl.h"
#include "impl/ctx_impl.h"
#include "contracts/hash_equals_c01.h"
#include "hash.c"

/* two hash objects with arbitrary contents (every octet of the 66-octet array, every length 0..66) */
#define EQ_WORLD \
	struct KSI_DataHash_st a, b; const KSI_DataHash *l, *r; int res; \
	unsigned sel_l = nondet_uint(), sel_r = nondet_uint(); \
	l = sel_l == 0 ? NULL : (sel_l == 1 ? &a : &b); \
	r = sel_r == 0 ? NULL : (sel_r == 1 ? &a : &b);
#endif

#ifdef H_equals
/* contract mode: contracts/hash_equals_c01.h enforced on the real function */
void harness(void) {
	EQ_WORLD
	g_eq_w = nondet_size();
	res = KSI_DataHash_equals(l, r);
	REACH("returned");
	if (res) REACH("equal");
	if (res && l != r) REACH("equal, two objects");
	if (res && l != r && l->imprint_length == 0) REACH("equal, two empty imprints");
	if (res && l != r && l->imprint_length == KSI_MAX_IMPRINT_LEN) REACH("equal, 65 octets (SHA-512 imprint)");
	if (res && l != r && l->imprint_length == EQ_IMPRINT_CAP) REACH("equal, 66 octets (whole array)");
	if (!res && l != NULL && r != NULL) REACH("unequal, both present");
	if (!res && l != NULL && r != NULL && l->imprint_length == r->imprint_length && l->imprint[0] == r->imprint[0]) REACH("unequal: same length and algorithm id, digest differs");
	if (!res && l != NULL && r != NULL && l->imprint_length != r->imprint_length && l->imprint[0] == r->imprint[0]) REACH("unequal: same algorithm id, different length");
	if (!res && (l == NULL || r == NULL)) REACH("unequal: one side missing");
}
#endif

#ifdef H_equals_plain
/* plain mode, CBMC's own memcmp unwound to the size of the imprint array; the reference is a loop written here */
void harness(void) {
	EQ_WORLD
	size_t k; int same = 1;
	__CPROVER_assume(EQ_REP_INV(&a) && EQ_REP_INV(&b));       /* call-site precondition: representation invariant, see contracts/hash_equals_c01.h */
	res = KSI_DataHash_equals(l, r);
	if (l == NULL || r == NULL) same = 0;
	else if (l->imprint_length != r->imprint_length) same = 0;
	else for (k = 0; k < EQ_IMPRINT_CAP; k++) if (k < l->imprint_length && l->imprint[k] != r->imprint[k]) same = 0;
	__CPROVER_assert(IFF(res != 0, same), "equals <=> both present, same imprint length, every imprint octet equal");
	__CPROVER_assert(res == 0 || res == 1, "equals: a C truth value");
	REACH("returned");
	if (res && l != r && l->imprint_length == EQ_IMPRINT_CAP) REACH("equal, 66 octets");
	if (!res && l != NULL && r != NULL && l->imprint_length == r->imprint_length) REACH("unequal, same length");
}
#endif

#ifdef H_equals_abs
/* The tie to the abstraction the rule jobs assume (env/ghost_vrule.h KSI_DataHash_equals = spec_imprint_equal on
 * (algorithm id, digest identity)): interpretation  alg(h) := octet 0,  digest identity dig(h) := the digest octet string
 * (length + octets 1..).  With the byte-level contract REPLACING the call, the abstract relation must come out for any
 * two well-formed imprints (length >= 1: every constructor demands an algorithm octet, C10):
 *      equals(l, r) != 0   <=>   alg(l) == alg(r)  &&  dig(l) == dig(r).
 * "dig(l) == dig(r)" is spelled out over the 65 digest positions (same device as in the contract). */
#include "spec/vercodes.h"
#define ABS_DIG_DIFFERS(x, y) ((x)->imprint_length != (y)->imprint_length || \
	EQ_D32(x, y, (x)->imprint_length, 1) || EQ_D32(x, y, (x)->imprint_length, 33) || EQ_D1(x, y, (x)->imprint_length, 65))
void harness(void) {
	struct KSI_DataHash_st a, b; int res;
	g_eq_w = nondet_size();
	__CPROVER_assume(EQ_REP_INV(&a) && EQ_REP_INV(&b) && a.imprint_length >= 1 && b.imprint_length >= 1);   /* well-formed imprints: C10 constructors */
	res = KSI_DataHash_equals(&a, &b);                     /* replaced by the byte-level contract */
	{
		int alg_a = a.imprint[0], alg_b = b.imprint[0];
		/* any injective naming of digest octet strings will do; equality of names == equality of the strings */
		unsigned long long dig_a = 1, dig_b = ABS_DIG_DIFFERS(&a, &b) ? 2 : 1;
		__CPROVER_assert(IFF(res != 0, spec_imprint_equal(alg_a, dig_a, alg_b, dig_b)), "byte-level equals == spec_imprint_equal(algorithm id, digest identity)");
		__CPROVER_assert(IMPLIES(res != 0, alg_a == alg_b), "equal imprints carry the same algorithm id");
		__CPROVER_assert(IMPLIES(alg_a == alg_b && a.imprint_length != b.imprint_length, res == 0), "same algorithm id, different length: unequal (different digest identity)");
	}
	REACH("returned");
	if (res) REACH("equal"); else REACH("unequal");
	if (!res && a.imprint[0] == b.imprint[0]) REACH("unequal with the same algorithm id");
}
#endif

/* ================================================= (B) the wrappers ================================================= */
#if defined(H_wrap_cal) || defined(H_wrap_cal_empty) || defined(H_wrap_list)
#include "types_base.c"
#include "env/ghost_vrule.h"
#include "contracts/hashchain_c01wrap.h"           /* contracts of the cores (projections of C03) + env/ghost_c01wrap.h */
#ifdef H_wrap_list
#define VR_C01_LISTAGG_AUDIT_FRAME , g_cw_aud_aggfail   /* vacuity-guard ghost of the audit (builderY): frame only, no clause speaks about it */
#endif
#include "contracts/verification_rule_c01.h"       /* the contract text the rule jobs assume - unchanged */
#include "hashchain.c"
typedef char cw_new2_is_slot_8[VR_H_NEW2 == 8 ? 1 : -1];      /* the loop-contract JSON says g_vr_h_ref[8] */
#endif

#if defined(H_wrap_cal) || defined(H_wrap_cal_empty)
/* the world of rules.c VR_CALL; additionally the calendar chain may have its link list (vr_world_init leaves it NULL) */
#define CW_CAL_WORLD \
	KSI_CalendarHashChain *chain; KSI_DataHash *out, *out0; int res; _Bool cached; \
	vr_world_init(); \
	g_vr_cal.hashChain = VR_OPT(&g_vr_linklist); \
	/* oracle "the calendar root can be computed": only with a link list and an input hash (aggregateChain's first check) */ \
	g_vr_root_known = nondet_bool() && g_vr_cal.hashChain != NULL && g_vr_cal.inputHash != NULL; \
	/* call-site precondition of the rules INT-08/INT-09 (VR_ROOT_REFS_BALANCED in their requires; rules.c VR_CALL) */ \
	g_vr_cal.outputHash = VR_OPT(&g_vr_h[VR_H_NEW1]); g_vr_h_ref[VR_H_NEW1] = g_vr_cal.outputHash != NULL ? 1 : 0; \
	cached = g_vr_cal.outputHash != NULL; \
	chain = VR_OPT(&g_vr_cal); \
	out0 = VR_OPT(&g_vr_h[VR_H_DOC]); out = out0;
#endif

#ifdef H_wrap_cal
void harness(void) {
	CW_CAL_WORLD
	g_cw_cal_empty = 0;                                  /* domain: at least one calendar link (parser: LEAST_ONE_G0) */
	res = KSI_CalendarHashChain_aggregate(chain, &out);
	REACH("returned");
	if (res == KSI_OK && cached) REACH("root served from the cache");
	if (res == KSI_OK && !cached) REACH("root computed and cached");
	if (res != KSI_OK && chain != NULL) REACH("calendar aggregation failed");
	if (res != KSI_OK && chain != NULL && g_vr_cal.hashChain == NULL) REACH("calendar chain without link list");
	if (res != KSI_OK && chain == NULL) REACH("no chain");
}
#endif

#ifdef H_wrap_cal_empty
/* Boundary of the assumed contract: a calendar chain with an EMPTY link list and no cached root.  C03.aggr_calendar: the core
 * answers KSI_OK without an object.  The real wrapper then answers KSI_OK with *hsh == NULL and caches nothing - the text
 * "KSI_OK => *hsh == &g_vr_h[VR_H_NEW1] ... ref == 2" of contracts/verification_rule_c01.h does NOT hold there.  No contract is
 * enforced in this job; the behaviour is asserted here (plain harness, core replaced by its contract). */
void harness(void) {
	CW_CAL_WORLD
	g_cw_cal_empty = 1;
	__CPROVER_assume(chain != NULL && !cached);          /* the case under inspection */
	res = KSI_CalendarHashChain_aggregate(chain, &out);
	__CPROVER_assert(IFF(res == KSI_OK, g_vr_root_known), "empty calendar link list: OK iff the core succeeds");
	__CPROVER_assert(IMPLIES(res == KSI_OK, out == NULL && g_vr_cal.outputHash == NULL && g_vr_h_ref[VR_H_NEW1] == 0), "empty calendar link list: KSI_OK with NO root, nothing cached, nothing alive");
	__CPROVER_assert(IMPLIES(res != KSI_OK, out == out0 && g_vr_cal.outputHash == NULL && g_vr_h_ref[VR_H_NEW1] == 0), "empty calendar link list: error leaves the outputs untouched");
	REACH("returned");
	if (res == KSI_OK) REACH("OK without a root");
}
#endif

#ifdef H_wrap_list
void harness(void) {
	KSI_AggregationHashChainList *list; KSI_CTX *ctx; int level, res;
	vr_world_init();
	cw_list_init();
	g_cw_aud_aggfail = 0;
	__CPROVER_assume(0 <= g_cw_lvlP && g_cw_lvlP <= 0xff);        /* root levels are within 0..0xff (C03.memo / C03.aggr postcondition) */
	g_vr_temp.aggregationOutputHash = NULL;                       /* call-site precondition (first requires of the enforced contract) */
	list = VR_OPT(&g_cw_chainlist); ctx = VR_OPT(VR_CTX); level = nondet_int();
	g_cw_level0 = level;
	res = KSI_AggregationHashChainList_aggregate(list, ctx, level, &g_vr_temp.aggregationOutputHash);
	REACH("returned");
	if (res == KSI_OK && g_vr_temp.aggregationOutputHash == NULL) REACH("empty list: OK without a root");
	if (res == KSI_OK && g_vr_temp.aggregationOutputHash != NULL) REACH("root handed out");
	if (res == KSI_OK && g_cw_len > 2 && g_cw_wi == 1) REACH("several chains, witness pair inside");
	if (res != KSI_OK && list != NULL && ctx != NULL && level >= 0 && level <= 0xff) REACH("a chain or the list failed");
	if (res == KSI_INVALID_ARGUMENT && (level < 0 || level > 0xff)) REACH("level refused");
	if (res != KSI_OK && list == NULL) REACH("no list");
	/* (audit builderY, dfcc __invalid_ptr sharing) failure of the replaced KSI_AggregationHashChain_aggregate at the first / at a later loop iteration */
	if (res != KSI_OK && g_cw_aud_aggfail == 1) REACH("the aggregation of the first chain fails");
	if (res != KSI_OK && g_cw_aud_aggfail == 2) REACH("the aggregation of a later chain fails");
}
#endif
