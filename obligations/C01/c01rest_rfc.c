/* C01, "RFC3161-record" condition: the output-hash computation of a legacy (RFC3161) record.
 * Real files included unmodified: types_base.c (KSI_OctetString_extract, KSI_Integer_getUInt64), hashchain.c (getter
 * KSI_AggregationHashChain_getInputHash; left out with -DRF_LEAN), verification_rule.c (whole).
 * Contracts: contracts/verification_rule_c01_rfc.h; world + assumed stubs: env/ghost_vrule.h, env/ghost_rfc3161.h. */
#include "env/common.h"
#include "env/stubs_base.h"
#include "types_base.c"
#include "env/ghost_rfc3161.h"
#ifndef RF_LEAN
#include "hashchain.c"
#endif
#include "contracts/verification_rule_c02.h"       /* VR_PRE / VR_POST */
#include "contracts/verification_rule_c01_rfc.h"
#include "verification_rule.c"

#ifdef H_rfc_presuf
/* one pre/suf step, either the first (g_rf_step == 0) or the second; every argument possibly NULL */
void harness(void) {
	KSI_CTX *ctx; const KSI_OctetString *prefix, *suffix; const KSI_DataHash *hsh; KSI_DataHash *slot, *slot0, **out; int alg, res, s;
	vr_world_init(); rf_world_init();
	s = nondet_bool() ? 1 : 0;
	g_rf_step = s;
	if (s == 1) g_vr_h_ref[RF_H_TST] = 1;                      /* second step: the first step's hash exists and is the operand */
	ctx = VR_OPT(VR_CTX);
	prefix = VR_OPT(&g_rf_os[RF_OS_TSTPRE]); suffix = VR_OPT(&g_rf_os[RF_OS_TSTSUF]);
	hsh = VR_OPT(s == 1 ? &g_vr_h[RF_H_TST] : &g_vr_h[VR_H_RFC]);
	alg = nondet_int();
	slot = NULL; slot0 = slot; out = VR_OPT(&slot);
	/* the call record is written by the replaced contract only; the real code never touches it (FRAMEWORK: preset) */
	g_rf_call[s].prefix = prefix; g_rf_call[s].hsh = hsh; g_rf_call[s].suffix = suffix; g_rf_call[s].alg = alg;
	res = rfc3161_preSufHasher(ctx, prefix, hsh, suffix, alg, out);
	REACH("returned");
	if (res == KSI_OK) REACH("step accepted");
	if (res == KSI_OK && s == 1) REACH("second step accepted");
	if (res == KSI_OK && prefix->data != NULL && suffix->data != NULL) REACH("OK with prefix and suffix octets");
	if (res == KSI_OK && prefix->data == NULL) REACH("OK with a NULL-data prefix");
	if (res == KSI_OK && suffix->data == NULL) REACH("OK with a NULL-data suffix");
	if (res == KSI_OK && hsh->imprint_length == 1) REACH("OK with an empty digest");
	if (res != KSI_OK && g_rf_env_failed) REACH("environment failure");
	if (res != KSI_OK && !g_rf_env_failed) REACH("argument missing");
	if (res != KSI_OK && g_rf_t[s].nclose == 0 && g_rf_t[s].nadd == 3) REACH("close failed after three adds");
	(void)slot0;
}
#endif

#ifdef H_rfc_outhash
void harness(void) {
	const KSI_Signature *sig; KSI_DataHash *slot, **out; int res;
	vr_world_init(); rf_world_init();
	sig = VR_OPT(&g_vr_sig);
	slot = NULL; out = VR_OPT(&slot);
	res = rfc3161_getOutputHash(sig, out);
	REACH("returned");
	if (res == KSI_OK) REACH("output hash computed");
	if (res == KSI_OK && g_rf_os[RF_OS_TSTPRE].data != NULL && g_rf_os[RF_OS_SIGSUF].data != NULL) REACH("OK with both prefixes present");
	if (res == KSI_OK && g_rf_os[RF_OS_SIGPRE].data == NULL) REACH("OK with a NULL-data prefix");
	if (res == KSI_OK && g_vr_rfc.tstInfoAlgo == NULL) REACH("OK with an absent algorithm integer (reads as 0)");
	if (res == KSI_OK && g_vr_nchains > 1) REACH("OK with several chains");
	if (res != KSI_OK && g_rf_env_failed && g_rf_step == 2) REACH("final create failed");
	if (res != KSI_OK && g_rf_env_failed && g_rf_step == 1) REACH("second step failed");
	if (res != KSI_OK && !g_rf_env_failed && sig != NULL && sig->rfc3161 != NULL && out != NULL && g_rf_step == 0) REACH("refused: algorithm id > 0xff or component missing");
	if (res != KSI_OK && !g_rf_env_failed && g_rf_step == 2) REACH("refused: no first chain / no input hash");
}
#endif
