/* C01 rule level: rules that walk the aggregation-chain list, contract mode with the ghost monitor of
 * env/ghost_vrule_loops.h (any number of chains).  Real files included unmodified. */
#include "env/common.h"
#include "env/stubs_base.h"
#include "types_base.c"
#include "env/ghost_vrule_loops.h"
#include "hashchain.c"
#include "signature.c"
#include "contracts/verification_rule_c01_loops.h"
#ifdef VL_MODE_CALALG
/* INT-16, bounded stand-in (plain mode): calendar chain of at most 4 links; ASSUMED stub of KSI_checkHashAlgorithmAt:
 * the status of algorithm id a (0..3) at the publication time is the arbitrary value g_ca_status[a]; the stub asserts
 * that the rule asks about the calendar chain's publication time */
KSI_HashChainLink g_ca_link[4]; size_t g_ca_n; KSI_LIST(KSI_HashChainLink) g_ca_list; int g_ca_status[4];
static size_t ca_length(KSI_LIST(KSI_HashChainLink) *l) { return g_ca_n; }
static int ca_elementAt(KSI_LIST(KSI_HashChainLink) *l, size_t pos, KSI_HashChainLink **o) {
	if (pos >= g_ca_n) return KSI_BUFFER_OVERFLOW;
	*o = &g_ca_link[pos]; return KSI_OK;
}
int KSI_checkHashAlgorithmAt(KSI_HashAlgorithm algo_id, time_t used_at) {
	/* a time beyond the range of time_t is "later than everything" (saturated), never negative */
	__CPROVER_assert(used_at == (vr_u64(g_vr_cal.publicationTime) > 0x7fffffffffffffffULL ? (time_t)0x7fffffffffffffffLL : (time_t)vr_u64(g_vr_cal.publicationTime)), "the algorithm is judged at the calendar chain's publication time");
	__CPROVER_assert(algo_id >= 0 && algo_id < 4, "algorithm id of a link of this world");
	return g_ca_status[algo_id] == 0 ? KSI_OK : g_ca_status[algo_id] == 1 ? KSI_HASH_ALGORITHM_DEPRECATED : g_ca_status[algo_id] == 2 ? KSI_HASH_ALGORITHM_OBSOLETE : KSI_UNKNOWN_HASH_ALGORITHM_ID;
}
#endif
#include "verification_rule.c"

/* VL_PLAIN: no function-contract instrumentation; the harness asserts the same postcondition itself (no frame check).
 * The RFC3161 pre-check cannot be replaced by its contract then: signatures without RFC3161 record only. */
#ifdef VL_PLAIN
#define VL_PLAIN_INIT g_vr_sig.rfc3161 = NULL;
#define VL_CHECK(v) \
	__CPROVER_assert(result == NULL ? res == KSI_INVALID_ARGUMENT : VR_OUTCOME((v), res, result), "postcondition: outcome == verdict of the monitor"); \
	__CPROVER_assert(IMPLIES(result != NULL && VR_INFO_OK(info) && res == KSI_OK && result->resultCode == KSI_VER_RES_OK, \
		g_vl_calls == VL_N_EFF(info->signature) && !g_vl_fail && !g_vl_na), "postcondition: OK only after every chain was inspected");
#else
#define VL_PLAIN_INIT
#define VL_CHECK(v)
#endif
#define VL_CALL(RULE) \
	KSI_VerificationContext *info; KSI_RuleVerificationResult *result; int res; \
	vl_world_init(); VL_PLAIN_INIT \
	info = VR_OPT(&g_vr_info); result = VR_OPT(&g_vr_res); \
	res = RULE(info, result); \
	REACH("returned"); \
	if (res == KSI_OK && result != NULL && result->resultCode == KSI_VER_RES_OK) REACH("verdict OK"); \
	if (res == KSI_OK && result != NULL && result->resultCode == KSI_VER_RES_OK && g_vl_calls > 2) REACH("verdict OK for more than two chains"); \
	if (result != NULL && result->resultCode == KSI_VER_RES_NA) REACH("verdict NA / error status");
/* the REACH does not look at the error code: a wrong code must show up as a failed postcondition (exit 1), not as an unreachable REACH (exit 2) */
#define VL_REACH_FAIL(code, msg) if (res == KSI_OK && result != NULL && result->resultCode == KSI_VER_RES_FAIL) REACH(msg); \
	if (res == KSI_OK && result != NULL && result->resultCode == KSI_VER_RES_FAIL && g_vl_calls > 2) REACH(msg " at a later chain");

#ifdef VL_MODE_TIME
void harness(void) { VL_CALL(KSI_VerificationRule_AggregationHashChainTimeConsistency) VL_REACH_FAIL(KSI_VER_ERR_INT_2, "FAIL INT-02") }
#endif
#ifdef VL_MODE_ALG
void harness(void) { VL_CALL(KSI_VerificationRule_AggregationChainHashAlgorithmVerification) VL_REACH_FAIL(KSI_VER_ERR_INT_15, "FAIL INT-15") }
#endif
#ifdef VL_MODE_SHAPE
void harness(void) { VL_CALL(KSI_VerificationRule_AggregationHashChainIndexConsistency) VL_REACH_FAIL(KSI_VER_ERR_INT_10, "FAIL INT-10") }
#endif
#ifdef VL_MODE_CONS
void harness(void) {
	__CPROVER_assert(VR_H_IN0 == 1 && VR_H_AGGOUT == 6 && VR_H_NEW1 == 7 && VR_H_NEW2 == 8, "slot numbers used in the loop invariant");
	VL_CALL(KSI_VerificationRule_AggregationHashChainConsistency) VL_REACH_FAIL(KSI_VER_ERR_INT_1, "FAIL INT-01")
	if (res == KSI_OK && result->resultCode == KSI_VER_RES_OK && g_vl_calls == 0) REACH("OK for a signature without chains");
	/* the error path of the aggregation (seed C11-3: a double release of the previous root on exactly this path) */
	if (g_vl_na && g_vl_aggs == 0 && g_vl_calls == 1) REACH("aggregation of the first chain fails");
	if (g_vl_na && g_vl_aggs >= 1 && g_vl_calls == g_vl_aggs + 1) REACH("aggregation of a later chain fails");
}
#endif
#ifdef VL_MODE_IDX
void harness(void) { VL_CALL(KSI_VerificationRule_AggregationHashChainIndexContinuation) VL_CHECK(vl_exp_walk(info, 1, SPEC_VERR_INT(12))) VL_REACH_FAIL(KSI_VER_ERR_INT_12, "FAIL INT-12")
#ifndef VL_PLAIN   /* deep vacuity guard only in the proved job: an unreachable REACH makes a run "undecided" (exit 2) and would mask the failed obligations of a broken tree in the quick tier */
	if (res == KSI_OK && result->resultCode == KSI_VER_RES_OK && g_vl_calls >= 2 && g_vi_calls >= 2) REACH("OK with two or more common index positions");
#endif
	if (res == KSI_OK && result->resultCode == KSI_VER_RES_FAIL && g_vi_calls > 0) REACH("FAIL INT-12 on an index element");
}
#endif
#ifdef VL_MODE_RFCTIME
void harness(void) { KSI_CTX *ctx; const KSI_Signature *sig; int res;
	vr_world_init(); ctx = VR_OPT(VR_CTX); sig = VR_OPT(&g_vr_sig);
	res = rfc3161_verifyAggrTime(ctx, sig);
	REACH("returned");
	if (res == KSI_OK && sig != NULL && sig->rfc3161 != NULL) REACH("times equal");
	if (res == KSI_VERIFICATION_FAILURE) REACH("times differ");
	if (res != KSI_OK && res != KSI_VERIFICATION_FAILURE && ctx != NULL && sig != NULL) REACH("no first chain");
}
#endif
#ifdef VL_MODE_RFCIDX
void harness(void) { KSI_CTX *ctx; const KSI_Signature *sig; int res;
	ri_world_init(); ctx = VR_OPT(VR_CTX); sig = VR_OPT(&g_vr_sig);
	res = rfc3161_verifyChainIndex(ctx, sig);
	REACH("returned");
	if (res == KSI_OK && sig != NULL && sig->rfc3161 != NULL && g_ri_calls > 2) REACH("indices equal, more than two elements");
	if (res == KSI_VERIFICATION_FAILURE && g_ri_len[0] != g_ri_len[1]) REACH("lengths differ");
	if (res == KSI_VERIFICATION_FAILURE && g_ri_mismatch && g_ri_calls > 2) REACH("an element differs");
	if (res != KSI_OK && res != KSI_VERIFICATION_FAILURE && ctx != NULL && sig != NULL) REACH("no first chain");
}
#endif
#ifdef VL_MODE_CALALG
void harness(void) {
	KSI_VerificationContext *info; KSI_RuleVerificationResult *result; int res, k; spec_verdict v = SPEC_VOK;
	vr_world_init();
	g_ca_n = nondet_size() % 5; g_ca_list.length = ca_length; g_ca_list.elementAt = ca_elementAt;
	for (k = 0; k < 4; k++) {
		g_ca_link[k].ctx = VR_CTX; g_ca_link[k].isLeft = nondet_int(); g_ca_link[k].imprint = VR_OPT(&g_vr_h[k]); g_vr_h_alg[k] &= 3;
		g_ca_link[k].levelCorrection = NULL; g_ca_link[k].legacyId = NULL; g_ca_link[k].metaData = NULL;
		g_ca_status[k] = nondet_int() & 3;
	}
	g_vr_cal.hashChain = VR_OPT(&g_ca_list);
	info = VR_OPT(&g_vr_info); result = VR_OPT(&g_vr_res);
	res = KSI_VerificationRule_CalendarChainHashAlgorithmObsoleteAtPubTime(info, result);
	/* reference: the first LEFT link decides - no imprint: not computable; algorithm obsolete at publication time: FAIL INT-16 */
	if (!VR_INFO_OK(info) || g_vr_sig.calendarChain == NULL || g_vr_cal.hashChain == NULL) v = SPEC_VNA;
	else for (k = 0; k < 4; k++) if ((size_t)k < g_ca_n && v.kind == SPEC_V_OK && g_ca_link[k].isLeft) {
		if (g_ca_link[k].imprint == NULL) v = SPEC_VNA;
		else if (spec_alg_obsolete_rule_fails(g_ca_status[vr_alg(g_ca_link[k].imprint)])) v = SPEC_VFAIL(SPEC_VERR_INT(16));
	}
	__CPROVER_assert(result == NULL ? res == KSI_INVALID_ARGUMENT : VR_OUTCOME(v, res, result), "postcondition: outcome == reference verdict over the calendar links");
	REACH("returned");
	if (res == KSI_OK && result != NULL && result->resultCode == KSI_VER_RES_OK && g_ca_n == 4) REACH("verdict OK for four links");
	if (res == KSI_OK && result != NULL && result->resultCode == KSI_VER_RES_FAIL) REACH("FAIL INT-16");
	if (result != NULL && result->resultCode == KSI_VER_RES_NA) REACH("verdict NA / error status");
}
#endif
