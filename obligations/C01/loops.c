/* C01 rule level: rules that walk the aggregation-chain list, contract mode with the ghost monitor of
 * env/ghost_vrule_loops.h (any number of chains).  Real files included unmodified. */
#include "env/common.h"
#include "env/stubs_base.h"
#include "types_base.c"
#include "env/ghost_vrule_loops.h"
#include "hashchain.c"
#include "signature.c"
#include "contracts/verification_rule_c01_loops.h"
#include "verification_rule.c"

#define VL_CALL(RULE) \
	KSI_VerificationContext *info; KSI_RuleVerificationResult *result; int res; \
	vl_world_init(); \
	info = VR_OPT(&g_vr_info); result = VR_OPT(&g_vr_res); \
	res = RULE(info, result); \
	REACH("returned"); \
	if (res == KSI_OK && result != NULL && result->resultCode == KSI_VER_RES_OK) REACH("verdict OK"); \
	if (res == KSI_OK && result != NULL && result->resultCode == KSI_VER_RES_OK && g_vl_calls > 2) REACH("verdict OK for more than two chains"); \
	if (result != NULL && result->resultCode == KSI_VER_RES_NA) REACH("verdict NA / error status");
#define VL_REACH_FAIL(code, msg) if (res == KSI_OK && result != NULL && result->resultCode == KSI_VER_RES_FAIL && result->errorCode == (code)) REACH(msg); \
	if (res == KSI_OK && result != NULL && result->resultCode == KSI_VER_RES_FAIL && result->errorCode == (code) && g_vl_calls > 2) REACH(msg " at a later chain");

#ifdef VL_MODE_TIME
void harness(void) { VL_CALL(KSI_VerificationRule_AggregationHashChainTimeConsistency) VL_REACH_FAIL(KSI_VER_ERR_INT_2, "FAIL INT-02") }
#endif
#ifdef VL_MODE_ALG
void harness(void) { VL_CALL(KSI_VerificationRule_AggregationChainHashAlgorithmVerification) VL_REACH_FAIL(KSI_VER_ERR_INT_15, "FAIL INT-15") }
#endif
#ifdef VL_MODE_SHAPE
void harness(void) { VL_CALL(KSI_VerificationRule_AggregationHashChainIndexConsistency) VL_REACH_FAIL(KSI_VER_ERR_INT_10, "FAIL INT-10") }
#endif
#ifdef VL_MODE_CONS
void harness(void) {
	__CPROVER_assert(VR_H_IN0 == 1 && VR_H_AGGOUT == 6 && VR_H_NEW1 == 7 && VR_H_NEW2 == 8, "slot numbers used in the loop invariant");
	VL_CALL(KSI_VerificationRule_AggregationHashChainConsistency) VL_REACH_FAIL(KSI_VER_ERR_INT_1, "FAIL INT-01")
	if (res == KSI_OK && result->resultCode == KSI_VER_RES_OK && g_vl_calls == 0) REACH("OK for a signature without chains");
}
#endif
#ifdef VL_MODE_IDX
void harness(void) { VL_CALL(KSI_VerificationRule_AggregationHashChainIndexContinuation) VL_REACH_FAIL(KSI_VER_ERR_INT_12, "FAIL INT-12")
	if (res == KSI_OK && result->resultCode == KSI_VER_RES_OK && g_vl_calls >= 2 && g_vi_calls > 2) REACH("OK with more than two common index positions");
	if (res == KSI_OK && result->resultCode == KSI_VER_RES_FAIL && g_vi_calls > 0) REACH("FAIL INT-12 on an index element");
}
#endif
#ifdef VL_MODE_RFCTIME
void harness(void) { KSI_CTX *ctx; const KSI_Signature *sig; int res;
	vr_world_init(); ctx = VR_OPT(VR_CTX); sig = VR_OPT(&g_vr_sig);
	res = rfc3161_verifyAggrTime(ctx, sig);
	REACH("returned");
	if (res == KSI_OK && sig != NULL && sig->rfc3161 != NULL) REACH("times equal");
	if (res == KSI_VERIFICATION_FAILURE) REACH("times differ");
	if (res != KSI_OK && res != KSI_VERIFICATION_FAILURE && ctx != NULL && sig != NULL) REACH("no first chain");
}
#endif
#ifdef VL_MODE_RFCIDX
void harness(void) { KSI_CTX *ctx; const KSI_Signature *sig; int res;
	ri_world_init(); ctx = VR_OPT(VR_CTX); sig = VR_OPT(&g_vr_sig);
	res = rfc3161_verifyChainIndex(ctx, sig);
	REACH("returned");
	if (res == KSI_OK && sig != NULL && sig->rfc3161 != NULL && g_ri_calls > 2) REACH("indices equal, more than two elements");
	if (res == KSI_VERIFICATION_FAILURE && g_ri_len[0] != g_ri_len[1]) REACH("lengths differ");
	if (res == KSI_VERIFICATION_FAILURE && g_ri_mismatch && g_ri_calls > 2) REACH("an element differs");
	if (res != KSI_OK && res != KSI_VERIFICATION_FAILURE && ctx != NULL && sig != NULL) REACH("no first chain");
}
#endif
