#!/usr/bin/env python3
# generates obligations/C04/index.json (run: python3 obligations/C04/gen_index.py)
import json
ASSUMED = [
 "KSI_DataHash_equals: arbitrary equivalence relation on hash identities, NULL equals nothing (hash.h); KSI_DataHash_free: ghost reference count (env/ghost_c04_world.h)",
 "KSI_CalendarHashChain_aggregate, KSI_AggregationHashChainList_aggregate (hashchain.c, C03): root identity of the given chain (new reference) or an arbitrary error",
 "KSI_receivePublicationsFile (download + cache, base.c), KSI_verifyPublicationsFile (PKI verification, C18): arbitrary outcome, recorded; KSI_PublicationsFile_ref/_free: ghost reference counts",
 "KSI_PublicationsFile_getNearestPublication/findPublicationByTime/findPublication/getPKICertificateById (publicationsfile.c, C18): arbitrary record / none / error, arguments recorded; KSI_PublicationRecord_free: ghost count",
 "KSI_PKICertificate_getValidityNotBefore/NotAfter, KSI_PKITruststore_verifyRawSignature (pkitruststore_openssl.c, OpenSSL), KSI_TLV_serialize (tlv.c, C09): arbitrary outcome, arguments recorded",
 "KSI_ERR_getBaseErrorMessage, KSI_strdup, KSI_ERR_*, KSI_LOG_*: no effect on observed state (env/stubs_base.h)",
 "aggregation-chain list of the signature: hands out its first element, a NULL element or an error; all other objects are concrete with arbitrary contents",
 "call-site precondition (policy.c Rule_verify): the result object is handed over as NA / GEN-02",
]
# name, flags(F=has FAIL, E=has other error status), extra defines
RULES = [
 ("UserProvidedPublicationExistence", "", []),
 ("UserProvidedPublicationTimeVerification", "E", []),
 ("UserProvidedPublicationTimeDoesNotSuit", "", []),
 ("RequireNoUserProvidedPublication", "", []),
 ("UserProvidedPublicationHashVerification", "FE", []),
 ("UserProvidedPublicationCreationTimeVerification", "E", []),
 ("PublicationsFileContainsSignaturePublication", "E", []),
 ("PublicationsFileDoesNotContainSignaturePublication", "E", []),
 ("PublicationsFileSignaturePublicationVerification", "FE", []),
 ("PublicationsFileContainsSuitablePublication", "E", []),
 ("PublicationsFileExtendingPermittedVerification", "", []),
 ("UserProvidedPublicationExtendingPermittedVerification", "", []),
 ("PublicationsFilePublicationHashMatchesExtenderResponse", "FE", []),
 ("PublicationsFilePublicationTimeMatchesExtenderResponse", "FE", []),
 ("PublicationsFileExtendedSignatureInputHash", "FE", []),
 ("UserProvidedPublicationHashMatchesExtendedResponse", "FE", []),
 ("UserProvidedPublicationTimeMatchesExtendedResponse", "FE", []),
 ("UserProvidedPublicationExtendedSignatureInputHash", "FE", []),
 ("ExtendedSignatureCalendarChainInputHash", "FE", []),
 ("ExtendedSignatureCalendarChainAggregationTime", "FE", []),
 ("ExtendedSignatureCalendarChainRootHash", "FE", []),
 ("CalendarAuthenticationRecordExistence", "", []),
 ("CalendarAuthenticationRecordDoesNotExist", "", []),
 ("CertificateExistence", "E", []),
 ("CertificateValidity", "FE", []),
 ("CalendarAuthenticationRecordSignatureVerification", "FE", []),
]
X_ASSUMED = [
 "KSI_createExtendRequest (signature.c): stub with the behaviour proved by C08.createExtendRequest - the request carries (start, end), start NULL is refused, may fail",
 "KSI_sendExtenderRequest, KSI_RequestHandle_perform, KSI_RequestHandle_getExtendResponse (network, PDU parsing, HMAC check: C06/C20): arbitrary outcome, protocol order asserted; an unauthenticated reply is an error of getExtendResponse",
 "KSI_convertExtenderStatusCode (net.c): a non-zero status maps to an error code != KSI_OK",
 "KSI_ExtendReq_free, KSI_RequestHandle_free, KSI_ExtendResp_free (releases the chain it still owns), KSI_CalendarHashChain_free: ghost live counts",
]
RL_ASSUMED = ["calendar chain link lists: model lists (env/ghost_c04_rightlinks.h) - arbitrary length, every fetched link arbitrary (left/right, sibling hash), elementAt may fail; hash equality of a compared pair is arbitrary"]
HELPERS = {
 "pf": ["initPublicationsFile"], "ext": ["getExtendedCalendarHashChain"], "agg": ["initAggregationOutputHash"], "st": ["KSI_Signature_getSigningTime"], "fatal": ["isFatalError"],
}
USES = {
 "UserProvidedPublicationCreationTimeVerification": [],
 "PublicationsFileContainsSignaturePublication": ["pf", "fatal"], "PublicationsFileDoesNotContainSignaturePublication": ["pf", "fatal"],
 "PublicationsFileSignaturePublicationVerification": ["pf", "fatal"], "PublicationsFileContainsSuitablePublication": ["pf", "fatal", "st"],
 "PublicationsFileExtendingPermittedVerification": [], "UserProvidedPublicationExtendingPermittedVerification": [],
 "PublicationsFilePublicationHashMatchesExtenderResponse": ["pf", "fatal", "st", "ext"], "PublicationsFilePublicationTimeMatchesExtenderResponse": ["pf", "fatal", "st", "ext"],
 "PublicationsFileExtendedSignatureInputHash": ["pf", "fatal", "st", "ext", "agg"],
 "UserProvidedPublicationHashMatchesExtendedResponse": ["ext"], "UserProvidedPublicationTimeMatchesExtendedResponse": ["ext", "st"],
 "UserProvidedPublicationExtendedSignatureInputHash": ["ext", "agg"], "ExtendedSignatureCalendarChainInputHash": ["ext", "agg"],
 "ExtendedSignatureCalendarChainAggregationTime": ["ext"], "ExtendedSignatureCalendarChainRootHash": ["ext"],
 "CertificateExistence": ["pf", "fatal"], "CertificateValidity": ["pf", "fatal"], "CalendarAuthenticationRecordSignatureVerification": ["pf", "fatal"],
}
OVERRIDE = {}
for k, v in USES.items():
    fn = "KSI_VerificationRule_" + k
    if k in ("PublicationsFileExtendingPermittedVerification", "UserProvidedPublicationExtendingPermittedVerification"):
        OVERRIDE[k] = {"functions": [fn, "extendingPermittedVerification"]}
    else:
        OVERRIDE[k] = {"functions": [fn] + sum((HELPERS[h] for h in v), [])}
OVERRIDE["CalendarAuthenticationRecordSignatureVerification"]["cbmc_flags"] = ["--memory-leak-check"]
EXTRA = [
 {"id": "C04.receiveCalendarHashChain", "harness": "obligations/C04/extend.c", "defines": ["H_receive"], "enforce": ["receiveCalendarHashChain"],
  "functions": ["receiveCalendarHashChain"], "level": "proved", "assumed": ASSUMED + X_ASSUMED, "timeout": 120,
  "expect_classes": {"postcondition": 6}},
]
for name, helpers in [("ExtendSignatureCalendarChainInputHashToHead", ["fatal"]), ("ExtendSignatureCalendarChainInputHashToSamePubTime", ["fatal"]),
                      ("UserProvidedPublicationExtendToPublication", ["fatal"]), ("PublicationsFileExtendToPublication", ["fatal", "pf", "st"])]:
    fn = "KSI_VerificationRule_" + name
    EXTRA.append({"id": "C04." + name, "harness": "obligations/C04/extend.c", "defines": ["C04_RULE=" + fn, "C04_REPLACE_RECEIVE"], "enforce": [fn],
                  "replace": ["receiveCalendarHashChain"], "functions": [fn] + sum((HELPERS[h] for h in helpers), []), "level": "proved",
                  "assumed": ASSUMED + X_ASSUMED, "timeout": 180, "expect_classes": {"postcondition": 4}})
EXTRA += [
 {"id": "C04.getNextLink", "harness": "obligations/C04/rightlinks.c", "defines": ["H_getNextLink"], "enforce": ["getNextLink"], "functions": ["getNextLink"],
  "loop_contracts": "contracts/verification_rule_c04_rightlinks.loops.json", "expect_loop_contracts": True, "level": "proved",
  "assumed": RL_ASSUMED + ASSUMED[:1], "timeout": 180, "expect_classes": {"postcondition": 7}},
 {"id": "C04.ExtendedSignatureCalendarChainRightLinksMatch", "harness": "obligations/C04/rightlinks.c", "defines": ["H_rightLinks", "C04_RL_BOUND=4"],
  "functions": ["KSI_VerificationRule_ExtendedSignatureCalendarChainRightLinksMatch", "getNextLink", "getExtendedCalendarHashChain"],
  "unwindset": ["getNextLink.0:6", "KSI_VerificationRule_ExtendedSignatureCalendarChainRightLinksMatch.0:7"],
  "level": "bounded", "bound": "links of either calendar chain <= 4 (left/right pattern, hash equalities, presence of every object arbitrary)",
  "assumed": RL_ASSUMED + ASSUMED, "cbmc_flags": ["--object-bits", "12"], "timeout": 300, "min_obligations": 300,
  "replay": {"driver": "replay/c04_rules.c", "args": {"rule": "ExtendedSignatureCalendarChainRightLinksMatch"}}},
]
TOP = {
 "assumptions": [
  "objects handed to the rules are parser-well-formed: the mandatory elements of the TLV templates (tlv_template.c, checked by C10) are present - calendar chain pub_time / input_hash, aggregation chain aggr_time, publication data pub_time / imprint, publication record pub_data; optional elements (calendar aggr_time, reply status, ...) are arbitrary",
  "the result object is handed over as NA / GEN-02 (policy.c Rule_verify, the only caller of the rules in the library)",
  "call-site facts of the user-publication tables (policy.c): UserProvidedPublicationExistence precedes the other user-publication rules; UserProvidedPublicationCreationTimeVerification (by its contract) precedes UserProvidedPublicationTimeMatchesExtendedResponse",
  "hash equality is an arbitrary equivalence relation on hash identities; hashing itself (KSI_CalendarHashChain_aggregate, KSI_AggregationHashChainList_aggregate) is C03's"
 ],
 "not_decided": [
  "composition of the rule verdicts into policy verdicts (L2 lemmas over the tables of policy.c): owned by the lead (C05 interpreter contract + table shapes)",
  "PKCS#7 / X.509 / raw signature verification inside OpenSSL, certificate look-up, download and PKI verification of the publications file, HMAC authenticity of the extender reply: assumed stubs with arbitrary outcome",
  "KSI_VerificationRule_ExtendedSignatureCalendarChainRightLinksMatch is decided for chains of at most 4 links only (for(;;) loop: loop contracts are dropped by CBMC 6.11, dfcc + unwinding exhausts 12 GB); its helper getNextLink is proved for every length",
  "the *HashAlgorithmDeprecatedAtPubTime rules and the pure presence rules shared with the internal policy (CalendarHashChainExistence/DoesNotExist/PresenceVerification, SignaturePublicationRecordExistence/Missing, CalendarAuthenticationRecordPresenceVerification) are not part of this assignment",
  "a reply without status element is accepted by receiveCalendarHashChain (unlike KSI_ExtendResp_verifyWithRequest after fix 7baf448): tolerated by the contract, the later rules still compare the chain with the anchors",
  "liveness: a calendar chain that omits its optional aggregation-time element makes every extender round trip fail (start time read from the element) - the outcome is NA, which C04 allows"
 ],
 "paper_steps": [
  "per rule: the three cases HOLDS / CONTRADICTS / UNDECIDABLE of contracts/verification_rule_c04*.h are exclusive and exhaustive, hence the single verdict clause is the equivalence '(KSI_OK and OK) <=> comparison holds' plus 'evaluable and false => FAIL with the documented code' plus 'otherwise NA'",
  "rule verdicts + interpreter semantics (C05) + table shapes (policy.c) => the English statement of C04 for whole policies"
 ],
 "trusted_base": ["CBMC 6.11 (goto-cc, goto-instrument --dfcc, cbmc)", "env/ghost_c04_world.h, env/ghost_c04_extend.h, env/ghost_c04_rightlinks.h (assumed environment)", "spec/c04_codes.h, spec/rightlinks.h (reference vocabulary / machine)"]
}
jobs = []
for name, fl, extra in RULES:
    fn = "KSI_VerificationRule_" + name
    d = ["C04_RULE=" + fn] + (["C04_HAS_FAIL"] if "F" in fl else []) + (["C04_HAS_ERR"] if "E" in fl else []) + extra
    j = {"id": "C04." + name, "harness": "obligations/C04/rules.c", "defines": d, "enforce": [fn], "functions": [fn],
         "level": "proved", "assumed": ASSUMED, "timeout": 120,
         "expect_classes": {"postcondition": 3},
         "replay": {"driver": "replay/c04_rules.c", "args": {"rule": name}}}
    j.update(OVERRIDE.get(name, {}))
    jobs.append(j)
jobs += EXTRA
idx = {"explanation": "C04: trust-anchor rules say OK only if the calendar root is bound to the anchor; contradiction => FAIL with the documented code; missing anchor / failed extension => NA",
       "jobs": jobs}
idx.update(TOP)
json.dump(idx, open("/verif/obligations/C04/index.json", "w"), indent=1)
print(len(jobs), "jobs")
