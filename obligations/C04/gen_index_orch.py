#!/usr/bin/env python3
# generates obligations/C04/index_orch.json (run: python3 obligations/C04/gen_index_orch.py)   -- builderP
import json
ASSUMED = [
 "calendarChainAggrAlgorithmState (static helper): REPLACED by its contract - answer and status are arbitrary facts about the chain asked about, chain and inspector recorded; the same postcondition text is checked on the real body by C04.orch_calendarChainAggrAlgorithmState_b4 (bounded chain length)",
 "KSI_DataHash_equals: arbitrary equivalence relation on hash identities, NULL equals nothing (hash.h); KSI_DataHash_free: ghost reference count (env/ghost_c04_world.h)",
 "KSI_receivePublicationsFile (download + cache, base.c), KSI_verifyPublicationsFile (PKI verification, C18): arbitrary outcome, recorded; KSI_PublicationsFile_ref/_free: ghost reference counts",
 "KSI_PublicationsFile_getNearestPublication (publicationsfile.c, C18): arbitrary record / none / error, arguments recorded; KSI_PublicationRecord_free: ghost count",
 "KSI_ERR_getBaseErrorMessage, KSI_strdup, KSI_ERR_*, KSI_LOG_*: no effect on observed state (env/stubs_base.h)",
 "aggregation-chain list of the signature: hands out its first element, a NULL element or an error; all other objects are concrete with arbitrary contents",
 "call-site precondition (policy.c Rule_verify): the result object is handed over as NA / GEN-02; parser-well-formed objects (mandatory template elements present, as in the sibling C04 rule jobs)",
]
RULES = [
 ("CalendarHashChainHashAlgorithmDeprecatedAtPubTime", ["signatureCalendarChainHashAlgorithmDeprecatedAtPubTime"]),
 ("PublicationsFileSignatureCalendarChainHashAlgorithmDeprecatedAtPubTime", ["signatureCalendarChainHashAlgorithmDeprecatedAtPubTime"]),
 ("UserProvidedPublicationSignatureCalendarChainHashAlgorithmDeprecatedAtPubTime", ["signatureCalendarChainHashAlgorithmDeprecatedAtPubTime"]),
 ("UserProvidedPublicationExtendedCalendarChainHashAlgorithmDeprecatedAtPubTime", ["getExtendedCalendarHashChain"]),
 ("PublicationsFileExtendedCalendarChainHashAlgorithmDeprecatedAtPubTime", ["getExtendedCalendarHashChain", "initPublicationsFile", "isFatalError", "KSI_Signature_getSigningTime"]),
]
jobs = []
for name, helpers in RULES:
    fn = "KSI_VerificationRule_" + name
    jobs.append({
        "id": "C04.orch_" + name,
        "harness": "obligations/C04/orch_rules.c",
        "defines": ["PO_RULE=" + fn],
        "enforce": [fn],
        "replace": ["calendarChainAggrAlgorithmState"],
        "functions": [fn] + helpers,
        "level": "proved",
        "assumed": ASSUMED,
        "timeout": 150,
        "expect_classes": {"postcondition": 5},
        "replay": {"driver": "replay/c04_orch_depr.c", "args": {"rule": name}},
    })
    if "initPublicationsFile" in helpers:
        jobs[-1]["cbmc_flags"] = ["--object-bits", "10"]
jobs.append({
    "id": "C04.orch_calendarChainAggrAlgorithmState_b4",
    "harness": "obligations/C04/orch_rules.c",
    "defines": ["H_ccs", "PO_MAX_LINKS=4"],
    "functions": ["calendarChainAggrAlgorithmState", "getNextLink", "wasDeprecatedAt", "integerToTime"],
    "unwindset": ["calendarChainAggrAlgorithmState.0:6", "getNextLink.0:6", "harness.0:12", "harness.1:12", "harness.2:12", "harness.3:12", "harness.4:12", "harness.5:12"],
    "level": "bounded",
    "bound": "calendar chain of at most 4 links (direction, presence of the sibling hash, algorithm ids 0..3 with arbitrary status, position of a failing fetch: arbitrary); plain mode, postcondition PO_CCS_POST asserted by the harness (no frame check)",
    "assumed": [
        "KSI_checkHashAlgorithmAt (hash.c; real body under contract in C17.hashalg.*): arbitrary status (fine / deprecated / obsolete / unknown) per algorithm id, asserts it is asked about the inspected chain's publication time",
        "KSI_DataHash_getHashAlg (hash.c): ghost algorithm id of the hash identity, KSI_INVALID_ARGUMENT for NULL",
        "calendar link lists: concrete model lists of 0..4 links, elementAt fails at an arbitrary position with an arbitrary status",
        "KSI_ERR_*/KSI_LOG_*: no observable effect (env/stubs_base.h)",
    ],
    "cbmc_flags": ["--object-bits", "12"],
    "expect_classes": {"assertion": 1},
    "timeout": 300,
    "replay": {"driver": "replay/c04_orch_depr.c", "args": {"rule": "helper"}},
})
idx = {
 "explanation": "builderP: the five *HashAlgorithmDeprecatedAtPubTime rules (one loop-free contract each: OK <=> chain readable and no step algorithm deprecated at the publication time; deprecated => KSI_OK/NA/GEN-02; unreadable => NA + that error status; never FAIL; frame) over a contract of calendarChainAggrAlgorithmState, whose real body is checked bounded; the pure presence rules shared with the internal policy are borrowed from C01 (same contracts, same real bodies).",
 "jobs": jobs,
 "include_jobs": [
  {"job": "C01.sel_cal_present"}, {"job": "C01.sel_cal_absent"}, {"job": "C01.sel_cal_presence"},
  {"job": "C01.sel_pub_present"}, {"job": "C01.sel_pub_missing"}, {"job": "C01.sel_pub_absent"}, {"job": "C01.sel_car_presence"},
 ],
 "not_decided": [
  "calendarChainAggrAlgorithmState for calendar chains of more than 4 links (for(;;) loop: no loop contract in CBMC 6.11; its iteration helper getNextLink is proved for every length by C04.getNextLink)",
 ],
}
json.dump(idx, open("/verif/obligations/C04/index_orch.json", "w"), indent=1)
print(len(jobs), "jobs")
