/* C04: the extender round trip inside the rules.
 *   -DH_receive                         receiveCalendarHashChain (static), contract enforced on the real body
 *   -DC04_RULE=<rule> -DC04_REPLACE_RECEIVE   the four "extend" rules, the helper replaced by the contract proved above
 * Real files as in rules.c; environment env/ghost_c04_world.h + env/ghost_c04_extend.h. */
#include "obligations/C04/c04_prelude.h"
#include "env/ghost_c04_world.h"
#include "env/ghost_c04_extend.h"
#include "contracts/verification_rule_c04.h"
#include "contracts/verification_rule_c04_extend.h"
#include "verification_rule.c"

KSI_RuleVerificationResult g_c04_result;

#ifdef H_receive
void harness(void) {
	KSI_VerificationContext *info;
	KSI_Integer *endTime;
	struct KSI_Integer_st end;
	int res;
	c04_world_build();
	c04_extend_world_build();
	__CPROVER_assume(c04_wf_times());      /* mandatory template elements, see env/ghost_c04_world.h */
	end.ref = 1; end.value = nondet_ull();
	info = nondet_bool() ? &g_c04_info : NULL;
	endTime = nondet_bool() ? &end : NULL;
	res = receiveCalendarHashChain(info, endTime);
	REACH("helper returns");
	if (res == KSI_OK) REACH("round trip succeeded");
	if (res == KSI_OK && g_c04_td.calendarChain == &g_c04_newCal) REACH("reply chain buffered");
	if (res == KSI_OK && endTime == NULL) REACH("extended to head");
	if (res != KSI_OK && g_c04_x_getresp_calls == 1 && g_c04_x_getresp_res == KSI_OK && g_c04_resp.status != NULL) REACH("error status in the reply");
	if (res != KSI_OK && g_c04_x_getresp_calls == 1 && g_c04_x_getresp_res == KSI_OK && (g_c04_resp.status == NULL || g_c04_resp.status->value == 0)) REACH("request id mismatch");
	if (res != KSI_OK && g_c04_x_getresp_calls == 1 && g_c04_x_getresp_res != KSI_OK) REACH("no (authenticated) reply");
	if (res != KSI_OK && g_c04_x_create_calls == 1 && g_c04_x_send_calls == 0) REACH("request refused");
}
#else
void harness(void) {
	KSI_VerificationContext *info;
	KSI_RuleVerificationResult *result;
	int res;
	c04_world_build();
	c04_extend_world_build();
	info = nondet_bool() ? &g_c04_info : NULL;
	result = nondet_bool() ? &g_c04_result : NULL;
	g_c04_result.resultCode = KSI_VER_RES_NA;
	g_c04_result.errorCode = KSI_VER_ERR_GEN_2;
	g_c04_result.status = KSI_OK;
	g_c04_result.stepsPerformed = nondet_size(); g_c04_result.stepsSuccessful = nondet_size(); g_c04_result.stepsFailed = nondet_size();

	res = C04_RULE(info, result);

	REACH("rule returns");
	if (result != NULL && res == KSI_OK && result->resultCode == KSI_VER_RES_OK) REACH("verdict OK (chain received)");
	if (result != NULL && res == KSI_OK && result->resultCode == KSI_VER_RES_OK && g_c04_td.calendarChain == &g_c04_newCal && g_c04_x_new_live == 1) REACH("verdict OK and the reply chain is buffered");
	if (result != NULL && res == KSI_OK && result->resultCode == KSI_VER_RES_NA && result->status != KSI_OK) REACH("verdict NA with the error status recorded");
	if (result != NULL && res != KSI_OK && C04_ARGS_OK(info) && g_c04_rcv_calls == 1) REACH("fatal error of the round trip reported as status");
	if (result != NULL && res == KSI_INVALID_ARGUMENT) REACH("invalid argument reported");
}
#endif
