/* C04 / CAL-04: getNextLink and KSI_VerificationRule_ExtendedSignatureCalendarChainRightLinksMatch.
 *   -DH_getNextLink    the iteration helper, contract enforced, loop closed by an invariant (every list length)
 *   -DH_rightLinks     the rule, helper replaced by its contract, outer loop closed by an invariant (every pair of lengths) */
#define C04_RIGHTLINKS 1
#include "obligations/C04/c04_prelude.h"
#include "env/ghost_c04_world.h"
#include "env/ghost_c04_rightlinks.h"
#include "contracts/verification_rule_c04.h"
#include "contracts/verification_rule_c04_rightlinks.h"
#include "verification_rule.c"

KSI_RuleVerificationResult g_c04_result;

#ifdef H_getNextLink
void harness(void) {
	KSI_HashChainLinkList *list;
	KSI_HashChainLink *link = nondet_bool() ? &g_c04_rl_alink : NULL;
	size_t pos;
	int res, k = nondet_int();
	_Bool getRight = nondet_bool();
	c04_world_build();
	c04_rl_world_build();
	g_c04_rl_want_right = getRight;
	/* an arbitrary reachable state of the two cursors */
	g_c04_rl.a_calls = nondet_size(); g_c04_rl.b_calls = nondet_size();
	g_c04_rl.rl.a_right = nondet_size(); g_c04_rl.rl.b_right = nondet_size(); g_c04_rl.rl.compared = nondet_size(); g_c04_rl.rl.unequal = nondet_bool();
	__CPROVER_assume(g_c04_rl.a_calls <= g_c04_rl_len_a && g_c04_rl.b_calls <= g_c04_rl_len_b);
	__CPROVER_assume(g_c04_rl.rl.a_right <= g_c04_rl.a_calls && g_c04_rl.rl.b_right <= g_c04_rl.b_calls);   /* machine counts fetched links only */
	list = k == 0 ? NULL : (k == 1 ? &g_c04_sigLinks : &g_c04_extLinks);
	pos = list == NULL ? nondet_size() : (list == &g_c04_sigLinks ? g_c04_rl.a_calls : g_c04_rl.b_calls);
	res = getNextLink(list, getRight, &pos, &link);
	REACH("helper returns");
	if (res == KSI_OK && link != NULL) REACH("link found");
	if (res == KSI_OK && link != NULL && list == &g_c04_extLinks && g_c04_rl.b_calls > 3) REACH("link found in chain B after several fetches");
	if (res == KSI_OK && link == NULL && list != NULL) REACH("list exhausted");
	if (res != KSI_OK && list != NULL) REACH("fetch failed");
}
#endif

#ifdef H_rightLinks
void harness(void) {
	KSI_VerificationContext *info;
	KSI_RuleVerificationResult *result;
	int res;
	c04_world_build();
	c04_rl_world_build();
	g_c04_rl_want_right = 1;
#ifdef C04_RL_BOUND
	__CPROVER_assume(g_c04_rl_len_a <= C04_RL_BOUND);     /* stated bound: links of the signature's chain (the extender's chain is unbounded) */
#endif
	info = nondet_bool() ? &g_c04_info : NULL;
	result = nondet_bool() ? &g_c04_result : NULL;
	g_c04_result.resultCode = KSI_VER_RES_NA;
	g_c04_result.errorCode = KSI_VER_ERR_GEN_2;
	g_c04_result.status = KSI_OK;
	res = KSI_VerificationRule_ExtendedSignatureCalendarChainRightLinksMatch(info, result);
	REACH("rule returns");
	if (result != NULL && res == KSI_OK && result->resultCode == KSI_VER_RES_OK) REACH("verdict OK");
	if (result != NULL && res == KSI_OK && result->resultCode == KSI_VER_RES_OK && g_c04_rl.rl.compared > 2) REACH("verdict OK after several compared pairs");
	if (result != NULL && res == KSI_OK && result->resultCode == KSI_VER_RES_FAIL && g_c04_rl.rl.unequal) REACH("verdict FAIL: unequal right link");
	if (result != NULL && res == KSI_OK && result->resultCode == KSI_VER_RES_FAIL && !g_c04_rl.rl.unequal) REACH("verdict FAIL: different number of right links");
	if (result != NULL && res != KSI_OK && c04_rl_setup_ok(info)) REACH("fetch error reported");
	if (result != NULL && res == KSI_INVALID_ARGUMENT) REACH("invalid argument reported");
}
#endif
