/* C04 / CAL-04: getNextLink and KSI_VerificationRule_ExtendedSignatureCalendarChainRightLinksMatch.
 *   -DH_getNextLink    the iteration helper, contract enforced, loop closed by an invariant (every list length)
 *   -DH_rightLinks     the rule with the real helper inlined, PLAIN mode (no dfcc), both loops unwound:
 *                      bounded(links of either chain <= C04_RL_BOUND).  The rule's loop is `for (;;)`: CBMC 6.11 drops a
 *                      loop contract on a loop without a guard silently, and dfcc + unwinding ran out of memory (12 GB),
 *                      so the postcondition of contracts/verification_rule_c04_rightlinks.h is asserted by the harness. */
#define C04_RIGHTLINKS 1
#include "obligations/C04/c04_prelude.h"
#include "env/ghost_c04_world.h"
#include "env/ghost_c04_rightlinks.h"
#include "contracts/verification_rule_c04.h"
#include "contracts/verification_rule_c04_rightlinks.h"
#include "verification_rule.c"

KSI_RuleVerificationResult g_c04_result;

#ifdef H_getNextLink
void harness(void) {
	KSI_HashChainLinkList *list;
	KSI_HashChainLink *link = nondet_bool() ? &g_c04_rl_alink : NULL;
	size_t pos;
	int res, k = nondet_int();
	_Bool getRight = nondet_bool();
	c04_world_build();
	c04_rl_world_build();
	g_c04_rl_want_right = getRight;
	/* an arbitrary reachable state of the two cursors */
	g_c04_rl.a_calls = nondet_size(); g_c04_rl.b_calls = nondet_size();
	g_c04_rl.rl.a_right = nondet_size(); g_c04_rl.rl.b_right = nondet_size(); g_c04_rl.rl.compared = nondet_size(); g_c04_rl.rl.unequal = nondet_bool();
	__CPROVER_assume(g_c04_rl.a_calls <= g_c04_rl_len_a && g_c04_rl.b_calls <= g_c04_rl_len_b);
	__CPROVER_assume(g_c04_rl.rl.a_right <= g_c04_rl.a_calls && g_c04_rl.rl.b_right <= g_c04_rl.b_calls);   /* machine counts fetched links only */
	list = k == 0 ? NULL : (k == 1 ? &g_c04_sigLinks : &g_c04_extLinks);
	pos = list == NULL ? nondet_size() : (list == &g_c04_sigLinks ? g_c04_rl.a_calls : g_c04_rl.b_calls);
	res = getNextLink(list, getRight, &pos, &link);
	REACH("helper returns");
	if (res == KSI_OK && link != NULL) REACH("link found");
	if (res == KSI_OK && link != NULL && list == &g_c04_extLinks && g_c04_rl.b_calls > 3) REACH("link found in chain B after several fetches");
	if (res == KSI_OK && link == NULL && list != NULL) REACH("list exhausted");
	if (res != KSI_OK && list != NULL) REACH("fetch failed");
}
#endif

#ifdef H_rightLinks
#ifndef C04_RL_BOUND
#define C04_RL_BOUND 4
#endif
void harness(void) {
	KSI_VerificationContext *info;
	KSI_RuleVerificationResult *result;
	static struct KSI_Signature_st sig0; struct KSI_CalendarHashChain_st sigCal0, extCal0; struct KSI_VerificationContext_st info0; VerificationTempData td0;
	int res;
	c04_world_build();
	c04_rl_world_build();
	g_c04_rl_want_right = 1;
	__CPROVER_assume(g_c04_rl_len_a <= C04_RL_BOUND && g_c04_rl_len_b <= C04_RL_BOUND);     /* stated bound */
	__CPROVER_assume(c04_wf_times() && c04_wf_hashes());
	info = nondet_bool() ? &g_c04_info : NULL;
	result = nondet_bool() ? &g_c04_result : NULL;
	g_c04_result.resultCode = KSI_VER_RES_NA;
	g_c04_result.errorCode = KSI_VER_ERR_GEN_2;
	g_c04_result.status = KSI_OK;
	sig0.calendarChain = g_c04_sig.calendarChain; sig0.aggregationChainList = g_c04_sig.aggregationChainList; sig0.calendarAuthRec = g_c04_sig.calendarAuthRec; sig0.publication = g_c04_sig.publication;
	sigCal0 = g_c04_sigCal; extCal0 = g_c04_extCal; info0 = g_c04_info; td0 = g_c04_td;

	res = KSI_VerificationRule_ExtendedSignatureCalendarChainRightLinksMatch(info, result);

	/* the postcondition of the contract (C04_VERDICT + witness), asserted */
	if (result == NULL) __CPROVER_assert(res == KSI_INVALID_ARGUMENT, "CAL-04 postcondition: no result object => KSI_INVALID_ARGUMENT");
	else {
		__CPROVER_assert(spec_c04_verdict_matches(c04_case_ExtendedSignatureCalendarChainRightLinksMatch(info), SPEC_C04_CAL_4, res, result->resultCode, result->errorCode),
			"CAL-04 postcondition: OK <=> same number of right links, pairwise equal; otherwise FAIL CAL-04; not evaluable => NA");
		__CPROVER_assert(IMPLIES(res == KSI_OK && result->resultCode == KSI_VER_RES_FAIL, c04_rl_mismatch_witnessed()), "CAL-04 postcondition: FAIL only on a difference actually seen");
		__CPROVER_assert(IMPLIES(!C04_ARGS_OK(info), res == KSI_INVALID_ARGUMENT), "CAL-04 postcondition: invalid context reported");
	}
	__CPROVER_assert(c04_resources_balanced(), "CAL-04 postcondition: nothing leaked or released");
	/* frame: signature, chains, context and tempData untouched */
	__CPROVER_assert(sig0.calendarChain == g_c04_sig.calendarChain && sig0.aggregationChainList == g_c04_sig.aggregationChainList
		&& sig0.calendarAuthRec == g_c04_sig.calendarAuthRec && sig0.publication == g_c04_sig.publication
		&& sigCal0.publicationTime == g_c04_sigCal.publicationTime && sigCal0.aggregationTime == g_c04_sigCal.aggregationTime && sigCal0.inputHash == g_c04_sigCal.inputHash
		&& sigCal0.outputHash == g_c04_sigCal.outputHash && sigCal0.hashChain == g_c04_sigCal.hashChain
		&& extCal0.publicationTime == g_c04_extCal.publicationTime && extCal0.aggregationTime == g_c04_extCal.aggregationTime && extCal0.inputHash == g_c04_extCal.inputHash
		&& extCal0.outputHash == g_c04_extCal.outputHash && extCal0.hashChain == g_c04_extCal.hashChain
		&& info0.signature == g_c04_info.signature && info0.tempData == g_c04_info.tempData && info0.userPublication == g_c04_info.userPublication
		&& info0.userPublicationsFile == g_c04_info.userPublicationsFile && info0.extendingAllowed == g_c04_info.extendingAllowed
		&& td0.calendarChain == g_c04_td.calendarChain && td0.publicationsFile == g_c04_td.publicationsFile && td0.aggregationOutputHash == g_c04_td.aggregationOutputHash,
		"CAL-04 frame: signature, chains, context and tempData are not modified");

	REACH("rule returns");
	if (result != NULL && res == KSI_OK && result->resultCode == KSI_VER_RES_OK) REACH("verdict OK");
	if (result != NULL && res == KSI_OK && result->resultCode == KSI_VER_RES_OK && g_c04_rl.rl.compared >= 2 && g_c04_rl_len_b > g_c04_rl_len_a) REACH("verdict OK after several compared pairs, chains of different length");
	if (result != NULL && res == KSI_OK && result->resultCode == KSI_VER_RES_FAIL && g_c04_rl.rl.unequal) REACH("verdict FAIL: unequal right link");
	if (result != NULL && res == KSI_OK && result->resultCode == KSI_VER_RES_FAIL && !g_c04_rl.rl.unequal && g_c04_rl.a_calls == g_c04_rl_len_a) REACH("verdict FAIL: extender chain has more right links");
	if (result != NULL && res == KSI_OK && result->resultCode == KSI_VER_RES_FAIL && !g_c04_rl.rl.unequal && g_c04_rl.b_calls == g_c04_rl_len_b) REACH("verdict FAIL: signature chain has more right links");
	if (result != NULL && res != KSI_OK && c04_rl_setup_ok(info)) REACH("fetch error reported");
	if (result != NULL && res == KSI_INVALID_ARGUMENT) REACH("invalid argument reported");
}
#endif
