/* C04 (and C01 INT-16) lifted: the static helper calendarChainAggrAlgorithmState for calendar chains of EVERY length (builderV).
 *   -DH_lift_ccs [-DLIFT_DEP=1|0]   the helper, contract enforced (dfcc); inspector = wasDeprecatedAt (LIFT_DEP=1, C04) or
 *                                   wasObsoleteAt (LIFT_DEP=0, C01 INT-16); getNextLink replaced; for(;;) loop closed by the
 *                                   loop contract of contracts/verification_rule_c01_cal16.loops.json
 *   -DH_lift_ccs_getNextLink        getNextLink against the contract of contracts/verification_rule_c01_cal16.h under the same
 *                                   parametrised monitor (both values of g_lift_dep)
 * World / monitor: env/ghost_vrule_cal16.h, unmodified; its verdict predicate `spec_alg_obsolete_rule_fails` is re-pointed to
 * lift_alg_pred() below (a macro around the #include), so that the SAME monitor judges "deprecated or obsolete" when
 * g_lift_dep is set and "obsolete" otherwise.  The bounded stand-in C04.orch_calendarChainAggrAlgorithmState_b4 stays.
 * Real files included unmodified: types_base.c, hashchain.c (getters), signature.c, verification_rule.c (whole). */
#include "env/common.h"
#include "env/stubs_base.h"
#include "types_base.c"
#include "spec/vercodes.h"
_Bool g_lift_dep;                 /* 1: the inspector under test is wasDeprecatedAt, 0: wasObsoleteAt (fixed by the harness) */
bool g_lift_st;                   /* the caller's answer variable */
static int lift_alg_pred(int status_at) { return g_lift_dep ? spec_alg_rule_fails(status_at) : spec_alg_obsolete_rule_fails(status_at); }
#define spec_alg_obsolete_rule_fails(s) lift_alg_pred(s)
#include "env/ghost_vrule_cal16.h"
#include "hashchain.c"
#include "signature.c"
#include "contracts/verification_rule_c01_cal16.h"
#include "contracts/verification_rule_c04_lift_ccs.h"
#include "verification_rule.c"

#ifdef H_lift_ccs
void harness(void) {
	const KSI_CalendarHashChain *chain; KSI_CTX *ctx; bool *status; bool st0; lift_inspector_fn insp; int res;
	__CPROVER_assert(VR_H_LINK == 9, "slot number used in the loop contracts");
	g16_world_init();
#ifdef LIFT_DEP
	g_lift_dep = LIFT_DEP;
#else
	g_lift_dep = nondet_bool();
#endif
	ctx = VR_OPT(VR_CTX); chain = VR_OPT(&g_vr_cal); status = VR_OPT(&g_lift_st);
	insp = nondet_bool() ? (lift_inspector_fn)0 : (g_lift_dep ? wasDeprecatedAt : wasObsoleteAt);
	g_lift_st = nondet_bool(); st0 = g_lift_st;
	res = calendarChainAggrAlgorithmState(ctx, chain, insp, status);
	REACH("returned");
	if (res == KSI_OK && g_lift_st) REACH("true: a left link's algorithm fails the inspector");
	if (res == KSI_OK && g_lift_st && g16.calls > 4) REACH("true at a link beyond the fourth");
	if (res == KSI_OK && !g_lift_st && status != NULL) REACH("false: whole chain read");
	if (res == KSI_OK && !g_lift_st && status != NULL && g16.calls > 4) REACH("false for a chain of more than four links");
	if (res == KSI_OK && !g_lift_st && status != NULL && g16_len == 0) REACH("false for the empty chain");
	if (res != KSI_OK && g16.na) REACH("left link without sibling hash: error");
	if (res != KSI_OK && g16.na && g16.calls > 4) REACH("left link without sibling hash beyond the fourth link");
	if (res == KSI_INVALID_ARGUMENT && g16.calls == 0) REACH("refused");
	/* (audit builderY, dfcc __invalid_ptr sharing) outcomes of the replaced getNextLink at a LATER loop iteration than the first */
	if (res == KSI_OK && !g_lift_st && status != NULL && g16.lefts >= 1) REACH("false after one or more left links (list exhausted at a later iteration)");
	if (res != KSI_OK && g16.na && g16.lefts >= 2) REACH("a later left link without sibling hash: error");
	if (res == KSI_OK && g_lift_st && g16.lefts >= 2) REACH("true at a later left link");
}
#endif
#ifdef H_lift_ccs_getNextLink
void harness(void) {
	KSI_HashChainLinkList *list; size_t pos; KSI_HashChainLink *link = NULL; int res;
	g16_world_init();
	g_lift_dep = nondet_bool();
	list = VR_OPT(&g16_list); link = VR_OPT(&g16_link);
	g16.calls = nondet_size(); pos = g16.calls;
	res = getNextLink(list, 0, &pos, &link);
	REACH("returned");
	if (res == KSI_OK && link != NULL) REACH("left link found");
	if (res == KSI_OK && link != NULL && pos > 3) REACH("left link found after skipping");
	if (res == KSI_OK && link != NULL && g16.fail && g_lift_dep) REACH("found link fails the deprecated-or-obsolete predicate");
	if (res == KSI_OK && link == NULL && list != NULL) REACH("exhausted");
}
#endif
