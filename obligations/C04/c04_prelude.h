/* C04: common prelude of the harness TUs - headers and the REAL source files whose getters the rules use.
 * Functions that env/ghost_c04_world.h replaces are renamed while their file is included (the file itself is unmodified). */
#ifndef C04_PRELUDE_H
#define C04_PRELUDE_H
#include "env/common.h"
#include "env/stubs_base.h"
#include "hashchain.h"
#include "net.h"
#include "pkitruststore.h"
#include "policy.h"
#include "tlv.h"
#include "verification.h"
#include "verification_rule.h"
#include "impl/ctx_impl.h"
#include "impl/hash_impl.h"
#include "impl/hashchain_impl.h"
#include "impl/policy_impl.h"
#include "impl/publicationsfile_impl.h"
#include "impl/signature_impl.h"
#include "impl/verification_impl.h"
struct KSI_Integer_st;
#include "types_base.c"

void c04_unused_KSI_CalendarHashChain_free(KSI_CalendarHashChain *t);
#define KSI_CalendarHashChain_aggregate c04_unused_KSI_CalendarHashChain_aggregate
#define KSI_CalendarHashChain_free c04_unused_KSI_CalendarHashChain_free
#define KSI_AggregationHashChainList_aggregate c04_unused_KSI_AggregationHashChainList_aggregate
#include "hashchain.c"
#undef KSI_CalendarHashChain_aggregate
#undef KSI_CalendarHashChain_free
#undef KSI_AggregationHashChainList_aggregate

void c04_unused_PublicationRecord_free(KSI_PublicationRecord *t);
void c04_unused_PublicationsFile_free(KSI_PublicationsFile *t);
#define KSI_PublicationsFile_getNearestPublication c04_unused_getNearestPublication
#define KSI_PublicationsFile_findPublicationByTime c04_unused_findPublicationByTime
#define KSI_PublicationsFile_findPublication c04_unused_findPublication
#define KSI_PublicationsFile_getPKICertificateById c04_unused_getPKICertificateById
#define KSI_PublicationsFile_ref c04_unused_PublicationsFile_ref
#define KSI_PublicationsFile_free c04_unused_PublicationsFile_free
#define KSI_PublicationRecord_free c04_unused_PublicationRecord_free
#include "publicationsfile.c"
#undef KSI_PublicationsFile_getNearestPublication
#undef KSI_PublicationsFile_findPublicationByTime
#undef KSI_PublicationsFile_findPublication
#undef KSI_PublicationsFile_getPKICertificateById
#undef KSI_PublicationsFile_ref
#undef KSI_PublicationsFile_free
#undef KSI_PublicationRecord_free

#ifndef C04_NO_TYPES_C
void c04_unused_ExtendReq_free(KSI_ExtendReq *t);
void c04_unused_ExtendResp_free(KSI_ExtendResp *t);
#define KSI_ExtendReq_free c04_unused_ExtendReq_free
#define KSI_ExtendResp_free c04_unused_ExtendResp_free
#include "types.c"
#undef KSI_ExtendReq_free
#undef KSI_ExtendResp_free
#endif
#define KSI_createExtendRequest c04_unused_KSI_createExtendRequest
#include "signature.c"
#undef KSI_createExtendRequest
#endif
