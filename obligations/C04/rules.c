/* C04: trust-anchor rules of verification_rule.c.  One job per rule: -DC04_RULE=<function> [-DC04_HAS_FAIL].
 * Real files, included whole and unmodified: types_base.c (KSI_Integer, octet/utf8 strings), hashchain.c (getters),
 * publicationsfile.c (publication data getters), types.c (PKI signed data getters), signature.c (KSI_Signature_getSigningTime),
 * verification_rule.c (the rules and their static helpers).  Functions of those files that the environment of
 * env/ghost_c04_world.h replaces (hashing, look-ups, reference counting) are compiled under another name: the real
 * body stays in the translation unit but is not called. */
#include "obligations/C04/c04_prelude.h"
#include "env/ghost_c04_world.h"
#include "contracts/verification_rule_c04.h"
#include "verification_rule.c"

KSI_RuleVerificationResult g_c04_result;

void harness(void) {
	KSI_VerificationContext *info;
	KSI_RuleVerificationResult *result;
	int res;
	/* the numeric codes of spec/c04_codes.h are those of policy.h */
	__CPROVER_assert(KSI_VER_RES_OK == SPEC_C04_RES_OK && KSI_VER_RES_NA == SPEC_C04_RES_NA && KSI_VER_RES_FAIL == SPEC_C04_RES_FAIL
		&& KSI_VER_ERR_NONE == SPEC_C04_ERR_NONE && KSI_VER_ERR_GEN_2 == SPEC_C04_GEN_2
		&& KSI_VER_ERR_PUB_1 == SPEC_C04_PUB_1 && KSI_VER_ERR_PUB_2 == SPEC_C04_PUB_2 && KSI_VER_ERR_PUB_3 == SPEC_C04_PUB_3
		&& KSI_VER_ERR_PUB_4 == SPEC_C04_PUB_4 && KSI_VER_ERR_PUB_5 == SPEC_C04_PUB_5
		&& KSI_VER_ERR_KEY_2 == SPEC_C04_KEY_2 && KSI_VER_ERR_KEY_3 == SPEC_C04_KEY_3
		&& KSI_VER_ERR_CAL_1 == SPEC_C04_CAL_1 && KSI_VER_ERR_CAL_2 == SPEC_C04_CAL_2 && KSI_VER_ERR_CAL_3 == SPEC_C04_CAL_3
		&& KSI_VER_ERR_CAL_4 == SPEC_C04_CAL_4 && KSI_OK == 0, "spec/c04_codes.h agrees with the code table of policy.h");
	c04_world_build();
	info = nondet_bool() ? &g_c04_info : NULL;
	result = nondet_bool() ? &g_c04_result : NULL;
	g_c04_result.resultCode = KSI_VER_RES_NA;
	g_c04_result.errorCode = KSI_VER_ERR_GEN_2;
	g_c04_result.status = KSI_OK;
	g_c04_result.stepsPerformed = nondet_size(); g_c04_result.stepsSuccessful = nondet_size(); g_c04_result.stepsFailed = nondet_size();

	res = C04_RULE(info, result);

	REACH("rule returns");
	if (result != NULL && res == KSI_OK && result->resultCode == KSI_VER_RES_OK) REACH("verdict OK");
	if (result != NULL && result->resultCode == KSI_VER_RES_NA && C04_ARGS_OK(info)) REACH("verdict NA");
	if (result != NULL && res == KSI_INVALID_ARGUMENT) REACH("invalid argument reported");
#ifdef C04_HAS_ERR
	if (result != NULL && res != KSI_OK && res != KSI_INVALID_ARGUMENT) REACH("other error status");
#endif
#ifdef C04_HAS_FAIL
	if (result != NULL && res == KSI_OK && result->resultCode == KSI_VER_RES_FAIL) REACH("verdict FAIL");
#endif
}
