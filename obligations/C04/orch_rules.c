/* C04 (builderP): the *HashAlgorithmDeprecatedAtPubTime rules of verification_rule.c.
 *   -DPO_RULE=<rule>   contract mode: the rule is enforced, calendarChainAggrAlgorithmState is REPLACED by its contract
 *                      (contracts/verification_rule_c04_orch.h); loop-free, every object of the world arbitrary.
 *   -DH_ccs            plain mode, bounded: the real calendarChainAggrAlgorithmState + getNextLink + wasDeprecatedAt over a
 *                      concrete link model of at most PO_MAX_LINKS links per chain; the harness computes the facts the
 *                      contract talks about (g_po_ccs_res / g_po_ccs_truth) from the model and asserts the contract's
 *                      postcondition text (PO_CCS_POST).  The helper's loop is `for (;;)`: CBMC 6.11 drops loop contracts on
 *                      loops without a guard, hence unwinding (see obligations/C04/NOTES.md, machinery notes).
 * Real files, whole and unmodified: those of obligations/C04/c04_prelude.h + verification_rule.c. */
#include "obligations/C04/c04_prelude.h"
#include "env/ghost_c04_world.h"
#include "env/ghost_c04_orch.h"
#include "contracts/verification_rule_c04.h"
#pragma CPROVER check push
#pragma CPROVER check disable "pointer"
#pragma CPROVER check disable "pointer-primitive"
#include "contracts/verification_rule_c04_orch.h"
#pragma CPROVER check pop
#include "verification_rule.c"

KSI_RuleVerificationResult g_c04_result;

#ifdef PO_RULE
void harness(void) {
	KSI_VerificationContext *info;
	KSI_RuleVerificationResult *result;
	int res;
	__CPROVER_assert(KSI_VER_RES_OK == SPEC_C04_RES_OK && KSI_VER_RES_NA == SPEC_C04_RES_NA && KSI_VER_RES_FAIL == SPEC_C04_RES_FAIL
		&& KSI_VER_ERR_NONE == SPEC_C04_ERR_NONE && KSI_VER_ERR_GEN_2 == SPEC_C04_GEN_2 && KSI_OK == 0, "spec/c04_codes.h agrees with the code table of policy.h");
	c04_world_build();
	g_po_ccs_res[0] = c04_any_status(); g_po_ccs_res[1] = c04_any_status();
	g_po_ccs_truth[0] = nondet_bool(); g_po_ccs_truth[1] = nondet_bool();
	g_po_ccs.calls = 0; g_po_ccs.chain = NULL; g_po_ccs.dep_inspector = 0;
	info = nondet_bool() ? &g_c04_info : NULL;
	result = nondet_bool() ? &g_c04_result : NULL;
	g_c04_result.resultCode = KSI_VER_RES_NA;
	g_c04_result.errorCode = KSI_VER_ERR_GEN_2;
	g_c04_result.status = KSI_OK;
	g_c04_result.stepsPerformed = nondet_size(); g_c04_result.stepsSuccessful = nondet_size(); g_c04_result.stepsFailed = nondet_size();

	res = PO_RULE(info, result);

	REACH("rule returns");
	if (result != NULL && res == KSI_OK && result->resultCode == KSI_VER_RES_OK) REACH("verdict OK: no algorithm deprecated");
	if (result != NULL && res == KSI_OK && result->resultCode == KSI_VER_RES_NA && g_po_ccs.calls == 1) REACH("verdict NA: an algorithm was deprecated at the publication time");
	if (result != NULL && res != KSI_OK && res != KSI_INVALID_ARGUMENT && g_po_ccs.calls == 1) REACH("chain not readable: error status, NA");
	if (result != NULL && res == KSI_INVALID_ARGUMENT) REACH("invalid argument reported");
}
#endif

#ifdef H_ccs
void harness(void) {
	const KSI_CalendarHashChain *chain; KSI_CTX *ctx = nondet_bool() ? &g_c04_ctx : NULL;
	bool st, st0, *status; bool (*insp)(KSI_HashAlgorithm, time_t);
	int res, c, k, hk;
	_Bool done;
	c04_world_build();
	/* concrete link model: both chains, <= PO_MAX_LINKS links, arbitrary direction, sibling hash present or not, arbitrary algorithm ids */
	g_c04_sigLinks.length = po_list_length; g_c04_sigLinks.elementAt = po_list_elementAt;
	g_c04_extLinks.length = po_list_length; g_c04_extLinks.elementAt = po_list_elementAt;
	for (hk = 0; hk < C04_NH; hk++) po_halg[hk] = nondet_uchar() & 3;
	for (k = 0; k < 4; k++) po_alg_status[k] = nondet_int() & 3;
	for (c = 0; c < 2; c++) {
		po_len[c] = nondet_size(); __CPROVER_assume(po_len[c] <= PO_MAX_LINKS);      /* stated bound */
		po_fail_at[c] = nondet_size(); po_fail_status[c] = nondet_int(); __CPROVER_assume(po_fail_status[c] != KSI_OK);
		for (k = 0; k < PO_MAX_LINKS; k++) {
			size_t h = nondet_size() % C04_NH;
			po_link[c][k].ctx = &g_c04_ctx; po_link[c][k].isLeft = nondet_int(); po_link[c][k].imprint = nondet_bool() ? C04_H(h) : NULL;
			po_link[c][k].levelCorrection = NULL; po_link[c][k].legacyId = NULL; po_link[c][k].metaData = NULL;
		}
	}
	/* the facts, computed from the model: links are inspected in list order; the first LEFT link whose sibling algorithm is
	 * deprecated / obsolete decides "true"; a fetch error or a left link without sibling hash before that makes the state unreadable */
	for (c = 0; c < 2; c++) {
		const KSI_CalendarHashChain *ch = c == 0 ? &g_c04_sigCal : &g_c04_extCal;
		g_po_ccs_res[c] = KSI_OK; g_po_ccs_truth[c] = 0; done = 0;
		if (ch->hashChain == NULL) { g_po_ccs_res[c] = KSI_INVALID_ARGUMENT; done = 1; }
		for (k = 0; k < PO_MAX_LINKS; k++) if (!done && (size_t)k < po_len[c]) {
			if ((size_t)k == po_fail_at[c]) { g_po_ccs_res[c] = po_fail_status[c]; done = 1; }
			else if (po_link[c][k].isLeft) {
				if (po_link[c][k].imprint == NULL) { g_po_ccs_res[c] = KSI_INVALID_ARGUMENT; done = 1; }
				else if (spec_alg_rule_fails(po_alg_status[po_halg[po_link[c][k].imprint - g_c04_h]])) { g_po_ccs_truth[c] = 1; done = 1; }
			}
		}
	}
	k = nondet_int();
	chain = k == 0 ? NULL : (k == 1 ? &g_c04_sigCal : &g_c04_extCal);
	po_asked_chain = chain;
	insp = nondet_bool() ? wasDeprecatedAt : NULL;
	st = nondet_bool(); st0 = st; status = nondet_bool() ? &st : NULL;

	res = calendarChainAggrAlgorithmState(ctx, chain, insp, status);

	__CPROVER_assert(PO_CCS_POST(res, chain, insp, status, st0), "calendarChainAggrAlgorithmState postcondition: status and answer are the facts about THIS chain (deprecated <=> some left link's sibling algorithm deprecated or obsolete at the publication time)");
	REACH("helper returns");
	if (res == KSI_OK && st && chain != NULL && po_len[PO_CHAIN_IDX(chain)] == PO_MAX_LINKS && po_link[PO_CHAIN_IDX(chain)][0].isLeft && po_link[PO_CHAIN_IDX(chain)][0].imprint == C04_H(0)
		&& !spec_alg_rule_fails(po_alg_status[po_halg[0]])) REACH("deprecated algorithm found at a later left link");
	if (res == KSI_OK && !st && chain != NULL && po_len[PO_CHAIN_IDX(chain)] == PO_MAX_LINKS) REACH("no deprecated algorithm in a chain of maximal length");
	if (res == KSI_OK && !st && chain != NULL && po_len[PO_CHAIN_IDX(chain)] == 0) REACH("empty chain: nothing deprecated");
	if (res != KSI_OK && PO_CCS_ARGS_OK(chain, insp, status)) REACH("unreadable chain reported");
}
#endif
