/* C04 / CAL-04 lifted to every chain length (builderV):
 *   -DH_lift_rule         KSI_VerificationRule_ExtendedSignatureCalendarChainRightLinksMatch, contract enforced (dfcc), getNextLink
 *                         replaced by its contract, the rule's for(;;) loop closed by a loop contract from
 *                         contracts/verification_rule_c04_rightlinks_lift.loops.json
 *   -DH_lift_getNextLink  the helper with the strengthened contract of contracts/verification_rule_c04_rightlinks_lift.h
 * Same world, reference machine and real files as obligations/C04/rightlinks.c (bounded stand-in, kept). */
#define C04_RIGHTLINKS 1
#include "obligations/C04/c04_prelude.h"
#include "env/ghost_c04_world.h"
#include "env/ghost_c04_rightlinks.h"
#include "contracts/verification_rule_c04.h"
#include "contracts/verification_rule_c04_rightlinks_lift.h"
#include "verification_rule.c"

KSI_RuleVerificationResult g_c04_result;
/* typed ghost pointers for the loop contract (typedef casts do not parse in JSON predicates) */
KSI_HashChainLinkList *g_c04_lift_listA, *g_c04_lift_listB;

#ifdef H_lift_getNextLink
void harness(void) {
	KSI_HashChainLinkList *list;
	KSI_HashChainLink *link = nondet_bool() ? &g_c04_rl_alink : NULL;
	size_t pos;
	int res, k = nondet_int();
	_Bool getRight = nondet_bool();
	c04_world_build();
	c04_rl_world_build();
	g_c04_rl_want_right = getRight;
	/* an arbitrary reachable state of the two cursors */
	g_c04_rl.a_calls = nondet_size(); g_c04_rl.b_calls = nondet_size();
	g_c04_rl.rl.a_right = nondet_size(); g_c04_rl.rl.b_right = nondet_size(); g_c04_rl.rl.compared = nondet_size(); g_c04_rl.rl.unequal = nondet_bool();
	g_c04_rl.a_last_wanted = nondet_bool(); g_c04_rl.b_last_wanted = nondet_bool();
	__CPROVER_assume(g_c04_rl.a_calls <= g_c04_rl_len_a && g_c04_rl.b_calls <= g_c04_rl_len_b);
	__CPROVER_assume(g_c04_rl.rl.a_right <= g_c04_rl.a_calls && g_c04_rl.rl.b_right <= g_c04_rl.b_calls);   /* machine counts fetched links only */
	list = k == 0 ? NULL : (k == 1 ? &g_c04_sigLinks : &g_c04_extLinks);
	pos = list == NULL ? nondet_size() : (list == &g_c04_sigLinks ? g_c04_rl.a_calls : g_c04_rl.b_calls);
	res = getNextLink(list, getRight, &pos, &link);
	REACH("helper returns");
	if (res == KSI_OK && link != NULL) REACH("link found");
	if (res == KSI_OK && link != NULL && list == &g_c04_extLinks && g_c04_rl.b_calls > 3) REACH("link found in chain B after several fetches");
	if (res == KSI_OK && link == NULL && list != NULL) REACH("list exhausted");
	if (res != KSI_OK && list != NULL) REACH("fetch failed");
}
#endif

#ifdef H_lift_rule
void harness(void) {
	KSI_VerificationContext *info;
	KSI_RuleVerificationResult *result;
	int res;
	__CPROVER_assert(C04_H_LINK_A == 9 && C04_H_LINK_B == 10 && KSI_VER_RES_NA == 1 && KSI_VER_ERR_GEN_2 == 0x102 && KSI_OK == 0,
		"numeric constants used in the loop contract");
	c04_world_build();
	c04_rl_world_build();
	g_c04_rl_want_right = 1;
	g_c04_lift_listA = &g_c04_sigLinks; g_c04_lift_listB = &g_c04_extLinks;
	info = nondet_bool() ? &g_c04_info : NULL;
	result = nondet_bool() ? &g_c04_result : NULL;
	g_c04_result.resultCode = KSI_VER_RES_NA;
	g_c04_result.errorCode = KSI_VER_ERR_GEN_2;
	g_c04_result.status = KSI_OK;
	g_c04_result.stepsPerformed = nondet_size(); g_c04_result.stepsSuccessful = nondet_size(); g_c04_result.stepsFailed = nondet_size();

	res = KSI_VerificationRule_ExtendedSignatureCalendarChainRightLinksMatch(info, result);

	REACH("rule returns");
	if (result != NULL && res == KSI_OK && result->resultCode == KSI_VER_RES_OK) REACH("verdict OK");
	if (result != NULL && res == KSI_OK && result->resultCode == KSI_VER_RES_OK && g_c04_rl.rl.compared > 4 && g_c04_rl_len_b > g_c04_rl_len_a + 4) REACH("verdict OK after more than four compared pairs, chains of different length");
	if (result != NULL && res == KSI_OK && result->resultCode == KSI_VER_RES_FAIL && g_c04_rl.rl.unequal) REACH("verdict FAIL: unequal right link");
	if (result != NULL && res == KSI_OK && result->resultCode == KSI_VER_RES_FAIL && g_c04_rl.rl.unequal && g_c04_rl.rl.compared > 5) REACH("verdict FAIL: unequal right link after more than five pairs");
	if (result != NULL && res == KSI_OK && result->resultCode == KSI_VER_RES_FAIL && !g_c04_rl.rl.unequal && g_c04_rl.a_calls == g_c04_rl_len_a) REACH("verdict FAIL: extender chain has more right links");
	if (result != NULL && res == KSI_OK && result->resultCode == KSI_VER_RES_FAIL && !g_c04_rl.rl.unequal && g_c04_rl.b_calls == g_c04_rl_len_b) REACH("verdict FAIL: signature chain has more right links");
	if (result != NULL && res != KSI_OK && c04_rl_setup_ok(info)) REACH("fetch error reported");
	if (result != NULL && res == KSI_INVALID_ARGUMENT) REACH("invalid argument reported");
	/* (audit builderY, dfcc __invalid_ptr sharing) outcomes of the replaced getNextLink at a LATER loop iteration than the first: NULL after non-NULL, failure after success */
	if (result != NULL && res == KSI_OK && result->resultCode == KSI_VER_RES_OK && g_c04_rl.rl.compared >= 1) REACH("verdict OK after one or more pairs (both lists exhausted at a later iteration)");
	if (result != NULL && res == KSI_OK && result->resultCode == KSI_VER_RES_FAIL && !g_c04_rl.rl.unequal && g_c04_rl.a_calls == g_c04_rl_len_a && g_c04_rl.rl.compared >= 1) REACH("verdict FAIL: extender chain has more right links, after one or more pairs");
	if (result != NULL && res == KSI_OK && result->resultCode == KSI_VER_RES_FAIL && !g_c04_rl.rl.unequal && g_c04_rl.b_calls == g_c04_rl_len_b && g_c04_rl.rl.compared >= 1) REACH("verdict FAIL: signature chain has more right links, after one or more pairs");
	if (result != NULL && res != KSI_OK && g_c04_rl.a_err && g_c04_rl.rl.compared >= 1) REACH("fetch error in the signature chain after one or more pairs");
	if (result != NULL && res != KSI_OK && g_c04_rl.b_err && g_c04_rl.rl.compared >= 1) REACH("fetch error in the extender chain after one or more pairs");
}
#endif
