/* C02 rule level: the document-hash / input-level rules of verification_rule.c against the property text.
 * Real files included unmodified: types_base.c (KSI_Integer), hashchain.c + signature.c (getters,
 * KSI_Signature_getDocumentHash), verification_rule.c (whole). */
#include "env/common.h"
#include "env/stubs_base.h"
#include "types_base.c"
#include "env/ghost_vrule.h"
#include "hashchain.c"
#include "signature.c"
#include "contracts/verification_rule_c02.h"
#include "verification_rule.c"

#define VR_CALL(RULE) \
	KSI_VerificationContext *info; KSI_RuleVerificationResult *result; int res; \
	vr_world_init(); \
	info = VR_OPT(&g_vr_info); result = VR_OPT(&g_vr_res); \
	res = RULE(info, result); \
	REACH("returned"); \
	if (res == KSI_OK && result != NULL && result->resultCode == KSI_VER_RES_OK) REACH("verdict OK"); \
	if (result != NULL && result->resultCode == KSI_VER_RES_NA) REACH("verdict NA / error status");
/* the REACH does not look at the error code: a wrong code must show up as a failed postcondition (exit 1), not as an unreachable REACH (exit 2) */
#define VR_REACH_FAIL(code, msg) if (res == KSI_OK && result != NULL && result->resultCode == KSI_VER_RES_FAIL) REACH(msg);

#ifdef H_doc_absent
void harness(void) { VR_CALL(KSI_VerificationRule_DocumentHashDoesNotExist) }
#endif
#ifdef H_doc_present
void harness(void) { VR_CALL(KSI_VerificationRule_DocumentHashExistence) }
#endif
#ifdef H_doc_alg
void harness(void) { VR_CALL(KSI_VerificationRule_InputHashAlgorithmVerification) VR_REACH_FAIL(KSI_VER_ERR_GEN_4, "FAIL GEN-04")
	if (res == KSI_OK && result->resultCode == KSI_VER_RES_OK && g_vr_sig.rfc3161 != NULL) REACH("OK against the RFC3161 input hash"); }
#endif
#ifdef H_doc_hash
void harness(void) { VR_CALL(KSI_VerificationRule_DocumentHashVerification) VR_REACH_FAIL(KSI_VER_ERR_GEN_1, "FAIL GEN-01")
	if (res == KSI_OK && result->resultCode == KSI_VER_RES_OK && g_vr_sig.rfc3161 != NULL) REACH("OK against the RFC3161 input hash");
	if (res == KSI_OK && result->resultCode == KSI_VER_RES_OK && info->documentHash != vr_signed_hash(&g_vr_sig)) REACH("OK for an equal hash in another object"); }
#endif
#ifdef H_level
void harness(void) { VR_CALL(KSI_VerificationRule_AggregationChainInputLevelVerification) VR_REACH_FAIL(KSI_VER_ERR_GEN_3, "FAIL GEN-03")
	if (res == KSI_INVALID_VERIFICATION_INPUT) REACH("level above 0xff refused");
	if (res == KSI_OK && result->resultCode == KSI_VER_RES_OK && info->docAggrLevel == 0xff) REACH("OK at level 255"); }
#endif
