/* C02 (builderP): the convenience entry points above KSI_Signature_verifyWithPolicy - the caller's document hash / document and
 * level are exactly what the verification context gets, verdict and error pass through unchanged.
 *   -DH_verifyDocument / H_createDataHasher / H_getHashAlgorithm   signature_helper.c (whole, unmodified); the REAL
 *        KSI_Signature_verifyWithPolicy runs underneath, so the postconditions talk about what the VERIFIER is handed
 *   -DH_verifyDataHash / H_verifySignature                          base.c (whole, unmodified), KSI_Signature_verifyWithPolicy = recording stub
 *        (its real body: C02.sighelper_verifyWithPolicy)
 * Loop-free functions, plain mode: postconditions asserted after one call, every input symbolic. */
#include "env/common.h"
#include <stdlib.h>
#include "ksi.h"
#include "signature_helper.h"
#include "policy.h"
#include "impl/signature_impl.h"
#include "impl/verification_impl.h"
#include "impl/hash_impl.h"

static const struct KSI_Policy_st po_general_obj;
const KSI_Policy *KSI_VERIFICATION_POLICY_GENERAL = &po_general_obj;

/* ------------------------------------------------------------------------------------------------------------------- */
#if defined(H_verifyDataHash) || defined(H_verifySignature)
/* base.c whole and unmodified.  ASSUMED: pushing onto the error stack has no effect on the state observed here - base.c defines
 * KSI_ERR_push itself, so the stub is put behind the KSI_pushError macro of internal.h (already included, guard keeps this definition);
 * KSI_ERR_clearErrors runs as real code on a concrete context. */
static void po_pushError(KSI_CTX *ctx, int statusCode) { }
#undef KSI_pushError
#define KSI_pushError(ctx, statusCode, message) po_pushError((ctx), (statusCode))
#include "base.c"

/* ASSUMED here, real body under C02.sighelper_verifyWithPolicy: arbitrary status, arguments recorded */
static unsigned g_w_calls; static KSI_Signature *g_w_sig; static const KSI_DataHash *g_w_hash; static KSI_uint64_t g_w_level;
static const KSI_Policy *g_w_policy; static KSI_VerificationContext *g_w_ctx; static int g_w_res;
int KSI_Signature_verifyWithPolicy(KSI_Signature *sig, const KSI_DataHash *docHsh, KSI_uint64_t rootLevel, const KSI_Policy *policy, KSI_VerificationContext *verificationContext) {
	g_w_calls++; g_w_sig = sig; g_w_hash = docHsh; g_w_level = rootLevel; g_w_policy = policy; g_w_ctx = verificationContext;
	return g_w_res = nondet_int();
}

void harness(void) {
	static struct KSI_CTX_st ctx_obj; static struct KSI_Signature_st sig_obj; static struct KSI_DataHash_st hash_obj;
	KSI_CTX *ctx = nondet_bool() ? &ctx_obj : NULL; KSI_Signature *sig = nondet_bool() ? &sig_obj : NULL;
	const KSI_DataHash *hsh = nondet_bool() ? &hash_obj : NULL; int res; static KSI_ERR errs[4];
	ctx_obj.errors = errs; ctx_obj.errors_size = 4; ctx_obj.errors_count = nondet_uint() % 8;
	g_w_calls = 0;
#ifdef H_verifyDataHash
	res = KSI_verifyDataHash(ctx, sig, hsh);
#define PO_ARGS_OK (ctx != NULL && sig != NULL && hsh != NULL)
#define PO_EXPECT_HASH hsh
#else
	res = KSI_verifySignature(ctx, sig);
#define PO_ARGS_OK (ctx != NULL && sig != NULL)
#define PO_EXPECT_HASH NULL
#endif
	__CPROVER_assert(IMPLIES(!PO_ARGS_OK, res == KSI_INVALID_ARGUMENT && g_w_calls == 0), "a missing argument is refused, nothing is verified");
	__CPROVER_assert(IMPLIES(PO_ARGS_OK, g_w_calls == 1 && g_w_sig == sig && g_w_hash == PO_EXPECT_HASH && g_w_level == 0), "the caller's document hash (and level 0) reach KSI_Signature_verifyWithPolicy unchanged, for this signature");
	__CPROVER_assert(IMPLIES(PO_ARGS_OK, g_w_policy == KSI_VERIFICATION_POLICY_GENERAL && g_w_policy != NULL && g_w_ctx == NULL), "verified under the general policy with a fresh context");
	__CPROVER_assert(IMPLIES(PO_ARGS_OK, res == g_w_res), "verdict / error status passed through unchanged");
	__CPROVER_assert(IFF(res == KSI_OK, PO_ARGS_OK && g_w_res == KSI_OK), "success exactly when the verification succeeded");
	REACH("returned"); if (res == KSI_OK) REACH("verified"); if (PO_ARGS_OK && res == KSI_VERIFICATION_FAILURE) REACH("verification failure passed through");
}
#endif

/* ------------------------------------------------------------------------------------------------------------------- */
#if defined(H_verifyDocument) || defined(H_createDataHasher) || defined(H_getHashAlgorithm)
#include "env/stubs_base.h"
/* the world: the signature's input hash (RFC3161 input hash for legacy signatures - C02.doc_alg checks that choice on the real
 * KSI_Signature_getDocumentHash), the hash made from the document, a hasher */
static struct KSI_DataHash_st po_inhash, po_dochash; static struct KSI_DataHasher_st po_hasher;
static int g_in_alg;                                   /* algorithm id of the signature's input hash (arbitrary) */
static _Bool g_in_null;                                /* the getter succeeds without a hash (malformed object) */
static unsigned g_gd_calls; static const KSI_Signature *g_gd_sig; static int g_gd_res;
int KSI_Signature_getDocumentHash(const KSI_Signature *sig, KSI_DataHash **hsh) {      /* ASSUMED here; real body: C02.doc_alg */
	g_gd_calls++; g_gd_sig = sig; g_gd_res = nondet_int();
	if (sig == NULL || hsh == NULL) return g_gd_res = KSI_INVALID_ARGUMENT;
	if (g_gd_res != KSI_OK) return g_gd_res;
	*hsh = g_in_null ? NULL : &po_inhash; return KSI_OK;
}
static int g_ex_res;
int KSI_DataHash_extract(const KSI_DataHash *hash, KSI_HashAlgorithm *algo_id, const unsigned char **digest, size_t *digest_length) {   /* ASSUMED (hash.c, C10/C17) */
	g_ex_res = nondet_int();
	if (hash == NULL) return g_ex_res = KSI_INVALID_ARGUMENT;
	__CPROVER_assert(hash == &po_inhash, "the algorithm is read from the signature's input hash");
	if (g_ex_res != KSI_OK) return g_ex_res;
	if (algo_id != NULL) *algo_id = (KSI_HashAlgorithm)g_in_alg;
	return KSI_OK;
}
static unsigned g_cr_calls; static KSI_CTX *g_cr_ctx; static const void *g_cr_data; static size_t g_cr_len; static int g_cr_alg, g_cr_res; static int g_dochash_live;
int KSI_DataHash_create(KSI_CTX *ctx, const void *data, size_t data_length, KSI_HashAlgorithm algo_id, KSI_DataHash **hash) {            /* ASSUMED (hash.c / OpenSSL) */
	g_cr_calls++; g_cr_ctx = ctx; g_cr_data = data; g_cr_len = data_length; g_cr_alg = algo_id; g_cr_res = nondet_int();
	if (g_cr_res != KSI_OK) return g_cr_res;
	g_dochash_live++; *hash = &po_dochash; return KSI_OK;
}
void KSI_DataHash_free(KSI_DataHash *h) { if (h != NULL) { __CPROVER_assert(h == &po_dochash, "only the hash made from the document is released (the signature's input hash is borrowed)"); g_dochash_live--; } }
static unsigned g_op_calls; static KSI_CTX *g_op_ctx; static int g_op_alg, g_op_res; static int g_hasher_live;
int KSI_DataHasher_open(KSI_CTX *ctx, KSI_HashAlgorithm algo_id, KSI_DataHasher **hasher) {                                              /* ASSUMED (hash.c / OpenSSL) */
	g_op_calls++; g_op_ctx = ctx; g_op_alg = algo_id; g_op_res = nondet_int();
	if (g_op_res != KSI_OK) return g_op_res;
	g_hasher_live++; *hasher = &po_hasher; return KSI_OK;
}
void KSI_DataHasher_free(KSI_DataHasher *h) { if (h != NULL) { __CPROVER_assert(h == &po_hasher, "free of the hasher that was opened"); g_hasher_live--; } }

/* ASSUMED: the verifier (C05 / C01 / C04) - arbitrary status and verdict; records what it was given (as obligations/C02/lead_sighelper.c) */
static unsigned g_v_calls; static KSI_VerificationContext g_v_ctx; static const KSI_Policy *g_v_policy; static int g_v_res, g_v_code;
static KSI_PolicyVerificationResult g_v_result; static unsigned g_v_result_frees;
int KSI_SignatureVerifier_verify(const KSI_Policy *policy, KSI_VerificationContext *context, KSI_PolicyVerificationResult **result) {
	g_v_calls++; g_v_ctx = *context; g_v_policy = policy;
	g_v_res = nondet_int(); g_v_code = nondet_int();
	__CPROVER_assume(g_v_code == KSI_VER_RES_OK || g_v_code == KSI_VER_RES_NA || g_v_code == KSI_VER_RES_FAIL);      /* domain of the result code enum */
	if (g_v_res != KSI_OK) return g_v_res;
	g_v_result.finalResult.resultCode = g_v_code; g_v_result.resultCode = g_v_code;
	*result = &g_v_result;
	return KSI_OK;
}
void KSI_PolicyVerificationResult_free(KSI_PolicyVerificationResult *r) { if (r != NULL) { __CPROVER_assert(r == &g_v_result, "free of the verifier's result"); g_v_result_frees++; } }
int KSI_VerificationContext_init(KSI_VerificationContext *context, KSI_CTX *ctx) {      /* copy of policy.c semantics: all inputs cleared, ctx set */
	if (context == NULL || ctx == NULL) return KSI_INVALID_ARGUMENT;
	memset(context, 0, sizeof(*context)); context->ctx = ctx; return KSI_OK;
}
#include "signature_helper.c"

static struct KSI_CTX_st po_ctx_obj, po_sigctx_obj; static struct KSI_Signature_st po_sig_obj;
static void po_world(void) {
	g_in_alg = nondet_int(); g_in_null = nondet_bool();
	g_gd_calls = 0; g_cr_calls = 0; g_op_calls = 0; g_v_calls = 0; g_v_result_frees = 0; g_dochash_live = 0; g_hasher_live = 0;
	g_gd_res = KSI_UNKNOWN_ERROR; g_ex_res = KSI_UNKNOWN_ERROR; g_cr_res = KSI_UNKNOWN_ERROR; g_op_res = KSI_UNKNOWN_ERROR; g_v_res = KSI_UNKNOWN_ERROR; g_v_code = KSI_VER_RES_NA;
	po_sig_obj.ctx = &po_sigctx_obj;
}
#define PO_ALG_KNOWN (g_gd_calls == 1 && g_gd_res == KSI_OK && !g_in_null && g_ex_res == KSI_OK)
#endif

#ifdef H_verifyDocument
void harness(void) {
	KSI_Signature *sig = nondet_bool() ? &po_sig_obj : NULL; KSI_CTX *ctx = nondet_bool() ? &po_ctx_obj : NULL;
	unsigned char docbuf[2]; const void *doc = nondet_bool() ? docbuf : NULL; size_t doc_len = nondet_size(); int res;
	po_world();
	res = KSI_Signature_verifyDocument(sig, ctx, doc, doc_len);
#define PO_ARGS_OK (sig != NULL && ctx != NULL && doc != NULL)
	__CPROVER_assert(IMPLIES(!PO_ARGS_OK, res == KSI_INVALID_ARGUMENT && g_cr_calls == 0 && g_v_calls == 0), "a missing argument is refused, nothing is hashed or verified");
	__CPROVER_assert(IMPLIES(g_cr_calls > 0, g_cr_calls == 1 && PO_ALG_KNOWN && g_gd_sig == sig && g_cr_ctx == ctx && g_cr_data == doc && g_cr_len == doc_len && g_cr_alg == g_in_alg),
		"the document (all of it) is hashed once, with the algorithm of the signature's input hash");
	__CPROVER_assert(IMPLIES(g_v_calls > 0, g_v_calls == 1 && g_cr_calls == 1 && g_cr_res == KSI_OK && g_v_ctx.signature == sig && g_v_ctx.documentHash == &po_dochash && g_v_ctx.docAggrLevel == 0
		&& g_v_ctx.ctx == sig->ctx && g_v_ctx.userPublication == NULL && g_v_ctx.userPublicationsFile == NULL && g_v_ctx.extendingAllowed == 0),
		"the verifier gets this signature, the hash of the document, level 0 and no other input");
	__CPROVER_assert(IMPLIES(g_v_calls > 0, g_v_policy == KSI_VERIFICATION_POLICY_GENERAL && g_v_policy != NULL), "verified under the general policy");
	__CPROVER_assert(IFF(res == KSI_OK, PO_ARGS_OK && PO_ALG_KNOWN && g_cr_calls == 1 && g_cr_res == KSI_OK && g_v_calls == 1 && g_v_res == KSI_OK && g_v_code == KSI_VER_RES_OK),
		"success exactly for an OK verdict on the hash of this document");
	__CPROVER_assert(IMPLIES(g_v_calls == 1 && g_v_res == KSI_OK && g_v_code != KSI_VER_RES_OK, res == KSI_VERIFICATION_FAILURE), "FAIL / inconclusive verdict => KSI_VERIFICATION_FAILURE");
	__CPROVER_assert(IMPLIES(g_v_calls == 1 && g_v_res != KSI_OK, res == g_v_res), "internal error of the verifier is propagated");
	__CPROVER_assert(IMPLIES(PO_ARGS_OK && g_cr_calls == 1 && g_cr_res != KSI_OK, res == g_cr_res && g_v_calls == 0), "hashing error is propagated, nothing is verified");
	__CPROVER_assert(IMPLIES(PO_ARGS_OK && !PO_ALG_KNOWN, res != KSI_OK && g_cr_calls == 0 && g_v_calls == 0), "unknown input hash algorithm: error, nothing is hashed or verified");
	__CPROVER_assert(g_dochash_live == 0 && g_v_result_frees == ((g_v_calls == 1 && g_v_res == KSI_OK) ? 1 : 0), "the document hash and the verdict object are released exactly once");
	REACH("returned"); if (res == KSI_OK) REACH("document verified"); if (res == KSI_VERIFICATION_FAILURE && g_v_calls == 1) REACH("document does not verify");
}
#endif

#ifdef H_createDataHasher
void harness(void) {
	const KSI_Signature *sig = nondet_bool() ? &po_sig_obj : NULL; static struct KSI_DataHasher_st prev; KSI_DataHasher *out = nondet_bool() ? &prev : NULL, *out0 = out;
	_Bool withOut = nondet_bool(); int res;
	po_world();
	res = KSI_Signature_createDataHasher(sig, withOut ? &out : NULL);
	__CPROVER_assert(IMPLIES(sig == NULL || !withOut, res == KSI_INVALID_ARGUMENT && g_op_calls == 0), "a missing argument is refused");
	__CPROVER_assert(IMPLIES(g_op_calls > 0, g_op_calls == 1 && PO_ALG_KNOWN && g_gd_sig == sig && g_op_ctx == sig->ctx && g_op_alg == g_in_alg), "the hasher is opened once, with the algorithm of the signature's input hash");
	__CPROVER_assert(IFF(res == KSI_OK, sig != NULL && withOut && PO_ALG_KNOWN && g_op_calls == 1 && g_op_res == KSI_OK), "success exactly when the algorithm is known and the hasher could be opened");
	__CPROVER_assert(IMPLIES(res == KSI_OK, out == &po_hasher && g_hasher_live == 1), "the opened hasher is handed out");
	__CPROVER_assert(IMPLIES(res != KSI_OK, out == out0 && g_hasher_live == 0), "on error nothing is handed out and nothing is left open");
	__CPROVER_assert(IMPLIES(g_op_calls == 1 && g_op_res != KSI_OK, res == g_op_res), "error of the hasher is propagated");
	REACH("returned"); if (res == KSI_OK) REACH("hasher created"); if (g_op_calls == 1 && res != KSI_OK) REACH("open failed");
}
#endif

#ifdef H_getHashAlgorithm
void harness(void) {
	const KSI_Signature *sig = nondet_bool() ? &po_sig_obj : NULL; KSI_HashAlgorithm alg = (KSI_HashAlgorithm)nondet_int(), alg0 = alg; int res;
	po_world();
	/* precondition from the call sites (KSI_Signature_createDataHasher, KSI_Signature_verifyDocument): the out-parameter is the address of a local */
	res = KSI_Signature_getHashAlgorithm(sig, &alg);
	__CPROVER_assert(IMPLIES(sig == NULL, res == KSI_INVALID_ARGUMENT), "a missing signature is refused");
	__CPROVER_assert(IFF(res == KSI_OK, sig != NULL && PO_ALG_KNOWN && g_gd_sig == sig), "success exactly when the input hash of THIS signature and its algorithm can be read");
	__CPROVER_assert(IMPLIES(res == KSI_OK, (int)alg == g_in_alg), "the algorithm handed out is that of the signature's input hash");
	__CPROVER_assert(IMPLIES(res != KSI_OK, alg == alg0), "on error the out-parameter is untouched");
	__CPROVER_assert(IMPLIES(sig != NULL && g_gd_res != KSI_OK, res == g_gd_res), "error of the getter is propagated");
	__CPROVER_assert(g_dochash_live == 0, "the borrowed input hash is not released");
	REACH("returned"); if (res == KSI_OK) REACH("algorithm read"); if (sig != NULL && res != KSI_OK) REACH("input hash not readable");
}
#endif
