/* C02: KSI_Signature_verifyWithPolicy (signature_helper.c) hands exactly the caller's document hash and level to the
 * verifier and reports success only for an OK verdict.  Loop-free, plain mode, all inputs symbolic. */
#include "env/common.h"
#include "env/stubs_base.h"
#include "signature_helper.h"
#include "policy.h"
#include "impl/signature_impl.h"
#include "impl/verification_impl.h"

/* ASSUMED: the verifier (C05 / C01 / C04) - arbitrary status and verdict; records what it was given */
static unsigned g_v_calls; static KSI_VerificationContext g_v_ctx; static const KSI_Policy *g_v_policy; static int g_v_res, g_v_code;
static KSI_PolicyVerificationResult g_v_result; static unsigned g_v_result_frees;
int KSI_SignatureVerifier_verify(const KSI_Policy *policy, KSI_VerificationContext *context, KSI_PolicyVerificationResult **result) {
	g_v_calls++; g_v_ctx = *context; g_v_policy = policy;
	g_v_res = nondet_int(); g_v_code = nondet_int();
	__CPROVER_assume(g_v_code == KSI_VER_RES_OK || g_v_code == KSI_VER_RES_NA || g_v_code == KSI_VER_RES_FAIL);
	if (g_v_res != KSI_OK) return g_v_res;
	g_v_result.finalResult.resultCode = g_v_code; g_v_result.resultCode = g_v_code;
	*result = &g_v_result;
	return KSI_OK;
}
void KSI_PolicyVerificationResult_free(KSI_PolicyVerificationResult *r) { if (r != NULL) { __CPROVER_assert(r == &g_v_result, "free of the verifier's result"); g_v_result_frees++; } }
int KSI_VerificationContext_init(KSI_VerificationContext *context, KSI_CTX *ctx) {      /* copy of policy.c:931 semantics: all inputs cleared, ctx set */
	if (context == NULL || ctx == NULL) return KSI_INVALID_ARGUMENT;
	memset(context, 0, sizeof(*context)); context->ctx = ctx; return KSI_OK;
}
#include "signature_helper.c"

void harness(void) {
	struct KSI_Signature_st sig; struct KSI_CTX_st *ctx = (struct KSI_CTX_st *)nondet_ptr(); KSI_VerificationContext user; const KSI_Policy *pol = (const KSI_Policy *)nondet_ptr();
	const KSI_DataHash *doc = (const KSI_DataHash *)nondet_ptr(); KSI_uint64_t level = nondet_ull(); _Bool withCtx = nondet_bool(); int res;
	__CPROVER_assume(ctx != NULL);
	sig.ctx = ctx;
	user.ctx = ctx; user.documentHash = (const KSI_DataHash *)nondet_ptr(); user.docAggrLevel = nondet_ull(); user.signature = (KSI_Signature *)nondet_ptr();
	user.extendingAllowed = nondet_int(); user.userPublication = NULL; user.userPublicationsFile = NULL; user.tempData = NULL;
	g_v_calls = 0; g_v_result_frees = 0;
	res = KSI_Signature_verifyWithPolicy(&sig, doc, level, pol, withCtx ? &user : NULL);
	__CPROVER_assert(IMPLIES(level > 0xff, res == KSI_INVALID_FORMAT && g_v_calls == 0), "a level above 255 is refused before any verification");
	__CPROVER_assert(IMPLIES(level <= 0xff, g_v_calls == 1 && g_v_ctx.signature == &sig && g_v_policy == pol && g_v_ctx.ctx == ctx), "the verifier is run once, on this signature, with the caller's policy");
	__CPROVER_assert(IMPLIES(level <= 0xff && !withCtx, g_v_ctx.documentHash == doc && g_v_ctx.docAggrLevel == level), "document hash and level reach the verifier unchanged");
	__CPROVER_assert(IMPLIES(level <= 0xff && withCtx, g_v_ctx.documentHash == user.documentHash && g_v_ctx.docAggrLevel == user.docAggrLevel && g_v_ctx.extendingAllowed == user.extendingAllowed), "a caller supplied context is used as given");
	__CPROVER_assert(IFF(res == KSI_OK, level <= 0xff && g_v_res == KSI_OK && g_v_code == KSI_VER_RES_OK), "success exactly for an OK verdict without internal error");
	__CPROVER_assert(IMPLIES(level <= 0xff && g_v_res == KSI_OK && g_v_code != KSI_VER_RES_OK, res == KSI_VERIFICATION_FAILURE), "FAIL / inconclusive verdict => KSI_VERIFICATION_FAILURE");
	__CPROVER_assert(IMPLIES(level <= 0xff && g_v_res != KSI_OK, res == g_v_res), "internal error is propagated");
	__CPROVER_assert(g_v_result_frees == (level <= 0xff && g_v_res == KSI_OK ? 1 : 0), "verdict object released exactly once");
	REACH("returned"); if (res == KSI_OK) REACH("verified");
}
