/* C16: block signer (blocksigner.c) - KSI_BlockSigner_new / KSI_BlockSigner_reset against the same
 * "freshly constructed" predicate.  Real file included unmodified; the tree builder, the processor list and
 * the hash / octet-string / signature objects are the assumed environment of env/blocksigner_env.h. */
#include "env/common.h"
#include "env/stubs_base.h"
#include "env/blocksigner_env.h"
#include "blocksigner.c"
/* struct KSI_BlockSigner_st is private to blocksigner.c: the contracts (re-declarations) come after the file */
#include "contracts/blocksigner_reset.h"

struct KSI_CTX_st { int dummy; };
static struct KSI_CTX_st g_ctx_obj;

static KSI_DataHash *mk_hash(void) { KSI_DataHash *h = malloc(sizeof(*h)); if (h != NULL) { h->ref = 1 + (nondet_bool() ? 1 : 0); h->ctx = NULL; } return h; }

#ifdef H_bs_new
void harness(void) {
	KSI_DataHash *prev = nondet_bool() ? mk_hash() : NULL;
	KSI_OctetString *iv = nondet_bool() ? malloc(sizeof(*iv)) : NULL;
	int res;
	g_bs_out = NULL;
	if (iv != NULL) { iv->ref = 1; iv->data = NULL; iv->data_len = nondet_size(); }
	res = KSI_BlockSigner_new(nondet_bool() ? &g_ctx_obj : NULL, (KSI_HashAlgorithm)nondet_int(), prev, iv, nondet_bool() ? &g_bs_out : NULL);
	REACH("new returns");
	if (res == KSI_OK && prev != NULL) REACH("new signer with masking");
	if (res == KSI_OK && prev == NULL) REACH("new signer without masking");
	if (res == KSI_OUT_OF_MEMORY) REACH("new signer: no memory");
}
#endif

#ifdef H_bs_reset
void harness(void) {
	KSI_BlockSigner *s = malloc(sizeof(*s));
	KSI_TreeBuilder *b0 = NULL;
	int res;
	if (s == NULL) return;
	/* a signer in an arbitrary state reached after construction: leaves added, perhaps closed and signed */
	s->ctx = &g_ctx_obj; s->ref = 1 + (nondet_bool() ? 1 : 0);
	if (KSI_TreeBuilder_new(&g_ctx_obj, (KSI_HashAlgorithm)nondet_int(), &b0) != KSI_OK) return;
	s->builder = b0;
	s->signature = NULL;
	if (nondet_bool()) { s->signature = malloc(sizeof(struct KSI_Signature_st)); if (s->signature == NULL) return; s->signature->ref = 1; }
	s->origPrevLeaf = NULL; s->prevLeaf = NULL; s->iv = NULL;
	if (nondet_bool()) {
		s->origPrevLeaf = mk_hash(); s->prevLeaf = nondet_bool() ? mk_hash() : KSI_DataHash_ref(s->origPrevLeaf);
		s->iv = malloc(sizeof(struct KSI_OctetString_st));
		if (s->origPrevLeaf == NULL || s->prevLeaf == NULL || s->iv == NULL) return;
		s->iv->ref = 1;
	}
	s->metaData = NULL; s->hsr = &g_bs_hsr_obj;
	s->metaDataProcessor.c = s; s->metaDataProcessor.fn = metaDataProcessor; s->metaDataProcessor.levelOverhead = 1;
	s->maskingProcessor.c = s; s->maskingProcessor.fn = maskingProcessor; s->maskingProcessor.levelOverhead = 1;
	g_tb_new_calls = 0; g_tb_free_calls = 0; g_sig_free_calls = 0;
	res = KSI_BlockSigner_reset(s);
	REACH("reset returns");
	if (res == KSI_OK && s->prevLeaf != NULL) REACH("reset of a masking signer");
	if (res == KSI_OK && s->prevLeaf == NULL) REACH("reset of a plain signer");
	if (res == KSI_OUT_OF_MEMORY) REACH("reset: no memory");
}
#endif

#ifdef H_bs_addleaf
void harness(void) {
	KSI_BlockSigner *s = malloc(sizeof(*s));
	KSI_TreeBuilder *b0 = NULL; KSI_DataHash *hsh = nondet_bool() ? mk_hash() : NULL; KSI_MetaData *md = (KSI_MetaData *)(nondet_bool() ? &g_ctx_obj : NULL);
	static struct KSI_BlockSignerHandle_st sentinel;
	int res;
	if (s == NULL) return;
	s->ctx = &g_ctx_obj; s->ref = 1;
	if (KSI_TreeBuilder_new(&g_ctx_obj, KSI_HASHALG_SHA2_256, &b0) != KSI_OK) return;
	s->builder = b0; b0->hsr = &g_bs_hsr_obj;
	s->signature = NULL; s->origPrevLeaf = NULL; s->prevLeaf = NULL; s->iv = NULL;
	if (nondet_bool()) {
		s->origPrevLeaf = mk_hash(); s->prevLeaf = nondet_bool() ? mk_hash() : KSI_DataHash_ref(s->origPrevLeaf);
		s->iv = malloc(sizeof(struct KSI_OctetString_st));
		if (s->origPrevLeaf == NULL || s->prevLeaf == NULL || s->iv == NULL) return;
		s->iv->ref = 1;
	}
	s->metaData = NULL; s->hsr = &g_bs_hsr_obj;
	s->metaDataProcessor.c = s; s->metaDataProcessor.fn = metaDataProcessor; s->metaDataProcessor.levelOverhead = 1;
	s->maskingProcessor.c = s; s->maskingProcessor.fn = maskingProcessor; s->maskingProcessor.levelOverhead = 1;
	/* processors installed as KSI_BlockSigner_new does: meta-data first, masking second */
	g_cb_el[0] = &s->metaDataProcessor; g_cb_el[1] = &s->maskingProcessor; g_cb_n = 2;
	g_add_calls = 0; g_bs_live = 3; g_bsh_out = &sentinel;
	res = KSI_BlockSigner_addLeaf(s, hsh, nondet_int(), md, nondet_bool() ? &g_bsh_out : NULL);
	REACH("addLeaf returns");
	if (res == KSI_OK && s->iv != NULL) REACH("masked leaf added");
	if (res != KSI_OK && g_add_calls == 1 && s->iv != NULL) REACH("masked leaf refused by the tree builder");
}
#endif
