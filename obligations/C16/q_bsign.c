/* C16 (builderQ): block signer orchestration - KSI_BlockSigner_closeAndSign and KSI_BlockSignerHandle_getSignature.
 * Real blocksigner.c included unmodified; tree builder, aggregator (network), chain extraction and signature
 * builder are the recording stubs of env/q_bsign_env.h; contracts in contracts/blocksigner_qsign.h. */
#include "env/common.h"
#include "env/stubs_base.h"
#include "env/q_bsign_env.h"
#include "blocksigner.c"
#include "contracts/blocksigner_qsign.h"

struct KSI_CTX_st { int dummy; };
static struct KSI_CTX_st g_ctx_obj;
static struct KSI_Policy_st { int dummy; } g_policy_obj;

static KSI_BlockSigner g_signer;
static KSI_TreeBuilder g_tb;
static KSI_TreeNode g_old_root;
static KSI_DataHash g_old_root_hash, g_prev;
static struct KSI_DataHasher_st g_hsr_obj;

static void qb_reset_ghosts(void) {
	g_qb_seq = 0; g_qb_tbclose_calls = 0; g_qb_sign_calls = 0; g_qb_chain_calls = 0; g_qb_node_calls = 0;
	g_qb_open_calls = 0; g_qb_start_calls = 0; g_qb_append_calls = 0; g_qb_sbclose_calls = 0; g_qb_sbfree_calls = 0; g_qb_sigfree_calls = 0;
	g_qb_tbclose_res = KSI_UNKNOWN_ERROR; g_qb_sign_res = KSI_UNKNOWN_ERROR;
	g_qb_sign_made = NULL; g_qb_chain_made = NULL; g_qb_sb_made = NULL; g_qb_clone_made = NULL; g_qb_sbclose_made = NULL;
	g_qb_live = 5; g_qb_tb = &g_tb; g_qb_alloc_failed = 0;
	KSI_VERIFICATION_POLICY_INTERNAL = (const KSI_Policy *)&g_policy_obj;
}

/* a signer in any state the public API can bring it to: open or closed builder; signed only if closed */
static int mk_signer(void) {
	g_tb.ctx = &g_ctx_obj; g_tb.ref = 1; g_tb.algo = (KSI_HashAlgorithm)nondet_int(); g_tb.cbList = NULL; g_tb.hsr = NULL; g_tb.maxTreeLevel = 0;
	g_old_root.hash = &g_old_root_hash; g_old_root.metaData = NULL; g_old_root.level = nondet_uint() % 256u; g_old_root.parent = NULL;
	g_tb.rootNode = nondet_bool() ? &g_old_root : NULL;
	g_signer.ctx = nondet_bool() ? &g_ctx_obj : NULL; g_signer.ref = 1 + (nondet_bool() ? 1 : 0); g_signer.builder = &g_tb;
	g_signer.signature = NULL;
	if (nondet_bool()) {
		g_signer.signature = malloc(sizeof(struct KSI_Signature_st));
		if (g_signer.signature == NULL) return 0;
		g_signer.signature->ref = 1; g_signer.signature->from = NULL; g_signer.signature->chain = NULL;
		g_signer.signature->chainStartLevel = 0; g_signer.signature->chainStartSet = 0; g_signer.signature->addedLevel = 0;
	}
	g_signer.prevLeaf = nondet_bool() ? &g_prev : NULL; g_signer.origPrevLeaf = g_signer.prevLeaf; g_signer.iv = NULL;
	g_signer.metaData = NULL; g_signer.hsr = (KSI_DataHasher *)&g_hsr_obj;
	return 1;
}

#ifdef H_q_closesign
void harness(void) {
	KSI_Signature *sig0; int res;
	if (!mk_signer()) return;
	qb_reset_ghosts();
	sig0 = g_signer.signature;
	res = KSI_BlockSigner_closeAndSign(nondet_bool() ? &g_signer : NULL);
	REACH("closeAndSign returns");
	if (res == KSI_OK) {
		REACH("closed and signed");
		if (g_qb_sign_level == 255) REACH("signed a root of level 255");
		/* the signer is freeable: releasing the kept signature gives the live object back */
		KSI_Signature_free(g_signer.signature);
		__CPROVER_assert(g_qb_live == 5, "closeAndSign ok: the kept signature is the signer's to release");
	} else {
		if (g_qb_tbclose_calls == 1 && g_qb_tbclose_res == KSI_OK) REACH("closed, but signing failed");
		if (res == KSI_OUT_OF_MEMORY && g_qb_alloc_failed) REACH("allocation failure while signing handled");
		if (g_qb_tbclose_res == KSI_INVALID_STATE && sig0 != NULL) REACH("second closeAndSign refused, first signature kept");
		if (g_qb_tbclose_calls == 1 && g_qb_tbclose_res != KSI_OK && g_tb.rootNode == NULL) REACH("close failed, builder still open");
	}
}
#endif

#ifdef H_q_getsig
static struct KSI_BlockSignerHandle_st g_handle;
static struct KSI_TreeLeafHandle_st g_leafh;
static KSI_TreeNode g_leaf_node;
void harness(void) {
	static struct KSI_Signature_st sentinel; int res;
	if (!mk_signer()) return;
	/* a handle made by KSI_BlockSigner_addLeaf on this signer */
	g_leaf_node.level = nondet_uint() % 256u; g_leaf_node.hash = &g_prev; g_leaf_node.metaData = NULL; g_leaf_node.parent = nondet_bool() ? &g_old_root : NULL;
	g_leafh.ref = 1; g_leafh.node = nondet_bool() ? &g_leaf_node : NULL;
	g_handle.ctx = g_signer.ctx; g_handle.ref = 1; g_handle.leafHandle = &g_leafh; g_handle.signer = &g_signer;
	qb_reset_ghosts();
	g_qb_sig_out = &sentinel; g_qb_signer = &g_signer; g_qb_lh = &g_leafh;
	res = KSI_BlockSignerHandle_getSignature(nondet_bool() ? &g_handle : NULL, nondet_bool() ? &g_qb_sig_out : NULL);
	REACH("getSignature returns");
	if (res == KSI_OK) {
		REACH("per-leaf signature built");
		if (g_leaf_node.level == 7) REACH("per-leaf signature for a leaf of level 7");
		/* the caller can release the result: everything the call created goes away, the root signature stays */
		KSI_Signature_free(g_qb_sig_out);
		__CPROVER_assert(g_qb_live == 5 && g_signer.signature->ref == 1, "getSignature ok: the result is the caller's to release, the root signature stays");
	} else {
		if (g_signer.signature == NULL && g_qb_seq == 0) REACH("handle of a signer that is not signed: refused");
		if (g_qb_append_calls == 1 && g_qb_sbclose_calls == 0) REACH("own chain rejected by the signature builder");
		if (g_qb_sbclose_calls == 1) REACH("final close (internal verification) failed");
		if (res == KSI_OUT_OF_MEMORY && g_qb_alloc_failed && g_qb_open_calls == 1) REACH("allocation failure in the signature builder handled");
		if (g_qb_open_calls == 1 && g_leafh.node == NULL) REACH("leaf node missing");
	}
}
#endif

#ifdef H_q_lifecycle
/* Plain mode, a SEQUENCE through the real functions: closeAndSign -> getSignature -> closeAndSign again ->
 * getSignature again -> KSI_BlockSigner_free.  The signer starts open and unsigned (as after new / reset / addLeaf).
 * Whatever fails on the way, the signer stays consistent: at the end the signer's release gives back every object the
 * stubs handed out (root signature released exactly once), results handed to the caller are the caller's. */
static struct KSI_BlockSignerHandle_st g_handle;
static struct KSI_TreeLeafHandle_st g_leafh;
static KSI_TreeNode g_leaf_node;
void harness(void) {
	KSI_BlockSigner *s = malloc(sizeof(*s)); KSI_Signature *out1 = NULL, *out2 = NULL, *root1, *root2; int r1, r2, r3, r4; unsigned signs1; _Bool closed1;
	if (s == NULL) return;
	g_tb.ctx = &g_ctx_obj; g_tb.ref = 1; g_tb.algo = KSI_HASHALG_SHA2_256; g_tb.cbList = NULL; g_tb.hsr = NULL; g_tb.maxTreeLevel = 0; g_tb.rootNode = NULL;
	s->ctx = &g_ctx_obj; s->ref = 1; s->builder = &g_tb; s->signature = NULL; s->prevLeaf = NULL; s->origPrevLeaf = NULL; s->iv = NULL; s->metaData = NULL;
	s->hsr = (KSI_DataHasher *)&g_hsr_obj;
	g_leaf_node.level = nondet_uint() % 256u; g_leaf_node.hash = &g_prev; g_leaf_node.metaData = NULL; g_leaf_node.parent = NULL;
	g_leafh.ref = 1; g_leafh.node = &g_leaf_node;
	g_handle.ctx = &g_ctx_obj; g_handle.ref = 1; g_handle.leafHandle = &g_leafh; g_handle.signer = s;
	qb_reset_ghosts(); g_qb_live = 0; g_qb_tbfree_calls = 0;

	r1 = KSI_BlockSigner_closeAndSign(s);
	__CPROVER_assert((r1 == KSI_OK) == (s->signature != NULL), "life-cycle: the signer holds a signature iff closeAndSign succeeded");
	root1 = s->signature; signs1 = g_qb_sign_calls; closed1 = (g_tb.rootNode != NULL);
	r2 = KSI_BlockSignerHandle_getSignature(&g_handle, &out1);
	__CPROVER_assert(IMPLIES(r1 != KSI_OK, r2 == KSI_INVALID_STATE && out1 == NULL), "life-cycle: no per-leaf signature without a successful closeAndSign");
	__CPROVER_assert((r2 == KSI_OK) == (out1 != NULL), "life-cycle: a per-leaf signature is handed out iff getSignature succeeded");
	__CPROVER_assert(IMPLIES(r2 == KSI_OK, out1 != root1 && out1->from == root1 && out1->chainStartLevel == g_leaf_node.level), "life-cycle: the per-leaf signature is a new object derived from the root signature");
	/* closing again never signs again and never loses the signature */
	r3 = KSI_BlockSigner_closeAndSign(s);
	/* (a first attempt whose CLOSE failed left the builder open: the retry may succeed - that is the only way to a new signature) */
	__CPROVER_assert(IMPLIES(closed1, s->signature == root1 && g_qb_sign_calls == signs1 && r3 == KSI_INVALID_STATE), "life-cycle: once the builder is closed a repeated closeAndSign is refused, signs nothing, keeps the signature state");
	__CPROVER_assert(IMPLIES(!closed1, root1 == NULL && (r3 == KSI_OK) == (s->signature != NULL)), "life-cycle: after a failed close the retry behaves like a first attempt");
	root2 = s->signature;
	__CPROVER_assert(IMPLIES(r1 == KSI_OK, r3 == KSI_INVALID_STATE), "life-cycle: repeated closeAndSign of a signed signer is refused");
	r4 = KSI_BlockSignerHandle_getSignature(&g_handle, &out2);
	__CPROVER_assert(IMPLIES(r4 == KSI_OK, root2 != NULL && out2 != NULL && out2 != out1 && out2 != root2 && out2->from == root2), "life-cycle: a second per-leaf signature is another new object of the signer's root signature");
	__CPROVER_assert(IMPLIES(root2 == NULL, r4 == KSI_INVALID_STATE && out2 == NULL), "life-cycle: still no per-leaf signature while unsigned");
	REACH("sequence done");
	if (r1 == KSI_OK && r2 == KSI_OK && r4 == KSI_OK) REACH("signed, two per-leaf signatures");
	if (r1 != KSI_OK && closed1) REACH("closed but not signed: stays unsigned");
	if (r1 != KSI_OK && !closed1 && r3 == KSI_OK && r4 == KSI_OK) REACH("close failed first, retry signed");
	KSI_Signature_free(out1); KSI_Signature_free(out2);
	g_qb_sigfree_calls = 0;
	KSI_BlockSigner_free(s);
	__CPROVER_assert(g_qb_live == 0, "life-cycle: freeing the signer releases everything that was created (nothing leaked, whatever failed)");
	__CPROVER_assert(g_qb_sigfree_calls == (root2 != NULL ? 1u : 0u) && g_qb_tbfree_calls == 1, "life-cycle: signature and builder released exactly once");
	REACH("signer freed");
}
#endif
