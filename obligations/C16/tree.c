/* C16: tree builder (tree_builder.c).  Real file included unmodified; hash objects, hasher and
 * meta-data objects are the assumed environment of env/tree_env.h. */
#include "env/common.h"
#include "env/stubs_base.h"
#include "tree_builder.h"
#include "hashchain.h"
#include "env/tree_env.h"
#include "contracts/tree_builder_join.h"
#include "tree_builder.c"

struct KSI_CTX_st { int dummy; };
static struct KSI_CTX_st g_ctx_obj;

/* a heap node with arbitrary content: exactly one of hash / meta-data unless the solver picks otherwise
 * (the contracts state well-formedness as a precondition where a call site guarantees it) */
static KSI_TreeNode *mk_node(void) {
	KSI_TreeNode *n = malloc(sizeof(KSI_TreeNode));
	if (n == NULL) return NULL;
	n->ctx = &g_ctx_obj;
	n->hash = NULL; n->metaData = NULL;
	if (nondet_bool()) {
		n->hash = malloc(sizeof(KSI_DataHash));
		if (n->hash != NULL) { n->hash->ref = 1 + (nondet_bool() ? 1 : 0); n->hash->ctx = NULL; }
	}
	if (nondet_bool()) {
		n->metaData = malloc(sizeof(KSI_MetaData));
		if (n->metaData != NULL) {
			n->metaData->ref = 1; n->metaData->ctx = NULL;
			n->metaData->serializePayload = md_stub_serializePayload;
			n->metaData->toMetaDataElement = NULL;
		}
	}
	n->level = nondet_uint();
	n->parent = NULL; n->leftChild = NULL; n->rightChild = NULL;
	return n;
}

#ifdef H_join
void harness(void) {
	KSI_DataHasher hsr;
	KSI_TreeNode *l = nondet_bool() ? mk_node() : NULL;
	KSI_TreeNode *r = nondet_bool() ? mk_node() : NULL;
	KSI_TreeNode *sentinel = (KSI_TreeNode *)nondet_ptr();
	KSI_TreeNode *root = sentinel;
	KSI_CTX *ctx = nondet_bool() ? &g_ctx_obj : NULL;
	int res;
	tr_init();
	res = KSI_TreeNode_join(ctx, &hsr, l, r, nondet_bool() ? &root : NULL);
	REACH("join returns");
	if (res == KSI_OK) REACH("join accepted");
	if (res == KSI_OK && l->metaData != NULL) REACH("join accepted, left is meta-data");
	if (res == KSI_OK && r->metaData != NULL && l->metaData != NULL) REACH("join accepted, both meta-data");
	if (res == KSI_OK && root->level == 0xff) REACH("join accepted at level 255");
	if (res != KSI_OK && l != NULL && r != NULL && ctx != NULL && l->level <= 0xff && r->level <= 0xff && !g_tr_failed) REACH("join refused for level overflow or memory");
	if (res != KSI_OK && g_tr_failed) REACH("join refused after hasher error");
}
#endif
