/* C16: tree builder (tree_builder.c).  Real file included unmodified; hash objects, hasher and
 * meta-data objects are the assumed environment of env/tree_env.h. */
#include "env/common.h"
#include "env/c19_alloc_env.h"      /* allocation funnels with live-block accounting (instead of env/stubs_base.h) */
#include "tree_builder.h"
#include "hashchain.h"
#include "env/tree_env.h"
#ifdef USE_CHAIN
#include "env/chain_env.h"        /* links, link list, integers, chain container (path extraction jobs) */
#endif
#include "contracts/tree_builder_addnode.h"
#include "contracts/tree_builder_join.h"
#include "contracts/tree_builder_insert.h"
#include "tree_builder.c"
/* struct KSI_TreeLeafHandle_st is private to tree_builder.c: these contracts (re-declarations) come after the file */
#include "contracts/tree_builder_addleaf.h"
#include "contracts/tree_builder_close.h"

struct KSI_CTX_st { int dummy; };
static struct KSI_CTX_st g_ctx_obj;

/* a heap node with arbitrary content: exactly one of hash / meta-data unless the solver picks otherwise
 * (the contracts state well-formedness as a precondition where a call site guarantees it) */
static KSI_TreeNode *mk_node(void) {
	KSI_TreeNode *n = malloc(sizeof(KSI_TreeNode));
	if (n == NULL) return NULL;
	n->ctx = &g_ctx_obj;
	n->hash = NULL; n->metaData = NULL;
	if (nondet_bool()) {
		n->hash = malloc(sizeof(KSI_DataHash));
		if (n->hash != NULL) { n->hash->ref = 1 + (nondet_bool() ? 1 : 0); n->hash->ctx = NULL; }
	}
	if (nondet_bool()) {
		n->metaData = malloc(sizeof(KSI_MetaData));
		if (n->metaData != NULL) {
			n->metaData->ref = 1; n->metaData->ctx = NULL;
			n->metaData->serializePayload = md_stub_serializePayload;
			n->metaData->toMetaDataElement = NULL;
		}
	}
	n->level = nondet_uint();
	n->parent = NULL; n->leftChild = NULL; n->rightChild = NULL;
	return n;
}

#ifdef H_joinhashes
void harness(void) {
	KSI_DataHasher hsr;
	KSI_TreeNode *l = nondet_bool() ? mk_node() : NULL;
	KSI_TreeNode *r = nondet_bool() ? mk_node() : NULL;
	KSI_DataHash *sentinel = (KSI_DataHash *)nondet_ptr();
	KSI_DataHash *out = sentinel;
	int level = nondet_int();
	int res;
	tr_init();
	if (nondet_bool()) { g_tr_n = nondet_uint(); g_tr_failed = nondet_bool(); }
	unsigned aud_n0 = g_tr_n; _Bool aud_failed0 = g_tr_failed;     /* (audit builderY) state before the call, for the REACH guard below */
	res = joinHashes(&g_ctx_obj, &hsr, l, r, level, nondet_bool() ? &out : NULL);
	REACH("joinHashes returns");
	if (res == KSI_OK) REACH("hash step done");
	if (res == KSI_OK && l->metaData != NULL && r->metaData != NULL && g_tr_n == 7) REACH("hash step over two meta-data nodes");
	if (res != KSI_OK && g_tr_failed) REACH("hasher failed");
	/* (audit builderY, dfcc __invalid_ptr sharing: KSI_DataHasher_addTreeNode is replaced and called twice; pointer target g_tr_hsr) */
	if (res != KSI_OK && g_tr_failed && !aud_failed0 && g_tr_n > aud_n0) REACH("hasher fails after the left node was fed (second call fails after the first succeeded)");
}
#endif

#ifdef H_join
void harness(void) {
	KSI_DataHasher hsr;
	KSI_TreeNode *l = nondet_bool() ? mk_node() : NULL;
	KSI_TreeNode *r = nondet_bool() ? mk_node() : NULL;
	KSI_TreeNode *sentinel = (KSI_TreeNode *)nondet_ptr();
	KSI_TreeNode *root = sentinel;
	KSI_CTX *ctx = nondet_bool() ? &g_ctx_obj : NULL;
	int res;
	tr_init();
	res = KSI_TreeNode_join(ctx, &hsr, l, r, nondet_bool() ? &root : NULL);
	REACH("join returns");
	if (res == KSI_OK) REACH("join accepted");
	if (res == KSI_OK && l->metaData != NULL) REACH("join accepted, left is meta-data");
	if (res == KSI_OK && r->metaData != NULL && l->metaData != NULL) REACH("join accepted, both meta-data");
	if (res == KSI_OK && root->level == 0xff) REACH("join accepted at level 255");
	if (res != KSI_OK && l != NULL && r != NULL && ctx != NULL && l->level <= 0xff && r->level <= 0xff && !g_tr_failed) REACH("join refused for level overflow or memory");
	if (res != KSI_OK && g_tr_failed) REACH("join refused after hasher error");
}
#endif

/* builder whose 256 slots are each empty or hold the representative occupant (childless); written out
 * without a loop so that contract mode needs no unwinding */
static KSI_TreeBuilder g_tb;
static KSI_DataHasher g_hsr;
#define SLOT1(i) g_tb.stack[i] = nondet_bool() ? &g_occ : NULL;
#define SLOT4(i) SLOT1(i) SLOT1(i + 1) SLOT1(i + 2) SLOT1(i + 3)
#define SLOT16(i) SLOT4(i) SLOT4(i + 4) SLOT4(i + 8) SLOT4(i + 12)
#define SLOT64(i) SLOT16(i) SLOT16(i + 16) SLOT16(i + 32) SLOT16(i + 48)
static void mk_builder(void) {
	g_tb.ctx = &g_ctx_obj; g_tb.ref = 1; g_tb.rootNode = NULL; g_tb.algo = KSI_HASHALG_SHA2_256;
	g_tb.cbList = NULL; g_tb.hsr = &g_hsr; g_tb.maxTreeLevel = (short)nondet_int();
	g_occ_hash.ref = 1000; g_occ_hash.ctx = NULL;
	g_occ.hash = &g_occ_hash; g_occ.metaData = NULL; g_occ.ctx = &g_ctx_obj; g_occ.leftChild = NULL; g_occ.rightChild = NULL;
	g_occ.level = nondet_uint(); g_occ.parent = NULL;
	SLOT64(0) SLOT64(64) SLOT64(128) SLOT64(192)
	g_w1 = nondet_size(); g_w2 = nondet_size();
}

#ifdef H_insert
void harness(void) {
	KSI_TreeNode *node = nondet_bool() ? mk_node() : NULL;
	KSI_TreeBuilder *b = nondet_bool() ? &g_tb : NULL;
	int at = nondet_int();
	int res;
	mk_builder();
	tr_init();
	res = insertNode(b, node, at);
	REACH("insertNode returns");
	if (res == KSI_OK) REACH("accepted");
	if (res == KSI_OK && g_tb.stack[at] == NULL) REACH("accepted with a carry");
	if (res != KSI_OK && b != NULL && node != NULL && node->level <= 0xff) REACH("refused during the carry");
}
#endif

#ifdef H_addnode
void harness(void) {
	KSI_DataHasher hsr;
	KSI_TreeNode *n = nondet_bool() ? mk_node() : NULL;
	int res;
	tr_init();
	g_tr_n = nondet_uint();
	g_tr_failed = nondet_bool();
	if (nondet_bool()) g_tr_hsr = &hsr;
	res = KSI_DataHasher_addTreeNode(nondet_bool() ? &hsr : NULL, n);
	REACH("addTreeNode returns");
	if (res == KSI_OK && n->hash != NULL) REACH("hash node added");
	if (res == KSI_OK && n->hash == NULL && n->metaData != NULL) REACH("meta-data node added");
	if (res == KSI_OK && g_tr_n == TR_MAX) REACH("transcript saturated");
	if (res != KSI_OK && n != NULL) REACH("hasher or serializer failed");
}
#endif

#ifdef H_addleaf
void harness(void) {
	KSI_DataHash *hsh = nondet_bool() ? malloc(sizeof(KSI_DataHash)) : NULL;
	KSI_MetaData *md = nondet_bool() ? malloc(sizeof(KSI_MetaData)) : NULL;
	KSI_TreeLeafHandle *sentinel = (KSI_TreeLeafHandle *)nondet_ptr();
	int level = nondet_int();
	int res;
	mk_builder();
	if (nondet_bool()) g_tb.rootNode = &g_occ;
	if (hsh != NULL) { hsh->ref = 1 + (nondet_bool() ? 1 : 0); hsh->ctx = NULL; }
	if (md != NULL) { md->ref = 1; md->ctx = NULL; md->serializePayload = md_stub_serializePayload; md->toMetaDataElement = NULL; }
	g_leaf_out = sentinel;
	g_pin_calls = 0; g_chl_calls = 0; g_lwo_calls = 0; g_live = 5; g_alloc_failed = 0;
	tr_init();
	res = addLeaf(nondet_bool() ? &g_tb : NULL, hsh, md, level, nondet_bool() ? &g_leaf_out : NULL);
	REACH("addLeaf returns");
	if (res == KSI_OK && g_leaf_out != sentinel) REACH("leaf accepted, handle returned");
	if (res == KSI_OK && g_tb.maxTreeLevel > 0) REACH("leaf accepted under a maximum level");
	if (res == KSI_BUFFER_OVERFLOW && g_chl_calls == 1) REACH("leaf refused by the height pre-check");
	if (res == KSI_OUT_OF_MEMORY && g_pin_calls == 0) REACH("allocation failed before the hand-over");
	if (res != KSI_OK && g_pin_calls == 1) REACH("insertion failed");
}
#endif

/* builder with at most three subtrees, in slots 0..2 (distinct childless heap nodes); every other slot is
 * concretely empty so that the 256-slot loops unwind cheaply */
static KSI_TreeNode *g_n0, *g_n1, *g_n2;
#define ZERO1(i) g_tb.stack[i] = NULL;
#define ZERO4(i) ZERO1(i) ZERO1(i + 1) ZERO1(i + 2) ZERO1(i + 3)
#define ZERO16(i) ZERO4(i) ZERO4(i + 4) ZERO4(i + 8) ZERO4(i + 12)
#define ZERO64(i) ZERO16(i) ZERO16(i + 16) ZERO16(i + 32) ZERO16(i + 48)
static int mk_builder_small(void) {
	g_tb.ctx = &g_ctx_obj; g_tb.ref = 1; g_tb.rootNode = NULL; g_tb.algo = KSI_HASHALG_SHA2_256;
	g_tb.cbList = NULL; g_tb.hsr = &g_hsr; g_tb.maxTreeLevel = 0;
	ZERO64(0) ZERO64(64) ZERO64(128) ZERO64(192)     /* element-wise, so that symex sees concrete NULLs */
	g_n0 = nondet_bool() ? mk_node() : NULL; g_n1 = nondet_bool() ? mk_node() : NULL; g_n2 = nondet_bool() ? mk_node() : NULL;
	/* nodes held by a builder were made by KSI_TreeNode_new / join: one of hash / meta-data, level 0..255 */
	if (g_n0 != NULL && (!TN_WELLFORMED(g_n0) || g_n0->level > 0xff)) return 0;
	if (g_n1 != NULL && (!TN_WELLFORMED(g_n1) || g_n1->level > 0xff)) return 0;
	if (g_n2 != NULL && (!TN_WELLFORMED(g_n2) || g_n2->level > 0xff)) return 0;
	g_tb.stack[0] = g_n0; g_tb.stack[1] = g_n1; g_tb.stack[2] = g_n2;
	g_w1 = nondet_size(); g_w2 = nondet_size();
	return 1;
}

#ifdef H_close
/* Plain mode (no dfcc): the 256-slot loop is unwound completely, the postconditions of
 * contracts/tree_builder_close.h are asserted here with the pre-state captured by the harness. */
void harness(void) {
	int res; long long want = -1; long live0; unsigned failed0; KSI_TreeNode *root0, *s1, *s2;
	KSI_TreeBuilder *b = nondet_bool() ? &g_tb : NULL;
	if (!mk_builder_small()) return;
	if (nondet_bool()) g_tb.rootNode = &g_occ;
	if (!(g_w1 < g_w2 && g_w2 < KSI_TREE_BUILDER_STACK_LEN)) return;       /* witness indices */
	g_live = 7; g_alloc_failed = 0;
	tr_init();
	live0 = g_live; failed0 = g_alloc_failed; root0 = g_tb.rootNode; s1 = g_tb.stack[g_w1]; s2 = g_tb.stack[g_w2];
	res = KSI_TreeBuilder_close(b);
	REACH("close returns");
	/* reference fold of the property text: lowest slot first, the slot's subtree is the LEFT operand */
	if (g_n0 != NULL) want = spec_tree_close_step(want, g_n0->level);
	if (g_n1 != NULL) want = spec_tree_close_step(want, g_n1->level);
	if (g_n2 != NULL) want = spec_tree_close_step(want, g_n2->level);
	if (res == KSI_OK) {
		__CPROVER_assert(b != NULL && root0 == NULL && g_tb.rootNode != NULL, "close ok: builder given, was open, root set");
		__CPROVER_assert(g_tb.stack[g_w1] == NULL && g_tb.stack[g_w2] == NULL, "close ok: every slot is empty");
		__CPROVER_assert(g_live == live0 + (g_n0 != NULL && g_n1 != NULL) + ((g_n0 != NULL || g_n1 != NULL) && g_n2 != NULL), "close ok: one node allocated per join");
		__CPROVER_assert((long long)g_tb.rootNode->level == want && want <= 0xff, "close ok: root level equals the reference fold of the slot levels");
		__CPROVER_assert(g_tb.rootNode->parent == NULL, "close ok: the root has no parent");
		if (g_n0 != NULL && g_n1 != NULL && g_n2 == NULL)
			__CPROVER_assert(g_tb.rootNode->leftChild == g_n1 && g_tb.rootNode->rightChild == g_n0 && g_n0->parent == g_tb.rootNode && g_n1->parent == g_tb.rootNode,
					"close ok: the older subtree (higher slot) is the left child, links both ways");
		if (g_n0 != NULL && g_n1 != NULL && g_n2 != NULL)
			__CPROVER_assert(g_tb.rootNode->leftChild == g_n2 && g_tb.rootNode->rightChild == g_n0->parent && g_n0->parent == g_n1->parent && g_n0->parent->leftChild == g_n1,
					"close ok: three subtrees are merged as (n2, (n1, n0))");
		if (g_n0 != NULL && g_n1 == NULL && g_n2 == NULL) __CPROVER_assert(g_tb.rootNode == g_n0, "close ok: a single subtree is the root itself");
		REACH("closed");
		if (g_n0 != NULL && g_n1 != NULL && g_n2 != NULL) REACH("closed with two joins");
	} else {
		if (b != NULL) {
			__CPROVER_assert(g_tb.rootNode == root0, "close failed: rootNode unchanged");
			__CPROVER_assert(g_tb.stack[g_w1] == s1 && g_tb.stack[g_w2] == s2, "close failed: stack view restored");
		}
		__CPROVER_assert(g_live == live0, "close failed: nothing allocated by the call survives");
		__CPROVER_assert(IMPLIES(b != NULL && root0 != NULL, res == KSI_INVALID_STATE), "close of a closed tree: KSI_INVALID_STATE");
		__CPROVER_assert(b == NULL || root0 != NULL || (g_n0 == NULL && g_n1 == NULL && g_n2 == NULL && res == KSI_INVALID_STATE) ||
				g_tr_failed || g_alloc_failed > failed0 || want > 0xff || want < -1, "close failed: there is a reason");
		if (g_n0 != NULL) __CPROVER_assert(g_n0->parent == NULL && g_n0->leftChild == NULL && g_n0->rightChild == NULL, "close failed: subtree 0 is untouched");
		if (g_n1 != NULL) __CPROVER_assert(g_n1->parent == NULL && g_n1->leftChild == NULL && g_n1->rightChild == NULL, "close failed: subtree 1 is untouched");
		if (g_n2 != NULL) __CPROVER_assert(g_n2->parent == NULL && g_n2->leftChild == NULL && g_n2->rightChild == NULL, "close failed: subtree 2 is untouched");
		if (g_n0 != NULL && g_n1 != NULL && g_n2 != NULL && root0 == NULL && b != NULL) REACH("close failed in a join");
	}
}
#endif

#ifdef H_getchain
/* Plain mode, bounded: a leaf with 0, 1 or 2 ancestors (arbitrary sides, levels, hash / meta-data siblings).
 * Real KSI_TreeLeafHandle_getAggregationChain + getHashChainLinks; every callee of env/chain_env.h may fail. */
static KSI_TreeNode *mk_tree_node(void) {
	KSI_TreeNode *n = mk_node();
	if (n != NULL && n->metaData != NULL) n->metaData->toMetaDataElement = md_stub_toMetaDataElement;
	return n;
}
static void link_up(KSI_TreeNode *parent, KSI_TreeNode *child, KSI_TreeNode *sib, int childIsLeft) {
	child->parent = parent;
	if (sib != NULL) sib->parent = parent;
	parent->leftChild = childIsLeft ? child : sib;
	parent->rightChild = childIsLeft ? sib : child;
}
void harness(void) {
	KSI_TreeNode *leaf = mk_tree_node(), *s1 = mk_tree_node(), *p1 = mk_tree_node(), *s2 = mk_tree_node(), *p2 = mk_tree_node();
	struct KSI_TreeLeafHandle_st h;
	static struct KSI_AggregationHashChain_st sentinel_obj;
	KSI_AggregationHashChain *sentinel = &sentinel_obj, *out = sentinel;
	int depth = nondet_int(), side1 = nondet_bool(), side2 = nondet_bool(), res;
	long live0; size_t ref0 = 0, sref1 = 0;
	if (leaf == NULL || s1 == NULL || p1 == NULL || s2 == NULL || p2 == NULL) return;
	if (depth < 0 || depth > 2) return;
	if (!TN_WELLFORMED(leaf)) return;          /* leaves come from KSI_TreeNode_new */
	if (depth >= 1) link_up(p1, leaf, nondet_bool() ? s1 : NULL, side1);
	if (depth >= 2) link_up(p2, p1, nondet_bool() ? s2 : NULL, side2);
	g_tb.ctx = &g_ctx_obj; g_tb.algo = (KSI_HashAlgorithm)nondet_int();
	h.ref = 1; h.pBuilder = &g_tb; h.leafNode = leaf;
	g_obj_live = 3; g_ll_n = 0; g_ll_list = NULL;
	live0 = g_obj_live;
	if (leaf->hash != NULL) ref0 = leaf->hash->ref;
	if (s1->hash != NULL) sref1 = s1->hash->ref;
	res = KSI_TreeLeafHandle_getAggregationChain(&h, &out);
	REACH("getAggregationChain returns");
	if (res != KSI_OK) {
		__CPROVER_assert(out == sentinel, "chain failed: out-parameter untouched");
		__CPROVER_assert(g_obj_live == live0, "chain failed: no object created by the call survives");
		__CPROVER_assert(leaf->hash == NULL || leaf->hash->ref == ref0, "chain failed: no reference to the leaf hash is kept");
		__CPROVER_assert(s1->hash == NULL || s1->hash->ref == sref1, "chain failed: no reference to a sibling hash is kept");
		if (depth == 2) REACH("chain extraction failed for a leaf two levels down");
	} else {
		__CPROVER_assert(out != sentinel && out->chain == g_ll_list && g_ll_n == (size_t)depth, "chain ok: one link per ancestor, in the chain's list");
		__CPROVER_assert(out->inputHash == leaf->hash && (leaf->hash == NULL || leaf->hash->ref == ref0 + 1), "chain ok: input hash is the leaf hash (one more reference)");
		__CPROVER_assert(out->aggrHashId != NULL && out->aggrHashId->value == (KSI_uint64_t)g_tb.algo, "chain ok: aggregation algorithm of the builder");
		if (depth >= 1) {
			KSI_TreeNode *sib = side1 ? p1->rightChild : p1->leftChild;
			__CPROVER_assert(g_ll_el[0]->isLeft == side1, "link 1: direction is the side of the child");
			__CPROVER_assert(sib != NULL && g_ll_el[0]->imprint == sib->hash, "link 1: sibling hash");
			__CPROVER_assert((g_ll_el[0]->metaData != NULL) == (sib->metaData != NULL), "link 1: sibling meta-data");
			__CPROVER_assert(p1->level > leaf->level, "link 1: parent level above child level");
			__CPROVER_assert((g_ll_el[0]->levelCorrection == NULL ? 0 : g_ll_el[0]->levelCorrection->value) ==
					(KSI_uint64_t)spec_tree_level_correction(p1->level, leaf->level), "link 1: level correction == parent.level - child.level - 1");
		}
		if (depth >= 2) {
			KSI_TreeNode *sib = side2 ? p2->rightChild : p2->leftChild;
			__CPROVER_assert(g_ll_el[1]->isLeft == side2 && sib != NULL && g_ll_el[1]->imprint == sib->hash, "link 2: direction and sibling hash");
			__CPROVER_assert((g_ll_el[1]->levelCorrection == NULL ? 0 : g_ll_el[1]->levelCorrection->value) ==
					(KSI_uint64_t)spec_tree_level_correction(p2->level, p1->level), "link 2: level correction == parent.level - child.level - 1");
			REACH("two links extracted");
		}
		KSI_AggregationHashChain_free(out);
		__CPROVER_assert(g_obj_live == live0, "chain ok: freeing the chain releases everything it created");
		__CPROVER_assert(leaf->hash == NULL || leaf->hash->ref == ref0, "chain ok: freeing the chain drops its reference to the leaf hash");
	}
}
#endif

#ifdef H_pin
/* processAndInsertNode with a model processor list of 0..2 leaf processors.  A processor (call-back supplied by
 * the owner of the builder, cf. blocksigner.c) either fails, adds nothing, or makes a new node with the real
 * KSI_TreeNode_new (the way maskingProcessor / metaDataProcessor do). */
static KSI_TreeBuilderLeafProcessor g_cb[2];
static size_t g_cbl_len;
static KSI_LIST(KSI_TreeBuilderLeafProcessor) g_cbl;
static int proc_stub(KSI_TreeNode *in, void *c, KSI_TreeNode **out) {
	KSI_TreeNode *t = NULL; int res;
	g_cbl_calls++;
	if (in == NULL || out == NULL) return KSI_INVALID_ARGUMENT;
	if (nondet_bool()) return KSI_INVALID_STATE;
	if (nondet_bool()) { *out = NULL; return KSI_OK; }
	res = KSI_TreeNode_new(&g_ctx_obj, &g_proc_hash, NULL, (int)in->level, &t);
	if (res != KSI_OK) return res;
	*out = t;
	return KSI_OK;
}
static size_t cbl_stub_length(KSI_LIST(KSI_TreeBuilderLeafProcessor) *l) { return g_cbl_len; }
static int cbl_stub_elementAt(KSI_LIST(KSI_TreeBuilderLeafProcessor) *l, size_t pos, KSI_TreeBuilderLeafProcessor **o) {
	if (pos >= g_cbl_len) return KSI_BUFFER_OVERFLOW;
	*o = &g_cb[pos];
	return KSI_OK;
}
void harness(void) {
	KSI_TreeNode *node = mk_node();
	int res;
	if (node == NULL) return;
	mk_builder();
	g_proc_hash.ref = 1000; g_proc_hash.ctx = NULL;
	g_cb[0].fn = proc_stub; g_cb[0].c = NULL; g_cb[0].levelOverhead = 1;
	g_cb[1].fn = proc_stub; g_cb[1].c = NULL; g_cb[1].levelOverhead = 1;
	g_cbl_len = nondet_size();
	if (g_cbl_len > 2) return;
	memset(&g_cbl, 0, sizeof(g_cbl));
	g_cbl.length = cbl_stub_length; g_cbl.elementAt = cbl_stub_elementAt;
	g_tb.cbList = &g_cbl;
	g_live = 9; g_alloc_failed = 0; g_cbl_calls = 0;
	tr_init();
	res = processAndInsertNode(&g_tb, node);
	REACH("processAndInsertNode returns");
	if (res == KSI_OK && g_cbl_len == 2 && g_live == 9 + 4) REACH("inserted under two processor nodes");
	if (res == KSI_OK && g_cbl_len == 0) REACH("inserted without processors");
	if (res != KSI_OK && g_cbl_calls == 2) REACH("failed after the first processor's node was joined");
	/* (audit builderY, dfcc __invalid_ptr sharing) the replaced joinHashes is called once per processor node (loop unwound): twice on one path.
	 * g_live does not tell (the replaced insertNode may add to it); the reference count of the processors' hash does: +1 per node made and kept */
	if (res == KSI_OK && g_cbl_len == 2 && g_proc_hash.ref == 1002) REACH("two processor nodes joined (joinHashes succeeds twice on one path)");
	if (res == KSI_OK && g_cbl_len == 2 && g_proc_hash.ref == 1001) REACH("one processor node joined");
}
#endif

#ifdef H_calc
/* Plain mode, the 256-slot loop unwound completely; at most three subtrees (slots 0..2).  calculateHighestLevel
 * against the reference fold of spec/tree.h and against the contract used by C19.addLeaf (result >= level, no
 * state change). */
void harness(void) {
	unsigned level = nondet_uint(), r; long long want; KSI_TreeNode *s0, *s1, *s2;
	if (!mk_builder_small()) return;
	if (level > 0xffff) return;                       /* addLeaf passes an unsigned short */
	s0 = g_tb.stack[0]; s1 = g_tb.stack[1]; s2 = g_tb.stack[2];
	r = calculateHighestLevel(nondet_bool() ? &g_tb : NULL, level);
	REACH("calculateHighestLevel returns");
	want = level;
	if (g_n0 != NULL) want = spec_tree_height_step(want, g_n0->level);
	if (g_n1 != NULL) want = spec_tree_height_step(want, g_n1->level);
	if (g_n2 != NULL) want = spec_tree_height_step(want, g_n2->level);
	__CPROVER_assert(r == 0 || (long long)r == want, "height pre-check: the reference fold max(slot, running) + 1 over the occupied slots (0 for no builder)");
	__CPROVER_assert(r == 0 || r >= level, "height pre-check: never below the input level");
	__CPROVER_assert(g_tb.stack[0] == s0 && g_tb.stack[1] == s1 && g_tb.stack[2] == s2 && g_tb.rootNode == NULL, "height pre-check: the builder is not changed");
	/* sufficiency for the close-time merge: a subtree of `level` in a lower slot merged with these slots gives at most r */
	if (r != 0 && g_n0 == NULL && g_n1 != NULL && g_n2 != NULL)
		__CPROVER_assert((long long)r >= spec_tree_close_step(spec_tree_close_step(level, g_n1->level), g_n2->level), "height pre-check bounds the close-time root level");
	if (r == level + 3) REACH("three subtrees counted");
}
#endif

#ifdef H_lwo
/* levelWithOverhead over a model processor list of 0..2 processors (plain mode) */
static KSI_TreeBuilderLeafProcessor g_cb[2];
static size_t g_cbl_len;
static KSI_LIST(KSI_TreeBuilderLeafProcessor) g_cbl;
static size_t cbl_stub_length(KSI_LIST(KSI_TreeBuilderLeafProcessor) *l) { return g_cbl_len; }
static int cbl_stub_elementAt(KSI_LIST(KSI_TreeBuilderLeafProcessor) *l, size_t pos, KSI_TreeBuilderLeafProcessor **o) {
	if (pos >= g_cbl_len) return KSI_BUFFER_OVERFLOW;
	*o = &g_cb[pos];
	return KSI_OK;
}
void harness(void) {
	unsigned short in = (unsigned short)nondet_uint(), out = 12345; int res; unsigned sum;
	if (in > 0xff) return;          /* call site (addLeaf): the level has been checked to be 0..255 */
	g_tb.ctx = &g_ctx_obj;
	g_cb[0].levelOverhead = nondet_uchar(); g_cb[1].levelOverhead = nondet_uchar();
	g_cbl_len = nondet_size();
	if (g_cbl_len > 2) return;
	memset(&g_cbl, 0, sizeof(g_cbl));
	g_cbl.length = cbl_stub_length; g_cbl.elementAt = cbl_stub_elementAt;
	g_tb.cbList = nondet_bool() ? &g_cbl : NULL;
	res = levelWithOverhead(&g_tb, in, &out);
	REACH("levelWithOverhead returns");
	sum = in;
	if (g_tb.cbList != NULL && g_cbl_len >= 1) sum += g_cb[0].levelOverhead;
	if (g_tb.cbList != NULL && g_cbl_len >= 2 && sum <= 0xff) sum += g_cb[1].levelOverhead;
	__CPROVER_assert((res == KSI_OK) == (sum <= 0xff || (g_tb.cbList == NULL || g_cbl_len == 0)), "levelWithOverhead: accepted iff every partial sum stays within 0..255 (no processors: the input is passed on)");
	__CPROVER_assert(res == KSI_OK ? (out == sum && out >= in) : out == 12345, "levelWithOverhead: input level plus the overheads of all processors; receiver untouched on refusal");
	if (res == KSI_OK && g_cbl_len == 2 && out == 255) REACH("two overheads add up to 255");
	if (res != KSI_OK) REACH("level overflow refused");
}
#endif

#ifdef H_two_leaves
/* Plain mode, bounded: an empty builder (no processors, no maximum level) takes two or three leaves through the
 * real addLeaf / processAndInsertNode / insertNode / join; then close.  Checks the canonical left-to-right shape:
 * the older leaf is the LEFT child (this is what a swapped join in insertNode breaks). */
void harness(void) {
	KSI_DataHash *h1 = malloc(sizeof(KSI_DataHash)), *h2 = malloc(sizeof(KSI_DataHash)), *h3 = malloc(sizeof(KSI_DataHash));
	KSI_TreeLeafHandle *l1 = NULL, *l2 = NULL, *l3 = NULL; int lv1 = nondet_int(), lv2 = nondet_int(), lv3 = nondet_int(), r1, r2, r3 = -1; int three = nondet_bool();
	if (h1 == NULL || h2 == NULL || h3 == NULL) return;
	h1->ref = 1; h2->ref = 1; h3->ref = 1; h1->ctx = NULL; h2->ctx = NULL; h3->ctx = NULL;
	g_tb.ctx = &g_ctx_obj; g_tb.ref = 1; g_tb.rootNode = NULL; g_tb.algo = KSI_HASHALG_SHA2_256; g_tb.cbList = NULL; g_tb.hsr = &g_hsr; g_tb.maxTreeLevel = 0;
	ZERO64(0) ZERO64(64) ZERO64(128) ZERO64(192)
	g_live = 0; g_alloc_failed = 0; tr_init();
	r1 = addLeaf(&g_tb, h1, NULL, lv1, &l1);
	if (r1 != KSI_OK) return;
	__CPROVER_assert(g_tb.stack[0] == l1->leafNode && l1->leafNode->level == (unsigned)lv1 && lv1 >= 0 && lv1 <= 0xff, "first leaf: slot 0 holds its node, level as given (0..255)");
	r2 = addLeaf(&g_tb, h2, NULL, lv2, &l2);
	REACH("second leaf processed");
	if (r2 != KSI_OK) {
		__CPROVER_assert(g_tb.stack[0] == l1->leafNode && g_tb.stack[1] == NULL && l1->leafNode->parent == NULL && g_live == 2, "second leaf refused: the first leaf is untouched, nothing is kept");
		if (g_alloc_failed == 0 && !g_tr_failed) { __CPROVER_assert(!spec_tree_join_ok(lv1, lv2), "second leaf refused without a fault: only because the level arithmetic leaves 0..255"); REACH("second leaf refused for level overflow"); }
		return;
	}
	__CPROVER_assert(spec_tree_join_ok(lv1, lv2), "second leaf accepted: the level arithmetic stays in 0..255");
	__CPROVER_assert(g_tb.stack[0] == NULL && g_tb.stack[1] != NULL && g_tb.stack[2] == NULL, "two leaves: one subtree, in slot 1");
	__CPROVER_assert(g_tb.stack[1]->leftChild == l1->leafNode && g_tb.stack[1]->rightChild == l2->leafNode, "two leaves: the OLDER leaf is the left child");
	__CPROVER_assert(l1->leafNode->parent == g_tb.stack[1] && l2->leafNode->parent == g_tb.stack[1] && g_tb.stack[1]->parent == NULL, "two leaves: parent links");
	__CPROVER_assert((long long)g_tb.stack[1]->level == spec_tree_join_level(lv1, lv2), "two leaves: level = max + 1");
	if (three) {
		r3 = addLeaf(&g_tb, h3, NULL, lv3, &l3);
		if (r3 != KSI_OK) return;
		__CPROVER_assert(g_tb.stack[0] == l3->leafNode && g_tb.stack[1]->leftChild == l1->leafNode, "three leaves: the third waits in slot 0, the pair is untouched");
	}
	if (KSI_TreeBuilder_close(&g_tb) != KSI_OK) return;
	if (three) {
		__CPROVER_assert(g_tb.rootNode->leftChild == l1->leafNode->parent && g_tb.rootNode->rightChild == l3->leafNode, "closed: ((leaf1, leaf2), leaf3) - left to right");
		REACH("three leaves closed");
	} else {
		__CPROVER_assert(g_tb.rootNode == l1->leafNode->parent, "closed: the pair is the root");
	}
}
#endif
