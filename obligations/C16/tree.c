/* C16: tree builder (tree_builder.c).  Real file included unmodified; hash objects, hasher and
 * meta-data objects are the assumed environment of env/tree_env.h. */
#include "env/common.h"
#include "env/stubs_base.h"
#include "tree_builder.h"
#include "hashchain.h"
#include "env/tree_env.h"
#include "contracts/tree_builder_addnode.h"
#include "contracts/tree_builder_join.h"
#include "contracts/tree_builder_insert.h"
#include "tree_builder.c"

struct KSI_CTX_st { int dummy; };
static struct KSI_CTX_st g_ctx_obj;

/* a heap node with arbitrary content: exactly one of hash / meta-data unless the solver picks otherwise
 * (the contracts state well-formedness as a precondition where a call site guarantees it) */
static KSI_TreeNode *mk_node(void) {
	KSI_TreeNode *n = malloc(sizeof(KSI_TreeNode));
	if (n == NULL) return NULL;
	n->ctx = &g_ctx_obj;
	n->hash = NULL; n->metaData = NULL;
	if (nondet_bool()) {
		n->hash = malloc(sizeof(KSI_DataHash));
		if (n->hash != NULL) { n->hash->ref = 1 + (nondet_bool() ? 1 : 0); n->hash->ctx = NULL; }
	}
	if (nondet_bool()) {
		n->metaData = malloc(sizeof(KSI_MetaData));
		if (n->metaData != NULL) {
			n->metaData->ref = 1; n->metaData->ctx = NULL;
			n->metaData->serializePayload = md_stub_serializePayload;
			n->metaData->toMetaDataElement = NULL;
		}
	}
	n->level = nondet_uint();
	n->parent = NULL; n->leftChild = NULL; n->rightChild = NULL;
	return n;
}

#ifdef H_joinhashes
void harness(void) {
	KSI_DataHasher hsr;
	KSI_TreeNode *l = nondet_bool() ? mk_node() : NULL;
	KSI_TreeNode *r = nondet_bool() ? mk_node() : NULL;
	KSI_DataHash *sentinel = (KSI_DataHash *)nondet_ptr();
	KSI_DataHash *out = sentinel;
	int level = nondet_int();
	int res;
	tr_init();
	if (nondet_bool()) { g_tr_n = nondet_uint(); g_tr_failed = nondet_bool(); }
	res = joinHashes(&g_ctx_obj, &hsr, l, r, level, nondet_bool() ? &out : NULL);
	REACH("joinHashes returns");
	if (res == KSI_OK) REACH("hash step done");
	if (res == KSI_OK && l->metaData != NULL && r->metaData != NULL && g_tr_n == 7) REACH("hash step over two meta-data nodes");
	if (res != KSI_OK && g_tr_failed) REACH("hasher failed");
}
#endif

#ifdef H_join
void harness(void) {
	KSI_DataHasher hsr;
	KSI_TreeNode *l = nondet_bool() ? mk_node() : NULL;
	KSI_TreeNode *r = nondet_bool() ? mk_node() : NULL;
	KSI_TreeNode *sentinel = (KSI_TreeNode *)nondet_ptr();
	KSI_TreeNode *root = sentinel;
	KSI_CTX *ctx = nondet_bool() ? &g_ctx_obj : NULL;
	int res;
	tr_init();
	res = KSI_TreeNode_join(ctx, &hsr, l, r, nondet_bool() ? &root : NULL);
	REACH("join returns");
	if (res == KSI_OK) REACH("join accepted");
	if (res == KSI_OK && l->metaData != NULL) REACH("join accepted, left is meta-data");
	if (res == KSI_OK && r->metaData != NULL && l->metaData != NULL) REACH("join accepted, both meta-data");
	if (res == KSI_OK && root->level == 0xff) REACH("join accepted at level 255");
	if (res != KSI_OK && l != NULL && r != NULL && ctx != NULL && l->level <= 0xff && r->level <= 0xff && !g_tr_failed) REACH("join refused for level overflow or memory");
	if (res != KSI_OK && g_tr_failed) REACH("join refused after hasher error");
}
#endif

/* builder whose 256 slots are each empty or hold the representative occupant (childless); written out
 * without a loop so that contract mode needs no unwinding */
static KSI_TreeBuilder g_tb;
static KSI_DataHasher g_hsr;
#define SLOT1(i) g_tb.stack[i] = nondet_bool() ? &g_occ : NULL;
#define SLOT4(i) SLOT1(i) SLOT1(i + 1) SLOT1(i + 2) SLOT1(i + 3)
#define SLOT16(i) SLOT4(i) SLOT4(i + 4) SLOT4(i + 8) SLOT4(i + 12)
#define SLOT64(i) SLOT16(i) SLOT16(i + 16) SLOT16(i + 32) SLOT16(i + 48)
static void mk_builder(void) {
	g_tb.ctx = &g_ctx_obj; g_tb.ref = 1; g_tb.rootNode = NULL; g_tb.algo = KSI_HASHALG_SHA2_256;
	g_tb.cbList = NULL; g_tb.hsr = &g_hsr; g_tb.maxTreeLevel = (short)nondet_int();
	g_occ_hash.ref = 1000; g_occ_hash.ctx = NULL;
	g_occ.hash = &g_occ_hash; g_occ.metaData = NULL; g_occ.ctx = &g_ctx_obj; g_occ.leftChild = NULL; g_occ.rightChild = NULL;
	g_occ.level = nondet_uint(); g_occ.parent = NULL;
	SLOT64(0) SLOT64(64) SLOT64(128) SLOT64(192)
	g_w1 = nondet_size(); g_w2 = nondet_size();
}

#ifdef H_insert
void harness(void) {
	KSI_TreeNode *node = nondet_bool() ? mk_node() : NULL;
	KSI_TreeBuilder *b = nondet_bool() ? &g_tb : NULL;
	int at = nondet_int();
	int res;
	mk_builder();
	tr_init();
	res = insertNode(b, node, at);
	REACH("insertNode returns");
	if (res == KSI_OK) REACH("accepted");
	if (res == KSI_OK && g_tb.stack[at] == NULL) REACH("accepted with a carry");
	if (res != KSI_OK && b != NULL && node != NULL && node->level <= 0xff) REACH("refused during the carry");
}
#endif

#ifdef H_addnode
void harness(void) {
	KSI_DataHasher hsr;
	KSI_TreeNode *n = nondet_bool() ? mk_node() : NULL;
	int res;
	tr_init();
	g_tr_n = nondet_uint();
	g_tr_failed = nondet_bool();
	if (nondet_bool()) g_tr_hsr = &hsr;
	res = KSI_DataHasher_addTreeNode(nondet_bool() ? &hsr : NULL, n);
	REACH("addTreeNode returns");
	if (res == KSI_OK && n->hash != NULL) REACH("hash node added");
	if (res == KSI_OK && n->hash == NULL && n->metaData != NULL) REACH("meta-data node added");
	if (res == KSI_OK && g_tr_n == TR_MAX) REACH("transcript saturated");
	if (res != KSI_OK && n != NULL) REACH("hasher or serializer failed");
}
#endif
