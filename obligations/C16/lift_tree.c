/* C16 LIFTED jobs (index_lift.json): the loops of tree_builder.c that the bounded jobs of tree.c unwind are closed
 * by LOOP CONTRACTS (contracts/tree_builder_lift.loops.json) - every forest of the 256-slot stack, every number of
 * leaf processors.  Real tree_builder.c, unmodified; environment env/tree_lift_env.h (pool allocator: dfcc does not
 * allow malloc/free inside a loop under a loop contract). */
#include "env/tree_lift_env.h"
#include "tree_builder.h"
#include "hashchain.h"
#include "contracts/tree_builder_addnode.h"     /* KSI_DataHasher_addTreeNode: replaced (enforced by C16.addTreeNode) */
#include "tree_builder.c"
#include "contracts/tree_builder_lift.h"

struct KSI_CTX_st { int dummy; };
static struct KSI_CTX_st g_ctx_obj;
static KSI_TreeBuilder g_tb;
static KSI_DataHasher g_hsr;
static KSI_TreeNode g_closed_root;
static KSI_LIST(KSI_TreeBuilderLeafProcessor) g_cbl;
unsigned short g_lw_out;

/* One slot of the forest: empty or holding ITS OWN node (hash or meta-data node, level 0..255 - nodes held by a
 * builder were made by KSI_TreeNode_new / KSI_TreeNode_join, which refuse other levels), plus one step of every
 * reference fold.  Written out 256 times in straight-line code: no loop, no unwinding, and the tables stay
 * concrete-symbolic facts for the loop invariants. */
#ifdef LIFT_CLOSE_TABLES
#define FSLOT_CLOSE(i, o_) \
	g_cpref[(i) + 1] = (o_) ? spec_tree_close_step(g_cpref[i], (long long)g_np[i]->level) : g_cpref[i]; \
	if ((o_) && g_cnt[i] >= 1) g_jslot[g_cnt[i] - 1] = (i); \
	if ((o_) && g_first == LIFT_SLOTS) g_first = (i); \
	g_cnt[(i) + 1] = g_cnt[i] + ((o_) ? 1 : 0);
#else
#define FSLOT_CLOSE(i, o_)
#endif
#define FSLOT1(i) { _Bool o_ = nondet_bool(); _Bool h_ = nondet_bool(); \
	g_np[i]->ctx = &g_ctx_obj; g_np[i]->hash = h_ ? &g_shash : NULL; g_np[i]->metaData = h_ ? NULL : &g_smd; \
	g_np[i]->level = nondet_uchar(); g_np[i]->parent = NULL; g_np[i]->leftChild = NULL; g_np[i]->rightChild = NULL; \
	g_tb.stack[i] = o_ ? g_np[i] : NULL; \
	g_hpref[(i) + 1] = o_ ? spec_tree_height_step(g_hpref[i], (long long)g_np[i]->level) : g_hpref[i]; \
	FSLOT_CLOSE(i, o_) }
#define FSLOT4(i) FSLOT1(i) FSLOT1(i + 1) FSLOT1(i + 2) FSLOT1(i + 3)
#define FSLOT16(i) FSLOT4(i) FSLOT4(i + 4) FSLOT4(i + 8) FSLOT4(i + 12)
#define FSLOT64(i) FSLOT16(i) FSLOT16(i + 16) FSLOT16(i + 32) FSLOT16(i + 48)
/* the model processor list (its two call-backs are bound with restrict_fp in every job) */
static void mk_list(void) {
	memset(&g_cbl, 0, sizeof(g_cbl));
	g_cbl.length = lw_stub_length; g_cbl.elementAt = lw_stub_elementAt;
}
static void mk_forest(unsigned level) {
	mk_list();
	g_tb.ctx = &g_ctx_obj; g_tb.ref = 1; g_tb.rootNode = NULL; g_tb.algo = KSI_HASHALG_SHA2_256;
	g_tb.cbList = NULL; g_tb.hsr = &g_hsr; g_tb.maxTreeLevel = (short)nondet_int();
	g_shash.ref = 1000; g_shash.ctx = NULL; g_smd.ref = 1000; g_smd.ctx = NULL;
	g_smd.serializePayload = md_stub_serializePayload; g_smd.toMetaDataElement = NULL;
	g_hpref[0] = (long long)level; g_cpref[0] = -1; g_cnt[0] = 0; g_first = LIFT_SLOTS;
	FSLOT64(0) FSLOT64(64) FSLOT64(128) FSLOT64(192)
}

#ifdef H_lift_calc
/* calculateHighestLevel for EVERY forest: the result is the reference fold max(slot, running) + 1 over all
 * occupied slots, starting at the input level; nothing is written (empty assigns clause). */
void harness(void) {
	unsigned level = nondet_uint(), r;
	mk_forest(level);
	g_w = nondet_size();
	r = calculateHighestLevel(&g_tb, level);
	REACH("calculateHighestLevel returns");
	if (r == level) REACH("empty forest: the input level");
	if (r == level + 256) REACH("all 256 slots counted");
	if (r == 256 + 100 && level == 0) REACH("a subtree of level 255 in slot 155 lifts the bound");
}
#endif

#ifdef H_lift_calc_wc
/* The same statement in PLAIN mode: the 256-slot loop (a constant of the code) is unwound completely over the
 * same all-symbolic forest (width-complete cross-check of the loop-contract proof; no dfcc, no loop contract). */
void harness(void) {
	unsigned level = nondet_uint(), r; KSI_TreeNode *s; unsigned lv;
	if (level > 0xffff) return;                       /* addLeaf passes an unsigned short */
	mk_forest(level);
	g_w = nondet_size();
	if (g_w >= LIFT_SLOTS) return;
	s = g_tb.stack[g_w]; lv = g_np[g_w]->level;
	r = calculateHighestLevel(&g_tb, level);
	REACH("calculateHighestLevel returns");
	__CPROVER_assert((long long)r == g_hpref[LIFT_SLOTS], "height pre-check == reference fold max(slot, running) + 1 over ALL 256 slots");
	__CPROVER_assert(r >= level, "height pre-check: never below the input level");
	__CPROVER_assert(g_tb.stack[g_w] == s && g_np[g_w]->level == lv && g_tb.rootNode == NULL, "height pre-check: the builder is not changed (witness slot)");
	if (r == level + 256) REACH("all 256 slots counted");
}
#endif

#ifdef H_lift_lwo
/* levelWithOverhead for EVERY number of leaf processors (list length is an arbitrary size_t) */
void harness(void) {
	unsigned short in = (unsigned short)nondet_uint(); int res;
	g_tb.ctx = &g_ctx_obj; g_tb.ref = 1; g_tb.rootNode = NULL; g_tb.hsr = &g_hsr;
	mk_list();
	g_tb.cbList = nondet_bool() ? &g_cbl : NULL;
	g_lw_len = g_tb.cbList == NULL ? 0 : nondet_size();
	g_lw_fetched = 0; g_lw_sum = in; g_lw_over = 0; g_lw_bad = 0;
	g_lw_out = (unsigned short)nondet_uint();
	res = levelWithOverhead(&g_tb, in, &g_lw_out);
	REACH("levelWithOverhead returns");
	if (res == KSI_OK && g_lw_len == 0) REACH("no processors: the input is passed on");
	if (res == KSI_OK && g_lw_len > 2 && g_lw_out == 255) REACH("more than two overheads add up to 255");
	if (res != KSI_OK && g_lw_over) REACH("level overflow refused");
	if (res != KSI_OK && g_lw_bad) REACH("broken list refused");
}
#endif

#ifdef H_lift_close
/* KSI_TreeBuilder_close for EVERY forest (any subset of the 256 slots, any levels, hash and meta-data nodes),
 * open or already closed builder, every combination of allocation / hasher failures. */
void harness(void) {
	int res;
	mk_forest(0);
	if (nondet_bool()) g_tb.rootNode = &g_closed_root;
	g_w = nondet_size(); g_wj = nondet_size();
	g_live = 7; g_live0 = g_live; g_alloc_failed = 0; g_pool_n = 0; g_hpool_n = 0; g_root0 = g_tb.rootNode;
	tr_init();
	res = KSI_TreeBuilder_close(nondet_bool() ? &g_tb : NULL);
	REACH("close returns");
	if (res == KSI_OK) REACH("closed");
	if (res == KSI_OK && g_cnt[LIFT_SLOTS] == 1) REACH("closed: a single subtree is the root itself");
	if (res == KSI_OK && g_cnt[LIFT_SLOTS] == 200) REACH("closed with 199 joins");
	if (res != KSI_OK && g_cnt[LIFT_SLOTS] >= 5 && g_alloc_failed > 0) REACH("close failed in a join (allocation)");
	if (res != KSI_OK && g_cnt[LIFT_SLOTS] >= 5 && !g_tr_failed && g_alloc_failed == 0 && g_root0 == NULL) REACH("close refused: the merged level would pass 255");
}
#endif
