/* C16 (builderQ): path extraction of tree_builder.c for ANY number of ancestors.
 *   H_q_links    : getHashChainLinks under --enforce-contract-rec (one symbolic step of the ancestor walk, the
 *                  recursive call is the induction hypothesis) - contracts/tree_builder_qchain.h
 *   H_q_getchain : KSI_TreeLeafHandle_getAggregationChain with getHashChainLinks replaced by that contract
 *   H_q_chain4   : plain mode, bounded (<= 4 ancestors), the complete view with concrete links (env/chain_env.h)
 * Real tree_builder.c included unmodified. */
#include "env/common.h"
#include "env/c19_alloc_env.h"
#include "tree_builder.h"
#include "hashchain.h"
#ifdef H_q_chain4
#include "env/tree_env.h"
#include "env/chain_env.h"
#else
#include "env/q_chain_env.h"
#include "contracts/tree_builder_qchain.h"
#endif
#include "tree_builder.c"
#ifndef H_q_chain4
#define QCHAIN_AFTER
#include "contracts/tree_builder_qchain.h"
#endif

struct KSI_CTX_st { int dummy; };
static struct KSI_CTX_st g_ctx_obj;

#ifndef H_q_chain4
/* ONE step of the tree, concretely: the node, its parent, a sibling, and "some other node" (grand parent / stray
 * child).  Every pointer field is NULL or one of these objects, in every combination - including the messy trees
 * the real code guards against (node not a child of its parent, missing sibling, sibling with both / neither of
 * hash and meta-data, levels not ascending). */
static KSI_TreeNode g_node, g_par, g_sib, g_other;
static KSI_DataHash g_hn, g_hs;
static KSI_MetaData g_md;
static KSI_LIST(KSI_HashChainLink) g_list_obj;
static KSI_TreeBuilder g_tb;

static KSI_TreeNode *pick_child(void) {
	unsigned k = nondet_uint() % 4;
	return k == 0 ? &g_node : k == 1 ? &g_sib : k == 2 ? &g_other : NULL;
}
static void mk_step(void) {
	g_node.ctx = nondet_bool() ? &g_ctx_obj : NULL; g_par.ctx = &g_ctx_obj; g_sib.ctx = &g_ctx_obj; g_other.ctx = &g_ctx_obj;
	g_node.level = nondet_uint(); g_par.level = nondet_uint(); g_sib.level = nondet_uint(); g_other.level = nondet_uint();
	g_node.hash = nondet_bool() ? &g_hn : NULL; g_node.metaData = NULL; g_node.leftChild = NULL; g_node.rightChild = NULL;
	g_node.parent = nondet_bool() ? &g_par : NULL;
	g_par.hash = NULL; g_par.metaData = NULL;
	g_par.leftChild = pick_child(); g_par.rightChild = pick_child();
	g_par.parent = nondet_bool() ? &g_other : NULL;
	g_sib.hash = nondet_bool() ? &g_hs : NULL; g_sib.metaData = nondet_bool() ? &g_md : NULL;
	g_sib.parent = &g_par; g_sib.leftChild = NULL; g_sib.rightChild = NULL;
	g_other.hash = &g_hs; g_other.metaData = NULL; g_other.parent = NULL; g_other.leftChild = NULL; g_other.rightChild = NULL;
	g_md.ctx = NULL; g_md.ref = 1; g_md.toMetaDataElement = q_md_toMetaDataElement; g_md.serializePayload = NULL;
	g_hn.ref = 1; g_hs.ref = 1;
}
#endif

#ifdef H_q_links
void harness(void) {
	size_t n0, togo0; _Bool set0; int res;
	mk_step();
	memset(&g_list_obj, 0, sizeof(g_list_obj));
	g_list_obj.append = q_ll_append;
	g_q_list = &g_list_obj;
	/* the walk is somewhere in the middle of a chain: arbitrary counters, witness ahead / behind / here */
	g_q_n = nondet_size(); g_q_owned = nondet_size(); g_q_owned_href = nondet_size();
	g_qc_live = nondet_size(); g_qc_href = nondet_size();
	g_q_togo = nondet_size(); g_qw_set = nondet_bool();
	g_q_walk = &g_node; g_q_walk_root = (g_node.parent == NULL);
	n0 = g_q_n; togo0 = g_q_togo; set0 = g_qw_set; g_qc_alloc_failed = 0;
	res = getHashChainLinks(nondet_bool() ? &g_node : NULL, nondet_bool() ? &g_list_obj : NULL);
	REACH("getHashChainLinks returns");
	if (res == KSI_OK && g_node.parent == NULL) REACH("root: nothing appended");
	if (res == KSI_OK && g_node.parent != NULL && g_par.leftChild == &g_node) REACH("left child: link appended, walk went on to the root");
	if (res == KSI_OK && g_node.parent != NULL && g_par.rightChild == &g_node && g_sib.metaData != NULL) REACH("right child with a meta-data sibling");
	if (res == KSI_OK && !set0 && togo0 == 0 && g_node.parent != NULL) REACH("the witness link is the link of this step");
	if (res == KSI_OK && !set0 && togo0 == 5 && g_qw_set) REACH("the witness link is further up");
	if (res == KSI_OK && g_node.parent != NULL && g_par.level > g_node.level + 1) REACH("link with a level correction");
	if (res != KSI_OK && g_q_n != n0) REACH("failure further up: a prefix of links stays in the list");
	if (res == KSI_INVALID_STATE && g_q_n == n0 && g_node.parent != NULL) REACH("messy tree refused");
	if (res == KSI_OUT_OF_MEMORY && g_qc_alloc_failed && g_q_n == n0) REACH("allocation failure in this step handled");
}
#endif

#ifdef H_q_getchain
void harness(void) {
	struct KSI_TreeLeafHandle_st h;
	static struct KSI_AggregationHashChain_st sentinel_obj;
	unsigned long live0, href0; size_t togo0; int res;
	mk_step();
	g_tb.ctx = nondet_bool() ? &g_ctx_obj : NULL; g_tb.algo = (KSI_HashAlgorithm)nondet_int();
	h.ref = 1; h.pBuilder = &g_tb; h.leafNode = &g_node;
	g_q_chain_out = &sentinel_obj;
	g_q_list = NULL; g_q_n = 0; g_q_owned = 0; g_q_owned_href = 0; g_qw_set = 0;
	g_qc_live = nondet_size(); g_qc_href = nondet_size(); g_q_togo = nondet_size();
	g_q_walk = &g_node; g_q_walk_root = (g_node.parent == NULL);
	live0 = g_qc_live; href0 = g_qc_href; togo0 = g_q_togo; g_qc_alloc_failed = 0;
	res = KSI_TreeLeafHandle_getAggregationChain(nondet_bool() ? &h : NULL, nondet_bool() ? &g_q_chain_out : NULL);
	REACH("getAggregationChain returns");
	if (res == KSI_OK) {
		REACH("chain extracted");
		if (g_q_n == 0) REACH("chain of a root leaf: no links");
		if (g_qw_set && togo0 == 3) REACH("chain with more than 3 links: witness link 3 recorded");
		if (!g_qw_set && g_q_n == 7) REACH("chain of 7 links, witness beyond the end");
		/* the caller's release gives everything back (C19: freeable result) */
		KSI_AggregationHashChain_free(g_q_chain_out);
		__CPROVER_assert(g_qc_live == live0 && g_qc_href == href0, "chain ok: freeing the chain releases everything the call created and every hash reference");
	} else {
		__CPROVER_assert(g_q_chain_out == &sentinel_obj, "chain failed: out-parameter untouched");
		if (g_q_walk != &g_node) REACH("failed after links had been collected");
		if (res == KSI_OUT_OF_MEMORY && g_qc_alloc_failed) REACH("allocation failure handled");
	}
}
#endif

#ifdef H_q_chain4
/* Plain mode, bounded: a leaf with 0..4 ancestors, arbitrary sides / levels / hash or meta-data siblings; real
 * KSI_TreeLeafHandle_getAggregationChain + getHashChainLinks (recursion unwound); the concrete model list of
 * env/chain_env.h records the links, every callee may fail (also by allocation failure). */
#ifndef DEPTH_MAX
#define DEPTH_MAX 4
#endif
#ifndef TN_WELLFORMED
#define TN_WELLFORMED(n) ((n) == NULL || (((n)->hash != NULL) != ((n)->metaData != NULL)))
#endif
static KSI_TreeBuilder g_tb;
static KSI_TreeNode *mk_tree_node(void) {
	KSI_TreeNode *n = malloc(sizeof(KSI_TreeNode));
	if (n == NULL) return NULL;
	n->ctx = &g_ctx_obj; n->hash = NULL; n->metaData = NULL;
	if (nondet_bool()) {
		n->hash = malloc(sizeof(KSI_DataHash));
		if (n->hash != NULL) { n->hash->ref = 1; n->hash->ctx = NULL; }
	} else {
		n->metaData = malloc(sizeof(KSI_MetaData));
		if (n->metaData != NULL) { n->metaData->ref = 1; n->metaData->ctx = NULL; n->metaData->serializePayload = md_stub_serializePayload; n->metaData->toMetaDataElement = md_stub_toMetaDataElement; }
	}
	n->level = nondet_uint();
	n->parent = NULL; n->leftChild = NULL; n->rightChild = NULL;
	return n;
}
void harness(void) {
	KSI_TreeNode *path[DEPTH_MAX + 1], *sib[DEPTH_MAX + 1]; _Bool side[DEPTH_MAX + 1];
	struct KSI_TreeLeafHandle_st h;
	static struct KSI_AggregationHashChain_st sentinel_obj;
	KSI_AggregationHashChain *sentinel = &sentinel_obj, *out = sentinel;
	int depth = nondet_int(), res, k; long live0; size_t ref0 = 0, sref[DEPTH_MAX + 1];
	if (depth < 0 || depth > DEPTH_MAX) return;
	path[0] = mk_tree_node(); if (path[0] == NULL || !TN_WELLFORMED(path[0])) return;
	for (k = 1; k <= DEPTH_MAX; k++) {
		path[k] = NULL; sib[k] = NULL; side[k] = 0; sref[k] = 0;
		if (k <= depth) {
			path[k] = mk_tree_node(); sib[k] = mk_tree_node(); side[k] = nondet_bool();
			if (path[k] == NULL || sib[k] == NULL || !TN_WELLFORMED(sib[k])) return;
			/* trees are made by KSI_TreeNode_join (C16.join): both children present, links both ways */
			path[k - 1]->parent = path[k]; sib[k]->parent = path[k];
			path[k]->leftChild = side[k] ? path[k - 1] : sib[k];
			path[k]->rightChild = side[k] ? sib[k] : path[k - 1];
			if (sib[k]->hash != NULL) sref[k] = sib[k]->hash->ref;
		}
	}
	g_tb.ctx = &g_ctx_obj; g_tb.algo = (KSI_HashAlgorithm)nondet_int();
	h.ref = 1; h.pBuilder = &g_tb; h.leafNode = path[0];
	g_obj_live = 3; g_ll_n = 0; g_ll_list = NULL;
	live0 = g_obj_live;
	if (path[0]->hash != NULL) ref0 = path[0]->hash->ref;
	res = KSI_TreeLeafHandle_getAggregationChain(&h, &out);
	REACH("getAggregationChain returns");
	if (res != KSI_OK) {
		__CPROVER_assert(out == sentinel, "chain4 failed: out-parameter untouched");
		__CPROVER_assert(g_obj_live == live0, "chain4 failed: no object created by the call survives");
		__CPROVER_assert(path[0]->hash == NULL || path[0]->hash->ref == ref0, "chain4 failed: no reference to the leaf hash is kept");
		for (k = 1; k <= DEPTH_MAX; k++) if (k <= depth && sib[k]->hash != NULL)
			__CPROVER_assert(sib[k]->hash->ref == sref[k], "chain4 failed: no reference to a sibling hash is kept");
		if (depth == DEPTH_MAX) REACH("extraction failed for a leaf of the maximum depth");
	} else {
		__CPROVER_assert(out != sentinel && out->chain == g_ll_list && g_ll_n == (size_t)depth, "chain4 ok: one link per ancestor, in the chain's list");
		__CPROVER_assert(out->inputHash == path[0]->hash && (path[0]->hash == NULL || path[0]->hash->ref == ref0 + 1), "chain4 ok: input hash is the leaf hash (one more reference)");
		__CPROVER_assert(out->aggrHashId != NULL && out->aggrHashId->value == (KSI_uint64_t)g_tb.algo, "chain4 ok: aggregation algorithm of the builder");
		for (k = 1; k <= DEPTH_MAX; k++) if (k <= depth) {
			KSI_HashChainLink *l = g_ll_el[k - 1];
			__CPROVER_assert((l->isLeft != 0) == side[k], "chain4 link k: direction is the side of the child (in order, leaf first)");
			__CPROVER_assert(l->imprint == sib[k]->hash && (l->metaData != NULL) == (sib[k]->metaData != NULL), "chain4 link k: sibling hash / meta-data");
			__CPROVER_assert(path[k]->level > path[k - 1]->level &&
					(long long)(l->levelCorrection == NULL ? 0 : l->levelCorrection->value) == spec_tree_level_correction(path[k]->level, path[k - 1]->level),
					"chain4 link k: level correction == parent.level - child.level - 1");
			__CPROVER_assert(sib[k]->hash == NULL || sib[k]->hash->ref == sref[k] + 1, "chain4 link k: the link holds one reference to the sibling hash");
		}
		if (depth == DEPTH_MAX) REACH("maximum number of links extracted");
		if (depth == DEPTH_MAX && g_ll_el[DEPTH_MAX - 1]->levelCorrection != NULL && g_ll_el[0]->metaData != NULL) REACH("maximum depth, meta-data sibling at the leaf, level gap at the top");
		KSI_AggregationHashChain_free(out);
		__CPROVER_assert(g_obj_live == live0, "chain4 ok: freeing the chain releases everything it created");
		__CPROVER_assert(path[0]->hash == NULL || path[0]->hash->ref == ref0, "chain4 ok: freeing the chain drops its reference to the leaf hash");
	}
}
#endif
