/* C09 / C10 / C19 (builderX): the element VALUE accessors of the REAL tlv_element.c -
 * KSI_TlvElement_setInteger / getInteger, setOctetString / getOctetString, setUtf8String / getUtf8String - running on the REAL
 * KSI_TlvElement_new / detach / remap / serialize / setElement / getElement / convertToNested / parse, the REAL list.c, the REAL
 * header reader of fast_tlv.c and the REAL value objects of types_base.c (KSI_Integer_new, KSI_OctetString_new / extract,
 * KSI_Utf8String_new / size / cstr, verifyUtf8), all included unmodified.
 *
 * From the property texts (C09: "serialization followed by parsing yields the same tree (tags, flags, payload bytes, nesting),
 * using the two-byte header exactly when tag <= 0x1f and length <= 0xff"; C10: "integers minimally encoded within 64 bits, strings
 * NUL-terminated without embedded NUL and with well-formed UTF-8"; C19: a failed allocation leaves everything as it was):
 *
 *   set<T>(P, t, value), cnt = number of children of P carrying tag t:
 *     OK iff cnt <= 1 (INVALID_STATE iff cnt >= 2, OUT_OF_MEMORY only when an allocation failed);
 *     OK  => view(P)' = view ++ (N) (cnt = 0) or view[i := N] (cnt = 1, the replaced child released exactly once) - the 'exactly one'
 *            rule: afterwards exactly one child carries t; N is a NEW leaf: tag t, both flags clear, one reference (the list's),
 *            OWNS a buffer of its own (not the caller's value object), that buffer holds the canonical header (2 octets iff t <= 0x1f
 *            and length <= 0xff) followed by the payload:
 *              integer v : the minimal big-endian encoding, no leading zero octet, 0 = empty payload
 *              octets    : exactly the octets of the value
 *              string    : exactly the octets of the value INCLUDING its terminating NUL
 *            the caller's value object is untouched and keeps its reference count (the element keeps a copy, not a reference);
 *            the parent's declared payload length stays the sum of what its children declare (fix 6a8cac0);
 *     failure => the tree (view, every node field for field, every reference count, declared lengths) and the live blocks unchanged.
 *   get<T>(P, ctx, t, &out) afterwards: OK and the value read back equals the value set (integer value / exact octets / exact string
 *     with terminator), as a NEW value object (or a pooled integer); the tree is untouched by get and nothing stays allocated.
 *   get<T> on an arbitrary leaf (-DEV_OP_GET): integer: OK iff payload <= 8 octets, value = big-endian reading, INVALID_FORMAT and
 *     *out untouched otherwise; string: OK iff NUL-terminated, no embedded NUL, well-formed UTF-8 (spec/utf8.h); octets: always;
 *     absent tag: OK and *out = NULL; several: INVALID_STATE.
 *   releasing every reference at the end releases every block exactly once (live counter 0; double free = failed free precondition).
 *
 * -DEV_OP_RT: KSI_TlvElement_new + setInteger + setOctetString + serialize == spec/tlvtree.h, KSI_TlvElement_parse of those octets +
 *             getInteger / getOctetString return the values set (the round trip of the property statement through the value API).
 * -DEV_OP_STALE / EV_OP_STALE_OK: depth 2 (see there).
 *
 * BOUNDED: depth 1, EV_NK leaf children (fixed per job), child payload <= EV_CMAXP, value payload <= EV_MAXP (integers: all 2^64
 * values).  Plain mode, loops / recursion unwound with unwinding assertions. */
#include "env/common.h"
#include <stdlib.h>
#define KSI_malloc ev_unused_malloc
#define KSI_calloc ev_unused_calloc
#define KSI_free ev_unused_free
#include "env/stubs_base.h"
#undef KSI_malloc
#undef KSI_calloc
#undef KSI_free
#include "tlv_element.h"
#include "fast_tlv.h"
#include "spec/tlvtree.h"
#include "spec/utf8.h"
#include "spec/intcodec.h"

#ifndef EV_MAXP
#define EV_MAXP 2
#endif
#ifndef EV_CMAXP
#define EV_CMAXP 1
#endif
#ifndef EV_NK
#define EV_NK 1
#endif
#define EV_MOBJ (4 + (EV_MAXP > EV_CMAXP ? EV_MAXP : EV_CMAXP) + 2)      /* model object for every small buffer of symbolic size */

/* ---- allocation funnels [ASSUMED: pass-through as base.c]; failures only while g_fail_on.  A block of at most EV_MOBJ octets (the
 * buffers of symbolic size: detach's encoding, value copies) is carved out of a model object of CONSTANT size, placed
 * nondeterministically at its START or its END (an access in front of / behind the block is out of bounds for CBMC in one of the
 * two placements); a dynamic object of symbolic size is what makes these jobs intractable (NOTES_detach.md). ------------------- */
static _Bool g_fail_on; static unsigned g_fails; static long g_live;
#define EV_NMO 6
static unsigned char *g_mo_ptr[EV_NMO], *g_mo_base[EV_NMO]; static size_t g_mo_n;
void *KSI_malloc(size_t n) {
	void *p;
	if (g_fail_on && nondet_bool()) { g_fails++; return NULL; }
	if (n <= EV_MOBJ) {
		unsigned char *b = malloc(EV_MOBJ);
		if (b == NULL) return NULL;
		__CPROVER_assert(g_mo_n < EV_NMO, "harness: model-object table is large enough");
#if defined(EV_PLACE_START)
		p = b;
#elif defined(EV_PLACE_END)
		p = b + (EV_MOBJ - n);
#else
		p = nondet_bool() ? b : b + (EV_MOBJ - n);
#endif
		g_mo_ptr[g_mo_n] = p; g_mo_base[g_mo_n] = b; g_mo_n++;
	} else p = malloc(n);
	if (p != NULL) g_live++;
	return p;
}
void *KSI_calloc(size_t a, size_t b) { void *p; if (g_fail_on && nondet_bool()) { g_fails++; return NULL; } p = calloc(a, b); if (p != NULL) g_live++; return p; }
void KSI_free(void *p) {
	size_t i;
	if (p == NULL) return;
	g_live--;
	for (i = 0; i < EV_NMO; i++) if (i < g_mo_n && g_mo_ptr[i] == (unsigned char *)p) { g_mo_ptr[i] = NULL; free(g_mo_base[i]); return; }
	free(p);
}

#include "fast_tlv.c"
#include "list.c"
#include "env/memops_exact.h"
#include "types_base.c"
#include "tlv_element.c"

static char ctx_mem[8];
#define CTX ((KSI_CTX *)ctx_mem)            /* opaque, never dereferenced (error stack / log stubs) */

/* ---- the tree -------------------------------------------------------------------------------------------------------- */
#define NC 3
static KSI_TlvElement *P, *C[NC];
static struct KSI_TlvElement_st P0, C0[NC];
static unsigned char pay0[NC][EV_CMAXP + 4 + 1];

static KSI_TlvElement *mk_leaf(size_t bi, unsigned tag) {
	KSI_TlvElement *e = NULL; size_t h = nondet_size(), d = nondet_size(), i;
	if (KSI_TlvElement_new(&e) != KSI_OK || e == NULL) return NULL;
	__CPROVER_assume((h == 0 || h == 2 || h == 4) && d <= EV_CMAXP);
	e->ftlv.tag = tag;
	e->ftlv.is_nc = nondet_bool(); e->ftlv.is_fwd = nondet_bool(); e->ftlv.off = nondet_size();
	e->ftlv.hdr_len = h; e->ftlv.dat_len = d;
	e->ptr = malloc(EV_CMAXP + 4 + 1); e->ptr_own = 1;
	if (e->ptr == NULL) { KSI_TlvElement_free(e); return NULL; }
	g_live++;                                                       /* an owned buffer is a block of the funnels */
	for (i = 0; i < EV_CMAXP + 4 + 1; i++) { e->ptr[i] = nondet_uchar(); if (bi < NC) pay0[bi][i] = e->ptr[i]; }
	return e;
}
static int node_same(const KSI_TlvElement *a, const struct KSI_TlvElement_st *b, size_t dref) {
	return a->ref == b->ref + dref && a->ptr == b->ptr && a->ptr_own == b->ptr_own && a->subList == b->subList &&
			a->ftlv.off == b->ftlv.off && a->ftlv.hdr_len == b->ftlv.hdr_len && a->ftlv.dat_len == b->ftlv.dat_len &&
			a->ftlv.tag == b->ftlv.tag && a->ftlv.is_nc == b->ftlv.is_nc && a->ftlv.is_fwd == b->ftlv.is_fwd;
}
static int buf_same(size_t bi) {
	size_t i; int ok = 1;
	for (i = 0; i < EV_CMAXP + 4 + 1; i++) ok = ok && C0[bi].ptr[i] == pay0[bi][i];
	return ok;
}
static size_t declared(const struct KSI_TlvElement_st *s) { return s->ftlv.hdr_len + s->ftlv.dat_len; }
/* harness-side list reads: one indirect call each (restrict_fp ordinals) */
static size_t view_len(KSI_TlvElement *p) { return KSI_TlvElementList_length(p->subList); }
static KSI_TlvElement *view_at(KSI_TlvElement *p, size_t i) { KSI_TlvElement *e = NULL; if (KSI_TlvElementList_elementAt(p->subList, i, &e) != KSI_OK) return NULL; return e; }
static int view_add(KSI_TlvElement *p, KSI_TlvElement *c) { return KSI_TlvElementList_append(p->subList, c); }

#ifndef EV_QTAG
#define EV_QTAG 0x1fu
#endif
static unsigned tag_of(unsigned pat, size_t i, unsigned q) { return ((pat >> i) & 1u) ? q : q + 1u + (unsigned)i; }

/* ---- the value under test ---------------------------------------------------------------------------------------------- */
#if defined(EV_T_INT)
typedef KSI_Integer ev_val;
#define EV_SET KSI_TlvElement_setInteger
#define EV_GET KSI_TlvElement_getInteger
#define EV_VFREE KSI_Integer_free
#elif defined(EV_T_OCT)
typedef KSI_OctetString ev_val;
#define EV_SET KSI_TlvElement_setOctetString
#define EV_GET KSI_TlvElement_getOctetString
#define EV_VFREE KSI_OctetString_free
#elif defined(EV_T_STR)
typedef KSI_Utf8String ev_val;
#define EV_SET KSI_TlvElement_setUtf8String
#define EV_GET KSI_TlvElement_getUtf8String
#define EV_VFREE KSI_Utf8String_free
#endif

#if defined(EV_T_INT) || defined(EV_T_OCT) || defined(EV_T_STR)
static unsigned char vb[EV_MAXP + 1]; static size_t vlen; static unsigned long long vint;
/* k-th payload octet the value must have inside the tree */
static unsigned char val_byte(size_t k) {
#if defined(EV_T_INT)
	return spec_tt_uint_byte(vint, k);
#else
	return vb[k];
#endif
}
static ev_val *mk_value(void) {
	ev_val *v = NULL; size_t i;
#if defined(EV_T_INT)
	vint = nondet_ull();
#ifdef EV_VMAX
	__CPROVER_assume(vint <= EV_VMAX);
#endif
	vlen = spec_tt_uint_len(vint);
	if (KSI_Integer_new(CTX, vint, &v) != KSI_OK) return NULL;
#else
	vlen = nondet_size(); __CPROVER_assume(vlen <= EV_MAXP);
	for (i = 0; i < EV_MAXP + 1; i++) vb[i] = nondet_uchar();
#if defined(EV_T_OCT)
	if (KSI_OctetString_new(CTX, vb, vlen, &v) != KSI_OK) return NULL;
#else
	__CPROVER_assume(vlen >= 1);
	if (KSI_Utf8String_new(CTX, (const char *)vb, vlen, &v) != KSI_OK) return NULL;     /* refuses what is not a well-formed string */
	__CPROVER_assert(spec_utf8_wellformed(vb, vlen), "value api: a string object exists only for a NUL-terminated well-formed UTF-8 string");
#endif
#endif
	return v;
}
/* the value object read back equals the value set */
static int val_equals(const ev_val *o) {
	size_t i; int ok = 1;
#if defined(EV_T_INT)
	return o != NULL && KSI_Integer_getUInt64(o) == vint;
#elif defined(EV_T_OCT)
	const unsigned char *d = NULL; size_t n = 0;
	if (o == NULL || KSI_OctetString_extract(o, &d, &n) != KSI_OK || n != vlen) return 0;
	for (i = 0; i < EV_MAXP; i++) if (i < vlen) ok = ok && d[i] == vb[i];
	return ok;
#else
	const char *s;
	if (o == NULL || KSI_Utf8String_size(o) != vlen) return 0;
	s = KSI_Utf8String_cstr(o);
	for (i = 0; i < EV_MAXP; i++) if (i < vlen) ok = ok && (unsigned char)s[i] == vb[i];
	return ok;
#endif
}
static size_t val_ref(const ev_val *o) { return o->ref; }
#endif

#if defined(EV_OP_SETGET)
static void one(unsigned pat) {
	size_t i, n1, cnt, first = 0, sum0 = 0, sum1 = 0, kb = nondet_size(), nexp, vref0;
	unsigned tags[NC]; const unsigned q_tag = EV_QTAG;
	KSI_TlvElement *exp[NC + 1], *got[NC + 1], *N = NULL;
	ev_val *val, *out = NULL; ev_val *const sentinel = (ev_val *)ctx_mem;
	int res, res2; long live0, live1; _Bool cons, is_replace = 0, is_append = 0;

	g_fails = 0; g_fail_on = 0; g_live = 0; g_mo_n = 0;
	if (KSI_TlvElement_new(&P) != KSI_OK || P == NULL) return;
	P->ftlv.tag = nondet_uint(); __CPROVER_assume(P->ftlv.tag <= SPEC_TLV_MAX_TAG);
	P->ftlv.is_nc = nondet_bool(); P->ftlv.is_fwd = nondet_bool(); P->ftlv.off = nondet_size();
	P->ftlv.hdr_len = nondet_size(); P->ftlv.dat_len = nondet_size();
	if (KSI_TlvElementList_new(&P->subList) != KSI_OK || P->subList == NULL) return;
	for (i = 0; i < EV_NK; i++) {
		C[i] = mk_leaf(i, tag_of(pat, i, q_tag));
		if (C[i] == NULL) return;
		if (view_add(P, KSI_TlvElement_ref(C[i])) != KSI_OK) return;
		C0[i] = *C[i]; tags[i] = C[i]->ftlv.tag; sum0 += declared(&C0[i]);
	}
#if EV_NK == 0
	P->ftlv.dat_len = 0;
#endif
	P0 = *P; cons = (P0.ftlv.dat_len == sum0);
	val = mk_value();
	if (val == NULL) return;
	vref0 = val_ref(val);

	live0 = g_live;
#ifdef EV_OOM
	g_fail_on = 1;
#endif
	res = EV_SET(P, q_tag, val);
	g_fail_on = 0;
	cnt = spec_tt_count_tag(tags, EV_NK, q_tag, &first);

	/* ---- result code ---------------------------------------------------------------------------------------------------- */
#ifdef EV_OOM
	__CPROVER_assert(res == KSI_OK || res == KSI_INVALID_STATE || res == KSI_OUT_OF_MEMORY, "value api: set returns OK, INVALID_STATE or OUT_OF_MEMORY");
	__CPROVER_assert(IMPLIES(res == KSI_OUT_OF_MEMORY, g_fails > 0), "value api: OUT_OF_MEMORY only when an allocation failed");
#else
	__CPROVER_assert(res == KSI_OK || res == KSI_INVALID_STATE, "value api: set returns OK or INVALID_STATE");
#endif
	__CPROVER_assert(IMPLIES(res == KSI_OK, cnt <= 1), "value api: set succeeds only if at most one child carries the tag ('exactly one' rule)");
	__CPROVER_assert(IMPLIES(cnt >= 2 && g_fails == 0, res == KSI_INVALID_STATE), "value api: set is INVALID_STATE when several children carry the tag");
	__CPROVER_assert(IMPLIES(cnt <= 1 && g_fails == 0, res == KSI_OK), "value api: set is never refused when at most one child carries the tag");

	/* ---- the WHOLE child view --------------------------------------------------------------------------------------------- */
	for (i = 0; i < EV_NK; i++) exp[i] = C[i];
	nexp = EV_NK;
	if (res == KSI_OK) { if (cnt == 0) { is_append = 1; nexp = EV_NK + 1; first = EV_NK; } else is_replace = 1; }
	__CPROVER_assert(P->subList == P0.subList, "value api: the parent keeps its child list object");
	n1 = view_len(P);
	__CPROVER_assert(n1 == nexp, "value api: number of children = old number, +1 when the tag was absent");
	for (i = 0; i < NC + 1; i++) {
		got[i] = (i < n1) ? view_at(P, i) : NULL;
		__CPROVER_assert(IMPLIES(i < n1, got[i] != NULL), "value api: every position of the child view is readable");
		if (i < nexp && i < n1 && !((is_append || is_replace) && i == first))
			__CPROVER_assert(got[i] == exp[i], "value api: WHOLE child view - every child but the one set keeps identity and order");
	}
	/* ---- every old node ----------------------------------------------------------------------------------------------------- */
	for (i = 0; i < EV_NK; i++) {
		if (is_replace && i == first) {
			__CPROVER_assert(C[i]->ref == C0[i].ref - 1, "value api: the replaced child is released exactly once (the harness's own reference survives)");
			__CPROVER_assert(C[i]->ptr == C0[i].ptr && C[i]->ptr_own == C0[i].ptr_own && C[i]->ftlv.dat_len == C0[i].ftlv.dat_len && C[i]->ftlv.tag == C0[i].ftlv.tag, "value api: a released child that is still referenced keeps its content");
		} else {
			__CPROVER_assert(node_same(C[i], &C0[i], 0), "value api: every other child is field for field as before");
		}
		__CPROVER_assert(buf_same(i), "value api: no payload octet of any old child is modified");
	}
	__CPROVER_assert(P->ref == P0.ref && P->ptr == P0.ptr && P->ptr_own == P0.ptr_own && P->ftlv.tag == P0.ftlv.tag && P->ftlv.is_nc == P0.ftlv.is_nc &&
			P->ftlv.is_fwd == P0.ftlv.is_fwd && P->ftlv.off == P0.ftlv.off && P->ftlv.hdr_len == P0.ftlv.hdr_len, "value api: the parent's own tag, flags, buffer and reference count are untouched");
	__CPROVER_assert(val_ref(val) == vref0 && val_equals(val), "value api: the caller's value object is untouched and keeps its reference count (the element keeps a copy)");

	/* ---- the new leaf --------------------------------------------------------------------------------------------------------- */
	if (is_append || is_replace) {
		size_t h = spec_tlv_enc_hdr_len(q_tag, vlen);
		N = got[first];
		if (N != NULL) {
			for (i = 0; i < EV_NK; i++) __CPROVER_assert(N != C[i], "value api: the value is held by a NEW element");
			__CPROVER_assert(N->ref == 1, "value api: ownership - the new element has exactly one reference, the child list's");
			__CPROVER_assert(N->subList == NULL && N->ftlv.tag == q_tag && !N->ftlv.is_nc && !N->ftlv.is_fwd, "value api: the new element is a leaf with the tag set and both flags clear");
			__CPROVER_assert(N->ftlv.dat_len == vlen, "value api: payload length = minimal big-endian length (0 for the value 0) / number of octets / string size incl. terminator");
			__CPROVER_assert(N->ftlv.hdr_len == h && N->ftlv.off == 0, "value api: the new element reports the canonical header form (2 octets iff tag <= 0x1f and length <= 0xff)");
			__CPROVER_assert(N->ptr != NULL && N->ptr_own == 1, "value api: ownership - the new element owns its buffer");
			__CPROVER_assert(__CPROVER_r_ok(N->ptr, h + vlen), "value api: the new element's buffer holds header and payload");
			__CPROVER_assert(IMPLIES(kb < h, N->ptr[kb] == spec_tlv_enc_hdr_byte(q_tag, 0, 0, vlen, kb)), "value api: header octets of the new element = reference encoding (witness index)");
			__CPROVER_assert(IMPLIES(kb < vlen, N->ptr[h + kb] == val_byte(kb)), "value api: payload octets = the value (integers: big-endian, most significant octet first and non-zero; strings: incl. the terminating NUL) (witness index)");
#if defined(EV_T_INT)
			__CPROVER_assert(IMPLIES(vlen > 0, N->ptr[h] != 0), "value api: integer encoding has no leading zero octet");
			__CPROVER_assert(IMPLIES(vint == 0, N->ftlv.dat_len == 0), "value api: the integer 0 is encoded as an empty payload");
#elif defined(EV_T_STR)
			__CPROVER_assert(vlen >= 1 && N->ptr[h + vlen - 1] == 0, "value api: a string payload ends with its NUL terminator");
#endif
			sum1 = declared(N);
		}
	}
	for (i = 0; i < EV_NK; i++) if (!(is_replace && i == first)) sum1 += declared(&C0[i]);
	__CPROVER_assert(IMPLIES(!(is_append || is_replace), P->ftlv.dat_len == P0.ftlv.dat_len), "value api: a failed set leaves the parent's declared payload length untouched");
	__CPROVER_assert(IMPLIES(cons, P->ftlv.dat_len == sum1), "value api: the parent's declared payload length stays the sum of what its children declare");
	__CPROVER_assert(g_live == live0 + ((is_append || is_replace) ? 2 : 0) + ((is_append && EV_NK == 0) ? 1 : 0),
			"value api: set allocates exactly the new element and its buffer (+ the child array of a first append); a failed set leaves nothing allocated");

	/* ---- reading the value back ------------------------------------------------------------------------------------------------ */
	live1 = g_live; out = sentinel;
#ifdef EV_NO_GET
	res2 = KSI_UNKNOWN_ERROR;       /* set-only job: the get direction is decided by the elval_*_get_* jobs on arbitrary leaves + C09.elval_lemma_int */
	if (0) {
#else
	res2 = EV_GET(P, CTX, q_tag, &out);
	if (res == KSI_OK) {
#endif
		__CPROVER_assert(res2 == KSI_OK, "value api: get after a successful set succeeds");
		__CPROVER_assert(IMPLIES(res2 == KSI_OK, out != sentinel && out != NULL && val_equals(out)), "value api: set-then-get returns an equal value");
#if !defined(EV_T_INT)
		__CPROVER_assert(IMPLIES(res2 == KSI_OK, out != val && val_ref(out) == 1), "value api: get returns a new value object with one reference");
#endif
	} else if (cnt >= 2 && res2 != KSI_UNKNOWN_ERROR) {
		__CPROVER_assert(res2 == KSI_INVALID_STATE && out == sentinel, "value api: get is INVALID_STATE and leaves the output alone when several children carry the tag");
	}
	if (res2 != KSI_OK) out = NULL;
	__CPROVER_assert(view_len(P) == n1, "value api: get does not change the child view");
	for (i = 0; i < NC + 1; i++) if (i < n1) __CPROVER_assert(view_at(P, i) == got[i], "value api: get does not change the child view");
	__CPROVER_assert(IMPLIES(N != NULL, N->ref == 1 && N->ftlv.dat_len == vlen && N->subList == NULL), "value api: get hands no reference of the element out and does not expand it");
	if (out != NULL && out != sentinel) {
#if defined(EV_T_INT)
		__CPROVER_assert(g_live == live1 + (vint > 0xff ? 1 : 0), "value api: get allocates the value object only");
#elif defined(EV_T_OCT)
		__CPROVER_assert(g_live == live1 + 1 + (vlen > 0 ? 1 : 0), "value api: get allocates the value object only");
#else
		__CPROVER_assert(g_live == live1 + 2, "value api: get allocates the value object only");
#endif
		EV_VFREE(out);
	}
	__CPROVER_assert(g_live == live1, "value api: nothing of get stays allocated once the value is released");

	REACH("value api: set and get return");
	if (res == KSI_OK) REACH("value set");
#if EV_NK >= 1
	if (res == KSI_OK && is_replace) REACH("existing value replaced");
	if (res == KSI_OK && is_append && pat == 0) REACH("value appended");
#endif
#if EV_NK >= 2
	if (res == KSI_INVALID_STATE && cnt >= 2) REACH("duplicate tag refused");
#endif
#if defined(EV_T_INT) && !defined(EV_VMAX)
	if (res == KSI_OK && vlen == 8) REACH("8-octet integer");
	if (res == KSI_OK && vlen == 0) REACH("integer 0, empty payload");
	if (res == KSI_OK && vint == 0x100) REACH("first heap integer with two octets");
#endif
#if !defined(EV_T_INT)
	if (res == KSI_OK && vlen == EV_MAXP) REACH("longest value of the bound");
#endif
#if defined(EV_T_OCT)
	if (res == KSI_OK && vlen == 0) REACH("empty octet string");
#endif
#ifdef EV_OOM
	if (res == KSI_OUT_OF_MEMORY) REACH("allocation failure");
	if (res == KSI_OK && g_fails == 0) REACH("no allocation failed");
#endif

	/* ---- release everything: every block exactly once ----------------------------------------------------------------------------- */
	EV_VFREE(val);
	for (i = 0; i < EV_NK; i++) KSI_TlvElement_free(C[i]);
	KSI_TlvElement_free(P);
	__CPROVER_assert(g_live == 0, "value api: ownership - releasing the tree and the caller's value releases every block, the new element and its buffer exactly once");
}
#endif

#if defined(EV_OP_GET)
/* get<T> on a tree whose children are arbitrary leaves (any header form, payload 0..EV_CMAXP octets, every octet symbolic) */
static void one(unsigned pat) {
	size_t i, cnt, first = 0, n0; unsigned tags[NC]; const unsigned q_tag = EV_QTAG;
	ev_val *out; ev_val *const sentinel = (ev_val *)ctx_mem; int res; long live0; const unsigned char *pl = NULL; size_t plen = 0;
	g_fails = 0; g_fail_on = 0; g_live = 0; g_mo_n = 0;
	if (KSI_TlvElement_new(&P) != KSI_OK || P == NULL) return;
	P->ftlv.tag = nondet_uint(); P->ftlv.hdr_len = nondet_size(); P->ftlv.dat_len = nondet_size();
	if (KSI_TlvElementList_new(&P->subList) != KSI_OK || P->subList == NULL) return;
	for (i = 0; i < EV_NK; i++) {
		C[i] = mk_leaf(i, tag_of(pat, i, q_tag));
		if (C[i] == NULL) return;
		if (view_add(P, KSI_TlvElement_ref(C[i])) != KSI_OK) return;
		C0[i] = *C[i]; tags[i] = C[i]->ftlv.tag;
	}
	P0 = *P; n0 = view_len(P);
	cnt = spec_tt_count_tag(tags, EV_NK, q_tag, &first);
	if (cnt == 1) { pl = C0[first].ptr + C0[first].ftlv.hdr_len; plen = C0[first].ftlv.dat_len; }
	live0 = g_live; out = sentinel;
#ifdef EV_OOM
	g_fail_on = 1;
#endif
	res = EV_GET(P, CTX, q_tag, &out);
	g_fail_on = 0;
	if (g_fails == 0) {
		__CPROVER_assert(IMPLIES(cnt >= 2, res == KSI_INVALID_STATE), "value get: INVALID_STATE when several children carry the tag");
		__CPROVER_assert(IMPLIES(cnt == 0, res == KSI_OK && out == NULL), "value get: an absent tag is OK with no value");
		if (cnt == 1) {
#if defined(EV_T_INT)
			__CPROVER_assert(IFF(res == KSI_OK, plen <= 8), "value get: an integer is accepted iff its payload has at most 8 octets");
			__CPROVER_assert(IMPLIES(plen > 8, res == KSI_INVALID_FORMAT), "value get: an integer of more than 8 octets is refused with INVALID_FORMAT");
			__CPROVER_assert(IMPLIES(res == KSI_OK, out != NULL && out != sentinel && KSI_Integer_getUInt64(out) == spec_int_value(pl, plen)), "value get: integer value = big-endian reading of the payload");
#elif defined(EV_T_OCT)
			__CPROVER_assert(res == KSI_OK && out != NULL && out != sentinel, "value get: an octet string is always accepted");
			if (res == KSI_OK) {
				const unsigned char *d = NULL; size_t n = 0, kb = nondet_size();
				__CPROVER_assert(KSI_OctetString_extract(out, &d, &n) == KSI_OK && n == plen, "value get: octet string length = payload length");
				__CPROVER_assert(IMPLIES(kb < plen && n == plen, d[kb] == pl[kb]), "value get: octet string octets = payload octets (witness index)");
				__CPROVER_assert(IMPLIES(plen > 0, d != pl), "value get: the octet string is a copy");
			}
#else
			__CPROVER_assert(IFF(res == KSI_OK, spec_utf8_wellformed(pl, plen)), "value get: a string is accepted iff NUL-terminated, without embedded NUL, well-formed UTF-8");
			__CPROVER_assert(IMPLIES(res != KSI_OK, res == KSI_INVALID_FORMAT || res == KSI_BUFFER_OVERFLOW), "value get: a malformed string is refused with INVALID_FORMAT (BUFFER_OVERFLOW for a character cut short by the end, types_base.c verifyUtf8)");
			if (res == KSI_OK) {
				size_t kb = nondet_size();
				__CPROVER_assert(out != NULL && out != sentinel && KSI_Utf8String_size(out) == plen, "value get: string size = payload length incl. terminator");
				__CPROVER_assert(IMPLIES(kb < plen, (unsigned char)KSI_Utf8String_cstr(out)[kb] == pl[kb]), "value get: string octets = payload octets (witness index)");
			}
#endif
		}
	} else {
		__CPROVER_assert(res == KSI_OK || res == KSI_OUT_OF_MEMORY || res == KSI_INVALID_STATE || res == KSI_INVALID_FORMAT, "value get: result codes under allocation failure");
	}
	__CPROVER_assert(IMPLIES(res != KSI_OK, out == sentinel), "value get: a refused get leaves the output alone");
	/* the tree is untouched */
	__CPROVER_assert(view_len(P) == n0 && P->subList == P0.subList && P->ftlv.dat_len == P0.ftlv.dat_len && P->ref == P0.ref, "value get: the parent is untouched");
	for (i = 0; i < EV_NK; i++) {
		__CPROVER_assert(view_at(P, i) == C[i], "value get: the child view is untouched");
		__CPROVER_assert(node_same(C[i], &C0[i], 0) && buf_same(i), "value get: every child is field for field as before, no reference handed out, no octet modified");
	}
	if (res == KSI_OK && out != NULL) EV_VFREE(out);
	__CPROVER_assert(g_live == live0, "value get: nothing stays allocated once the value is released (temporary list, element reference)");
	REACH("value get returns");
#if EV_NK >= 1
	if (res == KSI_OK && cnt == 1) REACH("value read");
#if defined(EV_T_INT)
	if (res == KSI_OK && cnt == 1 && plen == 8) REACH("8-octet integer read");
	if (res == KSI_OK && cnt == 1 && plen == 0) REACH("empty payload read as 0");
	if (res == KSI_INVALID_FORMAT && cnt == 1 && plen == 9) REACH("9-octet integer refused");
#else
	if (res == KSI_OK && cnt == 1 && plen == EV_CMAXP) REACH("longest payload read");
#endif
#if !defined(EV_T_OCT) && !defined(EV_OOM)
	if (res == KSI_INVALID_FORMAT) REACH("malformed value refused");
#endif
#endif
#ifdef EV_OOM
	if (res == KSI_OUT_OF_MEMORY) REACH("allocation failure");
#endif
	for (i = 0; i < EV_NK; i++) KSI_TlvElement_free(C[i]);
	KSI_TlvElement_free(P);
	__CPROVER_assert(g_live == 0, "value get: releasing the tree releases every block");
}
#endif

#if defined(EV_OP_RT)
/* the round trip of the property statement through the value API: new + setInteger + setOctetString + serialize (== spec/tlvtree.h),
 * parse + getInteger + getOctetString (== the values set).  Tags fixed (EV_T1 / EV_T2), parent tag / flags, values symbolic. */
#ifndef EV_T1
#define EV_T1 0x03u
#endif
#ifndef EV_T2
#define EV_T2 0x1eu
#endif
#define RT_OUT (4 + (4 + 8) + (4 + EV_MAXP))
static void rt(void) {
	static unsigned char own[4]; unsigned char o[RT_OUT], ib[8], ob[EV_MAXP + 1];
	KSI_Integer *iv = NULL, *iv2 = NULL; KSI_OctetString *ov = NULL, *ov2 = NULL; KSI_TlvElement *R = NULL;
	unsigned long long v = nondet_ull(); size_t olen = nondet_size(), ilen, i, tot, len = 0, kb = nondet_size(), n2 = 0; const unsigned char *d2 = NULL;
	spec_tt_leaf desc[2]; int r;
	g_live = 0; g_mo_n = 0; g_fail_on = 0;
#ifdef EV_VMAX
	__CPROVER_assume(v <= EV_VMAX);
#endif
	__CPROVER_assume(olen <= EV_MAXP);
	for (i = 0; i < EV_MAXP + 1; i++) ob[i] = nondet_uchar();
	ilen = spec_tt_uint_len(v);
	for (i = 0; i < 8; i++) ib[i] = (i < ilen) ? spec_tt_uint_byte(v, i) : 0;
	if (KSI_TlvElement_new(&P) != KSI_OK || P == NULL) return;
	P->ftlv.tag = nondet_uint(); __CPROVER_assume(P->ftlv.tag <= SPEC_TLV_MAX_TAG);
	P->ftlv.is_nc = nondet_bool(); P->ftlv.is_fwd = nondet_bool();
	P->ptr = own; P->ftlv.hdr_len = 2;                    /* a borrowed, empty encoding as after parsing (a NULL buffer makes convertToNested form NULL + 0) */
	if (KSI_Integer_new(CTX, v, &iv) != KSI_OK || KSI_OctetString_new(CTX, ob, olen, &ov) != KSI_OK) return;
	r = KSI_TlvElement_setInteger(P, EV_T1, iv);
	__CPROVER_assert(r == KSI_OK, "value round trip: setInteger on a new element succeeds");
	r = KSI_TlvElement_setOctetString(P, EV_T2, ov);
	__CPROVER_assert(r == KSI_OK, "value round trip: setOctetString succeeds");
	__CPROVER_assert(view_len(P) == 2, "value round trip: two children");
	desc[0].tag = EV_T1; desc[0].nc = 0; desc[0].fwd = 0; desc[0].len = ilen; desc[0].pay = ib;
	desc[1].tag = EV_T2; desc[1].nc = 0; desc[1].fwd = 0; desc[1].len = olen; desc[1].pay = ob;
	tot = spec_tt_size(P->ftlv.tag, desc, 2);
	__CPROVER_assert(tot <= sizeof(o), "harness: scratch buffer holds the tree");
	__CPROVER_assert(P->ftlv.dat_len == spec_tt_payload_size(desc, 2), "value round trip: the parent declares the sum of its children's encodings");
	r = KSI_TlvElement_serialize(P, o, tot, &len, 0);
	__CPROVER_assert(r == KSI_OK && len == tot, "value round trip: the tree serializes, size = header + children's encodings");
	__CPROVER_assert(IMPLIES(kb < tot && r == KSI_OK, o[kb] == spec_tt_byte(P->ftlv.tag, P->ftlv.is_nc, P->ftlv.is_fwd, desc, 2, kb)),
			"value round trip: serialization = header ++ enc(integer child: minimal big-endian) ++ enc(octet string child) (witness index)");
	if (r != KSI_OK) return;
	r = KSI_TlvElement_parse(o, len, &R);
	__CPROVER_assert(r == KSI_OK && R != NULL, "value round trip: the serialization parses");
	if (r != KSI_OK || R == NULL) return;
	__CPROVER_assert(R->ftlv.tag == P->ftlv.tag && R->ftlv.is_nc == P->ftlv.is_nc && R->ftlv.is_fwd == P->ftlv.is_fwd && R->ftlv.hdr_len + R->ftlv.dat_len == len, "value round trip: the parsed element reports tag, flags and length encoded");
	r = KSI_TlvElement_getInteger(R, CTX, EV_T1, &iv2);
	__CPROVER_assert(r == KSI_OK && iv2 != NULL && KSI_Integer_getUInt64(iv2) == v, "value round trip: the integer read from the parsed tree equals the integer set");
	r = KSI_TlvElement_getOctetString(R, CTX, EV_T2, &ov2);
	__CPROVER_assert(r == KSI_OK && ov2 != NULL && KSI_OctetString_extract(ov2, &d2, &n2) == KSI_OK && n2 == olen, "value round trip: the octet string read from the parsed tree has the length set");
	__CPROVER_assert(IMPLIES(r == KSI_OK && kb < olen && n2 == olen, d2[kb] == ob[kb]), "value round trip: the octet string read from the parsed tree has the octets set (witness index)");
	__CPROVER_assert(view_len(R) == 2, "value round trip: the parsed tree has the two children");
	REACH("value round trip ran");
	if (ilen == 8 && olen == EV_MAXP) REACH("largest values of the bound");
	if (ilen == 0 && olen == 0) REACH("zero and the empty octet string");
	KSI_Integer_free(iv2); KSI_OctetString_free(ov2); KSI_Integer_free(iv); KSI_OctetString_free(ov);
	KSI_TlvElement_free(R); KSI_TlvElement_free(P);
	__CPROVER_assert(g_live == 0, "value round trip: every block is released exactly once");
}
#endif

#if defined(EV_OP_STALE) || defined(EV_OP_STALE_OK)
/* The stale-length mechanism one level up.  The tree API keeps a parent's ftlv.dat_len = sum of what its children declare, but only
 * for the parent the call is made on: editing a GRANDCHILD through the child Q updates Q's declared length and leaves the
 * grandparent P's sum stale.  KSI_TlvElement_serialize reads an element's own dat_len exactly when it has no children (NULL or
 * EMPTY list) - for an element with an empty list the tree is "tag, flags, empty payload" and must serialize as its header only.
 *   EV_OP_STALE_OK: P { Q { G } }: setInteger(Q, tag(G2), v) adds a grandchild while Q is attached; serialize(P) and detach(P) use the
 *      lists, not the stale sum: the encoding is header ++ enc(Q) with Q = header ++ enc(G) ++ enc(G2)  [passes: stale sum unused].
 *   EV_OP_STALE:    P { Q { G } } built through the API (new, setInteger(Q,..), appendElement(P, Q)); then removeElement(Q, tag(G))
 *      and removeElement(P, tag(Q)): P has an empty child list again; property: it serializes as its header only. */
#ifndef EV_TQ
#define EV_TQ 0x05u
#endif
#ifndef EV_TG
#define EV_TG 0x03u
#endif
static void stale(void) {
	static unsigned char pown[4], qown[4]; unsigned char o[4 + 4 + 2 * (4 + 8) + 1];
	KSI_TlvElement *Q = NULL; KSI_Integer *iv = NULL; unsigned long long v = nondet_ull(); size_t ilen, len = 0, kb = nondet_size(), i; int r;
	g_live = 0; g_mo_n = 0; g_fail_on = 0;
#ifdef EV_VMAX
	__CPROVER_assume(v <= EV_VMAX);
#endif
	ilen = spec_tt_uint_len(v);
	if (KSI_TlvElement_new(&P) != KSI_OK || P == NULL || KSI_TlvElement_new(&Q) != KSI_OK || Q == NULL) return;
	P->ftlv.tag = nondet_uint(); __CPROVER_assume(P->ftlv.tag <= SPEC_TLV_MAX_TAG);
	P->ftlv.is_nc = nondet_bool(); P->ftlv.is_fwd = nondet_bool(); P->ptr = pown; P->ftlv.hdr_len = 2;
	Q->ftlv.tag = EV_TQ; Q->ftlv.is_nc = nondet_bool(); Q->ftlv.is_fwd = nondet_bool(); Q->ptr = qown; Q->ftlv.hdr_len = 2;
	for (i = 0; i < 4; i++) pown[i] = nondet_uchar();
	if (KSI_Integer_new(CTX, v, &iv) != KSI_OK) return;
	r = KSI_TlvElement_setInteger(Q, EV_TG, iv);
	__CPROVER_assert(r == KSI_OK, "stale length: setInteger on the child succeeds");
	r = KSI_TlvElement_appendElement(P, Q);
	__CPROVER_assert(r == KSI_OK, "stale length: appendElement succeeds");
	__CPROVER_assert(P->ftlv.dat_len == Q->ftlv.hdr_len + Q->ftlv.dat_len, "stale length: after the append the parent declares what its child declares");
#if defined(EV_OP_STALE_OK)
	{
		/* edit a grandchild while Q is attached: a second integer under another tag */
		spec_tt_leaf g[2]; unsigned char ib[8]; size_t qpay, qtot, tot;
		for (i = 0; i < 8; i++) ib[i] = (i < ilen) ? spec_tt_uint_byte(v, i) : 0;
		r = KSI_TlvElement_setInteger(Q, EV_TG + 1, iv);
		__CPROVER_assert(r == KSI_OK, "stale length: second setInteger on the attached child succeeds");
		g[0].tag = EV_TG; g[1].tag = EV_TG + 1; g[0].nc = g[1].nc = 0; g[0].fwd = g[1].fwd = 0; g[0].len = g[1].len = ilen; g[0].pay = g[1].pay = ib;
		qpay = spec_tt_payload_size(g, 2); qtot = spec_tt_size(EV_TQ, g, 2);
		tot = spec_tlv_enc_hdr_len(P->ftlv.tag, qtot) + qtot;
		if (P->ftlv.dat_len != Q->ftlv.hdr_len + Q->ftlv.dat_len) REACH("the grandparent's declared length is stale");
		__CPROVER_assert(tot <= sizeof(o), "harness: scratch buffer holds the tree");
		r = KSI_TlvElement_serialize(P, o, tot, &len, 0);
		__CPROVER_assert(r == KSI_OK && len == tot, "stale length: a tree with a stale grandparent length serializes with the lengths of its lists (size)");
		if (r == KSI_OK && len == tot) {
			size_t hp = spec_tlv_enc_hdr_len(P->ftlv.tag, qtot);
			__CPROVER_assert(IMPLIES(kb < hp, o[kb] == spec_tlv_enc_hdr_byte(P->ftlv.tag, P->ftlv.is_nc, P->ftlv.is_fwd, qtot, kb)), "stale length: the grandparent's header declares the real size of its child (witness index)");
			__CPROVER_assert(IMPLIES(kb < qtot, o[hp + kb] == spec_tt_byte(EV_TQ, Q->ftlv.is_nc, Q->ftlv.is_fwd, g, 2, kb)), "stale length: the child is encoded as header ++ both grandchildren (witness index)");
		}
#ifdef EV_DETACH
		r = KSI_TlvElement_detach(P);
		__CPROVER_assert(r == KSI_OK, "stale length: detach of the tree succeeds");
		__CPROVER_assert(P->ftlv.dat_len == qtot && Q->ftlv.dat_len == qpay && Q->ftlv.hdr_len == spec_tlv_enc_hdr_len(EV_TQ, qpay), "stale length: detach recomputes every declared length from the encoding");
#endif
		REACH("stale length: tree with non-empty lists serialized");
	}
#else
	r = KSI_TlvElement_removeElement(Q, EV_TG, NULL);            /* the grandchild edit: Q shrinks, P's sum is not told */
	__CPROVER_assert(r == KSI_OK && Q->ftlv.dat_len == 0, "stale length: removing the grandchild succeeds, the child declares an empty payload");
	r = KSI_TlvElement_removeElement(P, EV_TQ, NULL);
	__CPROVER_assert(r == KSI_OK && view_len(P) == 0, "stale length: removing the child succeeds, the view is empty");
	if (ilen > 0) REACH("the grandchild had a payload");
	__CPROVER_assert(P->ftlv.dat_len == 0, "stale length: an element whose child list is empty declares an empty payload");
	r = KSI_TlvElement_serialize(P, o, spec_tlv_enc_hdr_len(P->ftlv.tag, 0), &len, 0);
	__CPROVER_assert(r == KSI_OK && len == spec_tlv_enc_hdr_len(P->ftlv.tag, 0), "stale length: a childless element serializes as its header only (tag, flags, empty payload)");
	r = KSI_TlvElement_serialize(P, NULL, 0, &len, 0);
	__CPROVER_assert(r == KSI_OK && len == spec_tlv_enc_hdr_len(P->ftlv.tag, 0), "stale length: a childless element reports the size of its header only");
	REACH("stale length: sequence ran");
#endif
	KSI_Integer_free(iv);
	KSI_TlvElement_free(Q); KSI_TlvElement_free(P);
	__CPROVER_assert(g_live == 0, "stale length: every block is released exactly once");
}
#endif

void harness(void) {
#if defined(EV_OP_RT)
	rt();
#elif defined(EV_OP_STALE) || defined(EV_OP_STALE_OK)
	stale();
#elif defined(EV_PAT)
	one(EV_PAT);
#else
	unsigned pat;
	for (pat = 0; pat < (1u << EV_NK); pat++) one(pat);
#endif
}
