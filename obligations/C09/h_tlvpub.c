/* C09 / C11 (builderX): KSI_TLV_serialize of the REAL tlv.c in contract mode: the serializer proper (KSI_TLV_writeBytes) is replaced
 * by its contract (enforced by C09.writeBytes), KSI_TLV_serialize_ex is inlined real code.  The fixed 65540-octet scratch block is
 * then only allocated, handed to the contract (havoc of the block) and handed out - no octet-level work on it in this job
 * (plain mode over the real serializer on that block exhausts the SAT solver's memory, NOTES_treeapi.md). */
#include "env/common.h"
#include <stdlib.h>
#include "env/stubs_base.h"
#include "tlv.h"
#include "fast_tlv.h"
#include "spec/tlv.h"
#include "tlv.c"
#include "contracts/tlv_parse.h"
#include "contracts/tlv_serialize.h"
#include "contracts/tlv_serialize_pub.h"

#ifdef H_serialize_pub
void harness(void) {
	const KSI_TLV *tlv = nondet_ptr(); unsigned char *out = NULL; size_t len = 0;
#ifdef TLV_SER_OUT_BY_HARNESS
	unsigned char **buf = &out; size_t *buf_len = &len;
#else
	unsigned char **buf = nondet_ptr(); size_t *buf_len = nondet_ptr();
#endif
	int res;
	g_st_res = nondet_int(); g_st_len = nondet_size(); g_st_byte2 = nondet_uchar(); g_tlv_k = nondet_size();   /* logical variables: arbitrary */
	res = KSI_TLV_serialize(tlv, buf, buf_len);
	if (res == KSI_OK) REACH("serialized into a new block");
	if (res == KSI_OUT_OF_MEMORY && g_st_res != KSI_OUT_OF_MEMORY) REACH("scratch block not available");
	if (res != KSI_OK && res != KSI_OUT_OF_MEMORY) REACH("serializer's refusal passed on");
	if (res == KSI_OK && g_st_len == 0xffff + 4 && g_tlv_k == 0xffff + 3) REACH("largest element, last octet");
}
#endif
