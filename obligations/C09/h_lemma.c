/* C09 (4): pure lemmas over spec/tlv.h - no library code.  decode_hdr(encode_hdr(t, f, n)) == (t, f, n) for every
 * encodable (tag, flags, length); the short form is chosen exactly when allowed; the total size determines the payload
 * length; and re-encoding a decoded header gives the same octets iff the header was in minimal form. */
#include "env/common.h"
#include "spec/tlv.h"

#ifdef H_hdr_roundtrip
void harness(void) {
	unsigned tag = nondet_uint(); int nc = nondet_int(), fwd = nondet_int(); size_t n = nondet_size(); size_t extra = nondet_size();
	unsigned char h[4]; size_t hl, i;
	__CPROVER_assume(spec_tlv_encodable(tag, n));            /* domain of the lemma: tags 0..0x1fff, lengths 0..0xffff */
	hl = spec_tlv_enc_hdr_len(tag, n);
	__CPROVER_assert(hl == 2 || hl == 4, "header is 2 or 4 octets");
	__CPROVER_assert((hl == 2) == (tag <= 0x1f && n <= 0xff), "short form exactly when tag <= 0x1f and length <= 0xff");
	h[0] = spec_tlv_enc_hdr_byte(tag, nc, fwd, n, 0); h[1] = spec_tlv_enc_hdr_byte(tag, nc, fwd, n, 1);
	h[2] = hl == 4 ? spec_tlv_enc_hdr_byte(tag, nc, fwd, n, 2) : nondet_uchar();
	h[3] = hl == 4 ? spec_tlv_enc_hdr_byte(tag, nc, fwd, n, 3) : nondet_uchar();
	__CPROVER_assert(spec_tlv_hdr_complete(h, hl), "encoded header is a complete header");
	__CPROVER_assert(hl < 3 || !spec_tlv_hdr_complete(h, hl - 1), "and not complete when cut by one octet");
	__CPROVER_assert(spec_tlv_dec_hdr_len(h, hl) == hl, "decode(encode): header length");
	__CPROVER_assert(spec_tlv_dec_tag(h, hl) == tag, "decode(encode): tag");
	__CPROVER_assert(spec_tlv_dec_nc(h, hl) == (nc != 0), "decode(encode): non-critical flag");
	__CPROVER_assert(spec_tlv_dec_fwd(h, hl) == (fwd != 0), "decode(encode): forward flag");
	__CPROVER_assert(spec_tlv_dec_dat_len(h, hl) == n, "decode(encode): payload length");
	__CPROVER_assert(spec_tlv_payload_of_total(tag, n + hl) == n, "total size determines the payload length");
	/* an element of n payload octets is complete in a buffer of l octets iff l >= hl + n */
	__CPROVER_assume(extra <= 0x20000);
	__CPROVER_assert(spec_tlv_elem_complete(h, extra) == (extra >= hl + n) || extra < hl, "element complete iff the buffer holds header + payload");
	REACH("lemma evaluated");
	if (hl == 2 && n == 0xff && tag == 0x1f) REACH("largest short form");
	if (hl == 4 && n == 0xffff && tag == 0x1fff) REACH("largest long form");
}
#endif

#ifdef H_hdr_canonical
/* all 2^32 four-octet headers (hence all 2^16 two-octet prefixes): decoding yields an encodable triple, and
 * encode(decode(h)) == h exactly when h does not use TLV16 for something that fits TLV8 */
void harness(void) {
	unsigned char h[4]; unsigned tag; int nc, fwd; size_t n, hl, i; _Bool same = 1;
	h[0] = nondet_uchar(); h[1] = nondet_uchar(); h[2] = nondet_uchar(); h[3] = nondet_uchar();
	__CPROVER_assert(spec_tlv_hdr_complete(h, 4), "4 octets always hold a complete header");
	tag = spec_tlv_dec_tag(h, 4); nc = spec_tlv_dec_nc(h, 4); fwd = spec_tlv_dec_fwd(h, 4); n = spec_tlv_dec_dat_len(h, 4); hl = spec_tlv_dec_hdr_len(h, 4);
	__CPROVER_assert(spec_tlv_encodable(tag, n), "decoded tag and length are in range");
	if (spec_tlv_enc_hdr_len(tag, n) != hl) same = 0;
	else {
		if (h[0] != spec_tlv_enc_hdr_byte(tag, nc, fwd, n, 0) || h[1] != spec_tlv_enc_hdr_byte(tag, nc, fwd, n, 1)) same = 0;
		if (hl == 4 && (h[2] != spec_tlv_enc_hdr_byte(tag, nc, fwd, n, 2) || h[3] != spec_tlv_enc_hdr_byte(tag, nc, fwd, n, 3))) same = 0;
	}
	__CPROVER_assert(same == !(hl == 4 && tag <= 0x1f && n <= 0xff), "encode(decode(h)) == h iff h is in minimal form");
	REACH("lemma evaluated");
	if (!same) REACH("non-minimal TLV16 exists");
}
#endif
