/* builderM - C14 blocking reader (jobs C09.blocking_*): io.c KSI_IO_readSocket, fast_tlv.c KSI_FTLV_socketRead wrapper,
 * net_tcp.c readResponse on the REAL files. */
#include "env/common.h"
#include "env/stubs_base.h"
#ifdef H_readSocket
#include "env/m_ghost_sock.h"
#include "contracts/io_readsocket.h"
#include "io.c"
void harness(void) {
	int fd = nondet_int(); void *buf; size_t size = nondet_size(); size_t *rc; int res;
	res = KSI_IO_readSocket(fd, buf, size, rc);
	REACH("returned"); if (res == KSI_OK) REACH("complete"); if (res == KSI_NETWORK_ERROR) REACH("peer closed"); if (res == KSI_NETWORK_RECIEVE_TIMEOUT) REACH("timeout");
	if (res == KSI_OK && g_sk_calls >= 2) REACH("partial reads accumulated");
}
#endif

#if defined(H_socketRead) || defined(H_readResponse)
#include "env/memops_witness.h"
#include "env/m_ghost_tcp_blocking.h"
#include "fast_tlv.c"
#endif

#ifdef H_socketRead
/* KSI_FTLV_socketRead (+ real readData, wrapSocketRead, parseHdr): exactly one element is taken from the connection */
#ifndef BUFMAX
#define BUFMAX 0x10003
#endif
void harness(void) {
	static unsigned char buf[BUFMAX]; size_t len = nondet_size(), consumed = 77; KSI_FTLV t; int res, i; _Bool wantCount = nondet_bool();
	__CPROVER_assume(len <= BUFMAX);
	g_ts_fd = nondet_int(); __CPROVER_assume(g_ts_fd >= 0);
	for (i = 0; i < 4; i++) g_ts_hdr[i] = nondet_uchar();
	g_ts_wk = nondet_size(); g_ts_wb = nondet_uchar(); g_ts_buf_len = len; g_ts_buf = buf;
	res = KSI_FTLV_socketRead(g_ts_fd, buf, len, wantCount ? &consumed : NULL, &t);
	__CPROVER_assert(IMPLIES(wantCount, consumed == g_ts_total), "*consumed == octets taken from the connection, on every path");
	__CPROVER_assert(g_ts_total <= g_ts_requested && g_ts_requested <= len, "never more requested than the buffer holds");
	__CPROVER_assert(IMPLIES(res == KSI_OK, g_ts_total == spec_tlv_elem_size(g_ts_hdr, 4) && g_ts_requested == g_ts_total && !g_ts_closed), "OK => exactly one element (header + declared payload) was taken, not an octet more requested");
	__CPROVER_assert(IMPLIES(res == KSI_OK, t.tag == spec_tlv_dec_tag(g_ts_hdr, 4) && t.is_nc == spec_tlv_dec_nc(g_ts_hdr, 4) && t.is_fwd == spec_tlv_dec_fwd(g_ts_hdr, 4) && t.hdr_len == spec_tlv_dec_hdr_len(g_ts_hdr, 4) && t.dat_len == spec_tlv_dec_dat_len(g_ts_hdr, 4)), "OK => the header reported is the header that arrived");
	__CPROVER_assert(IMPLIES(res == KSI_OK, buf[0] == g_ts_hdr[0] && buf[1] == g_ts_hdr[1] && IMPLIES(t.hdr_len == 4, buf[2] == g_ts_hdr[2] && buf[3] == g_ts_hdr[3])), "OK => the buffer starts with the header that arrived (payload octets are stored by the reader itself: protocol assertion 'stored contiguously')");
	__CPROVER_assert(IMPLIES(g_ts_closed, res == g_ts_err), "EOF / time-out / error of the socket reader is passed on (never OK, never a format error)");
	__CPROVER_assert(IMPLIES(len >= 4 && !g_ts_closed && spec_tlv_elem_size(g_ts_hdr, 4) <= len, res == KSI_OK), "a complete element that fits is accepted");
	__CPROVER_assert(IMPLIES(len < 2, res == KSI_INVALID_ARGUMENT && g_ts_calls == 0), "buffer < 2 => refused, nothing read");
	__CPROVER_assert(IMPLIES(res == KSI_BUFFER_OVERFLOW, !g_ts_closed && g_ts_total == g_ts_requested && (g_ts_total == 2 || g_ts_total == 4)), "too small a buffer => refused before any payload octet is requested");
	REACH("returned"); if (res == KSI_OK && t.dat_len == 0xffff) REACH("largest element"); if (res == KSI_NETWORK_RECIEVE_TIMEOUT) REACH("timeout"); if (res == KSI_BUFFER_OVERFLOW) REACH("overflow");
}
#endif

#ifdef H_readResponse
/* net_tcp.c readResponse (+ real KSI_FTLV_socketRead / readData): resolve, connect, write the WHOLE request (partial
 * sends), read exactly ONE element, hand out a private buffer holding exactly its octets; every failure => error,
 * nothing handed out; the socket is closed and the address list released on every path. */
#include "net.h"
#include "impl/net_impl.h"
size_t KSI_snprintf(char *buf, size_t n, const char *format, ...) { __CPROVER_assert(buf != NULL && n == 6, "KSI_snprintf: port buffer of its real size"); buf[0] = '1'; buf[1] = 0; return 1; }
/* record the one copy into the response (then the witness model of env/memops_witness.h: bounds checked exactly) */
static unsigned g_cp_calls; static void *g_cp_dst; static const void *g_cp_src; static size_t g_cp_n;
static void *m_rec_memcpy(void *d, const void *s, size_t n) { g_cp_calls++; g_cp_dst = d; g_cp_src = s; g_cp_n = n; return ksi_env_memcpy(d, s, n); }
#undef memcpy
#define memcpy(d, s, n) m_rec_memcpy((d), (s), (n))
#include "net_tcp.c"
#ifndef REQMAX
#define REQMAX 3
#endif
void harness(void) {
	struct KSI_NetHandle_st h; struct KSI_NetworkClient_st cl; struct KSI_TcpClient_st tcpc; TcpClientCtx ep; struct KSI_CTX_st ctx;
	static unsigned char req[REQMAX]; static char host[2] = "h"; int res, i; _Bool hNull = nondet_bool();
	memset(&h, 0, sizeof(h)); memset(&cl, 0, sizeof(cl));
	g_req_len = nondet_size(); __CPROVER_assume(g_req_len <= REQMAX); g_req = req; g_sent = 0;
	g_ai_n = nondet_int(); __CPROVER_assume(g_ai_n >= 0 && g_ai_n <= 2);
	g_eintr_left = nondet_int(); __CPROVER_assume(g_eintr_left >= 0 && g_eintr_left <= 1);
	g_ts_fd = nondet_int(); __CPROVER_assume(g_ts_fd >= 0);
	for (i = 0; i < 4; i++) g_ts_hdr[i] = nondet_uchar();
	g_ts_wk = nondet_size(); g_ts_wb = nondet_uchar(); g_ts_buf_len = 0xffff + 4; g_mem_k = g_ts_wk; g_host = host;
	ep.host = host; ep.port = nondet_uint(); tcpc.transferTimeoutSeconds = nondet_int(); tcpc.sendRequest = NULL; tcpc.http = NULL;
	cl.ctx = &ctx; cl.impl = &tcpc;
	h.ctx = &ctx; h.request = req; h.request_length = g_req_len; h.response = NULL; h.response_length = 0; h.completed = false; h.client = &cl; h.implCtx = &ep;
	res = readResponse(hNull ? NULL : &h);
	__CPROVER_assert(IMPLIES(hNull, res == KSI_INVALID_ARGUMENT && !g_gai_ok && g_sock_made == 0), "no handle => KSI_INVALID_ARGUMENT, nothing done");
	/* --- success --- */
	__CPROVER_assert(IMPLIES(res == KSI_OK, g_connected && g_sent == g_req_len && !g_order_bad), "OK => the WHOLE request was written (partial sends accumulate, in order) before anything was read");
	__CPROVER_assert(IMPLIES(res == KSI_OK, !g_ts_closed && g_ts_total == spec_tlv_elem_size(g_ts_hdr, 4) && g_ts_requested == g_ts_total), "OK => exactly ONE element was taken from the connection, not an octet more requested");
	__CPROVER_assert(IMPLIES(res == KSI_OK, h.completed && h.response != NULL && h.response_length == g_ts_total), "OK => response handed out, its length == the element's size");
	__CPROVER_assert(IMPLIES(res == KSI_OK, __CPROVER_r_ok(h.response, h.response_length) && h.response[0] == g_ts_hdr[0] && h.response[1] == g_ts_hdr[1] && IMPLIES(g_ts_total >= 4, h.response[2] == g_ts_hdr[2] && h.response[3] == g_ts_hdr[3])), "OK => the response starts with the header octets that arrived");
	__CPROVER_assert(IMPLIES(h.response != NULL, g_cp_calls == 1 && g_cp_dst == (void *)h.response && g_cp_src == (const void *)g_ts_buf && g_cp_n == g_ts_total), "the response is ONE memcpy of exactly the element's octets from the start of the read buffer (libc memcpy assumed)");
#ifndef NO_WITNESS
	__CPROVER_assert(IMPLIES(res == KSI_OK && g_ts_wk >= 4 && g_ts_wk < g_ts_total, h.response[g_ts_wk] == g_ts_wb), "OK => the response holds exactly the element's octets (arbitrary witness position)");
#endif
	/* --- failures --- */
	__CPROVER_assert(IMPLIES(res != KSI_OK && !g_close_failed, h.response == NULL && h.response_length == 0 && !h.completed), "failure (other than a failing close() after the read) => no response handed out, not completed");
	__CPROVER_assert(IMPLIES(h.response != NULL, h.completed && !g_ts_closed && h.response_length == g_ts_total && g_ts_total == spec_tlv_elem_size(g_ts_hdr, 4)), "a response is stored only when one complete element was read");
	__CPROVER_assert(IMPLIES(g_ts_closed && !g_close_failed, res == g_ts_err), "EOF / time-out / reader error => that network error (no partial data delivered)");
	__CPROVER_assert(IMPLIES(g_ts_closed, res != KSI_OK), "EOF / time-out / reader error => never OK");
	__CPROVER_assert(IMPLIES(g_send_failed, res != KSI_OK && g_ts_calls == 0 && (g_close_failed || res == KSI_NETWORK_ERROR)), "failed send => KSI_NETWORK_ERROR, nothing is read");
	__CPROVER_assert(IMPLIES(g_connect_failed || g_socket_failed, res != KSI_OK && g_sent == 0 && g_ts_calls == 0 && (g_close_failed || res == KSI_NETWORK_ERROR)), "refused connection / no socket => KSI_NETWORK_ERROR, nothing written or read");
	__CPROVER_assert(IMPLIES(!hNull && !g_gai_ok, res == KSI_NETWORK_ERROR && g_sock_made == 0), "resolver failure => KSI_NETWORK_ERROR");
	__CPROVER_assert(IMPLIES(g_ts_calls > 0, g_sent == g_req_len), "reading starts only after the whole request was written");
	__CPROVER_assert(IMPLIES(g_close_failed, res == KSI_IO_ERROR), "failing close => KSI_IO_ERROR");
	/* --- resources --- */
	__CPROVER_assert(g_sock_open == 0 && g_sock_closed == g_sock_made && g_sock_made <= 1, "the socket is closed exactly once on every path");
	__CPROVER_assert(g_ai_freed == ((g_gai_ok && g_ai_n > 0) ? 1 : 0), "the address list is released exactly once");
	REACH("returned"); if (res == KSI_OK) REACH("response read"); if (res == KSI_OK && g_ts_total == 0xffff + 4) REACH("largest element");
	if (res == KSI_NETWORK_RECIEVE_TIMEOUT) REACH("timeout"); if (res == KSI_OUT_OF_MEMORY) REACH("allocation failure (C19)"); if (res == KSI_OK && g_req_len == REQMAX) REACH("request of maximal bounded length");
}
#endif
