/* C09 (tree API of tlv.c): KSI_TLV_replaceNestedTlv / appendNestedTlv / free / getNestedList / clone / setRawValue and, after
 * the edit, KSI_TLV_serialize_ex (-> KSI_TLV_writeBytes -> serializeTlv -> serializeNested / serializeRaw), all of the REAL tlv.c
 * on the REAL list.c and the REAL header reader of fast_tlv.c (included unmodified), plain mode.
 *
 * Property text: "serialization followed by parsing yields the same tree (tags, flags, payload bytes, nesting) ... parsing
 * succeeds only if the declared lengths exactly tile the input at every level that is expanded ... the element reports exactly
 * the tag, flags and payload encoded".  For the editing API, over the WHOLE child view:
 *   replaceNestedTlv(P, old, new): OK iff old is a child of P (at i): view' = view[i := new], the replaced child is released exactly
 *        once (object and the buffer it owns), nothing else; otherwise INVALID_ARGUMENT and nothing changes.
 *   appendNestedTlv(P, new): OK: view' = view ++ (new) (a missing child list is created); failure (allocation): nothing changes,
 *        a list created for the call is not left behind half-built.
 *   afterwards enc(P) = hdr(P, S') ++ enc(view'_0) ++ ... (spec/tlvtree.h, witness octet) through the real serializer.
 *   KSI_TLV_free(P): P, its own buffer, its list, every child and every buffer a child owns are released exactly once; payload
 *        that a child only borrows (as after parsing: it points into the parent's input) is never released.
 *   getNestedList(P) on a parsed parent: OK iff the children's declared lengths tile the payload exactly; the view reports, child
 *        by child, the tag / flags / payload position / length encoded; a second call returns the same list; error: P unchanged.
 *   clone(P): same tree (tags, flags, payload octets, nesting expanded alike), source untouched; failure: *clone untouched.
 *   setRawValue(P, data, n): OK iff n fits; then payload = data[0..n) and a child list is gone; a FAILED call leaves P as it was.
 * BOUNDED: depth 1, TT_NK children fixed per job, leaf payload <= TT_MAXP; everything else symbolic.  Loops/recursion unwound
 * with unwinding assertions. */
#include "env/common.h"
#include <stdlib.h>
#define KSI_malloc tt_unused_malloc
#define KSI_calloc tt_unused_calloc
#define KSI_free tt_unused_free
#include "env/stubs_base.h"
#undef KSI_malloc
#undef KSI_calloc
#undef KSI_free
#include "tlv.h"
#include "fast_tlv.h"
#include "spec/tlvtree.h"

#ifndef TT_MAXP
#define TT_MAXP 2
#endif
#ifndef TT_NK
#define TT_NK 2
#endif
#define TT_OUT (4 + (TT_NK + 1) * (4 + TT_MAXP) + 2)

/* ---- allocation funnels [ASSUMED: pass-through as base.c] with a live-block counter; failures only while g_fail_on.
 * The two 64 KiB scratch blocks of tlv.c (createOwnBuffer / KSI_TLV_serialize: KSI_BUFFER_SIZE) are handed out at their real
 * size. */
static _Bool g_fail_on; static unsigned g_fails; static long g_live;
void *KSI_malloc(size_t n) { void *p; if (g_fail_on && nondet_bool()) { g_fails++; return NULL; } p = malloc(n); if (p != NULL) g_live++; return p; }
void *KSI_calloc(size_t a, size_t b) { void *p; if (g_fail_on && nondet_bool()) { g_fails++; return NULL; } p = calloc(a, b); if (p != NULL) g_live++; return p; }
void KSI_free(void *p) { if (p != NULL) { g_live--; free(p); } }
static char g_ctx_obj[8]; KSI_CTX *g_ctx = (KSI_CTX *)g_ctx_obj;      /* opaque: only passed around, never dereferenced (stubs) */

#include "fast_tlv.c"
#include "list.c"
#include "env/memops_exact.h"
#include "tlv.c"

/* the harness reads the child view through these (one function-pointer call each) */
static size_t v_len(KSI_LIST(KSI_TLV) *l) { return KSI_TLVList_length(l); }
static int v_at(KSI_LIST(KSI_TLV) *l, size_t i, KSI_TLV **o) { return KSI_TLVList_elementAt(l, i, o); }
static int v_append(KSI_LIST(KSI_TLV) *l, KSI_TLV *o) { return KSI_TLVList_append(l, o); }

#define NC 4
static KSI_TLV *P, *C[NC], *X;
static struct KSI_TLV_st P0, C0[NC], X0;
static unsigned char store[NC + 1][TT_MAXP + 1];       /* payload the children BORROW (as after parsing) */

static KSI_TLV *mk_leaf(size_t bi) {
	KSI_TLV *t = NULL; unsigned tag = nondet_uint(); size_t d = nondet_size(), i;
	__CPROVER_assume(tag <= SPEC_TLV_MAX_TAG && d <= TT_MAXP);
	if (KSI_TLV_new(g_ctx, tag, nondet_bool(), nondet_bool(), &t) != KSI_OK || t == NULL) return NULL;
	for (i = 0; i < TT_MAXP + 1; i++) store[bi][i] = nondet_uchar();
	if (nondet_bool()) {                         /* owns its payload buffer (as after setRawValue / parseBlob) */
		t->buffer = KSI_malloc(TT_MAXP + 1);
		if (t->buffer == NULL) return NULL;
		for (i = 0; i < TT_MAXP + 1; i++) t->buffer[i] = store[bi][i];
		t->buffer_size = TT_MAXP + 1; t->datap = t->buffer;
	} else t->datap = store[bi];
	t->datap_len = d;
	return t;
}
static void leaf_desc(spec_tt_leaf *l, const struct KSI_TLV_st *s, size_t bi) {
	l->tag = s->tag; l->nc = s->isNonCritical; l->fwd = s->isForwardable; l->len = s->datap_len; l->pay = store[bi];
}
static int tlv_same(const KSI_TLV *a, const struct KSI_TLV_st *b) {
	return a->ctx == b->ctx && a->isNonCritical == b->isNonCritical && a->isForwardable == b->isForwardable && a->tag == b->tag && a->buffer_size == b->buffer_size &&
			a->buffer == b->buffer && a->nested == b->nested && a->datap == b->datap && a->datap_len == b->datap_len && a->relativeOffset == b->relativeOffset && a->absoluteOffset == b->absoluteOffset;
}
static long blocks_of(const struct KSI_TLV_st *s) { return 1 + (s->buffer != NULL ? 1 : 0); }

#if defined(TT_OP_REPLACE) || defined(TT_OP_APPEND)
/* sel: TT_OP_REPLACE: position of the child named as `old` (TT_NK: an element that is not a child);  TT_OP_APPEND: 1 = P has no
 * child list yet */
static void one(size_t sel) {
	size_t i, n1, nexp = TT_NK, kb = nondet_size(), len = 0; int res, res2; long live0, exp_live;
	KSI_TLV *exp[NC + 1], *got[NC + 1], *old = NULL, *stranger = NULL; size_t expb[NC + 1];
	spec_tt_leaf desc[NC + 1]; const struct KSI_TLV_st *exps[NC + 1]; unsigned char o[TT_OUT];
	KSI_LIST(KSI_TLV) *list0; _Bool changed = 0;
	g_fails = 0; g_fail_on = 0; g_live = 0;
	if (KSI_TLV_new(g_ctx, nondet_uint(), nondet_bool(), nondet_bool(), &P) != KSI_OK || P == NULL) return;
	__CPROVER_assume(P->tag <= SPEC_TLV_MAX_TAG);
#if defined(TT_OP_APPEND)
	if (!sel)
#endif
	if (KSI_TLVList_new(&P->nested) != KSI_OK || P->nested == NULL) return;
	for (i = 0; i < TT_NK; i++) {
		C[i] = mk_leaf(i);
		if (C[i] == NULL) return;
		if (v_append(P->nested, C[i]) != KSI_OK) return;
		C0[i] = *C[i]; exp[i] = C[i]; exps[i] = &C0[i]; expb[i] = i;
	}
	X = mk_leaf(NC);
	if (X == NULL) return;
	X0 = *X; P0 = *P; list0 = P->nested;
#if defined(TT_OP_REPLACE)
	if (sel < TT_NK) old = C[sel]; else { stranger = mk_leaf(NC - 1); if (stranger == NULL) return; old = stranger; }
#endif
	live0 = g_live; exp_live = live0;
#ifdef TT_OOM
	g_fail_on = 1;
#endif
#if defined(TT_OP_REPLACE)
	res = KSI_TLV_replaceNestedTlv(P, old, X);
#else
	res = KSI_TLV_appendNestedTlv(P, X);
#endif
	g_fail_on = 0;

#if defined(TT_OP_REPLACE)
	__CPROVER_assert(IFF(res == KSI_OK, sel < TT_NK), "tlv tree: replace succeeds exactly when the named element is a child");
	__CPROVER_assert(IMPLIES(sel >= TT_NK, res == KSI_INVALID_ARGUMENT), "tlv tree: replacing an element that is not a child is INVALID_ARGUMENT");
	if (res == KSI_OK) { exp[sel] = X; exps[sel] = &X0; expb[sel] = NC; changed = 1; exp_live = live0 - blocks_of(&C0[sel]); }
#else
	__CPROVER_assert(res == KSI_OK || (g_fails > 0 && res == KSI_OUT_OF_MEMORY), "tlv tree: append is OK, or OUT_OF_MEMORY when an allocation failed");
	if (res == KSI_OK) { exp[TT_NK] = X; exps[TT_NK] = &X0; expb[TT_NK] = NC; nexp = TT_NK + 1; changed = 1; exp_live = live0 + (sel ? 3 : (TT_NK == 0 ? 1 : 0));      /* list object + impl + first array of 10 slots */ }
#endif
	/* the WHOLE child view as the real list reports it */
#if defined(TT_OP_APPEND)
	if (sel) {
		__CPROVER_assert(IMPLIES(res != KSI_OK, P->nested == NULL || v_len(P->nested) == 0), "tlv tree: a failed first append leaves no child in the view");
		__CPROVER_assert(IMPLIES(res == KSI_OK, P->nested != NULL), "tlv tree: the first append creates the child list");
		__CPROVER_assert(IMPLIES(res != KSI_OK && P->nested == NULL, g_live == live0), "tlv tree: failed first append without list -> nothing stays allocated");
	} else
#endif
	__CPROVER_assert(P->nested == list0, "tlv tree: the parent keeps its child list object");
	n1 = v_len(P->nested);
	__CPROVER_assert(n1 == nexp, "tlv tree: number of children = old number (+1 after a successful append)");
	for (i = 0; i < NC + 1; i++) {
		got[i] = NULL;
		if (i < n1) { res2 = v_at(P->nested, i, &got[i]); __CPROVER_assert(res2 == KSI_OK, "tlv tree: every position of the child view is readable"); }
		__CPROVER_assert(IMPLIES(i < nexp && i < n1, got[i] == exp[i]), "tlv tree: WHOLE child view - exactly the named child changes, every other child keeps identity and order");
	}
	for (i = 0; i < TT_NK; i++) if (exp[i] == C[i]) __CPROVER_assert(tlv_same(C[i], &C0[i]), "tlv tree: every child that stays is field for field as before");
	__CPROVER_assert(tlv_same(X, &X0), "tlv tree: the new child is handed over unmodified");
	__CPROVER_assert(P->tag == P0.tag && P->isNonCritical == P0.isNonCritical && P->isForwardable == P0.isForwardable && P->buffer == P0.buffer && P->datap == P0.datap && P->datap_len == P0.datap_len,
			"tlv tree: the parent's own tag, flags and buffers are untouched");
#if defined(TT_OP_REPLACE)
	__CPROVER_assert(g_live == exp_live, "tlv tree: ownership - the replaced child (its object and the buffer it owns) is released exactly once, nothing else is released or left behind; failure releases nothing");
#else
	__CPROVER_assert(IMPLIES(res == KSI_OK, g_live == exp_live), "tlv tree: append allocates only the list it has to create / grow");
	__CPROVER_assert(IMPLIES(res != KSI_OK && !sel, g_live == live0), "tlv tree: failed append -> nothing stays allocated");
#endif
#ifndef TT_NO_SER
	if (P->nested != NULL) {
		size_t tot;
		for (i = 0; i < NC + 1; i++) if (i < nexp) leaf_desc(&desc[i], exps[i], expb[i]);
		tot = spec_tt_size(P0.tag, desc, nexp);
		__CPROVER_assert(tot + 1 <= sizeof(o), "harness: the scratch buffer holds every tree of the bound");
		res2 = KSI_TLV_serialize_ex(P, o, tot + 1, &len);   /* one spare octet: tlv.c:729 forms buf + buf_size - len - 1 (= buf - 1 for an exact fit, see NOTES.md of C09) */
		__CPROVER_assert(res2 == KSI_OK && len == tot, "tlv tree: the edited tree serializes, total size = header + sum of the children's encodings");
		__CPROVER_assert(IMPLIES(kb < tot && res2 == KSI_OK, o[kb] == spec_tt_byte(P0.tag, P0.isNonCritical, P0.isForwardable, desc, nexp, kb)),
				"tlv tree: re-serialization = parent header ++ concatenation of the children's serializations in view order (witness index)");
	}
#endif
	REACH("tlv tree call returns");
	if (res == KSI_OK) REACH("ok");
#if defined(TT_OP_REPLACE)
	if (res != KSI_OK) REACH("not a child");
#if TT_NK >= 2
	if (res == KSI_OK && sel == 0) REACH("first child replaced");
	if (res == KSI_OK && sel == TT_NK - 1) REACH("last child replaced");
#endif
	if (res == KSI_OK && C0[sel < TT_NK ? sel : 0].buffer != NULL) REACH("replaced child owned a buffer");
#endif
#ifdef TT_OOM
	if (res == KSI_OUT_OF_MEMORY) REACH("allocation failure");
#endif
#ifdef TT_FREE
	/* KSI_TLV_free of the edited tree: everything owned exactly once, borrowed payload never */
	if (stranger != NULL) KSI_TLV_free(stranger);
	if (!changed) KSI_TLV_free(X);
	KSI_TLV_free(P);
	__CPROVER_assert(g_live == 0, "tlv tree free: the element, its list, every child and every buffer a child owns are released exactly once");
	for (i = 0; i < NC + 1; i++) __CPROVER_assert(__CPROVER_r_ok(store[i], TT_MAXP + 1), "tlv tree free: borrowed payload is never released");
	REACH("tree released");
#endif
}
#endif

#if defined(TT_OP_SETRAW)
/* P = a parsed leaf owning its input (KSI_TLV_parseBlob2, ownMemory) or a fresh element; setRawValue(P, data, n). */
static void setraw(_Bool parsed) {
	static unsigned char data[TT_MAXP + 8]; unsigned char *blob; size_t n = nondet_size(), blen = 2 + TT_MAXP, i, kw = nondet_size(); int res; long live0;
	unsigned char w0 = 0; struct KSI_TLV_st before;
	g_live = 0; g_fails = 0; P = NULL;
	for (i = 0; i < sizeof(data); i++) data[i] = nondet_uchar();
	if (parsed) {
		blob = KSI_malloc(blen);
		if (blob == NULL) return;
		blob[0] = nondet_uchar() & 0x7f; blob[1] = TT_MAXP;
		for (i = 2; i < blen; i++) blob[i] = nondet_uchar();
		res = KSI_TLV_parseBlob2(g_ctx, blob, blen, 1, &P);
		__CPROVER_assert(res == KSI_OK && P != NULL, "setRawValue set-up: a complete TLV8 element parses");
		if (P == NULL) return;
	} else {
		if (KSI_TLV_new(g_ctx, nondet_uint(), 0, 0, &P) != KSI_OK || P == NULL) return;
	}
	__CPROVER_assume(n <= TT_MAXP + 6);                   /* bound of the job; the 0xffff limit itself: TT_BIG */
#ifdef TT_BIG
	n = 0x10000;                                          /* one more than the length field holds */
#endif
	before = *P; live0 = g_live;
	if (parsed && kw < before.datap_len) w0 = before.datap[kw];
#ifdef TT_OOM
	g_fail_on = 1;
#endif
	res = KSI_TLV_setRawValue(P, data, n);
	g_fail_on = 0;
	__CPROVER_assert(res == KSI_OK || res == KSI_BUFFER_OVERFLOW || (g_fails > 0 && res == KSI_OUT_OF_MEMORY), "setRawValue: OK, BUFFER_OVERFLOW or (allocation failed) OUT_OF_MEMORY");
	__CPROVER_assert(IMPLIES(res == KSI_OK, n <= SPEC_TLV_MAX_LEN), "setRawValue: a payload that exceeds the length field is refused");
	__CPROVER_assert(IMPLIES(!parsed && n <= SPEC_TLV_MAX_LEN && g_fails == 0, res == KSI_OK), "setRawValue: a fresh element accepts every payload that fits the length field");
	if (res == KSI_OK) {
		__CPROVER_assert(P->datap_len == n && P->nested == NULL, "setRawValue: the element reports exactly the payload length set; no child list");
		__CPROVER_assert(IMPLIES(n > 0, P->datap != NULL && P->datap == P->buffer && P->buffer_size >= n), "setRawValue: the payload lives in the element's own buffer, which holds it");
		__CPROVER_assert(IMPLIES(kw < n, P->datap[kw] == data[kw]), "setRawValue: payload octets = the octets set (witness index)");
		__CPROVER_assert(P->tag == before.tag && P->isNonCritical == before.isNonCritical && P->isForwardable == before.isForwardable, "setRawValue: tag and flags untouched");
	} else {
		__CPROVER_assert(tlv_same(P, &before), "setRawValue: a failed call leaves the element exactly as it was (payload pointer, declared length, buffer, children)");
		__CPROVER_assert(IMPLIES(parsed && kw < before.datap_len, before.datap[kw] == w0), "setRawValue: a failed call leaves the payload octets as they were");
		__CPROVER_assert(g_live == live0, "setRawValue: a failed call leaves nothing allocated");
	}
	__CPROVER_assert(P->datap_len == 0 || (P->datap != NULL && __CPROVER_r_ok(P->datap, P->datap_len)), "setRawValue: whatever the outcome, the declared payload is readable (what the serializer will copy)");
	REACH("setRawValue returns");
#ifndef TT_BIG
	if (res == KSI_OK && n > 0) REACH("payload set");
	if (res == KSI_OK && n == 0) REACH("empty payload set");
#endif
#if defined(TT_BIG) || !defined(TT_FRESH)
	if (res == KSI_BUFFER_OVERFLOW) REACH("refused");
#endif
#ifdef TT_OOM
	if (res == KSI_OUT_OF_MEMORY) REACH("allocation failure");
#endif
	KSI_TLV_free(P);
	__CPROVER_assert(g_live == 0, "setRawValue: releasing the element releases everything");
}
#endif

#if defined(TT_OP_NESTED)
/* P = parseBlob2 of  [tagP | len] [c0: t0, L0, ...] [c1: t1, L1, ...]  (TLV8 forms, L0 = 1, L1 = TT_L1 concrete so that the real
 * parsing loop has a concrete trip count; tags, flags and payload octets symbolic).  TT_CUT: the last child's declared length
 * is one more than what the parent holds (no exact tiling). */
#ifndef TT_L1
#define TT_L1 2
#endif
#ifndef TT_H_P
#define TT_H_P 0x01
#define TT_H_C0 0x42          /* non-critical, tag 2 */
#define TT_H_C1 0x23          /* forward, tag 3 */
#endif
#define BLOB_LEN (2 + (2 + 1) + (2 + TT_L1))
static void nested(void) {
	unsigned char *blob; size_t i, n = 0; int res, res2; KSI_LIST(KSI_TLV) *l = NULL, *l2 = NULL; KSI_TLV *c0 = NULL, *c1 = NULL, *K = NULL; struct KSI_TLV_st before; long live0;
	g_live = 0; g_fails = 0; P = NULL;
	blob = KSI_malloc(BLOB_LEN);
	if (blob == NULL) return;
	for (i = 0; i < BLOB_LEN; i++) blob[i] = nondet_uchar();
	/* first octets concrete (TLV8; flags differ per child): the header decoder itself is C09.parseHdr / memRead; a symbolic first
	 * octet keeps both header forms alive in the symbolic execution of the parsing loop */
	blob[0] = TT_H_P; blob[1] = BLOB_LEN - 2;
	blob[2] = TT_H_C0; blob[3] = 1;
	blob[5] = TT_H_C1; blob[6] = TT_L1;
#ifdef TT_CUT
	blob[6] = TT_L1 + 1;
#endif
	res = KSI_TLV_parseBlob2(g_ctx, blob, BLOB_LEN, 1, &P);
	__CPROVER_assert(res == KSI_OK && P != NULL, "getNestedList set-up: the outer element parses");
	if (P == NULL) return;
	before = *P; live0 = g_live;
#ifdef TT_OOM
	g_fail_on = 1;
#endif
	res = KSI_TLV_getNestedList(P, &l);
	g_fail_on = 0;
#ifdef TT_CUT
	__CPROVER_assert(res == KSI_INVALID_FORMAT, "getNestedList: children whose declared lengths do not tile the payload exactly are refused (INVALID_FORMAT)");
#else
	__CPROVER_assert(res == KSI_OK || (g_fails > 0 && (res == KSI_OUT_OF_MEMORY || res == KSI_INVALID_FORMAT)), "getNestedList: a payload tiled exactly by its children is accepted (failure only when an allocation failed)");
#endif
	if (res != KSI_OK) {
		__CPROVER_assert(tlv_same(P, &before) && l == NULL, "getNestedList: error -> the element and the output are untouched");
		__CPROVER_assert(g_live == live0, "getNestedList: error -> the partial child list and every child built so far are released");
#if defined(TT_CUT) || defined(TT_OOM)
		REACH("refused");
#endif
	} else {
		n = v_len(l);
		__CPROVER_assert(l != NULL && l == P->nested && n == 2, "getNestedList: the view has exactly the children encoded");
		res2 = v_at(l, 0, &c0); __CPROVER_assert(res2 == KSI_OK && c0 != NULL, "getNestedList: child 0 readable");
		res2 = v_at(l, 1, &c1); __CPROVER_assert(res2 == KSI_OK && c1 != NULL, "getNestedList: child 1 readable");
		if (c0 != NULL && c1 != NULL) {
			__CPROVER_assert(c0->tag == (blob[2] & 0x1f) && c0->isNonCritical == ((blob[2] & 0x40) != 0) && c0->isForwardable == ((blob[2] & 0x20) != 0) && c0->datap == blob + 4 && c0->datap_len == 1 && c0->buffer == NULL,
					"getNestedList: child 0 reports exactly the tag, flags and payload encoded (payload borrowed at its place in the input)");
			__CPROVER_assert(c1->tag == (blob[5] & 0x1f) && c1->isNonCritical == ((blob[5] & 0x40) != 0) && c1->isForwardable == ((blob[5] & 0x20) != 0) && c1->datap == blob + 7 && c1->datap_len == TT_L1 && c1->buffer == NULL,
					"getNestedList: child 1 reports exactly the tag, flags and payload encoded; it starts where child 0 ends and ends with the parent");
			__CPROVER_assert(c0->absoluteOffset == 0 + 0 && c1->absoluteOffset == 3, "getNestedList: offsets of the children inside the parent's payload");
		}
		__CPROVER_assert(P->datap == before.datap && P->datap_len == before.datap_len && P->buffer == before.buffer && P->tag == before.tag, "getNestedList: the element's own payload view is untouched");
		res2 = KSI_TLV_getNestedList(P, &l2);
		__CPROVER_assert(res2 == KSI_OK && l2 == l && v_len(l2) == 2, "getNestedList: a second call returns the same list");
#ifndef TT_CUT
		REACH("expanded");
#endif
#ifdef TT_CLONE
		{
			unsigned char o1[BLOB_LEN + 1], o2[BLOB_LEN + 1]; size_t n1 = 0, n2 = 0, kb = nondet_size(); KSI_LIST(KSI_TLV) *kl = NULL; KSI_TLV *k0 = NULL, *k1 = NULL; struct KSI_TLV_st pb = *P, c0b = *c0, c1b = *c1;
			long live1 = g_live;
#ifdef TT_CLONE_OOM
			g_fail_on = 1;
#endif
			res = KSI_TLV_clone(P, &K);
			g_fail_on = 0;
			__CPROVER_assert(res == KSI_OK || g_fails > 0, "clone: a tree that fits is cloned (failure only when an allocation failed)");
			__CPROVER_assert(tlv_same(P, &pb) && tlv_same(c0, &c0b) && tlv_same(c1, &c1b) && v_len(P->nested) == 2, "clone: the source tree is untouched");
			if (res != KSI_OK) {
				__CPROVER_assert(K == NULL && g_live == live1, "clone: failure -> output untouched, nothing stays allocated");
				REACH("clone failed");
			} else {
				__CPROVER_assert(K != NULL && K != P && K->tag == P->tag && K->isNonCritical == P->isNonCritical && K->isForwardable == P->isForwardable && K->datap_len == P->datap_len, "clone: same tag, flags and payload length");
				__CPROVER_assert(K->buffer != NULL && K->buffer != P->buffer, "clone: owns a buffer of its own");
				kl = K->nested;
				__CPROVER_assert(kl != NULL && kl != P->nested && v_len(kl) == 2, "clone: nesting is expanded as in the source");
				if (kl != NULL && v_len(kl) == 2) {
					v_at(kl, 0, &k0); v_at(kl, 1, &k1);
					__CPROVER_assert(k0 != NULL && k0 != c0 && k0->tag == c0->tag && k0->isNonCritical == c0->isNonCritical && k0->isForwardable == c0->isForwardable && k0->datap_len == 1 && k0->datap[0] == c0->datap[0], "clone: child 0 has the same tag, flags and payload octets, in an object of its own");
					__CPROVER_assert(k1 != NULL && k1 != c1 && k1->tag == c1->tag && k1->isNonCritical == c1->isNonCritical && k1->isForwardable == c1->isForwardable && k1->datap_len == TT_L1 && k1->datap[TT_L1 - 1] == c1->datap[TT_L1 - 1], "clone: child 1 has the same tag, flags and payload octets, in an object of its own");
					__CPROVER_assert(__CPROVER_same_object(k0->datap, K->buffer) && __CPROVER_same_object(k1->datap, K->buffer), "clone: the children's payload lives in the clone's buffer, not in the source's");
				}
				res = KSI_TLV_serialize_ex(P, o1, BLOB_LEN + 1, &n1); res2 = KSI_TLV_serialize_ex(K, o2, BLOB_LEN + 1, &n2);
				__CPROVER_assert(res == KSI_OK && res2 == KSI_OK && n1 == BLOB_LEN && n2 == BLOB_LEN, "clone: source and clone serialize to the size of the input");
				__CPROVER_assert(IMPLIES(kb < BLOB_LEN, o1[kb] == o2[kb] && o1[kb] == blob[kb]), "clone: source and clone serialize identically, to the octets parsed (witness index)");
				REACH("cloned");
				KSI_TLV_free(K);
			}
		}
#endif
	}
	KSI_TLV_free(P);
	__CPROVER_assert(g_live == 0, "getNestedList: releasing the element releases its input buffer, the list and every child exactly once");
}
#endif

void harness(void) {
#if defined(TT_OP_REPLACE)
	size_t j;
	for (j = 0; j <= TT_NK; j++) one(j);
#elif defined(TT_OP_APPEND)
#ifdef TT_NOLIST
	one(1);
#else
	one(0);
#endif
#elif defined(TT_OP_SETRAW)
#ifdef TT_FRESH
	setraw(0);
#else
	setraw(1);
#endif
#elif defined(TT_OP_NESTED)
	nested();
#endif
}
