/* C09: KSI_TlvElement_detach + static remap of the REAL tlv_element.c (with the REAL KSI_TlvElement_serialize and the REAL
 * header reader KSI_FTLV_memRead of fast_tlv.c, all included unmodified) - the element codec's own round trip
 * "serialize the tree into a buffer of its own, read the headers back, re-anchor every node on the new bytes".
 *
 * "serialization followed by parsing yields the same tree (tags, non-critical and forward flags, payload bytes, nesting),
 *  using the two-byte header exactly when tag <= 0x1f and length <= 0xff ... the element reports exactly the tag, flags
 *  and payload encoded":
 *
 * Contract of KSI_TlvElement_detach(el) for a well-formed element tree (every node: leaf = payload at ptr + hdr_len of
 * dat_len octets whatever header form the old representation had - 0 (bare payload), 2 or a valid NON-CANONICAL 4;
 * nested = element with a child list (possibly EMPTY: then its payload is empty whatever its own, possibly stale, dat_len says), its own hdr_len / dat_len possibly stale as the API leaves them; buffers owned or borrowed):
 *   result KSI_OK, or KSI_OUT_OF_MEMORY exactly when the one allocation (of exactly the canonical size) failed;
 *   KSI_OK => with  pay(X) = dat_len (leaf) | sum of tot(child) (nested),  tot(X) = hdr(tag, pay) + pay,
 *             off(root) = 0, off(child_i of P) = off(P) + hdr(P) + sum_{j<i} tot(child_j):
 *      EVERY node X of the tree:  X.ptr == newbuf + off(X)           (where ITS OWN canonical encoding starts)
 *                                 X.ftlv == (off 0, hdr(tag,pay), pay, tag, flags)   and == decoding of the bytes at X.ptr
 *                                 leaf payload octets unchanged at X.ptr + hdr
 *                                 ptr_own: root 1, every other node 0; ref / child lists untouched
 *      siblings tile the parent's payload (first child right behind the parent's header, each next child where the
 *      previous ends, the last ends with the parent);
 *      every old buffer that a node owned is released exactly once, borrowed ones never, the new buffer is live;
 *      serializing the detached tree again gives the same length and the same octets (witness index);
 *   failure => every node is exactly as before (ptr, all ftlv fields, ptr_own, ref, list), nothing of the tree
 *      released, the temporary buffer released once.
 * BOUNDED: depth <= 2, root with <= 3 children, at most one of them (any position) nested with <= 2 leaf children,
 * payload of a leaf <= DT_MAXP octets; tags (0..0x1fff), flags, old header forms, ownership, stale fields symbolic.
 * The SHAPE of the tree is fixed per job (-DDT_ROOT_LEAF | -DDT_NK= children of the root, -DDT_NEST= index of the nested
 * child (3: none), -DDT_NG= its children); the jobs of index_detach.json enumerate the shapes of the bound.
 * Plain mode (recursion and the child loops unwound, unwinding assertions on). */
#include "env/common.h"
#include <stdlib.h>
#define KSI_malloc dt_base_malloc
#define KSI_free dt_base_free
#include "env/stubs_base.h"
#undef KSI_malloc
#undef KSI_free
#include "tlv_element.h"
#include "fast_tlv.h"
#include "spec/tlv.h"

#ifndef DT_MAXP
#define DT_MAXP 2
#endif
#ifndef DT_NK
#define DT_NK 3
#endif
#ifndef DT_NEST
#define DT_NEST 3
#endif
#ifndef DT_NG
#define DT_NG 0
#endif
#define NN 6                       /* node 0 = root, 1..3 = children, 4..5 = grandchildren */

/* ---- recording allocation funnels [ASSUMED: pass-through as base.c; allocation may fail] ------------------------ */
static unsigned char *g_dt_new; static size_t g_dt_new_size; static unsigned g_dt_malloc_calls, g_dt_free_new, g_dt_free_other;
static unsigned char *g_old[NN]; static unsigned g_free_old[NN];
/* The new buffer is carved out of an object of CONSTANT size DT_OBJ (a dynamic object of symbolic size costs CBMC 12 M
 * clauses even for a single leaf): placed at the START of the object (default: every access BEFORE the buffer - the
 * serializer writes right to left - is an out-of-bounds access for CBMC) or, -DDT_PLACE_END, at its END (every access
 * BEHIND the buffer is).  The two placements together give exact bounds; in each, writes into the slack on the other
 * side are detected through a witness octet of the slack. */
#ifndef DT_OBJ
#define DT_LEAFMAX (4 + DT_MAXP)
#define DT_OBJ (4 + (DT_NK) * DT_LEAFMAX + ((DT_NG) > 0 ? (DT_NG) * DT_LEAFMAX : 0) + 2)     /* >= the largest encoding of the job's shape */
#endif
static unsigned char *g_dt_base; static size_t g_dt_sw; static unsigned char g_dt_slack0;
void *KSI_malloc(size_t size) {
	g_dt_malloc_calls++; g_dt_new_size = size;
	__CPROVER_assert(size <= DT_OBJ, "harness bound: the encoding fits the model object");
	if (nondet_bool()) { g_dt_new = NULL; return NULL; }
	g_dt_base = malloc(DT_OBJ);
#ifdef DT_PLACE_END
	g_dt_new = g_dt_base + (DT_OBJ - size);
	g_dt_sw = nondet_size(); __CPROVER_assume(g_dt_sw < DT_OBJ);
	g_dt_slack0 = g_dt_base[g_dt_sw];
#else
	g_dt_new = g_dt_base;
	g_dt_sw = nondet_size(); __CPROVER_assume(g_dt_sw < DT_OBJ);
	g_dt_slack0 = g_dt_base[g_dt_sw];
#endif
	return g_dt_new;
}
void KSI_free(void *p) {
	if (p == NULL) return;
	if (p == (void *)g_dt_new) { g_dt_free_new++; free(g_dt_base); return; }
	else if (p == (void *)g_old[0]) g_free_old[0]++; else if (p == (void *)g_old[1]) g_free_old[1]++; else if (p == (void *)g_old[2]) g_free_old[2]++;
	else if (p == (void *)g_old[3]) g_free_old[3]++; else if (p == (void *)g_old[4]) g_free_old[4]++; else if (p == (void *)g_old[5]) g_free_old[5]++;
	else g_dt_free_other++;
	free(p);
}

/* ---- the tree: concrete node pool, two child lists [ASSUMED list behaviour: length / elementAt succeed in range] --- */
static struct KSI_TlvElement_st N[NN], N0[NN];
static _Bool g_nested_sem[NN];
static KSI_LIST(KSI_TlvElement) L_root, L_nest;
static size_t n_kids, n_g, nest;          /* children of the root; children of the nested child; which child is nested (>= n_kids: none) */
static size_t dt_length(KSI_LIST(KSI_TlvElement) *l) { return l == &L_root ? n_kids : l == &L_nest ? n_g : 0; }
static int dt_elementAt(KSI_LIST(KSI_TlvElement) *l, size_t pos, KSI_TlvElement **o) {
	__CPROVER_assert(l == &L_root || l == &L_nest, "list protocol: a list of the tree");
	if (pos >= dt_length(l)) return KSI_BUFFER_OVERFLOW;
	*o = l == &L_root ? &N[1 + pos] : &N[4 + pos];
	return KSI_OK;
}

#include "fast_tlv.c"
#include "env/memops_exact.h"
#include "tlv_element.c"

/* ---- reference layout (spec/tlv.h) -------------------------------------------------------------------------------- */
static int is_nested(size_t x) { return x == 0 ? (N0[0].subList != NULL) : (x >= 1 && x <= 3 && x - 1 == nest && x - 1 < n_kids && n_g > 0); }
static size_t pay_g(size_t j) { return N0[4 + j].ftlv.dat_len; }
static size_t tot_g(size_t j) { return j < n_g ? spec_tlv_enc_hdr_len(N0[4 + j].ftlv.tag, pay_g(j)) + pay_g(j) : 0; }
static size_t pay_c(size_t i) { return is_nested(1 + i) ? tot_g(0) + tot_g(1) : N0[1 + i].ftlv.dat_len; }
static size_t tot_c(size_t i) { return i < n_kids ? spec_tlv_enc_hdr_len(N0[1 + i].ftlv.tag, pay_c(i)) + pay_c(i) : 0; }
static size_t pay_r(void) { return is_nested(0) ? tot_c(0) + tot_c(1) + tot_c(2) : N0[0].ftlv.dat_len; }
static size_t tot_r(void) { return spec_tlv_enc_hdr_len(N0[0].ftlv.tag, pay_r()) + pay_r(); }
static size_t pay_of(size_t x) { return x == 0 ? pay_r() : x <= 3 ? pay_c(x - 1) : pay_g(x - 4); }
static size_t hdr_of(size_t x) { return spec_tlv_enc_hdr_len(N0[x].ftlv.tag, pay_of(x)); }
static size_t off_c(size_t i) { return hdr_of(0) + (i > 0 ? tot_c(0) : 0) + (i > 1 ? tot_c(1) : 0); }
static size_t off_of(size_t x) { return x == 0 ? 0 : x <= 3 ? off_c(x - 1) : off_c(nest) + hdr_of(1 + nest) + (x == 5 ? tot_g(0) : 0); }
/* node x is part of the tree */
static int in_tree(size_t x) { return x == 0 || (x <= 3 && N0[0].subList != NULL && x - 1 < n_kids) || (x >= 4 && nest < n_kids && N0[0].subList != NULL && x - 4 < n_g); }

/* ---- building one node in an arbitrary well-formed OLD representation ----------------------------------------------- */
static void mk_node(size_t x, _Bool nested_sem) {
	struct KSI_TlvElement_st *e = &N[x];
	memset(e, 0, sizeof(*e));
	g_nested_sem[x] = nested_sem;
	e->ref = nondet_size();
	e->ftlv.tag = nondet_uint(); e->ftlv.is_nc = nondet_int(); e->ftlv.is_fwd = nondet_int(); e->ftlv.off = nondet_size();
	__CPROVER_assume(e->ftlv.tag <= SPEC_TLV_MAX_TAG);                         /* tags 0..0x1fff */
	e->ptr_own = nondet_bool();
	if (nested_sem) {
		/* what the API leaves behind on an expanded / assembled element: stale sizes, some (or no) old buffer */
		e->ftlv.hdr_len = nondet_size(); e->ftlv.dat_len = nondet_size();
		e->ptr = nondet_bool() ? NULL : malloc(1);
		if (e->ptr == NULL) e->ptr_own = 0;
	} else {
		size_t h = nondet_size(), d = nondet_size();
		__CPROVER_assume((h == 0 || h == 2 || h == 4) && d <= DT_MAXP);      /* old header: none, TLV8, or TLV16 (possibly non-canonical); bound on the payload */
		e->ftlv.hdr_len = h; e->ftlv.dat_len = d;
		if (d == 0 && nondet_bool()) { e->ptr = NULL; e->ptr_own = 0; }        /* a fresh element without data */
		else e->ptr = malloc(4 + DT_MAXP + 1);      /* the old buffer extends beyond the element (as the parent's input does); constant size keeps CBMC's array encoding small */
	}
	g_old[x] = e->ptr; g_free_old[x] = 0;
}
static int node_same(size_t x) {
	return N[x].ref == N0[x].ref && N[x].ptr == N0[x].ptr && N[x].ptr_own == N0[x].ptr_own && N[x].subList == N0[x].subList &&
			N[x].ftlv.off == N0[x].ftlv.off && N[x].ftlv.hdr_len == N0[x].ftlv.hdr_len && N[x].ftlv.dat_len == N0[x].ftlv.dat_len &&
			N[x].ftlv.tag == N0[x].ftlv.tag && N[x].ftlv.is_nc == N0[x].ftlv.is_nc && N[x].ftlv.is_fwd == N0[x].ftlv.is_fwd;
}
/* what must hold for node x after a successful detach; kw = witness payload index */
static unsigned char g_pay0[NN];      /* the witness payload octet of every leaf before the call */
static size_t g_kw;
#define NODE_ASSERTS(x, who) do { if (in_tree(x)) { \
	size_t rest_ = tot_r() - off_of(x); \
	__CPROVER_assert(N[x].ptr == g_dt_new + off_of(x), who ": ptr is inside the new buffer at the offset where its own canonical encoding starts"); \
	__CPROVER_assert(N[x].ftlv.tag == N0[x].ftlv.tag && (N[x].ftlv.is_nc != 0) == (N0[x].ftlv.is_nc != 0) && (N[x].ftlv.is_fwd != 0) == (N0[x].ftlv.is_fwd != 0), who ": tag and flags unchanged"); \
	__CPROVER_assert(N[x].ftlv.dat_len == pay_of(x), who ": dat_len = payload length (leaf: as before; nested: sum of the children's encodings)"); \
	__CPROVER_assert(N[x].ftlv.hdr_len == hdr_of(x), who ": hdr_len = canonical header length (2 exactly when tag <= 0x1f and payload <= 0xff)"); \
	__CPROVER_assert(N[x].ftlv.off == 0, who ": offset field 0"); \
	__CPROVER_assert(spec_tlv_elem_complete(N[x].ptr, rest_) && spec_tlv_dec_tag(N[x].ptr, rest_) == N[x].ftlv.tag && spec_tlv_dec_hdr_len(N[x].ptr, rest_) == N[x].ftlv.hdr_len && \
			spec_tlv_dec_dat_len(N[x].ptr, rest_) == N[x].ftlv.dat_len && spec_tlv_dec_nc(N[x].ptr, rest_) == N[x].ftlv.is_nc && spec_tlv_dec_fwd(N[x].ptr, rest_) == N[x].ftlv.is_fwd, \
			who ": ftlv (tag, flags, hdr_len, dat_len) = decoding of the octets at its ptr"); \
	__CPROVER_assert(IMPLIES(!is_nested(x) && g_kw < pay_of(x), N[x].ptr[hdr_of(x) + g_kw] == g_pay0[x]), who ": leaf payload octets unchanged behind the new header (witness index)"); \
	__CPROVER_assert(N[x].ptr_own == ((x) == 0 ? 1 : 0), who ": only the detached element owns the new buffer"); \
	__CPROVER_assert(N[x].ref == N0[x].ref && N[x].subList == N0[x].subList, who ": reference count and child list untouched"); \
	__CPROVER_assert(g_free_old[x] == ((N0[x].ptr_own && N0[x].ptr != NULL) ? 1 : 0), who ": the old buffer is released exactly once if the node owned it, never otherwise"); \
} else { __CPROVER_assert(node_same(x), who ": not part of the tree, untouched"); } } while (0)

void harness(void) {
	int res, res2; size_t len2 = 0; unsigned char out2[DT_OBJ]; _Bool root_list;
	memset(&L_root, 0, sizeof(L_root)); memset(&L_nest, 0, sizeof(L_nest));
	L_root.length = dt_length; L_root.elementAt = dt_elementAt; L_nest.length = dt_length; L_nest.elementAt = dt_elementAt;
	g_kw = nondet_size();
	__CPROVER_assume(g_kw < DT_MAXP);
	/* the SHAPE of the tree is fixed per job (-DDT_NK = children of the root, -DDT_NEST = which child is nested (3: none),
	 * -DDT_NG = its children): with a symbolic shape the real recursion does not unwind (every child pointer would be symbolic) */
	n_kids = DT_NK; nest = DT_NEST; n_g = DT_NG;
#ifdef DT_ROOT_LEAF
	root_list = 0;
#else
	root_list = 1;
#endif
	if (!root_list) n_kids = 0;
	if (nest >= n_kids) { nest = 3; n_g = 0; }
	mk_node(0, root_list);      /* an EXPANDED element consists of its children, also when there are none (fix in KSI_TlvElement_serialize: a stale declared length of such an element is not payload) */
	mk_node(1, nest == 0 && n_g > 0); mk_node(2, nest == 1 && n_g > 0); mk_node(3, nest == 2 && n_g > 0);
	mk_node(4, 0); mk_node(5, 0);
	N[0].subList = root_list ? &L_root : NULL;
	if (nest < 3) N[1 + nest].subList = &L_nest;
#define SNAP(x) do { N0[x] = N[x]; g_pay0[x] = (!g_nested_sem[x] && N[x].ptr != NULL && g_kw < N[x].ftlv.dat_len) ? N[x].ptr[N[x].ftlv.hdr_len + g_kw] : 0; } while (0)
	SNAP(0); SNAP(1); SNAP(2); SNAP(3); SNAP(4); SNAP(5);
	g_dt_new = NULL; g_dt_new_size = 0; g_dt_malloc_calls = 0; g_dt_free_new = 0; g_dt_free_other = 0;

	res = KSI_TlvElement_detach(&N[0]);

	__CPROVER_assert(res == KSI_OK || res == KSI_OUT_OF_MEMORY, "detach: a well-formed tree is never refused (OK, or OUT_OF_MEMORY)");
	__CPROVER_assert(g_dt_malloc_calls == 1 && g_dt_new_size == tot_r(), "detach: exactly one buffer of exactly the size of the canonical encoding is requested");
	__CPROVER_assert(IFF(res == KSI_OUT_OF_MEMORY, g_dt_new == NULL), "detach: OUT_OF_MEMORY exactly when that allocation failed");
	__CPROVER_assert(g_dt_free_other == 0, "detach: nothing foreign is released");
	if (res == KSI_OK) {
		__CPROVER_assert(g_dt_free_new == 0 && __CPROVER_r_ok(g_dt_new, tot_r()), "detach: the new buffer is live");
#ifdef DT_PLACE_END
		__CPROVER_assert(IMPLIES(g_dt_sw < DT_OBJ - tot_r(), g_dt_base[g_dt_sw] == g_dt_slack0), "detach: nothing is written in front of the new buffer (witness octet)");
#else
		__CPROVER_assert(IMPLIES(g_dt_sw >= tot_r(), g_dt_base[g_dt_sw] == g_dt_slack0), "detach: nothing is written behind the new buffer (witness octet)");
#endif
		NODE_ASSERTS(0, "detach: root");
		NODE_ASSERTS(1, "detach: child 0"); NODE_ASSERTS(2, "detach: child 1"); NODE_ASSERTS(3, "detach: child 2");
		NODE_ASSERTS(4, "detach: grandchild 0"); NODE_ASSERTS(5, "detach: grandchild 1");
		/* tiling, stated on what the nodes themselves report */
		__CPROVER_assert(IMPLIES(is_nested(0) && n_kids > 0, N[1].ptr == N[0].ptr + N[0].ftlv.hdr_len), "detach: the first child starts right behind the root's header");
		__CPROVER_assert(IMPLIES(is_nested(0) && n_kids > 1, N[2].ptr == N[1].ptr + N[1].ftlv.hdr_len + N[1].ftlv.dat_len), "detach: child 1 starts where child 0 ends");
		__CPROVER_assert(IMPLIES(is_nested(0) && n_kids > 2, N[3].ptr == N[2].ptr + N[2].ftlv.hdr_len + N[2].ftlv.dat_len), "detach: child 2 starts where child 1 ends");
		__CPROVER_assert(IMPLIES(is_nested(0), N[n_kids].ptr + N[n_kids].ftlv.hdr_len + N[n_kids].ftlv.dat_len == N[0].ptr + N[0].ftlv.hdr_len + N[0].ftlv.dat_len), "detach: the last child ends with the root's payload");
		__CPROVER_assert(IMPLIES(nest < 3 && n_g > 0, N[4].ptr == N[1 + nest].ptr + N[1 + nest].ftlv.hdr_len), "detach: the first grandchild starts right behind its parent's header");
		__CPROVER_assert(IMPLIES(nest < 3 && n_g > 1, N[5].ptr == N[4].ptr + N[4].ftlv.hdr_len + N[4].ftlv.dat_len), "detach: grandchild 1 starts where grandchild 0 ends");
		__CPROVER_assert(IMPLIES(nest < 3 && n_g > 0, N[3 + n_g].ptr + N[3 + n_g].ftlv.hdr_len + N[3 + n_g].ftlv.dat_len == N[1 + nest].ptr + N[1 + nest].ftlv.hdr_len + N[1 + nest].ftlv.dat_len),
				"detach: the last grandchild ends with its parent's payload");
#ifndef DT_NO_RESERIALIZE
		{
			size_t kb = nondet_size();
			__CPROVER_assert(tot_r() <= sizeof(out2), "harness: the scratch buffer holds every tree of the bound");
			res2 = KSI_TlvElement_serialize(&N[0], out2, tot_r(), &len2, 0);
			__CPROVER_assert(res2 == KSI_OK && len2 == tot_r(), "detach: serializing the detached tree again succeeds with the same length");
			__CPROVER_assert(IMPLIES(kb < tot_r(), out2[kb] == g_dt_new[kb]), "detach: serializing the detached tree again gives the same octets (witness index)");
		}
#endif
	} else {
		__CPROVER_assert(node_same(0) && node_same(1) && node_same(2) && node_same(3) && node_same(4) && node_same(5), "detach: failure -> every node is exactly as before");
		__CPROVER_assert(g_free_old[0] == 0 && g_free_old[1] == 0 && g_free_old[2] == 0 && g_free_old[3] == 0 && g_free_old[4] == 0 && g_free_old[5] == 0, "detach: failure -> no buffer of the tree is released");
		__CPROVER_assert(g_dt_free_new == (g_dt_new != NULL ? 1 : 0), "detach: failure -> the temporary buffer, if it was allocated, is released exactly once");
	}

	if (res == KSI_OK) REACH("detached");
	if (res == KSI_OUT_OF_MEMORY) REACH("allocation failure");
	if (res == KSI_OK && N0[0].ptr_own && N0[0].ptr != NULL) REACH("root owned its old buffer");
#ifdef DT_ROOT_LEAF
	if (res == KSI_OK && N0[0].ftlv.hdr_len == 4 && N0[0].ftlv.tag <= 0x1f && N0[0].ftlv.dat_len == DT_MAXP) REACH("leaf with a non-canonical 4-octet header detached");
	if (res == KSI_OK && N0[0].ptr == NULL) REACH("fresh element without data detached");
#elif DT_NK == 0
	if (res == KSI_OK && N0[0].ftlv.dat_len == DT_MAXP) REACH("element with an empty child list detached");
#else
	if (res == KSI_OK && N0[1].ptr_own && N0[1].ptr != NULL) REACH("a child owned its old buffer");
	if (res == KSI_OK && N0[0].ftlv.tag > 0x1f) REACH("root with a 4-octet header");
#if DT_NK >= 2 && DT_NEST != 0
	if (res == KSI_OK && N0[1].ftlv.hdr_len == 4 && N0[1].ftlv.tag <= 0x1f && N0[1].ftlv.dat_len > 0) REACH("non-last child whose old header was a non-canonical 4-octet header");
	if (res == KSI_OK && N0[1].ftlv.hdr_len == 0) REACH("non-last child that was a bare payload (hdr_len 0)");
#endif
#if DT_NG > 0 && DT_NEST == 0 && DT_NK >= 2
	if (res == KSI_OK && N0[1].ftlv.hdr_len + N0[1].ftlv.dat_len != tot_c(0)) REACH("depth 2: nested first child with stale sizes, followed by a sibling");
#endif
#if DT_NG > 0 && DT_NEST + 1 == DT_NK
	if (res == KSI_OK && nest + 1 == n_kids) REACH("depth 2: nested last child");
#endif
#endif
}
