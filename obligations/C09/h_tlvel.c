/* C09: the element codec of tlv_element.c against spec/tlv.h.  The real tlv_element.c is included unmodified. */
#include "env/common.h"
#include <stdlib.h>
#include "env/stubs_base.h"
#include "tlv_element.h"
#include "fast_tlv.h"
#include "spec/tlv.h"
#if defined(H_elparse) || defined(H_convertToNested)
#ifdef EL_MEMREAD_ARITH
#define FTLV_MEMREAD_ARITH
#endif
#include "contracts/fast_tlv_hdr.h"        /* KSI_FTLV_memRead replaced by its contract (C09.memRead / C09.memRead_arith) */
#endif
#ifdef EL_MEM_WITNESS
#include "env/memops_witness.h"           /* memcpy/memmove of symbolic length -> witness abstraction (assumed libc) */
#endif
#include "env/ghost_tlvelem.h"
#if defined(H_elserialize) || defined(H_elleaf) || defined(H_elnested)
#include "contracts/tlv_element_serialize.h"
#endif
#if defined(H_elparse) || defined(H_convertToNested)
#ifdef H_convertToNested
#define EL_BUILD_GHOST
#define EL_PARSE_ARITH
#endif
#include "contracts/tlv_element_parse.h"
#endif
#include "tlv_element.c"

#ifdef H_elserialize
void harness(void) {
	struct KSI_TlvElement_st el; unsigned char *buf = nondet_ptr(); size_t buf_size = nondet_size(); size_t *len = nondet_ptr(); int opt = nondet_int(); int res;
	size_t plen = nondet_size();
	memset(&el, 0, sizeof(el));
	el_setup();
	g_el_k = nondet_size(); g_el_byte = nondet_uchar();
#ifdef EL_MEM_WITNESS
	g_mem_k = nondet_size(); g_mem_k2 = nondet_size();
#endif
	el.ftlv.tag = nondet_uint(); el.ftlv.is_nc = nondet_int(); el.ftlv.is_fwd = nondet_int();
	el.ftlv.dat_len = nondet_size(); el.ftlv.hdr_len = nondet_size();
#ifdef EL_NESTED
	el.subList = &g_el_list;
	__CPROVER_assume(g_el_len > 0);                 /* case split: elements with children here, leaves in C09.elserialize_leaf */
#ifdef EL_QUERY
	buf = NULL; buf_size = 0;                       /* size-query mode */
#endif
#ifdef EL_FIT
	g_el_fit_only = 1;                              /* case split: the children fit the buffer; every buffer size: C09.elserialize_nested */
#endif
#ifdef EL_BUF_MAX
	__CPROVER_assume(buf_size <= EL_BUF_MAX);        /* stated bound of the job */
#endif
	g_el_bufsize = buf_size;
#else
	el.subList = nondet_bool() ? &g_el_list : NULL;
	g_el_len = 0;                                   /* leaf: no list, or an empty one */
	__CPROVER_assume(plen <= EL_MAX_LEAF + 4);
	el.ptr = malloc(plen); __CPROVER_assume(el.ptr != NULL);
	__CPROVER_assume(el.ftlv.dat_len == 0 || (el.ftlv.hdr_len <= 4 && el.ftlv.hdr_len + el.ftlv.dat_len == plen));
#endif
#ifdef EL_NO_MOVE
	opt |= KSI_TLV_OPT_NO_MOVE;                     /* case split on the final memmove: without it here, with it (bounded) in C09.elserialize_leaf_move */
#endif
#ifdef EL_MOVE_MAX
	opt &= ~KSI_TLV_OPT_NO_MOVE;
	__CPROVER_assume(el.ftlv.dat_len <= EL_MOVE_MAX && buf_size <= EL_MOVE_MAX + 8);    /* stated bound of the job */
#endif
	res = KSI_TlvElement_serialize(&el, buf, buf_size, len, opt);
	if (res == KSI_OK) REACH("serialized");
	if (res != KSI_OK) REACH("refused");
#ifdef EL_NESTED
	if (res == KSI_INVALID_FORMAT && !g_el_any_bad) REACH("content > 0xffff refused");
#endif
#ifdef EL_NESTED
	if (res == KSI_OK && g_el_len > 3 && g_el_w == 1) REACH("several children");
#else
#ifndef EL_MOVE_MAX
	if (res == KSI_OK && el.ftlv.dat_len == 0x100) REACH("payload 0x100");
	if (res == KSI_OK && el.ftlv.dat_len == 0xff && buf != NULL) REACH("payload 0xff written");
#else
	if (res == KSI_OK && el.ftlv.dat_len == 7 && buf != NULL && buf_size > 12) REACH("payload moved to the front");
#endif
#endif
}
#endif

#ifdef H_elleaf
/* Leaf elements, plain mode (no dfcc: the instrumented formula of the contract-mode job does not solve in time).
 * The leaf branch of the REAL KSI_TlvElement_serialize is loop-free (subList == NULL, so the children loop is not
 * entered); the clauses of contracts/tlv_element_serialize.h are asserted at the call site for every tag, flags,
 * payload length <= EL_MAX_LEAF, option word and buffer size. */
void harness(void) {
	struct KSI_TlvElement_st el; unsigned char *buf; size_t buf_size = nondet_size(); size_t len_out, len_old; int opt = nondet_int(); int res;
	size_t plen = nondet_size(); _Bool query = nondet_bool(); size_t *len = nondet_bool() ? &len_out : NULL;
	const KSI_TlvElement *element = &el;
	memset(&el, 0, sizeof(el));
	g_el_len = 0; g_el_calls = 0; g_el_sum = 0; g_el_cur_bad = 0; g_el_any_bad = 0;
#ifdef EL_GROUP_PAYLOAD
	g_el_k = nondet_size(); g_mem_k = nondet_size(); g_mem_k2 = nondet_size();    /* witnesses: arbitrary (plain mode zero-initialises globals) */
#else
	g_el_k = 0; g_mem_k = 0; g_mem_k2 = 0;   /* sizes and header octets do not depend on the payload witnesses: any fixed choice is a sound abstraction of memcpy/memmove */
#endif
	el.ftlv.tag = nondet_uint(); el.ftlv.is_nc = nondet_int(); el.ftlv.is_fwd = nondet_int();
	el.ftlv.dat_len = nondet_size(); el.ftlv.hdr_len = nondet_size();
	__CPROVER_assume(el.ftlv.tag <= SPEC_TLV_MAX_TAG);                 /* precondition: tags 0..0x1fff */
	__CPROVER_assume(el.ftlv.dat_len <= EL_MAX_LEAF && plen <= EL_MAX_LEAF + 4);
	el.ptr = malloc(plen); __CPROVER_assume(el.ptr != NULL);
	__CPROVER_assume(el.ftlv.dat_len == 0 || (el.ftlv.hdr_len <= 4 && el.ftlv.hdr_len + el.ftlv.dat_len == plen));
	if (query) { buf = NULL; buf_size = 0; } else { buf = malloc(buf_size); __CPROVER_assume(buf != NULL); }
	len_out = len_old = nondet_size();
#ifdef EL_OPT
	opt = EL_OPT | (opt & ~3);       /* case split on the two option bits the code looks at */
#endif
	res = KSI_TlvElement_serialize(&el, buf, buf_size, len, opt);
#ifndef EL_GROUP_PAYLOAD
	__CPROVER_assert(res == KSI_OK || res == KSI_BUFFER_OVERFLOW || res == KSI_INVALID_FORMAT, "C1 result code");
	__CPROVER_assert((res == KSI_INVALID_FORMAT) == (EL_HDR(opt) && EL_DAT(element) > SPEC_TLV_MAX_LEN && (buf == NULL || buf_size > EL_DAT(element))),
			"C1 INVALID_FORMAT exactly for a payload that exceeds the 16-bit length field (and the buffer holds the payload)");
	__CPROVER_assert(IMPLIES(res == KSI_OK && len != NULL, len_out == EL_TOT(element, opt)), "C2 reported size = payload + header, header 2 octets exactly when tag <= 0x1f and payload <= 0xff; same in size-query mode");
	__CPROVER_assert(IMPLIES(res != KSI_OK && len != NULL, len_out == len_old), "C2 size untouched on failure");
	__CPROVER_assert(IMPLIES(res == KSI_OK && buf != NULL, EL_TOT(element, opt) <= buf_size), "C3 nothing that does not fit is reported as written");
	__CPROVER_assert(IMPLIES((buf == NULL || (EL_TOT(element, opt) <= buf_size && buf_size > EL_DAT(element))) && (!EL_HDR(opt) || EL_DAT(element) <= SPEC_TLV_MAX_LEN), res == KSI_OK),
			"C5 succeeds whenever the payload is encodable (<= 0xffff or no header) and it fits (+1 spare octet)");
	__CPROVER_assert(IMPLIES(res == KSI_OK && EL_HDR(opt), EL_DAT(element) <= SPEC_TLV_MAX_LEN), "C6 payload longer than 0xffff is refused");
	if (res == KSI_OK && buf != NULL && EL_HDR(opt)) {
		size_t p = EL_POS(element, opt, buf_size);
		__CPROVER_assert(buf[p] == spec_tlv_enc_hdr_byte(el.ftlv.tag, el.ftlv.is_nc, el.ftlv.is_fwd, EL_DAT(element), 0), "C7 header octet 0 = reference encoding");
		__CPROVER_assert(buf[p + 1] == spec_tlv_enc_hdr_byte(el.ftlv.tag, el.ftlv.is_nc, el.ftlv.is_fwd, EL_DAT(element), 1), "C7 header octet 1 = reference encoding");
		if (spec_tlv_enc_hdr_len(el.ftlv.tag, EL_DAT(element)) == 4) {
			__CPROVER_assert(buf[p + 2] == spec_tlv_enc_hdr_byte(el.ftlv.tag, el.ftlv.is_nc, el.ftlv.is_fwd, EL_DAT(element), 2), "C7 header octet 2 = reference encoding");
			__CPROVER_assert(buf[p + 3] == spec_tlv_enc_hdr_byte(el.ftlv.tag, el.ftlv.is_nc, el.ftlv.is_fwd, EL_DAT(element), 3), "C7 header octet 3 = reference encoding");
		}
	}
#else
	if (res == KSI_OK && buf != NULL && g_el_k < EL_DAT(element) && EL_MEM_WITNESS_AT(g_el_k, (EL_TOT(element, opt) - EL_DAT(element)) + g_el_k, opt))
		__CPROVER_assert(buf[EL_POS(element, opt, buf_size) + (EL_TOT(element, opt) - EL_DAT(element)) + g_el_k] == el.ptr[el.ftlv.hdr_len + g_el_k], "C8 payload octets arrive unchanged after the header");
#endif
	if (res == KSI_OK) REACH("serialized"); else REACH("refused");
#if !defined(EL_OPT) || (EL_OPT & 1) == 0
	if (res == KSI_INVALID_FORMAT) REACH("payload > 0xffff refused");
#endif
	if (res == KSI_OK && buf != NULL && el.ftlv.dat_len == 0x100) REACH("payload 0x100 written");
	if (res == KSI_OK && buf != NULL && el.ftlv.dat_len == 0xff && el.ftlv.tag == 0x1f) REACH("largest short form written");
#ifdef EL_GROUP_PAYLOAD
	if (res == KSI_OK && buf != NULL && el.ftlv.dat_len > 9 && g_el_k == 5 && g_mem_k == 5 && (g_mem_k2 == 9 || g_mem_k2 == 7)) REACH("payload witness behind the header");
#endif
}
#endif

#ifdef H_elnested
/* Nested element, write mode, plain mode with the REAL recursion: parent { 1..2 leaf children }.  BOUNDED (children <= 2,
 * depth 1); tags, flags, payload lengths (<= EL_MAX_LEAF), option word and buffer size are symbolic.
 * EL_FIT: case split "the buffer holds the encoding" -> sizes, header octets, tiling of the children are asserted.
 * without EL_FIT: every buffer size -> only "no write outside the buffer, BUFFER_OVERFLOW when it does not fit". */
static struct KSI_TlvElement_st kids[2];
static int kid_elementAt(KSI_LIST(KSI_TlvElement) *l, size_t pos, KSI_TlvElement **o) { if (pos >= g_el_len) return KSI_BUFFER_OVERFLOW; if (pos == 0) *o = &kids[0]; else *o = &kids[1]; return KSI_OK; }
static size_t kid_total(size_t i) { return kids[i].ftlv.dat_len + spec_tlv_enc_hdr_len(kids[i].ftlv.tag, kids[i].ftlv.dat_len); }
void harness(void) {
	struct KSI_TlvElement_st el; unsigned char *buf; size_t buf_size = nondet_size(); size_t len_out = nondet_size(); int opt = nondet_int(); int res; size_t i, dat, tot, pos;
	memset(&el, 0, sizeof(el)); memset(kids, 0, sizeof(kids)); memset(&g_el_list, 0, sizeof(g_el_list));
	g_el_list.length = el_stub_length; g_el_list.elementAt = kid_elementAt;
	g_el_len = nondet_bool() ? 1 : 2;
	el.subList = &g_el_list; el.ftlv.tag = nondet_uint(); el.ftlv.is_nc = nondet_int(); el.ftlv.is_fwd = nondet_int(); el.ftlv.dat_len = nondet_size();
	__CPROVER_assume(el.ftlv.tag <= SPEC_TLV_MAX_TAG);
	for (i = 0; i < 2; i++) {
		kids[i].ftlv.tag = nondet_uint(); kids[i].ftlv.is_nc = nondet_int(); kids[i].ftlv.is_fwd = nondet_int(); kids[i].ftlv.dat_len = nondet_size(); kids[i].ftlv.hdr_len = nondet_bool() ? 2 : 4;
		__CPROVER_assume(kids[i].ftlv.tag <= SPEC_TLV_MAX_TAG && kids[i].ftlv.dat_len <= EL_MAX_LEAF);
		kids[i].ptr = malloc(kids[i].ftlv.hdr_len + kids[i].ftlv.dat_len); __CPROVER_assume(kids[i].ptr != NULL);
	}
	kids[0].subList = NULL; kids[1].subList = NULL;   /* leaves */
	dat = kid_total(0) + (g_el_len == 2 ? kid_total(1) : 0);
	tot = dat + (EL_HDR(opt) ? spec_tlv_enc_hdr_len(el.ftlv.tag, dat) : 0);
	__CPROVER_assume(buf_size <= 4 * EL_MAX_LEAF);
	buf = malloc(buf_size); __CPROVER_assume(buf != NULL);
#ifdef EL_FIT
	__CPROVER_assume(buf_size >= tot);
#endif
	res = KSI_TlvElement_serialize(&el, buf, buf_size, &len_out, opt);
#ifdef EL_FIT
	__CPROVER_assert(res == KSI_OK, "fits => OK");
	__CPROVER_assert(len_out == tot, "reported size = sum of the children + header (header 2 octets exactly when tag <= 0x1f and content <= 0xff)");
	__CPROVER_assert(IMPLIES(EL_HDR(opt), dat <= SPEC_TLV_MAX_LEN), "content longer than 0xffff is refused");
	pos = (opt & KSI_TLV_OPT_NO_MOVE) ? buf_size - tot : 0;
	if (EL_HDR(opt)) {
		__CPROVER_assert(buf[pos] == spec_tlv_enc_hdr_byte(el.ftlv.tag, el.ftlv.is_nc, el.ftlv.is_fwd, dat, 0) &&
				buf[pos + 1] == spec_tlv_enc_hdr_byte(el.ftlv.tag, el.ftlv.is_nc, el.ftlv.is_fwd, dat, 1), "parent header octets 0,1 = reference encoding");
		if (spec_tlv_enc_hdr_len(el.ftlv.tag, dat) == 4)
			__CPROVER_assert(buf[pos + 2] == spec_tlv_enc_hdr_byte(el.ftlv.tag, el.ftlv.is_nc, el.ftlv.is_fwd, dat, 2) &&
				buf[pos + 3] == spec_tlv_enc_hdr_byte(el.ftlv.tag, el.ftlv.is_nc, el.ftlv.is_fwd, dat, 3), "parent header octets 2,3 = reference encoding");
	}
	/* tiling: with NO_MOVE (no final move) the children's headers sit exactly one behind the other after the parent's header */
	if (opt & KSI_TLV_OPT_NO_MOVE) {
		size_t c0 = pos + (tot - dat), c1 = c0 + kid_total(0);
		__CPROVER_assert(buf[c0] == spec_tlv_enc_hdr_byte(kids[0].ftlv.tag, kids[0].ftlv.is_nc, kids[0].ftlv.is_fwd, kids[0].ftlv.dat_len, 0) &&
				buf[c0 + 1] == spec_tlv_enc_hdr_byte(kids[0].ftlv.tag, kids[0].ftlv.is_nc, kids[0].ftlv.is_fwd, kids[0].ftlv.dat_len, 1), "first child starts right after the parent's header");
		if (g_el_len == 2)
			__CPROVER_assert(buf[c1] == spec_tlv_enc_hdr_byte(kids[1].ftlv.tag, kids[1].ftlv.is_nc, kids[1].ftlv.is_fwd, kids[1].ftlv.dat_len, 0) &&
				buf[c1 + 1] == spec_tlv_enc_hdr_byte(kids[1].ftlv.tag, kids[1].ftlv.is_nc, kids[1].ftlv.is_fwd, kids[1].ftlv.dat_len, 1), "second child starts where the first ends");
	}
#else
	__CPROVER_assert(res == KSI_OK || res == KSI_BUFFER_OVERFLOW, "result code");
	__CPROVER_assert(IMPLIES(buf_size < tot, res == KSI_BUFFER_OVERFLOW), "does not fit => BUFFER_OVERFLOW");
#endif
	if (res == KSI_OK) REACH("serialized");
#ifndef EL_FIT
	if (res != KSI_OK) REACH("refused");
#endif
	if (res == KSI_OK && g_el_len == 2 && (opt & KSI_TLV_OPT_NO_MOVE)) REACH("two children, no move");
}
#endif

#ifdef H_elparse
void harness(void) {
	unsigned char *dat = nondet_ptr(); size_t dat_len = nondet_size(); KSI_TlvElement *o = NULL; KSI_TlvElement **out = &o; int res;
	res = KSI_TlvElement_parse(dat, dat_len, out);
#ifdef EL_OUT_BY_HARNESS
	if (res == KSI_OK) free(o);          /* the caller owns the result; nothing else may stay allocated (--memory-leak-check) */
#endif
	if (res == KSI_OK) REACH("element parsed");
	if (res == KSI_INVALID_FORMAT) REACH("refused");
	if (res == KSI_OUT_OF_MEMORY) REACH("allocation failed");
	if (res == KSI_OK && dat_len > 70000) REACH("trailing octets are allowed");
}
#endif

#ifdef H_convertToNested
void harness(void) {
	struct KSI_TlvElement_st el; int res; size_t len = nondet_size(); size_t hdr = nondet_bool() ? 2 : 4;
	memset(&el, 0, sizeof(el));
	__CPROVER_assume(len <= EL_MAX_INPUT);
	el.ptr = malloc(hdr + len); __CPROVER_assume(el.ptr != NULL);
	el.ftlv.hdr_len = hdr; el.ftlv.dat_len = len; el.ref = 1;
	g_eb_base = el.ptr + hdr; g_eb_len = len; g_eb_live = 0; g_eb_freed = 0; g_eb_off = 0; g_eb_count = 0; g_eb_rejected = NULL; g_elfree_calls = 0; g_elfree_arg = NULL;
	el.subList = nondet_bool() ? &g_el_list : NULL;
	res = convertToNested(&el);
	if (res == KSI_OK && el.subList == &g_eb_list) REACH("payload expanded");
	if (res == KSI_OK && el.subList == &g_eb_list && g_eb_count > 3) REACH("many children");
	if (res == KSI_INVALID_FORMAT) REACH("payload does not tile");
	if (res == KSI_OUT_OF_MEMORY) REACH("allocation failure");
	/* (audit builderY, dfcc __invalid_ptr sharing) the replaced KSI_TlvElement_parse fails at a LATER loop iteration, after it returned an element */
	if (res == KSI_INVALID_FORMAT && g_eb_count >= 1) REACH("a later child is malformed, after one or more children were parsed");
	if (res == KSI_OUT_OF_MEMORY && g_eb_count >= 1) REACH("allocation failure at a later child");
}
#endif
