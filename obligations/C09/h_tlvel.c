/* C09: the element codec of tlv_element.c against spec/tlv.h.  The real tlv_element.c is included unmodified. */
#include "env/common.h"
#include <stdlib.h>
#include "env/stubs_base.h"
#include "tlv_element.h"
#include "fast_tlv.h"
#include "spec/tlv.h"
#if defined(H_elparse) || defined(H_convertToNested)
#ifdef EL_MEMREAD_ARITH
#define FTLV_MEMREAD_ARITH
#endif
#include "contracts/fast_tlv_hdr.h"        /* KSI_FTLV_memRead replaced by its contract (C09.memRead / C09.memRead_arith) */
#endif
#ifdef EL_MEM_WITNESS
#include "env/memops_witness.h"           /* memcpy/memmove of symbolic length -> witness abstraction (assumed libc) */
#endif
#include "env/ghost_tlvelem.h"
#if defined(H_elserialize)
#include "contracts/tlv_element_serialize.h"
#endif
#if defined(H_elparse) || defined(H_convertToNested)
#include "contracts/tlv_element_parse.h"
#endif
#include "tlv_element.c"

#ifdef H_elserialize
void harness(void) {
	struct KSI_TlvElement_st el; unsigned char *buf = nondet_ptr(); size_t buf_size = nondet_size(); size_t *len = nondet_ptr(); int opt = nondet_int(); int res;
	size_t plen = nondet_size();
	memset(&el, 0, sizeof(el));
	el_setup();
	el.ftlv.tag = nondet_uint(); el.ftlv.is_nc = nondet_int(); el.ftlv.is_fwd = nondet_int();
	el.ftlv.dat_len = nondet_size(); el.ftlv.hdr_len = nondet_size();
#ifdef EL_NESTED
	el.subList = &g_el_list;
	__CPROVER_assume(g_el_len > 0);                 /* case split: elements with children here, leaves in C09.elserialize_leaf */
#ifdef EL_QUERY
	buf = NULL; buf_size = 0;                       /* size-query mode */
#endif
#ifdef EL_FIT
	g_el_fit_only = 1;                              /* case split: the children fit the buffer; every buffer size: C09.elserialize_nested */
#endif
	g_el_bufsize = buf_size;
#else
	el.subList = nondet_bool() ? &g_el_list : NULL;
	g_el_len = 0;                                   /* leaf: no list, or an empty one */
	__CPROVER_assume(plen <= EL_MAX_LEAF + 4);
	el.ptr = malloc(plen); __CPROVER_assume(el.ptr != NULL);
	__CPROVER_assume(el.ftlv.dat_len == 0 || (el.ftlv.hdr_len <= 4 && el.ftlv.hdr_len + el.ftlv.dat_len == plen));
#endif
#ifdef EL_NO_MOVE
	opt |= KSI_TLV_OPT_NO_MOVE;                     /* case split on the final memmove: without it here, with it (bounded) in C09.elserialize_leaf_move */
#endif
#ifdef EL_MOVE_MAX
	opt &= ~KSI_TLV_OPT_NO_MOVE;
	__CPROVER_assume(el.ftlv.dat_len <= EL_MOVE_MAX && buf_size <= EL_MOVE_MAX + 8);    /* stated bound of the job */
#endif
	res = KSI_TlvElement_serialize(&el, buf, buf_size, len, opt);
	if (res == KSI_OK) REACH("serialized");
#ifndef EL_QUERY
	if (res != KSI_OK) REACH("refused");
#endif
#ifdef EL_NESTED
	if (res == KSI_OK && g_el_len > 3 && g_el_w == 1) REACH("several children");
#else
#ifndef EL_MOVE_MAX
	if (res == KSI_OK && el.ftlv.dat_len == 0x100) REACH("payload 0x100");
	if (res == KSI_OK && el.ftlv.dat_len == 0xff && buf != NULL) REACH("payload 0xff written");
#else
	if (res == KSI_OK && el.ftlv.dat_len == 7 && buf != NULL && buf_size > 12) REACH("payload moved to the front");
#endif
#endif
}
#endif
