/* C09: the tree codec of tlv.c against spec/tlv.h.  The real tlv.c is included unmodified. */
#include "env/common.h"
#include <stdlib.h>
#include "env/stubs_base.h"
#include "tlv.h"
#include "fast_tlv.h"
#include "spec/tlv.h"
#include "tlv.c"
#include "contracts/tlv_serialize.h"

#ifdef H_serializeTlv
void harness(void) {
	const KSI_TLV *tlv = nondet_ptr(); unsigned char *buf = nondet_ptr(); size_t buf_size = nondet_size(); size_t *buf_len = nondet_ptr();
	int opt = nondet_int();
	int res = serializeTlv(tlv, buf, buf_size, buf_len, opt);
	if (res == KSI_OK) REACH("serialized");
	if (res == KSI_OK && g_sp_len == 0xff) REACH("payload 0xff");
	if (res == KSI_OK && g_sp_len == 0x100) REACH("payload 0x100");
	if (res == KSI_OK && g_sp_len == 0xffff && TLV_WANTS_HDR(opt)) REACH("payload 0xffff with header");
	if (res == KSI_BUFFER_OVERFLOW) REACH("does not fit");
	if (res != KSI_OK && res != KSI_BUFFER_OVERFLOW) REACH("payload error passed on");
}
#endif
