/* C09: the tree codec of tlv.c against spec/tlv.h.  The real tlv.c is included unmodified. */
#include "env/common.h"
#include <stdlib.h>
#include "env/stubs_base.h"
#include "tlv.h"
#include "fast_tlv.h"
#include "spec/tlv.h"
#if defined(H_readFirstTlv) || defined(H_encodeAsNested)
#ifdef TLV_MEMREAD_ARITH
#define FTLV_MEMREAD_ARITH
#endif
#include "contracts/fast_tlv_hdr.h"      /* KSI_FTLV_memRead is replaced by its contract (enforced by C09.memRead) */
#endif
#include "tlv.c"
#ifdef H_encodeAsNested
#include "env/ghost_tlvlist.h"
#define TLV_BUILD_GHOST
#endif
#include "contracts/tlv_parse.h"
#if defined(H_serializeNested) || defined(H_readFirstTlv) || defined(H_parseBlob2) || defined(H_encodeAsNested)
#include "env/ghost_tlvlist.h"
#include "contracts/tlv_nested.h"
#endif
#include "contracts/tlv_serialize.h"

#ifdef H_serializeTlv
void harness(void) {
	const KSI_TLV *tlv = nondet_ptr(); unsigned char *buf = nondet_ptr(); size_t buf_size = nondet_size(); size_t *buf_len = nondet_ptr();
	int opt = nondet_int(); int res;
	g_sp_res = nondet_int(); g_sp_len = nondet_size(); g_sp_byte = nondet_uchar(); g_tlv_k = nondet_size();   /* logical variables: arbitrary */
	res = serializeTlv(tlv, buf, buf_size, buf_len, opt);
	if (res == KSI_OK) REACH("serialized");
	if (res == KSI_OK && g_sp_len == 0xff) REACH("payload 0xff");
	if (res == KSI_OK && g_sp_len == 0x100) REACH("payload 0x100");
	if (res == KSI_OK && g_sp_len == 0xffff && TLV_WANTS_HDR(opt)) REACH("payload 0xffff with header");
	if (res == KSI_BUFFER_OVERFLOW) REACH("does not fit");
	if (res != KSI_OK && res != KSI_BUFFER_OVERFLOW) REACH("payload error passed on");
}
#endif

#ifdef H_serializePayload
void harness(void) {
	const KSI_TLV *tlv = nondet_ptr(); unsigned char *buf = nondet_ptr(); size_t buf_size = nondet_size(); size_t *buf_len = nondet_ptr();
	int res = serializePayload(tlv, buf, buf_size, buf_len);
	if (res == KSI_OK) REACH("payload serialized"); else REACH("payload refused");
}
#endif

#ifdef H_serializeRaw
void harness(void) {
	const KSI_TLV *tlv = nondet_ptr(); unsigned char *buf = nondet_ptr(); size_t buf_size = nondet_size(); size_t *buf_len = nondet_ptr();
	int res;
	g_tlv_k = nondet_size();
	res = serializeRaw(tlv, buf, buf_size, buf_len);
	if (res == KSI_OK) REACH("raw payload copied"); else REACH("buffer too small");
	if (res == KSI_OK && buf_size > 3 && g_tlv_k == 2) REACH("third octet");
}
#endif

#ifdef H_serializeNested
void harness(void) {
	struct KSI_TLV_st parent; unsigned char *buf = nondet_ptr(); size_t buf_size = nondet_size(); size_t *buf_len = nondet_ptr(); int res;
	memset(&parent, 0, sizeof(parent));
	nl_setup();
	g_tlv_k = nondet_size(); g_st_byte = nondet_uchar();
	parent.nested = nondet_bool() ? &g_nl_list : NULL;
	parent.tag = nondet_uint();
	res = serializeNested(&parent, buf, buf_size, buf_len);
	if (res == KSI_OK) REACH("children serialized"); else REACH("a child failed");
	if (res == KSI_OK && g_nl_len == 0 && parent.nested != NULL) REACH("empty list");
	if (res == KSI_OK && g_nl_len > 5 && g_nl_w == 3) REACH("long list");
}
#endif

#ifdef H_writeBytes
void harness(void) {
	const KSI_TLV *tlv = nondet_ptr(); unsigned char *buf = nondet_ptr(); size_t buf_size = nondet_size(); size_t *buf_len = nondet_ptr();
	int opt = nondet_int(); int res;
	g_st_res = nondet_int(); g_st_len = nondet_size(); g_st_byte2 = nondet_uchar(); g_tlv_k = nondet_size();   /* logical variables: arbitrary */
	res = KSI_TLV_writeBytes(tlv, buf, buf_size, buf_len, opt);
	if (res == KSI_OK) REACH("written"); else REACH("refused");
	if (res == KSI_OK && (opt & KSI_TLV_OPT_NO_MOVE) == 0 && g_st_len > 4 && g_tlv_k == 3 && buf_size > g_st_len + 9) REACH("moved to the front");
	if (res == KSI_OK && (opt & KSI_TLV_OPT_NO_MOVE) != 0 && g_st_len > 4) REACH("left at the end");
}
#endif

#ifdef H_readFirstTlv
void harness(void) {
	int ctxobj; unsigned char *data = nondet_ptr(); size_t data_length = nondet_size(); KSI_TLV *out = NULL; KSI_TLV **tlv = &out;
	size_t r = readFirstTlv((KSI_CTX *)&ctxobj, data, data_length, tlv);
#ifdef TLV_OUT_BY_HARNESS
	if (r != 0) free(out);       /* the caller owns the result; everything else must have been released (--memory-leak-check) */
#endif
	if (r != 0) REACH("element read"); else REACH("nothing read");
	if (r == 0 && data_length > 4) REACH("refused: truncated");
}
#endif

#ifdef H_parseBlob2
void harness(void) {
	int ctxobj; unsigned char *data = nondet_ptr(); size_t data_length = nondet_size(); KSI_TLV **tlv = nondet_ptr(); int own = nondet_int();
	int res = KSI_TLV_parseBlob2((KSI_CTX *)&ctxobj, data, data_length, own, tlv);
	if (res == KSI_OK) REACH("blob accepted");
	if (res == KSI_INVALID_FORMAT) REACH("blob refused");
	if (res == KSI_INVALID_ARGUMENT) REACH("too short");
	if (res == KSI_OK && own) REACH("memory taken over");
}
#endif

#ifdef H_encodeAsNested
void harness(void) {
	int ctxobj; struct KSI_TLV_st parent; int res; size_t len = nondet_size();
	memset(&parent, 0, sizeof(parent));
	parent.ctx = (KSI_CTX *)&ctxobj; parent.tag = nondet_uint();
	__CPROVER_assume(len <= TLV_MAX_INPUT);
	parent.datap = malloc(len); __CPROVER_assume(parent.datap != NULL); parent.datap_len = len;
	g_bl_base = parent.datap; g_bl_len = len; g_bl_live = 0; g_bl_freed = 0; g_bl_off = 0; g_bl_count = 0; g_bl_w = nondet_size(); g_bl_rejected = NULL; g_tlvfree_calls = 0;
	parent.nested = nondet_bool() ? &g_nl_list : NULL;
	res = encodeAsNestedTlvs(&parent);
	if (res == KSI_OK && parent.nested == &g_bl_list) REACH("payload expanded");
	if (res == KSI_OK && parent.nested == &g_bl_list && g_bl_count > 3) REACH("many children");
	if (res == KSI_OK && parent.nested == &g_bl_list && g_bl_count == 0) REACH("empty payload, empty list");
	if (res == KSI_INVALID_FORMAT) REACH("payload does not tile");
	if (res == KSI_OUT_OF_MEMORY) REACH("allocation failure");
	/* (audit builderY, dfcc __invalid_ptr sharing) the replaced readFirstTlv returns nothing at a LATER loop iteration, after it returned an element */
	if (res == KSI_INVALID_FORMAT && g_bl_count >= 1) REACH("a later child cannot be read, after one or more children were read");
}
#endif
