/* C09 (tree API of the element codec): KSI_TlvElement_getElement / appendElement / setElement / removeElement and
 * KSI_TlvElement_new / free / ref of the REAL tlv_element.c on the REAL list.c (KSI_List_new, appendElement, find,
 * replaceElementAt, removeElement, elementAt, length, KSI_List_foldl, KSI_List_free - all included unmodified) with the REAL
 * serializer KSI_TlvElement_serialize reading the result back.
 *
 * Property text: "serialization followed by parsing yields the same tree (tags, flags, payload bytes, nesting) ... parsing
 * succeeds only if the declared lengths exactly tile the input at every level that is expanded".  For the editing API this
 * means (stated over the WHOLE child view, not only the touched child):
 *
 *   view(P) = (c_0 .. c_{n-1})  the children of P in order;   cnt(t) = number of children with tag t
 *   getElement(P, t, &el):   OK iff cnt(t) <= 1, INVALID_STATE iff cnt(t) >= 2 (or OUT_OF_MEMORY when an allocation failed);
 *                            cnt(t) = 1 and OK => *el = that child, its reference count + 1; otherwise *el untouched;
 *                            ALWAYS: view(P) unchanged (length, identity and order), every node field for field as before
 *                            (but the one reference handed out), nothing stays allocated.
 *   appendElement(P, x):     OK => view' = view ++ (x), ref(x) + 1;            failure => view and every node unchanged
 *   setElement(P, x):        cnt(tag x) = 0: as append; = 1 at position i: view' = view[i := x], the replaced child is released
 *                            exactly once, ref(x) + 1;   >= 2: INVALID_STATE;   failure => view and every node unchanged
 *   removeElement(P, t, el): OK iff cnt(t) = 1 (at i): view' = view without position i (order kept), the removed child is handed
 *                            to *el (reference kept) or released exactly once (el = NULL); otherwise INVALID_STATE, unchanged
 *   in every case: enc(P) afterwards = hdr(P, S') ++ enc(view'_0) ++ ... (spec/tlvtree.h, witness index), produced by the real
 *   serializer; the parent's own declared payload length stays the sum of what its children declare (if it was before) -
 *   this is what the serializer falls back to when the list becomes empty.
 *   C19: with allocation failures switched on for the call (-DET_OOM) every failed call leaves the tree unchanged.
 *
 * BOUNDED: depth 1, ET_NK children (fixed per job), leaf payload <= ET_MAXP octets; tags 0..0x1fff, flags, old header form of
 * every leaf (0/2/4), buffer ownership, parent's declared length symbolic.  Plain mode, loops and recursion unwound
 * (unwinding assertions on).  Ownership: reference counts of every node are compared before / after, the allocation funnels
 * keep a live-block counter (nothing the call allocates temporarily stays allocated); -DET_CLEANUP additionally releases
 * the whole tree through the real KSI_TlvElement_free (double free = failed free precondition of CBMC's free). */
#include "env/common.h"
#include <stdlib.h>
#define KSI_malloc et_unused_malloc
#define KSI_calloc et_unused_calloc
#define KSI_free et_unused_free
#include "env/stubs_base.h"
#undef KSI_malloc
#undef KSI_calloc
#undef KSI_free
#include "tlv_element.h"
#include "fast_tlv.h"
#include "spec/tlvtree.h"

#ifndef ET_MAXP
#define ET_MAXP 2
#endif
#ifndef ET_NK
#define ET_NK 2
#endif
#define ET_LEAFMAX (4 + ET_MAXP)
#define ET_OUT (4 + (ET_NK + 1) * ET_LEAFMAX + 2)

/* ---- allocation funnels [ASSUMED: pass-through as base.c]; failures only while g_fail_on ------------------------------ */
static _Bool g_fail_on; static unsigned g_fails; static long g_live;      /* g_live: blocks handed out by the funnels and not yet given back */
void *KSI_malloc(size_t n) { void *p; if (g_fail_on && nondet_bool()) { g_fails++; return NULL; } p = malloc(n); if (p != NULL) g_live++; return p; }
void *KSI_calloc(size_t a, size_t b) { void *p; if (g_fail_on && nondet_bool()) { g_fails++; return NULL; } p = calloc(a, b); if (p != NULL) g_live++; return p; }
void KSI_free(void *p) { if (p != NULL) { g_live--; free(p); } }

#include "fast_tlv.c"
#include "list.c"
#include "env/memops_exact.h"
#include "tlv_element.c"

/* ---- the tree -------------------------------------------------------------------------------------------------------- */
#define NC 4                                  /* C[0..ET_NK-1] children, X = the element handed to append / set */
static KSI_TlvElement *P, *C[NC], *X;
static struct KSI_TlvElement_st P0, C0[NC], X0;
static unsigned char *buf_of[NC + 1];         /* payload buffers (index NC: X) */
static unsigned char pay0[NC + 1][ET_MAXP + 4 + 1];

static KSI_TlvElement *mk_leaf(size_t bi, unsigned tag) {
	KSI_TlvElement *e = NULL; size_t h = nondet_size(), d = nondet_size(), i;
	if (KSI_TlvElement_new(&e) != KSI_OK || e == NULL) return NULL;
	__CPROVER_assume((h == 0 || h == 2 || h == 4) && d <= ET_MAXP);      /* old header: none, TLV8 or TLV16; bound on the payload */
	e->ftlv.tag = tag;
	e->ftlv.is_nc = nondet_bool(); e->ftlv.is_fwd = nondet_bool(); e->ftlv.off = nondet_size();
	e->ftlv.hdr_len = h; e->ftlv.dat_len = d;
	e->ptr = malloc(ET_MAXP + 4 + 1); e->ptr_own = 1;
	if (e->ptr == NULL) { e->ptr_own = 0; e->ftlv.dat_len = 0; }
	else for (i = 0; i < ET_MAXP + 4 + 1; i++) { e->ptr[i] = nondet_uchar(); pay0[bi][i] = e->ptr[i]; }
	buf_of[bi] = e->ptr;
	return e;
}
static int node_same(const KSI_TlvElement *a, const struct KSI_TlvElement_st *b, size_t dref) {
	return a->ref == b->ref + dref && a->ptr == b->ptr && a->ptr_own == b->ptr_own && a->subList == b->subList &&
			a->ftlv.off == b->ftlv.off && a->ftlv.hdr_len == b->ftlv.hdr_len && a->ftlv.dat_len == b->ftlv.dat_len &&
			a->ftlv.tag == b->ftlv.tag && a->ftlv.is_nc == b->ftlv.is_nc && a->ftlv.is_fwd == b->ftlv.is_fwd;
}
static int buf_same(size_t bi) {
	size_t i; int ok = 1;
	if (buf_of[bi] == NULL) return 1;
	for (i = 0; i < ET_MAXP + 4 + 1; i++) ok = ok && buf_of[bi][i] == pay0[bi][i];
	return ok;
}
static void leaf_desc(spec_tt_leaf *l, const struct KSI_TlvElement_st *s) {
	l->tag = s->ftlv.tag; l->nc = s->ftlv.is_nc; l->fwd = s->ftlv.is_fwd; l->len = s->ftlv.dat_len; l->pay = s->ptr + s->ftlv.hdr_len;
}
static size_t declared(const struct KSI_TlvElement_st *s) { return s->ftlv.hdr_len + s->ftlv.dat_len; }

#ifndef ET_QTAG
#define ET_QTAG 0x1fu
#endif
/* the tag of child i: symbolic (-DET_SYMTAGS: every tag 0..0x1fff, every match pattern in one run) or, default, drawn from
 * fixed values such that exactly the children named by the bit mask `pat` carry the queried tag (the harness enumerates
 * every mask; the list logic only compares tags for equality) */
static unsigned tag_of(unsigned pat, size_t i, unsigned q) {
#ifdef ET_SYMTAGS
	unsigned t = nondet_uint(); __CPROVER_assume(t <= SPEC_TLV_MAX_TAG); return t;
#else
	return ((pat >> i) & 1u) ? q : q + 1u + (unsigned)i;
#endif
}
static void one(unsigned pat) {
	size_t i, n1, cnt, first = 0, kb = nondet_size(), len = 0, sum0 = 0, sum1 = 0;
#ifdef ET_SYMTAGS
	unsigned tags[NC]; unsigned q_tag = nondet_uint();
#else
	unsigned tags[NC]; unsigned q_tag = ET_QTAG;
#endif
	KSI_TlvElement *exp[NC + 1], *got[NC + 1], *out = NULL, **pout = &out;
	const struct KSI_TlvElement_st *exps[NC + 1];
	spec_tt_leaf desc[NC + 1];
	unsigned char o[ET_OUT];
	int res, res2; size_t nexp; long live0; _Bool cons, changed = 0, is_replace = 0, is_append = 0, is_remove = 0;

	g_fails = 0; g_fail_on = 0;
	/* build: parent with an (allocated, possibly empty) child list of ET_NK leaves; the harness keeps one reference to every node */
	if (KSI_TlvElement_new(&P) != KSI_OK || P == NULL) return;
	P->ftlv.tag = nondet_uint(); __CPROVER_assume(P->ftlv.tag <= SPEC_TLV_MAX_TAG);
	P->ftlv.is_nc = nondet_bool(); P->ftlv.is_fwd = nondet_bool(); P->ftlv.off = nondet_size();
	P->ftlv.hdr_len = nondet_size(); P->ftlv.dat_len = nondet_size();
	if (KSI_TlvElementList_new(&P->subList) != KSI_OK || P->subList == NULL) return;
	for (i = 0; i < ET_NK; i++) {
		C[i] = mk_leaf(i, tag_of(pat, i, q_tag));
		if (C[i] == NULL || C[i]->ptr == NULL) return;
		if (KSI_TlvElementList_append(P->subList, KSI_TlvElement_ref(C[i])) != KSI_OK) return;
		C0[i] = *C[i]; tags[i] = C[i]->ftlv.tag; sum0 += declared(&C0[i]);
	}
#if ET_NK == 0
	P->ftlv.dat_len = 0;                     /* an element with an empty child list declares an empty payload */
#endif
	X = mk_leaf(NC, tag_of(1u, 0, q_tag));
	if (X == NULL || X->ptr == NULL) return;
	X0 = *X; P0 = *P;
	cons = (P0.ftlv.dat_len == sum0);
	__CPROVER_assume(q_tag <= SPEC_TLV_MAX_TAG);

	live0 = g_live;
#ifdef ET_OOM
	g_fail_on = 1;
#endif
#if defined(ET_OP_GET)
	res = KSI_TlvElement_getElement(P, q_tag, pout);
#elif defined(ET_OP_APPEND)
	res = KSI_TlvElement_appendElement(P, X);
#elif defined(ET_OP_SET)
	q_tag = X0.ftlv.tag;
	res = KSI_TlvElement_setElement(P, X);
#elif defined(ET_OP_REMOVE)
	if (nondet_bool()) pout = NULL;
	res = KSI_TlvElement_removeElement(P, q_tag, pout);
#endif
	g_fail_on = 0;

	cnt = spec_tt_count_tag(tags, ET_NK, q_tag, &first);

	/* ---- result code -------------------------------------------------------------------------------------------------- */
#ifdef ET_OOM
	__CPROVER_assert(IMPLIES(res == KSI_OUT_OF_MEMORY, g_fails > 0), "tree api: OUT_OF_MEMORY only when an allocation failed");
	__CPROVER_assert(res == KSI_OK || res == KSI_INVALID_STATE || res == KSI_OUT_OF_MEMORY, "tree api: result is OK, INVALID_STATE or OUT_OF_MEMORY");
	__CPROVER_assert(IMPLIES(g_fails == 0, res != KSI_OUT_OF_MEMORY), "tree api: no OUT_OF_MEMORY without a failed allocation");
#else
	__CPROVER_assert(res == KSI_OK || res == KSI_INVALID_STATE, "tree api: result is OK or INVALID_STATE");
#endif
#if defined(ET_OP_GET) || defined(ET_OP_SET)
	__CPROVER_assert(IMPLIES(res == KSI_OK, cnt <= 1), "tree api: OK only if at most one child carries the tag ('exactly one' rule)");
	__CPROVER_assert(IMPLIES(cnt >= 2 && g_fails == 0, res == KSI_INVALID_STATE), "tree api: INVALID_STATE when several children carry the tag");
	__CPROVER_assert(IMPLIES(cnt <= 1 && g_fails == 0, res == KSI_OK), "tree api: never refused when at most one child carries the tag");
#elif defined(ET_OP_REMOVE)
	__CPROVER_assert(IMPLIES(res == KSI_OK, cnt == 1), "tree api: remove succeeds only if exactly one child carries the tag");
	__CPROVER_assert(IMPLIES(cnt != 1 && g_fails == 0, res == KSI_INVALID_STATE), "tree api: remove is INVALID_STATE when no child or several children carry the tag");
	__CPROVER_assert(IMPLIES(cnt == 1 && g_fails == 0, res == KSI_OK), "tree api: remove is never refused when exactly one child carries the tag");
#elif defined(ET_OP_APPEND)
	__CPROVER_assert(IMPLIES(g_fails == 0, res == KSI_OK), "tree api: append is never refused");
#endif

	/* ---- expected child view ------------------------------------------------------------------------------------------- */
	for (i = 0; i < ET_NK; i++) { exp[i] = C[i]; exps[i] = &C0[i]; }
	nexp = ET_NK;
	if (res == KSI_OK) {
#if defined(ET_OP_APPEND)
		is_append = 1;
#elif defined(ET_OP_SET)
		if (cnt == 0) is_append = 1; else is_replace = 1;
#elif defined(ET_OP_REMOVE)
		is_remove = 1;
#endif
	}
	if (is_append) { exp[ET_NK] = X; exps[ET_NK] = &X0; nexp = ET_NK + 1; changed = 1; }
	if (is_replace) { exp[first] = X; exps[first] = &X0; changed = 1; }
	if (is_remove) { for (i = first; i + 1 < ET_NK; i++) { exp[i] = C[i + 1]; exps[i] = &C0[i + 1]; } nexp = ET_NK - 1; changed = 1; }

	/* ---- the WHOLE child view as the real list reports it -------------------------------------------------------------- */
	__CPROVER_assert(P->subList == P0.subList && P->subList != NULL, "tree api: the parent keeps its child list object");
	n1 = KSI_TlvElementList_length(P->subList);
	__CPROVER_assert(n1 == nexp, "tree api: number of children = old number, +1 after append, -1 after remove, same after replace / get / failure");
	for (i = 0; i < NC + 1; i++) {
		got[i] = NULL;
		if (i < n1) {
			res2 = KSI_TlvElementList_elementAt(P->subList, i, &got[i]);
			__CPROVER_assert(res2 == KSI_OK, "tree api: every position of the child view is readable");
		}
		__CPROVER_assert(IMPLIES(i < nexp && i < n1, got[i] == exp[i]), "tree api: WHOLE child view - exactly the named child changes, every other child keeps identity and order");
	}

	/* ---- every node, field for field ----------------------------------------------------------------------------------- */
	for (i = 0; i < ET_NK; i++) {
		size_t dref = 0; _Bool released = 0, handed = 0;
#if defined(ET_OP_GET)
		if (res == KSI_OK && cnt == 1 && i == first) { dref = 1; handed = 1; }
#endif
		if ((is_replace || (is_remove && pout == NULL)) && i == first) released = 1;
		if (is_remove && pout != NULL && i == first) handed = 1;
		if (released) {
			__CPROVER_assert(C[i]->ref == C0[i].ref - 1, "tree api: the child that left the view is released exactly once (the harness's own reference survives)");
			__CPROVER_assert(C[i]->ptr == C0[i].ptr && C[i]->ptr_own == C0[i].ptr_own && C[i]->ftlv.dat_len == C0[i].ftlv.dat_len && C[i]->ftlv.tag == C0[i].ftlv.tag, "tree api: a released child that is still referenced keeps its content");
		} else {
			__CPROVER_assert(node_same(C[i], &C0[i], dref), "tree api: every other child is field for field as before (reference count + 1 only for the one handed out by get)");
		}
		__CPROVER_assert(IMPLIES(handed, out == C[i]), "tree api: the output parameter receives exactly the child carrying the tag");
		__CPROVER_assert(buf_same(i), "tree api: no payload octet of any child is modified");
	}
	{
		_Bool hands = 0;
#if defined(ET_OP_GET)
		hands = (res == KSI_OK && cnt == 1);
#endif
		if (is_remove && pout != NULL) hands = 1;
		__CPROVER_assert(IMPLIES(!hands, out == NULL), "tree api: the output parameter is untouched unless a child is handed out");
	}
	__CPROVER_assert(node_same(X, &X0, (is_append || is_replace) ? 1 : 0), "tree api: the new child gains exactly one reference when it enters the view, none otherwise; its fields are untouched");
	__CPROVER_assert(buf_same(NC), "tree api: no payload octet of the new child is modified");
	__CPROVER_assert(P->ref == P0.ref && P->ptr == P0.ptr && P->ptr_own == P0.ptr_own && P->ftlv.tag == P0.ftlv.tag && P->ftlv.is_nc == P0.ftlv.is_nc &&
			P->ftlv.is_fwd == P0.ftlv.is_fwd && P->ftlv.off == P0.ftlv.off && P->ftlv.hdr_len == P0.ftlv.hdr_len, "tree api: the parent's own tag, flags, buffer and reference count are untouched");
	__CPROVER_assert(IMPLIES(!changed, P->ftlv.dat_len == P0.ftlv.dat_len), "tree api: failure / pure query -> the parent's declared payload length is untouched");
	for (i = 0; i < NC + 1; i++) if (i < nexp) sum1 += declared(exps[i]);
	__CPROVER_assert(IMPLIES(cons, P->ftlv.dat_len == sum1), "tree api: the parent's declared payload length stays the sum of what its children declare (the serializer uses it when the list is empty)");

	/* every block the call allocated is released again, except the element array a first append creates (list.c grows by 10 slots) */
	__CPROVER_assert(g_live == live0 + ((is_append && ET_NK == 0) ? 1 : 0), "tree api: nothing stays allocated (temporary result list, references) except the child array a first append creates");

	/* ---- re-serialization = header ++ concatenation of the children's serializations (witness index) -------------------- */
#ifndef ET_NO_SER
	if (nexp > 0 || cons) {
		size_t tot;
		for (i = 0; i < NC + 1; i++) if (i < nexp) leaf_desc(&desc[i], exps[i]);
		tot = spec_tt_size(P0.ftlv.tag, desc, nexp);
		__CPROVER_assert(tot <= sizeof(o), "harness: the scratch buffer holds every tree of the bound");
		res2 = KSI_TlvElement_serialize(P, o, tot, &len, 0);      /* a buffer of exactly the expected size: anything longer is refused, the final move is in place */
		__CPROVER_assert(res2 == KSI_OK && len == tot, "tree api: the edited tree serializes, total size = header + sum of the children's encodings");
		__CPROVER_assert(IMPLIES(kb < tot && res2 == KSI_OK, o[kb] == spec_tt_byte(P0.ftlv.tag, P0.ftlv.is_nc, P0.ftlv.is_fwd, desc, nexp, kb)),
				"tree api: re-serialization = parent header ++ concatenation of the children's serializations in view order (witness index)");
	}
#endif

	REACH("tree api call returns");
#ifndef ET_PAT                           /* outcome REACHes: only where every match pattern is enumerated */
#if !(defined(ET_OP_REMOVE) && ET_NK == 0)
	if (res == KSI_OK) REACH("ok");
#endif
#if !defined(ET_OP_APPEND) && ET_NK >= 2
	if (res == KSI_INVALID_STATE && cnt >= 2) REACH("duplicate tag refused");
#endif
#if defined(ET_OP_REMOVE)
	if (res == KSI_INVALID_STATE && cnt == 0) REACH("nothing to remove");
#if ET_NK >= 1
	if (res == KSI_OK && pout == NULL) REACH("removed child released");
	if (res == KSI_OK && pout != NULL) REACH("removed child handed out");
#endif
#if ET_NK >= 2
	if (res == KSI_OK && first == 0) REACH("first child removed, the rest moves up");
#endif
#if ET_NK == 1
	if (res == KSI_OK && cons) REACH("last child removed, the list is empty");
#endif
#endif
#if defined(ET_OP_SET) && ET_NK >= 1
	if (res == KSI_OK && cnt == 1) REACH("child replaced");
	if (res == KSI_OK && cnt == 0) REACH("child appended by set");
#endif
#if defined(ET_OP_GET) && ET_NK >= 1
	if (res == KSI_OK && cnt == 1) REACH("child found");
	if (res == KSI_OK && cnt == 0) REACH("tag absent");
#endif
#endif
#ifdef ET_OOM
	if (res == KSI_OUT_OF_MEMORY) REACH("allocation failure");
	if (res != KSI_OUT_OF_MEMORY && g_fails == 0) REACH("no allocation failed");
#endif

#ifdef ET_CLEANUP
	/* ---- release everything through the real KSI_TlvElement_free; --memory-leak-check decides "once, everything" -------- */
	if (out != NULL) KSI_TlvElement_free(out);
	for (i = 0; i < ET_NK; i++) KSI_TlvElement_free(C[i]);
	KSI_TlvElement_free(X);
	KSI_TlvElement_free(P);
	__CPROVER_assert(g_live == 0, "tree api: releasing every reference releases every block");
#endif
}

#ifdef ET_OP_SEQ
/* End-to-end statement of the property for an edit SEQUENCE through the public API: an element that has no children (again)
 * after appendElement + removeElement is the tree "tag, flags, empty payload"; it fits the length field, so it must be
 * serialized, as header only.  Everything symbolic but the shape. */
static void seq(_Bool tlv16) {
	KSI_TlvElement *x; unsigned char o[8]; size_t len = 0, kb = nondet_size(); int r1, r2, r3; unsigned xt;
	static unsigned char enc[4];
	/* P = a new element that declares an empty payload (its buffer pointer is a borrowed, non-NULL one as after parsing) */
	if (KSI_TlvElement_new(&P) != KSI_OK || P == NULL) return;
	P->ftlv.tag = nondet_uint(); __CPROVER_assume(P->ftlv.tag <= SPEC_TLV_MAX_TAG);
	P->ftlv.is_nc = nondet_bool(); P->ftlv.is_fwd = nondet_bool();
	P->ptr = enc; P->ptr_own = 0; P->ftlv.hdr_len = tlv16 ? 4 : 2;
	xt = nondet_uint(); __CPROVER_assume(xt <= SPEC_TLV_MAX_TAG);
	x = mk_leaf(0, xt);
	if (x == NULL || x->ptr == NULL) return;
	__CPROVER_assume(x->ftlv.hdr_len + x->ftlv.dat_len > 0);
	r1 = KSI_TlvElement_appendElement(P, x);
	__CPROVER_assert(r1 == KSI_OK, "tree api sequence: append to a new element succeeds");
	r2 = KSI_TlvElement_removeElement(P, xt, NULL);
	__CPROVER_assert(r2 == KSI_OK, "tree api sequence: removing the only child succeeds");
	__CPROVER_assert(KSI_TlvElementList_length(P->subList) == 0 && x->ref == 1, "tree api sequence: the view is empty again, the child released once");
	r3 = KSI_TlvElement_serialize(P, o, spec_tlv_enc_hdr_len(P->ftlv.tag, 0), &len, 0);      /* a buffer of exactly the expected size */
	__CPROVER_assert(r3 == KSI_OK, "tree api sequence: a childless element fits the length field and is therefore serialized (property: refused only when the content exceeds the length field)");
	__CPROVER_assert(IMPLIES(r3 == KSI_OK, len == spec_tlv_enc_hdr_len(P->ftlv.tag, 0)), "tree api sequence: a childless element serializes as its header only");
	__CPROVER_assert(IMPLIES(r3 == KSI_OK && kb < len && len <= 4, o[kb] == spec_tlv_enc_hdr_byte(P->ftlv.tag, P->ftlv.is_nc, P->ftlv.is_fwd, 0, kb)), "tree api sequence: header octets of the childless element (witness index)");
	REACH("sequence ran");
}
#endif
#ifdef ET_OP_FREE
/* KSI_TlvElement_new / ref / free: a tree parent { ET_NK leaves } built through the API; extra references taken with
 * KSI_TlvElement_ref are given back one by one; the live-block counter of the funnels returns to zero exactly when the last
 * reference is released and not before; buffers that a node does not own survive (the harness releases them afterwards;
 * a double free would fail the precondition of CBMC's free; --memory-leak-check closes the run). */
static void free_job(void) {
	size_t i, extra = nondet_size(); long live_built; _Bool own[NC]; unsigned char *b[NC];
	KSI_TlvElement *n = NULL; int r;
	__CPROVER_assume(extra <= 2);
	g_live = 0;
	r = KSI_TlvElement_new(&n);
	__CPROVER_assert(r == KSI_OK && n != NULL && n->ref == 1 && n->ptr == NULL && n->ptr_own == 0 && n->subList == NULL &&
			n->ftlv.tag == 0 && n->ftlv.dat_len == 0 && n->ftlv.hdr_len == 0 && n->ftlv.off == 0 && n->ftlv.is_nc == 0 && n->ftlv.is_fwd == 0, "new: a zeroed element with one reference");
	__CPROVER_assert(g_live == 1, "new: exactly one block");
	P = n;
	if (KSI_TlvElementList_new(&P->subList) != KSI_OK) return;
	for (i = 0; i < ET_NK; i++) {
		C[i] = mk_leaf(i, nondet_uint());
		if (C[i] == NULL || C[i]->ptr == NULL) return;
		own[i] = nondet_bool(); C[i]->ptr_own = own[i]; b[i] = C[i]->ptr;
		if (own[i]) g_live++;                                                /* an owned buffer counts as a block of the funnels */
		if (KSI_TlvElement_appendElement(P, C[i]) != KSI_OK) return;       /* the list takes its own reference */
		KSI_TlvElement_free(C[i]);                                           /* the harness gives its reference back: ref 2 -> 1, nothing released */
		__CPROVER_assert(C[i]->ref == 1, "free: giving back one of two references releases nothing");
	}
	live_built = g_live;
	for (i = 0; i < 2; i++) if (i < extra) { __CPROVER_assert(KSI_TlvElement_ref(P) == P, "ref: returns its argument"); }
	__CPROVER_assert(P->ref == 1 + extra, "ref: one more reference per call");
	for (i = 0; i < 2; i++) if (i < extra) { KSI_TlvElement_free(P); __CPROVER_assert(g_live == live_built, "free: nothing is released while references remain"); }
	__CPROVER_assert(P->ref == 1, "free: one reference less per call");
	KSI_TlvElement_free(P);
	{
		long borrowed = 0;
		for (i = 0; i < ET_NK; i++) if (!own[i]) borrowed++;
		__CPROVER_assert(g_live == 0, "free: the last reference releases the element, its child list, every child and every buffer a child owns - each exactly once");
		for (i = 0; i < ET_NK; i++) if (!own[i]) { __CPROVER_assert(__CPROVER_r_ok(b[i], 1), "free: a borrowed buffer is never released"); free(b[i]); }
	}
	KSI_TlvElement_free(NULL);
	REACH("tree released");
	if (extra == 2) REACH("two extra references");
}
#endif

void harness(void) {
#if defined(ET_OP_SEQ)
	seq(0); seq(1);
#elif defined(ET_OP_FREE)
	free_job();
#elif defined(ET_SYMTAGS)
	one(0);
#else
#ifdef ET_PAT
	one(ET_PAT);                  /* one match pattern per job (the allocation-failure jobs) */
#else
	unsigned pat;
	for (pat = 0; pat < (1u << ET_NK); pat++) one(pat);
#endif
#endif
}
