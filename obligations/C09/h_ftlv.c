/* C09 (also C12): the header reader of fast_tlv.c against spec/tlv.h, for every buffer and every length.
 * The real fast_tlv.c is included unmodified. */
#include "env/common.h"
#include <stdlib.h>
#include "fast_tlv.h"
#include "spec/tlv.h"
#ifdef H_readData
#include "env/ghost_tlvreader.h"
#endif
#include "contracts/fast_tlv_hdr.h"
#ifdef H_memReadN
#include "contracts/fast_tlv_readn.h"
#endif
#ifdef H_readData
#include "contracts/fast_tlv_readdata.h"
#endif
#include "fast_tlv.c"

#ifdef H_parseHdr
void harness(void) {
	const unsigned char *hdr = nondet_ptr(); size_t len = nondet_size(); struct fast_tlv_s *t = nondet_ptr();
	int res = parseHdr(hdr, len, t);
	if (res == KSI_OK) REACH("header accepted"); else REACH("header rejected");
	if (res == KSI_OK && len == 2) REACH("TLV8 header in a 2-octet buffer");
	if (res != KSI_OK && len == 3) REACH("TLV16 header cut after 3 octets");
}
#endif

#ifdef H_memRead
/* every buffer, the empty one included (since fix f244b72); H_memRead_empty keeps the dedicated check of the read of m[0] */
void harness(void) {
	const unsigned char *m = nondet_ptr(); size_t l = nondet_size(); KSI_FTLV *t = nondet_ptr();
	int res;
#ifdef FTLV_MEMREAD_ARITH
	__CPROVER_assume(l >= 1);   /* precondition of the arithmetic variant */
#endif
	res = KSI_FTLV_memRead(m, l, t);
	if (res == KSI_OK) REACH("element accepted"); else REACH("element rejected");
	if (res == KSI_OK && l > 70000) REACH("accepted with trailing bytes");
	if (res != KSI_OK && l >= 4) REACH("rejected: payload truncated");
	if (res != KSI_OK && l == 1) REACH("rejected: one octet");
#ifndef FTLV_MEMREAD_ARITH
	if (res != KSI_OK && l == 0) REACH("rejected: empty buffer");
#endif
}
#endif

#ifdef H_memRead_empty
/* the empty byte string: a valid pointer to a zero-length buffer.  No contract machinery, real parseHdr inlined:
 * the only question is whether an octet outside [m, m+0) is read, and that INVALID_FORMAT is returned. */
void harness(void) {
	unsigned char *m = malloc(0); KSI_FTLV t; int res;
	__CPROVER_assume(m != NULL);
	res = KSI_FTLV_memRead(m, 0, &t);
	REACH("returns");   /* must stay the first assertion of this harness: the job selects properties by name */
}
#endif

#ifdef H_memReadN
void harness(void) {
	const unsigned char *buf = nondet_ptr(); size_t buf_len = nondet_size(); KSI_FTLV *arr = nondet_ptr(); size_t arr_len = nondet_size();
	size_t *rd = nondet_ptr(); int res;
	g_ftlv_k = nondet_size();   /* witness index: arbitrary */
#ifdef FTLV_COUNT_MODE
	arr = NULL;    /* count mode (arr_len != 0 is then an argument error); array mode is job C09.memReadN_tiling */
#endif
	res = KSI_FTLV_memReadN(buf, buf_len, arr, arr_len, rd);
	if (res == KSI_OK) REACH("sequence accepted");
	if (res == KSI_INVALID_FORMAT) REACH("sequence rejected");
	if (res == KSI_INVALID_ARGUMENT) REACH("argument rejected");
	if (res == KSI_OK && arr_len == 0) REACH("count mode accepted");
#ifndef FTLV_COUNT_MODE
	if (res == KSI_OK && arr_len > 2 && g_ftlv_k == 1) REACH("array mode accepted");
#endif
}
#endif

#ifdef H_readData
void harness(void) {
	int fdobj; size_t len = nondet_size(); size_t *consumed = nondet_ptr(); struct fast_tlv_s *t = nondet_ptr(); int res;
	g_rd_fd = &fdobj; g_rd_buf = nondet_ptr(); g_rd_buf_len = len;
	g_rd_calls = 0; g_rd_requested = 0; g_rd_total = 0; g_rd_closed = 0;
	res = readData(&fdobj, g_rd_buf, len, consumed, t, tlvreader_stub);
	if (res == KSI_OK) REACH("one element read");
	if (res == KSI_OK && g_rd_total == 4) REACH("TLV16 with empty payload");
	if (res == KSI_OK && g_rd_total == 2) REACH("TLV8 with empty payload");
	if (res == KSI_BUFFER_OVERFLOW) REACH("buffer too small");
	if (res == KSI_INVALID_FORMAT) REACH("short read");
	if (res == KSI_IO_ERROR) REACH("reader error");
}
#endif
