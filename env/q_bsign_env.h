/* Assumed environment of blocksigner.c for the ORCHESTRATION jobs C16.q_closesign / C16.q_getsig (builderQ).
 * Everything blocksigner.c calls in KSI_BlockSigner_closeAndSign and KSI_BlockSignerHandle_getSignature is a stub
 * that (a) records its arguments and its position in the call sequence in ghost state, (b) may fail in every
 * way the real callee may fail, leaving its out-parameter untouched, (c) keeps the live-object accounting g_qb_live
 * (signatures, aggregation chains, signature builders made here and not yet released).
 *
 *   KSI_TreeBuilder_close                      refuses a closed builder (KSI_INVALID_STATE, C16.close), may fail
 *                                              leaving the builder as it was (C16.close), else installs the root node
 *   KSI_Signature_signAggregatedWithPolicy     (macro KSI_Signature_signAggregated) network + verification: may fail
 *                                              with *signature untouched, else stores a NEW root signature (ref 1)
 *   KSI_TreeLeafHandle_getAggregationChain     C16.q_getchain / C19.getAggregationChain: new chain (ref 1) or failure
 *   KSI_TreeLeafHandle_getTreeNode             getter
 *   KSI_SignatureBuilder_openFromSignature     new builder holding a CLONE of the given signature (->from records it)
 *   ..._setAggregationChainStartLevel          stores the level
 *   ..._appendAggregationChain                 the builder's signature takes its OWN reference to the chain and
 *                                              remembers the start level in force (signature_builder.c:597-634)
 *   ..._close                                  moves the signature out of the builder, remembers the level added
 *   ..._free / KSI_Signature_free / KSI_AggregationHashChain_free     reference counted release          [ASSUMED] */
#ifndef ENV_Q_BSIGN_ENV_H
#define ENV_Q_BSIGN_ENV_H
#include <stdlib.h>
#include "env/common.h"
#include "hash.h"
#include "impl/hash_impl.h"
#include "tree_builder.h"
#include "blocksigner.h"
#include "hashchain.h"
#include "policy.h"
#include "signature.h"
#include "signature_builder.h"

struct KSI_AggregationHashChain_st { size_t ref; };
struct KSI_Signature_st {
	size_t ref;
	const KSI_Signature *from;            /* the signature this one is a clone of (NULL: made by the aggregator) */
	KSI_AggregationHashChain *chain;      /* aggregation chain prepended below the original ones (NULL: none) */
	KSI_uint64_t chainStartLevel;         /* start level in force when the chain was appended */
	_Bool chainStartSet;
	KSI_uint64_t addedLevel;              /* level passed to KSI_SignatureBuilder_close */
};
struct KSI_SignatureBuilder_st { KSI_Signature *sig; KSI_uint64_t startLevel; _Bool startSet; };
struct KSI_TreeLeafHandle_st { size_t ref; KSI_TreeNode *node; };

const KSI_Policy *KSI_VERIFICATION_POLICY_INTERNAL;

long g_qb_live;                 /* signatures + chains + signature builders made by the stubs, not yet released */
unsigned g_qb_seq;              /* call sequence counter */
_Bool g_qb_alloc_failed;        /* some allocation inside a stub returned NULL (C19 visibility) */
KSI_Signature *g_qb_sig_out;    /* out-parameter object of the getSignature harness */
KSI_BlockSigner *g_qb_signer; KSI_TreeLeafHandle *g_qb_lh;   /* the handle's signer and leaf handle objects (same purpose) */
KSI_TreeBuilder *g_qb_tb;       /* the signer's tree builder object (named so that contracts can put its root into an assigns clause) */

/* ---- KSI_TreeBuilder_close ---- */
unsigned g_qb_tbclose_calls, g_qb_tbclose_seq; KSI_TreeBuilder *g_qb_tbclose_arg; int g_qb_tbclose_res;
KSI_TreeNode g_qb_root; KSI_DataHash g_qb_root_hash;
static int qb_some_error(void) { int e = nondet_int(); return e == KSI_OK ? KSI_UNKNOWN_ERROR : e; }
int KSI_TreeBuilder_close(KSI_TreeBuilder *b) {
	g_qb_tbclose_calls++; g_qb_tbclose_arg = b; g_qb_tbclose_seq = ++g_qb_seq;
	if (b == NULL) return g_qb_tbclose_res = KSI_INVALID_ARGUMENT;
	if (b->rootNode != NULL) return g_qb_tbclose_res = KSI_INVALID_STATE;
	if (nondet_bool()) return g_qb_tbclose_res = qb_some_error();            /* no leaves, hasher, memory: builder unchanged */
	g_qb_root.hash = &g_qb_root_hash; g_qb_root.metaData = NULL; g_qb_root.level = nondet_uint() % 256u;
	g_qb_root.parent = NULL; g_qb_root.ctx = b->ctx;
	b->rootNode = &g_qb_root;
	return g_qb_tbclose_res = KSI_OK;
}

/* ---- signing of the root (network) ---- */
unsigned g_qb_sign_calls, g_qb_sign_seq; int g_qb_sign_res;
KSI_CTX *g_qb_sign_ctx; KSI_DataHash *g_qb_sign_hash; KSI_uint64_t g_qb_sign_level; const KSI_Policy *g_qb_sign_policy;
KSI_VerificationContext *g_qb_sign_vctx; KSI_Signature **g_qb_sign_out; KSI_Signature *g_qb_sign_prev, *g_qb_sign_made;
int KSI_Signature_signAggregatedWithPolicy(KSI_CTX *ctx, KSI_DataHash *rootHash, KSI_uint64_t rootLevel,
		const KSI_Policy *policy, KSI_VerificationContext *context, KSI_Signature **signature) {
	KSI_Signature *s;
	g_qb_sign_calls++; g_qb_sign_seq = ++g_qb_seq;
	g_qb_sign_ctx = ctx; g_qb_sign_hash = rootHash; g_qb_sign_level = rootLevel; g_qb_sign_policy = policy; g_qb_sign_vctx = context;
	g_qb_sign_out = signature; g_qb_sign_prev = (signature == NULL) ? NULL : *signature;
	if (ctx == NULL || rootHash == NULL || signature == NULL) return g_qb_sign_res = KSI_INVALID_ARGUMENT;
	if (nondet_bool()) return g_qb_sign_res = qb_some_error();               /* network / aggregator / verification */
	s = malloc(sizeof(*s));
	if (s == NULL) { g_qb_alloc_failed = 1; return g_qb_sign_res = KSI_OUT_OF_MEMORY; }
	s->ref = 1; s->from = NULL; s->chain = NULL; s->chainStartLevel = 0; s->chainStartSet = 0; s->addedLevel = 0;
	g_qb_live++; g_qb_sign_made = s;
	*signature = s;
	return g_qb_sign_res = KSI_OK;
}

/* ---- reference counted objects ---- */
void KSI_AggregationHashChain_free(KSI_AggregationHashChain *c) { if (c != NULL && --c->ref == 0) { g_qb_live--; free(c); } }
unsigned g_qb_sigfree_calls; KSI_Signature *g_qb_sigfree_last;
void KSI_Signature_free(KSI_Signature *s) {
	if (s != NULL) { g_qb_sigfree_calls++; g_qb_sigfree_last = s; }
	if (s != NULL && --s->ref == 0) { KSI_AggregationHashChain_free(s->chain); g_qb_live--; free(s); }
}

/* ---- the leaf's own chain and node ---- */
unsigned g_qb_chain_calls, g_qb_chain_seq; const KSI_TreeLeafHandle *g_qb_chain_arg; KSI_AggregationHashChain *g_qb_chain_made;
int KSI_TreeLeafHandle_getAggregationChain(const KSI_TreeLeafHandle *handle, KSI_AggregationHashChain **chain) {
	KSI_AggregationHashChain *c;
	g_qb_chain_calls++; g_qb_chain_seq = ++g_qb_seq; g_qb_chain_arg = handle;
	if (handle == NULL || chain == NULL) return KSI_INVALID_ARGUMENT;
	if (nondet_bool()) return qb_some_error();
	c = malloc(sizeof(*c));
	if (c == NULL) { g_qb_alloc_failed = 1; return KSI_OUT_OF_MEMORY; }
	c->ref = 1; g_qb_live++; g_qb_chain_made = c;
	*chain = c;
	return KSI_OK;
}
unsigned g_qb_node_calls; const KSI_TreeLeafHandle *g_qb_node_arg;
int KSI_TreeLeafHandle_getTreeNode(const KSI_TreeLeafHandle *handle, KSI_TreeNode **node) {
	g_qb_node_calls++; g_qb_node_arg = handle;
	if (handle == NULL || node == NULL) return KSI_INVALID_ARGUMENT;
	*node = handle->node;
	return KSI_OK;
}
void KSI_TreeLeafHandle_free(KSI_TreeLeafHandle *h) { if (h != NULL && --h->ref == 0) free(h); }

/* ---- what KSI_BlockSigner_free releases besides the signature (life-cycle job) ---- */
struct KSI_OctetString_st { size_t ref; };
unsigned g_qb_tbfree_calls;
void KSI_TreeBuilder_free(KSI_TreeBuilder *b) { if (b != NULL) g_qb_tbfree_calls++; }
void KSI_OctetString_free(KSI_OctetString *o) { if (o != NULL) o->ref--; }
void KSI_DataHash_free(KSI_DataHash *h) { if (h != NULL) h->ref--; }
void KSI_DataHasher_free(KSI_DataHasher *h) { }

/* ---- signature builder ---- */
unsigned g_qb_open_calls, g_qb_open_seq; const KSI_Signature *g_qb_open_arg; KSI_SignatureBuilder *g_qb_sb_made; KSI_Signature *g_qb_clone_made;
int KSI_SignatureBuilder_openFromSignature(const KSI_Signature *sig, KSI_SignatureBuilder **builder) {
	KSI_SignatureBuilder *b; KSI_Signature *c;
	g_qb_open_calls++; g_qb_open_seq = ++g_qb_seq; g_qb_open_arg = sig;
	if (sig == NULL || builder == NULL) return KSI_INVALID_ARGUMENT;
	if (nondet_bool()) return qb_some_error();
	b = malloc(sizeof(*b));
	if (b == NULL) { g_qb_alloc_failed = 1; return KSI_OUT_OF_MEMORY; }
	c = malloc(sizeof(*c));
	if (c == NULL) { g_qb_alloc_failed = 1; free(b); return KSI_OUT_OF_MEMORY; }
	c->ref = 1; c->from = sig; c->chain = NULL; c->chainStartLevel = 0; c->chainStartSet = 0; c->addedLevel = 0;
	b->sig = c; b->startLevel = 0; b->startSet = 0;
	g_qb_live += 2; g_qb_sb_made = b; g_qb_clone_made = c;
	*builder = b;
	return KSI_OK;
}
unsigned g_qb_sbfree_calls;
void KSI_SignatureBuilder_free(KSI_SignatureBuilder *b) {
	if (b != NULL) { g_qb_sbfree_calls++; KSI_Signature_free(b->sig); g_qb_live--; free(b); }
}
unsigned g_qb_start_calls, g_qb_start_seq; KSI_SignatureBuilder *g_qb_start_arg; KSI_uint64_t g_qb_start_lvl;
int KSI_SignatureBuilder_setAggregationChainStartLevel(KSI_SignatureBuilder *b, KSI_uint64_t lvl) {
	g_qb_start_calls++; g_qb_start_seq = ++g_qb_seq; g_qb_start_arg = b; g_qb_start_lvl = lvl;
	if (b == NULL) return KSI_INVALID_ARGUMENT;
	b->startLevel = lvl; b->startSet = 1;
	return KSI_OK;
}
unsigned g_qb_append_calls, g_qb_append_seq; KSI_SignatureBuilder *g_qb_append_arg; KSI_AggregationHashChain *g_qb_append_chain;
int KSI_SignatureBuilder_appendAggregationChain(KSI_SignatureBuilder *b, KSI_AggregationHashChain *aggr) {
	g_qb_append_calls++; g_qb_append_seq = ++g_qb_seq; g_qb_append_arg = b; g_qb_append_chain = aggr;
	if (b == NULL || aggr == NULL) return KSI_INVALID_ARGUMENT;
	if (b->sig == NULL) return KSI_INVALID_STATE;
	if (nondet_bool()) return qb_some_error();      /* the chain does not recompute the signed root level, memory, ... */
	__CPROVER_assert(b->sig->chain == NULL, "harness model: one chain is prepended per builder");
	aggr->ref++;
	b->sig->chain = aggr; b->sig->chainStartLevel = b->startLevel; b->sig->chainStartSet = b->startSet;
	return KSI_OK;
}
unsigned g_qb_sbclose_calls, g_qb_sbclose_seq; KSI_SignatureBuilder *g_qb_sbclose_arg; KSI_uint64_t g_qb_sbclose_lvl; KSI_Signature *g_qb_sbclose_made;
int KSI_SignatureBuilder_close(KSI_SignatureBuilder *b, KSI_uint64_t rootLevel, KSI_Signature **sig) {
	g_qb_sbclose_calls++; g_qb_sbclose_seq = ++g_qb_seq; g_qb_sbclose_arg = b; g_qb_sbclose_lvl = rootLevel;
	if (b == NULL || sig == NULL) return KSI_INVALID_ARGUMENT;
	if (b->sig == NULL) return KSI_INVALID_STATE;
	if (nondet_bool()) return qb_some_error();      /* internal verification of the new signature fails, memory, ... */
	b->sig->addedLevel = rootLevel;
	g_qb_sbclose_made = b->sig;
	*sig = b->sig; b->sig = NULL;
	return KSI_OK;
}
#endif
