/* Assumed environment of tree_builder.c's path extraction (getHashChainLinks,
 * KSI_TreeLeafHandle_getAggregationChain) for C16 / C19:
 *   hash chain links, the link list, integers, meta-data elements and the aggregation chain container are
 *   heap objects created by these stubs; every creation may fail (KSI_OUT_OF_MEMORY, also under
 *   --malloc-may-fail), every setter may fail WITHOUT taking ownership (as the real ones do for a NULL target).
 *   Ownership follows the documented rule "after the setter / append the object belongs to the container".
 *   g_obj_live counts the objects created here and not yet released: the live-allocation accounting of C19.
 *   The link list records the appended links in order (g_ll_el) - the ghost view checked by C16.          */
#ifndef ENV_CHAIN_ENV_H
#define ENV_CHAIN_ENV_H
#include <stdlib.h>
#include "env/common.h"
#include "hashchain.h"
#include "impl/hashchain_impl.h"
#include "impl/meta_data_element_impl.h"

struct KSI_Integer_st { size_t ref; KSI_uint64_t value; };

long g_obj_live;
#define LL_MAX 4
KSI_HashChainLink *g_ll_el[LL_MAX];
size_t g_ll_n;
KSI_LIST(KSI_HashChainLink) *g_ll_list;     /* the list the record belongs to */

static int chain_env_fail(void) { return nondet_bool(); }

/* ---- integers ---- */
int KSI_Integer_new(KSI_CTX *ctx, KSI_uint64_t value, KSI_Integer **o) {
	KSI_Integer *t;
	if (ctx == NULL || o == NULL) return KSI_INVALID_ARGUMENT;
	t = malloc(sizeof(*t));
	if (t == NULL) return KSI_OUT_OF_MEMORY;
	t->ref = 1; t->value = value; g_obj_live++;
	*o = t; return KSI_OK;
}
void KSI_Integer_free(KSI_Integer *o) { if (o != NULL && --o->ref == 0) { g_obj_live--; free(o); } }

/* ---- meta-data elements ---- */
KSI_MetaDataElement *KSI_MetaDataElement_ref(KSI_MetaDataElement *o) { if (o != NULL) o->ref++; return o; }
void KSI_MetaDataElement_free(KSI_MetaDataElement *o) { if (o != NULL && --o->ref == 0) { g_obj_live--; free(o); } }
static int md_stub_toMetaDataElement(const KSI_MetaData *in, KSI_MetaDataElement **out) {
	KSI_MetaDataElement *t;
	if (chain_env_fail()) return KSI_INVALID_FORMAT;
	t = malloc(sizeof(*t));
	if (t == NULL) return KSI_OUT_OF_MEMORY;
	t->ref = 1; t->ctx = NULL; g_obj_live++;
	*out = t; return KSI_OK;
}

/* ---- links ---- */
int KSI_HashChainLink_new(KSI_CTX *ctx, KSI_HashChainLink **t) {
	KSI_HashChainLink *l;
	if (ctx == NULL || t == NULL) return KSI_INVALID_ARGUMENT;
	l = malloc(sizeof(*l));
	if (l == NULL) return KSI_OUT_OF_MEMORY;
	l->ctx = ctx; l->isLeft = 0; l->levelCorrection = NULL; l->legacyId = NULL; l->metaData = NULL; l->imprint = NULL;
	g_obj_live++;
	*t = l; return KSI_OK;
}
void KSI_HashChainLink_free(KSI_HashChainLink *l) {
	if (l != NULL) {
		KSI_Integer_free(l->levelCorrection); KSI_MetaDataElement_free(l->metaData); KSI_DataHash_free(l->imprint);
		g_obj_live--; free(l);
	}
}
int KSI_HashChainLink_setIsLeft(KSI_HashChainLink *l, int v) { if (l == NULL || chain_env_fail()) return KSI_INVALID_ARGUMENT; l->isLeft = v; return KSI_OK; }
int KSI_HashChainLink_setImprint(KSI_HashChainLink *l, KSI_DataHash *v) { if (l == NULL || chain_env_fail()) return KSI_INVALID_ARGUMENT; l->imprint = v; return KSI_OK; }
int KSI_HashChainLink_setMetaData(KSI_HashChainLink *l, KSI_MetaDataElement *v) { if (l == NULL || chain_env_fail()) return KSI_INVALID_ARGUMENT; l->metaData = v; return KSI_OK; }
int KSI_HashChainLink_setLevelCorrection(KSI_HashChainLink *l, KSI_Integer *v) { if (l == NULL || chain_env_fail()) return KSI_INVALID_ARGUMENT; l->levelCorrection = v; return KSI_OK; }

/* ---- the link list (model list: append records the element and takes ownership) ---- */
static int ll_stub_append(KSI_LIST(KSI_HashChainLink) *lst, KSI_HashChainLink *o) {
	if (chain_env_fail()) return KSI_OUT_OF_MEMORY;
	__CPROVER_assert(lst == g_ll_list, "protocol: links are appended to the list made for this chain");
	__CPROVER_assert(g_ll_n < LL_MAX, "harness bound: at most LL_MAX links");
	if (g_ll_n < LL_MAX) g_ll_el[g_ll_n] = o;
	g_ll_n++;
	return KSI_OK;
}
int KSI_HashChainLinkList_new(KSI_LIST(KSI_HashChainLink) **list) {
	KSI_LIST(KSI_HashChainLink) *l;
	if (list == NULL) return KSI_INVALID_ARGUMENT;
	l = malloc(sizeof(*l));
	if (l == NULL) return KSI_OUT_OF_MEMORY;
	memset(l, 0, sizeof(*l));
	l->append = ll_stub_append;
	g_obj_live++; g_ll_list = l; g_ll_n = 0;
	*list = l; return KSI_OK;
}
void KSI_HashChainLinkList_free(KSI_LIST(KSI_HashChainLink) *l) {
	if (l != NULL) {
		if (l == g_ll_list) {
			if (g_ll_n > 0) KSI_HashChainLink_free(g_ll_el[0]);
			if (g_ll_n > 1) KSI_HashChainLink_free(g_ll_el[1]);
			if (g_ll_n > 2) KSI_HashChainLink_free(g_ll_el[2]);
			if (g_ll_n > 3) KSI_HashChainLink_free(g_ll_el[3]);
			g_ll_n = 0; g_ll_list = NULL;
		}
		g_obj_live--; free(l);
	}
}

/* ---- the aggregation chain container ---- */
int KSI_AggregationHashChain_new(KSI_CTX *ctx, KSI_AggregationHashChain **out) {
	KSI_AggregationHashChain *t;
	if (ctx == NULL || out == NULL) return KSI_INVALID_ARGUMENT;
	t = malloc(sizeof(*t));
	if (t == NULL) return KSI_OUT_OF_MEMORY;
	t->ctx = ctx; t->ref = 1; t->aggregationTime = NULL; t->chainIndex = NULL; t->inputData = NULL; t->inputHash = NULL;
	t->aggrHashId = NULL; t->chain = NULL; t->outputHash = NULL; t->outputLevel = 0; t->inputLevel = 0;
	g_obj_live++;
	*out = t; return KSI_OK;
}
void KSI_AggregationHashChain_free(KSI_AggregationHashChain *t) {
	if (t != NULL && --t->ref == 0) {
		KSI_HashChainLinkList_free(t->chain); KSI_DataHash_free(t->inputHash); KSI_Integer_free(t->aggrHashId);
		g_obj_live--; free(t);
	}
}
int KSI_AggregationHashChain_setChain(KSI_AggregationHashChain *t, KSI_LIST(KSI_HashChainLink) *v) { if (t == NULL || chain_env_fail()) return KSI_INVALID_ARGUMENT; t->chain = v; return KSI_OK; }
int KSI_AggregationHashChain_setInputHash(KSI_AggregationHashChain *t, KSI_DataHash *v) { if (t == NULL || chain_env_fail()) return KSI_INVALID_ARGUMENT; t->inputHash = v; return KSI_OK; }
int KSI_AggregationHashChain_setAggrHashId(KSI_AggregationHashChain *t, KSI_Integer *v) { if (t == NULL || chain_env_fail()) return KSI_INVALID_ARGUMENT; t->aggrHashId = v; return KSI_OK; }
#endif
