/* Environment for the RFC3161 output-hash computation of verification_rule.c (C01: rfc3161_preSufHasher,
 * rfc3161_getOutputHash).  Built on the world of env/ghost_vrule.h (g_vr_sig / g_vr_rfc / g_vr_chain0, hash identities
 * g_vr_h[] with ghost reference counts, KSI_DataHash_free/ref/getHashAlg stubs of that file).
 * Include AFTER types_base.c (struct KSI_OctetString_st is defined there).
 *
 * Hash identities used here (all are real KSI_DataHash structs of g_vr_h[]; "produced" = reference count 0 -> 1):
 *   VR_H_RFC            the record's input hash (world)            VR_H_IN0   input hash of the first chain (world)
 *   RF_H_TST = VR_H_NEW2   result of step 1 (TST info hash)
 *   RF_H_SIG = VR_H_LINK   result of step 2 (signed attributes hash); the harness takes the identity away from the
 *                          first link (g_vr_link0.imprint = NULL, ref 0) - the functions here never look at links
 *   RF_H_OUT = VR_H_NEW1   the output hash (the identity contracts/verification_rule_c01.h speaks of)
 * The BYTES of the hash objects (imprint[], imprint_length) are set by the harness and never written by a stub:
 * nondeterministic content, 1 <= imprint_length <= sizeof(imprint) (constructor invariant of KSI_DataHash objects,
 * contracts/hash_imprint.h, C10).
 *
 * ASSUMED (stubs below):
 *   KSI_DataHasher_open/add/close/free  ghost HASHER TRANSCRIPT: records the algorithm, the (pointer, length) of every block
 *                                       fed, in order, the close; each may fail (g_rf_env_failed) except free; protocol
 *                                       violations (use after free, add after close, second live hasher, double free) are
 *                                       assertions; close hands out the identity of the current step with one reference
 *   KSI_DataHash_getImprint             returns the object's bytes (imprint, imprint_length) - textually hash.c:281
 *   KSI_DataHash_create                 records (data, length, algorithm), hands out RF_H_OUT with one reference, or fails
 * REAL: KSI_OctetString_extract, KSI_Integer_getUInt64 (types_base.c), KSI_AggregationHashChain_getInputHash (hashchain.c). */
#ifndef ENV_GHOST_RFC3161_H
#define ENV_GHOST_RFC3161_H
#include "spec/rfc3161.h"
#include "env/ghost_vrule.h"

enum { RF_H_TST = VR_H_NEW2, RF_H_SIG = VR_H_LINK, RF_H_OUT = VR_H_NEW1 };
#define RF_K(step) ((step) == 0 ? RF_H_TST : RF_H_SIG)          /* identity produced by pre/suf step 0 / 1 */

/* ---- ghost state ---- */
int g_rf_step;                                /* number of pre/suf steps completed so far (0, 1, 2) */
spec_rfc_transcript g_rf_t[2];                /* hasher transcript of step 0 / 1 */
_Bool g_rf_hasher_live;                       /* a hasher object exists (opened, not freed) */
_Bool g_rf_env_failed;                        /* an environment call (open/add/close/create) returned an error */
char g_rf_hasher_obj[8];                      /* identity of the hasher */
/* call record of the pre/suf steps (written by the REPLACED contract via ensures; preset by the enforcing harness) */
struct rf_call { const KSI_OctetString *prefix; const KSI_DataHash *hsh; const KSI_OctetString *suffix; int alg; };
struct rf_call g_rf_call[2];
/* record of the final KSI_DataHash_create */
struct rf_create { const void *data; size_t len; int alg; int n; };
struct rf_create g_rf_create;

/* ---- model octet strings (concrete objects, nondeterministic small buffers; data pointer may be NULL) ---- */
enum { RF_OS_TSTPRE = 0, RF_OS_TSTSUF, RF_OS_SIGPRE, RF_OS_SIGSUF, RF_NOS };
struct KSI_OctetString_st g_rf_os[RF_NOS];
unsigned char g_rf_os_buf[RF_NOS][4];
static void rf_os_init(int k) {
	g_rf_os[k].ctx = VR_CTX; g_rf_os[k].ref = 1;
	g_rf_os[k].data = nondet_bool() ? g_rf_os_buf[k] : NULL;       /* KSI_OctetString_new(.., NULL, 0) style object */
	g_rf_os[k].data_len = nondet_size();
	__CPROVER_assume(g_rf_os[k].data_len <= sizeof(g_rf_os_buf[k]));
	__CPROVER_assume(g_rf_os[k].data != NULL || g_rf_os[k].data_len == 0);
}
/* constructor invariant of a KSI_DataHash object: algorithm octet + digest */
static void rf_hash_bytes_init(int k) {
	g_vr_h[k].ctx = VR_CTX; g_vr_h[k].ref = 1;
	g_vr_h[k].imprint_length = nondet_size();
	__CPROVER_assume(g_vr_h[k].imprint_length >= 1 && g_vr_h[k].imprint_length <= sizeof(g_vr_h[k].imprint));
}
/* common ghost reset + world tweaks, to be called after vr_world_init() */
static void rf_world_init(void) {
	rf_hash_bytes_init(VR_H_RFC); rf_hash_bytes_init(VR_H_IN0); rf_hash_bytes_init(RF_H_TST); rf_hash_bytes_init(RF_H_SIG); rf_hash_bytes_init(RF_H_OUT);
	g_vr_link0.imprint = NULL;                                    /* VR_H_LINK serves as RF_H_SIG here */
	g_vr_h_ref[RF_H_TST] = 0; g_vr_h_ref[RF_H_SIG] = 0; g_vr_h_ref[RF_H_OUT] = 0;
	rf_os_init(RF_OS_TSTPRE); rf_os_init(RF_OS_TSTSUF); rf_os_init(RF_OS_SIGPRE); rf_os_init(RF_OS_SIGSUF);
	g_vr_rfc.tstInfoPrefix = VR_OPT(&g_rf_os[RF_OS_TSTPRE]); g_vr_rfc.tstInfoSuffix = VR_OPT(&g_rf_os[RF_OS_TSTSUF]);
	g_vr_rfc.sigAttrPrefix = VR_OPT(&g_rf_os[RF_OS_SIGPRE]); g_vr_rfc.sigAttrSuffix = VR_OPT(&g_rf_os[RF_OS_SIGSUF]);
	g_vr_sig.ctx = VR_OPT(VR_CTX);
	g_rf_step = 0; g_rf_hasher_live = 0; g_rf_env_failed = 0;
	g_rf_t[0].nopen = 0; g_rf_t[0].nadd = 0; g_rf_t[0].nclose = 0; g_rf_t[0].open_alg = -1;
	g_rf_t[1].nopen = 0; g_rf_t[1].nadd = 0; g_rf_t[1].nclose = 0; g_rf_t[1].open_alg = -1;
	g_rf_create.data = NULL; g_rf_create.len = 0; g_rf_create.alg = -1; g_rf_create.n = 0;
}

/* ---- assumed stubs: hasher with transcript ---- */
#define RF_IS_LIVE_HASHER(h) ((h) == (KSI_DataHasher *)(void *)g_rf_hasher_obj && g_rf_hasher_live)
int KSI_DataHasher_open(KSI_CTX *ctx, KSI_HashAlgorithm algo_id, KSI_DataHasher **hasher) {
	__CPROVER_assert(hasher != NULL, "hasher open: result slot given");
	__CPROVER_assert(!g_rf_hasher_live, "hasher: none is live when one is opened (no leak)");
	__CPROVER_assert(g_rf_step == 0 || g_rf_step == 1, "hasher: at most two pre/suf steps");
	if (nondet_bool()) { g_rf_env_failed = 1; return KSI_OUT_OF_MEMORY; }
	g_rf_hasher_live = 1;
	g_rf_t[g_rf_step].open_alg = (int)algo_id;
	g_rf_t[g_rf_step].nopen++;
	*hasher = (KSI_DataHasher *)(void *)g_rf_hasher_obj;
	return KSI_OK;
}
int KSI_DataHasher_add(KSI_DataHasher *hasher, const void *data, size_t data_length) {
	int n;
	__CPROVER_assert(RF_IS_LIVE_HASHER(hasher), "hasher: add on the live hasher");
	__CPROVER_assert(g_rf_step == 0 || g_rf_step == 1, "hasher: add before the step's close");
	__CPROVER_assert(g_rf_t[g_rf_step].nclose == 0, "hasher: no add after close");
	if (nondet_bool()) { g_rf_env_failed = 1; return KSI_UNKNOWN_ERROR; }
	n = g_rf_t[g_rf_step].nadd;
	__CPROVER_assert(n >= 0 && n < SPEC_RFC_MAXADD, "hasher: at most prefix, digest, suffix are fed");
	if (n >= 0 && n < SPEC_RFC_MAXADD) { g_rf_t[g_rf_step].add[n].ptr = data; g_rf_t[g_rf_step].add[n].len = data_length; }
	g_rf_t[g_rf_step].nadd = n + 1;
	return KSI_OK;
}
int KSI_DataHasher_close(KSI_DataHasher *hasher, KSI_DataHash **hash) {
	int k;
	__CPROVER_assert(RF_IS_LIVE_HASHER(hasher), "hasher: close on the live hasher");
	__CPROVER_assert(hash != NULL, "hasher close: result slot given");
	__CPROVER_assert(g_rf_step == 0 || g_rf_step == 1, "hasher: close of a pre/suf step");
	__CPROVER_assert(g_rf_t[g_rf_step].nclose == 0, "hasher: closed once");
	if (nondet_bool()) { g_rf_env_failed = 1; return KSI_UNKNOWN_ERROR; }
	k = RF_K(g_rf_step);
	__CPROVER_assert(g_vr_h_ref[k] == 0, "hasher close: the step's hash identity is not yet in use");
	g_vr_h_ref[k] = 1;
	g_rf_t[g_rf_step].nclose++;
	*hash = &g_vr_h[k];
	g_rf_step++;
	return KSI_OK;
}
void KSI_DataHasher_free(KSI_DataHasher *hasher) {
	if (hasher == NULL) return;
	__CPROVER_assert(RF_IS_LIVE_HASHER(hasher), "hasher: free of the live hasher only (no double free)");
	g_rf_hasher_live = 0;
}

/* ---- assumed stubs: hash objects ---- */
/* returns the object's bytes (hash.c:281, same argument check and status) */
int KSI_DataHash_getImprint(const KSI_DataHash *hash, const unsigned char **imprint, size_t *imprint_length) {
	if (hash == NULL || imprint == NULL || imprint_length == NULL) return KSI_SERVICE_UNKNOWN_ERROR;
	__CPROVER_assert(vr_is_hash(hash) && g_vr_h_ref[vr_hidx(hash)] > 0, "getImprint: live hash object");
	*imprint_length = g_vr_h[vr_hidx(hash)].imprint_length;      /* == hash->imprint_length, addressed by index (see contracts/verification_rule_c01_rfc.h) */
	*imprint = hash->imprint;
	return KSI_OK;
}
int KSI_DataHash_create(KSI_CTX *ctx, const void *data, size_t data_length, KSI_HashAlgorithm algo_id, KSI_DataHash **hash) {
	if (hash == NULL) return KSI_INVALID_ARGUMENT;                /* hash.c:373 */
	__CPROVER_assert(g_rf_create.n == 0, "create: the output hash is created once");
	if (nondet_bool()) { g_rf_env_failed = 1; return KSI_OUT_OF_MEMORY; }
	__CPROVER_assert(g_vr_h_ref[RF_H_OUT] == 0, "create: the output hash identity is not yet in use");
	g_rf_create.data = data; g_rf_create.len = data_length; g_rf_create.alg = (int)algo_id; g_rf_create.n++;
	g_vr_h_ref[RF_H_OUT] = 1;
	*hash = &g_vr_h[RF_H_OUT];
	return KSI_OK;
}
#endif
