/* MODEL list for the plain-mode hashchain.c obligations of builderQ (use INSTEAD of including list.c).
 * Same observable behaviour as list.c for the operations hashchain.c uses (new / append / length / elementAt / free),
 * decided on the real list.c by the C19.list_* jobs:
 *   new     two funnel blocks (list + impl), either may fail -> KSI_OUT_OF_MEMORY, receiver untouched;
 *   append  the first append allocates the element array (10 slots, one funnel block, may fail -> KSI_OUT_OF_MEMORY,
 *           list unchanged); the element is stored last and belongs to the list;
 *   free    calls the element destructor given to new on every element in order, releases array, impl, list.
 * Bounded: at most QL_MAX (<= 10, so the model never has to grow) elements - asserted. */
#ifndef ENV_C19_OOM2_LIST_MODEL_H
#define ENV_C19_OOM2_LIST_MODEL_H
#include "list.h"
#ifndef QL_MAX
#define QL_MAX 3
#endif
struct KSI_List_st { KSI_DEFINE_LIST_STRUCT(KSI_List, void) };
struct ql_impl { void **arr; size_t n; };
unsigned g_ql_append_failed;
/* the destructors the harness lists use: an explicit dispatch keeps the call graph concrete for CBMC */
static void ql_destroy(KSI_List *l, void *e);

static int ql_append(KSI_List *l, void *o) {
	struct ql_impl *im;
	if (l == NULL) return KSI_INVALID_ARGUMENT;
	im = l->pImpl;
	if (im->arr == NULL) {
		im->arr = KSI_calloc(10, sizeof(void *));
		if (im->arr == NULL) { g_ql_append_failed++; return KSI_OUT_OF_MEMORY; }
	}
	__CPROVER_assert(im->n < QL_MAX, "harness bound: at most QL_MAX list elements");
	im->arr[im->n++] = o;
	return KSI_OK;
}
static size_t ql_length(KSI_List *l) { return l == NULL ? 0 : ((struct ql_impl *)l->pImpl)->n; }
static int ql_elementAt(KSI_List *l, size_t pos, void **o) {
	struct ql_impl *im;
	if (l == NULL || o == NULL) return KSI_INVALID_ARGUMENT;
	im = l->pImpl;
	if (im->arr == NULL) return KSI_INVALID_STATE;
	if (pos >= im->n) return KSI_BUFFER_OVERFLOW;
	*o = im->arr[pos];
	return KSI_OK;
}
int KSI_List_new(void (*obj_free)(void *), KSI_List **list) {
	KSI_List *l = KSI_malloc(sizeof(*l)); struct ql_impl *im;
	if (l == NULL) return KSI_OUT_OF_MEMORY;
	im = KSI_malloc(sizeof(*im));
	if (im == NULL) { KSI_free(l); return KSI_OUT_OF_MEMORY; }
	memset(l, 0, sizeof(*l));
	im->arr = NULL; im->n = 0;
	l->pImpl = im; l->obj_free = obj_free; l->append = ql_append; l->length = ql_length; l->elementAt = ql_elementAt;
	*list = l;
	return KSI_OK;
}
void KSI_List_free(KSI_List *l) {
	if (l != NULL) {
		struct ql_impl *im = l->pImpl;
		if (im->n > 0) ql_destroy(l, im->arr[0]);
		if (im->n > 1) ql_destroy(l, im->arr[1]);
		if (im->n > 2) ql_destroy(l, im->arr[2]);
		KSI_free(im->arr); KSI_free(im); KSI_free(l);
	}
}
int KSI_List_append(KSI_List *l, void *o) { return l == NULL ? KSI_INVALID_ARGUMENT : ql_append(l, o); }
size_t KSI_List_length(KSI_List *l) { return ql_length(l); }
int KSI_List_elementAt(KSI_List *l, size_t pos, void **o) { return ql_elementAt(l, pos, o); }
#define ENV_C19_OOM2_LIST_MODEL_ASSUMED "KSI_List_new/append/length/elementAt/free: model list (env/c19_oom2_list_model.h: list + impl blocks, element array allocated by the first append, each allocation may fail; free destroys every element once) - the real list.c is decided by the C19.list_* jobs"
#endif
