/* Environment of KSI_HighAvailabilityRequest_new / _free (C15): the per-context recycle list
 * ctx->haRequestRecycle as a ghost ARRAY VIEW, the allocation funnels and KSI_AsyncHandle_free as recording stubs.
 * [ASSUMED]
 *  - the list is a sequence el[0..n-1] of wrapper pointers, n <= HARQ_CAP (bound of the model; the real list grows
 *    without limit).  length() = n.  removeElement(pos, &o): pos < n -> o = el[pos], tail shifted down, n-1, KSI_OK;
 *    otherwise (or when the ghost flag g_rq_remove_fails is set: a damaged list) an error and the list unchanged.
 *    append(o): KSI_OUT_OF_MEMORY (array growth failed - ghost flag g_rq_append_fails, or the model is at its bound)
 *    with the list unchanged, or el[n] = o, n+1, KSI_OK.  These are the postconditions that the C19 list jobs
 *    (contracts/list_array.h, array view) enforce on the real list.c.
 *  - KSI_malloc / KSI_free: recording pass-through funnels over the CBMC allocator (malloc may fail).
 *  - KSI_AsyncHandle_free(h): records the call and drops one reference (what the handle owns is C13's subject). */
#ifndef ENV_NET_HA_RECYCLE_H
#define ENV_NET_HA_RECYCLE_H
#include "env/common.h"
#include "net_async.h"
#include "impl/ctx_impl.h"
#include "impl/net_async_impl.h"

#define HARQ_CAP 3
static KSI_HighAvailabilityRequest *g_rq_el[HARQ_CAP];
static size_t g_rq_n;
static _Bool g_rq_remove_fails, g_rq_append_fails;
static unsigned g_rq_length_calls, g_rq_remove_calls, g_rq_append_calls;
static KSI_LIST(KSI_HighAvailabilityRequest) g_rq_list;

static size_t rq_length(KSI_LIST(KSI_HighAvailabilityRequest) *l) {
	__CPROVER_assert(l == &g_rq_list, "recycle list monitor: the context's list is used");
	g_rq_length_calls++;
	return g_rq_n;
}
static int rq_remove(KSI_LIST(KSI_HighAvailabilityRequest) *l, size_t pos, KSI_HighAvailabilityRequest **o) {
	__CPROVER_assert(l == &g_rq_list, "recycle list monitor: the context's list is used");
	__CPROVER_assert(o != NULL, "recycle list monitor: a recycled wrapper is taken over, not destroyed");
	g_rq_remove_calls++;
	if (g_rq_remove_fails) return KSI_INVALID_STATE;
	if (pos >= g_rq_n) return KSI_INVALID_ARGUMENT;
	*o = g_rq_el[pos];
	if (pos == 0 && g_rq_n > 1) g_rq_el[0] = g_rq_el[1];
	if (pos <= 1 && g_rq_n > 2) g_rq_el[1] = g_rq_el[2];
	g_rq_n--;
	g_rq_el[g_rq_n] = NULL;
	return KSI_OK;
}
static int rq_append(KSI_LIST(KSI_HighAvailabilityRequest) *l, KSI_HighAvailabilityRequest *o) {
	__CPROVER_assert(l == &g_rq_list, "recycle list monitor: the context's list is used");
	g_rq_append_calls++;
	if (g_rq_append_fails || g_rq_n >= HARQ_CAP) return KSI_OUT_OF_MEMORY;
	g_rq_el[g_rq_n++] = o;
	return KSI_OK;
}
static void rq_list_init(KSI_CTX *ctx, _Bool present) {
	memset(&g_rq_list, 0, sizeof(g_rq_list));
	g_rq_list.length = rq_length; g_rq_list.removeElement = rq_remove; g_rq_list.append = rq_append;
	g_rq_el[0] = NULL; g_rq_el[1] = NULL; g_rq_el[2] = NULL; g_rq_n = 0;
	g_rq_length_calls = 0; g_rq_remove_calls = 0; g_rq_append_calls = 0;
	g_rq_remove_fails = nondet_bool(); g_rq_append_fails = nondet_bool();
	ctx->haRequestRecycle = present ? &g_rq_list : NULL;
}

/* ---- recording allocation funnels (include env/stubs_base.h with KSI_malloc / KSI_free renamed first) ------------- */
static unsigned g_rq_malloc_calls, g_rq_free_calls;
static size_t g_rq_malloc_size;
static void *g_rq_malloc_last, *g_rq_free_last;
void *KSI_malloc(size_t size) { g_rq_malloc_calls++; g_rq_malloc_size = size; g_rq_malloc_last = malloc(size); return g_rq_malloc_last; }
void KSI_free(void *p) { if (p == NULL) return; g_rq_free_calls++; g_rq_free_last = p; free(p); }

/* ---- KSI_AsyncHandle_free: recording ------------------------------------------------------------------------------- */
static unsigned g_rq_hfree_calls;
static KSI_AsyncHandle *g_rq_hfree_last;
void KSI_AsyncHandle_free(KSI_AsyncHandle *h) {
	if (h == NULL) return;
	g_rq_hfree_calls++; g_rq_hfree_last = h;
	if (h->ref > 0) h->ref--;
}
static void rq_record_init(void) {
	g_rq_malloc_calls = 0; g_rq_free_calls = 0; g_rq_malloc_size = 0; g_rq_malloc_last = NULL; g_rq_free_last = NULL;
	g_rq_hfree_calls = 0; g_rq_hfree_last = NULL;
}
#define ENV_NET_HA_RECYCLE_ASSUMED "ctx->haRequestRecycle: ghost array view of at most 3 wrappers (length / removeElement / append with the postconditions the C19 list jobs enforce on list.c; append and removeElement may fail) (env/net_ha_recycle.h)", \
	"KSI_malloc/KSI_free: recording pass-through funnels, malloc may fail; KSI_AsyncHandle_free: records the call, drops one reference (env/net_ha_recycle.h)"
#endif
