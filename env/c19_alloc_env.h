/* Allocation funnels with LIVE-ALLOCATION ACCOUNTING for C19 obligations (use INSTEAD of env/stubs_base.h).
 *  - KSI_malloc / KSI_calloc / KSI_free: the pass-through bodies of base.c:1033-1045 (job C19.base_alloc enforces
 *    the pass-through contract on the real ones) plus a ghost counter g_live of blocks handed out and not yet
 *    released - the observation point of property C19 ("live-allocation accounting around each operation").
 *    CBMC lets every malloc/calloc fail (return NULL) nondeterministically, in every combination.
 *  - error stack / logging: no effect on state the properties observe                       [ASSUMED] */
#ifndef ENV_C19_ALLOC_ENV_H
#define ENV_C19_ALLOC_ENV_H
#include <stdlib.h>
#include <stdarg.h>
#include "internal.h"

long g_live;                 /* funnel blocks currently live */
unsigned g_alloc_failed;     /* number of funnel allocations that returned NULL */

void *KSI_malloc(size_t size) { void *p = malloc(size); if (p != NULL) g_live++; else g_alloc_failed++; return p; }
void *KSI_calloc(size_t num, size_t size) { void *p = calloc(num, size); if (p != NULL) g_live++; else g_alloc_failed++; return p; }
void KSI_free(void *ptr) { if (ptr != NULL) { g_live--; free(ptr); } }

void KSI_ERR_clearErrors(KSI_CTX *ctx) { }
void KSI_ERR_push(KSI_CTX *ctx, int statusCode, long extErrorCode, const char *fileName, unsigned int lineNr, const char *message) { }
int KSI_LOG_debug(KSI_CTX *ctx, char *format, ...) { return KSI_OK; }
int KSI_LOG_info(KSI_CTX *ctx, char *format, ...) { return KSI_OK; }
int KSI_LOG_notice(KSI_CTX *ctx, char *format, ...) { return KSI_OK; }
int KSI_LOG_warn(KSI_CTX *ctx, char *format, ...) { return KSI_OK; }
int KSI_LOG_error(KSI_CTX *ctx, char *format, ...) { return KSI_OK; }

#define ENV_C19_ALLOC_ASSUMED "KSI_malloc/KSI_calloc/KSI_free: pass-through stubs with a ghost live-block counter (pass-through of the real funnels: job C19.base_alloc)", \
	"KSI_ERR_clearErrors/KSI_ERR_push/KSI_LOG_*: assumed to have no effect on state the property observes"
#endif
