/* Environment for hashchain.c aggregateChain (C03): model list of links + ghost transcript of the hasher.
 * ASSUMED (stubs): KSI_DataHasher_open/reset/add/addImprint/close/free, KSI_DataHash_free, KSI_DataHash_extract,
 * KSI_snprintf.  The stubs return OK or fail nondeterministically (failure recorded in g_env_failed) and
 * record what is fed to the hash function, in which order, with which algorithm. */
#ifndef ENV_GHOST_AGGR_H
#define ENV_GHOST_AGGR_H
#include "spec/chain.h"
#include "impl/hashchain_impl.h"

/* ---- model list ---- */
size_t g_len, g_calls;
struct KSI_HashChainLink_st g_link;
struct KSI_Integer_st g_lc;
int g_isCalendar;
int g_link_algo;                 /* algorithm of the current link's sibling imprint */
char g_link_imprint_obj[8];      /* identity of the current link's imprint object */
char g_input_hash_obj[8];        /* identity of the chain's input hash */
int g_input_algo;

/* ---- reference machine ---- */
spec_chain_state g_ref;

/* ---- hasher ghost ---- */
char g_hasher_obj[8];
KSI_DataHasher *g_hasher_p;       /* == (KSI_DataHasher *)g_hasher_obj, set by the harness */
_Bool g_hasher_live;               /* hasher object allocated and not freed */
int g_hasher_algo;
int g_feed;                      /* base-4 transcript of the current step */
unsigned char g_level_byte;
char g_hash_obj[8];              /* identity of the running hash object */
KSI_DataHash *g_hash_p;          /* == (KSI_DataHash *)g_hash_obj, set by the harness */
_Bool g_hash_live;
_Bool g_env_failed;                /* an environment call returned an error */
_Bool g_link_bad;                  /* the current link does not carry exactly one of imprint / legacy id / metadata */
const void *g_last_add_ptr; size_t g_last_add_len;   /* what was handed to the hash function last */
const unsigned char *g_ser_buf; size_t g_ser_len; int g_ser_opt;   /* metadata serialization record (job C03.addLinkImprint) */

static size_t aggr_stub_length(KSI_LIST(KSI_HashChainLink) *l) { return g_len; }

static int aggr_stub_elementAt(KSI_LIST(KSI_HashChainLink) *l, size_t pos, KSI_HashChainLink **o) {
	__CPROVER_assert(g_calls < g_len && pos == g_calls, "protocol: links are taken first to last, each once");
	g_link.isLeft = nondet_bool();
	g_lc.value = nondet_ull();
	g_link.levelCorrection = nondet_bool() ? &g_lc : NULL;     /* absent level correction == 0 */
	g_link.imprint = (KSI_DataHash *)g_link_imprint_obj;
	g_link_algo = nondet_int();
	g_link_bad = nondet_bool();
	if (g_isCalendar) spec_chain_step_cal(&g_ref, g_link.isLeft, g_link_algo);
	else spec_chain_step_aggr(&g_ref, g_link.levelCorrection ? g_lc.value : 0);
	g_calls++;
	g_feed = 0;
	*o = &g_link;
	return KSI_OK;
}

int KSI_DataHash_extract(const KSI_DataHash *hash, KSI_HashAlgorithm *algo_id, const unsigned char **digest, size_t *digest_length) {
	__CPROVER_assert(hash == (KSI_DataHash *)g_input_hash_obj || hash == (KSI_DataHash *)g_link_imprint_obj, "extract: only the input hash or the link's sibling");
	__CPROVER_assert(digest == NULL && digest_length == NULL, "extract: algorithm only");
	if (nondet_bool()) { g_env_failed = 1; return KSI_INVALID_ARGUMENT; }
	*algo_id = (hash == (KSI_DataHash *)g_input_hash_obj) ? g_input_algo : g_link_algo;
	return KSI_OK;
}

int KSI_DataHasher_open(KSI_CTX *ctx, KSI_HashAlgorithm algo_id, KSI_DataHasher **hasher) {
	__CPROVER_assert(!g_hasher_live, "hasher: previous hasher freed before a new one is opened (no leak)");
	if (nondet_bool()) { g_env_failed = 1; return KSI_OUT_OF_MEMORY; }
	g_hasher_live = 1; g_hasher_algo = algo_id; g_feed = 0;
	*hasher = (KSI_DataHasher *)g_hasher_obj;
	return KSI_OK;
}
int KSI_DataHasher_reset(KSI_DataHasher *hasher) {
	__CPROVER_assert(hasher == (KSI_DataHasher *)g_hasher_obj && g_hasher_live, "hasher: reset on the live hasher");
	if (nondet_bool()) { g_env_failed = 1; return KSI_UNKNOWN_ERROR; }
	g_feed = 0;
	return KSI_OK;
}
void KSI_DataHasher_free(KSI_DataHasher *hasher) {
	if (hasher == NULL) return;
	__CPROVER_assert(hasher == (KSI_DataHasher *)g_hasher_obj && g_hasher_live, "hasher: free of the live hasher only (no double free)");
	g_hasher_live = 0;
}
int KSI_DataHasher_addImprint(KSI_DataHasher *hasher, const KSI_DataHash *hsh) {
	__CPROVER_assert(hasher == (KSI_DataHasher *)g_hasher_obj && g_hasher_live, "hasher: add on the live hasher");
	/* the previous value: the input hash for the first link, afterwards the running hash */
	__CPROVER_assert(hsh == (g_calls == 1 ? (const KSI_DataHash *)g_input_hash_obj : (const KSI_DataHash *)g_hash_obj), "feed: previous operand is the input hash (first link) or the running hash");
	__CPROVER_assert(g_calls == 1 || g_hash_live, "feed: running hash is alive when fed");
	if (nondet_bool()) { g_env_failed = 1; return KSI_UNKNOWN_ERROR; }
	g_feed = g_feed * 4 + SPEC_FEED_PREV;
	return KSI_OK;
}
int KSI_DataHasher_add(KSI_DataHasher *hasher, const void *data, size_t data_length) {
	__CPROVER_assert(hasher == (KSI_DataHasher *)g_hasher_obj && g_hasher_live, "hasher: add on the live hasher");
#ifdef ENV_AGGR_ADD_IS_SIBLING
	/* job C03.addLinkImprint: the only direct add is the sibling's bytes */
	if (nondet_bool()) { g_env_failed = 1; return KSI_UNKNOWN_ERROR; }
	g_last_add_ptr = data; g_last_add_len = data_length;
	g_feed = g_feed * 4 + SPEC_FEED_SIBLING;
#else
	/* job C03.aggr*: the only direct add is the level byte */
	__CPROVER_assert(data_length == 1, "feed: the level is exactly one byte");
	g_level_byte = *(const unsigned char *)data;
	g_feed = g_feed * 4 + SPEC_FEED_LEVEL;
#endif
	return KSI_OK;
}
int KSI_DataHasher_close(KSI_DataHasher *hasher, KSI_DataHash **hash) {
	__CPROVER_assert(hasher == (KSI_DataHasher *)g_hasher_obj && g_hasher_live, "hasher: close on the live hasher");
	__CPROVER_assert(!g_hash_live, "running hash of the previous step released before the next one is produced (no leak)");
	/* the step just hashed is the reference step */
	__CPROVER_assert(g_feed == spec_chain_feed_code(g_link.isLeft), "step hash = H(left || right || level): operand order");
	__CPROVER_assert(!g_ref.rejected, "no step is hashed for a chain the reference rejects");
	__CPROVER_assert(g_level_byte == (unsigned char)g_ref.level, "level byte equals the reference level (never truncated: reference level <= 255)");
	__CPROVER_assert(g_hasher_algo == g_ref.algo, "step hashed with the reference algorithm");
	if (nondet_bool()) { g_env_failed = 1; return KSI_UNKNOWN_ERROR; }
	g_hash_live = 1;
	*hash = (KSI_DataHash *)g_hash_obj;
	return KSI_OK;
}
void KSI_DataHash_free(KSI_DataHash *hash) {
	if (hash == NULL) return;
	__CPROVER_assert(hash == (KSI_DataHash *)g_hash_obj && g_hash_live, "free of the live running hash only (no double free, inputs are not freed)");
	g_hash_live = 0;
}
size_t KSI_snprintf(char *buf, size_t n, const char *format, ...) { return 0; }
#endif
