/* Environment for the end-to-end HA scenario jobs of C15 (builderT): REAL net_ha.c + REAL net_async.c in one TU, the
 * sub-services are KSI_AsyncService objects whose function tables point to the mock transport below (the same mock the
 * native replay driver replay/c15_haglue.c uses through the public API).  [ASSUMED]
 *  - sub-service k (k < SCN_N): addRequest accepts the clone (keeps the reference, at most one request in flight) or
 *    refuses it with an arbitrary error; run(): while it holds a clone it may, at any call, answer it with an arbitrary
 *    outcome - valid response (fresh response object owned by the handle), error (arbitrary code != OK), or (only for a
 *    configuration-only request) a configuration - and hands the clone back (reference goes to the caller), exactly
 *    what asyncClient_run does with a finalised handle.  Every outcome drives the reference machine spec/ha_complete.h.
 *  - has->services / has->respQueue: array views (length / elementAt; append / length / removeElement) with the
 *    postconditions the C19 list jobs enforce on the real list.c; append succeeds (allocation failure: C19).
 *  - request objects (KSI_AggregationReq / KSI_ExtendReq / KSI_Config): opaque reference-counted stand-ins. */
#ifndef ENV_NET_HA_SCN_H
#define ENV_NET_HA_SCN_H
#include "env/common.h"
#include "net_async.h"
#include "impl/ctx_impl.h"
#include "impl/net_async_impl.h"
#include "spec/ha_complete.h"

#ifndef SCN_N
#define SCN_N 2
#endif
#define SCN_QCAP (SCN_N + 3)

/* ---- the reference machine and what the scenario records ------------------------------------------------------- */
static spec_ha_req g_spec;
static unsigned g_scn_accepted;
static int g_scn_first_err;                 /* first error delivered by an endpoint */
static void *g_scn_first_resp;              /* response object of the first valid response */
static KSI_HighAvailabilityRequest *g_scn_wrapper;
static KSI_AsyncHandle *g_scn_user;
static _Bool g_scn_conf_only;               /* the user's request carries a configuration request and no payload */
static unsigned g_scn_conf_answers;         /* configurations delivered by endpoints */

/* ---- opaque request / response / configuration stand-ins --------------------------------------------------------- */
static unsigned g_scn_req_live;             /* request objects (original + clones) alive */
static void *scn_obj_new(void) { void *p = malloc(1); return p; }
int KSI_AggregationReq_getRequestHash(const KSI_AggregationReq *t, KSI_DataHash **v) { *v = g_scn_conf_only ? NULL : (KSI_DataHash *)t; return KSI_OK; }
int KSI_AggregationReq_getConfig(const KSI_AggregationReq *t, KSI_Config **v) { *v = g_scn_conf_only ? (KSI_Config *)t : NULL; return KSI_OK; }
int KSI_AggregationReq_clone(const KSI_AggregationReq *from, KSI_AggregationReq **to) {
	void *p = scn_obj_new();
	if (p == NULL) return KSI_OUT_OF_MEMORY;
	g_scn_req_live++; *to = (KSI_AggregationReq *)p; return KSI_OK;
}
void KSI_AggregationReq_free(KSI_AggregationReq *t) { if (t != NULL) { g_scn_req_live--; free(t); } }
void KSI_ExtendReq_free(KSI_ExtendReq *t) { __CPROVER_assert(t == NULL, "scenario: signing requests only"); }
int KSI_ExtendReq_getAggregationTime(const KSI_ExtendReq *t, KSI_Integer **v) { return KSI_INVALID_ARGUMENT; }
int KSI_ExtendReq_getConfig(const KSI_ExtendReq *t, KSI_Config **v) { return KSI_INVALID_ARGUMENT; }
int KSI_ExtendReq_clone(const KSI_ExtendReq *from, KSI_ExtendReq **to) { return KSI_INVALID_ARGUMENT; }
static void scn_resp_free(void *p) { free(p); }

/* configurations: reference-counted stand-ins (slot 0: the consolidated one, 1..SCN_N: pushed by endpoint k-1) */
static char g_scn_cfg_obj[SCN_N + 1];
static size_t g_scn_cfg_ref[SCN_N + 1];
static size_t scn_cfg_idx(const void *c) { return (size_t)((const char *)c - g_scn_cfg_obj); }
KSI_Config *KSI_Config_ref(KSI_Config *c) { if (c != NULL) g_scn_cfg_ref[scn_cfg_idx(c)]++; return c; }
void KSI_Config_free(KSI_Config *c) {
	if (c == NULL) return;
	__CPROVER_assert(g_scn_cfg_ref[scn_cfg_idx(c)] >= 1, "scenario: only live configurations are released");
	g_scn_cfg_ref[scn_cfg_idx(c)]--;
}

/* ---- recycle lists are absent; the three guarded call sites get a target that must never run -------------------- */
size_t scn_hrec_length(KSI_LIST(KSI_AsyncHandle) *l) { __CPROVER_assert(0, "recycle list is absent"); return 0; }
int scn_hrec_remove(KSI_LIST(KSI_AsyncHandle) *l, size_t pos, KSI_AsyncHandle **o) { __CPROVER_assert(0, "recycle list is absent"); return KSI_INVALID_STATE; }
int scn_hrec_append(KSI_LIST(KSI_AsyncHandle) *l, KSI_AsyncHandle *o) { __CPROVER_assert(0, "recycle list is absent"); return KSI_INVALID_STATE; }
size_t scn_wrec_length(KSI_LIST(KSI_HighAvailabilityRequest) *l) { __CPROVER_assert(0, "recycle list is absent"); return 0; }
int scn_wrec_remove(KSI_LIST(KSI_HighAvailabilityRequest) *l, size_t pos, KSI_HighAvailabilityRequest **o) { __CPROVER_assert(0, "recycle list is absent"); return KSI_INVALID_STATE; }
int scn_wrec_append(KSI_LIST(KSI_HighAvailabilityRequest) *l, KSI_HighAvailabilityRequest *o) { __CPROVER_assert(0, "recycle list is absent"); return KSI_INVALID_STATE; }

/* ---- mock sub-services -------------------------------------------------------------------------------------------- */
static KSI_AsyncService g_scn_sub[SCN_N];
static size_t g_scn_sub_idx[SCN_N];            /* impl of sub-service k == &g_scn_sub_idx[k] */
static KSI_AsyncHandle *g_scn_held[SCN_N];     /* the clone sub-service k holds */
static unsigned g_scn_offers[SCN_N];           /* addRequest calls per sub-service */

static int scn_mock_add(void *impl, KSI_AsyncHandle *h) {
	size_t k = *(size_t *)impl;
	int r = nondet_int();
	__CPROVER_assert(k < SCN_N && h != NULL && h != g_scn_user, "scenario: a clone is offered to a sub-service, never the user's handle");
	__CPROVER_assert(g_scn_held[k] == NULL, "scenario: one request in flight per sub-service");
	g_scn_offers[k]++;
	if (r != KSI_OK) return r;
	g_scn_held[k] = h;
	h->state = KSI_ASYNC_STATE_WAITING_FOR_RESPONSE;
	h->parentId = k + 1;
	g_scn_wrapper = (KSI_HighAvailabilityRequest *)h->userCtx;
	g_scn_accepted++;
	g_spec.outstanding++;
	return KSI_OK;
}
static int scn_mock_run(void *impl, int (*rh)(void *), KSI_AsyncHandle **out, size_t *waiting) {
	size_t k = *(size_t *)impl;
	KSI_AsyncHandle *h;
	__CPROVER_assert(k < SCN_N && out != NULL, "scenario: the HA service collects the handle of every sub-service");
	*out = NULL;
	h = g_scn_held[k];
	if (h == NULL || nondet_bool()) return KSI_OK;          /* nothing in flight / no answer yet */
	g_scn_held[k] = NULL;
	if (g_scn_conf_only && nondet_bool()) {
		/* the endpoint answers the configuration request */
		h->state = KSI_ASYNC_STATE_PUSH_CONFIG_RECEIVED;
		h->respCtx = (void *)KSI_Config_ref((KSI_Config *)&g_scn_cfg_obj[k + 1]);
		h->respCtx_free = (void (*)(void *))KSI_Config_free;
		g_scn_conf_answers++;
		spec_ha_on_response(&g_spec);
	} else if (!g_scn_conf_only && nondet_bool()) {
		void *resp = scn_obj_new();
		if (resp == NULL) { g_scn_held[k] = h; return KSI_OK; }
		h->state = KSI_ASYNC_STATE_RESPONSE_RECEIVED;
		h->respCtx = resp;
		h->respCtx_free = scn_resp_free;
		if (g_spec.state != SPEC_HA_DONE) g_scn_first_resp = resp;
		spec_ha_on_response(&g_spec);
	} else {
		int e = nondet_int();
		if (e == KSI_OK) e = KSI_NETWORK_RECIEVE_TIMEOUT;
		h->state = KSI_ASYNC_STATE_ERROR;
		h->err = e;
		h->errExt = (long)k;
		if (g_spec.state == SPEC_HA_WAITING) g_scn_first_err = e;
		spec_ha_on_error(&g_spec, e);
	}
	*out = h;
	return KSI_OK;
}
static int scn_mock_pending(void *impl, size_t *c) { size_t k = *(size_t *)impl; *c = g_scn_held[k] != NULL ? 1 : 0; return KSI_OK; }
static int scn_mock_received(void *impl, size_t *c) { *c = 0; return KSI_OK; }
static int scn_mock_getOption(void *impl, const int opt, void *v) { size_t k = *(size_t *)impl; *(size_t *)v = (opt == KSI_ASYNC_PRIVOPT_ENDPOINT_ID) ? k + 1 : 0; return KSI_OK; }

/* ---- has->services: array view ------------------------------------------------------------------------------------ */
static KSI_LIST(KSI_AsyncService) g_scn_sv_list;
static size_t scn_sv_length(KSI_LIST(KSI_AsyncService) *l) { return SCN_N; }
static int scn_sv_elementAt(KSI_LIST(KSI_AsyncService) *l, size_t pos, KSI_AsyncService **o) {
	if (pos >= SCN_N) return KSI_BUFFER_OVERFLOW;
	*o = &g_scn_sub[pos];
	return KSI_OK;
}
/* ---- has->respQueue: array view ----------------------------------------------------------------------------------- */
static KSI_LIST(KSI_AsyncHandle) g_scn_q_list;
static KSI_AsyncHandle *g_scn_q[SCN_QCAP];
static size_t g_scn_q_n;
static size_t scn_q_length(KSI_LIST(KSI_AsyncHandle) *l) { return g_scn_q_n; }
static int scn_q_append(KSI_LIST(KSI_AsyncHandle) *l, KSI_AsyncHandle *h) {
	__CPROVER_assert(h != NULL, "scenario: NULL is never queued");
	__CPROVER_assert(g_scn_q_n < SCN_QCAP, "scenario: the response queue never holds more than one completion and one notice per endpoint");
	if (g_scn_q_n >= SCN_QCAP) return KSI_OUT_OF_MEMORY;
	g_scn_q[g_scn_q_n++] = h;
	return KSI_OK;
}
static int scn_q_remove(KSI_LIST(KSI_AsyncHandle) *l, size_t pos, KSI_AsyncHandle **o) {
	size_t i;
	__CPROVER_assert(o != NULL, "scenario: queued handles are handed out, not destroyed");
	if (pos >= g_scn_q_n) return KSI_BUFFER_OVERFLOW;
	*o = g_scn_q[pos];
	for (i = 0; i + 1 < SCN_QCAP; i++) if (i >= pos) g_scn_q[i] = g_scn_q[i + 1];
	g_scn_q[SCN_QCAP - 1] = NULL;
	g_scn_q_n--;
	return KSI_OK;
}

static void scn_init(KSI_CTX *ctx, KSI_HighAvailabilityService *has) {
	size_t k;
	memset(has, 0, sizeof(*has));
	memset(&g_scn_sv_list, 0, sizeof(g_scn_sv_list));
	g_scn_sv_list.length = scn_sv_length; g_scn_sv_list.elementAt = scn_sv_elementAt;
	memset(&g_scn_q_list, 0, sizeof(g_scn_q_list));
	g_scn_q_list.length = scn_q_length; g_scn_q_list.append = scn_q_append; g_scn_q_list.removeElement = scn_q_remove;
	g_scn_q_n = 0;
	for (k = 0; k < SCN_QCAP; k++) g_scn_q[k] = NULL;
	for (k = 0; k < SCN_N; k++) {
		memset(&g_scn_sub[k], 0, sizeof(g_scn_sub[k]));
		g_scn_sub_idx[k] = k;
		g_scn_sub[k].ctx = ctx; g_scn_sub[k].impl = &g_scn_sub_idx[k];
		g_scn_sub[k].addRequest = scn_mock_add; g_scn_sub[k].run = scn_mock_run;
		g_scn_sub[k].getPendingCount = scn_mock_pending; g_scn_sub[k].getReceivedCount = scn_mock_received;
		g_scn_sub[k].getOption = scn_mock_getOption;
		g_scn_held[k] = NULL; g_scn_offers[k] = 0;
	}
	for (k = 0; k <= SCN_N; k++) g_scn_cfg_ref[k] = 1;       /* one reference each held by "the environment" */
	ctx->asyncHandleRecycle = NULL; ctx->haRequestRecycle = NULL;
	has->ctx = ctx; has->services = &g_scn_sv_list; has->respQueue = &g_scn_q_list;
	g_scn_accepted = 0; g_scn_first_err = 0; g_scn_first_resp = NULL; g_scn_wrapper = NULL; g_scn_req_live = 0; g_scn_conf_answers = 0;
}

#define ENV_NET_HA_SCN_ASSUMED "sub-services: mock transports (accept or refuse a clone; answer a held clone at any later run with response / error / configuration; hand the reference back) (env/net_ha_scn.h)", \
	"has->services / has->respQueue: array views of the list object; append succeeds", \
	"request / response / configuration objects: opaque reference-counted stand-ins"
#endif
