/* env/ghost_sbview.h - environment of the child-list surgery jobs (obligations/C08/sb_surgery.c, sb_pubrec.c; C11 sb_append).
 * REAL code in these jobs: the signature_builder.c / signature.c functions under test and tlv.c (KSI_TLV_new / _free /
 * _getNestedList / _replaceNestedTlv / _appendNestedTlv / _getTag run as they are; include this file AFTER "tlv.c").
 * MODEL: the LIST the children live in.  It is a ghost array view (identities; the tags sit in the real TLV objects) with
 * the call-backs of a KSI_LIST(KSI_TLV); every call-back behaves as list.h documents and as list.c implements it
 * (list.c:59-332; the jobs C19.list_append / _remove / _insertAt / _replace_elementAt check the real functions against
 * the same array view, bounded capacity 4).  Loops of the model run over CONCRETE indices 0..SBV_MAX-1 (guards symbolic),
 * which is what makes children <= 6 with arbitrary tags tractable (the real list.c shifts with symbolic indices: > 4 min).
 * ASSUMED besides the list: the template serializer KSI_TlvTemplate_construct (C09/C10; records its arguments, arbitrary
 * status), reference counting of the typed records (counting stubs), KSI_FTLV_memRead (refuses: a base TLV whose children
 * are not expanded is followed only with an empty payload). */
#ifndef ENV_GHOST_SBVIEW_H
#define ENV_GHOST_SBVIEW_H
#include "spec/sb_view.h"
#include "fast_tlv.h"

#ifndef SB_MAX_CHILDREN
#define SB_MAX_CHILDREN 6
#endif

/* ---- model list ---------------------------------------------------------------------------------------------------- */
#define SBL_LISTS 2                   /* [0] the child list of the base TLV, [1] a list made on the way by KSI_List_new */
static struct KSI_TLV_list_st g_sbl_fn[SBL_LISTS];     /* what the code sees: call-backs */
/* state (kept apart from the call-back structs and addressed by index: writes through a struct pointer obtained from the
 * opaque KSI_List pointer make CBMC rebuild the whole object byte-wise) */
static size_t g_sbl_n[SBL_LISTS]; static KSI_TLV *g_sbl_id[SBL_LISTS][SBV_MAX];    /* the array view */
static _Bool g_sbl_hasArray[SBL_LISTS];   /* list.c: a list that never held an element has no slot array */
static _Bool g_sbl_growFails[SBL_LISTS];  /* the next growth of the slot array fails (OUT_OF_MEMORY) */
static size_t g_sbl_cap[SBL_LISTS];       /* slots allocated (growth when n + 1 > cap) */
static _Bool g_sbl_live[SBL_LISTS];
static unsigned g_sbl_new_calls, g_sbl_free_calls, g_sbl_elem_free_calls;

static unsigned sbl_of(const void *l) {
	__CPROVER_assert(l == (const void *)&g_sbl_fn[0] || l == (const void *)&g_sbl_fn[1], "MACHINERY: list call-back on a model list");
	return l == (const void *)&g_sbl_fn[0] ? 0 : 1;
}
static size_t sbl_length(KSI_LIST(KSI_TLV) *l) { return l == NULL ? 0 : g_sbl_n[sbl_of(l)]; }           /* list.c:289 */
static int sbl_elementAt(KSI_LIST(KSI_TLV) *l, size_t pos, KSI_TLV **o) {                                /* list.c:260 */
	unsigned m; size_t i;
	if (l == NULL || o == NULL) return KSI_INVALID_ARGUMENT;
	m = sbl_of(l);
	if (!g_sbl_hasArray[m]) return KSI_INVALID_STATE;
	if (pos >= g_sbl_n[m]) return KSI_BUFFER_OVERFLOW;
	for (i = 0; i < SBV_MAX; i++) if (i == pos) *o = g_sbl_id[m][i];
	return KSI_OK;
}
static int sbl_remove(KSI_LIST(KSI_TLV) *l, size_t pos, KSI_TLV **o) {                                   /* list.c:293 */
	unsigned m; size_t i; KSI_TLV *e = NULL;
	if (l == NULL) return KSI_INVALID_ARGUMENT;
	m = sbl_of(l);
	if (!g_sbl_hasArray[m]) return KSI_INVALID_STATE;
	if (pos >= g_sbl_n[m]) return KSI_INVALID_ARGUMENT;
	for (i = 0; i < SBV_MAX; i++) if (i == pos) e = g_sbl_id[m][i];
	if (o != NULL) *o = e; else if (g_sbl_fn[m].obj_free != NULL) { g_sbl_elem_free_calls++; g_sbl_fn[m].obj_free(e); }
	for (i = 0; i + 1 < SBV_MAX; i++) if (i >= pos && i + 1 < g_sbl_n[m]) g_sbl_id[m][i] = g_sbl_id[m][i + 1];
	g_sbl_n[m]--;
	for (i = 0; i < SBV_MAX; i++) if (i == g_sbl_n[m]) g_sbl_id[m][i] = NULL;
	return KSI_OK;
}
static int sbl_append(KSI_LIST(KSI_TLV) *l, KSI_TLV *e) {                                                /* list.c:59 */
	unsigned m; size_t i;
	if (l == NULL) return KSI_INVALID_ARGUMENT;
	m = sbl_of(l);
	if (g_sbl_n[m] + 1 > g_sbl_cap[m]) {
		if (g_sbl_growFails[m]) return KSI_OUT_OF_MEMORY;
		g_sbl_cap[m] += 10; g_sbl_hasArray[m] = 1;
	}
	__CPROVER_assert(g_sbl_n[m] < SBV_MAX, "MACHINERY: capacity of the model list");
	for (i = 0; i < SBV_MAX; i++) if (i == g_sbl_n[m]) g_sbl_id[m][i] = e;
	g_sbl_n[m]++;
	return KSI_OK;
}
static int sbl_find(KSI_LIST(KSI_TLV) *l, KSI_TLV *e, int *found, size_t *pos) {                         /* list.c:113 */
	unsigned m; size_t i, k;
	if (l == NULL || e == NULL || found == NULL || pos == NULL) return KSI_INVALID_ARGUMENT;
	m = sbl_of(l); k = g_sbl_n[m];
	for (i = 0; i < SBV_MAX; i++) if (i < g_sbl_n[m] && k == g_sbl_n[m] && g_sbl_id[m][i] == e) k = i;
	if (k < g_sbl_n[m]) *pos = k;
	*found = k < g_sbl_n[m] ? 1 : 0;
	return KSI_OK;
}
static int sbl_replaceAt(KSI_LIST(KSI_TLV) *l, size_t pos, KSI_TLV *e) {                                 /* list.c:188 */
	unsigned m; size_t i; KSI_TLV *old = NULL;
	if (l == NULL) return KSI_INVALID_ARGUMENT;
	m = sbl_of(l);
	if (!g_sbl_hasArray[m]) return KSI_INVALID_STATE;
	if (pos >= g_sbl_n[m]) return KSI_BUFFER_OVERFLOW;
	for (i = 0; i < SBV_MAX; i++) if (i == pos) old = g_sbl_id[m][i];
	if (g_sbl_fn[m].obj_free != NULL) { g_sbl_elem_free_calls++; g_sbl_fn[m].obj_free(old); }
	for (i = 0; i < SBV_MAX; i++) if (i == pos) g_sbl_id[m][i] = e;
	return KSI_OK;
}
static void sbl_init(unsigned m, void (*obj_free)(KSI_TLV *)) {
	size_t i;
	g_sbl_fn[m].append = sbl_append; g_sbl_fn[m].removeElement = sbl_remove; g_sbl_fn[m].indexOf = NULL; g_sbl_fn[m].insertAt = NULL;
	g_sbl_fn[m].replaceAt = sbl_replaceAt; g_sbl_fn[m].elementAt = sbl_elementAt; g_sbl_fn[m].length = sbl_length; g_sbl_fn[m].obj_free = obj_free;
	g_sbl_fn[m].sort = NULL; g_sbl_fn[m].foldl = NULL; g_sbl_fn[m].pImpl = NULL; g_sbl_fn[m].find = sbl_find;
	g_sbl_n[m] = 0; g_sbl_hasArray[m] = 0; g_sbl_growFails[m] = 0; g_sbl_cap[m] = 0; g_sbl_live[m] = 1;
	for (i = 0; i < SBV_MAX; i++) g_sbl_id[m][i] = NULL;
}
/* list.c:352 KSI_List_new (reached through KSI_TLVList_new of tlv.c): OUT_OF_MEMORY or a fresh empty list */
int KSI_List_new(void (*obj_free)(void *), KSI_List **list) {
	g_sbl_new_calls++;
	if (nondet_bool()) return KSI_OUT_OF_MEMORY;
	__CPROVER_assert(!g_sbl_live[1], "MACHINERY: one list is made on the way at most");
	sbl_init(1, (void (*)(KSI_TLV *))obj_free);
	g_sbl_growFails[1] = nondet_bool();
	*list = (KSI_List *)&g_sbl_fn[1];
	return KSI_OK;
}
/* list.c:335 KSI_List_free: only a list that is not attached to a TLV and holds nothing is ever released here */
void KSI_List_free(KSI_List *list) {
	if (list != NULL) {
		unsigned m = sbl_of(list);
		g_sbl_free_calls++;
		__CPROVER_assert(g_sbl_live[m] && g_sbl_n[m] == 0, "only a live empty list is released by the surgery");
		g_sbl_live[m] = 0;
	}
}

/* ---- assumed services ---------------------------------------------------------------------------------------------- */
struct sbv_ghost {
	unsigned construct_calls; int construct_res; const void *construct_tlv, *construct_payload, *construct_tmpl; unsigned construct_tag;
	unsigned cal_free_calls; const void *cal_freed; unsigned cal_ref_calls;
	unsigned calauth_free_calls; const void *calauth_freed;
	unsigned pub_free_calls; const void *pub_freed;
	unsigned foreign_free;
} g_sbv;

/* opaque typed records: only identity matters (SBV_WITH_SIGNATURE_C: signature.c brings the real record types and the
 * real KSI_CalendarAuthRec_free along; the harness then includes the impl headers itself) */
#ifndef SBV_WITH_SIGNATURE_C
struct KSI_CalendarHashChain_st { int dummy; };
struct KSI_PublicationRecord_st { int dummy; };
#endif

int KSI_TlvTemplate_construct(KSI_CTX *ctx, KSI_TLV *tlv, const void *payload, const KSI_TlvTemplate *tmpl) {
	g_sbv.construct_calls++; g_sbv.construct_tlv = tlv; g_sbv.construct_payload = payload; g_sbv.construct_tmpl = tmpl;
	g_sbv.construct_tag = KSI_TLV_getTag(tlv);
	g_sbv.construct_res = nondet_int();
	return g_sbv.construct_res;
}
int KSI_TlvTemplate_extract(KSI_CTX *ctx, void *payload, KSI_TLV *tlv, const KSI_TlvTemplate *tmpl) { return nondet_int(); }
void KSI_CalendarHashChain_free(KSI_CalendarHashChain *t) { if (t != NULL) { g_sbv.cal_free_calls++; g_sbv.cal_freed = t; } }
KSI_CalendarHashChain *KSI_CalendarHashChain_ref(KSI_CalendarHashChain *t) { if (t != NULL) g_sbv.cal_ref_calls++; return t; }
#ifndef SBV_WITH_SIGNATURE_C
void KSI_CalendarAuthRec_free(KSI_CalendarAuthRec *t) { if (t != NULL) { g_sbv.calauth_free_calls++; g_sbv.calauth_freed = t; } }
#else
void KSI_PublicationData_free(KSI_PublicationData *t) { if (t != NULL) g_sbv.foreign_free++; }
void KSI_PKISignedData_free(KSI_PKISignedData *t) { if (t != NULL) g_sbv.foreign_free++; }
#endif
void KSI_PublicationRecord_free(KSI_PublicationRecord *t) { if (t != NULL) { g_sbv.pub_free_calls++; g_sbv.pub_freed = t; } }
void KSI_DataHash_free(KSI_DataHash *h) { if (h != NULL) g_sbv.foreign_free++; }
int KSI_FTLV_memRead(const unsigned char *m, size_t l, KSI_FTLV *t) { return KSI_INVALID_FORMAT; }

/* ---- harness helpers: a signature object as the parser leaves it --------------------------------------------------- */
static char s_ctx_store[8];
#define S_CTX ((KSI_CTX *)(void *)s_ctx_store)
static struct KSI_Signature_st s_sig;
static struct KSI_CalendarHashChain_st s_oldcal, s_newcal;
static struct KSI_CalendarAuthRec_st s_calauth;
static struct KSI_PublicationRecord_st s_pub, s_newpub;
static KSI_TLV *s_base, *s_kid[SB_MAX_CHILDREN];
static int s_shape;                  /* 0: no base TLV, 1: children expanded, 2: empty payload, children not expanded */

static void sbh_init_tlv(KSI_TLV *t, unsigned tag) {
	t->ctx = S_CTX; t->isNonCritical = 0; t->isForwardable = 0; t->tag = tag; t->buffer_size = 0; t->buffer = NULL; t->nested = NULL;
	t->datap = NULL; t->datap_len = 0; t->relativeOffset = 0; t->absoluteOffset = 0;
}
/* the view of the child list (identities from the model list, tags from the real TLV objects) */
static void sbh_snapshot(KSI_TLV *base, sb_view *v) {
	size_t i; unsigned m;
	sbv_clear(v);
	if (base == NULL || base->nested == NULL) return;
	m = sbl_of(base->nested);
	for (i = 0; i < SBV_MAX; i++) if (i < g_sbl_n[m]) { v->id[i] = g_sbl_id[m][i]; v->tag[i] = g_sbl_id[m][i]->tag; }      /* (concrete indices) */
	v->n = g_sbl_n[m];
}
/* The harness runs ONE case (shape, n) chosen nondeterministically; the cases are enumerated with CONCRETE shape and n so
 * that symex keeps list positions and object identities concrete inside a case (a symbolic n made the same job 10x slower). */
#define SBH_CASES (SB_MAX_CHILDREN + 3)      /* 0: no base TLV; 1: unexpanded empty base TLV; 2 + n: expanded, n children */
#define SBH_CASE_SHAPE(k) ((k) == 0 ? 0 : (k) == 1 ? 2 : 1)
#define SBH_CASE_N(k) ((k) < 2 ? 0 : (size_t)(k) - 2)
/* base TLV 0x800 with n <= SB_MAX_CHILDREN children (heap objects) of arbitrary tags.  The typed fields mirror the children
 * (calendarChain != NULL <=> a 0x802 child exists, ...): established by KSI_TlvTemplate_extract (C10.engine,
 * C10.tables_signature) - precondition derived from the call sites (the surgery is only ever applied to a parsed clone). */
static void sbh_make_signature(sb_view *old, int shape, size_t n) {
	size_t i;
	KSI_TLV *base = NULL;
	memset(&g_sbv, 0, sizeof(g_sbv)); g_sbl_new_calls = 0; g_sbl_free_calls = 0; g_sbl_elem_free_calls = 0;
	g_sbl_live[0] = 0; g_sbl_live[1] = 0;
	s_sig.ctx = S_CTX; s_sig.ref = 1;
	s_shape = shape;
	for (i = 0; i < SB_MAX_CHILDREN; i++) s_kid[i] = NULL;
	if (s_shape != 0) {
		base = malloc(sizeof(struct KSI_TLV_st)); __CPROVER_assume(base != NULL);
		sbh_init_tlv(base, 0x800);
		if (s_shape == 1) {
			sbl_init(0, KSI_TLV_free);
			g_sbl_growFails[0] = nondet_bool();
			if (nondet_bool()) { g_sbl_cap[0] = 10; g_sbl_hasArray[0] = 1; } else { g_sbl_cap[0] = n; g_sbl_hasArray[0] = n > 0; }
			for (i = 0; i < SB_MAX_CHILDREN; i++) if (i < n) {
				KSI_TLV *k = malloc(sizeof(struct KSI_TLV_st)); __CPROVER_assume(k != NULL);
				sbh_init_tlv(k, nondet_uint());
				__CPROVER_assume(k->tag <= 0x1fff);
				s_kid[i] = k; g_sbl_id[0][i] = k;
			}
			g_sbl_n[0] = n;
			base->nested = &g_sbl_fn[0];
		}
	}
	s_base = base; s_sig.baseTlv = base;
	sbh_snapshot(base, old);
	s_sig.calendarChain = sbv_count(old, SBV_TAG_CAL) > 0 ? &s_oldcal : NULL;
	s_sig.calendarAuthRec = sbv_count(old, SBV_TAG_CAL_AUTH) > 0 ? &s_calauth : NULL;
	s_sig.publication = sbv_count(old, SBV_TAG_PUB) > 0 ? &s_pub : NULL;
}
/* ownership: everything still in the view is released by the harness now; what left the view must have been released by the
 * code under test (else --memory-leak-check fires), and nothing in the view may have been released (else double free). */
static void sbh_release(const sb_view *now, const void *fresh) {
	size_t i;
	for (i = 0; i < SB_MAX_CHILDREN; i++) if (s_kid[i] != NULL && sbv_contains(now, s_kid[i])) free(s_kid[i]);
	if (fresh != NULL && sbv_contains(now, fresh)) free((void *)fresh);
	if (s_base != NULL) free(s_base);
}
#endif
