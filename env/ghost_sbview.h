/* env/ghost_sbview.h - environment of the C08 child-list surgery jobs (obligations/C08/sb_surgery.c).
 * REAL code in these jobs: signature_builder.c, tlv.c (KSI_TLV_new/free/getNestedList/replaceNestedTlv/appendNestedTlv/getTag),
 * list.c (the list the children live in).  The view (spec/sb_view.h) is read directly out of the real list array.
 * ASSUMED (stubs below): the template serializer KSI_TlvTemplate_construct (C09/C10), reference counting of the typed
 * records (counting stubs), the raw-payload reader KSI_FTLV_memRead (refuses: a base TLV whose children have not been
 * expanded is only followed on the empty-payload path). */
#ifndef ENV_GHOST_SBVIEW_H
#define ENV_GHOST_SBVIEW_H
#include "spec/sb_view.h"
#include "fast_tlv.h"

struct sbv_ghost {
	/* KSI_TlvTemplate_construct */
	unsigned construct_calls; int construct_res; const void *construct_tlv, *construct_payload, *construct_tmpl; unsigned construct_tag;
	/* typed records */
	unsigned cal_free_calls; const void *cal_freed; unsigned cal_ref_calls;
	unsigned calauth_free_calls; const void *calauth_freed;
	unsigned pub_free_calls; const void *pub_freed;
	unsigned foreign_free;
} g_sbv;

/* opaque typed records: only identity matters */
struct KSI_CalendarHashChain_st { int dummy; };
/* struct KSI_CalendarAuthRec_st: impl/signature_impl.h */
struct KSI_PublicationRecord_st { int dummy; };

unsigned KSI_TLV_getTag(const KSI_TLV *tlv);
int KSI_TlvTemplate_construct(KSI_CTX *ctx, KSI_TLV *tlv, const void *payload, const KSI_TlvTemplate *tmpl) {
	g_sbv.construct_calls++; g_sbv.construct_tlv = tlv; g_sbv.construct_payload = payload; g_sbv.construct_tmpl = tmpl;
	g_sbv.construct_tag = KSI_TLV_getTag(tlv);
	g_sbv.construct_res = nondet_int();
	return g_sbv.construct_res;
}
int KSI_TlvTemplate_extract(KSI_CTX *ctx, void *payload, KSI_TLV *tlv, const KSI_TlvTemplate *tmpl) { return nondet_int(); }
void KSI_CalendarHashChain_free(KSI_CalendarHashChain *t) { if (t != NULL) { g_sbv.cal_free_calls++; g_sbv.cal_freed = t; } }
KSI_CalendarHashChain *KSI_CalendarHashChain_ref(KSI_CalendarHashChain *t) { if (t != NULL) g_sbv.cal_ref_calls++; return t; }
void KSI_CalendarAuthRec_free(KSI_CalendarAuthRec *t) { if (t != NULL) { g_sbv.calauth_free_calls++; g_sbv.calauth_freed = t; } }
void KSI_PublicationRecord_free(KSI_PublicationRecord *t) { if (t != NULL) { g_sbv.pub_free_calls++; g_sbv.pub_freed = t; } }
void KSI_DataHash_free(KSI_DataHash *h) { if (h != NULL) g_sbv.foreign_free++; }
/* raw payload reader: refuses (see header comment) */
int KSI_FTLV_memRead(const unsigned char *m, size_t l, KSI_FTLV *t) { return KSI_INVALID_FORMAT; }
#endif
