/* Assumed environment for base.c services that the properties do not observe (DESIGN §4):
 *  - error stack and logging: no effect on anything but ctx->errors* / the log sink  [ASSUMED]
 *  - allocation funnels: textually the three-line bodies of base.c:1033-1045 (job C19.base_alloc
 *    enforces the pass-through contract on the real ones).
 * Include this header only in harness TUs that do NOT include base.c / log.c. */
#ifndef ENV_STUBS_BASE_H
#define ENV_STUBS_BASE_H
#include <stdlib.h>
#include <stdarg.h>
#include "internal.h"

void KSI_ERR_clearErrors(KSI_CTX *ctx) { }
void KSI_ERR_push(KSI_CTX *ctx, int statusCode, long extErrorCode, const char *fileName, unsigned int lineNr, const char *message) { }
int KSI_LOG_debug(KSI_CTX *ctx, char *format, ...) { return KSI_OK; }
int KSI_LOG_info(KSI_CTX *ctx, char *format, ...) { return KSI_OK; }
int KSI_LOG_notice(KSI_CTX *ctx, char *format, ...) { return KSI_OK; }
int KSI_LOG_warn(KSI_CTX *ctx, char *format, ...) { return KSI_OK; }
int KSI_LOG_error(KSI_CTX *ctx, char *format, ...) { return KSI_OK; }
int KSI_LOG_logBlob(KSI_CTX *ctx, int level, const char *prefix_format, const unsigned char *data, size_t data_len, ...) { return KSI_OK; }
int KSI_LOG_logTlv(KSI_CTX *ctx, int level, const char *prefix, const KSI_TLV *tlv) { return KSI_OK; }
int KSI_LOG_logDataHash(KSI_CTX *ctx, int level, const char *prefix, const KSI_DataHash *hsh) { return KSI_OK; }
int KSI_LOG_logCtxError(KSI_CTX *ctx, int level) { return KSI_OK; }

void *KSI_malloc(size_t size) { return malloc(size); }
void *KSI_calloc(size_t num, size_t size) { return calloc(num, size); }
void KSI_free(void *ptr) { if (ptr != NULL) { free(ptr); } }

#define ENV_BASE_ASSUMED "KSI_ERR_clearErrors/KSI_ERR_push/KSI_LOG_*: assumed to have no effect on state the property observes (stub bodies in env/stubs_base.h)", \
	"KSI_malloc/KSI_calloc/KSI_free: stub copies of the pass-through funnels of base.c"
#endif
