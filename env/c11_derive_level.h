/* builderR - C11: ASSUMED recording stubs for the callees of updateLevelCorrection (signature_builder.c:215), both
 * directions (add = a root level is applied when a derived signature is closed, sub = it is taken out again when a local
 * chain is prepended).  Adapted from env/c07_builder.h (builderC) with own ghost names so that the contract can be used
 * together with the other C11 derive contracts.  TLV list of the base TLV = model list of arbitrary length. */
#ifndef ENV_C11_DERIVE_LEVEL_H
#define ENV_C11_DERIVE_LEVEL_H
#include "env/c11_derive_types.h"

static int c11lv_chain_elementAt(KSI_LIST(KSI_AggregationHashChain) *l, size_t pos, KSI_AggregationHashChain **o) {
	int r = c11d_status();
	__CPROVER_assert(pos == 0, "protocol: the FIRST aggregation hash chain is asked for");
	if (r == KSI_OK) *o = &g_d_cur;
	return r;
}
int KSI_AggregationHashChain_getChain(const KSI_AggregationHashChain *aggr, KSI_LIST(KSI_HashChainLink) **chain) {
	int r = c11d_status();
	if (r == KSI_OK) *chain = &g_d_linklist;
	return r;
}
static int c11lv_link_elementAt(KSI_LIST(KSI_HashChainLink) *l, size_t pos, KSI_HashChainLink **o) {
	int r = c11d_status();
	__CPROVER_assert(pos == 0, "protocol: the FIRST link of the chain is asked for");
	if (r == KSI_OK) *o = &g_lv_link;
	return r;
}
int KSI_HashChainLink_getLevelCorrection(const KSI_HashChainLink *t, KSI_Integer **v) { if (t == NULL || v == NULL) return KSI_INVALID_ARGUMENT; *v = t->levelCorrection; return KSI_OK; }
int KSI_HashChainLink_setLevelCorrection(KSI_HashChainLink *t, KSI_Integer *v) {
	g_lv.set_calls++; g_lv.set_res = c11d_status();
	if (t == NULL) g_lv.set_res = KSI_INVALID_ARGUMENT;
	if (g_lv.set_res == KSI_OK) { t->levelCorrection = v; g_lv.set_value = v != NULL ? v->value : 0; }
	return g_lv.set_res;
}
KSI_uint64_t KSI_Integer_getUInt64(const KSI_Integer *o) { g_lv.calc_reached = 1; return o != NULL ? o->value : 0; }      /* (read right before the new value is computed) */
int KSI_Integer_new(KSI_CTX *ctx, KSI_uint64_t v, KSI_Integer **o) {
	KSI_Integer *t;
	g_lv.int_new_calls++;
	if (nondet_bool()) return KSI_OUT_OF_MEMORY;
	t = malloc(sizeof(*t)); if (t == NULL) return KSI_OUT_OF_MEMORY;
	t->value = v; g_lv.int_live++; *o = t; return KSI_OK;
}
void KSI_Integer_free(KSI_Integer *o) { if (o != NULL) { g_lv.int_live--; if (o != &g_lv_oldint) free(o); } }
int KSI_TLV_new(KSI_CTX *ctx, unsigned tag, int isLenient, int isForward, KSI_TLV **tlv) {
	KSI_TLV *t;
	if (nondet_bool()) return KSI_OUT_OF_MEMORY;
	t = malloc(sizeof(*t)); if (t == NULL) return KSI_OUT_OF_MEMORY;
	t->tag = tag; g_lv.new_tag = tag; g_lv.tlv_live++; *tlv = t; return KSI_OK;
}
void KSI_TLV_free(KSI_TLV *t) { if (t != NULL) { g_lv.tlv_live--; free(t); } }
int KSI_TlvTemplate_construct(KSI_CTX *ctx, KSI_TLV *tlv, const void *payload, const KSI_TlvTemplate *tmpl) {
	g_lv.construct_calls++; g_lv.construct_payload = payload; g_lv.construct_tmpl = tmpl; return c11d_status();
}
int KSI_TlvTemplate_extract(KSI_CTX *ctx, void *payload, KSI_TLV *tlv, const KSI_TlvTemplate *tmpl) { return c11d_status(); }
int KSI_TLV_getNestedList(KSI_TLV *tlv, KSI_LIST(KSI_TLV) **list) { int r = c11d_status(); if (r == KSI_OK) *list = &g_lv_tlvlist; return r; }
static size_t c11lv_tlv_length(KSI_LIST(KSI_TLV) *l) { return g_lv_tl_len; }
static int c11lv_tlv_elementAt(KSI_LIST(KSI_TLV) *l, size_t pos, KSI_TLV **o) {
	int r = c11d_status();
	__CPROVER_assert(pos < g_lv_tl_len, "protocol: no fetch beyond the TLV list");
	if (r == KSI_OK) { g_lv_el.tag = nondet_uint(); *o = &g_lv_el; g_lv_cmp = 0; }
	return r;
}
unsigned KSI_TLV_getTag(const KSI_TLV *tlv) { return tlv != NULL ? tlv->tag : 0; }
int KSI_AggregationHashChain_new(KSI_CTX *ctx, KSI_AggregationHashChain **out) {
	static struct KSI_AggregationHashChain_st scratch;             /* (no malloc: the call sits inside a loop under a loop contract) */
	if (nondet_bool()) return KSI_OUT_OF_MEMORY;
	__CPROVER_assert(g_lv_chain_live == 0, "at most one scratch chain object is alive");
	g_lv_chain_live++; *out = &scratch; return KSI_OK;
}
void KSI_AggregationHashChain_free(KSI_AggregationHashChain *t) { if (t != NULL && t != &g_d_cur) { g_lv_chain_live--; } }
int KSI_AggregationHashChain_compare(const KSI_AggregationHashChain **l, const KSI_AggregationHashChain **r) { int c = nondet_int(); g_lv_cmp = (c == 0) ? 1 : 2; return c; }
int KSI_TLV_replaceNestedTlv(KSI_TLV *parent, KSI_TLV *oldTlv, KSI_TLV *newTlv) {
	__CPROVER_assert(oldTlv == NULL || g_lv_cmp == 1, "the 0x0801 element that is replaced was identified by comparing its parsed chain with the first chain (not by its position: the aggregator's order of the chains is kept in the base TLV)");
	g_lv.replace_calls++; g_lv.replace_old = oldTlv; g_lv.replace_new = newTlv; g_lv.replace_parent_ok = (parent == &g_d_base);
	g_lv.replace_res = oldTlv == NULL || newTlv == NULL ? KSI_INVALID_ARGUMENT : c11d_status();
	if (g_lv.replace_res == KSI_OK) { g_lv.tlv_live--; free(newTlv); }     /* ownership moves into the parent */
	return g_lv.replace_res;
}
static void c11lv_init(void) {
	memset(&g_lv, 0, sizeof(g_lv)); g_lv_chain_live = 0;
	memset(&g_d_chainlist, 0, sizeof(g_d_chainlist)); memset(&g_lv_tlvlist, 0, sizeof(g_lv_tlvlist)); memset(&g_d_linklist, 0, sizeof(g_d_linklist));
	g_d_chainlist.elementAt = c11lv_chain_elementAt;
	g_d_linklist.elementAt = c11lv_link_elementAt;
	g_lv_tlvlist.length = c11lv_tlv_length; g_lv_tlvlist.elementAt = c11lv_tlv_elementAt;
}
#endif
