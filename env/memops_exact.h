/* Exact, loop-based memcpy / memmove for harness TUs with SMALL buffers of symbolic size (tlv_element.c detach jobs):
 * CBMC's built-in array model of a copy with symbolic length on objects of symbolic size exhausts memory there.
 * #include BEFORE the real .c file: the calls in the real source are redirected by macro; the source text is unchanged.
 * Octet-by-octet semantics of ISO C memmove (overlap handled by direction); memory safety of every access is checked
 * by the ordinary pointer checks of the job, plus r_ok/w_ok for the whole ranges.  The loops are unwound by the job
 * (unwinding assertions make the bound a checked one).  With -DMEMOPS_EXACT_MAX=n a copy of more than n octets must be
 * an in-place move (dst == src, no effect) - asserted, so the bound is a checked one too.            [ASSUMED: libc] */
#ifndef ENV_MEMOPS_EXACT_H
#define ENV_MEMOPS_EXACT_H
#include <string.h>
static void *ksi_ex_memmove(void *dst, const void *src, size_t n) {
	unsigned char *d = dst; const unsigned char *s = src; size_t i;
	__CPROVER_assert(__CPROVER_r_ok(src, n), "memmove/memcpy: source readable for n octets");
	__CPROVER_assert(__CPROVER_w_ok(dst, n), "memmove/memcpy: destination writable for n octets");
	if (n == 0 || d == s) return dst;                   /* in place: nothing moves */
#ifdef MEMOPS_EXACT_MAX
	__CPROVER_assert(n <= MEMOPS_EXACT_MAX, "memmove/memcpy: harness bound - only in-place moves are longer than MEMOPS_EXACT_MAX octets");
	if (n > MEMOPS_EXACT_MAX) return dst;
#endif
	if (!__CPROVER_same_object(d, s) || __CPROVER_POINTER_OFFSET(d) < __CPROVER_POINTER_OFFSET(s)) {
		for (i = 0; i < n; i++) d[i] = s[i];
	} else {
		for (i = n; i > 0; i--) d[i - 1] = s[i - 1];
	}
	return dst;
}
static void *ksi_ex_memcpy(void *dst, const void *src, size_t n) {
	__CPROVER_assert(n == 0 || !__CPROVER_same_object(dst, src) ||
			__CPROVER_POINTER_OFFSET(dst) + n <= __CPROVER_POINTER_OFFSET(src) || __CPROVER_POINTER_OFFSET(src) + n <= __CPROVER_POINTER_OFFSET(dst), "memcpy: regions do not overlap");
	return ksi_ex_memmove(dst, src, n);
}
#define memcpy(d, s, n) ksi_ex_memcpy((d), (s), (n))
#define memmove(d, s, n) ksi_ex_memmove((d), (s), (n))
#define ENV_MEMOPS_EXACT_ASSUMED "memcpy/memmove: exact octet-by-octet loops with ISO C semantics instead of CBMC's built-in array model (env/memops_exact.h)"
#endif
