/* Model of the C stream functions KSI_PublicationsFile_fromFile uses (C18, builderO)  [ASSUMED environment].
 * One stream object; a protocol automaton checks the order open -> seek END -> tell -> seek SET -> read -> close and
 * counts opens / closes.  Every call may fail.  ftell reports an arbitrary long; fread delivers an arbitrary number of
 * octets <= the number asked for and stores arbitrary octets. */
#ifndef ENV_C18_STDIO_H
#define ENV_C18_STDIO_H
#include <stdio.h>
long nondet_long(void);
static char g_file_obj[8];
unsigned g_fopen_calls, g_fclose_calls, g_fread_calls;
int g_fstate;                 /* 0 closed, 1 open, 2 at end, 3 size known, 4 rewound, 5 read */
long g_fsize;                 /* what ftell reported */
void *g_fread_buf; size_t g_fread_size, g_fread_n, g_fread_ret;
const char *g_fopen_name;
_Bool g_io_failed;

FILE *fopen(const char *name, const char *mode) {
	__CPROVER_assert(g_fstate == 0, "stdio: one stream at a time");
	__CPROVER_assert(mode[0] == 'r' && mode[1] == 'b' && mode[2] == 0, "stdio: opened for binary reading");
	g_fopen_name = name;
	if (nondet_bool()) { g_io_failed = 1; return NULL; }
	g_fopen_calls++; g_fstate = 1; return (FILE *)g_file_obj;
}
int fseek(FILE *f, long off, int whence) {
	__CPROVER_assert(f == (FILE *)g_file_obj && g_fstate >= 1, "stdio: seek on the open stream");
	__CPROVER_assert(off == 0 && ((whence == SEEK_END && g_fstate == 1) || (whence == SEEK_SET && g_fstate == 3)), "stdio: seek to the end first, back to the start after the size is known");
	if (nondet_bool()) { g_io_failed = 1; return -1; }
	g_fstate = (whence == SEEK_END) ? 2 : 4; return 0;
}
long ftell(FILE *f) {
	__CPROVER_assert(f == (FILE *)g_file_obj && g_fstate == 2, "stdio: size taken at the end of the stream");
	g_fsize = nondet_long(); g_fstate = 3;
	if (g_fsize < 0) g_io_failed = 1;
	return g_fsize;
}
size_t fread(void *ptr, size_t size, size_t n, FILE *f) {
	size_t r = nondet_size();
	__CPROVER_assert(f == (FILE *)g_file_obj && g_fstate == 4, "stdio: read from the start of the stream");
	__CPROVER_assume(r <= n);
	__CPROVER_assert(size == 1 && __CPROVER_w_ok(ptr, n), "stdio: the buffer holds the octets asked for");
	if (r > 0) __CPROVER_havoc_slice(ptr, r);
	g_fread_calls++; g_fread_buf = ptr; g_fread_size = size; g_fread_n = n; g_fread_ret = r; g_fstate = 5;
	return r;
}
int fclose(FILE *f) {
	__CPROVER_assert(f == (FILE *)g_file_obj && g_fstate >= 1, "stdio: close of the open stream");
	g_fclose_calls++; g_fstate = 0; return 0;
}
#define ENV_C18_STDIO_ASSUMED "fopen/fseek/ftell/fread/fclose: protocol-checking model of one stream (env/c18_stdio.h); every call may fail, ftell reports any long, fread delivers any count <= the count asked for"
#endif
