/* C19 (builderW_sig): environment of publicationsfile.c (KSI_PublicationsFile_parse / _new / _free, generateNextTlv) under
 * ALLOCATION FAILURE.  Everything a callee hands out is a COUNTED funnel block (env/c19_alloc_env.h).            [ASSUMED]
 *   - KSI_TLV_parseBlob2(data, n, ownMemory = 1): KSI_INVALID_ARGUMENT / KSI_INVALID_FORMAT / KSI_OUT_OF_MEMORY (only after
 *     a failed allocation) leaving *tlv AND the buffer alone, or a NEW counted element that decodes the tag from the first
 *     octets and now OWNS the buffer (abstraction of the contract enforced by C09.parseBlob2).  KSI_TLV_free releases the
 *     element and the buffer it owns.
 *   - member destructors (header, certificate list, publication list = KSI_List_free, PKI signature, certificate
 *     constraints hook of the context): release the counted leaf. */
#ifndef ENV_C19_OOM3_PUBFILE_ENV_H
#define ENV_C19_OOM3_PUBFILE_ENV_H
#include "tlv.h"
#include "impl/ctx_impl.h"
struct KSI_TLV_st { KSI_CTX *ctx; unsigned tag; unsigned char *buf; size_t len; };

enum { P_HDR, P_CERTS, P_PUBS, P_SIG, P_CONS, P_N };
static unsigned g_made[P_N], g_freed[P_N];
static void *leaf_new(int k) { void *p = KSI_malloc(1); if (p != NULL) g_made[k]++; return p; }
static void leaf_free(int k, void *p) { if (p != NULL) { g_freed[k]++; KSI_free(p); } }
static _Bool leaves_balanced(void) { return g_made[P_HDR] == g_freed[P_HDR] && g_made[P_CERTS] == g_freed[P_CERTS] && g_made[P_PUBS] == g_freed[P_PUBS] && g_made[P_SIG] == g_freed[P_SIG] && g_made[P_CONS] == g_freed[P_CONS]; }

static unsigned g_tlv_made, g_tlv_freed, g_tlv_parse_calls; static _Bool g_env_rejected;
int KSI_TLV_parseBlob2(KSI_CTX *ctx, unsigned char *data, size_t data_length, int ownMemory, KSI_TLV **tlv) {
	KSI_TLV *t;
	g_tlv_parse_calls++;
	__CPROVER_assert(ownMemory == 1, "generator: the element takes the record buffer over");
	if (ctx == NULL || data == NULL || data_length < 2 || tlv == NULL) return KSI_INVALID_ARGUMENT;
	if (nondet_bool()) { g_env_rejected = 1; return KSI_INVALID_FORMAT; }
	t = KSI_malloc(sizeof(*t));
	if (t == NULL) return KSI_OUT_OF_MEMORY;
	t->ctx = ctx; t->buf = data; t->len = data_length;
	t->tag = (data[0] & 0x80) ? (((unsigned)(data[0] & 0x1f) << 8) | data[1]) : (unsigned)(data[0] & 0x1f);
	g_tlv_made++; *tlv = t; return KSI_OK;
}
void KSI_TLV_free(KSI_TLV *tlv) { if (tlv == NULL) return; g_tlv_freed++; KSI_free(tlv->buf); KSI_free(tlv); }
unsigned KSI_TLV_getTag(const KSI_TLV *tlv) { return tlv->tag; }

void KSI_PublicationsHeader_free(KSI_PublicationsHeader *o) { leaf_free(P_HDR, o); }
void KSI_CertificateRecordList_free(KSI_LIST(KSI_CertificateRecord) *o) { leaf_free(P_CERTS, o); }
void KSI_List_free(KSI_List *o) { leaf_free(P_PUBS, o); }
void KSI_PKISignature_free(KSI_PKISignature *o) { leaf_free(P_SIG, o); }
static void stub_free_constraints(KSI_CertConstraint *arr) { leaf_free(P_CONS, arr); }
#endif
