/* Ghost monitor for INT-16 (KSI_VerificationRule_CalendarChainHashAlgorithmObsoleteAtPubTime, C01) in contract mode:
 * calendar chains of ANY length.  On top of env/ghost_vrule.h:
 *   - the calendar chain's link list is the MODEL LIST g16_list of arbitrary length g16_len; every fetch hands out
 *     g16_link with a fresh arbitrary direction, an imprint that may be absent and an arbitrary algorithm id;
 *   - the stub asserts the protocol (front to back, each link once, none after the verdict is determined) and evaluates the
 *     property's condition for that link: a LEFT link without imprint cannot be judged (g16.na), a LEFT link whose
 *     algorithm was obsolete at the calendar chain's publication time violates INT-16 (g16.fail); right links do not count.
 * ASSUMED: KSI_checkHashAlgorithmAt - the status of algorithm id a at the publication time is the arbitrary, fixed value
 *   g16_status[a] (0 fine, 1 deprecated, 2 obsolete, 3 unknown id); the stub asserts that the rule asks about the calendar
 *   chain's publication time (saturated at 2^63-1).  The table of hash.c (C17.hashalg.*) is one instance of it - in the
 *   current table no algorithm is ever obsolete, so the FAIL branch could not be reached with the real table. */
#ifndef ENV_GHOST_VRULE_CAL16_H
#define ENV_GHOST_VRULE_CAL16_H
#include "env/ghost_vrule.h"

size_t g16_len;                               /* number of calendar links (fixed) */
struct g16_ghost {
	size_t calls;                             /* links handed out so far = index of the next link */
	_Bool fail;                               /* a left link with an obsolete algorithm has been handed out */
	_Bool na;                                 /* a left link without imprint has been handed out */
	_Bool last_left;                          /* direction of the link handed out last */
	_Bool has_imprint;                        /* (audit builderY) the link handed out last has an imprint: decides the pointer value of g16_link.imprint in the replaced contract */
	size_t lefts;                             /* (audit builderY) number of LEFT links handed out so far: lets the harness tell 'at the first left link' from 'at a later one' */
} g16;
KSI_HashChainLink g16_link;
KSI_LIST(KSI_HashChainLink) g16_list;
unsigned char g16_status[256];                /* arbitrary, fixed (never written) */

#define G16_MAX_LIST ((size_t)0x0fffffffffffffffULL)
static long long g16_pubtime(void) { return vr_time_ll(vr_u64(g_vr_cal.publicationTime)); }

int KSI_checkHashAlgorithmAt(KSI_HashAlgorithm algo_id, time_t used_at) {
	__CPROVER_assert(used_at == (time_t)g16_pubtime(), "the algorithm is judged at the calendar chain's publication time");
	__CPROVER_assert(algo_id >= 0 && algo_id < 256, "algorithm id of an imprint (one octet)");
	return (g16_status[algo_id] & 3) == 0 ? KSI_OK : (g16_status[algo_id] & 3) == 1 ? KSI_HASH_ALGORITHM_DEPRECATED :
	       (g16_status[algo_id] & 3) == 2 ? KSI_HASH_ALGORITHM_OBSOLETE : KSI_UNKNOWN_HASH_ALGORITHM_ID;
}

static size_t g16_length(KSI_LIST(KSI_HashChainLink) *l) { return g16_len; }
static int g16_elementAt(KSI_LIST(KSI_HashChainLink) *l, size_t pos, KSI_HashChainLink **o) {
	struct g16_ghost g = g16; _Bool left = nondet_bool(), has = nondet_bool(); unsigned char alg = nondet_uchar();
	__CPROVER_assert(l == &g16_list && o != NULL, "link list of the calendar chain");
	__CPROVER_assert(!g.fail && !g.na, "protocol: no link is fetched after the verdict is determined");
	__CPROVER_assert(pos == g.calls && pos < g16_len, "protocol: the calendar chain is read front to back, each link once");
	g16_link.isLeft = left;
	g16_link.imprint = has ? &g_vr_h[VR_H_LINK] : NULL;
	g_vr_h_alg[VR_H_LINK] = alg;
	if (left) {
		if (!has) g.na = 1;
		else if (spec_alg_obsolete_rule_fails(g16_status[alg] & 3)) g.fail = 1;
	}
	g.last_left = left; g.calls++; if (left) g.lefts++; g.has_imprint = has;
	g16 = g;
	*o = &g16_link;
	return KSI_OK;
}
static void g16_world_init(void) {
	vr_world_init();
	g16_list.length = g16_length; g16_list.elementAt = g16_elementAt;
	g16_len = nondet_size() & G16_MAX_LIST; g16.calls = 0; g16.fail = 0; g16.na = 0; g16.last_left = 0; g16.lefts = 0; g16.has_imprint = 1;
	g16_link.ctx = VR_CTX; g16_link.isLeft = 0; g16_link.levelCorrection = NULL; g16_link.legacyId = NULL; g16_link.metaData = NULL;
	g16_link.imprint = &g_vr_h[VR_H_LINK];
	g_vr_cal.hashChain = VR_OPT(&g16_list);
}
/* verdict the property demands */
static spec_verdict g16_exp(const KSI_VerificationContext *info) {
	if (!VR_INFO_OK(info) || info->signature->calendarChain == NULL || info->signature->calendarChain->hashChain == NULL) return SPEC_VNA;
	if (info->signature->calendarChain->publicationTime == NULL) return SPEC_VANY;       /* mandatory field absent: malformed, no demand */
	if (g16.fail) return SPEC_VFAIL(SPEC_VERR_INT(16));
	if (g16.na) return SPEC_VNA;
	return SPEC_VOK;
}
#endif
