/* Ghost monitor for the reader call-back of fast_tlv.c:readData (DESIGN 3.3; C09 "stream readers consume exactly one
 * element's bytes"; also C14 blocking readers).  The stub IS the byte stream: each call delivers between 0 and `size`
 * arbitrary octets (short reads and errors allowed, like KSI_IO_readFile / KSI_IO_readSocket), counts what was requested
 * and what was delivered, remembers the first four octets delivered, and asserts the call protocol derived from the
 * TLV format (spec/tlv.h): 2 header octets, 2 more iff TLV16, then exactly the declared payload, nothing after a short
 * read or an error, never more than the caller's buffer holds.                                             [ASSUMED]
 * Loop-free (it runs under dfcc instrumentation). */
#ifndef ENV_GHOST_TLVREADER_H
#define ENV_GHOST_TLVREADER_H
#include "spec/tlv.h"

void *g_rd_fd;               /* the descriptor the caller must pass through */
unsigned char *g_rd_buf;     /* the caller's buffer and its size */
size_t g_rd_buf_len;
size_t g_rd_calls;           /* reader calls so far */
size_t g_rd_requested;       /* octets requested so far */
size_t g_rd_total;           /* octets delivered so far == octets taken from the stream */
_Bool g_rd_closed;           /* a short read or an error happened: no further call is allowed */
unsigned char g_rd_hdr[4];   /* first octets delivered */

static int tlvreader_stub(void *fd, unsigned char *dst, size_t size, size_t *rd) {
	size_t n = nondet_size();
	int res = nondet_int();
	__CPROVER_assert(fd == g_rd_fd, "reader protocol: descriptor passed through");
	__CPROVER_assert(!g_rd_closed, "reader protocol: no call after a short read or an error");
	__CPROVER_assert(rd != NULL && size > 0, "reader protocol: count pointer given, non-empty request");
	__CPROVER_assert(size <= g_rd_buf_len - g_rd_requested, "reader protocol: never asks for more than the buffer holds");
	__CPROVER_assert(dst == g_rd_buf + g_rd_requested, "reader protocol: octets are stored contiguously from the start of the buffer");
	if (g_rd_calls == 0) {
		__CPROVER_assert(size == 2, "reader protocol: first request is the 2 octets every header has");
	} else if (g_rd_calls == 1 && spec_tlv_hdr_need(g_rd_hdr[0]) == 4) {
		__CPROVER_assert(size == 2, "reader protocol: TLV16 - second request is the rest of the header");
	} else {
		__CPROVER_assert(g_rd_calls == (spec_tlv_hdr_need(g_rd_hdr[0]) == 4 ? 2 : 1), "reader protocol: at most one payload request");
		__CPROVER_assert(size == spec_tlv_dec_dat_len(g_rd_hdr, 4), "reader protocol: payload request is exactly the declared length");
	}
	if (n > size) n = size;
	if (res != KSI_OK) res = KSI_IO_ERROR;
	__CPROVER_havoc_slice(dst, n);                 /* n arbitrary octets arrive */
	if (g_rd_requested < 4 && n >= 1) g_rd_hdr[g_rd_requested] = dst[0];
	if (g_rd_requested < 3 && n >= 2) g_rd_hdr[g_rd_requested + 1] = dst[1];
	*rd = n;
	g_rd_calls++;
	g_rd_requested += size;
	g_rd_total += n;
	if (n != size || res != KSI_OK) g_rd_closed = 1;
	return res;
}
#endif
