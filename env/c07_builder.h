/* C07 environment for signature_builder.c (updateLevelCorrection / addRootLevel, KSI_SignatureBuilder_openFromAggregationResp,
 * KSI_SignatureBuilder_openFromSignature).  The hash chain, integer, TLV and list services are recording ADT
 * stubs with arbitrary status (assumed); the TLV list is a model list of arbitrary length whose elements are
 * fresh arbitrary TLVs. */
#ifndef ENV_C07_BUILDER_H
#define ENV_C07_BUILDER_H
#include "impl/signature_impl.h"
#include "impl/signature_builder_impl.h"

struct KSI_Integer_st { KSI_uint64_t value; };
struct KSI_HashChainLink_st { KSI_Integer *levelCorrection; };
struct KSI_AggregationHashChain_st { int dummy; };
struct KSI_TLV_st { unsigned tag; };
struct KSI_AggregationResp_st { KSI_CTX *ctx; KSI_TLV *baseTlv; KSI_Integer *status; KSI_AggregationAuthRec *aar; KSI_CalendarAuthRec *car;
	KSI_CalendarHashChain *cal; KSI_LIST(KSI_AggregationHashChain) *chains; };

size_t g_b_tl_len;                          /* length of the model TLV list (changes only through remove) */
size_t g_b_al_len;                          /* length of the response's aggregation chain list */
int g_b_chain_live;                         /* aggregation chain objects made by KSI_AggregationHashChain_new, not yet released (loop frame) */
struct c07b_ghost {
	/* the first link of the first aggregation chain */
	int has_old; KSI_uint64_t old_value;      /* level correction before the call (absent = 0) */
	int set_calls; KSI_uint64_t set_value; int set_res;
	int int_new_calls; int int_live;
	int tlv_live;                             /* TLV objects made by KSI_TLV_new and not yet released / handed over */
	int replace_calls, replace_res; const void *replace_old, *replace_new;
	int construct_calls; const void *construct_payload;
	/* openFromAggregationResp */
	int conv_calls; int conv_res;
	int open_calls, open_res;
	int refs_aar, refs_car, refs_cal, refs_chain, append_calls;
	int tlv_removed, tlv_appended;
	int builder_free_calls; int list_live; int sig_free_calls;
	int clone_calls, clone_res; const void *clone_from;
} g_b;
static struct KSI_AggregationHashChain_st g_b_aggr; static struct KSI_HashChainLink_st g_b_link;
static struct KSI_Integer_st g_b_oldint;
static struct KSI_TLV_st g_b_el;             /* storage of the list element handed out last */
/* KSI lists are structs of function pointers (the typed list functions are macros): concrete list objects whose
 * call-backs are the stubs below; c07b_init_lists() wires them (called by the harness) */
static struct KSI_AggregationHashChain_list_st g_b_chainlist, g_b_newchainlist;
static struct KSI_TLV_list_st g_b_tlvlist;
static struct KSI_HashChainLink_list_st g_b_linklist;

static int c07b_status(void) { return nondet_int(); }

static int c07b_chain_elementAt(KSI_LIST(KSI_AggregationHashChain) *l, size_t pos, KSI_AggregationHashChain **o) {
	int r = c07b_status();
	if (r == KSI_OK) *o = &g_b_aggr;
	return r;
}
static size_t c07b_chain_length(KSI_LIST(KSI_AggregationHashChain) *l) { return g_b_al_len; }
static int c07b_chain_append(KSI_LIST(KSI_AggregationHashChain) *l, KSI_AggregationHashChain *o);
int KSI_AggregationHashChain_getChain(const KSI_AggregationHashChain *aggr, KSI_LIST(KSI_HashChainLink) **chain) {
	int r = c07b_status();
	if (r == KSI_OK) *chain = &g_b_linklist;
	return r;
}
static int c07b_link_elementAt(KSI_LIST(KSI_HashChainLink) *l, size_t pos, KSI_HashChainLink **o) {
	int r = c07b_status();
	__CPROVER_assert(pos == 0, "the FIRST link of the chain is asked for");
	if (r == KSI_OK) *o = &g_b_link;
	return r;
}
int KSI_HashChainLink_getLevelCorrection(const KSI_HashChainLink *t, KSI_Integer **v) { if (t == NULL || v == NULL) return KSI_INVALID_ARGUMENT; *v = t->levelCorrection; return KSI_OK; }
int KSI_HashChainLink_setLevelCorrection(KSI_HashChainLink *t, KSI_Integer *v) {
	g_b.set_calls++; g_b.set_res = c07b_status();
	if (t == NULL) g_b.set_res = KSI_INVALID_ARGUMENT;
	if (g_b.set_res == KSI_OK) { t->levelCorrection = v; g_b.set_value = v != NULL ? v->value : 0; }
	return g_b.set_res;
}
KSI_uint64_t KSI_Integer_getUInt64(const KSI_Integer *o) { return o != NULL ? o->value : 0; }
int KSI_Integer_new(KSI_CTX *ctx, KSI_uint64_t v, KSI_Integer **o) {
	KSI_Integer *t;
	g_b.int_new_calls++;
	if (nondet_bool()) return KSI_OUT_OF_MEMORY;
	t = malloc(sizeof(*t)); if (t == NULL) return KSI_OUT_OF_MEMORY;
	t->value = v; g_b.int_live++; *o = t; return KSI_OK;
}
void KSI_Integer_free(KSI_Integer *o) { if (o != NULL) { g_b.int_live--; if (o != &g_b_oldint) free(o); } }

int KSI_TLV_new(KSI_CTX *ctx, unsigned tag, int isLenient, int isForward, KSI_TLV **tlv) {
	KSI_TLV *t;
	if (nondet_bool()) return KSI_OUT_OF_MEMORY;
	t = malloc(sizeof(*t)); if (t == NULL) return KSI_OUT_OF_MEMORY;
	t->tag = tag; g_b.tlv_live++; *tlv = t; return KSI_OK;
}
void KSI_TLV_free(KSI_TLV *t) { if (t != NULL) { g_b.tlv_live--; free(t); } }
int KSI_TlvTemplate_construct(KSI_CTX *ctx, KSI_TLV *tlv, const void *payload, const KSI_TlvTemplate *tmpl) { g_b.construct_calls++; g_b.construct_payload = payload; return c07b_status(); }
int KSI_TlvTemplate_extract(KSI_CTX *ctx, void *payload, KSI_TLV *tlv, const KSI_TlvTemplate *tmpl) { return c07b_status(); }
int KSI_TLV_getNestedList(KSI_TLV *tlv, KSI_LIST(KSI_TLV) **list) { int r = c07b_status(); if (r == KSI_OK) *list = &g_b_tlvlist; return r; }
static size_t c07b_tlv_length(KSI_LIST(KSI_TLV) *l) { return g_b_tl_len; }
static int c07b_tlv_remove(KSI_LIST(KSI_TLV) *l, size_t pos, KSI_TLV **o) {
	int r = c07b_status();
	__CPROVER_assert(pos < g_b_tl_len, "protocol: no removal beyond the TLV list");
	if (r == KSI_OK) { g_b_tl_len--; if (o != NULL) *o = &g_b_el; }
	return r;
}
static int c07b_tlv_elementAt(KSI_LIST(KSI_TLV) *l, size_t pos, KSI_TLV **o) {
	int r = c07b_status();
	__CPROVER_assert(pos < g_b_tl_len, "protocol: no fetch beyond the TLV list");
	if (r == KSI_OK) { g_b_el.tag = nondet_uint(); *o = &g_b_el; }
	return r;
}
unsigned KSI_TLV_getTag(const KSI_TLV *tlv) { return tlv != NULL ? tlv->tag : 0; }
int KSI_AggregationHashChain_new(KSI_CTX *ctx, KSI_AggregationHashChain **out) {
	/* (no malloc: the call sits inside a loop under a loop contract) one scratch object, counted */
	static struct KSI_AggregationHashChain_st scratch;
	if (nondet_bool()) return KSI_OUT_OF_MEMORY;
	__CPROVER_assert(g_b_chain_live == 0, "at most one scratch chain object is alive");
	g_b_chain_live++; *out = &scratch; return KSI_OK;
}
void KSI_AggregationHashChain_free(KSI_AggregationHashChain *t) { if (t != NULL && t != &g_b_aggr) { g_b_chain_live--; } }
int KSI_AggregationHashChain_compare(const KSI_AggregationHashChain **l, const KSI_AggregationHashChain **r) { return nondet_int(); }
int KSI_TLV_replaceNestedTlv(KSI_TLV *parent, KSI_TLV *oldTlv, KSI_TLV *newTlv) {
	g_b.replace_calls++; g_b.replace_old = oldTlv; g_b.replace_new = newTlv; g_b.replace_res = c07b_status();
	if (g_b.replace_res == KSI_OK && newTlv != NULL) { g_b.tlv_live--; free(newTlv); }     /* ownership moves into the parent */
	return g_b.replace_res;
}
/* ---- KSI_SignatureBuilder_openFromAggregationResp / openFromSignature ---- */
struct c07b_loop_ghost { size_t append_calls, refs_chain, tlv_appended; } g_bl;   /* touched inside the two copy loops */
KSI_CTX *KSI_AggregationResp_getCtx(const KSI_AggregationResp *r) { return r != NULL ? r->ctx : NULL; }
int KSI_AggregationResp_getBaseTlv(const KSI_AggregationResp *r, KSI_TLV **v) { if (r == NULL || v == NULL) return KSI_INVALID_ARGUMENT; *v = r->baseTlv; return KSI_OK; }
int KSI_AggregationResp_getStatus(const KSI_AggregationResp *r, KSI_Integer **v) { if (r == NULL || v == NULL) return KSI_INVALID_ARGUMENT; *v = r->status; return KSI_OK; }
int KSI_AggregationResp_getErrorMsg(const KSI_AggregationResp *r, KSI_Utf8String **v) { if (r == NULL || v == NULL) return KSI_INVALID_ARGUMENT; *v = NULL; return KSI_OK; }
int KSI_AggregationResp_getAggregationAuthRec(const KSI_AggregationResp *r, KSI_AggregationAuthRec **v) { int s = c07b_status(); if (s == KSI_OK) *v = r->aar; return s; }
int KSI_AggregationResp_getCalendarAuthRec(const KSI_AggregationResp *r, KSI_CalendarAuthRec **v) { int s = c07b_status(); if (s == KSI_OK) *v = r->car; return s; }
int KSI_AggregationResp_getCalendarChain(const KSI_AggregationResp *r, KSI_CalendarHashChain **v) { int s = c07b_status(); if (s == KSI_OK) *v = r->cal; return s; }
int KSI_AggregationResp_getAggregationChainList(const KSI_AggregationResp *r, KSI_LIST(KSI_AggregationHashChain) **v) { int s = c07b_status(); if (s == KSI_OK) *v = r->chains; return s; }
KSI_AggregationAuthRec *KSI_AggregationAuthRec_ref(KSI_AggregationAuthRec *o) { if (o != NULL) g_b.refs_aar++; return o; }
KSI_CalendarAuthRec *KSI_CalendarAuthRec_ref(KSI_CalendarAuthRec *o) { if (o != NULL) g_b.refs_car++; return o; }
KSI_CalendarHashChain *KSI_CalendarHashChain_ref(KSI_CalendarHashChain *o) { if (o != NULL) g_b.refs_cal++; return o; }
KSI_AggregationHashChain *KSI_AggregationHashChain_ref(KSI_AggregationHashChain *o) { if (o != NULL) g_bl.refs_chain++; return o; }
int KSI_AggregationHashChainList_new(KSI_LIST(KSI_AggregationHashChain) **l) { int s = c07b_status(); if (s == KSI_OK) { g_b.list_live++; *l = &g_b_newchainlist; } return s; }
void KSI_AggregationHashChainList_free(KSI_LIST(KSI_AggregationHashChain) *l) { if (l != NULL) g_b.list_live--; }
int KSI_TLV_clone(const KSI_TLV *tlv, KSI_TLV **clone) { KSI_TLV *t; if (nondet_bool()) return KSI_OUT_OF_MEMORY; t = malloc(sizeof(*t)); if (t == NULL) return KSI_OUT_OF_MEMORY; t->tag = tlv != NULL ? tlv->tag : 0; g_b.tlv_live++; *clone = t; return KSI_OK; }
int KSI_TLV_appendNestedTlv(KSI_TLV *target, KSI_TLV *tlv) { return c07b_status(); }
int KSI_VerificationResult_init(KSI_VerificationResult *info, KSI_CTX *ctx) { return c07b_status(); }
void KSI_Signature_free(KSI_Signature *sig) { if (sig != NULL) { g_b.sig_free_calls++; if (sig->baseTlv != NULL) KSI_TLV_free(sig->baseTlv); free(sig); } }
size_t KSI_snprintf(char *buf, size_t n, const char *format, ...) { return 0; }
const char *KSI_Utf8String_cstr(const KSI_Utf8String *o) { return "msg"; }
/* KSI_Signature_clone (signature.c:1015): arbitrary status; on OK a fresh object distinct from the source */
int KSI_Signature_clone(const KSI_Signature *sig, KSI_Signature **clone) {
	KSI_Signature *t;
	g_b.clone_calls++; g_b.clone_from = sig; g_b.clone_res = c07b_status();
	if (g_b.clone_res != KSI_OK) return g_b.clone_res;
	t = malloc(sizeof(*t)); if (t == NULL) return g_b.clone_res = KSI_OUT_OF_MEMORY;
	t->baseTlv = NULL; *clone = t; return KSI_OK;
}

static int c07b_chain_append(KSI_LIST(KSI_AggregationHashChain) *l, KSI_AggregationHashChain *o) { g_bl.append_calls++; return c07b_status(); }
static void c07b_init_lists(void) {
	memset(&g_b_chainlist, 0, sizeof(g_b_chainlist)); memset(&g_b_newchainlist, 0, sizeof(g_b_newchainlist));
	memset(&g_b_tlvlist, 0, sizeof(g_b_tlvlist)); memset(&g_b_linklist, 0, sizeof(g_b_linklist));
	g_b_chainlist.elementAt = c07b_chain_elementAt; g_b_chainlist.length = c07b_chain_length;
	g_b_newchainlist.append = c07b_chain_append;
	g_b_linklist.elementAt = c07b_link_elementAt;
	g_b_tlvlist.length = c07b_tlv_length; g_b_tlvlist.elementAt = c07b_tlv_elementAt; g_b_tlvlist.removeElement = c07b_tlv_remove;
}
#endif
