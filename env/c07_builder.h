/* C07 environment for signature_builder.c (updateLevelCorrection / addRootLevel, KSI_SignatureBuilder_openFromAggregationResp,
 * KSI_SignatureBuilder_openFromSignature).  The hash chain, integer, TLV and list services are recording ADT
 * stubs with arbitrary status (assumed); the TLV list is a model list of arbitrary length whose elements are
 * fresh arbitrary TLVs. */
#ifndef ENV_C07_BUILDER_H
#define ENV_C07_BUILDER_H
#include "impl/signature_impl.h"
#include "impl/signature_builder_impl.h"

struct KSI_Integer_st { KSI_uint64_t value; };
struct KSI_HashChainLink_st { KSI_Integer *levelCorrection; };
struct KSI_AggregationHashChain_st { int dummy; };
struct KSI_TLV_st { unsigned tag; };
struct KSI_AggregationResp_st { KSI_CTX *ctx; KSI_TLV *baseTlv; KSI_Integer *status; KSI_AggregationAuthRec *aar; KSI_CalendarAuthRec *car;
	KSI_CalendarHashChain *cal; KSI_LIST(KSI_AggregationHashChain) *chains; };

size_t g_b_tl_len;                          /* length of the model TLV list (changes only through remove) */
size_t g_b_al_len;                          /* length of the response's aggregation chain list */
int g_b_chain_live;                         /* aggregation chain objects made by KSI_AggregationHashChain_new, not yet released (loop frame) */
struct c07b_ghost {
	/* the first link of the first aggregation chain */
	int has_old; KSI_uint64_t old_value;      /* level correction before the call (absent = 0) */
	int set_calls; KSI_uint64_t set_value; int set_res;
	int int_new_calls; int int_live;
	int tlv_live;                             /* TLV objects made by KSI_TLV_new and not yet released / handed over */
	int replace_calls, replace_res; const void *replace_old, *replace_new;
	int construct_calls; const void *construct_payload;
	/* openFromAggregationResp */
	int conv_calls; int conv_res;
	int open_calls, open_res;
	int refs_aar, refs_car, refs_cal, refs_chain, append_calls;
	int tlv_removed, tlv_appended;
	int builder_free_calls; int list_live;
	int clone_calls, clone_res; const void *clone_from;
} g_b;
static struct KSI_AggregationHashChain_st g_b_aggr; static struct KSI_HashChainLink_st g_b_link;
static struct KSI_Integer_st g_b_oldint;
static struct KSI_TLV_st g_b_el;             /* storage of the list element handed out last */
static char g_b_chainlist, g_b_tlvlist, g_b_linklist;

static int c07b_status(void) { return nondet_int(); }

int KSI_AggregationHashChainList_elementAt(KSI_LIST(KSI_AggregationHashChain) *l, size_t pos, KSI_AggregationHashChain **o) {
	int r = c07b_status();
	if (r == KSI_OK) *o = &g_b_aggr;
	return r;
}
int KSI_AggregationHashChain_getChain(const KSI_AggregationHashChain *aggr, KSI_LIST(KSI_HashChainLink) **chain) {
	int r = c07b_status();
	if (r == KSI_OK) *chain = (void *)&g_b_linklist;
	return r;
}
int KSI_HashChainLinkList_elementAt(KSI_LIST(KSI_HashChainLink) *l, size_t pos, KSI_HashChainLink **o) {
	int r = c07b_status();
	__CPROVER_assert(pos == 0, "the FIRST link of the chain is asked for");
	if (r == KSI_OK) *o = &g_b_link;
	return r;
}
int KSI_HashChainLink_getLevelCorrection(const KSI_HashChainLink *t, KSI_Integer **v) { if (t == NULL || v == NULL) return KSI_INVALID_ARGUMENT; *v = t->levelCorrection; return KSI_OK; }
int KSI_HashChainLink_setLevelCorrection(KSI_HashChainLink *t, KSI_Integer *v) {
	g_b.set_calls++; g_b.set_res = c07b_status();
	if (t == NULL) g_b.set_res = KSI_INVALID_ARGUMENT;
	if (g_b.set_res == KSI_OK) { t->levelCorrection = v; g_b.set_value = v != NULL ? v->value : 0; }
	return g_b.set_res;
}
KSI_uint64_t KSI_Integer_getUInt64(const KSI_Integer *o) { return o != NULL ? o->value : 0; }
int KSI_Integer_new(KSI_CTX *ctx, KSI_uint64_t v, KSI_Integer **o) {
	KSI_Integer *t;
	g_b.int_new_calls++;
	if (nondet_bool()) return KSI_OUT_OF_MEMORY;
	t = malloc(sizeof(*t)); if (t == NULL) return KSI_OUT_OF_MEMORY;
	t->value = v; g_b.int_live++; *o = t; return KSI_OK;
}
void KSI_Integer_free(KSI_Integer *o) { if (o != NULL) { g_b.int_live--; if (o != &g_b_oldint) free(o); } }

int KSI_TLV_new(KSI_CTX *ctx, unsigned tag, int isLenient, int isForward, KSI_TLV **tlv) {
	KSI_TLV *t;
	if (nondet_bool()) return KSI_OUT_OF_MEMORY;
	t = malloc(sizeof(*t)); if (t == NULL) return KSI_OUT_OF_MEMORY;
	t->tag = tag; g_b.tlv_live++; *tlv = t; return KSI_OK;
}
void KSI_TLV_free(KSI_TLV *t) { if (t != NULL) { g_b.tlv_live--; free(t); } }
int KSI_TlvTemplate_construct(KSI_CTX *ctx, KSI_TLV *tlv, const void *payload, const KSI_TlvTemplate *tmpl) { g_b.construct_calls++; g_b.construct_payload = payload; return c07b_status(); }
int KSI_TlvTemplate_extract(KSI_CTX *ctx, void *payload, KSI_TLV *tlv, const KSI_TlvTemplate *tmpl) { return c07b_status(); }
int KSI_TLV_getNestedList(KSI_TLV *tlv, KSI_LIST(KSI_TLV) **list) { int r = c07b_status(); if (r == KSI_OK) *list = (void *)&g_b_tlvlist; return r; }
size_t KSI_TLVList_length(KSI_LIST(KSI_TLV) *l) { return g_b_tl_len; }
int KSI_TLVList_elementAt(KSI_LIST(KSI_TLV) *l, size_t pos, KSI_TLV **o) {
	int r = c07b_status();
	__CPROVER_assert(pos < g_b_tl_len, "protocol: no fetch beyond the TLV list");
	if (r == KSI_OK) { g_b_el.tag = nondet_uint(); *o = &g_b_el; }
	return r;
}
unsigned KSI_TLV_getTag(const KSI_TLV *tlv) { return tlv != NULL ? tlv->tag : 0; }
int KSI_AggregationHashChain_new(KSI_CTX *ctx, KSI_AggregationHashChain **out) {
	KSI_AggregationHashChain *t;
	if (nondet_bool()) return KSI_OUT_OF_MEMORY;
	t = malloc(sizeof(*t)); if (t == NULL) return KSI_OUT_OF_MEMORY;
	g_b_chain_live++; *out = t; return KSI_OK;
}
void KSI_AggregationHashChain_free(KSI_AggregationHashChain *t) { if (t != NULL && t != &g_b_aggr) { g_b_chain_live--; free(t); } }
int KSI_AggregationHashChain_compare(const KSI_AggregationHashChain **l, const KSI_AggregationHashChain **r) { return nondet_int(); }
int KSI_TLV_replaceNestedTlv(KSI_TLV *parent, KSI_TLV *oldTlv, KSI_TLV *newTlv) {
	g_b.replace_calls++; g_b.replace_old = oldTlv; g_b.replace_new = newTlv; g_b.replace_res = c07b_status();
	if (g_b.replace_res == KSI_OK && newTlv != NULL) { g_b.tlv_live--; free(newTlv); }     /* ownership moves into the parent */
	return g_b.replace_res;
}
#endif
