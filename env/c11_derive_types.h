/* builderR - C11 "derived signatures": model types, ghost state and model objects shared by the signature_builder.c jobs
 * (appendAggregationChain, updateLevelCorrection with add/sub, KSI_SignatureBuilder_appendAggregationChain,
 * KSI_SignatureBuilder_createSignatureWithAggregationChain).  No function bodies here: the recording stubs are in
 * env/c11_derive_append.h and env/c11_derive_level.h; jobs that REPLACE the two statics by their contracts need only this file.
 * The hash chain / integer / TLV / list services are ADT models (assumed); lists are array views of arbitrary length. */
#ifndef ENV_C11_DERIVE_TYPES_H
#define ENV_C11_DERIVE_TYPES_H
#include "impl/signature_impl.h"
#include "impl/signature_builder_impl.h"
#include "tlv_template.h"

struct KSI_Integer_st { KSI_uint64_t value; size_t pos; };       /* pos: position in the list the element was fetched from */
struct KSI_HashChainLink_st { KSI_Integer *levelCorrection; };
struct KSI_AggregationHashChain_st { KSI_Integer *aggregationTime; KSI_LIST(KSI_Integer) *chainIndex; KSI_LIST(KSI_HashChainLink) *chain; };
struct KSI_TLV_st { unsigned tag; };
KSI_IMPORT_TLV_TEMPLATE(KSI_AggregationHashChain);

static int c11d_status(void) { return nondet_int(); }

/* ---------------- appendAggregationChain ---------------- */
/* inputs chosen by the harness, never written by the code */
struct c11d_inputs {
	size_t links;            /* number of links of the chain that is prepended */
	size_t nchains;          /* aggregation chains in the signature before the call */
	size_t cur_len;          /* length of the chain index of the signature's first chain (0 when it has none) */
	_Bool had_index;         /* the prepended chain already carries a chain index */
	size_t own_len;          /* ... of this length */
	KSI_uint64_t shape_val;  /* its shape (KSI_AggregationHashChain_calculateShape) */
	KSI_Integer *time_p;     /* signing time of the signature (may be absent) */
	KSI_AggregationHashChain *first_p;   /* first chain of the signature (the list may hold NULL) */
} g_di;
/* touched inside the index-copy loop */
struct c11d_loop_ghost { size_t inserted; size_t idx_refs; } g_dl;
struct c11d_ghost {
	int getchain_calls, getchain_res;
	int signtime_calls, signtime_res; const void *signtime_sig;
	int settime_calls, settime_res; const void *settime_val; int time_refs;
	int idxlist_new_calls, idxlist_live; int shape_calls, shape_res; int int_new_calls, shape_live; int idx_append_calls; _Bool idx_append_ok, new_idx_has_shape;
	int setidx_calls, setidx_res;
	int chain_insert_calls, chain_insert_res; size_t chain_insert_pos; const void *chain_insert_el; _Bool chain_insert_list_ok, chain_insert_after_idx; int aggr_refs;
	int tlv_new_calls; unsigned tlv_new_tag; _Bool tlv_flags_ok; int tlv_live; struct KSI_TLV_st *new_tlv;
	int construct_calls, construct_res; _Bool construct_args_ok, construct_state_ok; const KSI_TlvTemplate *construct_tmpl;
	int tlvappend_calls, tlvappend_res; _Bool tlvappend_args_ok;
} g_d;
static struct KSI_Signature_st g_d_sig;                          /* the signature that is modified (a clone, in the callers) */
static struct KSI_AggregationHashChain_st g_d_aggr, g_d_cur;     /* the chain that is prepended; the signature's first chain */
static struct KSI_Integer_st g_d_signtime, g_d_el, g_d_shape;
static KSI_LIST(KSI_Integer) g_d_aggr_idx, g_d_new_idx, g_d_cur_idx;
static KSI_LIST(KSI_HashChainLink) g_d_linklist;
static KSI_LIST(KSI_AggregationHashChain) g_d_chainlist;
static struct KSI_TLV_st g_d_base;
static KSI_CTX g_d_ctx;

/* ---------------- updateLevelCorrection (add / sub) ---------------- */
size_t g_lv_tl_len;                         /* length of the model TLV list of the base TLV */
int g_lv_chain_live;                        /* scratch chain objects made inside the search loop */
struct c11lv_ghost {
	_Bool is_sub;                             /* direction chosen by the harness */
	int has_old; KSI_uint64_t old_value;      /* level correction of the first link of the first chain before the call (absent = 0) */
	_Bool calc_reached;                       /* the old correction was read (all fetches before it succeeded) */
	int set_calls; KSI_uint64_t set_value; int set_res;
	int int_new_calls; int int_live; int tlv_live;
	int replace_calls, replace_res; const void *replace_old, *replace_new; _Bool replace_parent_ok;
	int construct_calls; const void *construct_payload; const KSI_TlvTemplate *construct_tmpl; unsigned new_tag;
} g_lv;
static struct KSI_HashChainLink_st g_lv_link; static struct KSI_Integer_st g_lv_oldint; static struct KSI_TLV_st g_lv_el;
static int g_lv_cmp;      /* 0: the TLV element fetched last has not been compared, 1: its parsed chain compared EQUAL to the first chain, 2: compared different */
static KSI_LIST(KSI_TLV) g_lv_tlvlist;

/* ---------------- KSI_SignatureBuilder_appendAggregationChain / createSignatureWithAggregationChain ---------------- */
struct c11b_ghost {
	int aggregate_calls, aggregate_res; const void *aggregate_chain; int aggregate_start; int aggregate_level; _Bool aggregate_no_root;
	/* records made by the REPLACED contracts of the two statics */
	int level_calls; const void *level_sig; KSI_uint64_t level_arg; _Bool level_is_sub; int level_res;
	int append_calls; const void *append_sig, *append_aggr; int append_res; _Bool append_after_level;
	/* createSignatureWithAggregationChain */
	int open_calls, open_res; const void *open_from; struct KSI_SignatureBuilder_st *tmp_builder; struct KSI_Signature_st *clone;
	int bappend_calls, bappend_res; const void *bappend_builder, *bappend_aggr; _Bool bappend_start_ok;
	int close_calls, close_res; const void *close_builder; KSI_uint64_t close_level; _Bool close_after_append;
	int bfree_calls; _Bool bfree_ok; int sig_free_calls; int clone_live;
} g_bd;
/* argument records of REPLACED calls (written only by the recording clauses that a contract gets when it is used with
 * --replace-call-with-contract, see contracts/signature_builder_derive.h; the precondition calls == 0 makes a second call fail) */
struct c11rc_level { int calls; const void *sig; KSI_uint64_t arg; int res; } g_rc_lv;
struct c11rc_append { int calls; const void *sig, *aggr; int res; int level_calls_before; } g_rc_ap;
struct c11rc_bappend { int calls; const void *builder, *aggr; KSI_uint64_t start; int res; } g_rc_ba;
struct c11rc_open { int calls; const void *from; int res; } g_rc_op;
struct c11cl_ghost { int close_calls, close_res; const void *close_builder; KSI_uint64_t close_level; _Bool close_after_append; } g_cl;   /* replaced KSI_SignatureBuilder_close */
struct c11cn_ghost { int clone_calls, clone_res; const void *clone_from; int clone_live; int sig_free_calls; _Bool foreign_free; } g_cn;       /* KSI_Signature_clone / _free stubs */
static struct KSI_SignatureBuilder_st g_src_builder; static struct KSI_Signature_st g_src_sig;   /* the SOURCE builder and its signature (createSignatureWith...) */
static struct KSI_SignatureBuilder_st g_d_builder;              /* the builder under test / the temporary builder made by openFromSignature */
#endif
