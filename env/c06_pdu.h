/* C06 environment for the PDU-HMAC functions of types.c.
 *
 * Assumed callees (stubs, hash.c is NOT included):
 *   KSI_DataHash_getHashAlg  = textually the body of hash.c:516 (reads imprint[0])
 *   KSI_DataHash_equals      = an arbitrary relation that is false on NULL and true on identical pointers;
 *                              its arguments and its verdict are recorded
 *   KSI_DataHash_free        = records what is released (protocol: only the computed MAC, exactly once)
 *   KSI_getHashAlgorithmName = only used for log text
 * Call-back (legitimately supplied by the caller of pdu_verifyHmac): c06_calc - records (pdu, algorithm, key),
 * returns an arbitrary status and, on KSI_OK, an arbitrary fresh hash object (or NULL).
 */
#ifndef ENV_C06_PDU_H
#define ENV_C06_PDU_H
#include "impl/hash_impl.h"

typedef int (*c06_calc_fn)(const void*, int, const char*, KSI_DataHash**);
#ifdef C06_ENCLOSE
struct c06_enclose_ghost { int trusted_calls, trusted_alg, trusted; int zero_calls, zero_alg, zero_res; KSI_DataHash *zero; int zero_free, mac_free, other_free;
	int pdu_free_calls; const void *pdu_free_hdr, *pdu_free_req; const KSI_DataHash *pdu_free_mac; int req_free_calls; const void *req_freed; } g_en;
#endif
/* ---- ghost state of pdu_verifyHmac ---- */
int g_vh_calc_calls;                 /* number of calls of the call-back */
const void *g_vh_calc_pdu;           /* its arguments */
int g_vh_calc_alg;
const char *g_vh_calc_key;
int g_vh_calc_res;                   /* its verdict */
KSI_DataHash *g_vh_calc_out;         /* the object it handed out (NULL if none) */
int g_vh_eq_calls;                   /* KSI_DataHash_equals */
const KSI_DataHash *g_vh_eq_l, *g_vh_eq_r;
int g_vh_eq_res;
int g_vh_free_calls;                 /* non-NULL releases */
int g_vh_free_foreign;               /* a release of anything but the computed MAC */

static int c06_calc(const void *pdu, int alg, const char *key, KSI_DataHash **out) {
	g_vh_calc_calls++;
	g_vh_calc_pdu = pdu; g_vh_calc_alg = alg; g_vh_calc_key = key;
	g_vh_calc_res = nondet_int();
	if (g_vh_calc_res == KSI_OK && nondet_bool()) {
		KSI_DataHash *h = malloc(sizeof(KSI_DataHash));
		if (h == NULL) { g_vh_calc_res = KSI_OUT_OF_MEMORY; return g_vh_calc_res; }
		h->ref = 1;
		g_vh_calc_out = h;
		*out = h;
	}
	return g_vh_calc_res;
}

int KSI_DataHash_getHashAlg(const KSI_DataHash *hash, KSI_HashAlgorithm *algo_id) {
	if (hash == NULL) return KSI_INVALID_ARGUMENT;
	if (algo_id == NULL) return KSI_INVALID_ARGUMENT;
	*algo_id = hash->imprint[0];
	return KSI_OK;
}

int KSI_DataHash_equals(const KSI_DataHash *left, const KSI_DataHash *right) {
	g_vh_eq_calls++;
	g_vh_eq_l = left; g_vh_eq_r = right;
	if (left == NULL || right == NULL) g_vh_eq_res = 0;
	else if (left == right) g_vh_eq_res = 1;
	else g_vh_eq_res = nondet_bool();
	return g_vh_eq_res;
}

const char *KSI_getHashAlgorithmName(KSI_HashAlgorithm id) { return "alg"; }

/* ---- ghost state of the MAC computation (KSI_*Pdu_calculateHmac, pdu_calculateHmac, pdu_calculateHmac_v2) ---- */
/* (one struct, so that the frame condition of the contracts is a single target: dfcc's cost grows with the
 *  number of assigns targets times the number of assignments) */
#ifndef C06_SER_MAX
#define C06_SHADOW 1
#else
#define C06_SHADOW C06_SER_MAX
#endif
struct c06_calc_ghost {
	int ser_calls;                     /* KSI_TlvTemplate_serializeObject */
	const void *ser_obj[2]; unsigned ser_tag[2]; const KSI_TlvTemplate *ser_tmpl[2]; int ser_res[2];
	unsigned char *ser_buf[2]; size_t ser_len[2];
	unsigned char ser_shadow[2][C06_SHADOW];   /* copy of the serialized bytes (bounded v1 jobs only) */
	int hl_calls; int hl_alg;          /* KSI_getHashLength (returns the arbitrary but fixed g_hl) */
	int mac_calls;                     /* KSI_HMAC_create */
	KSI_CTX *mac_ctx; int mac_alg; const char *mac_key; const unsigned char *mac_data; size_t mac_len;
	int mac_res; KSI_DataHash *mac_out;
	unsigned char mac_wit_byte; int mac_wit_valid;   /* byte of the MAC input seen at the witness index */
	/* arguments of KSI_*Pdu_calculateHmac and the MAC element the PDU held at that moment (recorded through the contract:
	 * preset by the enforcing harness, set by a replaced call) */
	const void *call_t; int call_alg; const char *call_key; const KSI_DataHash *call_placeholder;
} g_c06;
unsigned g_hl;                         /* inputs chosen by the harness */
size_t g_mac_wit;
#define g_ser_calls g_c06.ser_calls
#define g_ser_obj g_c06.ser_obj
#define g_ser_tag g_c06.ser_tag
#define g_ser_tmpl g_c06.ser_tmpl
#define g_ser_res g_c06.ser_res
#define g_ser_buf g_c06.ser_buf
#define g_ser_len g_c06.ser_len
#define g_ser_shadow g_c06.ser_shadow
#define g_hl_calls g_c06.hl_calls
#define g_hl_alg g_c06.hl_alg
#define g_mac_calls g_c06.mac_calls
#define g_mac_ctx g_c06.mac_ctx
#define g_mac_alg g_c06.mac_alg
#define g_mac_key g_c06.mac_key
#define g_mac_data g_c06.mac_data
#define g_mac_len g_c06.mac_len
#define g_mac_res g_c06.mac_res
#define g_mac_out g_c06.mac_out
#define g_mac_wit_byte g_c06.mac_wit_byte
#define g_mac_wit_valid g_c06.mac_wit_valid

void KSI_DataHash_free(KSI_DataHash *hsh) {
	if (hsh == NULL) return;
#ifdef C06_ENCLOSE
	if (hsh == g_en.zero) g_en.zero_free++; else if (hsh == g_mac_out) g_en.mac_free++; else g_en.other_free++;
	return;
#endif
	g_vh_free_calls++;
	if (hsh != g_vh_calc_out) { g_vh_free_foreign = 1; return; }
	free(hsh);
}

#ifdef C06_CALC_STUBS
int KSI_TlvTemplate_serializeObject(KSI_CTX *ctx, const void *obj, unsigned tag, int isNc, int isFwd,
		const KSI_TlvTemplate *tmpl, unsigned char **raw, size_t *raw_len) {
	int n = g_ser_calls;
	__CPROVER_assert(n < 2, "protocol: at most two serializations (header, payload)");
	__CPROVER_assert(isNc == 0 && isFwd == 0, "protocol: PDU elements are serialized critical, non-forward");
	g_ser_calls++;
	g_ser_obj[n] = obj; g_ser_tag[n] = tag; g_ser_tmpl[n] = tmpl;
	g_ser_res[n] = nondet_int();
	if (g_ser_res[n] == KSI_OK) {
		size_t l = nondet_size();
#ifdef C06_SER_MAX
		__CPROVER_assume(l <= C06_SER_MAX);      /* stated bound of the bounded v1 job */
#endif
		unsigned char *b = malloc(l);
		if (b == NULL) { g_ser_res[n] = KSI_OUT_OF_MEMORY; return g_ser_res[n]; }
		g_ser_buf[n] = b; g_ser_len[n] = l;
#ifdef C06_SER_MAX
#define C06_SH(i) if ((i) < C06_SER_MAX && (i) < l) g_ser_shadow[n][(i) < C06_SER_MAX ? (i) : 0] = b[i];
		C06_SH(0) C06_SH(1) C06_SH(2) C06_SH(3) C06_SH(4) C06_SH(5) C06_SH(6) C06_SH(7)
#if C06_SER_MAX > 8
#error "extend the shadow copy"
#endif
#endif
		*raw = b; *raw_len = l;
	}
	return g_ser_res[n];
}

unsigned int KSI_getHashLength(KSI_HashAlgorithm algo_id) {
	g_hl_calls++; g_hl_alg = algo_id;
	return g_hl;
}

int KSI_HMAC_create(KSI_CTX *ctx, KSI_HashAlgorithm algo_id, const char *key, const unsigned char *data, size_t data_len, KSI_DataHash **hmac) {
	g_mac_calls++;
	g_mac_ctx = ctx; g_mac_alg = algo_id; g_mac_key = key; g_mac_data = data; g_mac_len = data_len;
#ifdef C06_SER_MAX
	if (g_mac_wit < data_len && data_len <= 2 * C06_SER_MAX) { g_mac_wit_byte = data[g_mac_wit]; g_mac_wit_valid = 1; }
#endif
	g_mac_res = nondet_int();
	if (g_mac_res == KSI_OK) {
		KSI_DataHash *h = malloc(sizeof(KSI_DataHash));
		if (h == NULL) { g_mac_res = KSI_OUT_OF_MEMORY; return g_mac_res; }
		h->ref = 1;
		g_mac_out = h;
		*hmac = h;
	}
	return g_mac_res;
}
#endif

#ifdef C06_ENCLOSE
/* ---- enclose jobs: trusted-algorithm verdict, zero placeholder, releases ---- */
int KSI_isHashAlgorithmTrusted(KSI_HashAlgorithm a) { g_en.trusted_calls++; g_en.trusted_alg = a; g_en.trusted = nondet_bool(); return g_en.trusted; }
int KSI_DataHash_createZero(KSI_CTX *ctx, KSI_HashAlgorithm a, KSI_DataHash **h) {
	static KSI_DataHash z;
	g_en.zero_calls++; g_en.zero_alg = a; g_en.zero_res = nondet_int();
	if (g_en.zero_res == KSI_OK) { z.imprint[0] = (unsigned char)a; g_en.zero = &z; *h = &z; }
	return g_en.zero_res;
}
#endif
#define C06_PDU_ASSUMED \
	"KSI_DataHash_getHashAlg: stub with the body of hash.c:516 (algorithm = first imprint byte)", \
	"KSI_DataHash_equals: arbitrary relation, false on NULL, true on identical pointers (env/c06_pdu.h)", \
	"KSI_DataHash_free: recording stub (env/c06_pdu.h)", \
	"calculateHmac call-back: arbitrary status; on KSI_OK an arbitrary fresh hash object or none"
#endif
