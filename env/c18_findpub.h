/* Ghost model of the publication list for findPublication (C18, builderO): KSI_PublicationsFile_findPublication /
 * KSI_PublicationsFile_findPublicationByTime.  Same technique as env/c18_publist.h / env/c18_certlist.h.
 * The list call-backs are these stubs.  Each fetched element is, nondeterministically,
 *   - an error of the list (any code != OK), - a NULL element, - a record without published data,
 *   - a well-formed record with a fresh publication time and an imprint whose equality with the queried imprint is
 *     decided here (g18f_cur_eq) and reported by the KSI_DataHash_equals stub.
 * The reference scan (first record with the queried time and, when an imprint is queried, the equal imprint) is
 * advanced by the stub; the traversal protocol (in order, each once, stop at the first match / first error) is asserted.
 * findPublication does not keep a pointer across iterations (it breaks at the match): one record slot suffices.
 * Include after types_base.c and impl/publicationsfile_impl.h. */
#ifndef ENV_C18_FINDPUB_H
#define ENV_C18_FINDPUB_H
size_t g18f_len, g18f_calls, g18f_match_calls;    /* match_calls: elements fetched when the match was handed out (0: none) */
unsigned long long g18f_t;                         /* queried time */
_Bool g18f_have_imp;                               /* an imprint is part of the query */
_Bool g18f_cur_eq, g18f_cur_tm_eq;                 /* record handed out last: imprint equal / time equal */
int g18f_err;                                      /* error the scan must stop with (0: none so far) */
size_t g18f_eq_calls, g18f_skipped;                /* imprint comparisons; records with the right time but another imprint */
static char g18f_q_imp_obj, g18f_rec_imp_obj;
struct KSI_Integer_st g18f_tm;
KSI_PublicationData g18f_pd;
KSI_PublicationRecord g18f_rec;
struct KSI_PublicationRecord_list_st g18f_list;

static size_t g18f_length(KSI_LIST(KSI_PublicationRecord) *l) { return g18f_len; }
static int g18f_elementAt(KSI_LIST(KSI_PublicationRecord) *l, size_t pos, KSI_PublicationRecord **o) {
	int kind = nondet_int();
	__CPROVER_assert(g18f_calls < g18f_len, "protocol: no fetch beyond the list");
	__CPROVER_assert(pos == g18f_calls, "protocol: records are taken in order, each once");
	__CPROVER_assert(g18f_match_calls == 0, "protocol: the scan stops at the first match");
	__CPROVER_assert(g18f_err == 0, "protocol: the scan stops at the first error");
	g18f_calls++;
	if (kind == 1) { int e = nondet_int(); __CPROVER_assume(e != KSI_OK); g18f_err = e; return e; }
	if (kind == 2) { g18f_err = KSI_INVALID_STATE; *o = NULL; return KSI_OK; }
	g18f_rec.publishedData = &g18f_pd;
	if (kind == 3) { g18f_err = KSI_INVALID_STATE; g18f_rec.publishedData = NULL; *o = &g18f_rec; return KSI_OK; }
	g18f_tm.value = nondet_ull();
	g18f_cur_tm_eq = (g18f_tm.value == g18f_t);
	g18f_cur_eq = nondet_bool();
	if (g18f_cur_tm_eq && (!g18f_have_imp || g18f_cur_eq)) g18f_match_calls = g18f_calls;
	else if (g18f_cur_tm_eq) g18f_skipped++;
	*o = &g18f_rec;
	return KSI_OK;
}
int KSI_DataHash_equals(const KSI_DataHash *left, const KSI_DataHash *right) {
	__CPROVER_assert(g18f_have_imp && g18f_cur_tm_eq, "protocol: imprints are compared only for a record with the queried time, and only when an imprint is queried");
	__CPROVER_assert((left == (const KSI_DataHash *)&g18f_rec_imp_obj && right == (const KSI_DataHash *)&g18f_q_imp_obj) ||
	                 (right == (const KSI_DataHash *)&g18f_rec_imp_obj && left == (const KSI_DataHash *)&g18f_q_imp_obj), "protocol: the record's imprint is compared with the queried imprint");
	g18f_eq_calls++;
	return g18f_cur_eq;
}
static void g18f_setup(void) {
	memset(&g18f_list, 0, sizeof(g18f_list)); g18f_list.length = g18f_length; g18f_list.elementAt = g18f_elementAt;
	memset(&g18f_rec, 0, sizeof(g18f_rec)); memset(&g18f_pd, 0, sizeof(g18f_pd));
	g18f_rec.ref = 1; g18f_rec.publishedData = &g18f_pd; g18f_pd.ref = 1; g18f_pd.time = &g18f_tm; g18f_pd.imprint = (KSI_DataHash *)&g18f_rec_imp_obj;
	g18f_tm.ref = 1; g18f_tm.value = nondet_ull();
	g18f_len = nondet_size(); g18f_calls = 0; g18f_match_calls = 0; g18f_err = 0; g18f_eq_calls = 0; g18f_skipped = 0; g18f_cur_eq = 0; g18f_cur_tm_eq = 0;
	g18f_t = nondet_ull(); g18f_have_imp = nondet_bool();
}
#define ENV_C18_FINDPUB_ASSUMED "publication list = model list (env/c18_findpub.h): arbitrary length; each element an error, NULL, a record without published data, or a record with a fresh time; KSI_DataHash_equals: assumed to decide equality of imprints (hash.c: C01/C17 jobs)"
#endif
