/* C19 (builderW_net): environment of the request-handle / prepareRequest jobs of obligations/C19/h_oom3_net.c.
 *  - allocation funnels with live-block accounting: env/c19_alloc_env.h with a case split on the element counts the
 *    request / response copies ask for (1..4 octets; 0x10003 = the file client's TLV buffer), so that every buffer has
 *    a CONCRETE size in the symbolic execution.  The call made is still malloc/calloc with exactly the arguments given;
 *    each may fail (--malloc-may-fail --malloc-fail-null), in every combination.                              [ASSUMED]
 *  - request objects, PDUs, integers: counted model blocks with the ownership rules of types.c / types_base.c
 *    (reference counted request owning its request id; a PDU owns the request reference it was enclosed with).  [ASSUMED]
 *  - PDU serialisation: may fail (out of memory with a failed funnel allocation, or another error) leaving the
 *    receivers untouched, or hands out a counted block of OOM3_SER_LEN (default 3, 1..4) arbitrary octets which the CALLER owns.         [ASSUMED]
 *  - transport context blocks (the implCtx of a handle) with a counting destructor.                             [ASSUMED] */
#ifndef ENV_C19_OOM3_NET_ENV_H
#define ENV_C19_OOM3_NET_ENV_H
#include <stdlib.h>
#include <stdarg.h>
#include <stdint.h>
#include "internal.h"

/* -DOOM3_SINGLE_FAULT: stated bound "at most one allocation fails" (the single-fault part of the property's quantifier)
 * for jobs whose every-combination version does not finish; the job's level/bound says so. */
#ifdef OOM3_SINGLE_FAULT
#define OOM3_FAULT_BOUND __CPROVER_assume(g_alloc_failed <= 1)
#else
#define OOM3_FAULT_BOUND ((void)0)
#endif
long g_live;                 /* funnel blocks currently live */
unsigned g_alloc_failed;     /* number of funnel allocations that returned NULL */

void *KSI_malloc(size_t size) {
	void *p;
	if (size == 1) p = malloc(1); else if (size == 2) p = malloc(2); else if (size == 3) p = malloc(3); else if (size == 4) p = malloc(4);
	else p = malloc(size);
	if (p != NULL) g_live++; else g_alloc_failed++;
	OOM3_FAULT_BOUND;
	return p;
}
void *KSI_calloc(size_t num, size_t size) {
	void *p;
	if (num == 1) p = calloc(1, size); else if (num == 2) p = calloc(2, size); else if (num == 3) p = calloc(3, size); else if (num == 4) p = calloc(4, size);
	else if (num == 0x10003) p = calloc(0x10003, size);
	else p = calloc(num, size);
	if (p != NULL) g_live++; else g_alloc_failed++;
	OOM3_FAULT_BOUND;
	return p;
}
void KSI_free(void *ptr) { if (ptr != NULL) { g_live--; free(ptr); } }

void KSI_ERR_clearErrors(KSI_CTX *ctx) { }
void KSI_ERR_push(KSI_CTX *ctx, int statusCode, long extErrorCode, const char *fileName, unsigned int lineNr, const char *message) { }
int KSI_LOG_debug(KSI_CTX *ctx, char *format, ...) { return KSI_OK; }
int KSI_LOG_info(KSI_CTX *ctx, char *format, ...) { return KSI_OK; }
int KSI_LOG_notice(KSI_CTX *ctx, char *format, ...) { return KSI_OK; }
int KSI_LOG_warn(KSI_CTX *ctx, char *format, ...) { return KSI_OK; }
int KSI_LOG_error(KSI_CTX *ctx, char *format, ...) { return KSI_OK; }
int KSI_LOG_logBlob(KSI_CTX *ctx, int level, const char *prefix_format, const unsigned char *data, size_t data_len, ...) { return KSI_OK; }

/* a counted block that is certainly there (harness set-up; not an allocation of the code under test) */
static void *oom3_block(size_t n) { void *p = malloc(n); __CPROVER_assume(p != NULL); g_live++; return p; }
/* an error a callee may report for a reason that is not memory */
static int oom3_other_error(void) { return nondet_bool() ? KSI_INVALID_FORMAT : KSI_NETWORK_ERROR; }

/* ---- transport context of a handle (implCtx) ------------------------------------------------------------------ */
unsigned g_implfree_calls;           /* calls of the implCtx destructor */
void *g_implfree_last;               /* its last argument */
static void oom3_implctx_free(void *p) { g_implfree_calls++; g_implfree_last = p; KSI_free(p); }

#ifdef OOM3_PDU_MODEL
/* ---- request objects, integers, PDUs -------------------------------------------------------------------------- */
struct KSI_Integer_st { size_t ref; uint64_t value; };
struct oom3_req { size_t ref; KSI_Integer *requestId; };
struct KSI_AggregationReq_st { struct oom3_req r; };
struct KSI_ExtendReq_st { struct oom3_req r; };
struct oom3_pdu { struct oom3_req *req; };
struct KSI_AggregationPdu_st { struct oom3_pdu p; };
struct KSI_ExtendPdu_st { struct oom3_pdu p; };
unsigned g_req_released;             /* request objects destroyed (last reference dropped) */
unsigned g_setid_calls;              /* successful setRequestId calls */
_Bool g_enclose_user_ok;             /* enclose was given the endpoint's login id and key */
const char *g_exp_user, *g_exp_pass;

int KSI_Integer_new(KSI_CTX *ctx, KSI_uint64_t value, KSI_Integer **o) {
	KSI_Integer *t = KSI_malloc(sizeof(*t));
	if (t == NULL) return KSI_OUT_OF_MEMORY;
	t->ref = 1; t->value = value; *o = t; return KSI_OK;
}
void KSI_Integer_free(KSI_Integer *o) { if (o != NULL && --o->ref == 0) KSI_free(o); }

static void oom3_req_free(struct oom3_req *r) {
	if (r != NULL && --r->ref == 0) { KSI_Integer_free(r->requestId); g_req_released++; KSI_free(r); }
}
static int oom3_req_setId(struct oom3_req *r, KSI_Integer *id) {
	if (nondet_bool()) return oom3_other_error();          /* a refused setter leaves the integer with the caller */
	KSI_Integer_free(r->requestId); r->requestId = id; g_setid_calls++; return KSI_OK;
}
/* enclose: OK => a fresh PDU that owns the request reference handed in; failure => the reference stays with the caller */
static int oom3_enclose(struct oom3_req *r, const char *user, const char *pass, struct oom3_pdu **pdu) {
	struct oom3_pdu *t;
	g_enclose_user_ok = (user == g_exp_user && pass == g_exp_pass);
	if (nondet_bool()) return oom3_other_error();
	t = KSI_malloc(sizeof(struct KSI_AggregationPdu_st));
	if (t == NULL) return KSI_OUT_OF_MEMORY;
	t->req = r; *pdu = t; return KSI_OK;
}
static void oom3_pdu_free(struct oom3_pdu *p) { if (p != NULL) { oom3_req_free(p->req); KSI_free(p); } }

int KSI_AggregationReq_getRequestId(const KSI_AggregationReq *o, KSI_Integer **id) { if (nondet_bool()) return oom3_other_error(); *id = o->r.requestId; return KSI_OK; }
int KSI_AggregationReq_setRequestId(KSI_AggregationReq *o, KSI_Integer *id) { return oom3_req_setId(&o->r, id); }
KSI_AggregationReq *KSI_AggregationReq_ref(KSI_AggregationReq *o) { if (o != NULL) o->r.ref++; return o; }
void KSI_AggregationReq_free(KSI_AggregationReq *o) { if (o != NULL) oom3_req_free(&o->r); }
int KSI_AggregationReq_enclose(KSI_AggregationReq *req, const char *loginId, const char *key, KSI_AggregationPdu **pdu) { return oom3_enclose(&req->r, loginId, key, (struct oom3_pdu **)pdu); }
void KSI_AggregationPdu_free(KSI_AggregationPdu *o) { if (o != NULL) oom3_pdu_free(&o->p); }

int KSI_ExtendReq_getRequestId(const KSI_ExtendReq *o, KSI_Integer **id) { if (nondet_bool()) return oom3_other_error(); *id = o->r.requestId; return KSI_OK; }
int KSI_ExtendReq_setRequestId(KSI_ExtendReq *o, KSI_Integer *id) { return oom3_req_setId(&o->r, id); }
KSI_ExtendReq *KSI_ExtendReq_ref(KSI_ExtendReq *o) { if (o != NULL) o->r.ref++; return o; }
void KSI_ExtendReq_free(KSI_ExtendReq *o) { if (o != NULL) oom3_req_free(&o->r); }
int KSI_ExtendReq_enclose(KSI_ExtendReq *req, const char *loginId, const char *key, KSI_ExtendPdu **pdu) { return oom3_enclose(&req->r, loginId, key, (struct oom3_pdu **)pdu); }
void KSI_ExtendPdu_free(KSI_ExtendPdu *o) { if (o != NULL) oom3_pdu_free(&o->p); }

/* ---- serialisation -------------------------------------------------------------------------------------------- */
unsigned char g_ser_bytes[4];        /* the octets the last successful serialisation produced */
size_t g_ser_len;                    /* and their number (1..4) */
unsigned char *g_ser_raw;            /* the block handed out (the caller's to release) */
unsigned g_ser_calls;
#ifndef OOM3_SER_LEN
#define OOM3_SER_LEN 3               /* constant per job: a copy of symbolic length does not terminate in CBMC */
#endif
static int oom3_serialize(unsigned char **raw, size_t *len) {
	unsigned char *t; size_t n, i;
	g_ser_calls++;
	if (nondet_bool()) return oom3_other_error();
	n = OOM3_SER_LEN;
	t = KSI_malloc(n);
	if (t == NULL) return KSI_OUT_OF_MEMORY;
	for (i = 0; i < 4; i++) if (i < n) { t[i] = nondet_uchar(); g_ser_bytes[i] = t[i]; }
	g_ser_len = n; g_ser_raw = t;
	*raw = t; *len = n; return KSI_OK;
}
int KSI_AggregationPdu_serialize(const KSI_AggregationPdu *t, unsigned char **raw, size_t *len) { return oom3_serialize(raw, len); }
int KSI_ExtendPdu_serialize(const KSI_ExtendPdu *t, unsigned char **raw, size_t *len) { return oom3_serialize(raw, len); }
#endif /* OOM3_PDU_MODEL */

#define ENV_C19_OOM3_ALLOC_ASSUMED "KSI_malloc/KSI_calloc/KSI_free: pass-through stubs with a ghost live-block counter (env/c19_oom3_net_env.h = env/c19_alloc_env.h with a case split on the small element counts); the pass-through of the real funnels is enforced by C19.base_alloc_*"
#endif
