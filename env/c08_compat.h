/* C08: ghost monitor for two calendar hash chains given as model lists (DESIGN 3.3) and the hash-equality stub.
 * Each fetched link is a fresh arbitrary link (left/right arbitrary, sibling hash = an opaque token); the stubs
 * advance the reference machine of spec/rightlinks.h and assert the call protocol:
 *   - each list is read front to back, one element at a time, never beyond its length;
 *   - KSI_DataHash_equals is asked only for (newest right link of a, newest right link of b) of equal rank.
 * Assumed: KSI_DataHash_equals = arbitrary verdict per compared pair (false on NULL). */
#ifndef ENV_C08_COMPAT_H
#define ENV_C08_COMPAT_H
#include "spec/rightlinks.h"

size_t g_c8_a_len, g_c8_b_len;    /* lengths of the model lists (arbitrary, fixed during the call: not in any frame) */
struct c08_ghost {
	size_t a_calls, b_calls;      /* elements fetched so far */
	spec_rl_state rl;             /* reference machine */
	int eq_calls; int eq_last;    /* KSI_DataHash_equals */
} g_c8;
struct KSI_HashChainLink_st g_c8_alink, g_c8_blink;     /* storage of the element handed out last, per list */
static struct KSI_HashChainLink_list_st g_c8_alist, g_c8_blist;
static char g_c8_atok, g_c8_btok;                        /* opaque sibling hash tokens */
KSI_DataHash *g_c8_atokp, *g_c8_btokp;                   /* = &g_c8_atok, &g_c8_btok (set by the harness) */
const void *g_c8_arg_a, *g_c8_arg_b;                     /* the two chains the right-link check was asked about (recorded through its contract) */
int g_c8_in_eq_calls, g_c8_in_eq;                        /* comparison of the input hashes (top-level job) */
const KSI_DataHash *g_c8_in_a, *g_c8_in_b;              /* input hashes of the two chains (top-level job) */

static size_t c08_stub_length(KSI_LIST(KSI_HashChainLink) *l) {
	__CPROVER_assert(l == &g_c8_alist || l == &g_c8_blist, "length of one of the two chains");
	return l == &g_c8_alist ? g_c8_a_len : g_c8_b_len;
}

static int c08_stub_elementAt(KSI_LIST(KSI_HashChainLink) *l, size_t pos, KSI_HashChainLink **o) {
	__CPROVER_assert(l == &g_c8_alist || l == &g_c8_blist, "element of one of the two chains");
	if (l == &g_c8_alist) {
		__CPROVER_assert(g_c8.a_calls < g_c8_a_len, "protocol: no fetch beyond chain a");
		__CPROVER_assert(pos == g_c8.a_calls, "protocol: chain a is read front to back, each link once");
		g_c8_alink.isLeft = nondet_bool(); g_c8_alink.imprint = g_c8_atokp;
		spec_rl_fetch_a(&g_c8.rl, g_c8_alink.isLeft);
		g_c8.a_calls++;
		*o = &g_c8_alink;
	} else {
		__CPROVER_assert(g_c8.b_calls < g_c8_b_len, "protocol: no fetch beyond chain b");
		__CPROVER_assert(pos == g_c8.b_calls, "protocol: chain b is read front to back, each link once");
		g_c8_blink.isLeft = nondet_bool(); g_c8_blink.imprint = g_c8_btokp;
		spec_rl_fetch_b(&g_c8.rl, g_c8_blink.isLeft);
		g_c8.b_calls++;
		*o = &g_c8_blink;
	}
	return KSI_OK;
}

int KSI_DataHash_equals(const KSI_DataHash *left, const KSI_DataHash *right) {
	int v;
#ifdef C08_TOPLEVEL
	__CPROVER_assert(left == g_c8_in_a && right == g_c8_in_b, "the input hashes of a and b are compared");
	g_c8_in_eq_calls++;
	v = (left != NULL && right != NULL) ? (left == right ? 1 : nondet_bool()) : 0;
	g_c8_in_eq = v;
	return v;
#else
	__CPROVER_assert(left == g_c8_atokp && right == g_c8_btokp, "a link of a is compared with a link of b");
	__CPROVER_assert(!g_c8_alink.isLeft, "the compared link of a is a right link");
	__CPROVER_assert(!g_c8_blink.isLeft, "the compared link of b is a right link (not a stale left link)");
	__CPROVER_assert(spec_rl_may_compare(&g_c8.rl), "the k-th right link of a is compared with the k-th right link of b");
	v = nondet_bool();
	g_c8.eq_last = v;
	spec_rl_compared(&g_c8.rl, v);
	return v;
#endif
}
#endif
