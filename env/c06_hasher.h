/* C06: transcript monitor for the data hasher under hmac.c (DESIGN 3.3).
 * The hasher (hash.c / OpenSSL) is replaced by stubs that follow the RFC 2104 reference machine written from
 * spec/hmac.h: every call is checked against the phase the reference is in (order) and against the bytes the
 * reference expects (key block ^ ipad, key block ^ opad, inner digest); digests are fresh arbitrary values.
 *
 * Assumed:  strlen(key) = the key length L (arbitrary; the key is key[0..L));
 *           KSI_HashAlgorithm_getBlockSize / KSI_getHashLength: arbitrary but fixed values B and D;
 *           KSI_DataHash_extract / KSI_DataHash_ref / KSI_DataHash_free: reference-counting stubs with the
 *           field semantics of hash.c (digest = imprint+1, length = imprint_length-1).
 */
#ifndef ENV_C06_HASHER_H
#define ENV_C06_HASHER_H
#include "impl/hash_impl.h"
#include "spec/hmac.h"

enum { HP_NONE, HP_OPENED, HP_KEYADDED, HP_KEYHASHED, HP_INNER_RESET, HP_INNER_MSG, HP_INNER_CLOSED,
       HP_OUTER_RESET, HP_OUTER_PAD, HP_OUTER_INNER, HP_DONE, HP_BROKEN };

/* inputs fixed by the harness */
const unsigned char *g_hk;           /* key bytes */
size_t g_hk_len;                     /* L */
unsigned g_hb;                       /* B = block size reported for the algorithm */
unsigned g_hd;                       /* D = digest length reported / produced */
int g_halg;
size_t g_hw;                         /* witness index into the padded key blocks */
unsigned char g_h_k0_wit;            /* byte g_hw of the key digest (when the key is hashed) */
/* monitor state */
int g_hp;                            /* phase */
int g_h_open_calls, g_h_free_calls, g_h_fail;   /* g_h_fail: a hasher call reported an error */
KSI_DataHash *g_h_keyhash, *g_h_inner, *g_h_outer;
const void *g_h_msg; size_t g_h_msg_len; int g_h_msg_adds;
int g_h_hash_live;                   /* hash objects allocated and not yet released */
static char g_h_obj;                 /* the hasher object handed out */

size_t strlen(const char *s) {
	__CPROVER_assert((const unsigned char *)s == g_hk, "strlen is only taken of the key");
	return g_hk_len;
}
unsigned int KSI_HashAlgorithm_getBlockSize(KSI_HashAlgorithm a) { __CPROVER_assert((int)a == g_halg, "block size of the requested algorithm"); return g_hb; }
unsigned int KSI_getHashLength(KSI_HashAlgorithm a) { __CPROVER_assert((int)a == g_halg, "digest length of the requested algorithm"); return g_hd; }

static int c06_h_status(void) { int r = nondet_int(); if (r != KSI_OK) g_h_fail = 1; return r; }

int KSI_DataHasher_open(KSI_CTX *ctx, KSI_HashAlgorithm a, KSI_DataHasher **h) {
	int r;
	__CPROVER_assert(g_hp == HP_NONE && g_h_open_calls == 0, "protocol: one hasher is opened, once");
	__CPROVER_assert((int)a == g_halg, "hasher of the requested algorithm");
	g_h_open_calls++;
	r = c06_h_status();
	if (r == KSI_OK) { *h = (KSI_DataHasher *)&g_h_obj; g_hp = HP_OPENED; }
	return r;
}

int KSI_DataHasher_reset(KSI_DataHasher *h) {
	int r;
	__CPROVER_assert(h == (KSI_DataHasher *)&g_h_obj, "the opened hasher");
	/* K0 is known now: the key itself (L <= B) or the digest of the key (L > B) */
	__CPROVER_assert((g_hp == HP_OPENED && g_hk_len <= g_hb) || g_hp == HP_KEYHASHED || g_hp == HP_INNER_CLOSED,
			"protocol: reset only before the inner pass (key hashed first iff L > B) and before the outer pass");
	r = c06_h_status();
	if (r == KSI_OK) g_hp = (g_hp == HP_INNER_CLOSED) ? HP_OUTER_RESET : HP_INNER_RESET; else g_hp = HP_BROKEN;
	return r;
}

static void c06_check_pad_block(const unsigned char *d, size_t len, unsigned char pad) {
	/* K0: the key itself, or the digest of the key (its length D and its byte at the witness index were recorded
	 * when the digest was made - the object itself is released by hmac.c before the outer pass) */
	size_t k0_len = g_hk_len > g_hb ? (size_t)g_hd : g_hk_len;
	unsigned char k0_wit = g_hw < k0_len ? (g_hk_len > g_hb ? g_h_k0_wit : g_hk[g_hw]) : 0;
	__CPROVER_assert(len == g_hb, "RFC 2104: the padded key block has the block size");
	__CPROVER_assert(k0_len <= g_hb, "RFC 2104: effective key not longer than a block");
	/* content: checked at the witness index g_hw, an arbitrary position chosen up front (stands for every i < B) */
	if (g_hw < len)
		__CPROVER_assert(d[g_hw] == spec_hmac_block_byte(g_hw < k0_len, k0_wit, pad), "RFC 2104: block = (K0 padded with zeros) xor pad");
}

int KSI_DataHasher_add(KSI_DataHasher *h, const void *data, size_t len) {
	int r;
	__CPROVER_assert(h == (KSI_DataHasher *)&g_h_obj, "the opened hasher");
	switch (g_hp) {
	case HP_OPENED:
		__CPROVER_assert(g_hk_len > g_hb, "RFC 2104: only a key longer than the block is hashed");
		__CPROVER_assert(data == (const void *)g_hk && len == g_hk_len, "RFC 2104: the whole key is hashed");
		g_hp = HP_KEYADDED; break;
	case HP_INNER_RESET:
		c06_check_pad_block(data, len, SPEC_HMAC_IPAD);
		g_hp = HP_INNER_MSG; break;
	case HP_INNER_MSG:
		if (g_h_msg_adds == 0) { g_h_msg = data; g_h_msg_len = len; }
		g_h_msg_adds++; break;
	case HP_OUTER_RESET:
		c06_check_pad_block(data, len, SPEC_HMAC_OPAD);
		g_hp = HP_OUTER_PAD; break;
	case HP_OUTER_PAD:
		__CPROVER_assert(data == (const void *)(g_h_inner->imprint + 1) && len == g_h_inner->imprint_length - 1,
				"RFC 2104: the outer pass hashes the inner digest (without algorithm byte)");
		g_hp = HP_OUTER_INNER; break;
	default:
		__CPROVER_assert(0, "protocol: data added in a phase where the reference adds none");
	}
	r = c06_h_status();
	if (r != KSI_OK) g_hp = HP_BROKEN;
	return r;
}

static KSI_DataHash *c06_new_hash(void) {
	KSI_DataHash *x = malloc(sizeof(KSI_DataHash));
	if (x == NULL) return NULL;
	x->ref = 1; x->ctx = NULL;
	x->imprint[0] = (unsigned char)g_halg;
	x->imprint_length = (size_t)g_hd + 1;
	g_h_hash_live++;
	return x;
}

int KSI_DataHasher_close(KSI_DataHasher *h, KSI_DataHash **out) {
	int r; KSI_DataHash *x;
	__CPROVER_assert(h == (KSI_DataHasher *)&g_h_obj, "the opened hasher");
	__CPROVER_assert(g_hp == HP_KEYADDED || g_hp == HP_INNER_MSG || g_hp == HP_OUTER_INNER, "protocol: close ends the key, inner or outer pass");
	r = c06_h_status();
	if (r != KSI_OK) { g_hp = HP_BROKEN; return r; }
	x = c06_new_hash();
	if (x == NULL) { g_h_fail = 1; g_hp = HP_BROKEN; return KSI_OUT_OF_MEMORY; }
	if (g_hp == HP_KEYADDED) { g_h_keyhash = x; g_hp = HP_KEYHASHED; if (g_hw < g_hd) g_h_k0_wit = x->imprint[1 + g_hw]; }
	else if (g_hp == HP_INNER_MSG) { g_h_inner = x; g_hp = HP_INNER_CLOSED; }
	else { g_h_outer = x; g_hp = HP_DONE; }
	*out = x;
	return KSI_OK;
}

void KSI_DataHasher_free(KSI_DataHasher *h) { if (h != NULL) { __CPROVER_assert(h == (KSI_DataHasher *)&g_h_obj, "the opened hasher"); g_h_free_calls++; } }

int KSI_DataHash_extract(const KSI_DataHash *hash, KSI_HashAlgorithm *algo_id, const unsigned char **digest, size_t *digest_length) {
	if (hash == NULL) return KSI_INVALID_ARGUMENT;
	if (digest_length != NULL) *digest_length = hash->imprint_length - 1;
	if (algo_id != NULL) *algo_id = hash->imprint[0];
	if (digest != NULL) *digest = hash->imprint + 1;
	return KSI_OK;
}
KSI_DataHash *KSI_DataHash_ref(KSI_DataHash *h) { if (h != NULL) h->ref++; return h; }
void KSI_DataHash_free(KSI_DataHash *h) { if (h != NULL && --h->ref == 0) { g_h_hash_live--; free(h); } }

#define C06_HASHER_ASSUMED \
	"KSI_DataHasher_open/reset/add/close/free: transcript monitor stubs, arbitrary status, fresh arbitrary digests (env/c06_hasher.h)", \
	"strlen(key): returns the key length L (arbitrary value; key bytes are key[0..L))", \
	"KSI_HashAlgorithm_getBlockSize / KSI_getHashLength: arbitrary fixed values B, D", \
	"KSI_DataHash_extract/ref/free: reference-counting stubs with the field semantics of hash.c"
#endif
