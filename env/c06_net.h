/* C06 environment for the response getters of net.c (KSI_RequestHandle_getAggregationResponse / getExtendResponse).
 * net.c reaches the PDU only through the API of types.c.  The PDU is therefore modelled as an abstract data type:
 * a record of its elements, with getter/setter stubs that do what the KSI_IMPLEMENT_GETTER/SETTER macros do.
 *   *_parse            : arbitrary status; on OK a fresh PDU whose elements are arbitrarily present/absent   [assumed]
 *   *Pdu_verify        : arbitrary verdict, recorded (contract enforced on the real body: jobs C06.aggr_pdu_verify /
 *                        C06.ext_pdu_verify)
 *   *Pdu_verifyHmac    : arbitrary verdict, recorded (real body covered by the same jobs)
 *   *_free             : recording stubs (what is released, and that a delivered object is never released)
 *   configuration call-back of the context: records its argument, asserts "only after a successful verification".
 */
#ifndef ENV_C06_NET_H
#define ENV_C06_NET_H
#include "impl/ctx_impl.h"
#include "impl/net_impl.h"

struct KSI_Integer_st { KSI_uint64_t value; };
struct KSI_ErrorPdu_st { KSI_Integer *status; KSI_Utf8String *errorMsg; };
struct KSI_Config_st { int dummy; };
struct KSI_Header_st { int dummy; };
struct c06_resp_model { KSI_Config *config; int is_new; };
struct KSI_AggregationResp_st { struct c06_resp_model m; };
struct KSI_ExtendResp_st { struct c06_resp_model m; };
struct c06_pdu_model {
	KSI_Header *header; KSI_DataHash *hmac; KSI_ErrorPdu *error;
	void *response; KSI_Config *confResponse;
};
struct KSI_AggregationPdu_st { struct c06_pdu_model m; };
struct KSI_ExtendPdu_st { struct c06_pdu_model m; };
struct KSI_AggregationReq_st { KSI_DataHash *requestHash; KSI_Config *config; };
struct KSI_ExtendReq_st { KSI_Integer *aggregationTime; KSI_Config *config; };

/* ---- ghost ---- */
struct c06_net_ghost {
	int parse_calls, parse_res; const unsigned char *parse_raw; size_t parse_len; void *pdu;
	int verify_calls, verify_res; const void *verify_pdu; const char *verify_key;
	int verified;                         /* set when *_verify / *_verifyHmac returned OK for the parsed PDU */
	int pdu_free_calls; void *pdu_freed_response; KSI_Config *pdu_freed_conf;
	int resp_free_calls; int conf_free_calls; int resp_new_calls;
	int cb_calls, cb_res; KSI_Config *cb_conf; int cb_before_verify;
	void *orig_response; KSI_Config *orig_conf;     /* elements of the PDU as parsed */
	int orig_has_error, orig_has_header, orig_has_hmac;
} g_net;

/* the objects a parsed PDU may consist of, and the response object KSI_*Resp_new hands out */
struct c06_net_objs {
	struct KSI_Header_st hdr; struct KSI_ErrorPdu_st err; struct KSI_Integer_st err_status; struct c06_resp_model resp; struct KSI_Config_st conf; char macobj;
	struct c06_resp_model new_resp;
	struct c06_pdu_model pdu;
} g_net_o;
#define hdr g_net_o.hdr
#define err g_net_o.err
#define resp g_net_o.resp
#define conf g_net_o.conf
#define macobj g_net_o.macobj
static struct c06_pdu_model *c06_new_pdu(void *obj) {
	struct c06_pdu_model *m = obj;
	m->header = nondet_bool() ? &hdr : NULL;
	m->hmac = nondet_bool() ? (KSI_DataHash *)&macobj : NULL;
	m->error = nondet_bool() ? &err : NULL;
	g_net_o.err_status.value = nondet_ull();     /* the status of an error PDU is mandatory in its template */
	err.status = &g_net_o.err_status; err.errorMsg = NULL;
	resp.config = NULL; resp.is_new = 0;
	m->response = nondet_bool() ? &resp : NULL;
	m->confResponse = nondet_bool() ? &conf : NULL;
	g_net.orig_response = m->response; g_net.orig_conf = m->confResponse;
	g_net.orig_has_error = m->error != NULL; g_net.orig_has_header = m->header != NULL; g_net.orig_has_hmac = m->hmac != NULL;
	return m;
}
#undef hdr
#undef err
#undef resp
#undef conf
#undef macobj

static int c06_parse(KSI_CTX *ctx, const unsigned char *raw, size_t len, void **t, void *storage) {
	g_net.parse_calls++; g_net.parse_raw = raw; g_net.parse_len = len;
	g_net.parse_res = nondet_int();
	if (g_net.parse_res == KSI_OK) { c06_new_pdu(storage); g_net.pdu = storage; *t = storage; }
	return g_net.parse_res;
}
int KSI_AggregationPdu_parse(KSI_CTX *ctx, const unsigned char *raw, size_t len, KSI_AggregationPdu **t) { return c06_parse(ctx, raw, len, (void **)t, &g_net_o.pdu); }
int KSI_ExtendPdu_parse(KSI_CTX *ctx, const unsigned char *raw, size_t len, KSI_ExtendPdu **t) { return c06_parse(ctx, raw, len, (void **)t, &g_net_o.pdu); }

static int c06_verify(const void *pdu, const char *pass) {
	g_net.verify_calls++; g_net.verify_pdu = pdu; g_net.verify_key = pass;
	g_net.verify_res = nondet_int();
	if (g_net.verify_res == KSI_OK && pdu == g_net.pdu) g_net.verified = 1;
	return g_net.verify_res;
}
/* KSI_AggregationPdu_verify: OK only with header and MAC (contract of job C06.aggr_pdu_verify) */
int KSI_AggregationPdu_verify(const KSI_AggregationPdu *pdu, const char *pass) {
	int r = c06_verify(pdu, pass);
	if (r == KSI_OK && (pdu == NULL || pass == NULL || pdu->m.header == NULL || pdu->m.hmac == NULL)) { g_net.verified = 0; g_net.verify_res = r = KSI_INVALID_FORMAT; }
	return r;
}
int KSI_ExtendPdu_verify(const KSI_ExtendPdu *pdu, const char *pass) {
	int r = c06_verify(pdu, pass);
	if (r == KSI_OK && (pdu == NULL || pass == NULL || pdu->m.header == NULL || pdu->m.hmac == NULL)) { g_net.verified = 0; g_net.verify_res = r = KSI_INVALID_FORMAT; }
	return r;
}
/* KSI_*Pdu_verifyHmac alone does NOT look at the header (types.c:1038) */
int KSI_ExtendPdu_verifyHmac(const KSI_ExtendPdu *pdu, const char *pass) { return c06_verify(pdu, pass); }
int KSI_AggregationPdu_verifyHmac(const KSI_AggregationPdu *pdu, const char *pass) { return c06_verify(pdu, pass); }

#define C06_GET(T, field, Name, FT) int T##_get##Name(const T *o, FT *v) { if (o == NULL || v == NULL) return KSI_INVALID_ARGUMENT; *v = (FT)o->m.field; return KSI_OK; }
#define C06_SET(T, field, Name, FT) int T##_set##Name(T *o, FT v) { if (o == NULL) return KSI_INVALID_ARGUMENT; o->m.field = v; return KSI_OK; }
C06_GET(KSI_AggregationPdu, error, Error, KSI_ErrorPdu *) C06_GET(KSI_ExtendPdu, error, Error, KSI_ErrorPdu *)
C06_GET(KSI_AggregationPdu, header, Header, KSI_Header *) C06_GET(KSI_ExtendPdu, header, Header, KSI_Header *)
C06_GET(KSI_AggregationPdu, hmac, Hmac, KSI_DataHash *) C06_GET(KSI_ExtendPdu, hmac, Hmac, KSI_DataHash *)
C06_GET(KSI_AggregationPdu, response, Response, KSI_AggregationResp *) C06_GET(KSI_ExtendPdu, response, Response, KSI_ExtendResp *)
C06_SET(KSI_AggregationPdu, response, Response, KSI_AggregationResp *) C06_SET(KSI_ExtendPdu, response, Response, KSI_ExtendResp *)
C06_GET(KSI_AggregationPdu, confResponse, ConfResponse, KSI_Config *) C06_GET(KSI_ExtendPdu, confResponse, ConfResponse, KSI_Config *)
C06_SET(KSI_AggregationPdu, confResponse, ConfResponse, KSI_Config *) C06_SET(KSI_ExtendPdu, confResponse, ConfResponse, KSI_Config *)
C06_SET(KSI_AggregationResp, config, Config, KSI_Config *) C06_SET(KSI_ExtendResp, config, Config, KSI_Config *)

int KSI_ErrorPdu_getErrorMessage(const KSI_ErrorPdu *o, KSI_Utf8String **v) { if (o == NULL || v == NULL) return KSI_INVALID_ARGUMENT; *v = o->errorMsg; return KSI_OK; }
int KSI_ErrorPdu_getStatus(const KSI_ErrorPdu *o, KSI_Integer **v) { if (o == NULL || v == NULL) return KSI_INVALID_ARGUMENT; *v = o->status; return KSI_OK; }
KSI_uint64_t KSI_Integer_getUInt64(const KSI_Integer *o) { return o != NULL ? o->value : 0; }   /* = types_base.c:597 */
const char *KSI_Utf8String_cstr(const KSI_Utf8String *o) { return "msg"; }

int KSI_AggregationReq_getRequestHash(const KSI_AggregationReq *o, KSI_DataHash **v) { if (o == NULL || v == NULL) return KSI_INVALID_ARGUMENT; *v = o->requestHash; return KSI_OK; }
int KSI_AggregationReq_getConfig(const KSI_AggregationReq *o, KSI_Config **v) { if (o == NULL || v == NULL) return KSI_INVALID_ARGUMENT; *v = o->config; return KSI_OK; }
int KSI_ExtendReq_getAggregationTime(const KSI_ExtendReq *o, KSI_Integer **v) { if (o == NULL || v == NULL) return KSI_INVALID_ARGUMENT; *v = o->aggregationTime; return KSI_OK; }
int KSI_ExtendReq_getConfig(const KSI_ExtendReq *o, KSI_Config **v) { if (o == NULL || v == NULL) return KSI_INVALID_ARGUMENT; *v = o->config; return KSI_OK; }

#define c06_new_resp_obj g_net_o.new_resp
static int c06_resp_new(void **t) {
	g_net.resp_new_calls++;
	if (nondet_bool()) return KSI_OUT_OF_MEMORY;
	c06_new_resp_obj.config = NULL; c06_new_resp_obj.is_new = 1;
	*t = &c06_new_resp_obj;
	return KSI_OK;
}
int KSI_AggregationResp_new(KSI_CTX *ctx, KSI_AggregationResp **t) { return c06_resp_new((void **)t); }
int KSI_ExtendResp_new(KSI_CTX *ctx, KSI_ExtendResp **t) { return c06_resp_new((void **)t); }

static void c06_pdu_free(struct c06_pdu_model *m) {
	if (m == NULL) return;
	g_net.pdu_free_calls++; g_net.pdu_freed_response = m->response; g_net.pdu_freed_conf = m->confResponse;
}
void KSI_AggregationPdu_free(KSI_AggregationPdu *t) { c06_pdu_free(t ? &t->m : NULL); }
void KSI_ExtendPdu_free(KSI_ExtendPdu *t) { c06_pdu_free(t ? &t->m : NULL); }
void KSI_AggregationResp_free(KSI_AggregationResp *t) { if (t != NULL) g_net.resp_free_calls++; }
void KSI_ExtendResp_free(KSI_ExtendResp *t) { if (t != NULL) g_net.resp_free_calls++; }
void KSI_Config_free(KSI_Config *t) { if (t != NULL) g_net.conf_free_calls++; }

/* the user's configuration call-back (KSI_OPT_*_CONF_RECEIVED_CALLBACK) */
static int c06_conf_cb(KSI_CTX *ctx, KSI_Config *conf) {
	g_net.cb_calls++; g_net.cb_conf = conf;
	if (!g_net.verified) g_net.cb_before_verify = 1;
	g_net.cb_res = nondet_int();
	return g_net.cb_res;
}
#endif
