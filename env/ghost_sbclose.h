/* env/ghost_sbclose.h - environment of C07.sb_close* (obligations/C07/sb_close.c): KSI_SignatureBuilder_close.
 * REAL in these jobs: KSI_SignatureBuilder_close, checkSignatureInternals, addRootLevel / updateLevelCorrection / add
 * (signature_builder.c).  ASSUMED (recording stubs, arbitrary status): the aggregation chain list (model list: length,
 * sort, elementAt), hash chain / integer / TLV / template services, KSI_Signature_clone, the verifier
 * KSI_SignatureVerifier_verify (C05 / C01), KSI_VerificationContext_init / _clean (policy.c:921-957: bodies reproduced,
 * plus the ghost "initialised" flag).  Every stub stamps the global step counter so that the ORDER of the steps is visible. */
#ifndef ENV_GHOST_SBCLOSE_H
#define ENV_GHOST_SBCLOSE_H
#include "spec/sb_view.h"
#include "policy.h"
#include "impl/signature_impl.h"
#include "impl/signature_builder_impl.h"

struct KSI_Integer_st { KSI_uint64_t value; };
struct KSI_HashChainLink_st { KSI_Integer *levelCorrection; };
struct KSI_AggregationHashChain_st { int dummy; };
struct KSI_TLV_st { unsigned tag; };

struct sbc_ghost {
	unsigned step;
	/* verification context */
	unsigned init_calls; int init_res; _Bool ctx_inited; unsigned clean_calls, clean_of_uninitialised; const void *ctx_obj;
	/* aggregation chain list */
	size_t len; unsigned len_calls, len_step; unsigned sort_calls, sort_step; int sort_res; const void *sort_cmp, *sort_list;
	/* base TLV */
	unsigned tlvnew_calls, tlvnew_step; int tlv_live; unsigned base_new_calls; const void *base_obj;      /* base_*: the KSI_TLV_new(0x800) call */
	unsigned construct_calls; int construct_res;
	unsigned sigconstruct_calls; int sigconstruct_res; const void *sigconstruct_tlv, *sigconstruct_payload;   /* construct with the KSI_Signature template */
	/* root level */
	_Bool has_old; KSI_uint64_t old_value; unsigned set_calls, set_step; KSI_uint64_t set_value; int int_live; unsigned replace_calls; int replace_res;
	/* verification */
	unsigned clone_calls, clone_step; int clone_res; const void *clone_from, *clone_obj; unsigned clone_free_calls, foreign_sig_free;
	unsigned verify_calls, verify_step; int verify_res, verify_code; const void *verify_policy, *verify_sig, *verify_ctx;
	unsigned result_free_calls;
} g_sc;

static struct KSI_AggregationHashChain_st g_sc_aggr, g_sc_scratch; static struct KSI_HashChainLink_st g_sc_link; static struct KSI_Integer_st g_sc_oldint;
static struct KSI_AggregationHashChain_list_st g_sc_chainlist; static struct KSI_HashChainLink_list_st g_sc_linklist; static struct KSI_TLV_list_st g_sc_tlvlist;
static size_t g_sc_tl_len; static struct KSI_TLV_st g_sc_el;
static KSI_PolicyVerificationResult g_sc_result;
static const struct KSI_Policy_st g_sc_internal_policy;
const KSI_Policy *KSI_VERIFICATION_POLICY_INTERNAL = &g_sc_internal_policy;

KSI_IMPORT_TLV_TEMPLATE(KSI_Signature);
static int sbc_status(void) { return nondet_int(); }

/* policy.c:931 */
int KSI_VerificationContext_init(KSI_VerificationContext *context, KSI_CTX *ctx) {
	g_sc.init_calls++; g_sc.step++;
	if (context == NULL || ctx == NULL) return g_sc.init_res = KSI_INVALID_ARGUMENT;
	context->ctx = ctx; context->signature = NULL; context->extendingAllowed = 0; context->docAggrLevel = 0; context->documentHash = NULL;
	context->userPublication = NULL; context->userPublicationsFile = NULL; context->tempData = NULL;
	g_sc.ctx_inited = 1; g_sc.ctx_obj = context;
	return g_sc.init_res = KSI_OK;
}
/* policy.c:921: looks at context->tempData and releases what it points to: the context must have been initialised */
void KSI_VerificationContext_clean(KSI_VerificationContext *context) {
	g_sc.clean_calls++; g_sc.step++;
	if (context != NULL) {
		/* (a ghost flag, not "tempData == NULL": CBMC merges an unassigned local with the value of the paths that did assign it,
		 * so a read of the uninitialised field would go unnoticed) */
		if (!g_sc.ctx_inited) g_sc.clean_of_uninitialised++;
		__CPROVER_assert(g_sc.ctx_inited, "KSI_VerificationContext_clean is given an initialised context (it releases whatever context->tempData points to)");
		if (g_sc.ctx_inited) context->tempData = NULL;
	}
}
/* aggregation chain list */
static size_t sbc_chain_length(KSI_LIST(KSI_AggregationHashChain) *l) { g_sc.len_calls++; g_sc.len_step = ++g_sc.step; return g_sc.len; }
static int sbc_chain_sort(KSI_LIST(KSI_AggregationHashChain) *l, int (*cmp)(const KSI_AggregationHashChain **, const KSI_AggregationHashChain **)) {
	g_sc.sort_calls++; g_sc.sort_step = ++g_sc.step; g_sc.sort_cmp = (const void *)cmp; g_sc.sort_list = l; return g_sc.sort_res = sbc_status();
}
static int sbc_chain_elementAt(KSI_LIST(KSI_AggregationHashChain) *l, size_t pos, KSI_AggregationHashChain **o) { int r = sbc_status(); if (r == KSI_OK) *o = &g_sc_aggr; return r; }
int KSI_AggregationHashChain_compare(const KSI_AggregationHashChain **l, const KSI_AggregationHashChain **r) { return nondet_int(); }
int KSI_AggregationHashChain_getChain(const KSI_AggregationHashChain *aggr, KSI_LIST(KSI_HashChainLink) **chain) { int r = sbc_status(); if (r == KSI_OK) *chain = &g_sc_linklist; return r; }
static int sbc_link_elementAt(KSI_LIST(KSI_HashChainLink) *l, size_t pos, KSI_HashChainLink **o) { int r = sbc_status(); if (r == KSI_OK) *o = &g_sc_link; return r; }
int KSI_HashChainLink_getLevelCorrection(const KSI_HashChainLink *t, KSI_Integer **v) { if (t == NULL || v == NULL) return KSI_INVALID_ARGUMENT; *v = t->levelCorrection; return KSI_OK; }
int KSI_HashChainLink_setLevelCorrection(KSI_HashChainLink *t, KSI_Integer *v) {
	int r = sbc_status();
	g_sc.set_calls++; g_sc.set_step = ++g_sc.step;
	if (t == NULL) r = KSI_INVALID_ARGUMENT;
	if (r == KSI_OK) { t->levelCorrection = v; g_sc.set_value = v != NULL ? v->value : 0; }
	return r;
}
KSI_uint64_t KSI_Integer_getUInt64(const KSI_Integer *o) { return o != NULL ? o->value : 0; }
int KSI_Integer_new(KSI_CTX *ctx, KSI_uint64_t v, KSI_Integer **o) {
	KSI_Integer *t;
	if (nondet_bool()) return KSI_OUT_OF_MEMORY;
	t = malloc(sizeof(struct KSI_Integer_st)); if (t == NULL) return KSI_OUT_OF_MEMORY;
	t->value = v; g_sc.int_live++; *o = t; return KSI_OK;
}
void KSI_Integer_free(KSI_Integer *o) { if (o != NULL) { g_sc.int_live--; if (o != &g_sc_oldint) free(o); } }
/* TLV */
int KSI_TLV_new(KSI_CTX *ctx, unsigned tag, int isLenient, int isForward, KSI_TLV **tlv) {
	KSI_TLV *t;
	g_sc.tlvnew_calls++; g_sc.tlvnew_step = ++g_sc.step;
	if (tag == 0x800) g_sc.base_new_calls++;
	if (nondet_bool()) return KSI_OUT_OF_MEMORY;
	t = malloc(sizeof(struct KSI_TLV_st)); if (t == NULL) return KSI_OUT_OF_MEMORY;
	t->tag = tag; g_sc.tlv_live++; if (tag == 0x800) g_sc.base_obj = t; *tlv = t; return KSI_OK;
}
void KSI_TLV_free(KSI_TLV *t) { if (t != NULL) { g_sc.tlv_live--; free(t); } }
unsigned KSI_TLV_getTag(const KSI_TLV *tlv) { return tlv != NULL ? tlv->tag : 0; }
int KSI_TlvTemplate_construct(KSI_CTX *ctx, KSI_TLV *tlv, const void *payload, const KSI_TlvTemplate *tmpl) {
	int r = sbc_status();
	g_sc.construct_calls++; g_sc.step++; g_sc.construct_res = r;
	if (tmpl == KSI_TLV_TEMPLATE(KSI_Signature)) { g_sc.sigconstruct_calls++; g_sc.sigconstruct_res = r; g_sc.sigconstruct_tlv = tlv; g_sc.sigconstruct_payload = payload; }
	return r;
}
int KSI_TlvTemplate_extract(KSI_CTX *ctx, void *payload, KSI_TLV *tlv, const KSI_TlvTemplate *tmpl) { return sbc_status(); }
int KSI_TLV_getNestedList(KSI_TLV *tlv, KSI_LIST(KSI_TLV) **list) { int r = sbc_status(); if (r == KSI_OK) *list = &g_sc_tlvlist; return r; }
static size_t sbc_tlv_length(KSI_LIST(KSI_TLV) *l) { return g_sc_tl_len; }
static int sbc_tlv_elementAt(KSI_LIST(KSI_TLV) *l, size_t pos, KSI_TLV **o) { int r = sbc_status(); if (r == KSI_OK) { g_sc_el.tag = nondet_uint(); *o = &g_sc_el; } return r; }
int KSI_AggregationHashChain_new(KSI_CTX *ctx, KSI_AggregationHashChain **out) { if (nondet_bool()) return KSI_OUT_OF_MEMORY; *out = &g_sc_scratch; return KSI_OK; }
void KSI_AggregationHashChain_free(KSI_AggregationHashChain *t) { }
int KSI_TLV_replaceNestedTlv(KSI_TLV *parent, KSI_TLV *oldTlv, KSI_TLV *newTlv) {
	g_sc.replace_calls++; g_sc.step++; g_sc.replace_res = sbc_status();
	if (g_sc.replace_res == KSI_OK && newTlv != NULL) { g_sc.tlv_live--; free(newTlv); }           /* ownership moves into the parent */
	return g_sc.replace_res;
}
/* verification */
int KSI_Signature_clone(const KSI_Signature *sig, KSI_Signature **clone) {
	KSI_Signature *t;
	g_sc.clone_calls++; g_sc.clone_step = ++g_sc.step; g_sc.clone_from = sig; g_sc.clone_res = sbc_status();
	if (g_sc.clone_res != KSI_OK) return g_sc.clone_res;
	t = malloc(sizeof(struct KSI_Signature_st)); if (t == NULL) return g_sc.clone_res = KSI_OUT_OF_MEMORY;
	g_sc.clone_obj = t; *clone = t; return KSI_OK;
}
void KSI_Signature_free(KSI_Signature *sig) {
	if (sig != NULL) { if (sig == g_sc.clone_obj) { g_sc.clone_free_calls++; free(sig); } else g_sc.foreign_sig_free++; }
}
int KSI_SignatureVerifier_verify(const KSI_Policy *policy, KSI_VerificationContext *context, KSI_PolicyVerificationResult **result) {
	g_sc.verify_calls++; g_sc.verify_step = ++g_sc.step; g_sc.verify_policy = policy; g_sc.verify_ctx = context; g_sc.verify_sig = context != NULL ? context->signature : NULL;
	g_sc.verify_res = sbc_status(); g_sc.verify_code = nondet_int();
	__CPROVER_assume(g_sc.verify_code == KSI_VER_RES_OK || g_sc.verify_code == KSI_VER_RES_NA || g_sc.verify_code == KSI_VER_RES_FAIL);     /* domain of the enum */
	if (g_sc.verify_res != KSI_OK) return g_sc.verify_res;
	g_sc_result.finalResult.resultCode = g_sc.verify_code; g_sc_result.resultCode = g_sc.verify_code;
	*result = &g_sc_result;
	return KSI_OK;
}
void KSI_PolicyVerificationResult_free(KSI_PolicyVerificationResult *r) { if (r != NULL) { __CPROVER_assert(r == &g_sc_result, "release of the verifier's result"); g_sc.result_free_calls++; } }

static void sbc_init(void) {
	memset(&g_sc, 0, sizeof(g_sc));
	g_sc_chainlist.length = sbc_chain_length; g_sc_chainlist.sort = sbc_chain_sort; g_sc_chainlist.elementAt = sbc_chain_elementAt;
	g_sc_linklist.elementAt = sbc_link_elementAt;
	g_sc_tlvlist.length = sbc_tlv_length; g_sc_tlvlist.elementAt = sbc_tlv_elementAt;
	g_sc.len = nondet_size(); g_sc_tl_len = nondet_size();
	__CPROVER_assume(g_sc_tl_len <= 1);        /* TLV child list walked by the inlined updateLevelCorrection (its own contract: C07.builder_addRootLevel, any length) */
	g_sc.has_old = nondet_bool(); g_sc.old_value = nondet_ull(); g_sc.int_live = g_sc.has_old ? 1 : 0;
	g_sc_oldint.value = g_sc.old_value; g_sc_link.levelCorrection = g_sc.has_old ? &g_sc_oldint : NULL;
}
#endif
