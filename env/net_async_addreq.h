/* Environment of net_async.c addRequest() for C13: the 11 request/PDU call-backs, the two transport call-backs and
 * the KSI_Header / KSI_Config / request destructors it reaches, as stubs with arbitrary (ghost) results.  [ASSUMED]
 *  - request-id getter/setter: record the id that is put on the wire (g_ar_reqid_set)
 *  - enclose / serialize / transport add / request new / config get+set / handle new: OK or an arbitrary error
 *  - transport add (c->addRequest): on OK it keeps the reference it was given
 *  - KSI_Header_*, KSI_Config_ref/free, KSI_AggregationReq_free, KSI_ExtendReq_free: no effect on the cache */
#ifndef ENV_NET_ASYNC_ADDREQ_H
#define ENV_NET_ASYNC_ADDREQ_H
#include "env/common.h"
#include "net_async.h"
#include "impl/net_async_impl.h"

struct ar_obj { int dummy; };
static struct ar_obj g_ar_req, g_ar_req2, g_ar_pdu, g_ar_hdr, g_ar_cfg;
static struct KSI_Integer_st g_ar_oldid = {0, 5};     /* ref 0: KSI_Integer_free leaves it alone (like a pooled integer) */
static KSI_AsyncHandle g_ar_confh;                     /* the separate configuration handle created for a multi-payload request */
unsigned long long g_ar_reqid_set;                     /* request id stored into the request (0 = cleared) */
int g_ar_getid_res, g_ar_setid_res, g_ar_transport_adds, g_ar_has_oldid;

static void ar_init(void) {
	g_ar_reqid_set = 0; g_ar_transport_adds = 0;
	g_ar_getid_res = nondet_int(); g_ar_setid_res = nondet_int(); g_ar_has_oldid = nondet_bool();
	/* the call-backs never report the client's own 'cache full' code */
	__CPROVER_assume(g_ar_getid_res != KSI_ASYNC_REQUEST_CACHE_FULL && g_ar_setid_res != KSI_ASYNC_REQUEST_CACHE_FULL);
	memset(&g_ar_confh, 0, sizeof(g_ar_confh));
	g_ar_confh.ref = 1; g_ar_confh.state = KSI_ASYNC_STATE_WAITING_FOR_DISPATCH;
}
int ar_getRequestId(const void *req, KSI_Integer **id) { if (g_ar_getid_res != KSI_OK) return g_ar_getid_res; *id = g_ar_has_oldid ? &g_ar_oldid : NULL; return KSI_OK; }
int ar_setRequestId(void *req, KSI_Integer *id) {
	if (g_ar_setid_res != KSI_OK) return g_ar_setid_res;
	g_ar_reqid_set = id == NULL ? 0 : id->value;
	if (id != NULL) KSI_Integer_free(id);             /* the request owns the integer from now on (released with the request) */
	return KSI_OK;
}
int ar_getConfig(const void *req, KSI_Config **cfg) { if (nondet_bool()) return KSI_INVALID_ARGUMENT; *cfg = (KSI_Config *)&g_ar_cfg; return KSI_OK; }
int ar_setConfig(void *req, KSI_Config *cfg) { return nondet_bool() ? KSI_OK : KSI_INVALID_ARGUMENT; }
int ar_req_new(KSI_CTX *ctx, void **req) { if (nondet_bool()) return KSI_OUT_OF_MEMORY; *req = &g_ar_req2; return KSI_OK; }
void ar_req_free(void *req) { }
void *ar_req_ref(void *req) { return req; }
int ar_enclose(void *req, KSI_Header *hdr, const char *key, void **pdu) { if (nondet_bool()) return KSI_INVALID_FORMAT; *pdu = &g_ar_pdu; return KSI_OK; }
unsigned char *g_ar_raw_last;            /* ghost: the buffer produced by the last successful serialization */
int ar_serialize(const void *pdu, unsigned char **raw, size_t *len) { unsigned char *p; if (nondet_bool()) return KSI_INVALID_FORMAT; p = malloc(4); if (p == NULL) return KSI_OUT_OF_MEMORY; *raw = p; *len = 4; g_ar_raw_last = p; return KSI_OK; }
void ar_pdu_free(void *pdu) { }
int ar_handle_new(KSI_CTX *ctx, void *req, KSI_AsyncHandle **h) { if (nondet_bool()) return KSI_OUT_OF_MEMORY; *h = &g_ar_confh; return KSI_OK; }
int ar_impl_add(void *impl, KSI_AsyncHandle *h) { g_ar_transport_adds++; return nondet_bool() ? KSI_OK : KSI_ASYNC_NOT_FINISHED; }
int ar_impl_cred(void *impl, const char **user, const char **pass) { if (nondet_bool()) return KSI_INVALID_STATE; if (user) *user = "u"; if (pass) *pass = "p"; return KSI_OK; }

/* ctx->asyncHandleRecycle is NULL in the harness; gives the guarded function-pointer call on it a concrete target */
int ar_recycle_append(KSI_LIST(KSI_AsyncHandle) *l, KSI_AsyncHandle *h) { __CPROVER_assert(0, "recycle list is absent"); return KSI_INVALID_STATE; }
int KSI_Header_new(KSI_CTX *ctx, KSI_Header **t) { if (nondet_bool()) return KSI_OUT_OF_MEMORY; *t = (KSI_Header *)&g_ar_hdr; return KSI_OK; }
void KSI_Header_free(KSI_Header *t) { }
int KSI_Header_setLoginId(KSI_Header *t, KSI_Utf8String *v) { KSI_Utf8String_free(v); return KSI_OK; }
int KSI_Header_setInstanceId(KSI_Header *t, KSI_Integer *v) { KSI_Integer_free(v); return KSI_OK; }
int KSI_Header_setMessageId(KSI_Header *t, KSI_Integer *v) { KSI_Integer_free(v); return KSI_OK; }
KSI_Config *KSI_Config_ref(KSI_Config *c) { return c; }
void KSI_Config_free(KSI_Config *c) { }
void KSI_AggregationReq_free(KSI_AggregationReq *r) { }
void KSI_ExtendReq_free(KSI_ExtendReq *r) { }
#define ENV_NET_ASYNC_ADDREQ_ASSUMED "addRequest call-backs (request id get/set, config get/set, request new/ref/free, enclose, serialize, pdu free, handle new), transport add / credentials, KSI_Header_*, KSI_Config_ref/free, request destructors: stubs with arbitrary results and no effect on the cache (env/net_async_addreq.h)"
#endif
