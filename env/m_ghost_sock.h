/* builderM - C14 blocking reader (jobs listed under C09): ghost socket for io.c:KSI_IO_readSocket.
 * recv() IS the byte stream: each call delivers between 1 and `n` arbitrary octets (partial reads), or 0 (peer closed),
 * or -1 with an arbitrary errno (time-out, reset, EINTR, ...).  It counts the octets delivered and asserts the call
 * protocol: same descriptor, octets stored contiguously behind what was delivered so far, never more requested than
 * the caller's buffer still holds, no call after EOF / a hard error.                                    [ASSUMED: socket layer]
 * Loop-free (runs under dfcc instrumentation). */
#ifndef ENV_M_GHOST_SOCK_H
#define ENV_M_GHOST_SOCK_H
#include <errno.h>
#include <sys/types.h>
#include <sys/socket.h>

int g_sk_fd;                  /* the descriptor the caller must pass through */
unsigned char *g_sk_buf;      /* caller's buffer and size */
size_t g_sk_size;
size_t g_sk_delivered;        /* octets delivered so far == octets stored in the buffer */
size_t g_sk_calls;            /* recv calls that were not interrupted (EINTR) */
_Bool g_sk_eof, g_sk_err;     /* peer closed / hard error seen: no further call allowed */
int g_sk_errno;               /* errno of the hard error */
int g_sk_errno_cell;          /* errno itself */
int *__errno_location(void) { return &g_sk_errno_cell; }

ssize_t recv(int fd, void *dst, size_t n, int flags) {
	ssize_t c = (ssize_t)nondet_ll();
	__CPROVER_assert(fd == g_sk_fd, "socket protocol: descriptor passed through");
	__CPROVER_assert(!g_sk_eof && !g_sk_err, "socket protocol: no read after EOF or a hard error");
	__CPROVER_assert(n > 0 && n <= g_sk_size - g_sk_delivered, "socket protocol: never asks for more than the buffer still holds");
	__CPROVER_assert((unsigned char *)dst == g_sk_buf + g_sk_delivered, "socket protocol: octets are stored contiguously behind those already received");
	if (c < 0) {
		g_sk_errno_cell = nondet_int();
		if (g_sk_errno_cell != EINTR) { g_sk_err = 1; g_sk_errno = g_sk_errno_cell; g_sk_calls++; }
		return -1;
	}
	if (c == 0) { g_sk_eof = 1; g_sk_calls++; return 0; }
	if ((size_t)c > n) c = (ssize_t)n;
	__CPROVER_assert(__CPROVER_w_ok(dst, (size_t)c), "socket: destination writable for the octets that arrive");
	g_sk_delivered += (size_t)c; g_sk_calls++;
	return c;
}
#endif
